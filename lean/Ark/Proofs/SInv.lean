/-
  Ark.Proofs.SInv — the STRUCTURAL invariant tying archetypes and tables together (design
  invariants I4, I9, I10), its preservation by component registration, archetype creation and
  table creation / recycling, and the specification of `findOrCreateTableAdd`.
  Kernel-only proofs, core Lean only.

  Two layers:
  * `SInvMid w` — everything that holds at EVERY point of `storage.go`, including the moment
    between `createArchetype` and `createTable` inside `findOrCreateTable*`, when the new
    archetype has no table yet (`nonRelLe`: a non-relation archetype has AT MOST one table);
  * `SInv w` = `SInvMid w` + `settled`: every non-relation archetype has EXACTLY one table
    (what `getCacheTables`, `resetArchetype` rely on when they read `tables[0]` unguarded).
  `createArchetype` takes `SInv` to `SInvMid` (+ every other archetype settled), `createTable`
  on the unsettled archetype restores `SInv`.

  Deviations from the design's field list (all forced by the model):
  * `maskReg` (every mask bit is a registered component) is added: it makes
    `comps = mask.toList kinds.length` stable under `registerComponent`;
  * `relCols` (every relation a table lists names one of its relation columns) is added; the
    stronger `relIDs.length = numRel` is FALSE in reachable states (a relation list may name the
    same relation component twice, see Ark/Props/C01Struct.lean §7);
  * `root` (table 0 belongs to archetype 0, the archetype of the empty mask) is added so that
    the creation call `findOrCreateTableAdd 0 Mask.empty …` is an instance of the general one;
  * `nonRel` is split into `nonRelLe` (`≤ 1`, in `SInvMid`) and `settled` (`= 1`, in `SInv`).
  A third, independent invariant `RInv` (the relation indices `relationTables`/`targetTables` of
  every archetype = `Archetype.IndexInv` against the targets stored in the world's tables) is
  needed exactly where `getTable` walks a relation index (2e for archetypes with relations).

  Main results: `sinv_init`, `RInv.init`; `SInv.registerComponent` (2a); `SInv.createArchetype`
  (2b); `SInv.findOrCreateArch` (2c); `createTable_eq` / `createTable_ok` (decomposition into
  checks, storage part, cache part; the first loop `checkRelList` with the check added by the
  repair of defect D18: `checkRelList_nil_eq_none_iff`, `createTable_ok_nodup`,
  `createTable_not_nodup`), `SInvMid.createTable` (2d, result record `CreatedTable`),
  `SInvMid.createTable_total` (success under `CacheRelsOK`); `getTable_state`,
  `getTable_some_mem` (2e; the duplicate scan added to the slow path by the repair of defect D26:
  `namedTwice_nil_eq_false_iff`); `SInv.findOrCreateTableAdd_of_ok(_rinv)` (3, general, on success),
  `SInv.findOrCreateTableAdd_spec(_new)` (3, total, relation-free case),
  `findOrCreateTableAdd_reject`.
-/
import Ark.Model.World
import Ark.Proofs.TableIDs
import Ark.Proofs.ArchIndex
import Ark.Proofs.Table
import Ark.Proofs.MaskLemmas
import Ark.Proofs.IdxInv

namespace Ark

open World

/-! ## the invariant -/

/-- The structural invariant that holds at every point of `storage.go`. -/
structure SInvMid (w : World) : Prop where
  /-- an archetype's `id` is its position -/
  archId : ∀ (a : Nat) (A : Archetype), w.archetypes[a]? = some A → A.id = a
  /-- no two archetypes have the same mask -/
  maskUniq : ∀ (a b : Nat) (A B : Archetype), w.archetypes[a]? = some A →
    w.archetypes[b]? = some B → A.mask = B.mask → a = b
  /-- every bit of an archetype's mask is a registered component (this is what makes `comps`
      stable under `registerComponent`) -/
  maskReg : ∀ (a : Nat) (A : Archetype), w.archetypes[a]? = some A →
    ∀ (c : Nat), A.mask.get c = true → c < w.kinds.length
  /-- the column list is the ascending list of mask bits; metadata lists have its length -/
  comps : ∀ (a : Nat) (A : Archetype), w.archetypes[a]? = some A →
    A.comps = A.mask.toList w.kinds.length ∧ A.isRel.length = A.comps.length ∧
      A.zst.length = A.comps.length
  /-- per-column metadata agrees with the registry -/
  kindsOf : ∀ (a : Nat) (A : Archetype) (i : Nat) (c : Comp), w.archetypes[a]? = some A →
    A.comps[i]? = some c →
      A.isRel.getD i false = (w.kinds.getD c {}).isRel ∧ A.zst.getD i false = (w.kinds.getD c {}).zst
  /-- a table belongs to an existing archetype and copies its layout; its `id` is its position -/
  tblArch : ∀ (t : Nat) (T : Table), w.tables[t]? = some T →
    ∃ (A : Archetype), w.archetypes[T.arch]? = some A ∧ T.ids = A.comps ∧ T.isRel = A.isRel ∧
      T.zst = A.zst ∧ T.id = t
  /-- every relation a table lists names one of its relation columns -/
  relCols : ∀ (t : Nat) (T : Table), w.tables[t]? = some T → ∀ (r : RelID), r ∈ T.relIDs →
    ∃ (i : Nat), T.ids[i]? = some r.comp ∧ T.isRel.getD i false = true
  /-- `isFree` is exactly membership in the owner's free list; otherwise the table is active -/
  member : ∀ (t : Nat) (T : Table), w.tables[t]? = some T →
    (T.isFree = false ↔ t ∈ (w.arch T.arch).tables.tables) ∧
    (T.isFree = true ↔ t ∈ (w.arch T.arch).freeTables)
  /-- tables listed by an archetype exist and point back at it -/
  owned : ∀ (a : Nat) (A : Archetype) (t : Nat), w.archetypes[a]? = some A →
    (t ∈ A.tables.tables ∨ t ∈ A.freeTables) → ∃ (T : Table), w.tables[t]? = some T ∧ T.arch = a
  /-- the archetype-local structure (table list well-formed, free list duplicate-free and
      disjoint from it, metadata lengths, `numRel`) -/
  astruct : ∀ (a : Nat) (A : Archetype), w.archetypes[a]? = some A → A.Struct
  /-- a non-relation archetype has at most one table and never a free one -/
  nonRelLe : ∀ (a : Nat) (A : Archetype), w.archetypes[a]? = some A → A.hasRelations = false →
    A.tables.tables.length ≤ 1 ∧ A.freeTables = []
  /-- table 0 is the table of archetype 0, the archetype of the empty mask -/
  root : 0 < w.tables.length ∧ (w.tbl 0).arch = 0 ∧ (w.arch 0).mask = Mask.empty

/-- archetype `a` (if it exists and has no relation column) has its one table -/
def SettledAt (w : World) (a : Nat) : Prop :=
  ∀ (A : Archetype), w.archetypes[a]? = some A → A.hasRelations = false →
    A.tables.tables.length = 1

/-- The structural invariant of a world between two storage operations. -/
structure SInv (w : World) : Prop extends SInvMid w where
  settled : ∀ (a : Nat), SettledAt w a

namespace World

/-! ### accessor lemmas for archetypes -/

theorem arch_of_get {w : World} {a : Nat} {A : Archetype} (h : w.archetypes[a]? = some A) :
    w.arch a = A := by
  simp [arch, List.getD_eq_getElem?_getD, h]

theorem aget_of_lt {w : World} {a : Nat} (h : a < w.archetypes.length) :
    w.archetypes[a]? = some (w.arch a) := by
  simp [arch, List.getD_eq_getElem?_getD, List.getElem?_eq_getElem h]

theorem alt_of_get {w : World} {a : Nat} {A : Archetype} (h : w.archetypes[a]? = some A) :
    a < w.archetypes.length := by
  rcases Nat.lt_or_ge a w.archetypes.length with h1 | h1
  · exact h1
  · rw [List.getElem?_eq_none h1] at h; cases h

end World

namespace SInvMid

/-- the invariant mentions only archetypes, tables and the registry -/
theorem congr {w w' : World} (h : SInvMid w) (ha : w'.archetypes = w.archetypes)
    (ht : w'.tables = w.tables) (hk : w'.kinds = w.kinds) : SInvMid w' := by
  have harch : ∀ a, w'.arch a = w.arch a := fun a => by simp only [arch, ha]
  have htbl : ∀ t, w'.tbl t = w.tbl t := fun t => by simp only [tbl, ht]
  refine ⟨?_, ?_, ?_, ?_, ?_, ?_, ?_, ?_, ?_, ?_, ?_, ?_⟩
  · rw [ha]; exact h.archId
  · rw [ha]; exact h.maskUniq
  · rw [ha, hk]; exact h.maskReg
  · rw [ha, hk]; exact h.comps
  · rw [ha, hk]; exact h.kindsOf
  · rw [ha, ht]; exact h.tblArch
  · rw [ht]; exact h.relCols
  · rw [ht]; intro t T hT; rw [harch]; exact h.member t T hT
  · rw [ha, ht]; exact h.owned
  · rw [ha]; exact h.astruct
  · rw [ha]; exact h.nonRelLe
  · rw [ht, htbl, harch]; exact h.root

end SInvMid

theorem SettledAt.congr {w w' : World} {a : Nat} (h : SettledAt w a)
    (ha : w'.archetypes = w.archetypes) : SettledAt w' a := by
  unfold SettledAt; rw [ha]; exact h

theorem SInv.congr {w w' : World} (h : SInv w) (ha : w'.archetypes = w.archetypes)
    (ht : w'.tables = w.tables) (hk : w'.kinds = w.kinds) : SInv w' :=
  { h.toSInvMid.congr ha ht hk with settled := fun a => (h.settled a).congr ha }

/-- the `nonRel` field in the form of the design: exactly one table, no free table -/
theorem SInv.nonRel {w : World} (h : SInv w) (a : Nat) (A : Archetype)
    (hA : w.archetypes[a]? = some A) (hr : A.hasRelations = false) :
    A.tables.tables.length = 1 ∧ A.freeTables = [] :=
  ⟨h.settled a A hA hr, (h.nonRelLe a A hA hr).2⟩

theorem getElem?_singleton_some {α : Type} {x y : α} {i : Nat} (h : [x][i]? = some y) :
    i = 0 ∧ y = x := by
  cases i with
  | zero => simp at h; exact ⟨rfl, h.symm⟩
  | succ n => simp at h

theorem sinvMid_init (cap rel maxComps : Nat) : SInvMid (World.init cap rel maxComps) := by
  have hA : (World.init cap rel maxComps).archetypes = [Archetype.new 0 Mask.empty [] [] [] [0]] := rfl
  have hT : (World.init cap rel maxComps).tables = [Table.new 0 0 [] [] [] cap [] []] := rfl
  have hK : (World.init cap rel maxComps).kinds = [] := rfl
  have harch0 : (World.init cap rel maxComps).arch 0 = Archetype.new 0 Mask.empty [] [] [] [0] := rfl
  refine ⟨?_, ?_, ?_, ?_, ?_, ?_, ?_, ?_, ?_, ?_, ?_, ?_⟩
  · intro a A h; rw [hA] at h
    obtain ⟨rfl, rfl⟩ := getElem?_singleton_some h; rfl
  · intro a b A B h1 h2 _; rw [hA] at h1 h2
    obtain ⟨rfl, _⟩ := getElem?_singleton_some h1
    obtain ⟨rfl, _⟩ := getElem?_singleton_some h2; rfl
  · intro a A h c hc; rw [hA] at h
    obtain ⟨rfl, rfl⟩ := getElem?_singleton_some h
    simp [Archetype.new] at hc
  · intro a A h; rw [hA] at h
    obtain ⟨rfl, rfl⟩ := getElem?_singleton_some h
    rw [hK]; exact ⟨rfl, rfl, rfl⟩
  · intro a A i c h hc; rw [hA] at h
    obtain ⟨rfl, rfl⟩ := getElem?_singleton_some h
    simp [Archetype.new] at hc
  · intro t T h; rw [hT] at h
    obtain ⟨rfl, rfl⟩ := getElem?_singleton_some h
    exact ⟨_, by rw [hA]; rfl, rfl, rfl, rfl, rfl⟩
  · intro t T h r hr; rw [hT] at h
    obtain ⟨rfl, rfl⟩ := getElem?_singleton_some h
    simp [Table.new] at hr
  · intro t T h; rw [hT] at h
    obtain ⟨rfl, rfl⟩ := getElem?_singleton_some h
    show (false = false ↔ 0 ∈ ((World.init cap rel maxComps).arch 0).tables.tables) ∧
      (false = true ↔ 0 ∈ ((World.init cap rel maxComps).arch 0).freeTables)
    rw [harch0]
    simp [Archetype.new, TableIDs.ofList]
  · intro a A t h ht; rw [hA] at h
    obtain ⟨rfl, rfl⟩ := getElem?_singleton_some h
    simp [Archetype.new, TableIDs.ofList] at ht
    subst ht
    exact ⟨_, by rw [hT]; rfl, rfl⟩
  · intro a A h; rw [hA] at h
    obtain ⟨rfl, rfl⟩ := getElem?_singleton_some h
    exact ⟨TableIDs.wf_ofList [0] (by simp), List.nodup_nil, by intro t _ h; simp [Archetype.new] at h,
      rfl, rfl, rfl⟩
  · intro a A h _; rw [hA] at h
    obtain ⟨rfl, rfl⟩ := getElem?_singleton_some h
    simp [Archetype.new, TableIDs.ofList]
  · exact ⟨by rw [hT]; simp, rfl, rfl⟩

theorem sinv_init (cap rel : Nat) (maxComps : Nat := 256) : SInv (World.init cap rel maxComps) :=
  { sinvMid_init cap rel maxComps with
    settled := by
      intro a A h _
      have hA : (World.init cap rel maxComps).archetypes = [Archetype.new 0 Mask.empty [] [] [] [0]] := rfl
      rw [hA] at h
      obtain ⟨rfl, rfl⟩ := getElem?_singleton_some h
      simp [Archetype.new, TableIDs.ofList] }

theorem Mask.toList_succ_of_not (m : Mask) (n : Nat) (h : m.get n = false) :
    m.toList (n + 1) = m.toList n := by
  simp [Mask.toList, List.range_succ, List.filter_append, h]

theorem getD_append_left' {α : Type} (l : List α) (x d : α) (i : Nat) (h : i < l.length) :
    (l ++ [x]).getD i d = l.getD i d := by
  simp [List.getD_eq_getElem?_getD, List.getElem?_append_left h]

namespace SInvMid

/-- registering one more component type keeps the invariant -/
theorem kinds_append {w w' : World} (h : SInvMid w) (k : CompKind)
    (ha : w'.archetypes = w.archetypes) (ht : w'.tables = w.tables)
    (hk : w'.kinds = w.kinds ++ [k]) : SInvMid w' := by
  have harch : ∀ a, w'.arch a = w.arch a := fun a => by simp only [arch, ha]
  have htbl : ∀ t, w'.tbl t = w.tbl t := fun t => by simp only [tbl, ht]
  refine ⟨?_, ?_, ?_, ?_, ?_, ?_, ?_, ?_, ?_, ?_, ?_, ?_⟩
  · rw [ha]; exact h.archId
  · rw [ha]; exact h.maskUniq
  · rw [ha, hk]; intro a A hA c hc
    have := h.maskReg a A hA c hc
    simp only [List.length_append, List.length_singleton]; omega
  · rw [ha, hk]; intro a A hA
    obtain ⟨h1, h2, h3⟩ := h.comps a A hA
    refine ⟨?_, h2, h3⟩
    simp only [List.length_append, List.length_singleton]
    rw [Mask.toList_succ_of_not _ _ ?_]; exact h1
    cases hg : A.mask.get w.kinds.length with
    | false => rfl
    | true => exact absurd (h.maskReg a A hA _ hg) (Nat.lt_irrefl _)
  · rw [ha, hk]; intro a A i c hA hc
    have hmem : c ∈ A.comps := List.mem_of_getElem? hc
    rw [(h.comps a A hA).1, Mask.mem_toList] at hmem
    rw [getD_append_left' _ _ _ _ hmem.1]
    exact h.kindsOf a A i c hA hc
  · rw [ha, ht]; exact h.tblArch
  · rw [ht]; exact h.relCols
  · rw [ht]; intro t T hT; rw [harch]; exact h.member t T hT
  · rw [ha, ht]; exact h.owned
  · rw [ha]; exact h.astruct
  · rw [ha]; exact h.nonRelLe
  · rw [ht, htbl, harch]; exact h.root

end SInvMid

namespace World

theorem registerComponent_ok {k : CompKind} {w w' : World} {n : Nat}
    (h : registerComponent k w = .ok n w') :
    n = w.kinds.length ∧ w'.kinds = w.kinds ++ [k] ∧ w'.archetypes = w.archetypes ∧
      w'.tables = w.tables ∧ w'.entities = w.entities ∧ w'.pool = w.pool ∧ w'.cache = w.cache := by
  unfold registerComponent at h
  simp only at h
  split at h
  · cases h
  · split at h
    · cases h
    · injection h with h1 h2
      subst h2
      exact ⟨h1.symm, rfl, rfl, rfl, rfl, rfl, rfl⟩

/-- the two ways `registerComponent` fails leave the state unchanged -/
theorem registerComponent_panic {k : CompKind} {w w' : World} {p : PanicKind}
    (h : registerComponent k w = .panic p w') : w' = w := by
  unfold registerComponent at h
  simp only at h
  split at h
  · injection h with _ h2; exact h2.symm
  · split at h
    · injection h with _ h2; exact h2.symm
    · cases h

end World

/-- **2a** `registerComponent` (on success) keeps the structural invariant. -/
theorem SInv.registerComponent {w w' : World} (h : SInv w) {k : CompKind} {n : Nat}
    (hr : World.registerComponent k w = .ok n w') : SInv w' := by
  obtain ⟨_, hk, ha, ht, _⟩ := registerComponent_ok hr
  exact { h.toSInvMid.kinds_append k ha ht hk with settled := fun a => (h.settled a).congr ha }

theorem IdxInv.registerComponent {w w' : World} (h : IdxInv w) {k : CompKind} {n : Nat}
    (hr : World.registerComponent k w = .ok n w') : IdxInv w' := by
  obtain ⟨_, _, _, ht, he, _⟩ := registerComponent_ok hr
  exact h.congr he ht

/-! ## (2b) `createArchetype` -/

theorem getElem?_concat_cases {α : Type} {l : List α} {x y : α} {i : Nat}
    (h : (l ++ [x])[i]? = some y) : (i < l.length ∧ l[i]? = some y) ∨ (i = l.length ∧ y = x) := by
  rcases Nat.lt_or_ge i l.length with hlt | hge
  · rw [List.getElem?_append_left hlt] at h; exact Or.inl ⟨hlt, h⟩
  · rw [List.getElem?_append_right hge] at h
    obtain ⟨h0, hy⟩ := getElem?_singleton_some h
    exact Or.inr ⟨by omega, hy⟩

theorem foldl_keep {α β : Type} (f : World → α → World) (p : World → β)
    (hf : ∀ (w : World) (x : α), p (f w x) = p w) :
    ∀ (l : List α) (w : World), p (l.foldl f w) = p w
  | [], _ => rfl
  | x :: l, w => by rw [List.foldl_cons, foldl_keep f p hf l, hf]

namespace World

/-- the archetype `createArchetype mask` appends -/
def newArch (w : World) (mask : Mask) : Archetype :=
  Archetype.new w.archetypes.length mask (mask.toList w.kinds.length)
    ((mask.toList w.kinds.length).map fun c => (w.kinds.getD c {}).isRel)
    ((mask.toList w.kinds.length).map fun c => (w.kinds.getD c {}).zst) []

/-- one step of the `componentIndex` / registry update loop of `createArchetype` -/
def caStep (id : Nat) (w : World) (c : Comp) : World :=
  { w with componentIndex := w.componentIndex.modify c (· ++ [id])
           archCount := w.archCount.modify c (· + 1)
           version := w.version + 1 }

/-- the state `createArchetype mask` produces -/
def createArchetypeW (w : World) (mask : Mask) : World :=
  let w2 := (mask.toList w.kinds.length).foldl (caStep w.archetypes.length)
    { w with archetypes := w.archetypes ++ [newArch w mask] }
  if (newArch w mask).hasRelations then
    { w2 with relationArchetypes := w2.relationArchetypes ++ [w.archetypes.length] }
  else w2

theorem createArchetype_eq (mask : Mask) (w : World) :
    createArchetype mask w = .ok w.archetypes.length (createArchetypeW w mask) := rfl

theorem createArchetypeW_proj {β : Type} (p : World → β)
    (h1 : ∀ (w : World) (id : Nat) (c : Comp), p (caStep id w c) = p w)
    (h2 : ∀ (w : World) (l : List Nat), p { w with relationArchetypes := l } = p w)
    (w : World) (mask : Mask) :
    p (createArchetypeW w mask) = p { w with archetypes := w.archetypes ++ [newArch w mask] } := by
  unfold createArchetypeW
  simp only
  split
  · rw [h2]; exact foldl_keep _ p (fun w c => h1 w _ c) _ _
  · exact foldl_keep _ p (fun w c => h1 w _ c) _ _

/-- `createArchetype` always succeeds, appends `newArch` and touches neither tables, registry,
    entity index, pool nor cache (it updates `componentIndex`, `archCount`, `version`,
    `relationArchetypes`). -/
theorem createArchetype_ok (mask : Mask) (w : World) :
    ∃ (w' : World), createArchetype mask w = .ok w.archetypes.length w' ∧
      w'.archetypes = w.archetypes ++ [newArch w mask] ∧ w'.tables = w.tables ∧
      w'.kinds = w.kinds ∧ w'.entities = w.entities ∧ w'.pool = w.pool ∧ w'.cache = w.cache :=
  ⟨_, createArchetype_eq mask w,
    createArchetypeW_proj (·.archetypes) (fun _ _ _ => rfl) (fun _ _ => rfl) w mask,
    createArchetypeW_proj (·.tables) (fun _ _ _ => rfl) (fun _ _ => rfl) w mask,
    createArchetypeW_proj (·.kinds) (fun _ _ _ => rfl) (fun _ _ => rfl) w mask,
    createArchetypeW_proj (·.entities) (fun _ _ _ => rfl) (fun _ _ => rfl) w mask,
    createArchetypeW_proj (·.pool) (fun _ _ _ => rfl) (fun _ _ => rfl) w mask,
    createArchetypeW_proj (·.cache) (fun _ _ _ => rfl) (fun _ _ => rfl) w mask⟩

theorem findArch_none {w : World} {mask : Mask} (h : w.findArch mask = none) :
    ∀ (a : Nat) (A : Archetype), w.archetypes[a]? = some A → A.mask ≠ mask := by
  intro a A hA he
  unfold findArch at h
  rw [Option.map_eq_none_iff, List.find?_eq_none] at h
  have := h A (List.mem_of_getElem? hA)
  simp [he] at this

theorem newArch_hasRelations_numRel (w : World) (mask : Mask) :
    (newArch w mask).tables.tables = [] ∧ (newArch w mask).freeTables = [] ∧
    (newArch w mask).mask = mask ∧ (newArch w mask).id = w.archetypes.length := ⟨rfl, rfl, rfl, rfl⟩

end World

theorem getD_map_of_get {α β : Type} (l : List α) (f : α → β) (d : β) {i : Nat} {x : α}
    (h : l[i]? = some x) : (l.map f).getD i d = f x := by
  simp [List.getD_eq_getElem?_getD, List.getElem?_map, h]

/-- appending the archetype of a new mask (all of whose bits are registered) keeps `SInvMid` -/
theorem SInvMid.append_arch {w w' : World} (h : SInvMid w) (mask : Mask)
    (hnone : w.findArch mask = none) (hreg : ∀ (c : Nat), mask.get c = true → c < w.kinds.length)
    (ha : w'.archetypes = w.archetypes ++ [newArch w mask]) (ht : w'.tables = w.tables)
    (hk : w'.kinds = w.kinds) : SInvMid w' := by
  have harch : ∀ a, a < w.archetypes.length → w'.arch a = w.arch a := by
    intro a hlt
    simp only [arch, ha, List.getD_eq_getElem?_getD, List.getElem?_append_left hlt]
  have htbl : ∀ t, w'.tbl t = w.tbl t := fun t => by simp only [tbl, ht]
  have hold : ∀ {a : Nat} {A : Archetype}, w.archetypes[a]? = some A → w'.archetypes[a]? = some A := by
    intro a A hA
    rw [ha, List.getElem?_append_left (alt_of_get hA)]; exact hA
  have hne := findArch_none hnone
  refine ⟨?_, ?_, ?_, ?_, ?_, ?_, ?_, ?_, ?_, ?_, ?_, ?_⟩
  · intro a A hA; rw [ha] at hA
    rcases getElem?_concat_cases hA with ⟨_, h1⟩ | ⟨rfl, rfl⟩
    · exact h.archId a A h1
    · rfl
  · intro a b A B hA hB hm; rw [ha] at hA hB
    rcases getElem?_concat_cases hA with ⟨_, h1⟩ | ⟨rfl, rfl⟩
    · rcases getElem?_concat_cases hB with ⟨_, h2⟩ | ⟨rfl, rfl⟩
      · exact h.maskUniq a b A B h1 h2 hm
      · exact absurd hm (hne a A h1)
    · rcases getElem?_concat_cases hB with ⟨_, h2⟩ | ⟨rfl, rfl⟩
      · exact absurd hm.symm (hne b B h2)
      · rfl
  · intro a A hA c hc; rw [ha] at hA; rw [hk]
    rcases getElem?_concat_cases hA with ⟨_, h1⟩ | ⟨rfl, rfl⟩
    · exact h.maskReg a A h1 c hc
    · exact hreg c hc
  · intro a A hA; rw [ha] at hA; rw [hk]
    rcases getElem?_concat_cases hA with ⟨_, h1⟩ | ⟨rfl, rfl⟩
    · exact h.comps a A h1
    · exact ⟨rfl, by simp [newArch, Archetype.new], by simp [newArch, Archetype.new]⟩
  · intro a A i c hA hc; rw [ha] at hA; rw [hk]
    rcases getElem?_concat_cases hA with ⟨_, h1⟩ | ⟨rfl, rfl⟩
    · exact h.kindsOf a A i c h1 hc
    · exact ⟨getD_map_of_get _ _ _ hc, getD_map_of_get _ _ _ hc⟩
  · intro t T hT; rw [ht] at hT
    obtain ⟨A, h1, h2⟩ := h.tblArch t T hT
    exact ⟨A, hold h1, h2⟩
  · rw [ht]; exact h.relCols
  · intro t T hT; rw [ht] at hT
    obtain ⟨A, h1, _⟩ := h.tblArch t T hT
    rw [harch _ (alt_of_get h1)]; exact h.member t T hT
  · intro a A t hA hmem; rw [ha] at hA; rw [ht]
    rcases getElem?_concat_cases hA with ⟨_, h1⟩ | ⟨rfl, rfl⟩
    · exact h.owned a A t h1 hmem
    · rcases hmem with hm | hm <;> simp [newArch, Archetype.new, TableIDs.ofList] at hm
  · intro a A hA; rw [ha] at hA
    rcases getElem?_concat_cases hA with ⟨_, h1⟩ | ⟨rfl, rfl⟩
    · exact h.astruct a A h1
    · exact Archetype.struct_new _ _ _ _ _ (by simp)
  · intro a A hA hr; rw [ha] at hA
    rcases getElem?_concat_cases hA with ⟨_, h1⟩ | ⟨rfl, rfl⟩
    · exact h.nonRelLe a A h1 hr
    · exact ⟨by simp [newArch, Archetype.new, TableIDs.ofList], rfl⟩
  · obtain ⟨h0, h1, h2⟩ := h.root
    obtain ⟨A, hA, _⟩ := h.tblArch 0 _ (get_of_lt h0)
    rw [h1] at hA
    rw [ht, htbl, harch 0 (alt_of_get hA)]; exact ⟨h0, h1, h2⟩

/-- **2b** `createArchetype mask` for a mask that has no archetype yet and whose bits are all
    registered components: succeeds with the next archetype ID; the new archetype has the mask
    and no table yet, so the world is `SInvMid` with every OTHER archetype settled; tables,
    registry, entity index and pool are unchanged. -/
theorem SInv.createArchetype {w : World} (h : SInv w) (mask : Mask)
    (hnone : w.findArch mask = none) (hreg : ∀ (c : Nat), mask.get c = true → c < w.kinds.length) :
    ∃ (w' : World), World.createArchetype mask w = .ok w.archetypes.length w' ∧
      SInvMid w' ∧ (∀ (a : Nat), a ≠ w.archetypes.length → SettledAt w' a) ∧
      w'.archetypes = w.archetypes ++ [newArch w mask] ∧
      (w'.arch w.archetypes.length).mask = mask ∧
      (w'.arch w.archetypes.length).tables.tables = [] ∧
      (w'.arch w.archetypes.length).freeTables = [] ∧
      w'.tables = w.tables ∧ w'.kinds = w.kinds ∧ w'.entities = w.entities ∧ w'.pool = w.pool ∧
      w'.cache = w.cache := by
  obtain ⟨w', hok, ha, ht, hk, he, hp, hc⟩ := createArchetype_ok mask w
  have hnew : w'.arch w.archetypes.length = newArch w mask := by
    apply arch_of_get; rw [ha]; exact List.getElem?_concat_length
  refine ⟨w', hok, h.toSInvMid.append_arch mask hnone hreg ha ht hk, ?_, ha, ?_, ?_, ?_, ht, hk, he, hp, hc⟩
  · intro a hne A hA hr
    rw [ha] at hA
    rcases getElem?_concat_cases hA with ⟨_, h1⟩ | ⟨h1, _⟩
    · exact h.settled a A h1 hr
    · exact absurd h1 hne
  · rw [hnew]; rfl
  · rw [hnew]; rfl
  · rw [hnew]; rfl

theorem IdxInv.createArchetype {w w' : World} (h : IdxInv w) {mask : Mask} {a : Nat}
    (hr : World.createArchetype mask w = .ok a w') : IdxInv w' := by
  obtain ⟨w1, hok, _, ht, _, he, _⟩ := createArchetype_ok mask w
  rw [hok] at hr
  injection hr with _ h2
  subst h2
  exact h.congr he ht

/-! ## (2d) `createTable`: decomposition into checks, storage part, cache part -/

namespace World

/-- `targets[idx] = rel.target` for all given relations -/
def ctTargets (A : Archetype) (rels : List RelID) : List Ent :=
  rels.foldl (fun (ts : List Ent) r =>
    match A.colIdx r.comp with
    | some i => ts.set i r.target
    | none => ts) (List.replicate A.comps.length Ent.zero)

/-- the per-relation check loop body of `createTable` -/
def relCheck (r : RelID) : W Unit :=
  M.bind (checkRelationComponent r.comp) fun _ => checkRelationTarget r.target

/-- what the check loop of `createTable` demands: relation components, targets alive or zero -/
def RelsValid (w : World) (rels : List RelID) : Prop :=
  ∀ (r : RelID), r ∈ rels → w.isRelComp r.comp = true ∧ (r.target.isZero = true ∨ w.alive r.target = true)

instance (w : World) (rels : List RelID) : Decidable (RelsValid w rels) := by
  unfold RelsValid; exact inferInstance

theorem relCheck_cases (r : RelID) (w : World) :
    (w.isRelComp r.comp = true ∧ (r.target.isZero = true ∨ w.alive r.target = true) ∧
      relCheck r w = .ok () w) ∨
    (¬ (w.isRelComp r.comp = true ∧ (r.target.isZero = true ∨ w.alive r.target = true)) ∧
      ∃ (k : PanicKind), relCheck r w = .panic k w) := by
  unfold relCheck checkRelationComponent checkRelationTarget M.bind
  cases h1 : w.isRelComp r.comp
  · exact Or.inr ⟨by simp, .notRelation, by simp [h1]⟩
  · cases h2 : r.target.isZero
    · cases h3 : w.alive r.target
      · exact Or.inr ⟨by simp, .deadTarget, by simp [h1, h3]⟩
      · exact Or.inl ⟨rfl, Or.inr rfl, by simp [h1, h3]⟩
    · exact Or.inl ⟨rfl, Or.inl rfl, by simp [h1]⟩

/-- the check loop never changes the state; it succeeds exactly when all relations are valid -/
theorem relChecks_cases (rels : List RelID) (w : World) :
    (RelsValid w rels ∧ M.forM' rels relCheck w = .ok () w) ∨
    (¬ RelsValid w rels ∧ ∃ (k : PanicKind), M.forM' rels relCheck w = .panic k w) := by
  induction rels with
  | nil => exact Or.inl ⟨(by intro r hr; cases hr), rfl⟩
  | cons r rest ih =>
    rcases relCheck_cases r w with ⟨h1, h2, h3⟩ | ⟨h1, k, h3⟩
    · rcases ih with ⟨h4, h5⟩ | ⟨h4, k, h5⟩
      · refine Or.inl ⟨?_, ?_⟩
        · intro r' hr'
          rcases List.mem_cons.1 hr' with rfl | hm
          · exact ⟨h1, h2⟩
          · exact h4 r' hm
        · simp only [M.forM', bind, M.bind, h3, h5]
      · refine Or.inr ⟨fun hv => h4 fun r' hr' => hv r' (List.mem_cons_of_mem _ hr'), k, ?_⟩
        simp only [M.forM', bind, M.bind, h3, h5]
    · refine Or.inr ⟨fun hv => h1 (hv r List.mem_cons_self), k, ?_⟩
      simp only [M.forM', bind, M.bind, h3]

/-- the storage part of `createTable` (everything between the checks and `cache.addTable`):
    the new world and the table ID -/
def createTableS (w : World) (a : Nat) (rels : List RelID) : World × Nat :=
  match (w.arch a).getFreeTable with
  | some (A', t) =>
    (((w.setArch a A').modTbl t fun T => T.recycle (ctTargets (w.arch a) rels) rels).modArch a
      fun A => A.addTable t (ctTargets (w.arch a) rels), t)
  | none =>
    (({ w with tables := w.tables ++
        [Table.new w.tables.length a (w.arch a).comps (w.arch a).isRel (w.arch a).zst
          (if (w.arch a).hasRelations then w.initCapRel else w.initCap)
          (ctTargets (w.arch a) rels) rels] } : World).modArch a
      fun A => A.addTable w.tables.length (ctTargets (w.arch a) rels), w.tables.length)

theorem createTableS_none {w : World} {a : Nat} {rels : List RelID}
    (h : (w.arch a).getFreeTable = none) :
    createTableS w a rels =
      (({ w with tables := w.tables ++
        [Table.new w.tables.length a (w.arch a).comps (w.arch a).isRel (w.arch a).zst
          (if (w.arch a).hasRelations then w.initCapRel else w.initCap)
          (ctTargets (w.arch a) rels) rels] } : World).modArch a
      fun A => A.addTable w.tables.length (ctTargets (w.arch a) rels), w.tables.length) := by
  simp only [createTableS, h]

theorem createTableS_some {w : World} {a : Nat} {rels : List RelID} {A' : Archetype} {t : Nat}
    (h : (w.arch a).getFreeTable = some (A', t)) :
    createTableS w a rels =
      (((w.setArch a A').modTbl t fun T => T.recycle (ctTargets (w.arch a) rels) rels).modArch a
        fun A => A.addTable t (ctTargets (w.arch a) rels), t) := by
  simp only [createTableS, h]

/-- the panic class the check loop ends with (when it does) -/
def relPanic (w : World) (rels : List RelID) : PanicKind :=
  match M.forM' rels relCheck w with
  | .panic k _ => k
  | .ok _ _ => .other

/-- the cache part of `createTable` -/
def ctFinish (p : World × Nat) : Res World Nat :=
  match p.1.cacheAddTable (p.1.tbl p.2) with
  | none => .panic .runtime p.1
  | some w' => .ok p.2 w'

theorem ct_tail (X : World) (n : Nat) :
    (match X.cacheAddTable (X.tbl n) with
     | none => (M.panic PanicKind.runtime : W Unit).bind fun _ => (M.pure n : W Nat)
     | some w' => (M.set w').bind fun _ => M.pure n) X = ctFinish (X, n) := by
  unfold ctFinish
  cases X.cacheAddTable (X.tbl n) <;> rfl

/-- the first loop of `createTable` passes exactly when no relation component is named twice
    (nor is among those seen before) and every named component is a column of the archetype -/
theorem checkRelList_eq_none_iff (A : Archetype) (seen : List Comp) (rels : List RelID) :
    checkRelList A seen rels = none ↔
      ((rels.map (·.comp)).Nodup ∧ (∀ (r : RelID), r ∈ rels → r.comp ∉ seen)) ∧
        ∀ (r : RelID), r ∈ rels → (A.colIdx r.comp).isSome = true := by
  induction rels generalizing seen with
  | nil => simp [checkRelList]
  | cons r rest ih =>
    unfold checkRelList
    by_cases hs : seen.contains r.comp = true
    · rw [if_pos hs]
      constructor
      · intro h; cases h
      · rintro ⟨⟨_, h2⟩, _⟩
        exact absurd (List.contains_iff_mem.1 hs) (h2 r List.mem_cons_self)
    · rw [if_neg hs]
      have hs' : r.comp ∉ seen := fun hm => hs (List.contains_iff_mem.2 hm)
      cases hc : A.colIdx r.comp with
      | none =>
        simp only [Option.isNone_none, if_true]
        constructor
        · intro h; cases h
        · rintro ⟨_, h3⟩
          have := h3 r List.mem_cons_self
          rw [hc] at this; cases this
      | some i =>
        simp only [Option.isNone_some, Bool.false_eq_true, if_false]
        rw [ih]
        constructor
        · rintro ⟨⟨h1, h2⟩, h3⟩
          refine ⟨⟨?_, ?_⟩, ?_⟩
          · rw [List.map_cons, List.nodup_cons]
            refine ⟨?_, h1⟩
            intro hm
            obtain ⟨r', hr', he⟩ := List.mem_map.1 hm
            exact h2 r' hr' (by rw [he]; exact List.mem_cons_self)
          · intro r' hr'
            rcases List.mem_cons.1 hr' with rfl | hm
            · exact hs'
            · exact fun hin => h2 r' hm (List.mem_cons_of_mem _ hin)
          · intro r' hr'
            rcases List.mem_cons.1 hr' with rfl | hm
            · rw [hc]; rfl
            · exact h3 r' hm
        · rintro ⟨⟨h1, h2⟩, h3⟩
          rw [List.map_cons, List.nodup_cons] at h1
          refine ⟨⟨h1.2, ?_⟩, fun r' hr' => h3 r' (List.mem_cons_of_mem _ hr')⟩
          intro r' hr' hin
          rcases List.mem_cons.1 hin with he | hm
          · exact h1.1 (List.mem_map.2 ⟨r', hr', he⟩)
          · exact h2 r' (List.mem_cons_of_mem _ hr') hm

/-- **the first loop of `createTable` passes exactly when no relation component is named twice
    and every named component is a column of the archetype** -/
theorem checkRelList_nil_eq_none_iff (A : Archetype) (rels : List RelID) :
    checkRelList A [] rels = none ↔
      (rels.map (·.comp)).Nodup ∧ ∀ (r : RelID), r ∈ rels → (A.colIdx r.comp).isSome = true := by
  rw [checkRelList_eq_none_iff]
  constructor
  · rintro ⟨⟨h1, _⟩, h3⟩; exact ⟨h1, h3⟩
  · rintro ⟨h1, h3⟩; exact ⟨⟨h1, fun _ _ hm => by cases hm⟩, h3⟩

/-- the duplicate scan of `getTableSlowPath` (repair of defect D26) passes exactly when no
    relation component is named twice (nor is among those seen before) -/
theorem namedTwice_eq_false_iff (seen : List Comp) (rels : List RelID) :
    namedTwice seen rels = false ↔
      (rels.map (·.comp)).Nodup ∧ ∀ (r : RelID), r ∈ rels → r.comp ∉ seen := by
  induction rels generalizing seen with
  | nil => simp [namedTwice]
  | cons r rest ih =>
    simp only [namedTwice, Bool.or_eq_false_iff, ih, List.map_cons, List.nodup_cons]
    constructor
    · rintro ⟨hs, h1, h2⟩
      have hs' : r.comp ∉ seen := fun hm => by
        rw [List.contains_iff_mem.2 hm] at hs; cases hs
      refine ⟨⟨?_, h1⟩, ?_⟩
      · intro hm
        obtain ⟨r', hr', he⟩ := List.mem_map.1 hm
        exact h2 r' hr' (by rw [he]; exact List.mem_cons_self)
      · intro r' hr'
        rcases List.mem_cons.1 hr' with rfl | hm
        · exact hs'
        · exact fun hin => h2 r' hm (List.mem_cons_of_mem _ hin)
    · rintro ⟨⟨h1, h2⟩, h3⟩
      refine ⟨?_, h2, ?_⟩
      · cases hc : seen.contains r.comp with
        | false => rfl
        | true => exact absurd (List.contains_iff_mem.1 hc) (h3 r List.mem_cons_self)
      · intro r' hr' hin
        rcases List.mem_cons.1 hin with he | hm
        · exact h1 (List.mem_map.2 ⟨r', hr', he⟩)
        · exact h3 r' (List.mem_cons_of_mem _ hr') hm

/-- **the duplicate scan of `getTableSlowPath` passes exactly when no relation component is
    named twice** -/
theorem namedTwice_nil_eq_false_iff (rels : List RelID) :
    namedTwice [] rels = false ↔ (rels.map (·.comp)).Nodup := by
  rw [namedTwice_eq_false_iff]
  exact ⟨fun h => h.1, fun h => ⟨h, fun _ _ hm => by cases hm⟩⟩

theorem namedTwice_nil_eq_true_iff (rels : List RelID) :
    namedTwice [] rels = true ↔ ¬ (rels.map (·.comp)).Nodup := by
  rw [← namedTwice_nil_eq_false_iff]
  cases namedTwice [] rels <;> simp

/-- the first loop of `createTable` panics only with "named twice" or the index −1 runtime panic -/
theorem checkRelList_some (A : Archetype) (seen : List Comp) (rels : List RelID) (k : PanicKind)
    (h : checkRelList A seen rels = some k) : k = .relTwice ∨ k = .runtime := by
  induction rels generalizing seen with
  | nil => cases h
  | cons r rest ih =>
    unfold checkRelList at h
    split at h
    · injection h with h; exact Or.inl h.symm
    · split at h
      · injection h with h; exact Or.inr h.symm
      · exact ih _ h

/-- `createTable` = argument checks (length; the first loop `checkRelList`: a relation component
    named twice, a component that is no column); relation checks; storage part; cache part. -/
theorem createTable_eq (a : Nat) (rels : List RelID) (w : World) :
    createTable a rels w =
      if rels.length < (w.arch a).numRel then .panic .relUnspecified w
      else match checkRelList (w.arch a) [] rels with
        | some k => .panic k w
        | none =>
          if RelsValid w rels then ctFinish (createTableS w a rels)
          else .panic (relPanic w rels) w := by
  unfold createTable
  by_cases h1 : rels.length < (w.arch a).numRel
  · simp [bind, M.bind, M.get, M.assert, h1]
  · simp only [h1, if_false]
    cases h2 : checkRelList (w.arch a) [] rels with
    | some k => simp [bind, M.bind, M.get, M.assert, h1, h2]
    | none =>
      simp only [bind, M.bind, M.get, M.assert, pure, h1, h2, decide_false, Bool.not_false, if_true]
      rcases relChecks_cases rels w with ⟨h3, h4⟩ | ⟨h3, k, h4⟩
      · rw [if_pos h3]
        have h4' : M.forM' rels (fun r => M.bind (checkRelationComponent r.comp) fun _ =>
            checkRelationTarget r.target) w = .ok () w := h4
        rw [h4']
        cases hf : (w.arch a).getFreeTable with
        | none =>
          rw [createTableS_none hf]
          simp only [hf, M.set, M.bind, M.pure, M.modify, M.get]
          exact ct_tail _ _
        | some p =>
          obtain ⟨A', t⟩ := p
          rw [createTableS_some hf]
          simp only [hf, M.set, M.bind, M.pure, M.modify, M.get]
          exact ct_tail _ _
      · rw [if_neg h3]
        have h4' : M.forM' rels (fun r => M.bind (checkRelationComponent r.comp) fun _ =>
            checkRelationTarget r.target) w = .panic k w := h4
        rw [h4']; simp only [relPanic, h4]

/-- on success: the arguments passed all checks and the result is the storage part followed by
    the cache part; no relation component was named twice (`createTable_ok_nodup`) -/
theorem createTable_ok' {a : Nat} {rels : List RelID} {w w' : World} {t : Nat}
    (h : createTable a rels w = .ok t w') :
    ((w.arch a).numRel ≤ rels.length ∧ (∀ (r : RelID), r ∈ rels → ((w.arch a).colIdx r.comp).isSome = true) ∧
    RelsValid w rels ∧ t = (createTableS w a rels).2 ∧
    (createTableS w a rels).1.cacheAddTable ((createTableS w a rels).1.tbl t) = some w') ∧
    (rels.map (·.comp)).Nodup := by
  rw [createTable_eq] at h
  split at h
  · cases h
  · rename_i h1
    split at h
    · cases h
    · rename_i h2
      obtain ⟨hnd, hcol⟩ := (checkRelList_nil_eq_none_iff _ _).1 h2
      split at h
      · rename_i h3
        refine ⟨⟨by omega, hcol, h3, ?_⟩, hnd⟩
        unfold ctFinish at h
        split at h
        · cases h
        · rename_i w1 hc
          injection h with h5 h6
          subst h5; subst h6
          exact ⟨rfl, hc⟩
      · cases h

/-- on success: the arguments passed all checks and the result is the storage part followed by
    the cache part -/
theorem createTable_ok {a : Nat} {rels : List RelID} {w w' : World} {t : Nat}
    (h : createTable a rels w = .ok t w') :
    (w.arch a).numRel ≤ rels.length ∧ (∀ (r : RelID), r ∈ rels → ((w.arch a).colIdx r.comp).isSome = true) ∧
    RelsValid w rels ∧ t = (createTableS w a rels).2 ∧
    (createTableS w a rels).1.cacheAddTable ((createTableS w a rels).1.tbl t) = some w' :=
  (createTable_ok' h).1

/-- on success no relation component was named twice (the check added by the repair of D18) -/
theorem createTable_ok_nodup {a : Nat} {rels : List RelID} {w w' : World} {t : Nat}
    (h : createTable a rels w = .ok t w') : (rels.map (·.comp)).Nodup :=
  (createTable_ok' h).2

/-- a relation list naming a component twice is rejected by `createTable` with the state
    unchanged: `.relTwice` at the first repetition unless an earlier check panics
    (`.relUnspecified` for too short a list, `.runtime` for an earlier non-column) -/
theorem createTable_not_nodup {a : Nat} {rels : List RelID} {w : World}
    (h : ¬ (rels.map (·.comp)).Nodup) :
    ∃ (k : PanicKind), createTable a rels w = .panic k w ∧
      (k = .relUnspecified ∨ k = .relTwice ∨ k = .runtime) := by
  rw [createTable_eq]
  split
  · exact ⟨_, rfl, Or.inl rfl⟩
  · cases h2 : checkRelList (w.arch a) [] rels with
    | none => exact absurd ((checkRelList_nil_eq_none_iff _ _).1 h2).1 h
    | some k => exact ⟨k, rfl, Or.inr (checkRelList_some _ _ _ _ h2)⟩

/-- the panic of the first loop is the panic of `createTable`, state unchanged -/
theorem createTable_of_check {a : Nat} {rels : List RelID} {w : World} {k : PanicKind}
    (h1 : (w.arch a).numRel ≤ rels.length) (h2 : checkRelList (w.arch a) [] rels = some k) :
    createTable a rels w = .panic k w := by
  rw [createTable_eq, if_neg (by omega), h2]

/-- too short a relation list: `relUnspecified`, state unchanged -/
theorem createTable_of_short {a : Nat} {rels : List RelID} {w : World}
    (h1 : rels.length < (w.arch a).numRel) : createTable a rels w = .panic .relUnspecified w := by
  rw [createTable_eq, if_pos h1]

/-- conversely, with all checks passing `createTable` is the storage part then the cache part -/
theorem createTable_of_valid {a : Nat} {rels : List RelID} {w : World}
    (h1 : (w.arch a).numRel ≤ rels.length)
    (h2 : ∀ (r : RelID), r ∈ rels → ((w.arch a).colIdx r.comp).isSome = true)
    (hnd : (rels.map (·.comp)).Nodup)
    (h3 : RelsValid w rels) : createTable a rels w = ctFinish (createTableS w a rels) := by
  rw [createTable_eq, if_neg (by omega), (checkRelList_nil_eq_none_iff _ _).2 ⟨hnd, h2⟩]
  simp only [if_pos h3]

/-- `cache.addTable` changes only the cache -/
theorem cacheAddTable_frame {w w' : World} {T : Table} (h : w.cacheAddTable T = some w') :
    w'.archetypes = w.archetypes ∧ w'.tables = w.tables ∧ w'.kinds = w.kinds ∧
      w'.entities = w.entities ∧ w'.pool = w.pool := by
  unfold cacheAddTable at h
  simp only at h
  split at h
  · cases h
  · injection h with h; subst h; exact ⟨rfl, rfl, rfl, rfl, rfl⟩

end World

/-! ## archetype-level facts about `AddTable` / `GetFreeTable` beyond `ArchIndex` -/

namespace Archetype

theorem afoldl_keep {α β : Type} (f : Archetype → α → Archetype) (p : Archetype → β)
    (hf : ∀ (a : Archetype) (x : α), p (f a x) = p a) :
    ∀ (l : List α) (a : Archetype), p (l.foldl f a) = p a
  | [], _ => rfl
  | x :: l, a => by rw [List.foldl_cons, afoldl_keep f p hf l, hf]

theorem addStep_id (tid : Nat) (targets : List Ent) (a : Archetype) (k : Nat) :
    (addStep tid targets a k).id = a.id := by unfold addStep; split <;> rfl

theorem addStep_mask (tid : Nat) (targets : List Ent) (a : Archetype) (k : Nat) :
    (addStep tid targets a k).mask = a.mask := by unfold addStep; split <;> rfl

theorem addStep_zst (tid : Nat) (targets : List Ent) (a : Archetype) (k : Nat) :
    (addStep tid targets a k).zst = a.zst := by unfold addStep; split <;> rfl

theorem addFold_sameShape (tid : Nat) (targets : List Ent) (a : Archetype) (n : Nat) :
    SameShape a ((List.range n).foldl (addStep tid targets) a) := by
  induction n with
  | zero => exact SameShape.refl a
  | succ n ih =>
    rw [List.range_succ, List.foldl_append]
    exact ih.trans (addStep_sameShape _ _ _ _)

/-- `AddTable` = append to the table list, then edit only the two relation indices -/
theorem addTable_sameShape (a : Archetype) (tid : Nat) (targets : List Ent) :
    SameShape { a with tables := a.tables.append tid } (a.addTable tid targets) := by
  rw [addTable_eq]
  split
  · exact SameShape.refl _
  · exact addFold_sameShape _ _ _ _

theorem addTable_id (a : Archetype) (tid : Nat) (targets : List Ent) :
    (a.addTable tid targets).id = a.id := by
  rw [addTable_eq]; split
  · rfl
  · exact afoldl_keep _ (·.id) (addStep_id tid targets) _ _

theorem addTable_mask (a : Archetype) (tid : Nat) (targets : List Ent) :
    (a.addTable tid targets).mask = a.mask := by
  rw [addTable_eq]; split
  · rfl
  · exact afoldl_keep _ (·.mask) (addStep_mask tid targets) _ _

theorem addTable_zst (a : Archetype) (tid : Nat) (targets : List Ent) :
    (a.addTable tid targets).zst = a.zst := by
  rw [addTable_eq]; split
  · rfl
  · exact afoldl_keep _ (·.zst) (addStep_zst tid targets) _ _

theorem addTable_tables (a : Archetype) (tid : Nat) (targets : List Ent) :
    (a.addTable tid targets).tables.tables = a.tables.tables ++ [tid] := by
  rw [(addTable_sameShape a tid targets).tables]; rfl

theorem addTable_freeTables (a : Archetype) (tid : Nat) (targets : List Ent) :
    (a.addTable tid targets).freeTables = a.freeTables :=
  (addTable_sameShape a tid targets).freeTables

theorem addTable_comps (a : Archetype) (tid : Nat) (targets : List Ent) :
    (a.addTable tid targets).comps = a.comps := (addTable_sameShape a tid targets).comps

theorem addTable_isRel (a : Archetype) (tid : Nat) (targets : List Ent) :
    (a.addTable tid targets).isRel = a.isRel := (addTable_sameShape a tid targets).isRel

theorem addTable_numRel (a : Archetype) (tid : Nat) (targets : List Ent) :
    (a.addTable tid targets).numRel = a.numRel := (addTable_sameShape a tid targets).numRel

/-- `AddTable` of a table that is neither active nor free keeps the structural part -/
theorem Struct.addTable {a : Archetype} (h : Struct a) (tid : Nat) (targets : List Ent)
    (hact : tid ∉ a.tables.tables) (hfree : tid ∉ a.freeTables) :
    Struct (a.addTable tid targets) := by
  have hs0 : Struct { a with tables := a.tables.append tid } := by
    refine ⟨h.tablesWF.append hact, h.freeNodup, ?_, h.lenRel, h.lenIsRel, h.numRelEq⟩
    intro t ht
    rw [show ({ a with tables := a.tables.append tid } : Archetype).tables.tables
        = a.tables.tables ++ [tid] from rfl] at ht
    rcases List.mem_append.1 ht with h1 | h1
    · exact h.disjoint t h1
    · rw [List.mem_singleton.1 h1]; exact hfree
  exact hs0.of_sameShape (addTable_sameShape a tid targets)

/-- `GetFreeTable` at the structural level -/
theorem Struct.getFreeTable {a a' : Archetype} {t : Nat} (h : Struct a)
    (hg : a.getFreeTable = some (a', t)) :
    Struct a' ∧ a.freeTables = a'.freeTables ++ [t] ∧ a'.tables = a.tables ∧
      t ∉ a'.freeTables ∧ t ∉ a'.tables.tables ∧ a'.id = a.id ∧ a'.mask = a.mask ∧
      a'.comps = a.comps ∧ a'.isRel = a.isRel ∧ a'.zst = a.zst ∧ a'.numRel = a.numRel := by
  unfold Archetype.getFreeTable at hg
  cases hl : a.freeTables.getLast? with
  | none => rw [hl] at hg; cases hg
  | some x =>
    rw [hl] at hg
    injection hg with hg
    injection hg with ha ht
    subst ht
    subst ha
    have hsplit : a.freeTables = a.freeTables.dropLast ++ [x] :=
      eq_dropLast_append_of_getLast? _ x hl
    have hnd := h.freeNodup
    rw [hsplit] at hnd
    have hnd' := List.nodup_append.1 hnd
    have hxfree : x ∈ a.freeTables := by rw [hsplit]; simp
    refine ⟨?_, hsplit, rfl, ?_, ?_, rfl, rfl, rfl, rfl, rfl, rfl⟩
    · refine ⟨h.tablesWF, hnd'.1, ?_, h.lenRel, h.lenIsRel, h.numRelEq⟩
      intro t ht hm
      exact h.disjoint t ht (by rw [hsplit]; exact List.mem_append_left _ hm)
    · intro hm
      exact hnd'.2.2 x hm x (List.mem_singleton.2 rfl) rfl
    · intro hm
      exact h.disjoint x hm hxfree

theorem getFreeTable_none {a : Archetype} (h : a.getFreeTable = none) : a.freeTables = [] := by
  unfold Archetype.getFreeTable at h
  cases hl : a.freeTables.getLast? with
  | none => exact List.getLast?_eq_none_iff.1 hl
  | some x => rw [hl] at h; cases h

theorem getFreeTable_of_nil {a : Archetype} (h : a.freeTables = []) : a.getFreeTable = none := by
  unfold Archetype.getFreeTable; rw [h]; rfl

/-- a column index is a position of the component list -/
theorem colIdx_get {a : Archetype} {c : Comp} {i : Nat} (h : a.colIdx c = some i) :
    a.comps[i]? = some c := by
  unfold colIdx at h
  simp only at h
  split at h
  · rename_i hlt
    injection h with h; subst h
    rw [List.getElem?_eq_getElem hlt]
    congr 1
    exact List.getElem_idxOf hlt
  · cases h

end Archetype

/-! ## the abstract effect of `createTable` on archetypes and tables -/

/-- `w'` arises from `w` by putting table `Tn` into slot `tid` (a new slot at the end, or the
    slot of a free table of `a`) and replacing archetype `a` (`A`) by `A2`, which lists `tid` as
    active and no longer as free. -/
structure TableAdded (w w' : World) (a tid : Nat) (A A2 : Archetype) (Tn : Table) : Prop where
  hA : w.archetypes[a]? = some A
  archs : w'.archetypes = w.archetypes.set a A2
  tabs : ∀ (t : Nat), w'.tables[t]? = if t = tid then some Tn else w.tables[t]?
  kinds : w'.kinds = w.kinds
  id : A2.id = A.id
  mask : A2.mask = A.mask
  comps : A2.comps = A.comps
  isRel : A2.isRel = A.isRel
  zst : A2.zst = A.zst
  numRel : A2.numRel = A.numRel
  struct : A2.Struct
  tabsEq : A2.tables.tables = A.tables.tables ++ [tid]
  memT : ∀ (t : Nat), t ∈ A2.tables.tables ↔ t ∈ A.tables.tables ∨ t = tid
  memF : ∀ (t : Nat), t ∈ A2.freeTables ↔ t ∈ A.freeTables ∧ t ≠ tid
  tArch : Tn.arch = a
  tIds : Tn.ids = A.comps
  tIsRel : Tn.isRel = A.isRel
  tZst : Tn.zst = A.zst
  tId : Tn.id = tid
  tFree : Tn.isFree = false
  tRel : ∀ (r : RelID), r ∈ Tn.relIDs → ∃ (i : Nat), Tn.ids[i]? = some r.comp ∧ Tn.isRel.getD i false = true
  oldArch : ∀ (T : Table), w.tables[tid]? = some T → T.arch = a
  others : ∀ (b : Nat) (B : Archetype), b ≠ a → w.archetypes[b]? = some B →
    tid ∉ B.tables.tables ∧ tid ∉ B.freeTables
  nonRel : A2.hasRelations = false → A2.tables.tables.length = 1 ∧ A2.freeTables = []

namespace TableAdded

variable {w w' : World} {a tid : Nat} {A A2 : Archetype} {Tn : Table}

theorem aget (ta : TableAdded w w' a tid A A2 Tn) {b : Nat} {B : Archetype}
    (h : w'.archetypes[b]? = some B) :
    (b = a ∧ B = A2) ∨ (b ≠ a ∧ w.archetypes[b]? = some B) := by
  rw [ta.archs, List.getElem?_set] at h
  by_cases hb : a = b
  · subst hb
    rw [if_pos rfl, if_pos (alt_of_get ta.hA)] at h
    exact Or.inl ⟨rfl, (Option.some.inj h).symm⟩
  · rw [if_neg hb] at h
    exact Or.inr ⟨fun e => hb e.symm, h⟩

theorem aget_self (ta : TableAdded w w' a tid A A2 Tn) : w'.archetypes[a]? = some A2 := by
  rw [ta.archs, List.getElem?_set_self (alt_of_get ta.hA)]

theorem aget_ne (ta : TableAdded w w' a tid A A2 Tn) {b : Nat} (hb : b ≠ a) :
    w'.archetypes[b]? = w.archetypes[b]? := by
  rw [ta.archs, List.getElem?_set_ne (fun e => hb e.symm)]

theorem arch_self (ta : TableAdded w w' a tid A A2 Tn) : w'.arch a = A2 := arch_of_get ta.aget_self

theorem arch_ne (ta : TableAdded w w' a tid A A2 Tn) {b : Nat} (hb : b ≠ a) : w'.arch b = w.arch b := by
  simp only [arch, List.getD_eq_getElem?_getD, ta.aget_ne hb]

theorem tget (ta : TableAdded w w' a tid A A2 Tn) {t : Nat} {T : Table}
    (h : w'.tables[t]? = some T) : (t = tid ∧ T = Tn) ∨ (t ≠ tid ∧ w.tables[t]? = some T) := by
  rw [ta.tabs] at h
  by_cases ht : t = tid
  · rw [if_pos ht] at h; exact Or.inl ⟨ht, (Option.some.inj h).symm⟩
  · rw [if_neg ht] at h; exact Or.inr ⟨ht, h⟩

theorem tget_self (ta : TableAdded w w' a tid A A2 Tn) : w'.tables[tid]? = some Tn := by
  rw [ta.tabs, if_pos rfl]

theorem tget_ne (ta : TableAdded w w' a tid A A2 Tn) {t : Nat} (ht : t ≠ tid) :
    w'.tables[t]? = w.tables[t]? := by rw [ta.tabs, if_neg ht]

theorem hasRelations (ta : TableAdded w w' a tid A A2 Tn) : A2.hasRelations = A.hasRelations := by
  simp only [Archetype.hasRelations, ta.numRel]

end TableAdded

/-- adding / recycling a table keeps `SInvMid`, settles the archetype, keeps the others settled -/
theorem SInvMid.tableAdded {w w' : World} {a tid : Nat} {A A2 : Archetype} {Tn : Table}
    (h : SInvMid w) (ta : TableAdded w w' a tid A A2 Tn) :
    SInvMid w' ∧ SettledAt w' a ∧ ∀ (b : Nat), b ≠ a → SettledAt w b → SettledAt w' b := by
  refine ⟨⟨?_, ?_, ?_, ?_, ?_, ?_, ?_, ?_, ?_, ?_, ?_, ?_⟩, ?_, ?_⟩
  · intro b B hB
    rcases ta.aget hB with ⟨rfl, rfl⟩ | ⟨_, h1⟩
    · rw [ta.id]; exact h.archId _ A ta.hA
    · exact h.archId b B h1
  · intro b c B C hB hC hm
    rcases ta.aget hB with ⟨rfl, rfl⟩ | ⟨_, h1⟩
    · rcases ta.aget hC with ⟨rfl, rfl⟩ | ⟨_, h2⟩
      · rfl
      · exact h.maskUniq _ c A C ta.hA h2 (ta.mask ▸ hm)
    · rcases ta.aget hC with ⟨rfl, rfl⟩ | ⟨_, h2⟩
      · exact h.maskUniq b _ B A h1 ta.hA (by rw [hm, ta.mask])
      · exact h.maskUniq b c B C h1 h2 hm
  · intro b B hB c hc; rw [ta.kinds]
    rcases ta.aget hB with ⟨rfl, rfl⟩ | ⟨_, h1⟩
    · rw [ta.mask] at hc; exact h.maskReg _ A ta.hA c hc
    · exact h.maskReg b B h1 c hc
  · intro b B hB; rw [ta.kinds]
    rcases ta.aget hB with ⟨rfl, rfl⟩ | ⟨_, h1⟩
    · rw [ta.comps, ta.mask, ta.isRel, ta.zst]; exact h.comps _ A ta.hA
    · exact h.comps b B h1
  · intro b B i c hB hc; rw [ta.kinds]
    rcases ta.aget hB with ⟨rfl, rfl⟩ | ⟨_, h1⟩
    · rw [ta.comps] at hc; rw [ta.isRel, ta.zst]; exact h.kindsOf _ A i c ta.hA hc
    · exact h.kindsOf b B i c h1 hc
  · intro t T hT
    rcases ta.tget hT with ⟨rfl, rfl⟩ | ⟨_, h1⟩
    · refine ⟨A2, by rw [ta.tArch]; exact ta.aget_self, ?_, ?_, ?_, ta.tId⟩
      · rw [ta.tIds, ta.comps]
      · rw [ta.tIsRel, ta.isRel]
      · rw [ta.tZst, ta.zst]
    · obtain ⟨B, hB, e1, e2, e3, e4⟩ := h.tblArch t T h1
      by_cases hb : T.arch = a
      · have : B = A := by rw [hb, ta.hA] at hB; exact (Option.some.inj hB).symm
        subst this
        refine ⟨A2, by rw [hb]; exact ta.aget_self, ?_, ?_, ?_, e4⟩
        · rw [e1, ta.comps]
        · rw [e2, ta.isRel]
        · rw [e3, ta.zst]
      · exact ⟨B, by rw [ta.aget_ne hb]; exact hB, e1, e2, e3, e4⟩
  · intro t T hT
    rcases ta.tget hT with ⟨rfl, rfl⟩ | ⟨_, h1⟩
    · exact ta.tRel
    · exact h.relCols t T h1
  · intro t T hT
    rcases ta.tget hT with ⟨rfl, rfl⟩ | ⟨hne, h1⟩
    · rw [ta.tArch, ta.arch_self, ta.tFree, ta.memT, ta.memF]
      simp
    · have hm := h.member t T h1
      by_cases hb : T.arch = a
      · rw [hb, arch_of_get ta.hA] at hm
        rw [hb, ta.arch_self, ta.memT, ta.memF]
        simp only [hne, or_false, ne_eq, not_false_eq_true, and_true]
        exact hm
      · rw [ta.arch_ne hb]; exact hm
  · intro b B t hB hmem
    rcases ta.aget hB with ⟨rfl, rfl⟩ | ⟨hb, h1⟩
    · by_cases ht : t = tid
      · subst ht; exact ⟨Tn, ta.tget_self, ta.tArch⟩
      · rw [ta.memT, ta.memF] at hmem
        have hmem' : t ∈ A.tables.tables ∨ t ∈ A.freeTables := by
          rcases hmem with (h2 | h2) | h2
          · exact Or.inl h2
          · exact absurd h2 ht
          · exact Or.inr h2.1
        obtain ⟨T, hT, hTa⟩ := h.owned _ A t ta.hA hmem'
        exact ⟨T, by rw [ta.tget_ne ht]; exact hT, hTa⟩
    · have ht : t ≠ tid := by
        rintro rfl
        have := ta.others b B hb h1
        rcases hmem with h2 | h2
        · exact this.1 h2
        · exact this.2 h2
      obtain ⟨T, hT, hTa⟩ := h.owned b B t h1 hmem
      exact ⟨T, by rw [ta.tget_ne ht]; exact hT, hTa⟩
  · intro b B hB
    rcases ta.aget hB with ⟨rfl, rfl⟩ | ⟨_, h1⟩
    · exact ta.struct
    · exact h.astruct b B h1
  · intro b B hB hr
    rcases ta.aget hB with ⟨rfl, rfl⟩ | ⟨_, h1⟩
    · obtain ⟨h2, h3⟩ := ta.nonRel hr
      exact ⟨by omega, h3⟩
    · exact h.nonRelLe b B h1 hr
  · obtain ⟨h0, h1, h2⟩ := h.root
    have hT0 := get_of_lt h0
    refine ⟨?_, ?_, ?_⟩
    · by_cases ht : (0 : Nat) = tid
      · exact lt_of_get (ht ▸ ta.tget_self)
      · exact lt_of_get (by rw [ta.tget_ne ht]; exact hT0)
    · by_cases ht : (0 : Nat) = tid
      · subst ht
        rw [tbl_of_get ta.tget_self, ta.tArch, ← ta.oldArch _ hT0]; exact h1
      · rw [tbl_of_get (by rw [ta.tget_ne ht]; exact hT0)]; exact h1
    · by_cases hb : (0 : Nat) = a
      · subst hb
        rw [ta.arch_self, ta.mask]
        rw [arch_of_get ta.hA] at h2; exact h2
      · rw [ta.arch_ne hb]; exact h2
  · intro B hB hr
    rw [ta.aget_self] at hB
    have : B = A2 := (Option.some.inj hB).symm
    subst this
    exact (ta.nonRel hr).1
  · intro b hb hs B hB hr
    rw [ta.aget_ne hb] at hB
    exact hs B hB hr

theorem TableAdded.congr {w W w' : World} {a tid : Nat} {A A2 : Archetype} {Tn : Table}
    (ta : TableAdded w W a tid A A2 Tn) (ha : w'.archetypes = W.archetypes)
    (ht : w'.tables = W.tables) (hk : w'.kinds = W.kinds) : TableAdded w w' a tid A A2 Tn :=
  { ta with archs := ha.trans ta.archs, tabs := by intro t; rw [ht]; exact ta.tabs t,
            kinds := hk.trans ta.kinds }

theorem getElem?_concat_eq {α : Type} (l : List α) (x : α) (t : Nat) :
    (l ++ [x])[t]? = if t = l.length then some x else l[t]? := by
  by_cases h : t = l.length
  · subst h; rw [if_pos rfl]; exact List.getElem?_concat_length
  · rw [if_neg h]
    rcases Nat.lt_or_ge t l.length with h1 | h1
    · exact List.getElem?_append_left h1
    · rw [List.getElem?_eq_none h1, List.getElem?_eq_none]
      simp only [List.length_append, List.length_singleton]; omega

theorem getElem?_set_eq {α : Type} (l : List α) (x : α) (i t : Nat) (hi : i < l.length) :
    (l.set i x)[t]? = if t = i then some x else l[t]? := by
  by_cases h : t = i
  · subst h; rw [if_pos rfl]; exact List.getElem?_set_self hi
  · rw [if_neg h]; exact List.getElem?_set_ne (fun e => h e.symm)

/-! ## the relation-index invariant (`relationTables` / `targetTables` of every archetype) -/

namespace World

/-- the relation index of an archetype only lists active tables of that archetype -/
def RelIndexSound (A : Archetype) : Prop :=
  ∀ (i g : Nat) (ts : TableIDs), AL.find? (A.relationTables.getD i []) g = some ts →
    ∀ (t : Nat), t ∈ ts.tables → t ∈ A.tables.tables

end World

/-- the archetype index invariant only looks at the targets of the archetype's own tables -/
theorem Archetype.IndexInv.congr_tgt {a : Archetype} {tgt tgt' : Nat → List Ent}
    (h : a.IndexInv tgt) (he : ∀ (t : Nat), t ∈ a.tables.tables → tgt' t = tgt t) :
    a.IndexInv tgt' :=
  { toStruct := h.toStruct
    toMapsInv := h.toMapsInv.congr
      (fun i _ g t => by
        unfold Archetype.relP
        constructor
        · rintro ⟨h1, h2⟩; exact ⟨h1, by rw [he t h1]; exact h2⟩
        · rintro ⟨h1, h2⟩; exact ⟨h1, by rw [he t h1] at h2; exact h2⟩)
      (fun g t => by
        unfold Archetype.tgtP
        constructor
        · rintro ⟨h1, i, h2, h3⟩; exact ⟨h1, i, h2, by rw [he t h1]; exact h3⟩
        · rintro ⟨h1, i, h2, h3⟩; exact ⟨h1, i, h2, by rw [he t h1] at h3; exact h3⟩) }

/-- **RInv**: every archetype's relation indices are exactly its active tables, keyed by the
    relation targets stored in the tables (`IndexInv` of `ArchIndex`, instantiated with the
    world's tables). -/
def RInv (w : World) : Prop :=
  ∀ (a : Nat) (A : Archetype), w.archetypes[a]? = some A → A.IndexInv (fun t => (w.tbl t).targets)

/-- under `IndexInv` the relation index lists only active tables -/
theorem Archetype.IndexInv.relIndexSound {A : Archetype} {tgt : Nat → List Ent} (h : A.IndexInv tgt) :
    RelIndexSound A := by
  intro i g ts hf t ht
  cases hi : A.isRel.getD i false with
  | false => rw [h.nonRel i hi] at hf; cases hf
  | true => exact (((h.rel i hi).mem_of_find? hf t).1 ht).1

namespace RInv

theorem congr {w w' : World} (h : RInv w) (ha : w'.archetypes = w.archetypes)
    (ht : w'.tables = w.tables) : RInv w' := by
  intro a A hA
  rw [ha] at hA
  have : (fun t => (w'.tbl t).targets) = fun t => (w.tbl t).targets := by
    funext t; simp only [tbl, ht]
  rw [this]; exact h a A hA

theorem init (cap rel maxComps : Nat) : RInv (World.init cap rel maxComps) := by
  intro a A hA
  have h0 : (World.init cap rel maxComps).archetypes = [Archetype.new 0 Mask.empty [] [] [] [0]] := rfl
  rw [h0] at hA
  obtain ⟨rfl, rfl⟩ := getElem?_singleton_some hA
  have hi := Archetype.indexInv_new 0 Mask.empty [] [] [] rfl
    (fun t => ((World.init cap rel maxComps).tbl t).targets)
  have := hi.addTable 0 [] (by simp [Archetype.new, TableIDs.ofList]) (by simp [Archetype.new])
  have e : (Archetype.new 0 Mask.empty [] [] [] []).addTable 0 [] =
      Archetype.new 0 Mask.empty [] [] [] [0] := rfl
  rw [e] at this
  refine this.congr_tgt ?_
  intro t ht
  simp [Archetype.new, TableIDs.ofList] at ht
  subst ht; rfl

theorem registerComponent {w w' : World} (h : RInv w) {k : CompKind} {n : Nat}
    (hr : World.registerComponent k w = .ok n w') : RInv w' := by
  obtain ⟨_, _, ha, ht, _⟩ := registerComponent_ok hr
  exact h.congr ha ht

theorem append_arch {w w' : World} (h : RInv w) (mask : Mask)
    (ha : w'.archetypes = w.archetypes ++ [newArch w mask]) (ht : w'.tables = w.tables) : RInv w' := by
  intro a A hA
  have : (fun t => (w'.tbl t).targets) = fun t => (w.tbl t).targets := by
    funext t; simp only [tbl, ht]
  rw [this]
  rw [ha] at hA
  rcases getElem?_concat_cases hA with ⟨_, h1⟩ | ⟨_, rfl⟩
  · exact h a A h1
  · exact Archetype.indexInv_new _ _ _ _ _ (by simp) _

theorem createArchetype {w w' : World} (h : RInv w) {mask : Mask} {a : Nat}
    (hr : World.createArchetype mask w = .ok a w') : RInv w' := by
  obtain ⟨w1, hok, ha, ht, _⟩ := createArchetype_ok mask w
  rw [hok] at hr
  injection hr with _ h2
  subst h2
  exact h.append_arch mask ha ht

theorem findOrCreateArch {w w' : World} (h : RInv w) {mask : Mask} {a : Nat}
    (hr : World.findOrCreateArch mask w = .ok a w') : RInv w' := by
  unfold World.findOrCreateArch at hr
  split at hr
  · injection hr with _ h2; subst h2; exact h
  · exact h.createArchetype hr

/-- adding / recycling a table, given that the edited archetype has its index updated -/
theorem tableAdded {w w' : World} {a tid : Nat} {A A2 : Archetype} {Tn : Table} (h : RInv w)
    (ta : TableAdded w w' a tid A A2 Tn)
    (hA2 : A2.IndexInv (fun t => if t = tid then Tn.targets else (w.tbl t).targets)) : RInv w' := by
  have htg : ∀ (t : Nat), (w'.tbl t).targets = if t = tid then Tn.targets else (w.tbl t).targets := by
    intro t
    by_cases ht : t = tid
    · subst ht; rw [if_pos rfl, tbl_of_get ta.tget_self]
    · rw [if_neg ht]
      simp only [tbl, List.getD_eq_getElem?_getD, ta.tget_ne ht]
  intro b B hB
  rcases ta.aget hB with ⟨rfl, rfl⟩ | ⟨hb, h1⟩
  · exact hA2.congr_tgt (fun t _ => htg t)
  · refine (h b B h1).congr_tgt ?_
    intro t ht
    have hne : t ≠ tid := by
      rintro rfl; exact (ta.others b B hb h1).1 ht
    show (w'.tbl t).targets = (w.tbl t).targets
    rw [htg, if_neg hne]

end RInv

/-- the relations handed to `createTable` name relation columns of the archetype -/
theorem SInvMid.rels_cols {w : World} (h : SInvMid w) {a : Nat} {A : Archetype}
    (hA : w.archetypes[a]? = some A) {rels : List RelID}
    (hcol : ∀ (r : RelID), r ∈ rels → (A.colIdx r.comp).isSome = true) (hval : RelsValid w rels) :
    ∀ (r : RelID), r ∈ rels → ∃ (i : Nat), A.comps[i]? = some r.comp ∧ A.isRel.getD i false = true := by
  intro r hr
  cases hc : A.colIdx r.comp with
  | none => have := hcol r hr; rw [hc] at this; cases this
  | some i =>
    have hg := Archetype.colIdx_get hc
    refine ⟨i, hg, ?_⟩
    rw [(h.kindsOf a A i r.comp hA hg).1]
    exact (hval r hr).1

/-- **the storage part of `createTable`** in the abstract form: a fresh table at the end when
    the archetype has no free table, otherwise the last free table recycled. -/
theorem SInvMid.createTableS_added {w : World} (h : SInvMid w) {a : Nat} {A : Archetype}
    (hA : w.archetypes[a]? = some A) {rels : List RelID}
    (hcol : ∀ (r : RelID), r ∈ rels → (A.colIdx r.comp).isSome = true) (hval : RelsValid w rels)
    (hnr : A.hasRelations = false → A.tables.tables = []) :
    ∃ (A2 : Archetype) (Tn : Table),
      TableAdded w (createTableS w a rels).1 a (createTableS w a rels).2 A A2 Tn ∧
      Tn.relIDs = rels ∧ Tn.targets = ctTargets A rels ∧
      ((A.freeTables = [] ∧ (createTableS w a rels).2 = w.tables.length ∧
          Tn = Table.new w.tables.length a A.comps A.isRel A.zst
            (if A.hasRelations then w.initCapRel else w.initCap) (ctTargets A rels) rels) ∨
       ((createTableS w a rels).2 < w.tables.length ∧ (createTableS w a rels).2 ∈ A.freeTables ∧
          Tn = (w.tbl (createTableS w a rels).2).recycle (ctTargets A rels) rels)) ∧
      (createTableS w a rels).1.entities = w.entities ∧ (createTableS w a rels).1.pool = w.pool ∧
      (createTableS w a rels).1.cache = w.cache ∧
      (A.IndexInv (fun t => (w.tbl t).targets) →
        A2.IndexInv (fun t => if t = (createTableS w a rels).2 then Tn.targets else (w.tbl t).targets)) := by
  have hAe : w.arch a = A := arch_of_get hA
  have halt := alt_of_get hA
  have hS := h.astruct a A hA
  cases hf : A.getFreeTable with
  | none =>
    have hfree : A.freeTables = [] := Archetype.getFreeTable_none hf
    rw [createTableS_none (by rw [hAe]; exact hf), hAe]
    have hnew : ∀ (b : Nat) (B : Archetype), w.archetypes[b]? = some B →
        w.tables.length ∉ B.tables.tables ∧ w.tables.length ∉ B.freeTables := by
      intro b B hB
      constructor
      · intro hm
        obtain ⟨T, hT, _⟩ := h.owned b B _ hB (Or.inl hm)
        exact absurd (lt_of_get hT) (Nat.lt_irrefl _)
      · intro hm
        obtain ⟨T, hT, _⟩ := h.owned b B _ hB (Or.inr hm)
        exact absurd (lt_of_get hT) (Nat.lt_irrefl _)
    refine ⟨A.addTable w.tables.length (ctTargets A rels), _, ?_, rfl, rfl,
      Or.inl ⟨hfree, rfl, rfl⟩, rfl, rfl, rfl,
      fun hI => hI.addTable _ _ (hnew a A hA).1 (hnew a A hA).2⟩
    refine { hA := hA, archs := ?_, tabs := ?_, kinds := rfl,
             id := Archetype.addTable_id .., mask := Archetype.addTable_mask ..,
             comps := Archetype.addTable_comps .., isRel := Archetype.addTable_isRel ..,
             zst := Archetype.addTable_zst .., numRel := Archetype.addTable_numRel ..,
             struct := hS.addTable _ _ (hnew a A hA).1 (hnew a A hA).2,
             tabsEq := Archetype.addTable_tables ..,
             memT := ?_, memF := ?_, tArch := rfl, tIds := rfl, tIsRel := rfl, tZst := rfl,
             tId := rfl, tFree := rfl, tRel := h.rels_cols hA hcol hval, oldArch := ?_,
             others := fun b B _ hB => hnew b B hB, nonRel := ?_ }
    · show w.archetypes.set a ((w.arch a).addTable _ _) = _
      rw [hAe]
    · intro t; exact getElem?_concat_eq _ _ t
    · intro t; rw [Archetype.addTable_tables]; simp
    · intro t; rw [Archetype.addTable_freeTables, hfree]; simp
    · intro T hT; rw [List.getElem?_eq_none (Nat.le_refl _)] at hT; cases hT
    · intro hr
      have hr' : A.hasRelations = false := by
        simpa only [Archetype.hasRelations, Archetype.addTable_numRel] using hr
      rw [Archetype.addTable_tables, hnr hr', Archetype.addTable_freeTables]
      exact ⟨rfl, hfree⟩
  | some p =>
    obtain ⟨A', t⟩ := p
    rw [createTableS_some (by rw [hAe]; exact hf), hAe]
    obtain ⟨hS', hsplit, htabs, hnf, hnt, e1, e2, e3, e4, e5, e6⟩ := hS.getFreeTable hf
    have htfree : t ∈ A.freeTables := by rw [hsplit]; simp
    obtain ⟨T, hT, hTa⟩ := h.owned a A t hA (Or.inr htfree)
    have htlt := lt_of_get hT
    have hTe : w.tbl t = T := tbl_of_get hT
    obtain ⟨A0, hA0, i1, i2, i3, i4⟩ := h.tblArch t T hT
    have : A0 = A := by rw [hTa, hA] at hA0; exact (Option.some.inj hA0).symm
    subst this
    refine ⟨A'.addTable t (ctTargets A0 rels), (w.tbl t).recycle (ctTargets A0 rels) rels, ?_, rfl, rfl,
      Or.inr ⟨htlt, htfree, rfl⟩, rfl, rfl, rfl, fun hI => hI.recycle hf _⟩
    refine { hA := hA, archs := ?_, tabs := ?_, kinds := rfl,
             id := (Archetype.addTable_id ..).trans e1, mask := (Archetype.addTable_mask ..).trans e2,
             comps := (Archetype.addTable_comps ..).trans e3,
             isRel := (Archetype.addTable_isRel ..).trans e4,
             zst := (Archetype.addTable_zst ..).trans e5,
             numRel := (Archetype.addTable_numRel ..).trans e6,
             struct := hS'.addTable _ _ hnt hnf,
             tabsEq := by rw [Archetype.addTable_tables, htabs],
             memT := ?_, memF := ?_, tArch := by rw [hTe]; exact hTa,
             tIds := by rw [hTe]; exact i1, tIsRel := by rw [hTe]; exact i2,
             tZst := by rw [hTe]; exact i3, tId := by rw [hTe]; exact i4, tFree := rfl,
             tRel := ?_, oldArch := ?_, others := ?_, nonRel := ?_ }
    · show (w.archetypes.set a A').set a ((((w.setArch a A').modTbl t _).arch a).addTable _ _) = _
      have : ((w.setArch a A').modTbl t fun T => T.recycle (ctTargets A0 rels) rels).arch a = A' := by
        show (w.archetypes.set a A').getD a default = A'
        simp [List.getD_eq_getElem?_getD, List.getElem?_set_self halt]
      rw [this, List.set_set]
    · intro t'
      show (w.tables.set t _)[t']? = _
      exact getElem?_set_eq _ _ t t' htlt
    · intro x; rw [Archetype.addTable_tables, htabs]; simp
    · intro x
      show x ∈ (A'.addTable t (ctTargets A0 rels)).freeTables ↔ x ∈ A0.freeTables ∧ x ≠ t
      rw [Archetype.addTable_freeTables, hsplit]
      constructor
      · intro hx; exact ⟨List.mem_append_left _ hx, fun e => hnf (e ▸ hx)⟩
      · rintro ⟨hx, hne⟩
        rcases List.mem_append.1 hx with h1 | h1
        · exact h1
        · exact absurd (List.mem_singleton.1 h1) hne
    · intro r hr
      obtain ⟨i, h1, h2⟩ := h.rels_cols hA hcol hval r hr
      refine ⟨i, ?_, ?_⟩
      · show (w.tbl t).ids[i]? = _
        rw [hTe, i1]; exact h1
      · show (w.tbl t).isRel.getD i false = true
        rw [hTe, i2]; exact h2
    · intro T' hT'; rw [hT] at hT'; rw [← Option.some.inj hT']; exact hTa
    · intro b B hb hB
      constructor
      · intro hm
        obtain ⟨T', hT', hTb⟩ := h.owned b B t hB (Or.inl hm)
        rw [hT] at hT'; rw [← Option.some.inj hT'] at hTb
        exact hb (hTb.symm.trans hTa)
      · intro hm
        obtain ⟨T', hT', hTb⟩ := h.owned b B t hB (Or.inr hm)
        rw [hT] at hT'; rw [← Option.some.inj hT'] at hTb
        exact hb (hTb.symm.trans hTa)
    · intro hr
      have hr' : A0.hasRelations = false := by
        simpa only [Archetype.hasRelations, Archetype.addTable_numRel, e6] using hr
      have := (h.nonRelLe a A0 hA hr').2
      rw [hsplit] at this
      simp at this

/-! ## (2d) `createTable` on success -/

/-- What a successful `createTable a rels` guarantees (`w` before, `w'` after, `t` the result). -/
structure CreatedTable (w w' : World) (a : Nat) (rels : List RelID) (t : Nat) : Prop where
  /-- the arguments passed the checks of `createTable` -/
  numRel : (w.arch a).numRel ≤ rels.length
  cols : ∀ (r : RelID), r ∈ rels → ((w.arch a).colIdx r.comp).isSome = true
  valid : RelsValid w rels
  /-- the table exists, belongs to `a`, is active, and carries the given relations -/
  get : ∃ (T : Table), w'.tables[t]? = some T ∧ T.arch = a ∧ T.relIDs = rels ∧ T.isFree = false ∧
    T.targets = ctTargets (w.arch a) rels ∧ T.ids = (w.arch a).comps
  active : t ∈ (w'.arch a).tables.tables
  /-- either a fresh empty table at the end, or a free table of `a` recycled with its rows
      (`len`, `ents`, `cols`, `cap`) untouched -/
  kind : (t = w.tables.length ∧ w'.tables.length = w.tables.length + 1 ∧ (w'.tbl t).len = 0 ∧
            (w.arch a).freeTables = []) ∨
         (t < w.tables.length ∧ w'.tables.length = w.tables.length ∧ t ∈ (w.arch a).freeTables ∧
            (w.tbl t).isFree = true ∧
            w'.tbl t = { w.tbl t with targets := ctTargets (w.arch a) rels, relIDs := rels, isFree := false })
  /-- frame -/
  others : ∀ (t' : Nat), t' ≠ t → w'.tables[t']? = w.tables[t']?
  otherArchs : ∀ (b : Nat), b ≠ a → w'.archetypes[b]? = w.archetypes[b]?
  archLen : w'.archetypes.length = w.archetypes.length
  archA : (w'.arch a).mask = (w.arch a).mask ∧ (w'.arch a).comps = (w.arch a).comps ∧
    (w'.arch a).id = (w.arch a).id ∧ (w'.arch a).numRel = (w.arch a).numRel ∧
    (w'.arch a).tables.tables = (w.arch a).tables.tables ++ [t]
  entities : w'.entities = w.entities
  pool : w'.pool = w.pool
  kinds : w'.kinds = w.kinds
  /-- invariants -/
  sinvMid : SInvMid w'
  settledA : SettledAt w' a
  settledOthers : ∀ (b : Nat), b ≠ a → SettledAt w b → SettledAt w' b
  idx : IdxInv w → IdxInv w'
  rinv : RInv w → RInv w'

theorem list_eq_concat_of_get {α : Type} {l l' : List α} {x : α}
    (h : ∀ (t : Nat), l'[t]? = if t = l.length then some x else l[t]?) : l' = l ++ [x] := by
  apply List.ext_getElem?
  intro t; rw [h, getElem?_concat_eq]

theorem list_eq_set_of_get {α : Type} {l l' : List α} {x : α} {i : Nat} (hi : i < l.length)
    (h : ∀ (t : Nat), l'[t]? = if t = i then some x else l[t]?) : l' = l.set i x := by
  apply List.ext_getElem?
  intro t; rw [h, getElem?_set_eq _ _ _ _ hi]

/-- **2d** `createTable a rels` on success, for an existing archetype `a` which — if it has no
    relation column — has no table yet. -/
theorem SInvMid.createTable {w w' : World} (h : SInvMid w) {a : Nat} {rels : List RelID} {t : Nat}
    (ha : a < w.archetypes.length)
    (hnr : (w.arch a).hasRelations = false → (w.arch a).tables.tables = [])
    (hok : World.createTable a rels w = .ok t w') : CreatedTable w w' a rels t := by
  obtain ⟨h1, h2, h3, h4, h5⟩ := createTable_ok hok
  have hA := aget_of_lt ha
  obtain ⟨A2, Tn, ta, r1, r2, hkind, e1, e2, e3, hrinv⟩ := h.createTableS_added hA h2 h3 hnr
  obtain ⟨f1, f2, f3, f4, f5⟩ := cacheAddTable_frame h5
  rw [← h4] at ta hkind hrinv
  have ta' := ta.congr f1 f2 f3
  obtain ⟨hmid, hsa, hso⟩ := h.tableAdded ta'
  have hTn : w'.tables[t]? = some Tn := ta'.tget_self
  have hlen : w'.archetypes.length = w.archetypes.length := by rw [ta'.archs, List.length_set]
  refine { numRel := h1, cols := h2, valid := h3,
           get := ⟨Tn, hTn, ta'.tArch, r1, ta'.tFree, r2, ta'.tIds⟩,
           active := by rw [ta'.arch_self, ta'.memT]; exact Or.inr rfl,
           kind := ?_, others := fun t' ht' => ta'.tget_ne ht',
           otherArchs := fun b hb => ta'.aget_ne hb, archLen := hlen,
           archA := ?_, entities := f4.trans e1, pool := f5.trans e2, kinds := ta'.kinds,
           sinvMid := hmid, settledA := hsa, settledOthers := hso, idx := ?_,
           rinv := fun hR => hR.tableAdded ta' (hrinv (hR a _ hA)) }
  · rcases hkind with ⟨k1, k2, k3⟩ | ⟨k1, k2, k3⟩
    · left
      have : w'.tables = w.tables ++ [Tn] := list_eq_concat_of_get (k2 ▸ ta'.tabs)
      refine ⟨k2, by rw [this]; simp, ?_, k1⟩
      rw [tbl_of_get hTn, k3]; rfl
    · right
      have : w'.tables = w.tables.set t Tn := list_eq_set_of_get k1 ta'.tabs
      have hT := get_of_lt k1
      have hfree : (w.tbl t).isFree = true := by
        obtain ⟨T, hT', hTa⟩ := h.owned a _ t hA (Or.inr k2)
        have := (h.member t T hT').2
        rw [hTa] at this
        rw [tbl_of_get hT']; exact this.2 k2
      refine ⟨k1, by rw [this, List.length_set], k2, hfree, ?_⟩
      rw [tbl_of_get hTn, k3]; rfl
  · rw [ta'.arch_self]
    exact ⟨ta'.mask, ta'.comps, ta'.id, ta'.numRel, ta'.tabsEq⟩
  · intro hI
    rcases hkind with ⟨k1, k2, k3⟩ | ⟨k1, k2, k3⟩
    · have ht : w'.tables = w.tables ++ [Tn] := list_eq_concat_of_get (k2 ▸ ta'.tabs)
      have := hI.append_new_table a (w.arch a).comps (w.arch a).isRel (w.arch a).zst
        (if (w.arch a).hasRelations then w.initCapRel else w.initCap) (ctTargets (w.arch a) rels) rels
        (h.comps a _ hA).2.2
      exact this.congr (f4.trans e1) (by rw [ht, k3])
    · have ht : w'.tables = w.tables.set t Tn := list_eq_set_of_get k1 ta'.tabs
      have := hI.of_same_rows t Tn (by rw [k3]; exact Table.recycle_shape (hI.shape t _ (get_of_lt k1)) _ _)
        (by rw [k3]; rfl) (by rw [k3]; rfl) (fun r _ => by rw [k3]; rfl)
      exact this.congr (f4.trans e1) ht

/-! ## (2e) `getTable` -/

namespace World

theorem getTable_go_spec (rels : List RelID) (w : World) (ts : List Nat) :
    (getTable.go rels w ts).state = w ∧
    ∀ (t : Nat) (w' : World), getTable.go rels w ts = .ok (some t) w' → t ∈ ts := by
  induction ts with
  | nil => exact ⟨rfl, by intro t w' h; simp [getTable.go] at h⟩
  | cons x rest ih =>
    simp only [getTable.go]
    split
    · refine ⟨rfl, ?_⟩
      intro t w' h; injection h with h1 _; injection h1 with h1; subst h1; exact List.mem_cons_self
    · exact ⟨ih.1, fun t w' h => List.mem_cons_of_mem _ (ih.2 t w' h)⟩
    · exact ⟨rfl, by intro t w' h; cases h⟩
    · exact ⟨rfl, by intro t w' h; cases h⟩

/-- **2e** `getTable` never changes the state (whether it returns or panics). -/
theorem getTable_state (a : Nat) (rels : List RelID) (w : World) : (getTable a rels w).state = w := by
  unfold getTable
  simp only
  split
  · rfl
  · split
    · rfl
    · split
      · rfl
      · split
        · rfl
        · split
          · rfl
          · split
            · rfl
            · split
              · rfl
              · exact (getTable_go_spec _ _ _).1

theorem getTable_ok_state {a : Nat} {rels : List RelID} {w w' : World} {r : Option Nat}
    (h : getTable a rels w = .ok r w') : w' = w := by
  have := getTable_state a rels w
  rw [h] at this; exact this

/-- **2e** a table found by `getTable` is an active table of the archetype (for an archetype
    with relation columns this uses the soundness of its relation index). -/
theorem getTable_some_mem {a : Nat} {rels : List RelID} {w w' : World} {t : Nat}
    (h : getTable a rels w = .ok (some t) w')
    (hidx : (w.arch a).hasRelations = true → RelIndexSound (w.arch a)) :
    t ∈ (w.arch a).tables.tables := by
  unfold getTable at h
  simp only at h
  split at h
  · cases h
  · rename_i hne
    split at h
    · injection h with h1 _; injection h1 with h1; subst h1
      cases hl : (w.arch a).tables.tables with
      | nil => rw [hl] at hne; simp at hne
      | cons x rest => simp
    · rename_i hr
      split at h
      · cases h
      · split at h
        · cases h
        · split at h
          · cases h
          · split at h
            · cases h
            · split at h
              · cases h
              · rename_i ts hfind
                have hr' : (w.arch a).hasRelations = true := by simpa using hr
                exact hidx hr' _ _ ts hfind t ((getTable_go_spec _ _ _).2 t w' h)

/-- `getTable` on an archetype without relation columns: its first table, if any -/
theorem getTable_noRel {a : Nat} (rels : List RelID) {w : World}
    (hr : (w.arch a).hasRelations = false) :
    getTable a rels w =
      .ok (if (w.arch a).tables.tables.isEmpty then none
           else some ((w.arch a).tables.tables.getD 0 0)) w := by
  unfold getTable
  simp only [hr]
  split <;> rfl

end World

/-! ## (2c) `findArch` / `findOrCreateArch` -/

namespace World

theorem findArch_some {w : World} (h : SInvMid w) {mask : Mask} {a : Nat}
    (hf : w.findArch mask = some a) : ∃ (A : Archetype), w.archetypes[a]? = some A ∧ A.mask = mask := by
  unfold findArch at hf
  rw [Option.map_eq_some_iff] at hf
  obtain ⟨A, hfind, hid⟩ := hf
  have hm : A.mask = mask := by
    have := List.find?_some hfind
    simpa using this
  obtain ⟨i, hi⟩ := List.getElem?_of_mem (List.mem_of_find?_eq_some hfind)
  have := h.archId i A hi
  rw [hid] at this
  subst this
  exact ⟨A, hi, hm⟩

/-- the archetype of a mask is found by that mask -/
theorem findArch_of_get {w : World} (h : SInvMid w) {a : Nat} {A : Archetype}
    (hA : w.archetypes[a]? = some A) : w.findArch A.mask = some a := by
  cases hf : w.findArch A.mask with
  | none => exact absurd rfl (findArch_none hf a A hA)
  | some b =>
    obtain ⟨B, hB, hm⟩ := findArch_some h hf
    rw [h.maskUniq b a B A hB hA hm]

end World

/-- **2c** `findOrCreateArch mask` (all bits of `mask` registered) returns an archetype with that
    mask.  If it existed nothing changes; otherwise it is appended without a table.  Either way
    the world is `SInvMid`, every archetype other than the returned one is settled, the old
    archetypes keep their positions, and tables / registry / index / pool / cache are untouched. -/
theorem SInv.findOrCreateArch {w : World} (h : SInv w) (mask : Mask)
    (hreg : ∀ (c : Nat), mask.get c = true → c < w.kinds.length) :
    ∃ (a : Nat) (w' : World), World.findOrCreateArch mask w = .ok a w' ∧
      SInvMid w' ∧ (∀ (b : Nat), b ≠ a → SettledAt w' b) ∧
      a < w'.archetypes.length ∧ (w'.arch a).mask = mask ∧
      (∀ (b : Nat), b < w.archetypes.length → w'.archetypes[b]? = w.archetypes[b]?) ∧
      w.archetypes.length ≤ w'.archetypes.length ∧
      w'.tables = w.tables ∧ w'.kinds = w.kinds ∧ w'.entities = w.entities ∧ w'.pool = w.pool ∧
      w'.cache = w.cache ∧
      ((w.findArch mask = some a ∧ w' = w) ∨
       (w.findArch mask = none ∧ a = w.archetypes.length ∧
          w'.archetypes = w.archetypes ++ [newArch w mask])) := by
  unfold World.findOrCreateArch
  cases hf : w.findArch mask with
  | some a =>
    obtain ⟨A, hA, hm⟩ := findArch_some h.toSInvMid hf
    refine ⟨a, w, rfl, h.toSInvMid, fun b _ => h.settled b, alt_of_get hA, ?_, fun _ _ => rfl,
      Nat.le_refl _, rfl, rfl, rfl, rfl, rfl, Or.inl ⟨rfl, rfl⟩⟩
    rw [arch_of_get hA]; exact hm
  | none =>
    obtain ⟨w', hok, hmid, hset, harchs, hmask, _, _, ht, hk, he, hp, hc⟩ := h.createArchetype mask hf hreg
    refine ⟨w.archetypes.length, w', hok, hmid, hset, ?_, hmask, ?_, ?_, ht, hk, he, hp, hc,
      Or.inr ⟨rfl, rfl, harchs⟩⟩
    · rw [harchs]; simp
    · intro b hb; rw [harchs, List.getElem?_append_left hb]
    · rw [harchs]; simp

/-! ## `graph.FindAdd` on masks -/

namespace World

theorem graphFindAdd_go_ok (w : World) : ∀ (add : List Comp) (m : Mask),
    (∀ (c : Comp), c ∈ add → m.get c = false) → add.Nodup →
    graphFindAdd.go w m add = .ok (add.foldl Mask.set m) w
  | [], _, _, _ => rfl
  | c :: rest, m, hnew, hnd => by
    have hc : m.get c = false := hnew c List.mem_cons_self
    simp only [graphFindAdd.go, hc, Bool.false_eq_true, if_false, List.foldl_cons]
    apply graphFindAdd_go_ok w rest (m.set c)
    · intro c' hc'
      rw [Mask.get_set, hnew c' (List.mem_cons_of_mem _ hc')]
      have : c' ≠ c := by
        rintro rfl
        exact (List.nodup_cons.1 hnd).1 hc'
      simp [this]
    · exact (List.nodup_cons.1 hnd).2

/-- adding distinct components none of which is present: the mask walk succeeds -/
theorem graphFindAdd_ok (m : Mask) (add : List Comp) (w : World)
    (hnew : ∀ (c : Comp), c ∈ add → m.get c = false) (hnd : add.Nodup) :
    graphFindAdd m add w = .ok (add.foldl Mask.set m) w := graphFindAdd_go_ok w add m hnew hnd

theorem graphFindAdd_go_cases (w : World) : ∀ (add : List Comp) (m : Mask),
    graphFindAdd.go w m add = .ok (add.foldl Mask.set m) w ∨
    (graphFindAdd.go w m add = .panic .alreadyHas w ∧
      ∃ (pre : List Comp) (c : Comp) (post : List Comp), add = pre ++ c :: post ∧
        (pre.foldl Mask.set m).get c = true)
  | [], _ => Or.inl rfl
  | c :: rest, m => by
    simp only [graphFindAdd.go]
    cases hc : m.get c with
    | true => exact Or.inr ⟨by simp, [], c, rest, rfl, hc⟩
    | false =>
      simp only [Bool.false_eq_true, if_false, List.foldl_cons]
      rcases graphFindAdd_go_cases w rest (m.set c) with h | ⟨h, pre, c', post, e, hg⟩
      · exact Or.inl h
      · exact Or.inr ⟨h, c :: pre, c', post, by rw [e]; rfl, hg⟩

/-- `graph.FindAdd` either returns the mask with all of `add` set, or rejects with
    `alreadyHas`; it never changes the state -/
theorem graphFindAdd_cases (m : Mask) (add : List Comp) (w : World) :
    graphFindAdd m add w = .ok (add.foldl Mask.set m) w ∨
    (graphFindAdd m add w = .panic .alreadyHas w ∧
      ∃ (pre : List Comp) (c : Comp) (post : List Comp), add = pre ++ c :: post ∧
        (pre.foldl Mask.set m).get c = true) := graphFindAdd_go_cases w add m

theorem graphFindAdd_go_reject (w : World) : ∀ (pre : List Comp) (c : Comp) (post : List Comp) (m : Mask),
    (pre.foldl Mask.set m).get c = true → graphFindAdd.go w m (pre ++ c :: post) = .panic .alreadyHas w
  | [], c, post, m, h => by simp only [List.nil_append, graphFindAdd.go]; exact if_pos h
  | x :: pre, c, post, m, h => by
    simp only [List.cons_append, graphFindAdd.go]
    split
    · rfl
    · exact graphFindAdd_go_reject w pre c post (m.set x) h

/-- the rejection: a component that is already in the running mask -/
theorem graphFindAdd_reject (m : Mask) (pre : List Comp) (c : Comp) (post : List Comp) (w : World)
    (h : (pre.foldl Mask.set m).get c = true) :
    graphFindAdd m (pre ++ c :: post) w = .panic .alreadyHas w :=
  graphFindAdd_go_reject w pre c post m h

/-! ## `cache.addTable` cannot fail for a table without relations -/

theorem foldl_ne_none {α β : Type} {step : Option β → α → Option β}
    (h : ∀ (acc : β) (e : α), step (some acc) e ≠ none) :
    ∀ (fs : List α) (acc : β), fs.foldl step (some acc) ≠ none
  | [], _ => by simp
  | e :: rest, acc => by
    rw [List.foldl_cons]
    cases hs : step (some acc) e with
    | none => exact absurd hs (h acc e)
    | some acc' => exact foldl_ne_none h rest acc'

theorem cacheAddTable_noRel (w : World) (T : Table) (h : T.hasRelations = false) :
    ∃ (w' : World), w.cacheAddTable T = some w' := by
  unfold cacheAddTable
  simp only
  split
  · rename_i heq
    refine absurd heq (foldl_ne_none ?_ _ _)
    intro acc e
    dsimp only
    split
    · simp
    · rw [h]; simp
  · exact ⟨_, rfl⟩

end World

/-! ## (3) `findOrCreateTableAdd` -/

/-- What `findOrCreateTableAdd` (and its siblings) guarantee about the table `t` of archetype `a`
    they return (`w` before, `w'` after, `mask` the new component mask). -/
structure FoundOrCreated (w w' : World) (mask : Mask) (t a : Nat) : Prop where
  archMask : (w'.arch a).mask = mask
  archLt : a < w'.archetypes.length
  active : t ∈ (w'.arch a).tables.tables
  tblLt : t < w'.tables.length
  tblArch : (w'.tbl t).arch = a
  tblIds : (w'.tbl t).ids = mask.toList w.kinds.length
  tblFree : (w'.tbl t).isFree = false
  sinv : SInv w'
  idx : IdxInv w → IdxInv w'
  rinv : RInv w → RInv w'
  entities : w'.entities = w.entities
  pool : w'.pool = w.pool
  kinds : w'.kinds = w.kinds
  /-- the rows (and layout) of every table that existed before are unchanged -/
  rows : ∀ (t' : Nat), t' < w.tables.length →
    (w'.tbl t').len = (w.tbl t').len ∧ (w'.tbl t').ents = (w.tbl t').ents ∧
    (w'.tbl t').cols = (w.tbl t').cols ∧ (w'.tbl t').arch = (w.tbl t').arch ∧
    (w'.tbl t').ids = (w.tbl t').ids ∧ (w'.tbl t').id = (w.tbl t').id
  /-- only the returned table can have changed at all (recycling edits `targets`, `relIDs`, `isFree`) -/
  others : ∀ (t' : Nat), t' < w.tables.length → t' ≠ t → w'.tables[t']? = w.tables[t']?
  tablesLen : w.tables.length ≤ w'.tables.length
  /-- a table that did not exist before is empty -/
  newEmpty : w.tables.length ≤ t → (w'.tbl t).len = 0
  /-- the old archetypes keep their masks -/
  masks : ∀ (b : Nat), b < w.archetypes.length → (w'.arch b).mask = (w.arch b).mask
  archsLen : w.archetypes.length ≤ w'.archetypes.length

namespace World

theorem findOrCreateTableAdd_ok_inv {oldT : Nat} {startMask mask mask' : Mask} {add : List Comp}
    {rels : List RelID} {w w1 w' : World} {a a' t : Nat}
    (hg : graphFindAdd startMask add w = .ok mask w) (ha : findOrCreateArch mask w = .ok a w1)
    (hok : findOrCreateTableAdd oldT startMask add rels w = .ok (t, a', mask') w') :
    mask' = mask ∧ a' = a ∧
    ((getTable a (relsForAdd (w1.tbl oldT) rels) w1 = .ok (some t) w1 ∧ w' = w1) ∨
     (getTable a (relsForAdd (w1.tbl oldT) rels) w1 = .ok none w1 ∧
        createTable a (relsForAdd (w1.tbl oldT) rels) w1 = .ok t w')) := by
  simp only [findOrCreateTableAdd, bind, M.bind, hg, ha, M.get] at hok
  cases hgt : getTable a (relsForAdd (w1.tbl oldT) rels) w1 with
  | panic k s => rw [hgt] at hok; cases hok
  | ok r s =>
    have hs := getTable_ok_state hgt
    subst hs
    rw [hgt] at hok
    cases r with
    | some t1 =>
      simp only [pure, M.pure] at hok
      injection hok with h1 h2
      injection h1 with h1 h3
      injection h3 with h3 h4
      subst h1; subst h2; subst h3; subst h4
      exact ⟨rfl, rfl, Or.inl ⟨rfl, rfl⟩⟩
    | none =>
      simp only at hok
      cases hct : createTable a (relsForAdd (s.tbl oldT) rels) s with
      | panic k s2 => simp only [M.bind, hct] at hok; cases hok
      | ok t2 s2 =>
        simp only [M.bind, hct, pure, M.pure] at hok
        injection hok with h1 h2
        injection h1 with h1 h3
        injection h3 with h3 h4
        subst h1; subst h2; subst h3; subst h4
        exact ⟨rfl, rfl, Or.inr ⟨rfl, rfl⟩⟩

/-- the rejection of `findOrCreateTableAdd`: a component that is already in the running mask
    (present in the start mask, or listed twice) is refused with the state unchanged -/
theorem findOrCreateTableAdd_reject (oldT : Nat) (startMask : Mask) (pre : List Comp) (c : Comp)
    (post : List Comp) (rels : List RelID) (w : World)
    (h : (pre.foldl Mask.set startMask).get c = true) :
    findOrCreateTableAdd oldT startMask (pre ++ c :: post) rels w = .panic .alreadyHas w := by
  simp only [findOrCreateTableAdd, bind, M.bind, graphFindAdd_reject startMask pre c post w h]

theorem newArch_relIndexSound (w : World) (mask : Mask) : RelIndexSound (newArch w mask) := by
  intro i g ts hf
  have : (newArch w mask).relationTables.getD i [] = [] := by
    simp only [newArch, Archetype.new, List.getD_eq_getElem?_getD, List.getElem?_map]
    cases (mask.toList w.kinds.length)[i]? <;> rfl
  rw [this] at hf; cases hf

end World

theorem Mask.get_foldl_set_reg {startMask : Mask} {add : List Comp} {n : Nat}
    (h1 : ∀ (c : Nat), startMask.get c = true → c < n) (h2 : ∀ (c : Comp), c ∈ add → c < n)
    (c : Nat) (hc : (add.foldl Mask.set startMask).get c = true) : c < n := by
  rw [Mask.get_ofList_foldl] at hc
  cases hs : startMask.get c with
  | true => exact h1 c hs
  | false =>
    rw [hs] at hc
    simp at hc
    exact h2 c hc.2

/-- **3 (general form, on success)**: whenever `findOrCreateTableAdd` returns — with or without
    relations — the result satisfies `FoundOrCreated`.  `hidx` (the relation index of the target archetype, if it
    exists already and has relation columns, only lists active tables; a consequence of the
    archetype index invariant of `ArchIndex`) is vacuous for archetypes without relations. -/
theorem SInv.findOrCreateTableAdd_of_ok {w w' : World} (h : SInv w) {oldT : Nat}
    {startMask mask : Mask} {add : List Comp} {rels : List RelID} {t a : Nat}
    (hstart : ∀ (c : Nat), startMask.get c = true → c < w.kinds.length)
    (hreg : ∀ (c : Comp), c ∈ add → c < w.kinds.length)
    (hidx : ∀ (b : Nat) (B : Archetype), w.archetypes[b]? = some B →
      B.mask = add.foldl Mask.set startMask → B.hasRelations = true → RelIndexSound B)
    (hok : World.findOrCreateTableAdd oldT startMask add rels w = .ok (t, a, mask) w') :
    mask = add.foldl Mask.set startMask ∧ FoundOrCreated w w' mask t a := by
  -- step 1: the mask walk
  have hg : graphFindAdd startMask add w = .ok (add.foldl Mask.set startMask) w := by
    rcases graphFindAdd_cases startMask add w with hg | ⟨hg, _⟩
    · exact hg
    · simp only [World.findOrCreateTableAdd, bind, M.bind, hg] at hok; cases hok
  -- step 2: the archetype
  obtain ⟨a1, w1, ha, hmid, hset, halt, hmask, hpre, hlen, ht, hk, he, hp, _, hcase⟩ :=
    h.findOrCreateArch (add.foldl Mask.set startMask) (Mask.get_foldl_set_reg hstart hreg)
  obtain ⟨rfl, rfl, hbr⟩ := findOrCreateTableAdd_ok_inv hg ha hok
  refine ⟨rfl, ?_⟩
  have hA1 := aget_of_lt halt
  have hmasks1 : ∀ (b : Nat), b < w.archetypes.length → (w1.arch b).mask = (w.arch b).mask := by
    intro b hb
    simp only [arch, List.getD_eq_getElem?_getD, hpre b hb]
  have hidx1 : (w1.arch a).hasRelations = true → RelIndexSound (w1.arch a) := by
    intro hr
    rcases hcase with ⟨hf, rfl⟩ | ⟨_, rfl, harchs⟩
    · exact hidx a _ hA1 hmask hr
    · have : w1.arch w.archetypes.length = newArch w (add.foldl Mask.set startMask) := by
        apply arch_of_get; rw [harchs]; exact List.getElem?_concat_length
      rw [this]; exact newArch_relIndexSound _ _
  rcases hbr with ⟨hgt, rfl⟩ | ⟨hgt, hct⟩
  · -- an existing table
    have hact := getTable_some_mem hgt hidx1
    obtain ⟨T, hT, hTa⟩ := hmid.owned a _ t hA1 (Or.inl hact)
    have hTe := tbl_of_get hT
    obtain ⟨A0, hA0, i1, _⟩ := hmid.tblArch t T hT
    have hA0e : A0 = w'.arch a := by rw [hTa, hA1] at hA0; exact (Option.some.inj hA0).symm
    have hsettled : SettledAt w' a := by
      intro A hA hr
      rw [hA1] at hA
      have hAe := (Option.some.inj hA).symm
      subst hAe
      have := (hmid.nonRelLe a _ hA1 hr).1
      cases hl : (w'.arch a).tables.tables with
      | nil => rw [hl] at hact; cases hact
      | cons x rest => rw [hl] at this; simp only [List.length_cons] at this ⊢; omega
    refine { archMask := hmask, archLt := halt, active := hact, tblLt := lt_of_get hT,
             tblArch := by rw [hTe]; exact hTa, tblIds := ?_, tblFree := ?_,
             sinv := { hmid with settled := fun b => ?_ }, idx := fun hI => hI.congr he ht,
             rinv := fun hR => hR.findOrCreateArch ha,
             entities := he, pool := hp, kinds := hk, rows := ?_, others := ?_,
             tablesLen := by rw [ht]; exact Nat.le_refl _,
             newEmpty := ?_, masks := hmasks1, archsLen := hlen }
    · rw [hTe, i1, hA0e, (hmid.comps a _ hA1).1, hmask, hk]
    · have := (hmid.member t T hT).1
      rw [hTa] at this
      rw [hTe]; exact this.2 hact
    · by_cases hb : b = a
      · subst hb; exact hsettled
      · exact hset b hb
    · intro t' _
      have : w'.tbl t' = w.tbl t' := by simp only [tbl, ht]
      rw [this]; exact ⟨rfl, rfl, rfl, rfl, rfl, rfl⟩
    · intro t' _ _; rw [ht]
    · intro hle
      have := lt_of_get hT
      rw [ht] at this
      omega
  · -- a table created (or recycled)
    have hnr : (w1.arch a).hasRelations = false → (w1.arch a).tables.tables = [] := by
      intro hr
      rw [getTable_noRel _ hr] at hgt
      injection hgt with hgt _
      split at hgt
      · rename_i he
        exact List.isEmpty_iff.1 he
      · cases hgt
    have ct := hmid.createTable halt hnr hct
    obtain ⟨T, hT, hTa, _, hTf, _, hTi⟩ := ct.get
    have hTe := tbl_of_get hT
    refine { archMask := ct.archA.1.trans hmask, archLt := by rw [ct.archLen]; exact halt,
             active := ct.active, tblLt := lt_of_get hT,
             tblArch := by rw [hTe]; exact hTa, tblIds := ?_, tblFree := by rw [hTe]; exact hTf,
             sinv := { ct.sinvMid with settled := fun b => ?_ },
             idx := fun hI => ct.idx (hI.congr he ht),
             rinv := fun hR => ct.rinv (hR.findOrCreateArch ha),
             entities := ct.entities.trans he, pool := ct.pool.trans hp, kinds := ct.kinds.trans hk,
             rows := ?_, others := ?_, tablesLen := ?_, newEmpty := ?_, masks := ?_,
             archsLen := by rw [ct.archLen]; exact hlen }
    · rw [hTe, hTi, (hmid.comps a _ hA1).1, hmask, hk]
    · by_cases hb : b = a
      · subst hb; exact ct.settledA
      · exact ct.settledOthers b hb (hset b hb)
    · intro t' hlt
      have hw1 : w1.tbl t' = w.tbl t' := by simp only [tbl, ht]
      by_cases htt : t' = t
      · subst htt
        rcases ct.kind with ⟨k1, _⟩ | ⟨_, _, _, _, k5⟩
        · rw [ht] at k1; omega
        · rw [k5, hw1]; exact ⟨rfl, rfl, rfl, rfl, rfl, rfl⟩
      · have : w'.tbl t' = w.tbl t' := by
          simp only [tbl, List.getD_eq_getElem?_getD, ct.others t' htt, ht]
        rw [this]; exact ⟨rfl, rfl, rfl, rfl, rfl, rfl⟩
    · intro t' _ htt; rw [ct.others t' htt, ht]
    · rcases ct.kind with ⟨_, k2, _⟩ | ⟨_, k2, _⟩ <;> rw [k2, ht] <;> omega
    · intro hle
      rcases ct.kind with ⟨_, _, k3, _⟩ | ⟨k1, _⟩
      · exact k3
      · rw [ht] at k1; omega
    · intro b hb
      rw [← hmasks1 b hb]
      by_cases hba : b = a
      · subst hba; exact ct.archA.1
      · simp only [arch, List.getD_eq_getElem?_getD, ct.otherArchs b hba]

/-! ## (3) the total specification for the relation-free case -/

/-- an archetype all of whose columns are non-relation columns has no relations -/
theorem Archetype.Struct.hasRelations_false {A : Archetype} (h : A.Struct)
    (hall : ∀ (i : Nat), A.isRel.getD i false = false) : A.hasRelations = false := by
  have : (A.isRel.filter fun b => b) = [] := by
    rw [List.filter_eq_nil_iff]
    intro x hx hxt
    obtain ⟨i, hi⟩ := List.getElem?_of_mem hx
    have := hall i
    rw [List.getD_eq_getElem?_getD, hi] at this
    simp at this hxt
    rw [this] at hxt; cases hxt
  simp [Archetype.hasRelations, h.numRelEq, this]

namespace SInvMid

/-- a table of an archetype without relation columns lists no relations -/
theorem relIDs_nil {w : World} (h : SInvMid w) {t : Nat} {T : Table} (hT : w.tables[t]? = some T)
    (hr : (w.arch T.arch).hasRelations = false) : T.relIDs = [] := by
  obtain ⟨A, hA, _, i2, _⟩ := h.tblArch t T hT
  rw [arch_of_get hA] at hr
  have h0 : A.numRel = 0 := by simpa [Archetype.hasRelations] using hr
  apply List.eq_nil_iff_forall_not_mem.2
  intro r hr'
  obtain ⟨i, _, hi⟩ := h.relCols t T hT r hr'
  rw [i2] at hi
  exact (h.astruct _ A hA).no_rel h0 i hi

/-- the columns of an archetype are exactly the registered bits of its mask -/
theorem mem_comps {w : World} (h : SInvMid w) {a : Nat} {A : Archetype}
    (hA : w.archetypes[a]? = some A) (c : Comp) : c ∈ A.comps ↔ A.mask.get c = true := by
  rw [(h.comps a A hA).1, Mask.mem_toList]
  exact ⟨fun h1 => h1.2, fun h1 => ⟨h.maskReg a A hA c h1, h1⟩⟩

/-- an archetype whose components are all non-relation components has no relations -/
theorem hasRelations_false_of_kinds {w : World} (h : SInvMid w) {a : Nat} {A : Archetype}
    (hA : w.archetypes[a]? = some A)
    (hk : ∀ (c : Comp), A.mask.get c = true → (w.kinds.getD c {}).isRel = false) :
    A.hasRelations = false := by
  apply (h.astruct a A hA).hasRelations_false
  intro i
  cases hc : A.comps[i]? with
  | none =>
    have hlen := (h.comps a A hA).2.1
    have : A.comps.length ≤ i := by
      rcases Nat.lt_or_ge i A.comps.length with h1 | h1
      · rw [List.getElem?_eq_getElem h1] at hc; cases hc
      · exact h1
    rw [List.getD_eq_getElem?_getD, List.getElem?_eq_none (by omega)]; rfl
  | some c =>
    rw [(h.kindsOf a A i c hA hc).1]
    exact hk c ((h.mem_comps hA c).1 (List.mem_of_getElem? hc))

/-- conversely the components of an archetype without relations are non-relation components -/
theorem kinds_of_hasRelations_false {w : World} (h : SInvMid w) {a : Nat} {A : Archetype}
    (hA : w.archetypes[a]? = some A) (hr : A.hasRelations = false) (c : Comp)
    (hc : A.mask.get c = true) : (w.kinds.getD c {}).isRel = false := by
  have h0 : A.numRel = 0 := by simpa [Archetype.hasRelations] using hr
  obtain ⟨i, hi⟩ := List.getElem?_of_mem ((h.mem_comps hA c).2 hc)
  rw [← (h.kindsOf a A i c hA hi).1]
  cases hb : A.isRel.getD i false with
  | false => rfl
  | true => exact absurd hb ((h.astruct a A hA).no_rel h0 i)

/-- the root archetype (empty mask) has no relations -/
theorem root_noRel {w : World} (h : SInvMid w) : (w.arch 0).hasRelations = false := by
  obtain ⟨h0, h1, h2⟩ := h.root
  obtain ⟨A, hA, _⟩ := h.tblArch 0 _ (get_of_lt h0)
  rw [h1] at hA
  rw [arch_of_get hA] at h2 ⊢
  apply h.hasRelations_false_of_kinds hA
  intro c hc; rw [h2] at hc; simp at hc

end SInvMid

/-- **3 (total form, relation-free case)**.  `oldT` is an existing table whose archetype has no
    relation column, `startMask` that archetype's mask; `add` are distinct registered
    NON-relation components none of which is in `startMask`; no relations are given.  Then
    `findOrCreateTableAdd` succeeds and returns a table `t` of an archetype `a` with mask
    `add.foldl Mask.set startMask` such that `FoundOrCreated` holds; moreover every table that
    existed before is completely unchanged, and `t ≠ oldT` unless `add = []` (given component
    IDs below the mask width). -/
theorem SInv.findOrCreateTableAdd_spec {w : World} (h : SInv w) (hI : IdxInv w) {oldT : Nat}
    (hold : oldT < w.tables.length) {startMask : Mask}
    (hstart : startMask = (w.arch (w.tbl oldT).arch).mask)
    (hnrOld : (w.arch (w.tbl oldT).arch).hasRelations = false)
    {add : List Comp} (hnd : add.Nodup) (hnew : ∀ (c : Comp), c ∈ add → startMask.get c = false)
    (hreg : ∀ (c : Comp), c ∈ add → c < w.kinds.length)
    (hnr : ∀ (c : Comp), c ∈ add → (w.kinds.getD c {}).isRel = false) :
    ∃ (t a : Nat) (w' : World),
      World.findOrCreateTableAdd oldT startMask add [] w =
        .ok (t, a, add.foldl Mask.set startMask) w' ∧
      FoundOrCreated w w' (add.foldl Mask.set startMask) t a ∧ IdxInv w' ∧
      (∀ (t' : Nat), t' < w.tables.length → w'.tables[t']? = w.tables[t']?) ∧
      (add ≠ [] → (∀ (c : Comp), c ∈ add → c < 256) → t ≠ oldT) := by
  have hT0 := get_of_lt hold
  obtain ⟨Aold, hAold, _⟩ := h.tblArch oldT _ hT0
  have hAoldE := arch_of_get hAold
  have hstartReg : ∀ (c : Nat), startMask.get c = true → c < w.kinds.length := by
    intro c hc; rw [hstart, hAoldE] at hc; exact h.maskReg _ Aold hAold c hc
  have hrel0 : (w.tbl oldT).relIDs = [] := h.relIDs_nil hT0 hnrOld
  -- step 1
  have hg := graphFindAdd_ok startMask add w hnew hnd
  -- step 2
  obtain ⟨a, w1, ha, hmid, hset, halt, hmask, hpre, hlen, ht, hk, he, hp, _, hcase⟩ :=
    h.findOrCreateArch (add.foldl Mask.set startMask) (Mask.get_foldl_set_reg hstartReg hreg)
  have hA1 := aget_of_lt halt
  have hnr1 : (w1.arch a).hasRelations = false := by
    apply hmid.hasRelations_false_of_kinds hA1
    intro c hc
    rw [hmask, Mask.get_ofList_foldl] at hc
    rw [hk]
    cases hs : startMask.get c with
    | true =>
      rw [hstart, hAoldE] at hs
      rw [hAoldE] at hnrOld
      exact h.kinds_of_hasRelations_false hAold hnrOld c hs
    | false =>
      rw [hs] at hc; simp at hc
      exact hnr c hc.2
  have hall : relsForAdd (w1.tbl oldT) [] = [] := by
    have : w1.tbl oldT = w.tbl oldT := by simp only [tbl, ht]
    simp [relsForAdd, this, hrel0]
  have hgt := getTable_noRel (a := a) [] hnr1
  -- the result, by cases on whether the archetype has its table
  have hres : ∃ (t : Nat) (w' : World),
      World.findOrCreateTableAdd oldT startMask add [] w =
        .ok (t, a, add.foldl Mask.set startMask) w' ∧
      (∀ (t' : Nat), t' < w.tables.length → w'.tables[t']? = w.tables[t']?) := by
    cases hem : (w1.arch a).tables.tables.isEmpty with
    | false =>
      refine ⟨(w1.arch a).tables.tables.getD 0 0, w1, ?_, fun t' _ => by rw [ht]⟩
      simp only [World.findOrCreateTableAdd, bind, M.bind, hg, ha, M.get, hall, hgt, hem,
        Bool.false_eq_true, if_false, pure, M.pure]
    | true =>
      have hemp : (w1.arch a).tables.tables = [] := List.isEmpty_iff.1 hem
      have h0 : (w1.arch a).numRel = 0 := by simpa [Archetype.hasRelations] using hnr1
      have hct0 := createTable_of_valid (a := a) (rels := []) (w := w1) (by omega)
        (by intro r hr; cases hr) List.nodup_nil (by intro r hr; cases hr)
      obtain ⟨A2, Tn, ta, r1, _, _, _⟩ := hmid.createTableS_added hA1 (rels := [])
        (by intro r hr; cases hr) (by intro r hr; cases hr) (fun _ => hemp)
      have hTn : (createTableS w1 a []).1.tbl (createTableS w1 a []).2 = Tn := tbl_of_get ta.tget_self
      obtain ⟨w2, hw2⟩ := cacheAddTable_noRel (createTableS w1 a []).1 Tn
        (by simp [Table.hasRelations, r1])
      have hct : World.createTable a [] w1 = .ok (createTableS w1 a []).2 w2 := by
        rw [hct0, ctFinish, hTn, hw2]
      have ct := hmid.createTable halt (fun _ => hemp) hct
      refine ⟨(createTableS w1 a []).2, w2, ?_, ?_⟩
      · simp only [World.findOrCreateTableAdd, bind, M.bind, hg, ha, M.get, hall, hgt, hem,
          if_true, hct, pure, M.pure]
      · intro t' hlt
        have hne : t' ≠ (createTableS w1 a []).2 := by
          rcases ct.kind with ⟨k1, _⟩ | ⟨_, _, k3, _⟩
          · rw [k1, ht]; omega
          · rw [(hmid.nonRelLe a _ hA1 hnr1).2] at k3; cases k3
        rw [ct.others t' hne, ht]
  obtain ⟨t, w', hok, hsame⟩ := hres
  obtain ⟨_, hfc⟩ := h.findOrCreateTableAdd_of_ok hstartReg hreg (by
    intro b B hB hm hr
    -- the target archetype, if it exists, has no relation column
    exfalso
    have hb : w.findArch (add.foldl Mask.set startMask) = some b := by
      rw [← hm]; exact findArch_of_get h.toSInvMid hB
    rcases hcase with ⟨hf, rfl⟩ | ⟨hf, _⟩
    · rw [hf] at hb
      have := Option.some.inj hb
      subst this
      rw [arch_of_get hB] at hnr1
      rw [hnr1] at hr; cases hr
    · rw [hf] at hb; cases hb) hok
  refine ⟨t, a, w', hok, hfc, hfc.idx hI, hsame, ?_⟩
  intro hne hbits hto
  subst hto
  -- the old table would belong to the new archetype, whose mask differs
  have harch : (w.tbl t).arch = a := by rw [← (hfc.rows t hold).2.2.2.1]; exact hfc.tblArch
  have halt0 : a < w.archetypes.length := by rw [← harch]; exact alt_of_get hAold
  have hm : add.foldl Mask.set startMask = startMask := by
    rw [← hfc.archMask, hfc.masks a halt0, hstart, harch]
  cases add with
  | nil => exact hne rfl
  | cons c rest =>
    have h1 : (List.foldl Mask.set startMask (c :: rest)).get c = true := by
      rw [Mask.get_ofList_foldl]
      simp [hbits c List.mem_cons_self]
    rw [hm, hnew c List.mem_cons_self] at h1
    cases h1

/-- **3 (creation)**: `findOrCreateTableAdd 0 Mask.empty ids []` as used by `newEntity` for
    distinct registered non-relation components. -/
theorem SInv.findOrCreateTableAdd_spec_new {w : World} (h : SInv w) (hI : IdxInv w)
    {add : List Comp} (hnd : add.Nodup) (hreg : ∀ (c : Comp), c ∈ add → c < w.kinds.length)
    (hnr : ∀ (c : Comp), c ∈ add → (w.kinds.getD c {}).isRel = false) :
    ∃ (t a : Nat) (w' : World),
      World.findOrCreateTableAdd 0 Mask.empty add [] w = .ok (t, a, Mask.ofList add) w' ∧
      FoundOrCreated w w' (Mask.ofList add) t a ∧ IdxInv w' ∧
      (∀ (t' : Nat), t' < w.tables.length → w'.tables[t']? = w.tables[t']?) ∧
      (add ≠ [] → (∀ (c : Comp), c ∈ add → c < 256) → t ≠ 0) := by
  obtain ⟨h0, h1, h2⟩ := h.root
  have hnro : (w.arch (w.tbl 0).arch).hasRelations = false := by rw [h1]; exact h.root_noRel
  exact h.findOrCreateTableAdd_spec hI h0 (by rw [h1, h2]) hnro hnd (fun c _ => Mask.get_empty c) hreg hnr

/-! ## corollaries -/

/-- `createTable` restores `SInv` when every other archetype is settled -/
theorem CreatedTable.sinv {w w' : World} {a : Nat} {rels : List RelID} {t : Nat}
    (ct : CreatedTable w w' a rels t) (hs : ∀ (b : Nat), b ≠ a → SettledAt w b) : SInv w' :=
  { ct.sinvMid with
    settled := fun b => by
      by_cases hb : b = a
      · subst hb; exact ct.settledA
      · exact ct.settledOthers b hb (hs b hb) }

/-- **2d on a settled world**: `createTable` for an existing archetype WITH relation columns
    (the `setRelations` / `cleanupArchetypes` / exchange paths) keeps `SInv`. -/
theorem SInv.createTable_rel {w w' : World} (h : SInv w) {a : Nat} {rels : List RelID} {t : Nat}
    (ha : a < w.archetypes.length) (hr : (w.arch a).hasRelations = true)
    (hok : World.createTable a rels w = .ok t w') : CreatedTable w w' a rels t ∧ SInv w' := by
  have ct := h.toSInvMid.createTable ha (fun hf => by rw [hr] at hf; cases hf) hok
  exact ⟨ct, ct.sinv fun b _ => h.settled b⟩

/-- the relation index of every archetype only lists active tables -/
theorem RInv.relIndexSound {w : World} (h : RInv w) {b : Nat} {B : Archetype}
    (hB : w.archetypes[b]? = some B) : RelIndexSound B := (h b B hB).relIndexSound

/-- **2e under `RInv`**: a table found by `getTable` is an active table of the archetype. -/
theorem RInv.getTable_some_mem {w w' : World} (h : RInv w) {a : Nat} {rels : List RelID} {t : Nat}
    (ha : a < w.archetypes.length) (hg : getTable a rels w = .ok (some t) w') :
    t ∈ (w.arch a).tables.tables :=
  World.getTable_some_mem hg fun _ => h.relIndexSound (aget_of_lt ha)

/-- **3 (general form, on success) under `RInv`**: with the relation-index invariant the result
    of `findOrCreateTableAdd` — for any `add` / `rels`, also with relation components — satisfies
    `FoundOrCreated`, and `RInv` is preserved. -/
theorem SInv.findOrCreateTableAdd_of_ok_rinv {w w' : World} (h : SInv w) (hR : RInv w) {oldT : Nat}
    {startMask mask : Mask} {add : List Comp} {rels : List RelID} {t a : Nat}
    (hstart : ∀ (c : Nat), startMask.get c = true → c < w.kinds.length)
    (hreg : ∀ (c : Comp), c ∈ add → c < w.kinds.length)
    (hok : World.findOrCreateTableAdd oldT startMask add rels w = .ok (t, a, mask) w') :
    mask = add.foldl Mask.set startMask ∧ FoundOrCreated w w' mask t a ∧ RInv w' := by
  obtain ⟨h1, h2⟩ := h.findOrCreateTableAdd_of_ok hstart hreg
    (fun b B hB _ _ => hR.relIndexSound hB) hok
  exact ⟨h1, h2, h2.rinv hR⟩

/-- no two archetypes have the same component set -/
theorem SInvMid.archetype_masks_unique {w : World} (h : SInvMid w) {a b : Nat}
    (ha : a < w.archetypes.length) (hb : b < w.archetypes.length)
    (hm : (w.arch a).mask = (w.arch b).mask) : a = b :=
  h.maskUniq a b _ _ (aget_of_lt ha) (aget_of_lt hb) hm

/-- … nor the same column list -/
theorem SInvMid.archetype_comps_unique {w : World} (h : SInvMid w) {a b : Nat}
    (ha : a < w.archetypes.length) (hb : b < w.archetypes.length)
    (hc : (w.arch a).comps = (w.arch b).comps) : a = b := by
  apply h.archetype_masks_unique ha hb
  apply Mask.ext_get
  intro c _
  have h1 := h.mem_comps (aget_of_lt ha) c
  have h2 := h.mem_comps (aget_of_lt hb) c
  rw [hc] at h1
  cases hx : (w.arch a).mask.get c <;> cases hy : (w.arch b).mask.get c <;> simp_all

/-! ## totality of `createTable` (the cache part cannot fail under a cache hypothesis) -/

namespace World

/-- every relation a cached filter fixes names a component the filter requires (the typed API
    checks this as `relNotInMask`); under it `cache.addTable` never hits `Matches`' nil
    dereference -/
def CacheRelsOK (w : World) : Prop :=
  ∀ (e : CacheEntry), e ∈ w.cache.filters → ∀ (r : RelID), r ∈ e.rels → e.filter.mask.get r.comp = true

theorem matchesRels_go_ne_none (T : Table) : ∀ (rels : List RelID),
    (∀ (r : RelID), r ∈ rels → (T.colIdx r.comp).isSome = true) → Table.matchesRels.go T rels ≠ none
  | [], _ => by simp [Table.matchesRels.go]
  | r :: rest, h => by
    have hr := h r List.mem_cons_self
    cases hc : T.colIdx r.comp with
    | none => rw [hc] at hr; cases hr
    | some i =>
      simp only [Table.matchesRels.go, hc]
      split
      · simp
      · exact matchesRels_go_ne_none T rest fun r' hr' => h r' (List.mem_cons_of_mem _ hr')

theorem matchesRels_ne_none (T : Table) (rels : List RelID)
    (h : ∀ (r : RelID), r ∈ rels → (T.colIdx r.comp).isSome = true) : T.matchesRels rels ≠ none := by
  unfold Table.matchesRels
  split
  · simp
  · exact matchesRels_go_ne_none T rels h

theorem foldl_ne_none_mem {α β : Type} {step : Option β → α → Option β} : ∀ (fs : List α),
    (∀ (acc : β) (e : α), e ∈ fs → step (some acc) e ≠ none) →
    ∀ (acc : β), fs.foldl step (some acc) ≠ none
  | [], _, _ => by simp
  | e :: rest, h, acc => by
    rw [List.foldl_cons]
    cases hs : step (some acc) e with
    | none => exact absurd hs (h acc e List.mem_cons_self)
    | some acc' =>
      exact foldl_ne_none_mem rest (fun a x hx => h a x (List.mem_cons_of_mem _ hx)) acc'

/-- `cache.addTable` succeeds for a table that has a column for every component of its
    archetype's mask -/
theorem cacheAddTable_total {w : World} (hc : CacheRelsOK w) (T : Table)
    (hcol : ∀ (c : Comp), (w.arch T.arch).mask.get c = true → (T.colIdx c).isSome = true) :
    ∃ (w' : World), w.cacheAddTable T = some w' := by
  unfold cacheAddTable
  simp only
  split
  · rename_i heq
    refine absurd heq (foldl_ne_none_mem _ ?_ _)
    intro acc e he
    dsimp only
    split
    · simp
    · rename_i hm
      split
      · simp
      · have hne : T.matchesRels e.rels ≠ none := by
          apply matchesRels_ne_none
          intro r hr
          apply hcol
          have hm' : e.filter.matchesMask (w.arch T.arch).mask = true := by simpa using hm
          rw [Filter.matchesMask_iff] at hm'
          exact hm'.1 r.comp (hc e he r hr)
        cases hmr : T.matchesRels e.rels with
        | none => exact absurd hmr hne
        | some b => cases b <;> simp
  · exact ⟨_, rfl⟩

end World

theorem Table.colIdx_isSome_of_mem {T : Table} {c : Comp} (h : c ∈ T.ids) : (T.colIdx c).isSome = true := by
  unfold Table.colIdx
  simp only
  rw [if_pos (List.idxOf_lt_length_of_mem h)]; rfl

/-- **2d, totality**: when the arguments pass the checks of `createTable` (no relation component
    named twice — the repair of D18 —, every one a column, `RelsValid`) and the cached
    filters are well-formed (`CacheRelsOK`), `createTable` succeeds (and `CreatedTable` holds). -/
theorem SInvMid.createTable_total {w : World} (h : SInvMid w) (hc : CacheRelsOK w) {a : Nat}
    {rels : List RelID} (ha : a < w.archetypes.length)
    (hnr : (w.arch a).hasRelations = false → (w.arch a).tables.tables = [])
    (h1 : (w.arch a).numRel ≤ rels.length)
    (h2 : ∀ (r : RelID), r ∈ rels → ((w.arch a).colIdx r.comp).isSome = true)
    (hnd : (rels.map (·.comp)).Nodup)
    (h3 : RelsValid w rels) :
    ∃ (t : Nat) (w' : World), World.createTable a rels w = .ok t w' ∧ CreatedTable w w' a rels t := by
  have hA := aget_of_lt ha
  obtain ⟨A2, Tn, ta, _, _, _, _, _, e3, _⟩ := h.createTableS_added hA h2 h3 hnr
  have hTn : (createTableS w a rels).1.tbl (createTableS w a rels).2 = Tn := tbl_of_get ta.tget_self
  have hc' : CacheRelsOK (createTableS w a rels).1 := by
    intro e he; rw [e3] at he; exact hc e he
  obtain ⟨w', hw'⟩ := cacheAddTable_total hc' Tn (by
    intro c hcm
    rw [ta.tArch, ta.arch_self, ta.mask] at hcm
    apply Table.colIdx_isSome_of_mem
    rw [ta.tIds]
    exact (h.mem_comps hA c).2 hcm)
  have hok : World.createTable a rels w = .ok (createTableS w a rels).2 w' := by
    rw [createTable_of_valid h1 h2 hnd h3, ctFinish, hTn, hw']
  exact ⟨_, w', hok, h.createTable ha hnr hok⟩

end Ark
