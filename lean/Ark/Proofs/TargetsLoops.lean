/-
  Ark.Proofs.TargetsLoops — C04 at world level, part 6: the two loops of `cleanupArchetypes`.
  * `SInv.of_archUpdate` — replacing an archetype by one with the same layout and table lists;
  * `cleanArch_spec` — the inner loop over the tables listed for the removed target, then
    `RemoveTarget`: afterwards no active table of the archetype targets it;
  * `cleanupArchetypes_spec` — the outer loop over the relation archetypes.
  Kernel-only proofs, core Lean only.
-/
import Ark.Proofs.TargetsStep

set_option autoImplicit false

namespace Ark

open World Ark.Props.C01World

/-! ## 1. replacing an archetype by one with the same layout and table lists -/

theorem SInv.of_archUpdate {w w' : World} (h : SInv w) {a : Nat} {A' : Archetype}
    (ha : a < w.archetypes.length) (harch : w'.archetypes = w.archetypes.set a A')
    (ht : w'.tables = w.tables) (hk : w'.kinds = w.kinds) (hr : Archetype.ArchRel (w.arch a) A')
    (htab : A'.tables = (w.arch a).tables) (hfree : A'.freeTables = (w.arch a).freeTables)
    (hst : A'.Struct) : SInv w' := by
  have hA := aget_of_lt ha
  have aget : ∀ {b : Nat} {B : Archetype}, w'.archetypes[b]? = some B →
      ∃ (B0 : Archetype), w.archetypes[b]? = some B0 ∧ Archetype.ArchRel B0 B ∧ B.tables = B0.tables ∧
        B.freeTables = B0.freeTables ∧ B.Struct := by
    intro b B hB
    rw [harch, List.getElem?_set] at hB
    by_cases e : a = b
    · subst e
      rw [if_pos rfl, if_pos ha] at hB
      obtain rfl := Option.some.inj hB
      exact ⟨_, hA, hr, htab, hfree, hst⟩
    · rw [if_neg e] at hB
      exact ⟨B, hB, Archetype.ArchRel.refl _, rfl, rfl, h.astruct b B hB⟩
  have aget' : ∀ {b : Nat} {B0 : Archetype}, w.archetypes[b]? = some B0 →
      ∃ (B : Archetype), w'.archetypes[b]? = some B ∧ Archetype.ArchRel B0 B ∧ B.tables = B0.tables ∧
        B.freeTables = B0.freeTables := by
    intro b B0 hB0
    by_cases e : a = b
    · subst e
      rw [hA] at hB0
      obtain rfl := Option.some.inj hB0
      exact ⟨A', by rw [harch, List.getElem?_set_self ha], hr, htab, hfree⟩
    · exact ⟨B0, by rw [harch, List.getElem?_set_ne e]; exact hB0, Archetype.ArchRel.refl _, rfl, rfl⟩
  have harchT : ∀ (b : Nat), (w'.arch b).tables = (w.arch b).tables ∧
      (w'.arch b).freeTables = (w.arch b).freeTables ∧ (w'.arch b).mask = (w.arch b).mask := by
    intro b
    rcases Nat.lt_or_ge b w.archetypes.length with hb | hb
    · obtain ⟨B, hB, hr', e1, e2⟩ := aget' (aget_of_lt hb)
      rw [arch_of_get hB]; exact ⟨e1, e2, hr'.mask⟩
    · have h1 : w.arch b = default := by
        simp [arch, List.getD_eq_getElem?_getD, List.getElem?_eq_none hb]
      have h2 : w'.arch b = default := by
        have hb' : (w.archetypes.set a A').length ≤ b := by rw [List.length_set]; exact hb
        simp [arch, List.getD_eq_getElem?_getD, harch, List.getElem?_eq_none hb']
      rw [h1, h2]; exact ⟨rfl, rfl, rfl⟩
  have hmid : SInvMid w' := by
    refine ⟨?_, ?_, ?_, ?_, ?_, ?_, ?_, ?_, ?_, ?_, ?_, ?_⟩
    · intro b B hB
      obtain ⟨B0, hB0, hr', _⟩ := aget hB
      rw [hr'.id]; exact h.archId b B0 hB0
    · intro b c B C hB hC hm
      obtain ⟨B0, hB0, r1, _⟩ := aget hB
      obtain ⟨C0, hC0, r2, _⟩ := aget hC
      exact h.maskUniq b c B0 C0 hB0 hC0 (by rw [← r1.mask, ← r2.mask]; exact hm)
    · intro b B hB c hc
      obtain ⟨B0, hB0, r1, _⟩ := aget hB
      rw [hk]; exact h.maskReg b B0 hB0 c (by rw [← r1.mask]; exact hc)
    · intro b B hB
      obtain ⟨B0, hB0, r1, _⟩ := aget hB
      rw [hk, r1.comps, r1.mask, r1.isRel, r1.zst]; exact h.comps b B0 hB0
    · intro b B i c hB hc
      obtain ⟨B0, hB0, r1, _⟩ := aget hB
      rw [hk, r1.isRel, r1.zst]; exact h.kindsOf b B0 i c hB0 (by rw [← r1.comps]; exact hc)
    · intro t T hT
      rw [ht] at hT
      obtain ⟨B0, hB0, e1, e2, e3, e4⟩ := h.tblArch t T hT
      obtain ⟨B, hB, r1, _⟩ := aget' hB0
      exact ⟨B, hB, by rw [r1.comps]; exact e1, by rw [r1.isRel]; exact e2,
        by rw [r1.zst]; exact e3, e4⟩
    · intro t T hT r hr'
      rw [ht] at hT; exact h.relCols t T hT r hr'
    · intro t T hT
      rw [ht] at hT
      rw [(harchT T.arch).1, (harchT T.arch).2.1]
      exact h.member t T hT
    · intro b B t hB hm
      obtain ⟨B0, hB0, _, e1, e2, _⟩ := aget hB
      rw [ht]
      exact h.owned b B0 t hB0 (by rw [← e1, ← e2]; exact hm)
    · intro b B hB
      exact (aget hB).choose_spec.2.2.2.2
    · intro b B hB hrel
      obtain ⟨B0, hB0, r1, e1, e2, _⟩ := aget hB
      rw [e1, e2]
      exact h.nonRelLe b B0 hB0 (by rw [← r1.hasRelations]; exact hrel)
    · refine ⟨by rw [ht]; exact h.root.1, ?_, ?_⟩
      · have : w'.tbl 0 = w.tbl 0 := by simp only [tbl, ht]
        rw [this]; exact h.root.2.1
      · rw [(harchT 0).2.2]; exact h.root.2.2
  refine { hmid with settled := ?_ }
  intro b B hB hrel
  obtain ⟨B0, hB0, r1, e1, _⟩ := aget hB
  rw [e1]
  exact h.settled b B0 hB0 (by rw [← r1.hasRelations]; exact hrel)

/-! ## 2. the inner loop and `RemoveTarget` -/

/-- the invariant of the inner loop over the tables `rest` still to be processed -/
structure InnerInv (g : Ent) (a N : Nat) (w0 : World) (rest : List Nat) (w : World) : Prop where
  base : CleanBase g w
  exc : RInvExcept w a g.id
  frame : CleanFrame g w0 w
  alt : a < w.archetypes.length
  nodup : rest.Nodup
  sound : ∀ (t : Nat), t ∈ rest → t ∈ (w.arch a).tables.tables ∧
    ∃ (i0 : Nat), (w.arch a).isRel.getD i0 false = true ∧
      ((w.tbl t).targets.getD i0 Ent.zero).id = g.id
  complete : ∀ (t : Nat), t ∈ (w.arch a).tables.tables →
    (∃ (i : Nat), (w.arch a).isRel.getD i false = true ∧
      ((w.tbl t).targets.getD i Ent.zero).id = g.id) → t ∈ rest
  others : ∀ (b : Nat), b ≠ a → w.archetypes[b]? = w0.archetypes[b]?
  len1 : w.tables.length ≤ N + 1
  len0 : (w.arch a).freeTables = [] → w.tables.length ≤ N

theorem innerLoop_spec {g : Ent} {a N : Nat} {w0 : World} (hg0 : g.id ≠ 0) (hN : N + 2 ≤ maxU32)
    (hrows : 2 * w0.entities.length < 2 ^ 32) :
    ∀ (rest : List Nat) (w : World), InnerInv g a N w0 rest w →
      ∃ (w' : World), M.forM' rest (cleanTable g a) w = .ok () w' ∧ InnerInv g a N w0 [] w' := by
  apply forM'_hoare
  intro tid rest w hI
  obtain ⟨hs1, hs2⟩ := hI.sound tid List.mem_cons_self
  obtain ⟨w', hok, st⟩ := cleanTable_step hI.base hI.exc hg0 hI.alt hs1 hs2
    (by have := hI.len1; omega) (by rw [hI.frame.idxSame.len]; exact hrows)
  refine ⟨w', hok, ?_⟩
  have hnd := List.nodup_cons.1 hI.nodup
  refine
    { base := st.base, exc := st.exc
      frame := hI.frame.trans (ent_ne_zero hg0) st.frame
      alt := by rw [st.frame.archLen]; exact hI.alt
      nodup := hnd.2
      sound := ?_, complete := ?_
      others := fun b hb => by rw [st.otherArchs b hb]; exact hI.others b hb
      len1 := ?_
      len0 := fun h => absurd h st.hasFree }
  · intro t ht
    have hne : t ≠ tid := fun e => hnd.1 (e ▸ ht)
    obtain ⟨k1, i0, k2, k3⟩ := hI.sound t (List.mem_cons_of_mem _ ht)
    obtain ⟨m1, m2⟩ := st.keep t k1 hne
    exact ⟨m1, i0, by rw [st.isRel]; exact k2, by rw [m2]; exact k3⟩
  · intro t ht ⟨i, hi, hid⟩
    rw [st.isRel] at hi
    rcases st.act t ht with ⟨k1, k2, k3⟩ | k
    · have := hI.complete t k1 ⟨i, hi, by rw [← k3]; exact hid⟩
      rcases List.mem_cons.1 this with e | e
      · exact absurd e k2
      · exact e
    · exact absurd hid (k i hi)
  · by_cases hf : w'.tables.length = w.tables.length + 1
    · have := hI.len0 (st.lenFresh hf); omega
    · have := st.lenB; have := hI.len1; omega

/-- what processing one archetype in `cleanupArchetypes g` guarantees -/
structure CleanedArch (g : Ent) (a : Nat) (w w' : World) : Prop where
  base : CleanBase g w'
  rinv : RInv w'
  frame : CleanFrame g w w'
  lenB : w'.tables.length ≤ w.tables.length + 1
  /-- the archetype no longer lists any table for `g` -/
  noKey : AL.find? (w'.arch a).targetTables g.id = none
  others : ∀ (b : Nat), b ≠ a → w'.archetypes[b]? = w.archetypes[b]?

theorem default_arch_targetTables : (default : Archetype).targetTables = [] := rfl

theorem cleanArch_spec {g : Ent} {a : Nat} {w : World} (hB : CleanBase g w) (hR : RInv w)
    (hg0 : g.id ≠ 0) (hfew : w.tables.length + 2 ≤ maxU32)
    (hrows : 2 * w.entities.length < 2 ^ 32) :
    ∃ (w' : World), cleanArch g a w = .ok () w' ∧ CleanedArch g a w w' := by
  rw [cleanArch_eq]
  cases hf : AL.find? (w.arch a).targetTables g.id with
  | none =>
    exact ⟨w, rfl, hB, hR, CleanFrame.refl g w, Nat.le_succ _, hf, fun _ _ => rfl⟩
  | some ts =>
    have ha : a < w.archetypes.length := by
      rcases Nat.lt_or_ge a w.archetypes.length with h1 | h1
      · exact h1
      · have : w.arch a = default := by
          simp [arch, List.getD_eq_getElem?_getD, List.getElem?_eq_none h1]
        rw [this, default_arch_targetTables] at hf
        cases hf
    have hA := aget_of_lt ha
    have hI := hR a _ hA
    have hlisted := hI.targetListed hf
    have hinit : InnerInv g a w.tables.length w ts.tables.reverse w := by
      refine
        { base := hB, exc := hR.toExcept a g.id, frame := CleanFrame.refl g w, alt := ha
          nodup := (List.reverse_perm ts.tables).nodup_iff.2 (hI.target.wf g.id ts hf).nodup
          sound := ?_, complete := ?_
          others := fun _ _ => rfl
          len1 := Nat.le_succ _
          len0 := fun _ => Nat.le_refl _ }
      · intro t ht
        exact (hlisted t).1 (List.mem_reverse.1 ht)
      · intro t ht hex
        exact List.mem_reverse.2 ((hlisted t).2 ⟨ht, hex⟩)
    obtain ⟨w1, hok, hI1⟩ := innerLoop_spec hg0 hfew hrows _ _ hinit
    simp only [hok]
    refine ⟨_, rfl, ?_⟩
    have hA1 := aget_of_lt hI1.alt
    have hS1 := hI1.base.sinv
    have hstruct := hS1.astruct a _ hA1
    have hlenR : (w1.arch a).relationTables.length = (w1.arch a).isRel.length :=
      hstruct.lenRel.trans hstruct.lenIsRel.symm
    have hno : ∀ (t : Nat), t ∈ (w1.arch a).tables.tables → ∀ (i : Nat),
        (w1.arch a).isRel.getD i false = true →
          (((fun t => (w1.tbl t).targets) t).getD i Ent.zero).id ≠ g.id := by
      intro t ht i hi hid
      have := hI1.complete t ht ⟨i, hi, hid⟩
      cases this
    have hInew := (hI1.exc.1 _ hA1).removeTarget hno
    have harch : (w1.modArch a fun A => A.removeTarget g).archetypes =
        w1.archetypes.set a ((w1.arch a).removeTarget g) := rfl
    have hsinv : SInv (w1.modArch a fun A => A.removeTarget g) :=
      hS1.of_archUpdate hI1.alt harch rfl rfl ⟨rfl, rfl, rfl, rfl, rfl, rfl⟩ rfl rfl
        (hstruct.of_sameShape (Archetype.removeTarget_sameShape _ g hlenR))
    have harchA : (w1.modArch a fun A => A.removeTarget g).arch a = (w1.arch a).removeTarget g :=
      modArch_arch_self _ _ hI1.alt
    refine
      { base :=
          { idx := hI1.base.idx.congr rfl rfl
            sinv := hsinv
            tgts := hI1.base.tgts
            rels := hI1.base.rels
            cacheRels := hI1.base.cacheRels
            flags := hI1.base.flags
            freeEmpty := hI1.base.freeEmpty
            relArchs := by
              intro b B hB' hrel
              show b ∈ w1.relationArchetypes
              rw [harch] at hB'
              by_cases e : b = a
              · subst e
                rw [List.getElem?_set_self hI1.alt] at hB'
                obtain rfl := Option.some.inj hB'
                exact hI1.base.relArchs b _ hA1 hrel
              · rw [List.getElem?_set_ne (fun x => e x.symm)] at hB'
                exact hI1.base.relArchs b B hB' hrel }
        rinv := ?_
        frame :=
          { pool := hI1.frame.pool, isTarget := hI1.frame.isTarget, kinds := hI1.frame.kinds,
            maxComps := hI1.frame.maxComps, relationArchetypes := hI1.frame.relationArchetypes,
            obs := hI1.frame.obs, locks := hI1.frame.locks
            archLen := by rw [harch, List.length_set]; exact hI1.frame.archLen
            idxSame := hI1.frame.idxSame.trans (IdxSame.of_eq rfl)
            same := hI1.frame.same
            tgt := hI1.frame.tgt
            tablesLe := hI1.frame.tablesLe }
        lenB := hI1.len1
        noKey := by
          rw [harchA, Archetype.removeTarget_eq]
          exact AL.find?_erase_self _ _
        others := fun b hb => by
          rw [harch, List.getElem?_set_ne (fun x => hb x.symm)]; exact hI1.others b hb }
    intro b B hB'
    rw [harch] at hB'
    by_cases e : b = a
    · subst e
      rw [List.getElem?_set_self hI1.alt] at hB'
      obtain rfl := Option.some.inj hB'
      exact hInew
    · rw [List.getElem?_set_ne (fun x => e x.symm)] at hB'
      exact hI1.exc.2 b B e hB'

/-! ## 3. the outer loop -/

/-- the invariant of the outer loop over the relation archetypes `rest` still to be processed -/
structure OuterInv (g : Ent) (N : Nat) (w0 : World) (rest : List Nat) (w : World) : Prop where
  base : CleanBase g w
  rinv : RInv w
  frame : CleanFrame g w0 w
  len : w.tables.length + rest.length ≤ N
  done : ∀ (b : Nat) (B : Archetype), w.archetypes[b]? = some B → B.hasRelations = true →
    b ∈ rest ∨ AL.find? B.targetTables g.id = none

/-- no non-free table has a relation column targeting an entity with ID `g` -/
def NoTarget (w : World) (g : Nat) : Prop :=
  ∀ (t : Nat) (T : Table), w.tables[t]? = some T → T.isFree = false →
    ∀ (i : Nat), T.isRel.getD i false = true → (T.targets.getD i Ent.zero).id ≠ g

/-- what `cleanupArchetypes g` guarantees -/
structure Cleaned (g : Ent) (w w' : World) : Prop where
  base : CleanBase g w'
  rinv : RInv w'
  frame : CleanFrame g w w'
  noTarget : NoTarget w' g.id
  len : w'.tables.length ≤ w.tables.length + w.relationArchetypes.length

/-- **`cleanupArchetypes g` never panics**, keeps the cleanup invariants, restores the full
    relation-index invariant, and afterwards no non-free table targets `g`. -/
theorem cleanupArchetypes_spec {g : Ent} {w : World} (hB : CleanBase g w) (hR : RInv w)
    (hg0 : g.id ≠ 0) (hfew : w.tables.length + w.relationArchetypes.length + 1 ≤ maxU32)
    (hrows : 2 * w.entities.length < 2 ^ 32) :
    ∃ (w' : World), cleanupArchetypes g w = .ok () w' ∧ Cleaned g w w' := by
  rw [cleanupArchetypes_eq]
  have hloop : ∀ (rest : List Nat) (w1 : World),
      OuterInv g (w.tables.length + w.relationArchetypes.length) w rest w1 →
      ∃ (w' : World), M.forM' rest (cleanArch g) w1 = .ok () w' ∧
        OuterInv g (w.tables.length + w.relationArchetypes.length) w [] w' := by
    apply forM'_hoare
    intro a rest w1 hI
    have hlen := hI.len
    simp only [List.length_cons] at hlen
    obtain ⟨w', hok, ca⟩ := cleanArch_spec (a := a) hI.base hI.rinv hg0 (by omega)
      (by rw [hI.frame.idxSame.len]; exact hrows)
    refine ⟨w', hok, ?_⟩
    refine
      { base := ca.base, rinv := ca.rinv
        frame := hI.frame.trans (ent_ne_zero hg0) ca.frame
        len := by have := ca.lenB; omega
        done := ?_ }
    intro b B hB' hrel
    by_cases e : b = a
    · subst e
      right
      rw [← arch_of_get hB']; exact ca.noKey
    · rw [ca.others b e] at hB'
      rcases hI.done b B hB' hrel with h1 | h1
      · rcases List.mem_cons.1 h1 with h2 | h2
        · exact absurd h2 e
        · exact Or.inl h2
      · exact Or.inr h1
  obtain ⟨w', hok, hO⟩ := hloop w.relationArchetypes w
    { base := hB, rinv := hR, frame := CleanFrame.refl g w, len := Nat.le_refl _
      done := fun b B hB' hrel => Or.inl (hB.relArchs b B hB' hrel) }
  refine ⟨w', hok, hO.base, hO.rinv, hO.frame, ?_, by have := hO.len; simpa using this⟩
  intro t T hT hf i hi hid
  have hS := hO.base.sinv.toSInvMid
  obtain ⟨A, hA, _, e2, _⟩ := hS.tblArch t T hT
  have hact : t ∈ A.tables.tables := by
    have := (hS.member t T hT).1
    rw [arch_of_get hA] at this
    exact this.1 hf
  have hiA : A.isRel.getD i false = true := by rw [← e2]; exact hi
  have hrel : A.hasRelations = true := (hS.astruct _ A hA).hasRelations_of_rel hiA
  rcases hO.done _ A hA hrel with h1 | h1
  · cases h1
  · refine (hO.rinv _ A hA).target_none h1 t ⟨hact, i, hiA, ?_⟩
    show (((w'.tbl t).targets).getD i Ent.zero).id = g.id
    rw [tbl_of_get hT]; exact hid

end Ark
