/-
  Ark.Proofs.PoolHistory — the entity pool as a state machine over arbitrary histories of
  `Get` and `Recycle`, with ghost state (handles issued, handles live).  Kernel-only proofs.
-/
import Ark.Proofs.Pool

namespace Ark
namespace Pool

/-- pool operations as the world issues them -/
inductive Op
  | get
  | recycle (e : Ent)
  deriving Repr

/-- pool + ghost history -/
structure PS where
  p : Pool
  issued : List Ent
  live : List Ent

def PS.init : PS := ⟨Pool.init, [], []⟩

/-- One step. `recycle e` is issued by the world only after its `Alive(e)` check, for a handle
    it has handed out; other calls are rejected there (panic) and leave the pool unchanged. -/
def PS.step (s : PS) : Op → PS
  | .get => ⟨s.p.get.1, s.p.get.2 :: s.issued, s.p.get.2 :: s.live⟩
  | .recycle e =>
    if e ∈ s.issued ∧ s.p.alive e = true then ⟨s.p.recycle e, s.issued, s.live.erase e⟩ else s

def PS.run (s : PS) (ops : List Op) : PS := ops.foldl PS.step s

/-- Ghost invariant relating the pool array to the history. -/
structure GInv (s : PS) (fl : List Nat) : Prop where
  pinv : PInv s.p fl
  /-- live handles are exactly the slots outside the free list, with their current generation -/
  live_iff : ∀ h, h ∈ s.live ↔ (2 ≤ h.id ∧ h.id ∉ fl ∧ s.p.ents[h.id]? = some h)
  live_nodup : s.live.Nodup
  /-- every issued handle is bounded by its slot's generation, strictly if the slot is free -/
  issued_bound : ∀ h ∈ s.issued, 2 ≤ h.id ∧ ∃ e, s.p.ents[h.id]? = some e ∧ h.gen ≤ e.gen ∧ (h.id ∈ fl → h.gen < e.gen)
  live_issued : ∀ h ∈ s.live, h ∈ s.issued
  /-- every non-reserved slot is either live or free -/
  count : s.p.ents.length = 2 + s.live.length + fl.length

theorem ginv_init : GInv PS.init [] := by
  refine ⟨pinv_init, ?_, List.nodup_nil, ?_, ?_, rfl⟩
  · intro h
    constructor
    · intro hh; cases hh
    · intro ⟨h2, _, h3⟩
      simp only [PS.init, Pool.init] at h3
      have : h.id < 2 := by
        have := (List.getElem?_eq_some_iff.mp h3).1
        simpa using this
      omega
  · intro h hh; cases hh
  · intro h hh; cases hh

/-- Liveness is exact: for every handle the pool has issued, `Alive` holds iff it is live. -/
theorem alive_iff_live (s : PS) (fl : List Nat) (g : GInv s fl) (h : Ent) (hi : h ∈ s.issued) :
    s.p.alive h = true ↔ h ∈ s.live := by
  obtain ⟨h2, e, he, hle, hlt⟩ := g.issued_bound h hi
  have hlen : h.id < s.p.ents.length := (List.getElem?_eq_some_iff.mp he).1
  have hread : (s.p.ents ++ s.p.stale)[h.id]? = some e := by
    rw [List.getElem?_append_left hlen]; exact he
  simp only [alive, hread]
  rw [g.live_iff h]
  constructor
  · intro hg
    have hg : e.gen = h.gen := by simpa using hg
    by_cases hf : h.id ∈ fl
    · have := hlt hf; omega
    · refine ⟨h2, hf, ?_⟩
      have hid := g.pinv.self h.id e he hf
      rw [he]
      congr 1
      cases e; cases h; simp_all
  · intro ⟨_, _, hs⟩
    rw [he] at hs
    injection hs with hs
    subst hs
    simp

/-- Every step preserves the invariant (for some free list). -/
theorem step_inv (s : PS) (fl : List Nat) (g : GInv s fl) (op : Op) :
    ∃ fl', GInv (s.step op) fl' := by
  cases op with
  | get =>
    by_cases hav : s.p.available = 0
    · -- fresh slot
      have hget : s.p.get = s.p.getNew := by simp [get, hav]
      obtain ⟨pi, he⟩ := getNew_inv s.p fl g.pinv
      refine ⟨fl, ?_⟩
      simp only [PS.step, hget]
      have hfl0 : fl = [] := by
        have := g.pinv.avail; rw [hav] at this
        exact List.length_eq_zero_iff.mp this
      subst hfl0
      have hlen2 := g.pinv.len2
      refine ⟨pi, ?_, ?_, ?_, ?_, ?_⟩
      rotate_left 4
      · have := g.count
        simp only [getNew, List.length_append, List.length_cons, List.length_nil] at this ⊢
        omega
      · intro h
        rw [he]
        simp only [List.mem_cons, getNew]
        constructor
        · rintro (rfl | hl)
          · refine ⟨hlen2, by simp, ?_⟩
            simp
          · obtain ⟨a, b, c⟩ := (g.live_iff h).mp hl
            refine ⟨a, b, ?_⟩
            have hlt : h.id < s.p.ents.length := (List.getElem?_eq_some_iff.mp c).1
            rw [List.getElem?_append_left hlt]; exact c
        · rintro ⟨a, b, c⟩
          by_cases hlt : h.id < s.p.ents.length
          · right
            rw [List.getElem?_append_left hlt] at c
            exact (g.live_iff h).mpr ⟨a, b, c⟩
          · left
            rw [List.getElem?_append_right (by omega)] at c
            have hi0 : h.id - s.p.ents.length = 0 := by
              cases hh : h.id - s.p.ents.length with
              | zero => rfl
              | succ k => rw [hh] at c; simp at c
            rw [hi0] at c
            simp at c
            exact c.symm
      · rw [he]
        refine List.nodup_cons.mpr ⟨?_, g.live_nodup⟩
        intro hm
        obtain ⟨_, _, c⟩ := (g.live_iff _).mp hm
        have := (List.getElem?_eq_some_iff.mp c).1
        simp at this
      · intro h hm
        rw [he] at hm
        simp only [getNew]
        rcases List.mem_cons.mp hm with rfl | hm
        · refine ⟨hlen2, ⟨s.p.ents.length, 0⟩, by simp, Nat.le_refl _, by simp⟩
        · obtain ⟨a, e, b, c, d⟩ := g.issued_bound h hm
          refine ⟨a, e, ?_, c, d⟩
          have hlt : h.id < s.p.ents.length := (List.getElem?_eq_some_iff.mp b).1
          rw [List.getElem?_append_left hlt]; exact b
      · intro h hm
        rw [he] at hm ⊢
        rcases List.mem_cons.mp hm with rfl | hm
        · simp
        · exact List.mem_cons_of_mem _ (g.live_issued h hm)
    · -- recycled slot
      have hget : s.p.get = s.p.getRecycled := by simp [get, hav]
      obtain ⟨x, fl', hfl⟩ : ∃ x fl', fl = x :: fl' := by
        cases fl with
        | nil => have := g.pinv.avail; simp at this; omega
        | cons x fl' => exact ⟨x, fl', rfl⟩
      subst hfl
      obtain ⟨pi, hid, hxfl, e, hex, hgen⟩ := getRecycled_inv s.p x fl' g.pinv
      refine ⟨fl', ?_⟩
      simp only [PS.step, hget]
      have hx2 := (g.pinv.res x (by simp)).1
      have hxlt := (g.pinv.res x (by simp)).2
      -- the returned handle and the new array
      have hnext : s.p.next = x := by
        have hch := g.pinv.ch
        have hav' : s.p.available = fl'.length + 1 := by
          have := g.pinv.avail; simp at this; omega
        rw [hav'] at hch
        simp only [chain] at hch
        split at hch
        · contradiction
        · split at hch
          · contradiction
          · injection hch with hch; injection hch
      have hret : s.p.getRecycled.2 = ⟨x, e.gen⟩ := by
        cases hr : s.p.getRecycled.2 with
        | mk i gq => rw [hr] at hid hgen; simp at hid hgen; simp [hid, hgen]
      have hents : s.p.getRecycled.1.ents = s.p.ents.set x ⟨x, e.gen⟩ := by
        simp only [getRecycled, hnext]
        have : s.p.ents.getD x default = e := by
          rw [List.getD_eq_getElem?_getD, hex]; rfl
        rw [this]
      have hslot : s.p.getRecycled.1.ents[x]? = some ⟨x, e.gen⟩ := by
        rw [hents, List.getElem?_set_self hxlt]
      have hother : ∀ i, i ≠ x → s.p.getRecycled.1.ents[i]? = s.p.ents[i]? := by
        intro i hi; rw [hents, List.getElem?_set_ne (Ne.symm hi)]
      refine ⟨pi, ?_, ?_, ?_, ?_, ?_⟩
      rotate_left 4
      · have := g.count
        rw [hents]
        simp only [List.length_set, List.length_cons] at this ⊢
        omega
      · intro h
        rw [hret]
        simp only [List.mem_cons]
        constructor
        · rintro (rfl | hl)
          · exact ⟨hx2, hxfl, hslot⟩
          · obtain ⟨a, b, c⟩ := (g.live_iff h).mp hl
            have hne : h.id ≠ x := fun hh => b (by simp [hh])
            exact ⟨a, fun hm => b (by simp [hm]), by rw [hother _ hne]; exact c⟩
        · rintro ⟨a, b, c⟩
          by_cases hne : h.id = x
          · left
            rw [hne, hslot] at c
            injection c with c; exact c.symm
          · right
            rw [hother _ hne] at c
            refine (g.live_iff h).mpr ⟨a, ?_, c⟩
            intro hm
            rcases List.mem_cons.mp hm with hm | hm
            · exact hne hm
            · exact b hm
      · rw [hret]
        refine List.nodup_cons.mpr ⟨?_, g.live_nodup⟩
        intro hm
        obtain ⟨_, b, _⟩ := (g.live_iff _).mp hm
        exact b (by simp)
      · intro h hm
        rw [hret] at hm
        rcases List.mem_cons.mp hm with rfl | hm
        · exact ⟨hx2, ⟨x, e.gen⟩, hslot, Nat.le_refl _, fun hh => absurd hh hxfl⟩
        · obtain ⟨a, e', b, c, d⟩ := g.issued_bound h hm
          by_cases hne : h.id = x
          · refine ⟨a, ⟨x, e.gen⟩, by rw [hne]; exact hslot, ?_, ?_⟩
            · rw [hne, hex] at b; injection b with b; subst b; exact c
            · intro hh; rw [hne] at hh; exact absurd hh hxfl
          · refine ⟨a, e', by rw [hother _ hne]; exact b, c, fun hh => d (by simp [hh])⟩
      · intro h hm
        rw [hret] at hm ⊢
        rcases List.mem_cons.mp hm with rfl | hm
        · simp
        · exact List.mem_cons_of_mem _ (g.live_issued h hm)
  | recycle e =>
    simp only [PS.step]
    split
    · rename_i hc
      obtain ⟨hi, hal⟩ := hc
      have hl := (alive_iff_live s fl g e hi).mp hal
      obtain ⟨h2, hnf, hs⟩ := (g.live_iff e).mp hl
      have hlt : e.id < s.p.ents.length := (List.getElem?_eq_some_iff.mp hs).1
      refine ⟨e.id :: fl, recycle_inv s.p fl e g.pinv hlt h2 hnf, ?_, ?_, ?_, ?_, ?_⟩
      rotate_left 4
      · have := g.count
        have hl1 : 0 < s.live.length := List.length_pos_of_mem hl
        simp only [recycle, List.length_set, List.length_cons, List.length_erase_of_mem hl] at this ⊢
        omega
      · intro h
        have hgetD : s.p.ents.getD e.id default = e := by
          rw [List.getD_eq_getElem?_getD, hs]; rfl
        have hother : ∀ i, i ≠ e.id → (s.p.recycle e).ents[i]? = s.p.ents[i]? := by
          intro i hi; simp only [recycle]; rw [List.getElem?_set_ne (Ne.symm hi)]
        constructor
        · intro hm
          have hm' := List.mem_of_mem_erase hm
          obtain ⟨a, b, c⟩ := (g.live_iff h).mp hm'
          have hne : h ≠ e := by
            intro hh; subst hh
            exact (List.Nodup.not_mem_erase g.live_nodup) hm
          have hidne : h.id ≠ e.id := by
            intro hh
            rw [hh, hs] at c; injection c with c; exact hne c.symm
          refine ⟨a, ?_, by rw [hother _ hidne]; exact c⟩
          intro hm2
          rcases List.mem_cons.mp hm2 with hm2 | hm2
          · exact hidne hm2
          · exact b hm2
        · rintro ⟨a, b, c⟩
          have hidne : h.id ≠ e.id := fun hh => b (by simp [hh])
          rw [hother _ hidne] at c
          have hm := (g.live_iff h).mpr ⟨a, fun hm => b (by simp [hm]), c⟩
          exact (List.mem_erase_of_ne (by intro hh; exact hidne (by rw [hh]))).mpr hm
      · exact g.live_nodup.erase e
      · intro h hm
        obtain ⟨a, e', b, c, d⟩ := g.issued_bound h hm
        have hgetD : s.p.ents.getD e.id default = e := by
          rw [List.getD_eq_getElem?_getD, hs]; rfl
        by_cases hne : h.id = e.id
        · refine ⟨a, ⟨s.p.next, e.gen + 1⟩, ?_, ?_, ?_⟩
          · simp only [recycle, hgetD]; rw [hne, List.getElem?_set_self hlt]
          · rw [hne, hs] at b; injection b with b; subst b; simp; omega
          · intro _; rw [hne, hs] at b; injection b with b; subst b; simp; omega
        · refine ⟨a, e', ?_, c, ?_⟩
          · simp only [recycle]; rw [List.getElem?_set_ne (Ne.symm hne)]; exact b
          · intro hm2
            rcases List.mem_cons.mp hm2 with hm2 | hm2
            · exact absurd hm2 hne
            · exact d hm2
      · intro h hm
        exact g.live_issued h (List.mem_of_mem_erase hm)
    · exact ⟨fl, g⟩

/-- The invariant holds after every history. -/
theorem run_inv (ops : List Op) : ∀ (s : PS) (fl : List Nat), GInv s fl → ∃ fl', GInv (s.run ops) fl' := by
  induction ops with
  | nil => intro s fl g; exact ⟨fl, g⟩
  | cons op ops ih =>
    intro s fl g
    obtain ⟨fl1, g1⟩ := step_inv s fl g op
    exact ih _ _ g1

end Pool
end Ark
