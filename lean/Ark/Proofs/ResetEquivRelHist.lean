/-
  Ark.Proofs.ResetEquivRelHist — C16, second sentence, over the histories of the machine
  `Ark.RelRefine2` (see `Ark/Proofs/ResetEquivRel.lean` for the vocabulary):

  * `sim_run2`      — from related states the same history leads to related states, with
                      equivalent traces;
  * `regsOf2`, `regs_run2` — the registrations of a history, run alone on a new world, lead to
                      the same registry; no entity is created, the pool is untouched;
  * `reach2_reserved` — the reserved pool slots are as in a new world after every history;
  * `sim_reset_regs2` — right after `pre ++ [reset]` the state is related to the state after the
                      registrations of `pre` on a new world (any capacities);
  * `reset_equiv_rel` — **the main theorem**: for every `pre` and `post` within the bound, the
                      traces of `post` after `pre ++ [reset]` and after the registrations of `pre`
                      on a new world are equivalent, and the final states are related.

  Kernel-only proofs, core Lean only.
-/
import Ark.Proofs.ResetEquivRel

set_option autoImplicit false

namespace Ark

open World Ark.Props.C01World

namespace RelRefine2

open QueryRel QueryExact RelRefine
open Refine (Outcome outcome Reserved2)

/-! ## 1. `Sim` along histories -/

theorem reach2_snoc' (A : List Op2) (op : Op2)
    (ops : List Op2) : A ++ op :: ops = (A ++ [op]) ++ ops := by
  rw [List.append_assoc]; rfl

/-- **`Sim` along histories**: from related reachable states the same history leads to related
    states, the filter labels usable agree, and the client sees equivalent traces -/
theorem sim_run2 (run1 run2 : ProbeRunner) (cap rel cap' rel' : Nat) :
    ∀ (post A B : List Op2) (L : List Nat),
    (A ++ post).length < 2 ^ 16 → (B ++ post).length < 2 ^ 16 →
    Sim L (reach2 run1 cap rel A) (reach2 run2 cap' rel' B) →
    TraceEq (trace2 run1 L (reach2 run1 cap rel A) post)
      (trace2 run2 L (reach2 run2 cap' rel' B) post) ∧
    labels2 run1 L (reach2 run1 cap rel A) post = labels2 run2 L (reach2 run2 cap' rel' B) post ∧
    Sim (labels2 run1 L (reach2 run1 cap rel A) post) (reach2 run1 cap rel (A ++ post))
      (reach2 run2 cap' rel' (B ++ post)) := by
  intro post
  induction post with
  | nil =>
    intro A B L _ _ S
    simp only [List.append_nil]
    simp only [trace2, labels2, TraceEq]
    exact ⟨trivial, trivial, S⟩
  | cons op ops ih =>
    intro A B L hA hB S
    simp only [List.length_append, List.length_cons] at hA hB
    obtain ⟨fl1, H1⟩ := reach2_inv run1 cap rel A (by omega)
    obtain ⟨fl2, H2⟩ := reach2_inv run2 cap' rel' B (by omega)
    obtain ⟨hf1, he1⟩ := reach2_fits run1 cap rel A (by omega)
    obtain ⟨hf2, he2⟩ := reach2_fits run2 cap' rel' B (by omega)
    obtain ⟨S', hL, hout⟩ := sim_step2 run1 run2 H1 H2 hf1 he1 hf2 he2 S op
    rw [← reach2_snoc, ← reach2_snoc] at S'
    obtain ⟨t, l, S''⟩ := ih (A ++ [op]) (B ++ [op]) (labelsAfter L (reach2 run1 cap rel A) op)
      (by simp only [List.length_append, List.length_singleton]; omega)
      (by simp only [List.length_append, List.length_singleton]; omega) S'
    rw [reach2_snoc, reach2_snoc] at t l
    rw [reach2_snoc, List.append_assoc, List.append_assoc] at S''
    simp only [trace2, labels2, TraceEq]
    rw [← hL]
    exact ⟨⟨hout, t⟩, l, S''⟩

/-! ## 2. the registrations of a history -/

/-- is the operation a registration of a component type? -/
def Op2.isReg : Op2 → Bool
  | .base (.reg _ _ _) => true
  | _ => false

/-- the registration operations of a history, in order -/
def regsOf2 (ops : List Op2) : List Op2 := ops.filter Op2.isReg

theorem regsOf2_length_le (ops : List Op2) : (regsOf2 ops).length ≤ ops.length :=
  List.length_filter_le _ _

/-- the two states have the same registry -/
structure RegEq (s1 s2 : St) : Prop where
  zst : s1.ss.zst = s2.ss.zst
  isRel : s1.ss.isRel = s2.ss.isRel
  kinds : s1.w.kinds = s2.w.kinds

theorem RegEq.refl (s : St) : RegEq s s := ⟨rfl, rfl, rfl⟩

theorem RegEq.trans {a b c : St} (h1 : RegEq a b) (h2 : RegEq b c) : RegEq a c :=
  ⟨h1.zst.trans h2.zst, h1.isRel.trans h2.isRel, h1.kinds.trans h2.kinds⟩

theorem RegEq.of_same {s s' : St} (h : Same s s') : RegEq s' s :=
  ⟨by rw [h.ss], by rw [h.ss], h.kinds⟩

/-- only `reg` changes the registry flags of the specification -/
theorem specStep_registry (ss : SS) (fresh : Ent) (op : Op)
    (h : ∀ (size : Nat) (z ir : Bool), op ≠ .reg size z ir) :
    (specStep ss fresh op).zst = ss.zst ∧ (specStep ss fresh op).isRel = ss.isRel := by
  cases op with
  | reg size z ir => exact absurd rfl (h size z ir)
  | new p ids vals rels => simp only [specStep]; split <;> exact ⟨rfl, rfl⟩
  | add p e ids vals rels =>
    simp only [specStep]
    cases find ss.ents e with
    | none => exact ⟨rfl, rfl⟩
    | some en => simp only; split <;> exact ⟨rfl, rfl⟩
  | rem p e ids =>
    simp only [specStep]
    cases find ss.ents e with
    | none => exact ⟨rfl, rfl⟩
    | some en => simp only; split <;> exact ⟨rfl, rfl⟩
  | setrel p e rels =>
    simp only [specStep]
    cases find ss.ents e with
    | none => exact ⟨rfl, rfl⟩
    | some en => simp only; split <;> exact ⟨rfl, rfl⟩
  | set e vals =>
    simp only [specStep]
    cases find ss.ents e with
    | none => exact ⟨rfl, rfl⟩
    | some en => simp only; split <;> exact ⟨rfl, rfl⟩
  | del e =>
    simp only [specStep]
    cases find ss.ents e <;> exact ⟨rfl, rfl⟩

/-- a step that is not a registration keeps the registry -/
theorem step2_keeps_registry (run : ProbeRunner) {s : St} {fl : List Nat} (H : HInv2 s fl)
    (hfew : s.w.tables.length + s.w.relationArchetypes.length + 1 ≤ maxU32)
    (hent : 2 * s.w.entities.length < 2 ^ 32) (op : Op2) (h : op.isReg = false) :
    RegEq (step2 run s op) s := by
  cases op with
  | base op =>
    have hnr : ∀ (size : Nat) (z ir : Bool), op ≠ .reg size z ir := by
      intro size z ir he
      rw [he] at h; cases h
    show RegEq (RelRefine.step run s op) s
    by_cases hg : RelRefine.guard s op = true
    · obtain ⟨a, r⟩ := step_desc run H.base hfew hent op hg
      by_cases hp : pre s.ss op
      · obtain ⟨b1, _, _, b4, _, _⟩ := a hp
        obtain ⟨z1, z2⟩ := specStep_registry s.ss ((retSpec (s.w.pool.get).2 op).getD default) op hnr
        refine ⟨by rw [b1]; exact z1, by rw [b1]; exact z2, ?_⟩
        rw [b4]
        cases op with
        | reg size z ir => exact absurd rfl (hnr size z ir)
        | _ => rfl
      · rw [(r hp).1]; exact RegEq.refl s
    · have : RelRefine.step run s op = s := by rw [RelRefine.step, if_neg hg]
      rw [this]; exact RegEq.refl s
  | copy e =>
    by_cases hi : e ∈ s.issued
    · obtain ⟨a, r⟩ := copy_desc run H hent hi
      cases hf : find s.ss.ents e with
      | some en =>
        obtain ⟨b1, _, _, b4, _, _⟩ := a en hf
        exact ⟨by rw [b1], by rw [b1], b4⟩
      | none => rw [(r hf).1]; exact RegEq.refl s
    · have : step2 run s (.copy e) = s := by simp only [step2, decide_eq_true_eq, if_neg hi]
      rw [this]; exact RegEq.refl s
  | shrink b => exact RegEq.of_same (shrink_desc run H hent b).1
  | reset =>
    obtain ⟨b1, _, _, b4, _, _⟩ := reset_desc run H
    exact ⟨by rw [b1], by rw [b1], b4⟩
  | fdef f fo => exact RegEq.of_same (fdef_desc run s f fo).1
  | freg f => exact RegEq.of_same (freg_desc run H f).1
  | funreg f => exact RegEq.of_same (funreg_desc run H f).1
  | query f extra => exact RegEq.of_same (query_frame run H f extra).1

/-- what the registrations-only run keeps: no entity, no handle, the pool of a new world -/
structure Fresh (s : St) : Prop where
  ents : s.ss.ents = []
  issued : s.issued = []
  pool : s.w.pool = Pool.init

/-- a registration step: the registry of two states with the same registry moves the same way,
    and `Fresh` is kept -/
theorem reg_step2 (run1 run2 : ProbeRunner) {s1 s2 : St} {fl1 fl2 : List Nat} (H1 : HInv2 s1 fl1)
    (H2 : HInv2 s2 fl2)
    (hf1 : s1.w.tables.length + s1.w.relationArchetypes.length + 1 ≤ maxU32)
    (he1 : 2 * s1.w.entities.length < 2 ^ 32)
    (hf2 : s2.w.tables.length + s2.w.relationArchetypes.length + 1 ≤ maxU32)
    (he2 : 2 * s2.w.entities.length < 2 ^ 32) (E : RegEq s1 s2) (size : Nat) (z ir : Bool) :
    RegEq (step2 run1 s1 (.base (.reg size z ir))) (step2 run2 s2 (.base (.reg size z ir))) ∧
    (Fresh s2 → Fresh (step2 run2 s2 (.base (.reg size z ir)))) := by
  show RegEq (RelRefine.step run1 s1 (.reg size z ir)) (RelRefine.step run2 s2 (.reg size z ir)) ∧
    (Fresh s2 → Fresh (RelRefine.step run2 s2 (.reg size z ir)))
  obtain ⟨a1, r1⟩ := step_desc run1 H1.base hf1 he1 (.reg size z ir) rfl
  obtain ⟨a2, r2⟩ := step_desc run2 H2.base hf2 he2 (.reg size z ir) rfl
  by_cases hp : pre s1.ss (.reg size z ir)
  · have hp' : s1.ss.zst.length < 256 := hp
    have hp2' : s2.ss.zst.length < 256 := by rw [← E.zst]; exact hp'
    have hp2 : pre s2.ss (.reg size z ir) := hp2'
    obtain ⟨b1, _, _, b4, _, _⟩ := a1 hp
    obtain ⟨c1, c2, c3, c4, _, _⟩ := a2 hp2
    refine ⟨⟨?_, ?_, by rw [b4, c4]; show s1.w.kinds ++ _ = s2.w.kinds ++ _; rw [E.kinds]⟩, ?_⟩
    · rw [b1, c1]; simp only [specStep, if_pos hp2', E.zst]
    · rw [b1, c1]; simp only [specStep, if_pos hp', if_pos hp2', E.isRel]
    · intro F
      refine ⟨?_, ?_, ?_⟩
      · rw [c1]; simp only [specStep, if_pos hp2']; exact F.ents
      · rw [c2]; exact F.issued
      · rw [c3]; exact F.pool
  · have hp2 : ¬ pre s2.ss (.reg size z ir) := by
      show ¬ s2.ss.zst.length < 256
      rw [← E.zst]; exact hp
    rw [(r1 hp).1, (r2 hp2).1]
    exact ⟨E, fun F => F⟩

theorem regsOf2_cons (op : Op2) (ops : List Op2) :
    regsOf2 (op :: ops) = if op.isReg = true then op :: regsOf2 ops else regsOf2 ops := by
  simp only [regsOf2, List.filter_cons]

/-- **the registrations alone**: running a history `ops` and only its registrations (from
    reachable states with the same registry) leads to the same registry; the second run creates
    no entity and does not touch the pool -/
theorem regs_run2 (run1 run2 : ProbeRunner) (cap rel cap' rel' : Nat) :
    ∀ (ops A B : List Op2), (A ++ ops).length < 2 ^ 16 → B.length ≤ A.length →
    RegEq (reach2 run1 cap rel A) (reach2 run2 cap' rel' B) → Fresh (reach2 run2 cap' rel' B) →
    RegEq (reach2 run1 cap rel (A ++ ops)) (reach2 run2 cap' rel' (B ++ regsOf2 ops)) ∧
    Fresh (reach2 run2 cap' rel' (B ++ regsOf2 ops)) := by
  intro ops
  induction ops with
  | nil =>
    intro A B _ _ E F
    simp only [regsOf2, List.filter_nil, List.append_nil]
    exact ⟨E, F⟩
  | cons op ops ih =>
    intro A B hA hBA E F
    simp only [List.length_append, List.length_cons] at hA
    obtain ⟨fl1, H1⟩ := reach2_inv run1 cap rel A (by omega)
    obtain ⟨hf1, he1⟩ := reach2_fits run1 cap rel A (by omega)
    rw [reach2_snoc' A op ops, regsOf2_cons]
    cases hr : op.isReg with
    | false =>
      simp only [Bool.false_eq_true, if_false]
      have K := step2_keeps_registry run1 H1 hf1 he1 op hr
      rw [← reach2_snoc] at K
      exact ih (A ++ [op]) B
        (by simp only [List.length_append, List.length_singleton]; omega)
        (by simp only [List.length_append, List.length_singleton]; omega) (K.trans E) F
    | true =>
      simp only [if_true]
      obtain ⟨fl2, H2⟩ := reach2_inv run2 cap' rel' B (by omega)
      obtain ⟨hf2, he2⟩ := reach2_fits run2 cap' rel' B (by omega)
      rw [reach2_snoc' B op (regsOf2 ops)]
      cases op with
      | base bop =>
        cases bop with
        | reg size z ir =>
          obtain ⟨q1, q2⟩ := reg_step2 run1 run2 H1 H2 hf1 he1 hf2 he2 E size z ir
          rw [← reach2_snoc, ← reach2_snoc] at q1
          rw [← reach2_snoc] at q2
          exact ih (A ++ [.base (.reg size z ir)]) (B ++ [.base (.reg size z ir)])
            (by simp only [List.length_append, List.length_singleton]; omega)
            (by simp only [List.length_append, List.length_singleton]; omega) q1 (q2 F)
        | new _ _ _ _ => cases hr
        | add _ _ _ _ _ => cases hr
        | rem _ _ _ => cases hr
        | setrel _ _ _ => cases hr
        | set _ _ => cases hr
        | del _ => cases hr
      | copy _ => cases hr
      | shrink _ => cases hr
      | reset => cases hr
      | fdef _ _ => cases hr
      | freg _ => cases hr
      | funreg _ => cases hr
      | query _ _ => cases hr

/-! ## 3. the reserved pool slots -/

theorem reserved2_step2 (run : ProbeRunner) {s : St} {fl : List Nat} (H : HInv2 s fl)
    (hfew : s.w.tables.length + s.w.relationArchetypes.length + 1 ≤ maxU32)
    (hent : 2 * s.w.entities.length < 2 ^ 32) (op : Op2) (h : Reserved2 s.w.pool) :
    Reserved2 (step2 run s op).w.pool := by
  cases op with
  | base op =>
    show Reserved2 (RelRefine.step run s op).w.pool
    by_cases hg : RelRefine.guard s op = true
    · obtain ⟨a, r⟩ := step_desc run H.base hfew hent op hg
      by_cases hp : pre s.ss op
      · rw [(a hp).2.2.1]
        cases op with
        | new _ _ _ _ => exact h.get H.base.tinv.link.pool
        | del e =>
          obtain ⟨en, hf⟩ := hp
          obtain ⟨_, _, h2, _⟩ := H.base.live_facts (find_some_mem hf)
          exact h.recycle h2
        | reg _ _ _ => exact h
        | add _ _ _ _ _ => exact h
        | rem _ _ _ => exact h
        | setrel _ _ _ => exact h
        | set _ _ => exact h
      · rw [(r hp).1]; exact h
    · have : RelRefine.step run s op = s := by rw [RelRefine.step, if_neg hg]
      rw [this]; exact h
  | copy e =>
    by_cases hi : e ∈ s.issued
    · obtain ⟨a, r⟩ := copy_desc run H hent hi
      cases hf : find s.ss.ents e with
      | some en => rw [(a en hf).2.2.1]; exact h.get H.base.tinv.link.pool
      | none => rw [(r hf).1]; exact h
    · have : step2 run s (.copy e) = s := by simp only [step2, decide_eq_true_eq, if_neg hi]
      rw [this]; exact h
  | shrink b => rw [(shrink_desc run H hent b).1.pool]; exact h
  | reset => rw [(reset_desc run H).2.2.1]; exact h.reset
  | fdef f fo => rw [(fdef_desc run s f fo).1.pool]; exact h
  | freg f => rw [(freg_desc run H f).1.pool]; exact h
  | funreg f => rw [(funreg_desc run H f).1.pool]; exact h
  | query f extra => rw [(query_frame run H f extra).1.pool]; exact h

/-- after every history the reserved pool slots are as in a new world -/
theorem reach2_reserved (run : ProbeRunner) (cap rel : Nat) (ops : List Op2)
    (hlen : ops.length < 2 ^ 16) : Reserved2 (reach2 run cap rel ops).w.pool := by
  have key : ∀ (n : Nat), n ≤ ops.length → Reserved2 (reach2 run cap rel (ops.take n)).w.pool := by
    intro n
    induction n with
    | zero => intro _; exact Refine.reserved2_init
    | succ n ih =>
      intro hn
      have hlt : n < ops.length := by omega
      have htake : ops.take (n + 1) = ops.take n ++ [ops[n]] := by
        rw [List.take_add_one, List.getElem?_eq_getElem hlt]; rfl
      have hl : (ops.take n).length = n := by rw [List.length_take]; omega
      obtain ⟨fl, H⟩ := reach2_inv run cap rel (ops.take n) (by rw [hl]; omega)
      obtain ⟨hfew, hent⟩ := reach2_fits run cap rel (ops.take n) (by rw [hl]; omega)
      rw [htake, reach2_snoc]
      exact reserved2_step2 run H hfew hent _ (ih (by omega))
  have := key ops.length (Nat.le_refl _)
  rwa [List.take_length] at this

/-! ## 4. `pre ++ [reset]` against the registrations of `pre` -/

theorem fresh_init (cap rel : Nat) : Fresh (St.init cap rel) := ⟨rfl, rfl, rfl⟩

/-- **right after `Reset`**: the state reached by `pre ++ [reset]` and the state reached by the
    registrations of `pre` on a new world (any capacities) are related by `Sim` (no filter label
    is usable yet) -/
theorem sim_reset_regs2 (run1 run2 : ProbeRunner) (cap rel cap' rel' : Nat) (pre : List Op2)
    (hlen : pre.length + 1 < 2 ^ 16) :
    Sim [] (reach2 run1 cap rel (pre ++ [.reset])) (reach2 run2 cap' rel' (regsOf2 pre)) := by
  obtain ⟨fl, H⟩ := reach2_inv run1 cap rel pre (by omega)
  obtain ⟨E, F⟩ := regs_run2 run1 run2 cap rel cap' rel' pre [] []
    (by simp only [List.nil_append]; omega) (Nat.le_refl _) ⟨rfl, rfl, rfl⟩ (fresh_init cap' rel')
  simp only [List.nil_append] at E F
  obtain ⟨b1, b2, b3, b4, _, _⟩ := reset_desc run1 H
  have hres := reach2_reserved run1 cap rel pre (by omega)
  rw [reach2_snoc]
  refine ⟨?_, ?_, ?_, ?_, fun f hf => absurd hf List.not_mem_nil⟩
  · rw [b1]
    cases hss : (reach2 run2 cap' rel' (regsOf2 pre)).ss with
    | mk ents zst isRel =>
      have he := F.ents
      have hz := E.zst
      have hr := E.isRel
      rw [hss] at he hz hr
      simp only at he hz hr
      rw [he, hz, hr]
  · rw [b2, F.issued]
  · rw [b4]; exact E.kinds
  · rw [b3, F.pool]; exact hres.reset_core

/-! ## 5. the main theorem -/

/-- **C16 with relation components, every later history.**  Let `pre` and `post` be histories of
    the machine `Ark.RelRefine2` (within the bound `2^16`; `Reset` may occur anywhere in them) and
    `regsOf2 pre` the component registrations of `pre`, in order.  Running `post` after
    `pre ++ [reset]` and running `post` after `regsOf2 pre` on a new world (any initial
    capacities, any callback runner)
    * gives equivalent traces — for every operation of `post`: expressible on both sides or on
      neither, accepted on both or rejected on both with the SAME panic class, a creation returns
      the SAME handle (ID and generation), and a complete query iteration yields the same visit
      records (entity, every component value, every relation target) up to their order —, and
    * ends in states related by `Sim`: same specification (alive handles ↦ components ↦ values,
      relation targets, registry flags), same issued handles, same registry, same pool core, and
      filter objects that agree up to the cache ID. -/
theorem reset_equiv_rel (run1 run2 : ProbeRunner) (cap rel cap' rel' : Nat) (pre post : List Op2)
    (hlen : pre.length + 1 + post.length < 2 ^ 16) :
    TraceEq (trace2 run1 [] (reach2 run1 cap rel (pre ++ [.reset])) post)
      (trace2 run2 [] (reach2 run2 cap' rel' (regsOf2 pre)) post) ∧
    Sim (labels2 run1 [] (reach2 run1 cap rel (pre ++ [.reset])) post)
      (reach2 run1 cap rel (pre ++ [.reset] ++ post))
      (reach2 run2 cap' rel' (regsOf2 pre ++ post)) := by
  have hl2 := regsOf2_length_le pre
  have S := sim_reset_regs2 run1 run2 cap rel cap' rel' pre (by omega)
  obtain ⟨t, _, S'⟩ := sim_run2 run1 run2 cap rel cap' rel' post (pre ++ [.reset]) (regsOf2 pre) []
    (by simp only [List.length_append, List.length_singleton]; omega)
    (by simp only [List.length_append]; omega) S
  exact ⟨t, S'⟩

end RelRefine2

end Ark
