/-
  Ark.Proofs.TargetsCleanup — C04 at world level, part 4: `cleanupArchetypes` and
  `RemoveEntity` of a relation target.
  Kernel-only proofs, core Lean only.
-/
import Ark.Proofs.TargetsMove

set_option autoImplicit false

namespace Ark

open World Ark.Props.C01World

/-! ## 1. the loops of `cleanupArchetypes`, named -/

namespace World

/-- the relations of `T` that `cleanupArchetypes g` resets to the zero entity -/
def cleanRels (w : World) (g : Ent) (T : Table) : List RelID :=
  (T.relIDs.filter fun r =>
      r.target.id == g.id || (!r.target.isZero && !w.alive r.target)).map
    fun r => (⟨r.comp, Ent.zero⟩ : RelID)

/-- `GetTable`, else `createTable` -/
def getOrCreate (a : Nat) (rels : List RelID) : W Nat := do
  match ← getTable a rels with
  | some t => pure t
  | none => createTable a rels

/-- the freeing block of the inner loop -/
def freeW (w : World) (a tid : Nat) : World :=
  ((w.modArch a fun A => A.freeTable tid).modTbl tid fun T => { T with isFree := true }).cacheRemoveTable tid

/-- the body of the inner loop of `cleanupArchetypes` -/
def cleanTable (g : Ent) (a tid : Nat) : W Unit := do
  let w ← M.get
  let T := w.tbl tid
  let newRels := (T.relIDs.filter fun r =>
      r.target.id == g.id || (!r.target.isZero && !w.alive r.target)).map
    fun r => (⟨r.comp, Ent.zero⟩ : RelID)
  if T.len > 0 then
    match getExchangeTargetsUnchecked T newRels with
    | none => M.panic .runtime
    | some all =>
      let nt ← match ← getTable a all with
        | some t => pure t
        | none => createTable a all
      moveEntities tid nt T.len
  M.modify fun w => (w.modArch a fun A => A.freeTable tid).modTbl tid fun T => { T with isFree := true }
  M.modify fun w => w.cacheRemoveTable tid

/-- the body of the outer loop of `cleanupArchetypes` -/
def cleanArch (g : Ent) (a : Nat) : W Unit := do
  let w ← M.get
  match AL.find? (w.arch a).targetTables g.id with
  | none => pure ()
  | some tables =>
    M.forM' tables.tables.reverse (cleanTable g a)
    M.modify fun w => w.modArch a fun A => A.removeTarget g

theorem cleanupArchetypes_eq (g : Ent) (w : World) :
    cleanupArchetypes g w = M.forM' w.relationArchetypes (cleanArch g) w := rfl

/-- the inner loop body in normal form -/
theorem cleanTable_eq (g : Ent) (a tid : Nat) (w : World) :
    cleanTable g a tid w =
      if (w.tbl tid).len > 0 then
        match getExchangeTargetsUnchecked (w.tbl tid) (cleanRels w g (w.tbl tid)) with
        | none => .panic .runtime w
        | some all =>
          match getOrCreate a all w with
          | .panic k s => .panic k s
          | .ok nt w1 => .ok () (freeW (moveEntitiesW w1 tid nt (w.tbl tid).len) a tid)
      else .ok () (freeW w a tid) := by
  simp only [cleanTable, bind, M.bind, M.get, cleanRels]
  split
  · cases hx : getExchangeTargetsUnchecked (w.tbl tid) _ with
    | none => rfl
    | some all =>
      simp only [getOrCreate, bind, M.bind]
      cases hg : getTable a all w with
      | panic k s => rfl
      | ok r s =>
        cases r with
        | none =>
          simp only
          cases hc : createTable a all s with
          | panic k s2 => simp only [M.bind, hc]
          | ok nt s2 => simp only [M.bind, hc]; rfl
        | some t => rfl
  · rfl

theorem cleanArch_eq (g : Ent) (a : Nat) (w : World) :
    cleanArch g a w =
      match AL.find? (w.arch a).targetTables g.id with
      | none => .ok () w
      | some tables =>
        match M.forM' tables.tables.reverse (cleanTable g a) w with
        | .panic k s => .panic k s
        | .ok _ s => .ok () (s.modArch a fun A => A.removeTarget g) := by
  simp only [cleanArch, bind, M.bind, M.get]
  cases AL.find? (w.arch a).targetTables g.id with
  | none => rfl
  | some tables =>
    simp only [M.bind]
    cases M.forM' tables.tables.reverse (cleanTable g a) w with
    | panic k s => rfl
    | ok u s => rfl

end World

/-! ## 2. the relation list the cleanup builds for one table -/

/-- targets admitted while `g` (already removed from the pool) is being cleaned up: the zero
    entity, an alive entity with another ID, or `g` itself -/
def OKT (w : World) (g : Ent) (h : Ent) : Prop :=
  h.isZero = true ∨ (w.alive h = true ∧ h.id ≠ g.id) ∨ h = g

theorem OKT.eq_of_id {w : World} {g h : Ent} (hk : OKT w g h) (hg0 : g.id ≠ 0) (hid : h.id = g.id) :
    h = g := by
  rcases hk with h1 | ⟨_, h1⟩ | h1
  · simp only [Ent.isZero, beq_iff_eq] at h1; rw [hid] at h1; exact absurd h1 hg0
  · exact absurd hid h1
  · exact h1

/-- the filter of `cleanupArchetypes` selects exactly the relations targeting `g` -/
theorem cleanFilter_iff {w : World} {g h : Ent} (hk : OKT w g h) (hg0 : g.id ≠ 0) :
    (h.id == g.id || (!h.isZero && !w.alive h)) = true ↔ h = g := by
  constructor
  · intro hf
    rcases hk with h1 | ⟨h1, h2⟩ | h1
    · simp only [Ent.isZero, beq_iff_eq] at h1
      simp only [Ent.isZero, h1, beq_self_eq_true, Bool.not_true, Bool.false_and, Bool.or_false,
        beq_iff_eq] at hf
      exact absurd hf.symm hg0
    · simp only [h1, Bool.not_true, Bool.and_false, Bool.or_false, beq_iff_eq] at hf
      exact absurd hf h2
    · exact h1
  · rintro rfl; simp

/-- the new target of a column whose target was `h` -/
def zeroIf (g h : Ent) : Ent := if h = g then Ent.zero else h

/-- What the cleanup computes for a non-free table `T` with an exact relation list whose
    targets are admitted: the edited target list `ts'` replaces `g` by the zero entity in every
    relation column, and every relation handed to the loop names a column. -/
theorem lt_of_getD_true {l : List Bool} {i : Nat} (h : l.getD i false = true) : i < l.length := by
  rcases Nat.lt_or_ge i l.length with h1 | h1
  · exact h1
  · rw [List.getD_eq_getElem?_getD, List.getElem?_eq_none h1] at h; cases h

theorem cleanRels_spec {w : World} {g : Ent} {T : Table} (hex : T.RelsExact) (hnd : T.ids.Nodup)
    (hrl : T.isRel.length = T.ids.length)
    (hok : ∀ (i : Nat), T.isRel.getD i false = true → OKT w g (T.targets.getD i Ent.zero))
    (hg0 : g.id ≠ 0) :
    (∀ (r : RelID), r ∈ cleanRels w g T → (T.colIdx r.comp).isSome = true) ∧
    (setTargets T.colIdx (cleanRels w g T) T.targets).length = T.ids.length ∧
    ∀ (i : Nat), T.isRel.getD i false = true →
      (setTargets T.colIdx (cleanRels w g T) T.targets).getD i Ent.zero =
        zeroIf g (T.targets.getD i Ent.zero) := by
  -- members of `cleanRels`
  have hmem : ∀ (r' : RelID), r' ∈ cleanRels w g T ↔
      ∃ (r : RelID), r ∈ T.relIDs ∧ r.target = g ∧ r' = ⟨r.comp, Ent.zero⟩ := by
    intro r'
    simp only [cleanRels, List.mem_map, List.mem_filter]
    constructor
    · rintro ⟨r, ⟨hr, hf⟩, rfl⟩
      obtain ⟨i, _, h2, h3⟩ := hex.sound r hr
      refine ⟨r, hr, ?_, rfl⟩
      exact (cleanFilter_iff (h3 ▸ hok i h2) hg0).1 hf
    · rintro ⟨r, hr, hg, rfl⟩
      obtain ⟨i, _, h2, h3⟩ := hex.sound r hr
      exact ⟨r, ⟨hr, (cleanFilter_iff (h3 ▸ hok i h2) hg0).2 hg⟩, rfl⟩
  refine ⟨?_, by rw [setTargets_length, hex.tlen], ?_⟩
  · intro r' hr'
    obtain ⟨r, hr, _, rfl⟩ := (hmem r').1 hr'
    obtain ⟨i, h1, _, _⟩ := hex.sound r hr
    rw [Table.colIdx_of_get hnd h1]; rfl
  · intro i hi
    have hil : i < T.ids.length := by rw [← hrl]; exact lt_of_getD_true hi
    by_cases hgi : T.targets.getD i Ent.zero = g
    · rw [zeroIf, if_pos hgi]
      apply setTargets_getD_eq
      · rw [hex.tlen]; exact hil
      · intro r' hr' _
        obtain ⟨r, _, _, rfl⟩ := (hmem r').1 hr'
        rfl
      · left
        obtain ⟨c, hc⟩ : ∃ (c : Comp), T.ids[i]? = some c := ⟨_, List.getElem?_eq_getElem hil⟩
        have := hex.complete i c hc hi
        rw [hgi] at this
        exact ⟨⟨c, Ent.zero⟩, (hmem _).2 ⟨⟨c, g⟩, this, rfl, rfl⟩, Table.colIdx_of_get hnd hc⟩
    · rw [zeroIf, if_neg hgi]
      apply setTargets_getD_keep
      intro r' hr' hc
      obtain ⟨r, hr, hg, rfl⟩ := (hmem r').1 hr'
      exact hgi ((hex.col hnd hr hc).2.trans hg)

/-- the relation list read off the columns: what it contains -/
theorem colRels_facts {ids : List Comp} {ts : List Ent} {bs : List Bool} (hnd : ids.Nodup)
    (h1 : ts.length = ids.length) (h2 : bs.length = ids.length) :
    ((colRels ids ts bs).map (·.comp)).Nodup ∧
    (colRels ids ts bs).length = (bs.filter fun b => b).length ∧
    (∀ (r : RelID), r ∈ colRels ids ts bs → ∃ (i : Nat), ids[i]? = some r.comp ∧
      bs.getD i false = true ∧ ts.getD i Ent.zero = r.target) ∧
    (∀ (i : Nat) (c : Comp), ids[i]? = some c → bs.getD i false = true →
      (⟨c, ts.getD i Ent.zero⟩ : RelID) ∈ colRels ids ts bs) := by
  refine ⟨colRels_comps_nodup hnd ts bs, colRels_length ids ts bs h1 h2, ?_, ?_⟩
  · intro r hr
    obtain ⟨i, a1, a2, a3⟩ := mem_colRels.1 hr
    exact ⟨i, a1, (getD_false_eq_true_iff bs i).2 a3, by
      rw [List.getD_eq_getElem?_getD, a2]; rfl⟩
  · intro i c hc hb
    have hi : i < ids.length := (List.getElem?_eq_some_iff.1 hc).1
    refine mem_colRels.2 ⟨i, hc, ?_, (getD_false_eq_true_iff bs i).1 hb⟩
    rw [List.getD_eq_getElem?_getD, List.getElem?_eq_getElem (by rw [h1]; exact hi)]; rfl

/-! ## 3. archetype-level helpers -/

namespace Archetype

theorem IndexInvExcept.congr_tgt {a : Archetype} {tgt tgt' : Nat → List Ent} {g : Nat}
    (h : a.IndexInvExcept tgt g) (he : ∀ (t : Nat), t ∈ a.tables.tables → tgt' t = tgt t) :
    a.IndexInvExcept tgt' g := by
  obtain ⟨S, S', hm⟩ := h.maps
  refine { h.toStruct with maps := ⟨S, S', hm.congr ?_ ?_⟩ }
  · intro i _ g' t
    by_cases hg : g' = g
    · simp [hg]
    · simp only [hg, if_false]
      unfold Archetype.relP
      constructor
      · rintro ⟨h1, h2⟩; exact ⟨h1, by rw [he t h1]; exact h2⟩
      · rintro ⟨h1, h2⟩; exact ⟨h1, by rw [he t h1] at h2; exact h2⟩
  · intro g' t
    by_cases hg : g' = g
    · simp [hg]
    · simp only [hg, if_false]
      unfold Archetype.tgtP
      constructor
      · rintro ⟨h1, i, h2, h3⟩; exact ⟨h1, i, h2, by rw [he t h1]; exact h3⟩
      · rintro ⟨h1, i, h2, h3⟩; exact ⟨h1, i, h2, by rw [he t h1] at h3; exact h3⟩

/-- under the invariant up to key `g`, a table listed under another key is active and targets
    that key in that column -/
theorem IndexInvExcept.listed {a : Archetype} {tgt : Nat → List Ent} {g : Nat}
    (h : a.IndexInvExcept tgt g) {i : Nat} (hi : a.isRel.getD i false = true) {k : Nat} (hk : k ≠ g)
    {ts : TableIDs} (hf : AL.find? (a.relationTables.getD i []) k = some ts) {t : Nat}
    (ht : t ∈ ts.tables) : t ∈ a.tables.tables ∧ ((tgt t).getD i Ent.zero).id = k := by
  obtain ⟨S, S', hm⟩ := h.maps
  have := ((hm.rel i hi).mem_of_find? hf t).1 ht
  rw [if_neg hk] at this
  exact this

/-- under the invariant up to key `g`, the tables listed for `g` itself are what the maps say;
    for the full invariant they are exactly the active tables with a column targeting `g` -/
theorem IndexInv.targetListed {a : Archetype} {tgt : Nat → List Ent} (h : a.IndexInv tgt) {g : Nat}
    {ts : TableIDs} (hf : AL.find? a.targetTables g = some ts) (t : Nat) :
    t ∈ ts.tables ↔ tgtP a tgt g t := h.target.mem_of_find? hf t

theorem IndexInv.target_none {a : Archetype} {tgt : Nat → List Ent} (h : a.IndexInv tgt) {g : Nat}
    (hf : AL.find? a.targetTables g = none) (t : Nat) : ¬ tgtP a tgt g t :=
  h.target.not_of_find?_none hf t

theorem freeTable_archRel (a : Archetype) (tid : Nat) : ArchRel a (a.freeTable tid) :=
  ⟨freeTable_id a tid, freeTable_mask a tid, freeTable_comps a tid, freeTable_isRel a tid,
    freeTable_zst a tid, freeTable_numRel a tid⟩

end Archetype

namespace World

theorem modArch_arch_self (w : World) {a : Nat} (f : Archetype → Archetype)
    (h : a < w.archetypes.length) : (w.modArch a f).arch a = f (w.arch a) := by
  rw [modArch, setArch_arch, if_pos ⟨rfl, h⟩]

theorem modArch_arch_ne (w : World) {a b : Nat} (f : Archetype → Archetype) (h : a ≠ b) :
    (w.modArch a f).arch b = w.arch b := by
  rw [modArch, setArch_arch, if_neg (fun hh => h hh.1)]

/-- the archetype `createTable` leaves behind: `AddTable` on the archetype, after popping the
    free table if there is one -/
theorem createTableS_arch (w : World) {a : Nat} (rels : List RelID) (ha : a < w.archetypes.length) :
    (createTableS w a rels).1.arch a =
      match (w.arch a).getFreeTable with
      | none => (w.arch a).addTable w.tables.length (ctTargets (w.arch a) rels)
      | some (A', t) => A'.addTable t (ctTargets (w.arch a) rels) := by
  cases hf : (w.arch a).getFreeTable with
  | none =>
    rw [createTableS_none hf]
    exact modArch_arch_self _ _ ha
  | some p =>
    obtain ⟨A', t⟩ := p
    rw [createTableS_some hf]
    simp only
    rw [modArch_arch_self _ _ (by simpa [modTbl, setTbl, setArch] using ha)]
    congr 1
    show (w.setArch a A').arch a = A'
    rw [setArch_arch, if_pos ⟨rfl, ha⟩]

end World

/-- **`createTable` keeps the index invariant up to key `g`** of its archetype, when none of the
    new table's relation columns targets `g` -/
theorem SInvMid.createTableS_except {w : World} (h : SInvMid w) {a : Nat} {A : Archetype}
    (hA : w.archetypes[a]? = some A) (rels : List RelID) {g : Nat}
    (hX : A.IndexInvExcept (fun t => (w.tbl t).targets) g)
    (htg : ∀ (i : Nat), A.isRel.getD i false = true → ((ctTargets A rels).getD i Ent.zero).id ≠ g) :
    ((createTableS w a rels).1.arch a).IndexInvExcept
      (fun t => if t = (createTableS w a rels).2 then ctTargets A rels else (w.tbl t).targets) g := by
  have hAe : w.arch a = A := arch_of_get hA
  have halt := alt_of_get hA
  rw [createTableS_arch w rels halt, hAe]
  cases hf : A.getFreeTable with
  | none =>
    have h2 : (createTableS w a rels).2 = w.tables.length := by
      rw [createTableS_none (by rw [hAe]; exact hf)]
    rw [h2]
    have hnew : w.tables.length ∉ A.tables.tables ∧ w.tables.length ∉ A.freeTables := by
      constructor
      · intro hm
        obtain ⟨T, hT, _⟩ := h.owned a A _ hA (Or.inl hm)
        exact absurd (lt_of_get hT) (Nat.lt_irrefl _)
      · intro hm
        obtain ⟨T, hT, _⟩ := h.owned a A _ hA (Or.inr hm)
        exact absurd (lt_of_get hT) (Nat.lt_irrefl _)
    exact hX.addTable _ _ hnew.1 hnew.2 htg
  | some p =>
    obtain ⟨A', t⟩ := p
    have h2 : (createTableS w a rels).2 = t := by
      rw [createTableS_some (by rw [hAe]; exact hf)]
    rw [h2]
    obtain ⟨hX', _, _, hnf, hnt⟩ := hX.getFreeTable hf
    obtain ⟨_, _, _, _, _, _, _, _, e4, _, _⟩ := (h.astruct a A hA).getFreeTable hf
    exact hX'.addTable t _ hnt hnf (fun i hi => htg i (by rw [← e4]; exact hi))

/-! ## 4. the invariants of the cleanup -/

/-- what holds of the world while target `g` is being cleaned up (apart from the relation
    indices) -/
structure CleanBase (g : Ent) (w : World) : Prop where
  idx : IdxInv w
  sinv : SInv w
  tgts : TargetsSat (OKT w g) w
  rels : RelListsOK w
  cacheRels : CacheRelsOK w
  flags : FlagsOK w
  freeEmpty : FreeEmpty w
  relArchs : RelArchsOK w

/-- the relation indices while archetype `a` is being cleaned of key `g`: `a` satisfies the
    invariant up to that key, every other archetype the full invariant -/
def RInvExcept (w : World) (a g : Nat) : Prop :=
  (∀ (A : Archetype), w.archetypes[a]? = some A →
    A.IndexInvExcept (fun t => (w.tbl t).targets) g) ∧
  (∀ (b : Nat) (B : Archetype), b ≠ a → w.archetypes[b]? = some B →
    B.IndexInv (fun t => (w.tbl t).targets))

theorem RInv.toExcept {w : World} (h : RInv w) (a g : Nat) : RInvExcept w a g :=
  ⟨fun A hA => (h a A hA).toExcept g, fun b B _ hB => h b B hB⟩

/-- archetypes with the same column list have the same relation / zero-size flags (both are
    read off the registry) -/
theorem SInvMid.flags_of_comps {w w' : World} (h : SInvMid w) (h' : SInvMid w')
    (hk : w'.kinds = w.kinds) {a a' : Nat} {A A' : Archetype} (hA : w.archetypes[a]? = some A)
    (hA' : w'.archetypes[a']? = some A') (hc : A'.comps = A.comps) :
    A'.isRel = A.isRel ∧ A'.zst = A.zst := by
  obtain ⟨_, l1, l2⟩ := h.comps a A hA
  obtain ⟨_, l1', l2'⟩ := h'.comps a' A' hA'
  constructor
  · apply List.ext_getElem (by rw [l1, l1', hc])
    intro i hi1 hi2
    have hi : i < A.comps.length := by rw [← l1]; exact hi2
    have hc1 : A.comps[i]? = some A.comps[i] := List.getElem?_eq_getElem hi
    have e1 := (h.kindsOf a A i _ hA hc1).1
    have e2 := (h'.kindsOf a' A' i _ hA' (by rw [hc]; exact hc1)).1
    rw [hk, ← e1] at e2
    simp only [List.getD_eq_getElem?_getD, List.getElem?_eq_getElem hi1,
      List.getElem?_eq_getElem hi2, Option.getD_some] at e2
    exact e2
  · apply List.ext_getElem (by rw [l2, l2', hc])
    intro i hi1 hi2
    have hi : i < A.comps.length := by rw [← l2]; exact hi2
    have hc1 : A.comps[i]? = some A.comps[i] := List.getElem?_eq_getElem hi
    have e1 := (h.kindsOf a A i _ hA hc1).2
    have e2 := (h'.kindsOf a' A' i _ hA' (by rw [hc]; exact hc1)).2
    rw [hk, ← e1] at e2
    simp only [List.getD_eq_getElem?_getD, List.getElem?_eq_getElem hi1,
      List.getElem?_eq_getElem hi2, Option.getD_some] at e2
    exact e2

/-! ## 5. finding or creating the destination table -/

/-- what `getOrCreate` delivers inside the cleanup of table `tid` (`ts'` = the edited targets) -/
structure CleanGot (w w1 : World) (a tid nt : Nat) (ts' : List Ent) : Prop where
  ntLt : nt < w1.tables.length
  ntNe : nt ≠ tid
  ntArch : (w1.tbl nt).arch = a
  ntFree : (w1.tbl nt).isFree = false
  ntActive : nt ∈ (w1.arch a).tables.tables
  ntIds : (w1.tbl nt).ids = (w.tbl tid).ids
  ntIsRel : (w1.tbl nt).isRel = (w.tbl tid).isRel
  ntZst : (w1.tbl nt).zst = (w.tbl tid).zst
  ntTgt : ∀ (i : Nat), (w.tbl tid).isRel.getD i false = true →
    (w1.tbl nt).targets.getD i Ent.zero = ts'.getD i Ent.zero
  others : ∀ (t : Nat), t ≠ nt → w1.tables[t]? = w.tables[t]?
  ntRows : nt < w.tables.length → ∃ (ts : List Ent) (rs : List RelID),
    w1.tbl nt = { w.tbl nt with targets := ts, relIDs := rs, isFree := false }
  ntKeep : nt < w.tables.length → w1.tables[nt]? = w.tables[nt]? ∨ (w.tbl nt).isFree = true
  entities : w1.entities = w.entities
  pool : w1.pool = w.pool
  isTarget : w1.isTarget = w.isTarget
  kinds : w1.kinds = w.kinds
  obs : w1.obs = w.obs
  locks : w1.locks = w.locks
  maxComps : w1.maxComps = w.maxComps
  relationArchetypes : w1.relationArchetypes = w.relationArchetypes
  archLen : w1.archetypes.length = w.archetypes.length
  otherArchs : ∀ (b : Nat), b ≠ a → w1.archetypes[b]? = w.archetypes[b]?
  actA : ∀ (t : Nat), t ∈ (w1.arch a).tables.tables ↔ t ∈ (w.arch a).tables.tables ∨ t = nt
  archIsRel : (w1.arch a).isRel = (w.arch a).isRel
  tablesLe : w.tables.length ≤ w1.tables.length
  lenB : w1.tables.length ≤ w.tables.length + 1
  lenFresh : w1.tables.length = w.tables.length + 1 → (w.arch a).freeTables = []

theorem Table.eta_free {T : Table} (h : T.isFree = false) :
    T = { T with targets := T.targets, relIDs := T.relIDs, isFree := false } := by
  cases T; simp_all

theorem getOrCreate_found {a : Nat} {rels : List RelID} {w : World} {t : Nat}
    (h : getTable a rels w = .ok (some t) w) : getOrCreate a rels w = .ok t w := by
  simp only [getOrCreate, bind, M.bind, h, pure, M.pure]

theorem getOrCreate_created {a : Nat} {rels : List RelID} {w w' : World} {t : Nat}
    (h : getTable a rels w = .ok none w) (hc : createTable a rels w = .ok t w') :
    getOrCreate a rels w = .ok t w' := by
  simp only [getOrCreate, bind, M.bind, h, hc]

theorem ent_ne_zero {g : Ent} (hg0 : g.id ≠ 0) : g ≠ Ent.zero := by
  intro h; rw [h] at hg0; exact hg0 rfl

/-- **the destination table of one cleanup step**: for the non-free table `tid` of archetype `a`
    with a column targeting `g`, `getOrCreate` on the relation list read off the edited targets
    never panics, keeps the cleanup invariants and returns another active table of `a` whose
    relation columns hold the edited targets. -/
theorem cleanGet {g : Ent} {a tid : Nat} {w : World} {ts' : List Ent} (hB : CleanBase g w)
    (hX : RInvExcept w a g.id) (hg0 : g.id ≠ 0) (hlt : tid < w.tables.length)
    (hTa : (w.tbl tid).arch = a) (hTf : (w.tbl tid).isFree = false)
    (hcol0 : ∃ (i0 : Nat), (w.tbl tid).isRel.getD i0 false = true ∧
      (w.tbl tid).targets.getD i0 Ent.zero = g)
    (hl : ts'.length = (w.tbl tid).ids.length)
    (hts : ∀ (i : Nat), (w.tbl tid).isRel.getD i false = true →
      ts'.getD i Ent.zero = zeroIf g ((w.tbl tid).targets.getD i Ent.zero)) :
    ∃ (nt : Nat) (w1 : World),
      getOrCreate a (colRels (w.tbl tid).ids ts' (w.tbl tid).isRel) w = .ok nt w1 ∧
      CleanBase g w1 ∧ RInvExcept w1 a g.id ∧ CleanGot w w1 a tid nt ts' := by
  have hS := hB.sinv.toSInvMid
  have hT := get_of_lt hlt
  obtain ⟨A, hA, i1, i2, i3, _⟩ := hS.tblArch tid _ hT
  rw [hTa] at hA
  have hAe : w.arch a = A := arch_of_get hA
  have halt := alt_of_get hA
  have hnd := hS.ids_nodup hT
  have hrl := hS.isRel_len hT
  have hTex := hB.rels tid _ hT hTf
  obtain ⟨i0, hi0, hg0t⟩ := hcol0
  have hrelA : A.hasRelations = true :=
    (hS.astruct a A hA).hasRelations_of_rel (by rw [← i2]; exact hi0)
  obtain ⟨f1, f2, f3, f4⟩ := colRels_facts (ts := ts') hnd hl hrl
  have hnum : A.numRel = (colRels (w.tbl tid).ids ts' (w.tbl tid).isRel).length := by
    rw [f2, (hS.astruct a A hA).numRelEq, i2]
  -- the edited targets are zero or alive with another ID
  have hgood : ∀ (i : Nat), (w.tbl tid).isRel.getD i false = true →
      (ts'.getD i Ent.zero).isZero = true ∨
      (w.alive (ts'.getD i Ent.zero) = true ∧ (ts'.getD i Ent.zero).id ≠ g.id) := by
    intro i hi
    rw [hts i hi, zeroIf]
    split
    · left; rfl
    · rename_i hne
      rcases hB.tgts tid _ hT hTf i hi with h1 | h1 | h1
      · exact Or.inl h1
      · exact Or.inr h1
      · exact absurd h1 hne
  have hidne : ∀ (i : Nat), (w.tbl tid).isRel.getD i false = true →
      (ts'.getD i Ent.zero).id ≠ g.id := by
    intro i hi
    rcases hgood i hi with h1 | h1
    · simp only [Ent.isZero, beq_iff_eq] at h1; rw [h1]; exact fun e => hg0 e.symm
    · exact h1.2
  -- a column of another table of `a` (same layout)
  have hcolOf : ∀ (Tt : Table), Tt.ids = (w.tbl tid).ids → Tt.isRel = (w.tbl tid).isRel →
      ∀ (r : RelID), r ∈ colRels (w.tbl tid).ids ts' (w.tbl tid).isRel → ∀ (j : Nat),
      Tt.colIdx r.comp = some j →
        Tt.isRel.getD j false = true ∧ ts'.getD j Ent.zero = r.target := by
    intro Tt e1 e2 r hr j hj
    obtain ⟨i, a1, a2, a3⟩ := f3 r hr
    have hj' := Table.colIdx_get hj
    rw [e1] at hj'
    have := Table.colIdx_of_get hnd a1
    rw [Table.colIdx_of_get hnd hj'] at this
    obtain rfl := Option.some.inj this
    exact ⟨by rw [e2]; exact a2, a3⟩
  -- the head of the relation list
  cases hall : colRels (w.tbl tid).ids ts' (w.tbl tid).isRel with
  | nil =>
    rw [hall] at hnum
    simp [Archetype.hasRelations, hnum] at hrelA
  | cons r0 rest =>
    have hr0 : r0 ∈ colRels (w.tbl tid).ids ts' (w.tbl tid).isRel := by rw [hall]; exact List.mem_cons_self
    obtain ⟨ic, c1, c2, c3⟩ := f3 r0 hr0
    have hcolA : (w.arch a).colIdx r0.comp = some ic := by
      rw [hAe, ← colIdx_fun_eq i1]; exact Table.colIdx_of_get hnd c1
    have hk : r0.target.id ≠ g.id := by rw [← c3]; exact hidne ic c2
    have hlenA : (w.arch a).numRel ≤ (r0 :: rest).length := by rw [hAe, hnum, hall]; exact Nat.le_refl _
    have hrelA' : (w.arch a).hasRelations = true := by rw [hAe]; exact hrelA
    -- a table listed under the head's target is an active, non-free table of `a`
    have hlisted : ∀ (ts : TableIDs),
        AL.find? ((w.arch a).relationTables.getD ic []) r0.target.id = some ts → ∀ (t : Nat),
        t ∈ ts.tables → t ∈ A.tables.tables ∧ ∃ (Tt : Table), w.tables[t]? = some Tt ∧
          Tt.arch = a ∧ Tt.isFree = false ∧ Tt.ids = (w.tbl tid).ids ∧
          Tt.isRel = (w.tbl tid).isRel ∧ Tt.zst = (w.tbl tid).zst := by
      intro ts hf t ht
      rw [hAe] at hf
      have hact := ((hX.1 A hA).listed (by rw [← i2]; exact c2) hk hf ht).1
      obtain ⟨Tt, hTt, hTta⟩ := hS.owned a A t hA (Or.inl hact)
      obtain ⟨A', hA', j1, j2, j3, _⟩ := hS.tblArch t Tt hTt
      rw [hTta, hA] at hA'
      obtain rfl := Option.some.inj hA'
      have hfree := (hS.member t Tt hTt).1
      rw [hTta, hAe] at hfree
      exact ⟨hact, Tt, hTt, hTta, hfree.2 hact, by rw [j1, i1], by rw [j2, i2], by rw [j3, i3]⟩
    have htotal : ∃ (r : Option Nat),
        getTable a (r0 :: rest) w = .ok r w := by
      apply getTable_rel_total hrelA' hlenA hcolA
        (by rw [← hall]; exact colRels_comps_nodup hnd _ _)
      intro ts hf t ht
      obtain ⟨_, Tt, hTt, _, hTtf, e1, e2, _⟩ := hlisted ts hf t ht
      rw [tbl_of_get hTt]
      apply Table.matchesExact_total
      · have := (hB.rels t Tt hTt hTtf).length_le (hS.isRel_len hTt)
        rw [e2] at this
        rw [← hall, f2]; exact this
      · intro r hr j hj
        rw [← hall] at hr
        exact (hcolOf Tt e1 e2 r hr j hj).1
    obtain ⟨res, hres⟩ := htotal
    cases res with
    | some nt =>
      -- an existing table
      obtain ⟨ts, hf, hm⟩ := getTable_rel_some hrelA' hlenA hcolA hres
      obtain ⟨hact, Tn, hTn, hTna, hTnf, e1, e2, e3⟩ := hlisted ts hf nt hm
      have hTne := tbl_of_get hTn
      have hyes := (Table.matchesExact_yes (getTable_found hres hrelA')).2
      have hntTgt : ∀ (i : Nat), (w.tbl tid).isRel.getD i false = true →
          (w.tbl nt).targets.getD i Ent.zero = ts'.getD i Ent.zero := by
        intro i hi
        have hil : i < (w.tbl tid).ids.length := by rw [← hrl]; exact lt_of_getD_true hi
        have hc : (w.tbl tid).ids[i]? = some (w.tbl tid).ids[i] := List.getElem?_eq_getElem hil
        have hmem := f4 i _ hc hi
        rw [hall] at hmem
        have hci : (w.tbl nt).colIdx (w.tbl tid).ids[i] = some i := by
          rw [hTne]; exact Table.colIdx_of_get (by rw [e1]; exact hnd) (by rw [e1]; exact hc)
        exact (hyes _ hmem i hci).2
      refine ⟨nt, w, getOrCreate_found hres, hB, hX, ?_⟩
      refine
        { ntLt := lt_of_get hTn
          ntNe := ?_
          ntArch := by rw [hTne]; exact hTna
          ntFree := by rw [hTne]; exact hTnf
          ntActive := by rw [hAe]; exact hact
          ntIds := by rw [hTne]; exact e1
          ntIsRel := by rw [hTne]; exact e2
          ntZst := by rw [hTne]; exact e3
          ntTgt := hntTgt
          others := fun _ _ => rfl
          ntRows := fun _ => ⟨_, _, Table.eta_free (by rw [hTne]; exact hTnf)⟩
          ntKeep := fun _ => Or.inl rfl
          entities := rfl, pool := rfl, isTarget := rfl, kinds := rfl, obs := rfl, locks := rfl,
          maxComps := rfl, relationArchetypes := rfl, archLen := rfl
          otherArchs := fun _ _ => rfl
          actA := ?_
          archIsRel := rfl
          tablesLe := Nat.le_refl _
          lenB := Nat.le_succ _
          lenFresh := fun h => absurd h (by omega) }
      · intro hh
        have h1 := hntTgt i0 hi0
        rw [hh, hg0t, hts i0 hi0, hg0t, zeroIf, if_pos rfl] at h1
        exact ent_ne_zero hg0 h1
      · intro t
        constructor
        · exact Or.inl
        · rintro (h1 | rfl)
          · exact h1
          · rw [hAe]; exact hact
    | none =>
      -- a table is created (or recycled)
      have hcols : ∀ (r : RelID), r ∈ r0 :: rest → ((w.arch a).colIdx r.comp).isSome = true := by
        intro r hr
        rw [← hall] at hr
        obtain ⟨i, a1, _, _⟩ := f3 r hr
        rw [hAe, ← colIdx_fun_eq i1, Table.colIdx_of_get hnd a1]; rfl
      have hokt : ∀ (r : RelID), r ∈ r0 :: rest → r.target.isZero = true ∨
          (w.alive r.target = true ∧ r.target.id ≠ g.id) := by
        intro r hr
        rw [← hall] at hr
        obtain ⟨i, _, a2, a3⟩ := f3 r hr
        rw [← a3]; exact hgood i a2
      have hvalid : RelsValid w (r0 :: rest) := by
        intro r hr
        have hr' := hr
        rw [← hall] at hr'
        obtain ⟨i, a1, a2, _⟩ := f3 r hr'
        refine ⟨hS.isRelComp_of_col hT a1 a2, ?_⟩
        rcases hokt r hr with h1 | h1
        · exact Or.inl h1
        · exact Or.inr h1.1
      have hndall : ((r0 :: rest).map (·.comp)).Nodup := by rw [← hall]; exact f1
      obtain ⟨nt, w1, hct, ct⟩ := hS.createTable_total hB.cacheRels halt
        (fun hf => by rw [hrelA'] at hf; cases hf) hlenA hcols hndall hvalid
      obtain ⟨hTt, hTna, hTr, hTnf, hTg, hTi⟩ := ct.tbl
      have hu := createTable_untouched hct
      obtain ⟨hra, hcr⟩ := createTable_frame hct
      have hrels1 : RelListsOK w1 := hB.rels.created halt ct hS hndall
      have hal : ∀ (e : Ent), w1.alive e = w.alive e := fun e => by simp only [World.alive, ct.pool]
      have hids1 : (w1.tbl nt).ids = (w.tbl tid).ids := by rw [hTi, hAe, i1]
      obtain ⟨A1, hA1, j1, j2, j3, _⟩ := ct.sinvMid.tblArch nt _ hTt
      rw [hTna] at hA1
      have hc1 : A1.comps = A.comps := by
        have := arch_of_get hA1
        rw [← this, ct.archA.2.1, hAe]
      obtain ⟨hir, hiz⟩ := hS.flags_of_comps ct.sinvMid ct.kinds hA hA1 hc1
      have hisrel1 : (w1.tbl nt).isRel = (w.tbl tid).isRel := by rw [j2, hir, i2]
      have hzst1 : (w1.tbl nt).zst = (w.tbl tid).zst := by rw [j3, hiz, i3]
      have hntTgt : ∀ (i : Nat), (w.tbl tid).isRel.getD i false = true →
          (w1.tbl nt).targets.getD i Ent.zero = ts'.getD i Ent.zero := by
        intro i hi
        have hil : i < (w.tbl tid).ids.length := by rw [← hrl]; exact lt_of_getD_true hi
        have hc : (w.tbl tid).ids[i]? = some (w.tbl tid).ids[i] := List.getElem?_eq_getElem hil
        have hmem := f4 i _ hc hi
        rw [hall] at hmem
        have hci : (w1.tbl nt).colIdx (w.tbl tid).ids[i] = some i :=
          Table.colIdx_of_get (by rw [hids1]; exact hnd) (by rw [hids1]; exact hc)
        exact ((hrels1 nt _ hTt hTnf).col (ct.sinvMid.ids_nodup hTt)
          (by rw [hTr]; exact hmem) hci).2
      have htidAct : tid ∈ A.tables.tables := by
        have := (hS.member tid _ hT).1
        rw [hTa, hAe] at this
        exact this.1 hTf
      have hntne : nt ≠ tid := by
        rcases ct.kind with ⟨k1, _⟩ | ⟨_, _, k3, _⟩
        · omega
        · rw [hAe] at k3
          intro hh
          exact (hS.astruct a A hA).disjoint tid htidAct (hh ▸ k3)
      have hB1 : CleanBase g w1 := by
        refine
          { idx := ct.idx hB.idx
            sinv := ct.sinv (fun b _ => hB.sinv.settled b)
            tgts := ?_
            rels := hrels1
            cacheRels := hcr hB.cacheRels
            flags := ?_
            freeEmpty := hB.freeEmpty.created ct
            relArchs := hB.relArchs.created halt ct hra }
        · refine (hB.tgts.created ct (Or.inl rfl) ?_).mono ?_
          · intro r hr
            rcases hokt r hr with h1 | h1
            · exact Or.inl h1
            · exact Or.inr (Or.inl h1)
          · intro e he
            rcases he with h1 | ⟨h1, h2⟩ | h1
            · exact Or.inl h1
            · exact Or.inr (Or.inl ⟨by rw [hal]; exact h1, h2⟩)
            · exact Or.inr (Or.inr h1)
        · have := (hB.flags.upTo []).created ct hu.isTarget (by
            intro r hr hz
            left
            have hr' := hr
            rw [← hall] at hr'
            obtain ⟨i, _, a2, a3⟩ := f3 r hr'
            rw [← a3] at hz ⊢
            rw [hts i a2, zeroIf] at hz ⊢
            split
            · rename_i heq; rw [if_pos heq] at hz; cases hz
            · rename_i hne
              rw [if_neg hne] at hz
              exact hB.flags tid _ hT hTf i a2 hz)
          intro t0 T0 hT0 hf i hi hz
          rcases this t0 T0 hT0 hf i hi hz with h1 | ⟨r, hr, _⟩
          · exact h1
          · cases hr
      have htgfun : ∀ (t : Nat), (w1.tbl t).targets =
          if t = nt then ctTargets A (r0 :: rest) else (w.tbl t).targets := by
        intro t
        by_cases ht : t = nt
        · subst ht; rw [if_pos rfl, hTg, hAe]
        · rw [if_neg ht]
          simp only [tbl, List.getD_eq_getElem?_getD, ct.others t ht]
      have hX1 : RInvExcept w1 a g.id := by
        obtain ⟨_, _, _, h4, h5⟩ := createTable_ok hct
        obtain ⟨fa, _⟩ := cacheAddTable_frame h5
        constructor
        · intro A1' hA1'
          have hA1e : A1' = (createTableS w a (r0 :: rest)).1.arch a := by
            rw [← arch_of_get hA1']; simp only [arch, fa]
          have hexc := hS.createTableS_except hA (r0 :: rest) (hX.1 A hA) (by
            intro i hi
            have hi' : (w.tbl tid).isRel.getD i false = true := by rw [i2]; exact hi
            have := hntTgt i hi'
            rw [hTg, hAe] at this
            rw [this]; exact hidne i hi')
          rw [hA1e]
          rw [← h4] at hexc
          exact hexc.congr_tgt (fun t _ => htgfun t)
        · intro b B hb hB'
          have hBw : w.archetypes[b]? = some B := by rw [← ct.otherArchs b hb]; exact hB'
          refine (hX.2 b B hb hBw).congr_tgt ?_
          intro t ht
          have hne : t ≠ nt := by
            rintro rfl
            obtain ⟨T', hT', hTb⟩ := ct.sinvMid.owned b B t hB' (Or.inl ht)
            rw [hTt] at hT'
            rw [← Option.some.inj hT', hTna] at hTb
            exact hb hTb.symm
          show (w1.tbl t).targets = (w.tbl t).targets
          rw [htgfun, if_neg hne]
      refine ⟨nt, w1, getOrCreate_created hres hct, hB1, hX1, ?_⟩
      refine
        { ntLt := lt_of_get hTt
          ntNe := hntne
          ntArch := hTna
          ntFree := hTnf
          ntActive := ct.active
          ntIds := hids1
          ntIsRel := hisrel1
          ntZst := hzst1
          ntTgt := hntTgt
          others := ct.others
          ntRows := ?_
          ntKeep := ?_
          entities := ct.entities, pool := ct.pool, isTarget := hu.isTarget, kinds := ct.kinds,
          obs := hu.obs, locks := hu.locks, maxComps := hu.maxComps, relationArchetypes := hra,
          archLen := ct.archLen
          otherArchs := ct.otherArchs
          actA := ?_
          archIsRel := by rw [arch_of_get hA1, hir, hAe]
          tablesLe := ?_
          lenB := ?_
          lenFresh := ?_ }
      · intro hlt'
        rcases ct.kind with ⟨k1, _⟩ | ⟨_, _, _, _, k5⟩
        · omega
        · exact ⟨_, _, k5⟩
      · intro hlt'
        rcases ct.kind with ⟨k1, _⟩ | ⟨_, _, _, k4, _⟩
        · omega
        · exact Or.inr k4
      · intro t
        rw [ct.archA.2.2.2.2]; simp
      · rcases ct.kind with ⟨_, k2, _⟩ | ⟨_, k2, _⟩ <;> omega
      · rcases ct.kind with ⟨_, k2, _⟩ | ⟨_, k2, _⟩ <;> omega
      · intro hh
        rcases ct.kind with ⟨_, _, _, k4⟩ | ⟨_, k2, _⟩
        · exact k4
        · omega

end Ark
