/-
  Ark.Proofs.CallbacksSetting — C08/C09 at world level, part 4: the setting `ObsOK` of
  Ark/Proofs/Callbacks.lean is established by `Observer.Register` and kept by
  `Observer.Unregister`; which observers are listed afterwards.

  * `opObsRegister_spec` — a successful `Register` of an observer object `l` that is not listed
    anywhere (what `Register`'s "already registered" check is meant to guarantee) with component IDs
    below 256 keeps `ObsOK`, appends `l` to the list of its event type and changes no other list,
    no other object and nothing outside the observer manager.
  * `opObsUnregister_spec` — a successful `Unregister` keeps `ObsOK`, changes only the list of the
    observer's event type (to a swap-removed list, `ObsMgr.removedObs`), no specification and
    nothing outside the observer manager.
  * `mem_removedObs` — the swap-remove at index `idx` of a duplicate-free list removes exactly the
    element at `idx`.

  Kernel-only proofs, core Lean only.
-/
import Ark.Proofs.Callbacks

set_option autoImplicit false

namespace Ark

open World Spec

namespace ObsMgr

theorem added_observers (es : EvtState) (l : Nat) (d : ObsData) (ent : Bool) :
    (es.added l d ent).observers = es.observers ++ [l] := by
  unfold EvtState.added
  simp only []
  split <;> split <;> (try split) <;> rfl

/-- the objects after `AddObserver` -/
theorem addComputed_obj' (m : ObsMgr) (l : Nat) (o : ObsObj) (oid : Nat) (d : ObsData) (x : Nat) :
    (m.addComputed l o oid d).obj x
      = if x = l then { o with data := d, oid := some oid } else m.obj x := by
  unfold addComputed
  simp only [obj_setEvt]
  by_cases hx : x = l
  · subst hx
    simp only [if_true]
    show (m.setObj x { o with data := d, oid := some oid }).obj x = _
    rw [obj_setObj_self]
  · simp only [hx, if_false]
    show (m.setObj l { o with data := d, oid := some oid }).obj x = m.obj x
    rw [obj_setObj_ne _ _ _ _ hx]

/-- `RemoveObserver` changes no specification -/
theorem removeAt_spec (m : ObsMgr) (l oid idx x : Nat) :
    ((m.removeAt l oid idx).obj x).spec = (m.obj x).spec := by
  have key : ∀ (M1 : ObsMgr), M1.objs = AL.insert m.objs l { m.obj l with oid := none } →
      (M1.obj x).spec = (m.obj x).spec := by
    intro M1 h
    have : M1.obj x = (m.setObj l { m.obj l with oid := none }).obj x := by
      simp only [obj, setObj, h]
    rw [this]
    by_cases hx : x = l
    · subst hx; rw [obj_setObj_self]
    · rw [obj_setObj_ne _ _ _ _ hx]
  unfold removeAt
  simp only []
  split <;> split <;> simp only [obj_setEvt] <;> exact key _ rfl

theorem removedES_observers (m : ObsMgr) (es : EvtState) (idx : Nat) (ent : Bool) :
    (removedES m es idx ent).observers = removedObs es.observers idx := by
  unfold removedES
  simp only []
  split <;> rfl

end ObsMgr

/-! ### the swap-remove -/

theorem nodup_set_of_not_mem {l : List Nat} {x : Nat} (h : l.Nodup) (hx : x ∉ l) (i : Nat) :
    (l.set i x).Nodup := by
  induction l generalizing i with
  | nil => exact List.nodup_nil
  | cons a as ih =>
    rw [List.nodup_cons] at h
    cases i with
    | zero =>
      simp only [List.set_cons_zero, List.nodup_cons]
      exact ⟨fun hm => hx (List.mem_cons_of_mem _ hm), h.2⟩
    | succ n =>
      simp only [List.set_cons_succ, List.nodup_cons]
      refine ⟨fun hm => ?_, ih h.2 (fun hm => hx (List.mem_cons_of_mem _ hm)) n⟩
      rcases List.mem_or_eq_of_mem_set hm with h1 | h1
      · exact h.1 h1
      · exact hx (h1 ▸ List.mem_cons_self)

theorem getLast_not_mem_take {l : List Nat} (h : l.Nodup) (hne : l ≠ []) :
    l.getD (l.length - 1) 0 ∉ l.take (l.length - 1) := by
  intro hm
  obtain ⟨i, hi, hget⟩ := List.getElem_of_mem hm
  have hi' : i < l.length - 1 := by simpa [List.length_take] using hi
  have hlen : 0 < l.length := List.length_pos_iff.mpr hne
  have h1 : l[i]'(by omega) = l.getD (l.length - 1) 0 := by
    rw [← hget, List.getElem_take]
  rw [List.getD_eq_getElem?_getD, List.getElem?_eq_getElem (by omega), Option.getD_some] at h1
  have := (List.getElem_inj h).mp h1
  omega

/-- the swap-removed list, when something is removed: the initial segment with position `idx`
    overwritten by the last element -/
theorem removedObs_eq (obs : List Nat) (idx : Nat) :
    ObsMgr.removedObs obs idx =
      if idx = obs.length - 1 then obs.take (obs.length - 1)
      else (obs.take (obs.length - 1)).set idx (obs.getD (obs.length - 1) 0) := by
  unfold ObsMgr.removedObs
  simp only []
  by_cases h : idx = obs.length - 1
  · simp [h]
  · have : (idx != obs.length - 1) = true := by simp [h]
    rw [if_pos this, if_neg h, List.take_set_of_le (Nat.le_refl _), List.take_set]

theorem removedObs_nodup {obs : List Nat} (h : obs.Nodup) (idx : Nat) :
    (ObsMgr.removedObs obs idx).Nodup := by
  rw [removedObs_eq]
  have ht : (obs.take (obs.length - 1)).Nodup := h.sublist (List.take_sublist _ _)
  split
  · exact ht
  · by_cases hne : obs = []
    · subst hne; exact List.nodup_nil
    · exact nodup_set_of_not_mem ht (getLast_not_mem_take h hne) idx

/-- **the swap-remove removes exactly the element at `idx`** (duplicate-free list, valid index) -/
theorem mem_removedObs {obs : List Nat} (h : obs.Nodup) {idx : Nat} (hidx : idx < obs.length)
    (x : Nat) : x ∈ ObsMgr.removedObs obs idx ↔ x ∈ obs ∧ obs[idx]? ≠ some x := by
  have hlen : 0 < obs.length := by omega
  have hne : obs ≠ [] := List.length_pos_iff.mp hlen
  rw [removedObs_eq]
  have hlast : obs.getD (obs.length - 1) 0 = obs[obs.length - 1]'(by omega) := by
    rw [List.getD_eq_getElem?_getD, List.getElem?_eq_getElem (by omega), Option.getD_some]
  -- every element is in the initial segment or is the last one
  have hsplit : ∀ y, y ∈ obs ↔ y ∈ obs.take (obs.length - 1) ∨ y = obs[obs.length - 1]'(by omega) := by
    intro y
    constructor
    · intro hy
      obtain ⟨i, hi, hget⟩ := List.getElem_of_mem hy
      by_cases hil : i = obs.length - 1
      · right; subst hil; exact hget.symm
      · left
        rw [← hget]
        have : i < (obs.take (obs.length - 1)).length := by simp [List.length_take]; omega
        have h2 := List.getElem_mem this
        rwa [List.getElem_take] at h2
    · rintro (hy | hy)
      · exact List.mem_of_mem_take hy
      · rw [hy]; exact List.getElem_mem _
  have hlastnot := getLast_not_mem_take h hne
  rw [hlast] at hlastnot
  split
  · rename_i hil
    subst hil
    rw [hsplit x, List.getElem?_eq_getElem (by omega)]
    constructor
    · intro hx
      refine ⟨Or.inl hx, fun heq => ?_⟩
      have := Option.some.inj heq
      exact hlastnot (this ▸ hx)
    · rintro ⟨hx | hx, hneq⟩
      · exact hx
      · exact absurd (by rw [hx]) hneq
  · rename_i hil
    have hidx' : idx < (obs.take (obs.length - 1)).length := by simp [List.length_take]; omega
    rw [hlast, List.getElem?_eq_getElem hidx]
    constructor
    · intro hx
      rcases List.mem_or_eq_of_mem_set hx with h1 | h1
      · refine ⟨List.mem_of_mem_take h1, fun heq => ?_⟩
        -- x sits at position idx of obs and somewhere in the overwritten segment
        have hxi : obs[idx] = x := Option.some.inj heq
        obtain ⟨j, hj, hgj⟩ := List.getElem_of_mem hx
        rw [List.length_set] at hj
        rw [List.getElem_set] at hgj
        split at hgj
        · -- j = idx: then x is the last element, but it equals obs[idx], idx ≠ last
          rw [← hxi] at hgj
          have := (List.getElem_inj h).mp hgj
          omega
        · rename_i hji
          rw [List.getElem_take, ← hxi] at hgj
          have := (List.getElem_inj h).mp hgj
          omega
      · refine ⟨by rw [h1]; exact List.getElem_mem _, fun heq => ?_⟩
        have hxi : obs[idx] = x := Option.some.inj heq
        rw [h1] at hxi
        have := (List.getElem_inj h).mp hxi
        omega
    · rintro ⟨hx, hneq⟩
      rcases (hsplit x).mp hx with h1 | h1
      · -- x in the initial segment, not at idx: it survives the overwrite
        obtain ⟨j, hj, hgj⟩ := List.getElem_of_mem h1
        have hji : j ≠ idx := by
          intro hh
          subst hh
          rw [List.getElem_take] at hgj
          exact hneq (by rw [hgj])
        have hj' : j < ((obs.take (obs.length - 1)).set idx (obs[obs.length - 1]'(by omega))).length := by
          rw [List.length_set]; exact hj
        have := List.getElem_mem hj'
        rw [List.getElem_set, if_neg (Ne.symm hji), hgj] at this
        exact this
      · rw [h1]
        exact List.mem_set hidx' _

/-! ### `Observer.Register` / `Observer.Unregister` -/

/-- the observer manager after `AddObserver` of object `l` with computed data `d` -/
def ObsMgr.registered (m : ObsMgr) (l : Nat) (d : ObsData) : ObsMgr :=
  let o := m.obj l
  let m1 : ObsMgr := { m with pool := (m.pool.get).1 }
  (m1.setObj l { o with oid := some (m.pool.get).2 }).addComputed l o (m.pool.get).2 d

/-- what a successful `Register` did -/
theorem opObsRegister_ok {w w' : World} {l : Nat} (hok : opObsRegister l w = .ok () w') :
    ∃ d, ObsMgr.computeData (w.obs.obj l).spec (fun c => w.isRelComp c) = some d ∧
      w' = { w with obs := w.obs.registered l d } := by
  simp only [opObsRegister, bind, M.bind, M.get, M.assert] at hok
  split at hok
  · split at hok
    · cases hd : ObsMgr.computeData (w.obs.obj l).spec (fun c => w.isRelComp c) with
      | none => rw [hd] at hok; cases hok
      | some d =>
        rw [hd] at hok
        refine ⟨d, rfl, ?_⟩
        simp only [M.set] at hok
        injection hok with _ h
        exact h.symm
    · cases hok
  · cases hok

/-- **`Register` keeps the setting**: for an observer object that is listed nowhere, with
    component IDs below 256. -/
theorem opObsRegister_spec {w w' : World} {l : Nat} (h : ObsOK w.obs)
    (hok : opObsRegister l w = .ok () w') (hids : IdsOK (w.obs.obj l).spec)
    (hfresh : ∀ evt : Nat, l ∉ (w.obs.evt evt).observers) :
    ObsOK w'.obs ∧ w' = { w with obs := w'.obs } ∧
    (w'.obs.evt (w.obs.obj l).spec.event).observers
      = (w.obs.evt (w.obs.obj l).spec.event).observers ++ [l] ∧
    (∀ evt : Nat, evt ≠ (w.obs.obj l).spec.event →
      (w'.obs.evt evt).observers = (w.obs.evt evt).observers) ∧
    (∀ x : Nat, (w'.obs.obj x).spec = (w.obs.obj x).spec) := by
  obtain ⟨d, hd, hw'⟩ := opObsRegister_ok hok
  -- the manager before `addComputed`: same lists, same data, same specifications
  let m0 : ObsMgr := { w.obs with pool := (w.obs.pool.get).1 }
  let o1 : ObsObj := { (w.obs.obj l) with oid := some (w.obs.pool.get).2 }
  let m1 : ObsMgr := m0.setObj l o1
  have hobs : w'.obs = m1.addComputed l (w.obs.obj l) (w.obs.pool.get).2 d := by rw [hw']; rfl
  have hevt1 : ∀ evt, m1.evt evt = w.obs.evt evt := fun evt => rfl
  have hobj1 : ∀ x, m1.obj x = if x = l then o1 else w.obs.obj x := by
    intro x
    by_cases hx : x = l
    · subst hx; simp only [if_true]; exact ObsMgr.obj_setObj_self _ _ _
    · simp only [hx, if_false]
      exact ObsMgr.obj_setObj_ne _ _ _ _ hx
  have hdata1 : ∀ x, (m1.obj x).data = (w.obs.obj x).data := by
    intro x; rw [hobj1]; split
    · rename_i hx; subst hx; rfl
    · rfl
  have hspec1 : ∀ x, (m1.obj x).spec = (w.obs.obj x).spec := by
    intro x; rw [hobj1]; split
    · rename_i hx; subst hx; rfl
    · rfl
  have hagg1 : ∀ evt, AggInv m1 evt := by
    intro evt
    exact AggInvES.congr (fun x _ => hdata1 x) (h.agg evt)
  have hwf : d.WF := ObsMgr.computeData_wf _ _ d hids hd
  have hdd : d = dataOf (w.obs.obj l).spec := computeData_eq _ _ d hd
  have hobjN : ∀ x, w'.obs.obj x
      = if x = l then { (w.obs.obj l) with data := d, oid := some (w.obs.pool.get).2 }
        else w.obs.obj x := by
    intro x
    rw [hobs, ObsMgr.addComputed_obj']
    split
    · rfl
    · rename_i hx; rw [hobj1, if_neg hx]
  have hspecN : ∀ x, (w'.obs.obj x).spec = (w.obs.obj x).spec := by
    intro x; rw [hobjN]; split
    · rename_i hx; subst hx; rfl
    · rfl
  have hevtSelf : (w'.obs.evt (w.obs.obj l).spec.event).observers
      = (w.obs.evt (w.obs.obj l).spec.event).observers ++ [l] := by
    rw [hobs, ObsMgr.addComputed_evt_self, ObsMgr.added_observers, hevt1]
  have hevtNe : ∀ evt, evt ≠ (w.obs.obj l).spec.event → w'.obs.evt evt = w.obs.evt evt := by
    intro evt hne
    rw [hobs, ObsMgr.addComputed_evt_ne _ _ _ _ _ _ hne, hevt1]
  refine ⟨ObsOK.mk ?_ ?_ ?_, ?_, hevtSelf, fun evt hne => by rw [hevtNe evt hne], hspecN⟩
  · intro evt
    rw [hobs]
    exact AggInv.addComputed l _ _ d hwf (fun _ => by rw [hevt1]; exact hfresh evt) (hagg1 evt)
  · intro evt x hx
    by_cases hev : evt = (w.obs.obj l).spec.event
    · subst hev
      rw [hevtSelf] at hx
      rcases List.mem_append.mp hx with hx | hx
      · have hxl : x ≠ l := fun hh => hfresh _ (hh ▸ hx)
        rw [hobjN, if_neg hxl]
        exact h.reg _ x hx
      · have hxl : x = l := by simpa using hx
        subst hxl
        rw [hobjN, if_pos rfl]
        exact ⟨rfl, hids, hdd⟩
    · rw [hevtNe evt hev] at hx
      have hxl : x ≠ l := fun hh => hfresh _ (hh ▸ hx)
      rw [hobjN, if_neg hxl]
      exact h.reg _ x hx
  · intro evt
    by_cases hev : evt = (w.obs.obj l).spec.event
    · subst hev
      rw [hevtSelf]
      rw [List.nodup_append]
      refine ⟨h.nodup _, by simp, fun a ha b hb => ?_⟩
      have : b = l := by simpa using hb
      subst this
      exact fun hab => hfresh _ (hab ▸ ha)
    · rw [hevtNe evt hev]; exact h.nodup evt
  · rw [hw']

/-- what a successful `Unregister` did -/
theorem opObsUnregister_ok {w w' : World} {l : Nat} (hok : opObsUnregister l w = .ok () w') :
    ∃ oid idx, (w.obs.obj l).oid = some oid ∧ AL.find? w.obs.indices oid = some idx ∧
      w' = { w with obs := w.obs.removeAt l oid idx } := by
  simp only [opObsUnregister, bind, M.bind, M.get] at hok
  cases ho : (w.obs.obj l).oid with
  | none => rw [ho] at hok; cases hok
  | some oid =>
    rw [ho] at hok
    simp only at hok
    cases hi : AL.find? w.obs.indices oid with
    | none => rw [hi] at hok; cases hok
    | some idx =>
      rw [hi] at hok
      simp only [M.set] at hok
      injection hok with _ h
      exact ⟨oid, idx, rfl, hi, h.symm⟩

/-- **`Unregister` keeps the setting**; only the list of the observer's event type changes (by
    the swap-remove at the index the manager recorded for it). -/
theorem opObsUnregister_spec {w w' : World} {l : Nat} (h : ObsOK w.obs)
    (hok : opObsUnregister l w = .ok () w') :
    ObsOK w'.obs ∧ w' = { w with obs := w'.obs } ∧
    (∃ oid idx, (w.obs.obj l).oid = some oid ∧ AL.find? w.obs.indices oid = some idx ∧
      (w'.obs.evt (w.obs.obj l).spec.event).observers
        = ObsMgr.removedObs (w.obs.evt (w.obs.obj l).spec.event).observers idx) ∧
    (∀ evt : Nat, evt ≠ (w.obs.obj l).spec.event →
      (w'.obs.evt evt).observers = (w.obs.evt evt).observers) ∧
    (∀ x : Nat, (w'.obs.obj x).spec = (w.obs.obj x).spec) := by
  obtain ⟨oid, idx, ho, hi, hw'⟩ := opObsUnregister_ok hok
  have hobs : w'.obs = w.obs.removeAt l oid idx := by rw [hw']
  have hself : (w'.obs.evt (w.obs.obj l).spec.event).observers
      = ObsMgr.removedObs (w.obs.evt (w.obs.obj l).spec.event).observers idx := by
    rw [hobs, ObsMgr.removeAt_evt_self, ObsMgr.removedES_observers]
  have hne : ∀ evt, evt ≠ (w.obs.obj l).spec.event → w'.obs.evt evt = w.obs.evt evt := by
    intro evt hev; rw [hobs, ObsMgr.removeAt_evt_ne _ _ _ _ _ hev]
  have hspec : ∀ x, (w'.obs.obj x).spec = (w.obs.obj x).spec := by
    intro x; rw [hobs]; exact ObsMgr.removeAt_spec _ _ _ _ x
  have hdata : ∀ x, (w'.obs.obj x).data = (w.obs.obj x).data := by
    intro x; rw [hobs]; exact ObsMgr.removeAt_data _ _ _ _ x
  refine ⟨ObsOK.mk ?_ ?_ ?_, by rw [hw'], ⟨oid, idx, ho, hi, hself⟩,
    fun evt hev => by rw [hne evt hev], hspec⟩
  · intro evt; rw [hobs]; exact AggInv.removeAt l oid idx (h.agg evt)
  · intro evt x hx
    have hx' : x ∈ (w.obs.evt evt).observers := by
      by_cases hev : evt = (w.obs.obj l).spec.event
      · subst hev; rw [hself] at hx; exact ObsMgr.removedObs_subset _ _ x hx
      · rw [hne evt hev] at hx; exact hx
    obtain ⟨a1, a2, a3⟩ := h.reg evt x hx'
    rw [hspec, hdata]
    exact ⟨a1, a2, a3⟩
  · intro evt
    by_cases hev : evt = (w.obs.obj l).spec.event
    · subst hev; rw [hself]; exact removedObs_nodup (h.nodup _) idx
    · rw [hne evt hev]; exact h.nodup evt

end Ark

/-! ### establishing the setting for a concrete world: a decidable check per registration -/

namespace Ark

open World Spec

theorem evt_observers_of_events {m : ObsMgr} {l : Nat}
    (h : ∀ p ∈ m.events, l ∉ p.2.observers) (evt : Nat) : l ∉ (m.evt evt).observers := by
  unfold ObsMgr.evt
  have key : ∀ (es : AL EvtState), (∀ p ∈ es, l ∉ p.2.observers) →
      l ∉ ((AL.find? es evt).getD {}).observers := by
    intro es
    induction es with
    | nil => intro _; simp [AL.find?]
    | cons p rest ih =>
      intro hh
      obtain ⟨k, v⟩ := p
      simp only [AL.find?]
      split
      · exact hh (k, v) List.mem_cons_self
      · exact ih (fun q hq => hh q (List.mem_cons_of_mem _ hq))
  exact key _ h

theorem scriptsIn_of_objs {m : ObsMgr} {S : Probe → Prop}
    (h : ∀ q ∈ m.objs, ∀ p ∈ q.2.spec.script, S p) : ScriptsIn m S := by
  intro l
  unfold ObsMgr.obj
  have key : ∀ (os : AL ObsObj), (∀ q ∈ os, ∀ p ∈ q.2.spec.script, S p) →
      ∀ p ∈ ((AL.find? os l).getD { spec := { event := 0 } }).spec.script, S p := by
    intro os
    induction os with
    | nil => intro _ p hp; simp [AL.find?] at hp
    | cons q rest ih =>
      intro hh
      obtain ⟨k, v⟩ := q
      simp only [AL.find?]
      split
      · exact hh (k, v) List.mem_cons_self
      · exact ih (fun q hq => hh q (List.mem_cons_of_mem _ hq))
  exact key _ h

/-- a manager without registrations (the observer objects may exist already) is in the setting -/
theorem obsOK_of_no_events {m : ObsMgr} (h : m.events = []) : ObsOK m := by
  have hevt : ∀ evt, m.evt evt = {} := by
    intro evt; simp [ObsMgr.evt, h]
  refine ⟨fun evt => ?_, fun evt l hl => ?_, fun evt => ?_⟩
  · unfold AggInv; rw [hevt]; exact AggInvES.empty _ _
  · rw [hevt] at hl; cases hl
  · rw [hevt]; exact List.nodup_nil

/-- did the operation succeed -/
def Res.isOk {σ α : Type} : Res σ α → Bool
  | .ok _ _ => true
  | .panic _ _ => false

/-- the (decidable) side conditions of `opObsRegister_spec` for registering `l` on `w` -/
def RegOK (l : Nat) (w : World) : Prop :=
  (opObsRegister l w).isOk = true ∧ IdsOK (w.obs.obj l).spec ∧
    ∀ p ∈ w.obs.events, l ∉ p.2.observers

instance (l : Nat) (w : World) : Decidable (RegOK l w) := by unfold RegOK IdsOK; infer_instance

/-- register the observer objects `ls` one after the other -/
def regAll : List Nat → World → World
  | [], w => w
  | l :: ls, w => regAll ls (opObsRegister l w).state

/-- the side conditions along `regAll` -/
def RegAllOK : List Nat → World → Prop
  | [], _ => True
  | l :: ls, w => RegOK l w ∧ RegAllOK ls (opObsRegister l w).state

instance : ∀ (ls : List Nat) (w : World), Decidable (RegAllOK ls w)
  | [], _ => isTrue trivial
  | l :: ls, w =>
    have := instDecidableRegAllOK ls (opObsRegister l w).state
    by unfold RegAllOK; infer_instance

/-- **registrations establish the setting**: if the (decidable) side conditions hold along the
    way, the world after registering `ls` is the same world with an observer manager satisfying
    `ObsOK` -/
theorem regAll_spec : ∀ (ls : List Nat) (w : World), ObsOK w.obs → RegAllOK ls w →
    ObsOK (regAll ls w).obs ∧ regAll ls w = { w with obs := (regAll ls w).obs }
  | [], w, h, _ => ⟨h, rfl⟩
  | l :: ls, w, h, hr => by
    obtain ⟨⟨h1, h2, h3⟩, hrest⟩ := hr
    cases hop : opObsRegister l w with
    | panic k s => rw [hop] at h1; cases h1
    | ok u w1 =>
      cases u
      obtain ⟨a1, a2, _⟩ := opObsRegister_spec h hop h2 (evt_observers_of_events h3)
      have hst : (opObsRegister l w).state = w1 := by rw [hop]; rfl
      rw [hst] at hrest
      obtain ⟨b1, b2⟩ := regAll_spec ls w1 a1 hrest
      simp only [regAll]
      rw [hst]
      refine ⟨b1, ?_⟩
      have e2 := congrArg (fun y : World => ({ y with obs := (regAll ls w1).obs } : World)) a2
      exact (b2.trans e2).trans rfl

end Ark
