/-
  Ark.Proofs.CallbacksSeen — C09 at world level: what can be observed on the world a callback
  sees.

  * `drain_exact_untyped_obs`, `drain_exact_of_archs_obs` — the entity-set statement of C03
    (Ark/Proofs/QueryExact.lean) on a world WITH observers (`CInvObs`): a complete iteration of an
    uncached query visits exactly the alive entities whose mask matches, each once.
  * `LockCycle.nested` — a second `Lock()`/`Unlock()` cycle inside the first one (a query opened
    by a callback that runs under the removal lock) goes through under the lock invariant.
  * `seen_before_*` — the world a REMOVAL callback sees (`w1.reframe w.obs w.log l1`, Ark/Proofs/
    CallbacksOps.lean): locked; every handle as alive, every entity with the component set and the
    values it had before the operation; structure-changing operations are rejected; a query finds
    the entity exactly once, at its old row.
  * `lookRec`, `probe_readOnly` — the callback runner of the harness (`World.runProbe`, any fuel
    ≥ 1) restricted to `look` probes is read-only, log-blind and writes no `cb` records.

  Kernel-only proofs, core Lean only.
-/
import Ark.Proofs.CallbacksOps

set_option autoImplicit false

namespace Ark

open World Spec Ark.Props.C01World QueryExact Drain

/-! ## 1. queries on a world with observers -/

namespace QueryExact

theorem TablesOK.of_noObs {w : World} {f : Filter} {ts : List Nat} (h : TablesOK w.noObs f ts) :
    TablesOK w f ts := ⟨h.nodup, h.sound, h.complete⟩

theorem ArchsOK.to_noObs {w : World} {f : Filter} {as : List Nat} (h : ArchsOK w f as) :
    ArchsOK w.noObs f as := ⟨h.nodup, h.lt, h.complete⟩

theorem ExactVisits.of_noObs {w : World} {fl : List Nat} {f : Filter} {vs : List Visit}
    (h : ExactVisits w.noObs fl f vs) : ExactVisits w fl f vs :=
  ⟨h.nodup, h.sound, h.complete, h.data⟩

end QueryExact

/-- `drain_exact_of_selected` on a world with observers -/
theorem drain_exact_of_selected_obs {w : World} {fl : List Nat} (h : CInvObs w fl) (fo : FilterObj)
    {l1 l2 : Lock} {b : Nat} (hu : l1.unlock b = some l2) {q : QueryObj}
    (ho : qOpen fo [] w = .ok q (w.withLocks l1)) (hqb : q.lockBit = b) {ts : List Nat}
    (hsel : qSelected (w.withLocks l1) q = some ts) (hok : TablesOK w fo.filter ts) :
    ∃ visits, QueryExactOn w fl fo (w.withLocks l1) q visits (w.withLocks l2) := by
  obtain ⟨w1, hw1⟩ : ∃ w1 : World, w1 = w.withLocks l1 := ⟨_, rfl⟩
  rw [← hw1] at ho hsel ⊢
  have hrows : rowsOf w1 = rowsOf w := by rw [hw1]; rfl
  have hw2 : ({ w1 with locks := l2 } : World) = w.withLocks l2 := by rw [hw1]; rfl
  obtain ⟨visits, hd, h3, h4⟩ := drain_rows_monadic fo [] w w1 q _ l2 ho hsel hok.nodup
    (by rw [hqb, hw1]; exact hu)
  have hget : (fun p : Nat × Nat => (w1.tbl p.1).getEntity p.2) =
      (fun p : Nat × Nat => (w.tbl p.1).getEntity p.2) := by rw [hw1]; rfl
  rw [hrows] at h3 h4
  rw [hget] at h4
  rw [hw2] at hd
  have hexp : expected w1 q = some (ts.flatMap (rowsOf w)) := by
    simp [expected, hsel, hrows]
  have hlen : visits.length = (ts.flatMap (rowsOf w)).length := by
    rw [← h3, List.length_map]
  have hex : ExactVisits w fl fo.filter visits :=
    ExactVisits.of_noObs (exact_of_rows (w := w.noObs) h fo.filter ts
      ⟨hok.nodup, hok.sound, hok.complete⟩ visits h3 h4)
  refine ⟨visits, ho, hd, hex, ?_, ?_, ?_⟩
  · simp only [qCount, hsel, Option.map_some]
    rw [hlen, flatMap_rowsOf_length, foldl_add_eq_sum, hw1]
    rfl
  · intro i hi
    have hi' : i < (ts.flatMap (rowsOf w)).length := by
      rw [← hlen]; exact hi
    rw [(entityAt_eq_visit w1 q _ i hexp).1 hi']
    have : visits[i].e = (visits.map (·.e))[i]'(by rw [List.length_map]; exact hi) := by
      rw [List.getElem_map]
    rw [this]
    simp only [h4, List.getElem_map]
    exact congrArg (fun x => some (some x)) (congrFun hget _)
  · intro i hi
    exact (entityAt_eq_visit w1 q _ i hexp).2 (by rw [← hlen]; exact hi)

/-- `drain_exact_of_archs` on a world with observers -/
theorem drain_exact_of_archs_obs {w : World} {fl : List Nat} (h : CInvObs w fl) (fo : FilterObj)
    (hc : fo.cache = none) {l1 l2 : Lock} {b : Nat} (hL : LockCycle w.locks l1 b l2)
    (hok : ArchsOK w fo.filter (w.archList (rareOf fo w))) :
    ∃ q visits, QueryExactOn w fl fo (w.withLocks l1) q visits (w.withLocks l2) := by
  have ho : qOpen fo [] w = .ok (openedQ fo w b) (w.withLocks l1) :=
    qOpen_uncached fo w l1 b hc hL.lock
  have hsel : qSelected (w.withLocks l1) (openedQ fo w b) =
      some (selTables w fo.filter (w.archList (rareOf fo w))) := by
    rw [qSelected_noRel (w.withLocks l1) (openedQ fo w b) rfl]
    · rfl
    · intro a ha
      exact CInv.noRelArch' h (hok.lt a ha)
  have htab : TablesOK w fo.filter (selTables w fo.filter (w.archList (rareOf fo w))) :=
    TablesOK.of_noObs (TablesOK.of_archs (w := w.noObs) h hok.to_noObs)
  obtain ⟨visits, Q⟩ := drain_exact_of_selected_obs h fo hL.unlock ho rfl hsel htab
  exact ⟨_, visits, Q⟩

/-- **the untyped walk on a world with observers** (`UnsafeFilter`, or a typed filter without
    type parameters): a complete iteration visits exactly the matching alive entities, each once,
    at the row the entity index records, and changes nothing but the lock's bit pool. -/
theorem drain_exact_untyped_obs {w : World} {fl : List Nat} (h : CInvObs w fl) (fo : FilterObj)
    (hc : fo.cache = none) (hu : fo.typed = false ∨ fo.ids = [])
    {l1 l2 : Lock} {b : Nat} (hL : LockCycle w.locks l1 b l2) :
    ∃ q visits, QueryExactOn w fl fo (w.withLocks l1) q visits (w.withLocks l2) := by
  apply drain_exact_of_archs_obs h fo hc hL
  have : rareOf fo w = none := by
    rcases hu with hu | hu <;> simp [rareOf, hu]
  rw [this]
  exact ArchsOK.all w fo.filter

/-! ## 2. the lock: the cycle around removal callbacks, and a query inside it -/

/-- under the lock invariant with fewer than 64 outstanding bits a `Lock()`/`Unlock()` cycle goes
    through; in between the bit handed out is outstanding as well; afterwards the 64-bit mask is
    the mask before -/
theorem LockCycle.of_linv' {L : Lock} {out fl : List Nat} (g : Lock.LInv ⟨L, out⟩ fl)
    (h64 : out.length < 64) :
    ∃ l1 b l2 fl1 fl2, LockCycle L l1 b l2 ∧ Lock.LInv ⟨l1, b :: out⟩ fl1 ∧ l2.locks = L.locks ∧
      Lock.LInv ⟨l2, out⟩ fl2 := by
  rcases Lock.lock_spec _ _ g with ⟨_, h⟩ | ⟨l1, b, hl, hb64, hbn, _, fl1, g1⟩
  · simp only at h; omega
  · rcases Lock.unlock_spec _ _ g1 b with ⟨_, hn⟩ | ⟨l2, hu, _, g2⟩
    · exact absurd List.mem_cons_self hn
    · have herase : (b :: out).erase b = out := by simp
      simp only [herase] at g2
      refine ⟨l1, b, l2, fl1, b :: fl1, ⟨hl, hu⟩, g1, ?_, g2⟩
      apply BitVec.eq_of_getLsbD_eq
      intro i hi
      have h1 := g2.locks i hi
      have h2 := g.locks i hi
      simp only at h1 h2
      cases hx : l2.locks.getLsbD i with
      | true => exact (h2.mpr (h1.mp hx)).symm
      | false =>
        cases hy : L.locks.getLsbD i with
        | false => rfl
        | true => rw [h1.mpr (h2.mp hy)] at hx; cases hx

/-- an unlocked lock satisfying the invariant has no outstanding bit -/
theorem Lock.LInv.out_nil_of_unlocked {L : Lock} {out fl : List Nat} (g : Lock.LInv ⟨L, out⟩ fl)
    (hl : L.isLocked = false) : out = [] := by
  cases out with
  | nil => rfl
  | cons b rest =>
    exfalso
    have hb := (g.locks_iff b).mpr List.mem_cons_self
    simp only [Lock.isLocked, bne_eq_false_iff_eq] at hl
    simp only at hb
    rw [hl] at hb
    simp at hb

/-- **the lock of an unlocked world in a lawful lock state**: the cycle around the removal
    callbacks goes through, and so does a second cycle inside it (a query run by a callback) -/
theorem lockCycle_unlocked {w : World} {out fl : List Nat} (g : Lock.LInv ⟨w.locks, out⟩ fl)
    (hl : w.isLocked = false) :
    ∃ l1 b l2, LockCycle w.locks l1 b l2 ∧ l2.isLocked = false ∧
      (∃ fl2, Lock.LInv ⟨l2, []⟩ fl2) ∧
      ∃ l1' b' l2', LockCycle l1 l1' b' l2' ∧ l2'.locks = l1.locks := by
  have hout := g.out_nil_of_unlocked hl
  subst hout
  obtain ⟨l1, b, l2, fl1, fl2, hL, g1, hlk, g2⟩ := LockCycle.of_linv' g (by simp)
  obtain ⟨l1', b', l2', _, _, hL', _, hlk', _⟩ := LockCycle.of_linv' g1 (by simp)
  refine ⟨l1, b, l2, hL, ?_, ⟨fl2, g2⟩, l1', b', l2', hL', hlk'⟩
  show (l2.locks != 0#64) = false
  rw [hlk]
  exact hl

/-! ## 3. the world a removal callback sees -/

/-- the table lookup that finds everything in place changes nothing -/
theorem Looked.refl {w : World} {fl : List Nat} (h : CInv w fl) : Looked w fl w where
  cinv := h
  entities := rfl
  pool := rfl
  kinds := rfl
  untouched := Untouched.refl w
  tables := fun _ _ => rfl
  tablesLen := ⟨Nat.le_refl _, Nat.le_succ _⟩
  same := fun _ => ⟨fun _ => rfl, rfl⟩
  alive := fun _ => rfl
  masks := fun _ _ => rfl

/-- how often the entity ID `i` is visited -/
def occ (vs : List Visit) (i : Nat) : Nat := (vs.map (·.e.id)).count i

/-- **an exact visit list contains a matching live entity exactly once, at its row** -/
theorem ExactVisits.occ_one {w : World} {fl : List Nat} {f : Filter} {vs : List Visit}
    (h : ExactVisits w fl f vs) {i t r : Nat} (h2 : 2 ≤ i) (hnf : i ∉ fl)
    (hi : w.entities[i]? = some (t, r)) (ht : t ≠ maxU32)
    (hm : f.matchesMask (w.arch (w.tbl t).arch).mask = true) :
    occ vs i = 1 ∧ ∃ v ∈ vs, v.e.id = i ∧ v.table = t ∧ v.row = r := by
  obtain ⟨v, hv, h1, h2', h3⟩ := h.complete i t r h2 hnf hi ht hm
  refine ⟨count_eq_one_of_nodup h.nodup ?_, v, hv, h1, h2', h3⟩
  rw [← h1]
  exact List.mem_map_of_mem (f := fun v : Visit => v.e.id) hv

/-- … and an entity whose mask the filter does not match not at all -/
theorem ExactVisits.occ_zero {w : World} {fl : List Nat} {f : Filter} {vs : List Visit}
    (h : ExactVisits w fl f vs) {i t r : Nat}
    (hi : w.entities[i]? = some (t, r))
    (hm : f.matchesMask (w.arch (w.tbl t).arch).mask = false) : occ vs i = 0 := by
  apply List.count_eq_zero_of_not_mem
  intro hmem
  obtain ⟨v, hv, hvi⟩ := List.mem_map.mp hmem
  obtain ⟨_, _, he, _, _, _, _, hmm⟩ := h.sound v hv
  rw [hvi, hi] at he
  obtain ⟨rfl, rfl⟩ := Prod.mk.inj (Option.some.inj he)
  rw [hm] at hmm
  cases hmm

/-- **what a removal callback sees** (`Remove`, `Exchange`, `RemoveEntity`).  `w1` is the
    observer-free world after the table lookup of the operation (`Looked`; for `RemoveEntity`
    `w1 = w.noObs`); the callback runs on `w1` with the observers and the log of `w` and the lock
    state `l1` of an open `Lock()`/`Unlock()` cycle.  On that world: the lock is held; the
    invariant holds; every handle tests alive as before the operation; every entity has the
    component set and the values it had before the operation (so the components about to be removed
    are still readable with their current values); `NewEntity()` and every other operation
    guarded by `checkLocked` is rejected with the state unchanged. -/
theorem seen_before {w w1 : World} {fl : List Nat} (lk : Looked w.noObs fl w1)
    {l1 l2 : Lock} {b : Nat} (hL : LockCycle w.locks l1 b l2) :
    (w1.reframe w.obs w.log l1).isLocked = true ∧
    CInvObs (w1.reframe w.obs w.log l1) fl ∧
    (∀ x : Ent, (w1.reframe w.obs w.log l1).alive x = w.alive x) ∧
    (∀ j : Nat, SameEnt w (w1.reframe w.obs w.log l1) j) ∧
    (w1.reframe w.obs w.log l1).entities = w.entities ∧
    (∀ run : ProbeRunner, opNewEntity0 run (w1.reframe w.obs w.log l1)
      = .panic .locked (w1.reframe w.obs w.log l1)) := by
  have hlocked : (w1.reframe w.obs w.log l1).isLocked = true := Ark.LockCycle.locked hL
  exact ⟨hlocked, lk.cinv.toObs.reframe _ _ _, lk.alive, lk.same, lk.entities,
    fun run => opNewEntity0_locked run _ hlocked⟩

/-- **a query run by a removal callback finds the entity exactly once**: on the world a removal
    callback sees, a complete iteration of an uncached untyped query (its own lock cycle nested
    in the one of the operation) succeeds, restores everything but the lock's bit pool, and
    visits exactly the alive entities whose mask — their mask BEFORE the operation — matches;
    in particular the entity being changed, once, at the row it had before the operation. -/
theorem seen_before_query {w w1 : World} {fl : List Nat}
    (lk : Looked w.noObs fl w1) {l1 l2 : Lock} {b : Nat} (hL : LockCycle w.locks l1 b l2)
    {l1' l2' : Lock} {b' : Nat} (hL' : LockCycle l1 l1' b' l2') (fo : FilterObj)
    (hc : fo.cache = none) (hu : fo.typed = false ∨ fo.ids = []) :
    ∃ q visits, QueryExactOn (w1.reframe w.obs w.log l1) fl fo
      ((w1.reframe w.obs w.log l1).withLocks l1') q visits
      ((w1.reframe w.obs w.log l1).withLocks l2') :=
  drain_exact_untyped_obs (seen_before lk hL).2.1 fo hc hu hL'

/-- the mask of an entity on the world a removal callback sees is its mask before the operation -/
theorem seen_before_mask {w w1 : World} {fl : List Nat} (h : CInvObs w fl)
    (lk : Looked w.noObs fl w1) (l1 : Lock) {i t r : Nat} (hi : w.entities[i]? = some (t, r))
    (ht : t ≠ maxU32) :
    ((w1.reframe w.obs w.log l1).arch ((w1.reframe w.obs w.log l1).tbl t).arch).mask
      = (w.arch (w.tbl t).arch).mask := by
  obtain ⟨hlt, _, _, halt, _, _⟩ := CInv.table_of_entry h hi ht
  have htb : w1.tbl t = w.tbl t := by
    have := lk.tables t hlt
    simp only [tbl, List.getD_eq_getElem?_getD, this]
    rfl
  show (w1.arch (w1.tbl t).arch).mask = _
  rw [htb]
  exact lk.masks _ halt

/-! ## 4. the callback runner of the harness, restricted to `look` probes -/

/-- what a `look` probe records: liveness of the reported entity, the lock state, its components
    with their values and its relation targets, read through the entity index -/
def lookRec (w : World) (_l : Nat) (e : Ent) (p : Probe) : List LogEv :=
  match p with
  | .look =>
    if w.alive e then
      [.look true w.isLocked
        (((w.tbl (w.index e.id).1).ids.map fun c =>
          (c, ((w.tbl (w.index e.id).1).getComp c (w.index e.id).2).getD 0)))
        ((((w.tbl (w.index e.id).1).ids.zip (w.tbl (w.index e.id).1).targets).zip
            (w.tbl (w.index e.id).1).isRel).filterMap
          fun x => if x.2 then some (x.1.1, x.1.2) else none)]
    else [.look false w.isLocked [] []]
  | _ => []

/-- **the harness' runner is read-only on `look` probes** (for every nesting fuel ≥ 1) -/
theorem runProbe_readOnly (fuel : Nat) : ReadOnly (runProbe (fuel + 1)) (· = Probe.look) lookRec := by
  intro l e p w hp
  subst hp
  simp only [runProbe, bind, M.bind, M.get, lookRec]
  cases ha : w.alive e with
  | true =>
    simp only [if_true, logEv_eq]
  | false => simp only [Bool.false_eq_true, if_false, logEv_eq]

theorem probe_readOnly : ReadOnly World.probe (· = Probe.look) lookRec := runProbe_readOnly 3

theorem lookRec_logBlind : LogBlind lookRec := by
  intro w lg l e p
  cases p <;> rfl

theorem lookRec_noCb : NoCb lookRec := by
  intro w l e p ev hev
  cases p <;> simp only [lookRec] at hev
  · split at hev
    · simp only [List.mem_singleton] at hev; subst hev; rfl
    · simp only [List.mem_singleton] at hev; subst hev; rfl
  all_goals cases hev

/-- an abstract observing runner: every probe records `f` of the world it runs on -/
def observe (f : World → Nat → Ent → LogEv) : ProbeRunner :=
  fun l e _ w => .ok () { w with log := f w l e :: w.log }

theorem observe_readOnly (f : World → Nat → Ent → LogEv) :
    ReadOnly (observe f) (fun _ => True) (fun w l e _ => [f w l e]) :=
  fun _ _ _ _ _ => rfl

end Ark
