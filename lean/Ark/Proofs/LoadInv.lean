/-
  Ark.Proofs.LoadInv — property C17 over histories, part 2: the world `LoadEntities` builds.

  `LoadEntities` installs the dumped pool, re-makes the entity index and the target flags with
  zero values, extends table 0 and adds the alive handles to it one by one.

  * `LoadLoop`, `LoadLoop.step`, `loadLoop` — the loop: after the prefix `done` of `d.alive`, table 0
    holds the handles of `done` in order (everything else about it unchanged), the index maps
    `done[j]` to `(0, j)` and is untouched elsewhere.
  * `Loaded s fl t wL` — **what holds of the loaded world** `wL` (dump of the machine state `s`
    with free list `fl`, loaded into the empty machine state `t`): registry, archetypes and all
    tables but table 0 are those of `t`; the pool has the core of the source, satisfies the pool
    invariant with the source's free list and the ghost invariant with the source's issued / live
    handles; `SInv`; index and target flags have the pool's length, no target flag is set; every
    alive handle of the source sits — with its generation — in a row of table 0, indexed to that
    row, every row of table 0 holds such a handle, all other tables are empty; the specification
    of the loaded world is the source's with all components dropped (`EntOK … []`).
    `loaded_wf` proves it.
  * `fixDead`, `Loaded.normalised`, `reach_loaded_normalised` — with the index entries of the dead
    IDs set to `(maxU32, 0)` the loaded world satisfies the full machine invariant `HInv` (source's
    handles, source's specification with all components dropped).
  * **Deviation from `CInv`** (`Loaded.dead`): the index entry of a reserved or free ID is the
    zero value `(table 0, row 0)`, not `(maxU32, _)` as `NewWorld`, `RemoveEntity` and `Reset` leave
    it — `CInv.reservedUnindexed` / `freeUnindexed` and `IdxInv.idxRow` for dead IDs do NOT hold
    of a loaded world (`Ark.Props.C17Hist` has the concrete world).  No operation of the model
    reads the index entry of a dead ID before overwriting it (every access is preceded by the
    `Alive` check), and the Go code never compares against `maxTableID`.

  Kernel-only proofs, core Lean only.
-/
import Ark.Proofs.LoadHist

set_option autoImplicit false

namespace Ark

open World Ark.Props.C01World QueryExact

namespace World

/-! ## 1. the loop -/

/-- the state of the loop of `LoadEntities` after the prefix `done` of the alive list
    (`w0` = the world before the loop) -/
structure LoadLoop (w0 : World) (done : List Nat) (w : World) : Prop where
  pool : w.pool = w0.pool
  tlen : w.tables.length = w0.tables.length
  tne : ∀ (t : Nat), t ≠ 0 → w.tbl t = w0.tbl t
  shape : (w.tbl 0).Shape
  smeta : Table.SameMeta (w0.tbl 0) (w.tbl 0)
  len : (w.tbl 0).len = done.length
  row : ∀ (j : Nat) (hj : j < done.length),
    (w.tbl 0).getEntity j = w0.pool.ents.getD done[j] default
  elen : w.entities.length = w0.entities.length
  idxDone : ∀ (j : Nat) (hj : j < done.length), w.entities[done[j]]? = some (0, j)
  idxOther : ∀ (i : Nat), i ∉ done → w.entities[i]? = w0.entities[i]?

theorem LoadLoop.zero (w0 : World) (hs : (w0.tbl 0).Shape) (hl : (w0.tbl 0).len = 0) :
    LoadLoop w0 [] w0 where
  pool := rfl
  tlen := rfl
  tne := fun _ _ => rfl
  shape := hs
  smeta := Table.SameMeta.refl _
  len := hl
  row := fun j hj => absurd hj (Nat.not_lt_zero j)
  elen := rfl
  idxDone := fun j hj => absurd hj (Nat.not_lt_zero j)
  idxOther := fun _ _ => rfl

theorem loadStep_tbl (w : World) (x t : Nat) :
    (loadStep w x).tbl t =
      (w.setTbl 0 ((w.tbl 0).add (w.pool.ents.getD x default)).1).tbl t := rfl

theorem loadStep_entities (w : World) (x : Nat) :
    (loadStep w x).entities = w.entities.set (w.pool.ents.getD x default).id
      (0, (w.tbl 0).len) := rfl

theorem LoadLoop.step {w0 w : World} {done : List Nat} (h : LoadLoop w0 done w)
    (h0 : 0 < w0.tables.length) {x : Nat} (hid : (w0.pool.ents.getD x default).id = x)
    (hx : x < w0.entities.length) (hnd : x ∉ done) (hb : done.length + 1 < 2 ^ 32) :
    LoadLoop w0 (done ++ [x]) (loadStep w x) := by
  have hl0 : 0 < w.tables.length := by rw [h.tlen]; exact h0
  have hb' : (w.tbl 0).len + 1 < 2 ^ 32 := by rw [h.len]; exact hb
  have hT0 : (loadStep w x).tbl 0 = ((w.tbl 0).add (w0.pool.ents.getD x default)).1 := by
    rw [loadStep_tbl, setTbl_tbl_self _ hl0, h.pool]
  have hE : (loadStep w x).entities = w.entities.set x (0, done.length) := by
    rw [loadStep_entities, h.pool, hid, h.len]
  have hxl : x < w.entities.length := by rw [h.elen]; exact hx
  refine
    { pool := h.pool
      tlen := by
        show (w.tables.set 0 _).length = _
        rw [List.length_set]; exact h.tlen
      tne := fun t ht => by
        rw [loadStep_tbl, setTbl_tbl_ne w _ (fun e => ht e.symm)]; exact h.tne t ht
      shape := by rw [hT0]; exact Table.add_shape h.shape _ hb'
      smeta := by rw [hT0]; exact h.smeta.trans (Table.add_sameMeta _ _)
      len := by rw [hT0, Table.add_fst_len, h.len, List.length_append]; rfl
      row := ?_
      elen := by rw [hE, List.length_set]; exact h.elen
      idxDone := ?_
      idxOther := ?_ }
  · intro j hj
    rw [hT0]
    rw [List.length_append, List.length_singleton] at hj
    by_cases hjd : j < done.length
    · rw [Table.add_getEntity_lt _ _ _ (by rw [h.len]; exact hjd), h.row j hjd,
        List.getElem_append_left hjd]
    · have hje : j = done.length := by omega
      subst hje
      have hnew := Table.add_getEntity_new h.shape (w0.pool.ents.getD x default) hb'
      rw [Table.add_snd, h.len] at hnew
      rw [hnew]
      simp
  · intro j hj
    rw [hE]
    rw [List.length_append, List.length_singleton] at hj
    by_cases hjd : j < done.length
    · have hne : x ≠ done[j] := fun e => hnd (e ▸ List.getElem_mem hjd)
      rw [List.getElem_append_left hjd, List.getElem?_set_ne hne]
      exact h.idxDone j hjd
    · have hje : j = done.length := by omega
      subst hje
      have : (done ++ [x])[done.length]'(by simp) = x := by simp
      rw [this, List.getElem?_set_self hxl]
  · intro i hi
    rw [List.mem_append, List.mem_singleton] at hi
    have hix : x ≠ i := fun e => hi (Or.inr e.symm)
    rw [hE, List.getElem?_set_ne hix]
    exact h.idxOther i (fun hm => hi (Or.inl hm))

/-- **the loop of `LoadEntities`** over a duplicate-free list of slots that hold their own ID -/
theorem loadLoop {w0 : World} (h0 : 0 < w0.tables.length) :
    ∀ (rest done : List Nat) (w : World), LoadLoop w0 done w →
      (∀ (x : Nat), x ∈ rest → (w0.pool.ents.getD x default).id = x ∧ x < w0.entities.length) →
      (done ++ rest).Nodup → done.length + rest.length < 2 ^ 32 →
      LoadLoop w0 (done ++ rest) (rest.foldl loadStep w) := by
  intro rest
  induction rest with
  | nil => intro done w h _ _ _; simpa using h
  | cons x rest ih =>
    intro done w h hself hnd hb
    simp only [List.length_cons] at hb
    obtain ⟨hx1, hx2⟩ := hself x (by simp)
    have hxn : x ∉ done := by
      intro hm
      have := List.nodup_append.mp hnd
      exact this.2.2 x hm x (by simp) rfl
    have hs := h.step h0 hx1 hx2 hxn (by omega)
    have := ih (done ++ [x]) (loadStep w x) hs (fun y hy => hself y (by simp [hy]))
      (by simpa using hnd) (by simp only [List.length_append, List.length_singleton]; omega)
    simpa using this

/-! ## 2. the world before the loop -/

theorem loadPre_pool (d : Dump) (w : World) (hc : d.entities.length > 0) :
    (loadPre d w).pool =
      { ents := d.entities, stale := [], next := d.next, available := d.available } := by
  simp only [loadPre, hc, if_true]; rfl

theorem loadPre_entities (d : Dump) (w : World) :
    (loadPre d w).entities = List.replicate d.entities.length (0, 0) := by
  simp only [loadPre]; split <;> rfl

theorem loadPre_isTarget (d : Dump) (w : World) :
    (loadPre d w).isTarget = List.replicate d.entities.length false := by
  simp only [loadPre]; split <;> rfl

theorem loadPre_tables (d : Dump) (w : World) :
    (loadPre d w).tables = w.tables.set 0 ((w.tbl 0).extend d.alive.length) := by
  simp only [loadPre]; split <;> rfl

theorem loadPre_tbl_zero (d : Dump) (w : World) (h0 : 0 < w.tables.length) :
    (loadPre d w).tbl 0 = (w.tbl 0).extend d.alive.length := by
  simp only [tbl, loadPre_tables, List.getD_eq_getElem?_getD, List.getElem?_set_self h0,
    Option.getD_some]

theorem loadPre_tbl_ne (d : Dump) (w : World) {t : Nat} (ht : t ≠ 0) :
    (loadPre d w).tbl t = w.tbl t := by
  simp only [tbl, loadPre_tables, List.getD_eq_getElem?_getD,
    List.getElem?_set_ne (fun e => ht e.symm)]

theorem extend_sameMeta (T : Table) (n : Nat) : Table.SameMeta T (T.extend n) := by
  simp only [Table.extend]
  split
  · exact Table.SameMeta.refl T
  · exact ⟨rfl, rfl, rfl, rfl, rfl, rfl, rfl, rfl⟩

theorem loadW_isTarget (d : Dump) (w : World) :
    (loadW d w).isTarget = List.replicate d.entities.length false := by
  rw [loadW_proj (·.isTarget) (fun _ _ _ => rfl) (fun _ _ => rfl), loadPre_isTarget]

theorem loadW_maxComps (d : Dump) (w : World) : (loadW d w).maxComps = w.maxComps := by
  rw [loadW_proj (·.maxComps) (fun _ _ _ => rfl) (fun _ _ => rfl)]
  simp only [loadPre]; split <;> rfl

end World

/-! ## 3. the loaded world -/

namespace Refine

/-- the pool invariants read `ents`, `next`, `available` only -/
theorem pinv_core {p q : Pool} {fl : List Nat} (h : Pool.PInv p fl) (he : q.ents = p.ents)
    (hn : q.next = p.next) (ha : q.available = p.available) : Pool.PInv q fl :=
  ⟨by rw [he, hn, ha]; exact h.ch, h.nodup, by rw [he]; exact h.res, by rw [he]; exact h.self,
    by rw [he]; exact h.len2⟩

theorem ginv_core {p q : Pool} {issued live : List Ent} {fl : List Nat}
    (g : Pool.GInv ⟨p, issued, live⟩ fl) (he : q.ents = p.ents) (hn : q.next = p.next)
    (ha : q.available = p.available) : Pool.GInv ⟨q, issued, live⟩ fl :=
  ⟨pinv_core g.pinv he hn ha,
    by intro h; show h ∈ live ↔ _ ∧ _ ∧ q.ents[h.id]? = some h; rw [he]; exact g.live_iff h,
    g.live_nodup,
    by intro h hh; show 2 ≤ h.id ∧ ∃ e, q.ents[h.id]? = some e ∧ _; rw [he]; exact g.issued_bound h hh,
    g.live_issued,
    by show q.ents.length = _; rw [he]; exact g.count⟩

/-- **what holds of the world `wL` obtained by loading the dump of the machine state `s` (free
    list `fl`) into the empty machine state `t`** -/
structure Loaded (s : St) (fl : List Nat) (t : St) (wL : World) : Prop where
  /-- registry, archetypes, locks and observers are those of the target -/
  kinds : wL.kinds = t.w.kinds
  archetypes : wL.archetypes = t.w.archetypes
  maxComps : wL.maxComps = t.w.maxComps
  unlocked : wL.isLocked = false
  noObs : ∀ (evt : Nat), wL.obs.hasObservers evt = false
  /-- the pool: the core of the source; pool invariant with the source's free list; ghost
      invariant with the source's issued and live handles -/
  pool : wL.pool = { ents := s.w.pool.ents, stale := [], next := s.w.pool.next,
                     available := s.w.pool.available }
  pinv : Pool.PInv wL.pool fl
  ginv : Pool.GInv ⟨wL.pool, s.issued, s.ss.ents.map (·.1)⟩ fl
  /-- structure: archetypes ↔ tables -/
  sinv : SInv wL
  tlen : wL.tables.length = t.w.tables.length
  lenEq : wL.entities.length = wL.pool.ents.length
  tgtLen : wL.isTarget.length = wL.entities.length
  noTargets : ∀ (i : Nat), wL.isTarget.getD i false = false
  /-- table 0 holds the alive handles, all other tables are empty -/
  shape0 : (wL.tbl 0).Shape
  len0 : (wL.tbl 0).len = s.ss.ents.length
  othersEmpty : ∀ (t' : Nat), t' ≠ 0 → (wL.tbl t').len = 0
  tne : ∀ (t' : Nat), t' ≠ 0 → wL.tbl t' = t.w.tbl t'
  /-- index → rows, for the alive handles: indexed to a row of table 0 that stores the handle
      with its generation -/
  live : ∀ (e : Ent) (cs : Comps), (e, cs) ∈ s.ss.ents →
    ∃ (r : Nat), wL.entities[e.id]? = some (0, r) ∧ r < (wL.tbl 0).len ∧
      (wL.tbl 0).getEntity r = e
  /-- rows → index: every row of table 0 holds an alive handle of the source, indexed to it -/
  rows : ∀ (r : Nat), r < (wL.tbl 0).len → ∃ (e : Ent) (cs : Comps), (e, cs) ∈ s.ss.ents ∧
    (wL.tbl 0).getEntity r = e ∧ wL.entities[e.id]? = some (0, r)
  /-- **refinement**: the loaded world realises the source's specification with all components
      dropped -/
  ok : ∀ (e : Ent) (cs : Comps), (e, cs) ∈ s.ss.ents → EntOK wL wL.kinds.length e []
  /-- **the deviation from `CInv`**: reserved and free IDs are indexed to `(table 0, row 0)` -/
  dead : ∀ (i : Nat), i < wL.entities.length → (i < 2 ∨ i ∈ fl) → wL.entities[i]? = some (0, 0)

/-- the IDs of the specification entries are pairwise different -/
theorem HInv.spec_ids_nodup {s : St} {fl : List Nat} (H : HInv s fl) :
    (s.ss.ents.map fun x => x.1.id).Nodup := by
  refine QueryExact.nodup_map_of_nodup_map s.ss.ents (·.1) (fun x => x.1.id) H.ginv.live_nodup ?_
  intro a ha b hb hid
  exact H.id_inj (cs := a.2) (cs' := b.2) ha hb hid

/-- an empty machine state has only empty tables -/
theorem EmptySt.tables_empty {t : St} (E : EmptySt t) (t' : Nat) : (t.w.tbl t').len = 0 := by
  obtain ⟨H, _, _, _⟩ := E.facts
  rcases Nat.eq_zero_or_pos (t.w.tbl t').len with h | h
  · exact h
  · have hlt := tbl_len_pos_lt h
    obtain ⟨h2, _, hl, _⟩ := H.cinv.row_live_id hlt h
    rw [H.cinv.lenEq, E.pool] at hl
    omega

/-- **the loaded world is well formed** (in the sense of `Loaded`).  `hent`: the pool slice of
    the source has fewer than `2^32` slots (IDs are `uint32`; holds along every history within
    the length bound). -/
theorem loaded_wf {s : St} {fl : List Nat} (H : HInv s fl) {t : St} (E : EmptySt t)
    (hent : s.w.pool.ents.length < 2 ^ 32) {d : Dump}
    (hde : d.entities = s.w.pool.ents) (hdn : d.next = s.w.pool.next)
    (hda : d.available = s.w.pool.available) (hnd : d.alive.Nodup)
    (hal : ∀ (i : Nat), i ∈ d.alive ↔ 2 ≤ i ∧ i ∉ fl ∧ i < s.w.pool.ents.length) :
    Loaded s fl t (loadW d t.w) := by
  obtain ⟨Ht, _, _, htl⟩ := E.facts
  have hc : d.entities.length > 0 := by rw [hde]; have := H.cinv.pool.len2; omega
  have h0 : 0 < t.w.tables.length := Ht.cinv.sinv.root.1
  have hpool := loadW_pool d t.w hc
  rw [hde, hdn, hda] at hpool
  -- the world before the loop
  have hp0 : (loadPre d t.w).pool =
      { ents := s.w.pool.ents, stale := [], next := s.w.pool.next, available := s.w.pool.available } := by
    rw [loadPre_pool d t.w hc, hde, hdn, hda]
  have h00 : 0 < (loadPre d t.w).tables.length := by
    rw [loadPre_tables, List.length_set]; exact h0
  have hshape0 : (t.w.tbl 0).Shape := IdxInv_tbl_shape Ht.cinv.idx 0
  have hlen0 : (t.w.tbl 0).len = 0 := E.tables_empty 0
  -- the alive list: slots holding their own ID
  have hself : ∀ (x : Nat), x ∈ d.alive →
      ((loadPre d t.w).pool.ents.getD x default).id = x ∧ x < (loadPre d t.w).entities.length := by
    intro x hx
    obtain ⟨_, hnf, hlt⟩ := (hal x).mp hx
    rw [hp0, loadPre_entities, List.length_replicate, hde]
    refine ⟨?_, hlt⟩
    show (s.w.pool.ents.getD x default).id = x
    rw [List.getD_eq_getElem?_getD, List.getElem?_eq_getElem hlt, Option.getD_some]
    exact H.cinv.pool.self x _ (List.getElem?_eq_getElem hlt) hnf
  have hlenle : d.alive.length ≤ s.w.pool.ents.length := by
    have := List.Nodup.length_le_of_subset (l₂ := List.range s.w.pool.ents.length) hnd
      (fun x hx => List.mem_range.mpr ((hal x).mp hx).2.2)
    simpa using this
  have L := loadLoop h00 d.alive [] (loadPre d t.w)
    (LoadLoop.zero _ (by
        rw [loadPre_tbl_zero d t.w h0]
        exact Table.extend_shape hshape0 _ (by rw [hlen0]; omega))
      (by rw [loadPre_tbl_zero d t.w h0, Table.extend_len]; exact hlen0))
    hself (by simpa using hnd) (by simp only [List.length_nil]; omega)
  simp only [List.nil_append] at L
  have hLW : d.alive.foldl loadStep (loadPre d t.w) = loadW d t.w := rfl
  rw [hLW] at L
  -- IDs of the specification ↔ the alive list
  have hmemIds : ∀ (e : Ent) (cs : Comps), (e, cs) ∈ s.ss.ents →
      e.id ∈ d.alive ∧ s.w.pool.ents.getD e.id default = e := by
    intro e cs hm
    obtain ⟨_, _, h2, hnf, _, hsl⟩ := H.live_facts hm
    have hlt := (List.getElem?_eq_some_iff.mp hsl).1
    refine ⟨(hal e.id).mpr ⟨h2, hnf, hlt⟩, ?_⟩
    rw [List.getD_eq_getElem?_getD, hsl, Option.getD_some]
  have hslot : ∀ (x : Nat), x ∈ d.alive → ∃ (cs : Comps),
      (s.w.pool.ents.getD x default, cs) ∈ s.ss.ents ∧ (s.w.pool.ents.getD x default).id = x := by
    intro x hx
    obtain ⟨h2, hnf, hlt⟩ := (hal x).mp hx
    have hget := List.getElem?_eq_getElem hlt
    have hid := H.cinv.pool.self x _ hget hnf
    have hlive : s.w.pool.ents[x] ∈ s.ps.live :=
      (H.ginv.live_iff _).mpr ⟨by rw [hid]; exact h2, by rw [hid]; exact hnf,
        by rw [hid]; exact hget⟩
    obtain ⟨y, hy, hy1⟩ := List.mem_map.mp hlive
    refine ⟨y.2, ?_, ?_⟩
    · rw [List.getD_eq_getElem?_getD, hget, Option.getD_some, ← hy1]; exact hy
    · rw [List.getD_eq_getElem?_getD, hget, Option.getD_some]; exact hid
  have hcount : d.alive.length = s.ss.ents.length := by
    have h1 := length_eq_of_nodup_mem hnd H.spec_ids_nodup (by
      intro i
      constructor
      · intro hi
        obtain ⟨cs, hm, hid⟩ := hslot i hi
        exact List.mem_map.mpr ⟨_, hm, hid⟩
      · intro hi
        obtain ⟨x, hx, rfl⟩ := List.mem_map.mp hi
        exact (hmemIds x.1 x.2 hx).1)
    simpa using h1
  have hentLen : (loadW d t.w).entities.length = s.w.pool.ents.length := by
    rw [L.elen, loadPre_entities, List.length_replicate, hde]
  have hkinds := loadW_kinds d t.w
  have hmeta : ∀ (t' : Nat), t' < t.w.tables.length →
      Table.SameMeta (t.w.tbl t') ((loadW d t.w).tbl t') := by
    intro t' _
    by_cases ht : t' = 0
    · subst ht
      have := L.smeta
      rw [loadPre_tbl_zero d t.w h0] at this
      exact (extend_sameMeta _ _).trans this
    · rw [L.tne t' ht, loadPre_tbl_ne d t.w ht]; exact Table.SameMeta.refl _
  have htlen : (loadW d t.w).tables.length = t.w.tables.length := by
    rw [L.tlen, loadPre_tables, List.length_set]
  have hsinv : SInv (loadW d t.w) :=
    Ht.cinv.sinv.of_sameMeta (loadW_archetypes d t.w) hkinds htlen hmeta
  -- table 0 has no columns
  have hids0 : ((loadW d t.w).tbl 0).ids = [] := by
    rw [(hmeta 0 h0).ids]
    obtain ⟨_, ha0, hm0⟩ := Ht.cinv.sinv.root
    obtain ⟨A, hA, e1, _⟩ := Ht.cinv.sinv.tblArch 0 _ (get_of_lt h0)
    rw [ha0] at hA
    rw [e1, (Ht.cinv.sinv.comps 0 A hA).1]
    rw [arch_of_get hA] at hm0
    rw [hm0]
    simp [Mask.toList, Mask.empty, Mask.get]
  have hrowOf : ∀ (j : Nat) (hj : j < d.alive.length),
      ((loadW d t.w).tbl 0).getEntity j = s.w.pool.ents.getD d.alive[j] default := by
    intro j hj
    rw [L.row j hj, hp0]
  refine
    { kinds := hkinds
      archetypes := loadW_archetypes d t.w
      maxComps := loadW_maxComps d t.w
      unlocked := by simp only [World.isLocked, loadW_locks]; exact htl
      noObs := fun evt => by rw [loadW_obs]; exact Ht.cinv.noObs evt
      pool := hpool
      pinv := pinv_core H.cinv.pool (by rw [hpool]) (by rw [hpool]) (by rw [hpool])
      ginv := ginv_core H.ginv (by rw [hpool]) (by rw [hpool]) (by rw [hpool])
      sinv := hsinv
      tlen := htlen
      lenEq := by rw [hentLen, hpool]
      tgtLen := by rw [loadW_isTarget, List.length_replicate, hentLen, hde]
      noTargets := fun i => by
        rw [loadW_isTarget, List.getD_eq_getElem?_getD, List.getElem?_replicate]
        split <;> rfl
      shape0 := L.shape
      len0 := by rw [L.len]; exact hcount
      othersEmpty := fun t' ht => by
        rw [L.tne t' ht, loadPre_tbl_ne d t.w ht]; exact E.tables_empty t'
      tne := fun t' ht => by rw [L.tne t' ht, loadPre_tbl_ne d t.w ht]
      live := ?_
      rows := ?_
      ok := ?_
      dead := ?_ }
  · intro e cs hm
    obtain ⟨hmem, hget⟩ := hmemIds e cs hm
    obtain ⟨j, hj, hje⟩ := List.getElem_of_mem hmem
    refine ⟨j, ?_, by rw [L.len]; exact hj, ?_⟩
    · have := L.idxDone j hj
      rw [hje] at this; exact this
    · rw [hrowOf j hj, hje, hget]
  · intro r hr
    rw [L.len] at hr
    obtain ⟨cs, hm, hid⟩ := hslot d.alive[r] (List.getElem_mem hr)
    refine ⟨_, cs, hm, hrowOf r hr, ?_⟩
    rw [hid]; exact L.idxDone r hr
  · intro e cs hm
    obtain ⟨hmem, _⟩ := hmemIds e cs hm
    obtain ⟨j, hj, hje⟩ := List.getElem_of_mem hmem
    have hix := L.idxDone j hj
    rw [hje] at hix
    have hl0 : 0 < (loadW d t.w).tables.length := by rw [htlen]; exact h0
    refine ⟨List.nodup_nil, fun c hc => (by cases hc), ?_, fun cv hcv => (by cases hcv)⟩
    have hm32 : (0 : Nat) ≠ maxU32 := by decide
    simp only [compsOf, hix, hm32, if_false, get_of_lt hl0, Option.map_some, hids0, keys,
      List.map_nil, sortedIds_nil]
  · intro i hi hdead
    have hnot : i ∉ d.alive := by
      intro hm
      obtain ⟨h2, hnf, _⟩ := (hal i).mp hm
      rcases hdead with h | h
      · omega
      · exact hnf h
    rw [L.idxOther i hnot, loadPre_entities, List.getElem?_replicate]
    rw [hentLen, ← hde] at hi
    simp [hi]

/-! ## 4. one normalisation away from a machine state -/

/-- write the "no table" mark into the index entries of the reserved and the free IDs -/
def fixDead (fl : List Nat) (w : World) : World :=
  { w with entities := w.entities.mapIdx fun i x => if i < 2 ∨ i ∈ fl then (maxU32, 0) else x }

theorem fixDead_get (fl : List Nat) (w : World) (i : Nat) :
    (fixDead fl w).entities[i]? =
      (w.entities[i]?).map fun x => if i < 2 ∨ i ∈ fl then (maxU32, 0) else x := by
  show (w.entities.mapIdx _)[i]? = _
  rw [List.getElem?_mapIdx]

theorem fixDead_get_live (fl : List Nat) (w : World) {i : Nat} (h2 : 2 ≤ i) (hnf : i ∉ fl) :
    (fixDead fl w).entities[i]? = w.entities[i]? := by
  rw [fixDead_get]
  have : ¬ (i < 2 ∨ i ∈ fl) := fun h => h.elim (fun h => by omega) hnf
  simp only [this, if_false]
  cases w.entities[i]? <;> rfl

/-- **The loaded world is one normalisation away from a machine state**: with the index entries
    of the reserved and free IDs set to `(maxU32, 0)` — entries no operation reads — it
    satisfies the full invariant `HInv` of the entity machine (⊇ `CInv` ⊇ `IdxInv`, `SInv`), with
    the source's issued handles and the source's specification with all components dropped. -/
theorem Loaded.normalised {s t : St} {fl : List Nat} {wL : World} (L : Loaded s fl t wL)
    (H : HInv s fl) (Ht : HInv t []) :
    HInv ⟨fixDead fl wL, s.issued, ⟨s.ss.ents.map fun x => (x.1, []), t.ss.zst⟩⟩ fl := by
  have hlenE : (fixDead fl wL).entities.length = wL.entities.length := by
    show (wL.entities.mapIdx _).length = _
    rw [List.length_mapIdx]
  have hfew : wL.tables.length ≤ maxU32 := by rw [L.tlen]; exact Ht.cinv.fewTables
  have h0 : 0 < wL.tables.length := by rw [L.tlen]; exact Ht.cinv.sinv.root.1
  have hm32 : (0 : Nat) ≠ maxU32 := by decide
  -- a live ID has a specification entry
  have hspec : ∀ (i : Nat), 2 ≤ i → i ∉ fl → i < wL.entities.length →
      ∃ (e : Ent) (cs : Comps), (e, cs) ∈ s.ss.ents ∧ e.id = i := by
    intro i h2 hnf hlt
    rw [L.lenEq, L.pool] at hlt
    have hlt' : i < s.w.pool.ents.length := hlt
    have hget := List.getElem?_eq_getElem hlt'
    have hid := H.cinv.pool.self i _ hget hnf
    have hlive : s.w.pool.ents[i] ∈ s.ps.live :=
      (H.ginv.live_iff _).mpr ⟨by rw [hid]; exact h2, by rw [hid]; exact hnf,
        by rw [hid]; exact hget⟩
    obtain ⟨y, hy, hy1⟩ := List.mem_map.mp hlive
    exact ⟨y.1, y.2, hy, by rw [hy1]; exact hid⟩
  have hidx : IdxInv (fixDead fl wL) :=
    { shape := by
        intro t' T hT
        have hT' : wL.tables[t']? = some T := hT
        rw [← tbl_of_get hT']
        by_cases ht : t' = 0
        · subst ht; exact L.shape0
        · rw [L.tne t' ht]; exact IdxInv_tbl_shape Ht.cinv.idx t'
      tid := by
        intro t' T hT
        have hT' : wL.tables[t']? = some T := hT
        obtain ⟨_, _, _, _, _, e4⟩ := L.sinv.tblArch t' T hT'
        exact e4
      rowIdx := by
        intro t' T r hT hr
        have hT' : wL.tables[t']? = some T := hT
        have hTe := tbl_of_get hT'
        by_cases ht : t' = 0
        · subst ht
          rw [← hTe] at hr ⊢
          obtain ⟨e, cs, hm, hge, hix⟩ := L.rows r hr
          obtain ⟨_, _, h2, hnf, _, _⟩ := H.live_facts hm
          rw [hge, fixDead_get_live fl wL h2 hnf]
          exact hix
        · have := L.othersEmpty t' ht
          rw [hTe] at this
          omega
      idxRow := by
        intro i t' r hi htm
        rw [fixDead_get] at hi
        cases hw : wL.entities[i]? with
        | none => rw [hw] at hi; cases hi
        | some x =>
          rw [hw] at hi
          simp only [Option.map_some, Option.some.injEq] at hi
          by_cases hd : i < 2 ∨ i ∈ fl
          · rw [if_pos hd] at hi
            exact absurd (Prod.mk.inj hi).1.symm htm
          · rw [if_neg hd] at hi
            subst hi
            have h2 : 2 ≤ i := by
              rcases Nat.lt_or_ge i 2 with h | h
              · exact absurd (Or.inl h) hd
              · exact h
            have hnf : i ∉ fl := fun h => hd (Or.inr h)
            obtain ⟨e, cs, hm, hid⟩ := hspec i h2 hnf (List.getElem?_eq_some_iff.mp hw).1
            obtain ⟨r', hix, hr', hge⟩ := L.live e cs hm
            rw [hid, hw] at hix
            injection hix with hix
            injection hix with h1 h2'
            subst h1; subst h2'
            exact ⟨wL.tbl 0, get_of_lt h0, hr', by rw [hge]; exact hid⟩ }
  have hcinv : CInv (fixDead fl wL) fl :=
    { idx := hidx
      sinv := L.sinv.congr rfl rfl rfl
      pool := L.pinv
      stale := by
        intro e he
        have hs : wL.pool.stale = [] := by rw [L.pool]
        have he' : e ∈ wL.pool.stale := he
        rw [hs] at he'; cases he'
      lenEq := by rw [hlenE]; exact L.lenEq
      tgtLen := by rw [hlenE]; exact L.tgtLen
      freeUnindexed := by
        intro i hi
        have hlt : i < wL.entities.length := by rw [L.lenEq]; exact (L.pinv.res i hi).2
        refine ⟨0, ?_⟩
        rw [fixDead_get, List.getElem?_eq_getElem hlt]
        simp [hi]
      reservedUnindexed := by
        intro i hi
        have hlt : i < wL.entities.length := by
          rw [L.lenEq]; have := L.pinv.len2; omega
        refine ⟨0, ?_⟩
        rw [fixDead_get, List.getElem?_eq_getElem hlt]
        simp [hi]
      liveIndexed := by
        intro i h2 hlt hnf
        rw [hlenE] at hlt
        obtain ⟨e, cs, hm, hid⟩ := hspec i h2 hnf hlt
        obtain ⟨r, hix, _, _⟩ := L.live e cs hm
        rw [hid] at hix
        exact ⟨0, r, by rw [fixDead_get_live fl wL h2 hnf]; exact hix, hm32⟩
      fewTables := hfew
      noRelKinds := by
        intro c
        show (wL.kinds.getD c {}).isRel = false
        rw [L.kinds]; exact Ht.cinv.noRelKinds c
      kindsLe := by
        show wL.kinds.length ≤ wL.maxComps ∧ wL.maxComps ≤ 256
        rw [L.kinds, L.maxComps]; exact Ht.cinv.kindsLe
      noTargets := L.noTargets
      noObs := L.noObs }
  exact
    { cinv := hcinv
      ginv := by
        show Pool.GInv ⟨wL.pool, s.issued, (s.ss.ents.map fun x => (x.1, ([] : Comps))).map (·.1)⟩ fl
        rw [List.map_map]
        exact L.ginv
      unlocked := L.unlocked
      nodup := H.nodup
      zstEq := by
        show t.ss.zst = wL.kinds.map (·.zst)
        rw [L.kinds]; exact Ht.zstEq
      maxc := L.maxComps.trans Ht.maxc
      ok := by
        intro e cs hm
        obtain ⟨x, hx, hxe⟩ := List.mem_map.mp hm
        injection hxe with h1 h2
        subst h1; subst h2
        obtain ⟨_, _, h2, hnf, _, _⟩ := H.live_facts (e := x.1) (cs := x.2) hx
        have ok0 := L.ok x.1 x.2 hx
        refine ⟨ok0.nodup, ok0.reg, ?_, fun cv hcv => by cases hcv⟩
        have : compsOf (fixDead fl wL) x.1.id = compsOf wL x.1.id := by
          simp only [compsOf, fixDead_get_live fl wL h2 hnf]
          rfl
        rw [this]; exact ok0.comps }

/-- **C17 over histories: the loaded world.**  After any history `pre`, the dump loaded into any
    empty machine state yields a world that is well formed in the sense of `Loaded`. -/
theorem reach_loaded (run : ProbeRunner) (cap rel : Nat) (pre : List Op)
    (hlen : pre.length < 2 ^ 32 - 2) {t : St} (E : EmptySt t) :
    ∃ (d : Dump) (fl : List Nat),
      opDump (reach run cap rel pre).w =
        .ok d ((reach run cap rel pre).w.withLocks lockAfterQuery) ∧
      opLoad d t.w = .ok () (loadW d t.w) ∧
      HInv (reach run cap rel pre) fl ∧
      Loaded (reach run cap rel pre) fl t (loadW d t.w) := by
  obtain ⟨fl, H⟩ := reach_hinv run cap rel pre hlen
  have X := reach_xinv run cap rel pre hlen
  have hL : LockCycle (reach run cap rel pre).w.locks lockDuringQuery 0 lockAfterQuery := by
    rw [X.locks]; exact lockCycle_default
  obtain ⟨_, _, hta, htl⟩ := E.facts
  obtain ⟨d, hd, he, hn, ha, hnd, hal⟩ := opDump_spec H.cinv hL
  have hb := (reach_bounds run cap rel pre hlen).2
  rw [H.cinv.lenEq] at hb
  exact ⟨d, fl, hd, opLoad_eq d t.w htl ⟨by rw [E.pool]; exact Nat.le_refl _, hta⟩, H,
    loaded_wf H E (by omega) he hn ha hnd hal⟩

/-- **C17 over histories: the loaded world, normalised, is a machine state** with the source's
    handles and the source's entities (without components): every theorem about states satisfying
    `HInv` applies to it. -/
theorem reach_loaded_normalised (run : ProbeRunner) (cap rel : Nat) (pre : List Op)
    (hlen : pre.length < 2 ^ 32 - 2) {t : St} (E : EmptySt t) :
    ∃ (d : Dump) (fl : List Nat),
      opDump (reach run cap rel pre).w =
        .ok d ((reach run cap rel pre).w.withLocks lockAfterQuery) ∧
      opLoad d t.w = .ok () (loadW d t.w) ∧
      HInv ⟨fixDead fl (loadW d t.w), (reach run cap rel pre).issued,
        ⟨(reach run cap rel pre).ss.ents.map fun x => (x.1, []), t.ss.zst⟩⟩ fl := by
  obtain ⟨d, fl, hd, hl, H, L⟩ := reach_loaded run cap rel pre hlen E
  exact ⟨d, fl, hd, hl, L.normalised H E.facts.1⟩

end Refine

end Ark
