/-
  Ark.Proofs.MaskWidth — the 64-bit mask of the `ark_tiny` build simulates the 256-bit mask of
  the default build on component IDs below 64.

  Part 1: the set-level view of `Mask64` (every operation characterised through `get`), the
  counterpart of `Ark/Proofs/MaskLemmas.lean`.
  Part 2: `Mask64.embed` (zero extension) commutes with every mask operation except `not`;
  for `not` the exact relation is given, and the only way a complement is ever *used*
  (`containsAny` against the entity/archetype mask: `Exclusive` filters and observers) is shown
  to give the same answer at both widths.
  Part 3: filters and observer predicates.
  Kernel-only.
-/
import Ark.Model.Mask64
import Ark.Model.Observers
import Ark.Proofs.MaskLemmas

namespace Ark
namespace Mask64

/-! ## 1. Set-level view of `Mask64` -/

@[simp] theorem get_empty (c : Nat) : empty.get c = false := by
  simp [empty, get]

theorem get_ge (m : Mask64) (c : Nat) (h : 64 ≤ c) : m.get c = false := by
  simp only [get]
  exact BitVec.getLsbD_of_ge m c h

theorem get_lt (m : Mask64) (c : Nat) (h : m.get c = true) : c < 64 := by
  apply Classical.byContradiction
  intro hc
  rw [get_ge m c (by omega)] at h
  cases h

theorem get_bit (b c : Nat) : (bit b).get c = (decide (c < 64) && decide (c = b)) := by
  simp only [bit, get, BitVec.getLsbD_shiftLeft, BitVec.getLsbD_one]
  by_cases h1 : c < 64
  · by_cases h2 : c = b
    · subst h2; simp [h1]
    · by_cases h3 : c < b
      · simp [h1, h2, h3]
      · have : c - b ≠ 0 := by omega
        simp [h1, h2, h3, this]
  · simp [h1]

theorem get_set (m : Mask64) (b c : Nat) :
    (m.set b).get c = (m.get c || (decide (c < 64) && decide (c = b))) := by
  simp only [set, get, BitVec.getLsbD_or]
  rw [show (bit b).getLsbD c = (bit b).get c from rfl, get_bit]

theorem get_clear (m : Mask64) (b c : Nat) :
    (m.clear b).get c = (m.get c && !(decide (c = b))) := by
  simp only [clear, get, BitVec.getLsbD_and, BitVec.getLsbD_not]
  rw [show (bit b).getLsbD c = (bit b).get c from rfl, get_bit]
  by_cases h1 : c < 64
  · by_cases h2 : c = b
    · subst h2; simp [h1]
    · simp [h1, h2]
  · have : m.getLsbD c = false := BitVec.getLsbD_of_ge m c (by omega)
    simp [h1, this]

theorem get_or (a b : Mask64) (c : Nat) : (a.or b).get c = (a.get c || b.get c) := by
  simp [or, get, BitVec.getLsbD_or]

theorem get_not (a : Mask64) (c : Nat) : a.not.get c = (decide (c < 64) && !a.get c) := by
  simp [not, get, BitVec.getLsbD_not]

/-- extensionality through `get` -/
theorem ext_get (a b : Mask64) (h : ∀ c : Nat, c < 64 → a.get c = b.get c) : a = b := by
  apply BitVec.eq_of_getLsbD_eq
  intro i hi
  exact h i hi

theorem isZero_iff (m : Mask64) : m.isZero = true ↔ ∀ c, m.get c = false := by
  simp only [isZero, beq_iff_eq]
  constructor
  · intro h c; subst h; simp [get]
  · intro h
    apply ext_get
    intro c _
    rw [h c]; simp [get]

/-- `b.Contains(o)` ⇔ `o ⊆ b`. -/
theorem contains_iff (b o : Mask64) :
    b.contains o = true ↔ ∀ c, o.get c = true → b.get c = true := by
  simp only [contains, beq_iff_eq]
  constructor
  · intro h c hc
    have : (b &&& o).getLsbD c = o.getLsbD c := by rw [h]
    simp only [BitVec.getLsbD_and] at this
    simp only [get] at hc ⊢
    rw [hc] at this
    simpa using this
  · intro h
    apply BitVec.eq_of_getLsbD_eq
    intro i _
    simp only [BitVec.getLsbD_and]
    cases ho : o.getLsbD i with
    | false => simp
    | true => have := h i ho; simp only [get] at this; simp [this]

/-- `b.ContainsAny(o)` ⇔ `b ∩ o ≠ ∅`. -/
theorem containsAny_iff (b o : Mask64) :
    b.containsAny o = true ↔ ∃ c, b.get c = true ∧ o.get c = true := by
  simp only [containsAny, bne_iff_ne, ne_eq]
  constructor
  · intro h
    apply Classical.byContradiction
    intro hne
    apply h
    apply BitVec.eq_of_getLsbD_eq
    intro i _
    simp only [BitVec.getLsbD_and]
    cases hb : b.getLsbD i with
    | false => simp
    | true =>
      cases ho : o.getLsbD i with
      | false => simp
      | true => exact absurd ⟨i, hb, ho⟩ hne
  · rintro ⟨c, hb, ho⟩ h
    have : (b &&& o).getLsbD c = (0#64).getLsbD c := by rw [h]
    simp only [BitVec.getLsbD_and, get] at this hb ho
    rw [hb, ho] at this
    simp at this

theorem containsAny_false_iff (b o : Mask64) :
    b.containsAny o = false ↔ ∀ c, b.get c = true → o.get c = false := by
  rw [← Bool.not_eq_true, containsAny_iff]
  constructor
  · intro h c hb
    cases ho : o.get c with
    | false => rfl
    | true => exact absurd ⟨c, hb, ho⟩ h
  · rintro h ⟨c, hb, ho⟩
    rw [h c hb] at ho; cases ho

theorem get_ofList_foldl (cs : List Nat) (m : Mask64) (c : Nat) :
    (cs.foldl set m).get c = (m.get c || (decide (c < 64) && decide (c ∈ cs))) := by
  induction cs generalizing m with
  | nil => simp
  | cons x xs ih =>
    simp only [List.foldl_cons, ih, get_set, List.mem_cons]
    by_cases h1 : c < 64
    · by_cases h2 : c = x
      · subst h2; simp [h1]
      · by_cases h3 : c ∈ xs <;> simp [h1, h2, h3]
    · simp [h1]

theorem get_ofList (cs : List Nat) (c : Nat) :
    (ofList cs).get c = (decide (c < 64) && decide (c ∈ cs)) := by
  simp [ofList, get_ofList_foldl]

theorem mem_toList (m : Mask64) (n c : Nat) : c ∈ m.toList n ↔ c < n ∧ m.get c = true := by
  simp [toList, List.mem_filter, List.mem_range]

/-! ## 2. The embedding -/

/-- The embedded mask has exactly the bits of the 64-bit mask. -/
theorem get_embed (m : Mask64) (c : Nat) :
    (embed m).get c = (decide (c < 64) && m.get c) := by
  simp only [embed, Mask.get, get, BitVec.getLsbD_setWidth]
  by_cases h : c < 64
  · have : c < 256 := by omega
    simp [h, this]
  · have : m.getLsbD c = false := BitVec.getLsbD_of_ge m c (by omega)
    simp [this]

/-- `get_embed` without the guard (the guard is implied by `m.get c`). -/
theorem get_embed' (m : Mask64) (c : Nat) : (embed m).get c = m.get c := by
  rw [get_embed]
  by_cases h : c < 64
  · simp [h]
  · simp [h, get_ge m c (by omega)]

theorem get_embed_lt (m : Mask64) (c : Nat) (h : (embed m).get c = true) : c < 64 := by
  rw [get_embed'] at h
  exact get_lt m c h

theorem embed_empty : embed empty = Mask.empty := by
  apply Mask.ext_get
  intro c _
  simp [get_embed']

theorem embed_set (m : Mask64) (b : Nat) (hb : b < 64) : embed (m.set b) = (embed m).set b := by
  apply Mask.ext_get
  intro c hc
  rw [get_embed', Mask.get_set, get_set, get_embed']
  by_cases h : c = b
  · subst h; simp [hb, hc]
  · simp [h]

/-- `set` of an ID ≥ 64: a no-op in the tiny build (`1 << c` is 0), not in the default build. -/
theorem set_ge (m : Mask64) (b : Nat) (hb : 64 ≤ b) : m.set b = m := by
  apply ext_get
  intro c hc
  rw [get_set]
  have : c ≠ b := by omega
  simp [this]

theorem embed_clear (m : Mask64) (b : Nat) : embed (m.clear b) = (embed m).clear b := by
  apply Mask.ext_get
  intro c _
  rw [get_embed', Mask.get_clear, get_clear, get_embed']

theorem embed_or (a b : Mask64) : embed (a.or b) = (embed a).or (embed b) := by
  apply Mask.ext_get
  intro c _
  rw [get_embed', Mask.get_or, get_or, get_embed', get_embed']

theorem embed_foldl_set (cs : List Nat) (h : ∀ c ∈ cs, c < 64) (m : Mask64) :
    embed (cs.foldl set m) = cs.foldl Mask.set (embed m) := by
  induction cs generalizing m with
  | nil => rfl
  | cons x xs ih =>
    simp only [List.foldl_cons]
    rw [ih (fun c hc => h c (List.mem_cons_of_mem _ hc)), embed_set m x (h x List.mem_cons_self)]

theorem embed_ofList (cs : List Nat) (h : ∀ c ∈ cs, c < 64) :
    embed (ofList cs) = Mask.ofList cs := by
  simp only [ofList, Mask.ofList]
  rw [embed_foldl_set cs h, embed_empty]

theorem embed_injective (a b : Mask64) (h : embed a = embed b) : a = b := by
  apply ext_get
  intro c _
  rw [← get_embed', ← get_embed', h]

theorem embed_eq_iff (a b : Mask64) : embed a = embed b ↔ a = b :=
  ⟨embed_injective a b, fun h => by rw [h]⟩

theorem isZero_embed (m : Mask64) : (embed m).isZero = m.isZero := by
  rw [Bool.eq_iff_iff, Mask.isZero_iff, isZero_iff]
  simp only [get_embed']

theorem contains_embed (a b : Mask64) : (embed a).contains (embed b) = a.contains b := by
  rw [Bool.eq_iff_iff, Mask.contains_iff, contains_iff]
  simp only [get_embed']

theorem containsAny_embed (a b : Mask64) :
    (embed a).containsAny (embed b) = a.containsAny b := by
  rw [Bool.eq_iff_iff, Mask.containsAny_iff, containsAny_iff]
  simp only [get_embed']

theorem toList_embed (m : Mask64) (n : Nat) :
    (embed m).toList n = (List.range n).filter m.get := by
  simp only [Mask.toList]
  exact List.filter_congr (fun c _ => get_embed' m c)

/-! ### Complement -/

/-- The complement taken at width 256 of an embedded mask: additionally has all of 64…255. -/
theorem get_not_embed (m : Mask64) (c : Nat) :
    (embed m).not.get c = (decide (c < 256) && !(decide (c < 64) && m.get c)) := by
  rw [Mask.get_not, get_embed]

/-- The complement taken at width 64, embedded: stays below 64. -/
theorem get_embed_not (m : Mask64) (c : Nat) :
    (embed m.not).get c = (decide (c < 64) && !m.get c) := by
  rw [get_embed', get_not]

/-- `embed` never commutes with `not`: bit 64 tells the two apart. -/
theorem embed_not_ne (m : Mask64) : embed m.not ≠ (embed m).not := by
  intro h
  have h1 := get_embed_not m 64
  have h2 := get_not_embed m 64
  rw [h, h2] at h1
  simp at h1

/-- The exact relation: the 64-bit complement is the 256-bit one cut down to IDs below 64. -/
theorem embed_not (m : Mask64) : embed m.not = (embed m).not &&& embed empty.not := by
  apply Mask.ext_get
  intro c hc
  have hand : ((embed m).not &&& embed empty.not).get c =
      ((embed m).not.get c && (embed empty.not).get c) := by
    simp [Mask.get, BitVec.getLsbD_and]
  rw [hand, get_embed_not, get_embed_not, get_not_embed]
  by_cases h : c < 64 <;> simp [h, hc]

/-- On IDs below 64 the two complements agree. -/
theorem get_not_embed_lt (m : Mask64) (c : Nat) (hc : c < 64) :
    (embed m).not.get c = (embed m.not).get c := by
  rw [get_not_embed, get_embed_not]
  have : c < 256 := by omega
  simp [hc, this]

/-- How a complement is used (`Exclusive`): intersected with an embedded mask, the width at
    which the complement was taken does not matter. -/
theorem containsAny_embed_not (a f : Mask64) :
    (embed a).containsAny (embed f).not = a.containsAny f.not := by
  rw [← containsAny_embed a f.not, Bool.eq_iff_iff, Mask.containsAny_iff, Mask.containsAny_iff]
  constructor
  · rintro ⟨c, h1, h2⟩
    exact ⟨c, h1, by rw [← get_not_embed_lt f c (get_embed_lt a c h1)]; exact h2⟩
  · rintro ⟨c, h1, h2⟩
    exact ⟨c, h1, by rw [get_not_embed_lt f c (get_embed_lt a c h1)]; exact h2⟩

/-- Symmetric form. -/
theorem containsAny_not_embed (a f : Mask64) :
    (embed f).not.containsAny (embed a) = f.not.containsAny a := by
  rw [← containsAny_embed f.not a, Bool.eq_iff_iff, Mask.containsAny_iff, Mask.containsAny_iff]
  constructor
  · rintro ⟨c, h1, h2⟩
    exact ⟨c, by rw [← get_not_embed_lt f c (get_embed_lt a c h2)]; exact h1, h2⟩
  · rintro ⟨c, h1, h2⟩
    exact ⟨c, by rw [get_not_embed_lt f c (get_embed_lt a c h2)]; exact h1, h2⟩

/-- `contains` against a 256-bit complement does NOT simulate: an embedded mask never contains
    the 256-bit complement of an embedded mask (bit 64), whereas at width 64
    `a.contains f.not` holds e.g. for `a = f.not`. -/
theorem contains_embed_not (a f : Mask64) : (embed a).contains (embed f).not = false := by
  rw [← Bool.not_eq_true, Mask.contains_iff]
  intro h
  have h1 := h 64 (by rw [get_not_embed]; simp)
  have := get_embed_lt a 64 h1
  omega

/-- … while the complement of an embedded mask contains an embedded mask exactly when the 64-bit
    complement does. -/
theorem not_embed_contains (a f : Mask64) :
    (embed f).not.contains (embed a) = f.not.contains a := by
  rw [← contains_embed f.not a, Bool.eq_iff_iff, Mask.contains_iff, Mask.contains_iff]
  constructor
  · intro h c hc
    rw [← get_not_embed_lt f c (get_embed_lt a c hc)]; exact h c hc
  · intro h c hc
    rw [get_not_embed_lt f c (get_embed_lt a c hc)]; exact h c hc

end Mask64

/-! ## 3. Filters -/

namespace Filter64
open Mask64

/-- Non-exclusive filters (`mask`, `without` built from ID lists): field-wise embedding. -/
theorem matchesMask_embed (f : Filter64) (a : Mask64) :
    f.embed.matchesMask (Mask64.embed a) = f.matchesMask a := by
  simp only [Filter.matchesMask, matchesMask, embed, contains_embed, containsAny_embed]

/-- `Exclusive` applied in the default build (complement at width 256) to the embedded filter
    matches an embedded mask iff `Exclusive` applied in the tiny build (complement at width 64)
    matches the mask. -/
theorem exclusive_matchesMask_embed (f : Filter64) (a : Mask64) :
    f.embed.exclusive.matchesMask (Mask64.embed a) = f.exclusive.matchesMask a := by
  simp only [Filter.matchesMask, matchesMask, embed, Filter.exclusive, exclusive, contains_embed,
    containsAny_embed_not]

/-- The two `Exclusive` filters are nevertheless different objects. -/
theorem exclusive_embed_ne (f : Filter64) : f.exclusive.embed ≠ f.embed.exclusive := by
  intro h
  have : (f.exclusive.embed).without = (f.embed.exclusive).without := by rw [h]
  exact embed_not_ne f.mask this

theorem withoutList_embed (f : Filter64) (cs : List Nat) (h : ∀ c ∈ cs, c < 64) :
    (f.withoutList cs).embed = f.embed.withoutList cs := by
  simp only [withoutList, Filter.withoutList, embed, embed_ofList cs h]

/-- `Exclusive` in the tiny build: matches exactly the masks equal to the filter's mask. -/
theorem exclusive_matches_iff (f : Filter64) (a : Mask64) :
    f.exclusive.matchesMask a = true ↔ a = f.mask := by
  rw [← exclusive_matchesMask_embed, Filter.exclusive_matches_iff]
  exact embed_eq_iff a f.mask

end Filter64

/-! ## 4. Observer predicates -/

/-- `observerData` of the default build for the observer whose tiny-build data is `d`.
    `excl = true`: the observer is `Exclusive`, `AddObserver` sets
    `withoutMask := withMask.not` — at width 256 here. -/
def ObsData64.embed (excl : Bool) (d : ObsData64) : ObsData :=
  { compsMask := d.compsMask.embed
    withMask := d.withMask.embed
    withoutMask := if excl then d.withMask.embed.not else d.withoutMask.embed
    hasComps := d.hasComps
    hasWith := d.hasWith
    hasWithout := d.hasWithout }

/-- The tiny-build side of `excl`: for an exclusive observer `withoutMask` is the complement
    of `withMask` at width 64. -/
def ObsData64.ExclOK (excl : Bool) (d : ObsData64) : Prop :=
  excl = true → d.withoutMask = d.withMask.not

namespace Pred64
open Mask64

theorem containsAny_withoutMask (excl : Bool) (d : ObsData64) (h : d.ExclOK excl) (m : Mask64) :
    (Mask64.embed m).containsAny (d.embed excl).withoutMask = m.containsAny d.withoutMask := by
  cases excl with
  | false =>
    show (Mask64.embed m).containsAny d.withoutMask.embed = _
    exact containsAny_embed m d.withoutMask
  | true =>
    rw [h rfl]
    show (Mask64.embed m).containsAny d.withMask.embed.not = _
    exact containsAny_embed_not m d.withMask

theorem entity_embed (excl : Bool) (d : ObsData64) (h : d.ExclOK excl) (m : Mask64) :
    Pred.entity (d.embed excl) (Mask64.embed m) = entity d m := by
  simp only [Pred.entity, entity, containsAny_withoutMask excl d h]
  simp only [ObsData64.embed, contains_embed]

theorem entityRel_embed (excl : Bool) (d : ObsData64) (h : d.ExclOK excl) (m : Mask64) :
    Pred.entityRel (d.embed excl) (Mask64.embed m) = entityRel d m := by
  simp only [Pred.entityRel, entityRel, containsAny_withoutMask excl d h]
  simp only [ObsData64.embed, contains_embed]

theorem add_embed (excl : Bool) (d : ObsData64) (h : d.ExclOK excl) (old new : Mask64) :
    Pred.add (d.embed excl) (Mask64.embed old) (Mask64.embed new) = add d old new := by
  simp only [Pred.add, add, containsAny_withoutMask excl d h]
  simp only [ObsData64.embed, contains_embed, containsAny_embed]

theorem remove_embed (excl : Bool) (d : ObsData64) (h : d.ExclOK excl) (old new : Mask64) :
    Pred.remove (d.embed excl) (Mask64.embed old) (Mask64.embed new) = remove d old new := by
  simp only [Pred.remove, remove, containsAny_withoutMask excl d h]
  simp only [ObsData64.embed, contains_embed, containsAny_embed]

theorem set_embed (excl : Bool) (d : ObsData64) (h : d.ExclOK excl) (mask emask : Mask64) :
    Pred.set (d.embed excl) (Mask64.embed mask) (Mask64.embed emask) = set d mask emask := by
  simp only [Pred.set, set, containsAny_withoutMask excl d h]
  simp only [ObsData64.embed, contains_embed]

end Pred64

/-! ## 5. Early-outs (only embedded masks are involved: `allWith`/`allComps` are `or`s of
    `withMask`/`compsMask`, never of a complement) -/

/-- The default-build event state with the embedded masks; the non-mask fields are arbitrary. -/
def EvtMasks64.embed (es : EvtMasks64) (observers : List Nat) (hasObservers : Bool) : EvtState :=
  { observers := observers
    hasObservers := hasObservers
    allComps := es.allComps.embed
    allWith := es.allWith.embed
    anyNoComps := es.anyNoComps
    anyNoWith := es.anyNoWith }

namespace Early64
open Mask64

theorem entity_embed (es : EvtMasks64) (os : List Nat) (ho : Bool) (m : Mask64) :
    Early.entity (es.embed os ho) (Mask64.embed m) = entity es m := by
  simp only [Early.entity, entity, EvtMasks64.embed, containsAny_embed]

theorem entityRel_embed (es : EvtMasks64) (os : List Nat) (ho : Bool) (m : Mask64) :
    Early.entityRel (es.embed os ho) (Mask64.embed m) = entityRel es m := by
  simp only [Early.entityRel, entityRel, EvtMasks64.embed, containsAny_embed]

theorem add_embed (es : EvtMasks64) (os : List Nat) (ho : Bool) (old new : Mask64) :
    Early.add (es.embed os ho) (Mask64.embed old) (Mask64.embed new) = add es old new := by
  simp only [Early.add, add, EvtMasks64.embed, containsAny_embed, contains_embed]

theorem remove_embed (es : EvtMasks64) (os : List Nat) (ho : Bool) (old new : Mask64) :
    Early.remove (es.embed os ho) (Mask64.embed old) (Mask64.embed new) = remove es old new := by
  simp only [Early.remove, remove, EvtMasks64.embed, containsAny_embed, contains_embed]

theorem set_embed (es : EvtMasks64) (os : List Nat) (ho : Bool) (mask emask : Mask64) :
    Early.set (es.embed os ho) (Mask64.embed mask) (Mask64.embed emask) = set es mask emask := by
  simp only [Early.set, set, EvtMasks64.embed, containsAny_embed]

end Early64

end Ark
