/-
  Ark.Proofs.CallbacksRelXchgInv — C08/C09 at world level for RELATION events, part 6: the events
  of `Exchange(e, add, rem, rels)` in a world WITH relation components, part 2: under the joint
  invariant with observers (`TInvObs`, setting `SettingRel`).

  * `exchangeCore_looked` — the table lookup of `World.exchange` under the invariant and the
    documented preconditions `XchgPre`: the mask it computes is `(maskOf e ∖ rem) ∪ add`, its
    `relationRemoved` flag is `removesRel w e rem` (some removed component is a relation component
    of `e`), and every entity is as before.
  * `opExchange_rel_callbacks` — the observer-free specification (`XchgCorePost`, `XchgRelPost`)
    and the result with observers (`xchgResult`) with all event instances in terms of the call:
    removal rounds on `.remove (maskOf e) new`, addition rounds on `.add (maskOf e) new`,
    `new = (maskOf e ∖ rem) ∪ add`.
  * `exchangeRel_cbs` (C08: the `cb` records appended), `exchangeRel_sees` (C09: what the rounds
    see), `exchangeRel_total` (the call is accepted).

  Hypotheses as for the observer-free specification (`opExchange_rel_spec`): the handle lies inside
  the pool slice (`hsl`; `Live.inPool`), and so do the relation targets given (`htin`).

  Kernel-only proofs, core Lean only.
-/
import Ark.Proofs.CallbacksRelXchg

set_option autoImplicit false

namespace Ark

open World Spec Ark.Props.C01World QueryExact

/-- the mask of `e` after `Exchange(e, add, rem, …)`: `(maskOf e ∖ rem) ∪ add` -/
def xchgMask (w : World) (e : Ent) (add rem : List Comp) : Mask :=
  add.foldl Mask.set (rem.foldl Mask.clear (w.maskOf e))

theorem XchgPre.noObs {w : World} {e : Ent} {add rem : List Comp} {rels : List RelID}
    (hp : XchgPre w e add rem rels) : XchgPre w.noObs e add rem rels :=
  ⟨hp.nonempty, hp.remNodup, hp.remHas, hp.addNodup, hp.addReg, hp.addNew, hp.relsNodup, hp.relsIn,
    hp.relsRel, hp.relsAll, hp.targets⟩

/-- the table lookup of `World.exchange` under the invariant and the documented preconditions: the
    new mask, whether a relation is removed, and every entity as before -/
theorem exchangeCore_looked {w : World} {fl : List Nat} (h : TInv w fl) {e : Ent} (h2 : 2 ≤ e.id)
    (hnf : e.id ∉ fl) (ha : w.alive e = true) (hsl : e.id < w.pool.ents.length)
    {add rem : List Comp} {rels : List RelID}
    (hp : XchgPre w e add rem rels) {t a : Nat} {m : Mask} {rr : Bool} {w1 : World}
    (hf : findOrCreateTable (w.index e.id).1 (w.maskOf e) add rem rels w = .ok (t, a, m, rr) w1) :
    m = xchgMask w e add rem ∧ rr = removesRel w e rem ∧
    (∀ (j : Nat), SameEnt w w1 j ∧ ∀ (c : Comp), targetOf w1 j c = targetOf w j c) ∧
    (∀ (x : Ent), w1.alive x = w.alive x) := by
  obtain ⟨hne, hrnd, hpres, hand, hreg, hnew, hrelnd, hin, hrc, hall, hval⟩ := hp
  obtain ⟨oldT, row, he, htm, _⟩ := h.link.live_entry h2 hnf ha hsl
  have hix := index_of_get he
  have hI := h.link.idx
  obtain ⟨hT, hrow, hid⟩ := hI.indexed he htm
  have hSS := h.rel.sinv
  have hS := hSS.toSInvMid
  have hTf : (w.tbl oldT).isFree = false := by
    cases hf' : (w.tbl oldT).isFree with
    | false => rfl
    | true => have := h.freeEmpty oldT _ hT hf'; omega
  obtain ⟨A, hA, i1, i2, i3, _⟩ := hS.tblArch oldT _ hT
  have hAe := arch_of_get hA
  have hTex := h.rel.aux.rels oldT _ hT hTf
  have hmo : w.maskOf e = (w.arch (w.tbl oldT).arch).mask := by simp only [maskOf, hix]
  have hk256 : w.kinds.length ≤ 256 := Nat.le_trans h.kindsLe.1 h.kindsLe.2
  have hb256 : ∀ (c : Comp), c ∈ add → c < 256 := fun c hc => Nat.lt_of_lt_of_le (hreg c hc) hk256
  have hpres' : ∀ (c : Comp), c ∈ rem → A.mask.get c = true :=
    fun c hc => by rw [← hAe, ← hmo]; exact hpres c hc
  have hnew' : ∀ (c : Comp), c ∈ add → A.mask.get c = false :=
    fun c hc => by rw [← hAe, ← hmo]; exact hnew c hc
  rw [hix] at hf
  simp only [] at hf
  have hg := graphFind_ok (w.maskOf e) add rem w hb256 hrnd hpres hand hnew
  unfold xchgMask
  obtain ⟨m0, hm⟩ : ∃ (m0 : Mask),
      m0 = add.foldl Mask.set (rem.foldl Mask.clear (w.maskOf e)) := ⟨_, rfl⟩
  rw [← hm] at hg ⊢
  have mget : ∀ (c : Comp), m0.get c =
      ((A.mask.get c && !decide (c ∈ rem)) || (decide (c < 256) && decide (c ∈ add))) := by
    intro c; rw [hm, Mask.get_ofList_foldl, Mask.get_foldl_clear, hmo, hAe]
  have mgetP : ∀ (c : Comp), m0.get c = true ↔ ((A.mask.get c = true ∧ c ∉ rem) ∨ c ∈ add) := by
    intro c
    rw [mget]
    constructor
    · intro hh
      simp only [Bool.or_eq_true, Bool.and_eq_true, Bool.not_eq_true', decide_eq_false_iff_not,
        decide_eq_true_eq] at hh
      rcases hh with k | k
      · exact Or.inl k
      · exact Or.inr k.2
    · rintro (k | k)
      · simp [k.1, k.2]
      · simp [hb256 c k, k]
  have hroot : (w.tbl 0).relIDs = [] :=
    hS.relIDs_nil (get_of_lt hSS.root.1) (by rw [hSS.root.2.1]; exact hS.root_noRel)
  have hmreg : ∀ (c : Nat), m0.get c = true → c < w.kinds.length := by
    intro c hc
    rcases (mgetP c).1 hc with k | k
    · exact hS.maskReg _ A hA c k.1
    · exact hreg c k
  have hom : ∀ (r : RelID), r ∈ (w.tbl oldT).relIDs → A.mask.get r.comp = true := by
    intro r hr
    obtain ⟨i, hi, _⟩ := hS.relCols oldT _ hT r hr
    exact (hS.mem_comps hA r.comp).1 (by rw [← i1]; exact List.mem_of_getElem? hi)
  have hkeptMem : ∀ (r : RelID),
      r ∈ ((w.tbl oldT).relIDs.filter fun r => m0.get r.comp) ↔
      r ∈ (w.tbl oldT).relIDs ∧ m0.get r.comp = true := by
    intro r; rw [List.mem_filter]
  have hxr : xchgRels (w.tbl oldT) m0 rem rels =
      ((w.tbl oldT).relIDs.filter fun r => m0.get r.comp) ++ rels := by
    apply xchgRels_eq
    intro hre r hr
    rw [mget, hom r hr, hre]; rfl
  rw [findOrCreateTable_eq_add_rel oldT _ _ add rem rels w hg hroot, hxr] at hf
  cases hadd : findOrCreateTableAdd 0 m0 []
      (((w.tbl oldT).relIDs.filter fun r => m0.get r.comp) ++ rels) w with
  | panic k s => rw [hadd] at hf; cases hf
  | ok res w1' =>
    rw [hadd] at hf
    obtain ⟨t', a', m'⟩ := res
    injection hf with h1 h2'
    subst h2'
    obtain ⟨e1, e2, e3, e4⟩ : t' = t ∧ a' = a ∧ m' = m ∧
        xchgRelRemoved (w.tbl oldT) m0 rem = rr := by
      simp only [Prod.mk.injEq] at h1
      exact h1
    subst e1 e2 e3
    obtain ⟨hm', ar⟩ := h.rel.findOrCreateTableAdd' h.flags h.freeEmpty hmreg
      (fun c hc => by cases hc) hSS.root.1 hS.root_notFree
      (by
        rw [hroot, List.nil_append, List.map_append, List.nodup_append]
        refine ⟨(hTex.nodup).sublist (List.Sublist.map _ List.filter_sublist), hrelnd, ?_⟩
        intro c hc1 c' hc2 heq
        obtain ⟨r1, hr1, rfl⟩ := List.mem_map.1 hc1
        obtain ⟨r2, hr2, rfl⟩ := List.mem_map.1 hc2
        have k1 := hom r1 ((hkeptMem r1).1 hr1).1
        have k2 := hnew' r2.comp (hin r2 hr2)
        rw [← heq, k1] at k2; cases k2) hadd
    refine ⟨hm', ?_, ar.frame hI h.freeEmpty, fun x => by simp only [World.alive, ar.foc.pool]⟩
    -- a relation is removed iff some removed component is a relation column of the table
    rw [← e4]
    unfold removesRel xchgRelRemoved
    cases hre : rem.isEmpty with
    | true =>
      have : rem = [] := by
        cases rem with
        | nil => rfl
        | cons _ _ => cases hre
      subst this
      rfl
    | false =>
      simp only [Bool.not_false, if_true]
      rw [Bool.eq_iff_iff, List.any_eq_true, List.any_eq_true]
      constructor
      · rintro ⟨r, hr, hb⟩
        obtain ⟨i, k1, k2, k3⟩ := hTex.sound r hr
        have hcm : A.mask.get r.comp = true := hom r hr
        have hin' : r.comp ∈ rem := by
          have hb' : m0.get r.comp = false := by simpa using hb
          cases hmm : decide (r.comp ∈ rem) with
          | true => exact of_decide_eq_true hmm
          | false =>
            rw [mget, hcm, hmm] at hb'
            simp at hb'
        refine ⟨r.comp, hin', ?_⟩
        have hci : (w.tbl oldT).colIdx r.comp = some i :=
          Table.colIdx_of_get (hS.ids_nodup hT) k1
        rw [targetOf_of_entry he htm hT, Table.targetAt_of_col hci k2]
        rfl
      · rintro ⟨c, hc, hs⟩
        obtain ⟨t0, r0, k, T, g1, _, g3, g4, g5⟩ := targetOf_isSome hs
        rw [he] at g1
        obtain ⟨rfl, rfl⟩ := Prod.mk.inj (Option.some.inj g1)
        rw [hT] at g3
        obtain rfl := Option.some.inj g3
        have hget := Table.colIdx_get g4
        refine ⟨⟨c, (w.tbl oldT).targets.getD k Ent.zero⟩, hTex.complete k c hget g5, ?_⟩
        have hnadd : c ∉ add := by
          intro hca
          have k1 := hnew' c hca
          rw [hpres' c hc] at k1; cases k1
        rw [mget]
        simp [hc, hnadd]

section Ops

variable {run : ProbeRunner} {S : Probe → Prop} {rec : World → Nat → Ent → Probe → List LogEv}

/-- **`Exchange(e, add, rem, rels)` with observers under the invariant, relation components
    included** (C08 + C09 for `Exchange`).  For a live entity and arguments satisfying the
    documented preconditions `XchgPre`: `w1` is the world without observers after the table lookup
    — every entity as before the call —, `w2` the observer-free result of `World.exchange`
    (`XchgCorePost`), `w0 = writeValsW w2 e vals` the observer-free result of the call
    (`XchgRelPost`).  With observers the call succeeds as well; its result is `xchgResult`: `w0`
    with the observers of `w`, the lock state `lockAfterX2`, and the log extended, in this order, by
    * (if `rem ≠ []`) the `OnRemoveComponents` observers the documented rule selects for
      `.remove (maskOf e) new` and then — exactly when some removed component is a relation
      component of `e` (`removesRel`) — the `OnRemoveRelations` observers selected for the same
      instance, all run on `w1` LOCKED (one lock for both rounds), before the entity is moved;
    * (unless the path is `Unsafe` and `add = []`) the `OnAddComponents` observers selected for
      `.add (maskOf e) new` and then — exactly when relation targets are given — the
      `OnAddRelations` observers selected for the same instance, run on `w2` (with the values
      written on the typed path);
    where `new = (maskOf e ∖ rem) ∪ add` is the mask after the COMPLETE exchange. -/
theorem opExchange_rel_callbacks (hro : ReadOnly run S rec) (run0 : ProbeRunner) (p : Path)
    {w : World} {fl : List Nat} (hs : ScriptsIn w.obs S) (h : TInvObs w fl)
    (hl : w.isLocked = false) {e : Ent} (h2 : 2 ≤ e.id) (hnf : e.id ∉ fl) (ha : w.alive e = true)
    (hsl : e.id < w.pool.ents.length)
    {add rem : List Comp} {rels : List RelID} (hp : XchgPre w e add rem rels)
    (vals : List (Comp × Val))
    (htin : ∀ (r : RelID), r ∈ rels → r.target.id < w.pool.ents.length)
    (hfew : w.tables.length < maxU32) (hrows : w.entities.length + 1 < 2 ^ 32)
    {l1 l2 : Lock} {b : Nat} (hL : LockCycle w.locks l1 b l2) :
    ∃ (w1 w2 w0 : World),
      (∀ (j : Nat), SameEnt w.noObs w1 j ∧ ∀ (c : Comp), targetOf w1 j c = targetOf w.noObs j c) ∧
      (∀ (x : Ent), w1.alive x = w.alive x) ∧
      exchangeCore run0 e add rem rels w.noObs = .ok (w.maskOf e, xchgMask w e add rem) w2 ∧
      XchgCorePost w.noObs fl e add rem rels w2 ∧
      opExchange run0 p e add vals rem rels w.noObs = .ok () w0 ∧ w0 = writeValsW w2 e vals ∧
      XchgRelPost w.noObs fl e add rem vals rels w0 ∧
      opExchange run p e add vals rem rels w = .ok ()
        (xchgResult rec w w1 w2 p e add vals rem rels (removesRel w e rem) (w.maskOf e)
          (xchgMask w e add rem) (xchgMask w e add rem) l1 l2) := by
  have hp0 := hp.noObs
  obtain ⟨w2', hcore0, cp⟩ := exchangeCore_rel_spec run0 h.tinv hl (noObs_hasObservers w) h2 hnf ha
    hsl hp0 htin hfew hrows
  obtain ⟨w0, hop0, post⟩ := opExchange_rel_spec run0 p h.tinv hl (noObs_hasObservers w) h2 hnf ha
    hsl hp0 vals htin hfew hrows
  obtain ⟨old, new, m, t, a, rr, w1, w2, hf, hc, _, _, _, hw0, hop⟩ :=
    opExchange_rel_transfer_ok hro run0 p e add vals rem rels w hs h.obs hL hop0
  rw [hcore0] at hc
  injection hc with e1 e2
  obtain ⟨e3, e4⟩ := Prod.mk.inj e1
  subst e2
  obtain ⟨em, err, hframe, hal⟩ := exchangeCore_looked h.tinv h2 hnf ha hsl hp0 hf
  have em' : m = xchgMask w e add rem := em
  have err' : rr = removesRel w e rem := err
  have e3' : old = w.maskOf e := e3.symm
  have e4' : new = xchgMask w e add rem := e4.symm
  subst em' err' e3' e4'
  exact ⟨w1, w2', w0, hframe, hal, hcore0, cp, hop0, hw0, post, hop⟩

/-- **C08 for `Exchange` with relation components**: an `Exchange` satisfying the documented
    preconditions is accepted with any set of registered observers; the result is the
    observer-free result with the observers put back (`FrameOf`); the `cb` records appended are —
    oldest first — `(l, e)` for the `OnRemoveComponents` observers selected, then the
    `OnRemoveRelations` observers, then the `OnAddComponents` observers, then the `OnAddRelations`
    observers, each in registration order, once -/
theorem exchangeRel_cbs {w : World} {fl : List Nat} (st : SettingRel run S rec w fl)
    (run0 : ProbeRunner) (p : Path) (hl : w.isLocked = false) {e : Ent} (he : Live w fl e)
    {add rem : List Comp} {rels : List RelID} (hp : XchgPre w e add rem rels)
    (vals : List (Comp × Val))
    (htin : ∀ (r : RelID), r ∈ rels → r.target.id < w.pool.ents.length)
    (hfew : w.tables.length < maxU32) (hrows : w.entities.length + 1 < 2 ^ 32)
    {l1 l2 : Lock} {b : Nat} (hL : LockCycle w.locks l1 b l2) :
    ∃ (w0 w' : World),
      opExchange run0 p e add vals rem rels w.noObs = .ok () w0 ∧
      XchgRelPost w.noObs fl e add rem vals rels w0 ∧
      opExchange run p e add vals rem rels w = .ok () w' ∧ FrameOf w0 w w' ∧
      w'.locks = lockAfterX2 w rem (removesRel w e rem) l2 ∧
      cbsOf w'.log =
        ((firingXAddRel w.obs p add rels
            (.add (w.maskOf e) (xchgMask w e add rem))).map fun l => (l, e)).reverse ++
        (((firingXAdd w.obs p add
            (.add (w.maskOf e) (xchgMask w e add rem))).map fun l => (l, e)).reverse ++
        (((firingXRemRel w.obs rem (removesRel w e rem)
            (.remove (w.maskOf e) (xchgMask w e add rem))).map fun l => (l, e)).reverse ++
        (((firingXRem w.obs rem
            (.remove (w.maskOf e) (xchgMask w e add rem))).map fun l => (l, e)).reverse ++
          cbsOf w.log))) := by
  obtain ⟨w1, w2, w0, _, _, _, _, h5, h6, h7, h8⟩ := opExchange_rel_callbacks st.ro run0 p st.scripts
    st.inv hl he.ge2 he.notFree he.alive he.inPool hp vals htin hfew hrows hL
  refine ⟨w0, _, h5, h7, h8, ?_, rfl, ?_⟩
  · rw [h6]; exact frameOf_reframe _ _ _ _
  · show cbsOf (xAddRounds rec w.obs p e add rels _ _ ++ xchgLogB rec w w1 e rem _ _ _ l1) = _
    unfold xchgLogB
    rw [cbsOf_xAddRounds st.noCb, cbsOf_xRemRounds st.noCb]

/-- **`Exchange` is accepted** under the documented preconditions, with any set of registered
    observers (given a lock that hands out a bit) -/
theorem exchangeRel_total {w : World} {fl : List Nat} (st : SettingRel run S rec w fl) (p : Path)
    (hl : w.isLocked = false) {e : Ent} (he : Live w fl e)
    {add rem : List Comp} {rels : List RelID} (hp : XchgPre w e add rem rels)
    (vals : List (Comp × Val))
    (htin : ∀ (r : RelID), r ∈ rels → r.target.id < w.pool.ents.length)
    (hfew : w.tables.length < maxU32) (hrows : w.entities.length + 1 < 2 ^ 32)
    {l1 l2 : Lock} {b : Nat} (hL : LockCycle w.locks l1 b l2) :
    ∃ (w' : World), opExchange run p e add vals rem rels w = .ok () w' := by
  obtain ⟨_, w', _, _, h, _⟩ := exchangeRel_cbs st run p hl he hp vals htin hfew hrows hL
  exact ⟨w', h⟩

/-- **C09 for `Exchange` with relation components**: what the rounds of callbacks see.  The log of
    the result is `w.log` extended by the removal rounds run on `seenB` and then the addition
    rounds run on `seenA`, where
    * `seenB` (before) is LOCKED, has the observers and the log of `w`, and every entity is as in
      `w`: same components and values, same relation targets — in particular `e` still has the
      components and targets about to be removed —, same liveness;
    * `seenA` (after) carries the final lock state (the removal lock has been released) and the
      log after the removal rounds; it is the observer-free result of `World.exchange` (`w2`,
      `XchgCorePost`: new component set, kept values and targets, added components zero with the
      targets given, removed ones gone) on the `Unsafe` path, and the observer-free result of the
      call (`w0`, `XchgRelPost`: the values written) on the typed path, each with the observers
      of `w` put back. -/
theorem exchangeRel_sees {w : World} {fl : List Nat} (st : SettingRel run S rec w fl)
    (run0 : ProbeRunner) (p : Path) (hl : w.isLocked = false) {e : Ent} (he : Live w fl e)
    {add rem : List Comp} {rels : List RelID} (hp : XchgPre w e add rem rels)
    (vals : List (Comp × Val))
    (htin : ∀ (r : RelID), r ∈ rels → r.target.id < w.pool.ents.length)
    (hfew : w.tables.length < maxU32) (hrows : w.entities.length + 1 < 2 ^ 32)
    {l1 l2 : Lock} {b : Nat} (hL : LockCycle w.locks l1 b l2) :
    ∃ (seenB seenA w2 w0 w' : World),
      opExchange run p e add vals rem rels w = .ok () w' ∧
      w'.log =
        xAddRounds rec w.obs p e add rels (.add (w.maskOf e) (xchgMask w e add rem)) seenA ++
        (xRemRounds rec w.obs e rem (removesRel w e rem)
          (.remove (w.maskOf e) (xchgMask w e add rem)) seenB ++ w.log) ∧
      -- before
      seenB.isLocked = true ∧ seenB.obs = w.obs ∧ seenB.log = w.log ∧
      (∀ (j : Nat), SameEnt w seenB j) ∧
      (∀ (j : Nat) (c : Comp), targetOf seenB j c = targetOf w j c) ∧
      (∀ (x : Ent), seenB.alive x = w.alive x) ∧
      -- after
      exchangeCore run0 e add rem rels w.noObs = .ok (w.maskOf e, xchgMask w e add rem) w2 ∧
      XchgCorePost w.noObs fl e add rem rels w2 ∧
      opExchange run0 p e add vals rem rels w.noObs = .ok () w0 ∧
      XchgRelPost w.noObs fl e add rem vals rels w0 ∧
      seenA.locks = w'.locks ∧
      seenA.log = xRemRounds rec w.obs e rem (removesRel w e rem)
          (.remove (w.maskOf e) (xchgMask w e add rem)) seenB ++ w.log ∧
      (p = .unsafe_ → FrameOf w2 w seenA) ∧
      (p ≠ .unsafe_ → FrameOf w0 w seenA ∧ seenA = { w' with log := seenA.log }) := by
  obtain ⟨w1, w2, w0, hframe, hal, h3, h4, h5, h6, h7, h8⟩ := opExchange_rel_callbacks st.ro run0 p
    st.scripts st.inv hl he.ge2 he.notFree he.alive he.inPool hp vals htin hfew hrows hL
  refine ⟨w1.reframe w.obs w.log l1,
    xchgSeenA rec w w1 w2 p e vals rem (removesRel w e rem) (w.maskOf e) (xchgMask w e add rem) l1 l2,
    w2, w0, _, h8, rfl, LockCycle.locked hL, rfl, rfl, fun j => (hframe j).1, fun j => (hframe j).2,
    hal, h3, h4, h5, h7, rfl, rfl, ?_, ?_⟩
  · intro hpu
    subst hpu
    rfl
  · intro hpu
    have : seenAfter p w2 e vals = w0 := by
      unfold seenAfter
      rw [if_neg hpu, h6]
    unfold xchgSeenA
    rw [this]
    refine ⟨rfl, ?_⟩
    unfold xchgResult
    rw [← h6]
    rfl

end Ops

/-! ## which mask pairs the rounds are evaluated on, in terms of the call -/

theorem xchgMask_get (w : World) (e : Ent) (add rem : List Comp) (c : Comp) :
    (xchgMask w e add rem).get c =
      (((w.maskOf e).get c && !decide (c ∈ rem)) || (decide (c < 256) && decide (c ∈ add))) := by
  unfold xchgMask
  rw [Mask.get_ofList_foldl, Mask.get_foldl_clear]

/-- **the removal rounds, in terms of the call**: an observer's specification fires for the
    instance `.remove (maskOf e) new` of `Exchange(e, add, rem, …)` iff it has no `For` components
    or all of them are among `rem`, and its `With` / `Without` / `Exclusive` conditions hold for
    the mask of `e` BEFORE the call -/
theorem fires_xchg_remove_iff {w : World} {e : Ent} {add rem : List Comp} {rels : List RelID}
    (hp : XchgPre w e add rem rels) (s : ObsSpec) :
    Spec.fires s (.remove (w.maskOf e) (xchgMask w e add rem)) ↔
      (s.comps = [] ∨ ∀ (c : Comp), c ∈ s.comps → c ∈ rem) ∧
        Spec.allIn s.with_ (w.maskOf e) ∧ Spec.withoutOK s s.with_ (w.maskOf e) := by
  unfold Spec.fires
  refine and_congr (or_congr Iff.rfl ⟨?_, ?_⟩) Iff.rfl
  · rintro ⟨h1, h2⟩ c hc
    have k1 := h1 c hc
    have k2 := h2 c hc
    rw [xchgMask_get, k1] at k2
    cases hm : decide (c ∈ rem) with
    | true => exact of_decide_eq_true hm
    | false => rw [hm] at k2; simp at k2
  · intro h
    refine ⟨fun c hc => hp.remHas c (h c hc), fun c hc => ?_⟩
    have hr := h c hc
    have hna : c ∉ add := by
      intro hca
      have := hp.addNew c hca
      rw [hp.remHas c hr] at this; cases this
    rw [xchgMask_get]
    simp [hr, hna]

/-- **the addition rounds, in terms of the call**: an observer's specification fires for the
    instance `.add (maskOf e) new` of `Exchange(e, add, rem, …)` iff it has no `For` components or
    all of them are among `add`, and its `With` / `Without` / `Exclusive` conditions hold for the
    mask of `e` BEFORE the call (NOT the mask after it) -/
theorem fires_xchg_add_iff {w : World} {e : Ent} {add rem : List Comp} {rels : List RelID}
    (hp : XchgPre w e add rem rels) (hk : w.kinds.length ≤ 256) (s : ObsSpec) :
    Spec.fires s (.add (w.maskOf e) (xchgMask w e add rem)) ↔
      (s.comps = [] ∨ ∀ (c : Comp), c ∈ s.comps → c ∈ add) ∧
        Spec.allIn s.with_ (w.maskOf e) ∧ Spec.withoutOK s s.with_ (w.maskOf e) := by
  unfold Spec.fires
  refine and_congr (or_congr Iff.rfl ⟨?_, ?_⟩) Iff.rfl
  · rintro ⟨h1, h2⟩ c hc
    have k1 := h1 c hc
    have k2 := h2 c hc
    rw [xchgMask_get, k2] at k1
    simp at k1
    exact k1.2
  · intro h
    refine ⟨fun c hc => ?_, fun c hc => hp.addNew c (h c hc)⟩
    have ha := h c hc
    have : c < 256 := Nat.lt_of_lt_of_le (hp.addReg c ha) hk
    rw [xchgMask_get]
    simp [ha, this]

/-- with nothing added the new mask is a subset of the old one: the instance `.add old new` then
    selects only observers WITHOUT `For` components (wildcards) -/
theorem fires_add_shrunk {s : ObsSpec} {old new : Mask}
    (hsub : ∀ (c : Comp), new.get c = true → old.get c = true)
    (h : Spec.fires s (.add old new)) : s.comps = [] := by
  unfold Spec.fires at h
  rcases h.1 with h1 | ⟨h1, h2⟩
  · exact h1
  · cases hc : s.comps with
    | nil => rfl
    | cons c cs =>
      have hm : c ∈ s.comps := by rw [hc]; exact List.mem_cons_self
      have k1 := hsub c (h1 c hm)
      rw [h2 c hm] at k1; cases k1

/-- **the path matters exactly for pure removals** (`add = []`): then `Unsafe.Exchange` runs no
    addition round at all, while the typed path runs the `OnAddComponents` round — which can only
    select observers without `For` components -/
theorem firingXAdd_nil_add {m : ObsMgr} {p : Path} {w : World} {e : Ent} {rem : List Comp} {l : Nat}
    (h : l ∈ firingXAdd m p [] (.add (w.maskOf e) (xchgMask w e [] rem))) :
    p ≠ .unsafe_ ∧ (m.obj l).spec.comps = [] := by
  unfold firingXAdd at h
  split at h
  · cases h
  · rename_i hn
    refine ⟨fun hp => hn ⟨hp, rfl⟩, ?_⟩
    refine fires_add_shrunk (fun c hc => ?_) (mem_firing.1 h).2
    rw [xchgMask_get] at hc
    simp at hc
    exact hc.1

/-- otherwise the path makes no difference for WHICH observers are notified -/
theorem firingX_path_indep (m : ObsMgr) (p p' : Path) {add : List Comp} (hne : add ≠ [])
    (rels : List RelID) (ev : EvInst) :
    firingXAdd m p add ev = firingXAdd m p' add ev ∧
    firingXAddRel m p add rels ev = firingXAddRel m p' add rels ev := by
  unfold firingXAdd firingXAddRel
  have h1 : ¬ (p = .unsafe_ ∧ add = []) := fun h => hne h.2
  have h2 : ¬ (p' = .unsafe_ ∧ add = []) := fun h => hne h.2
  simp only [h1, h2, if_false, and_self]

/-- under the documented preconditions a pure removal names no relation: the `OnAddRelations`
    round is never at stake when the path matters -/
theorem XchgPre.rels_nil_of_add_nil {w : World} {e : Ent} {rem : List Comp} {rels : List RelID}
    (hp : XchgPre w e [] rem rels) : rels = [] := by
  cases rels with
  | nil => rfl
  | cons r rs => exact absurd (hp.relsIn r List.mem_cons_self) (by simp)

end Ark
