/-
  Ark.Proofs.RelRefineBatchDel — the batch removal `World.RemoveEntities(batch, nil)` on a world
  WITH relations as a step of the relation refinement machine (`RelRefineB.OpRB.delb`): removed
  entities may be relation TARGETS of others (also of each other), whose relations are zeroed.

  * `entMatches_iff`, `sel_spec` — at a state satisfying the invariant, the entities the MODEL's
    batch selects (`selEnts`: table by table, row by row) are exactly the entities the
    SPECIFICATION selects (`matching`: mask test on the key set, recorded relations).
  * `HInv.removedAll` — **any** world that satisfies `RemovedAllRelPost` for a duplicate-free list
    `es` of specified handles (the batch's world, and the world of the single removals in any
    order) realises the specification `specDelAll ss es`: the invariant of the machine is kept,
    with the removed IDs pushed on the free list in the order of `es`.
  * `step_delb` — the step: the model operation succeeds; the specification step is the fold of
    the single `RemoveEntity` steps over the selection; `HInvRB` is kept.
  * `runOps_dels`, `delb_eq_singles` — **batch = singles** as steps of the machine: the step
    `delb` and the run of `del e` over the selected entities (in the batch's order) reach the same
    specification, handles and pool, and worlds that agree on liveness, components, values and
    relation targets.

  Kernel-only proofs, core Lean only.
-/
import Ark.Proofs.RelRefineBatch

set_option autoImplicit false

namespace Ark

open World Ark.Props.C01World QueryRel

namespace RelRefineB

open RelRefine
open Refine (Comps keys sortedIds writeComps zeros)

/-! ## model selection = specification selection -/

theorem ofList_sortedIds {n : Nat} {ks : List Comp} (h : ∀ c ∈ ks, c < n) :
    Mask.ofList (sortedIds n ks) = Mask.ofList ks := by
  apply Mask.ext_get
  intro c _
  rw [Mask.get_ofList, Mask.get_ofList]
  have hiff : c ∈ sortedIds n ks ↔ c ∈ ks :=
    ⟨fun hh => (Refine.mem_sortedIds.mp hh).2, fun hh => Refine.mem_sortedIds.mpr ⟨h c hh, hh⟩⟩
  by_cases hc : c ∈ ks
  · simp [hc, hiff.mpr hc]
  · have hn : c ∉ sortedIds n ks := fun hh => hc (hiff.mp hh)
    simp [hc, hn]

/-- an expressible filter has typed relation constraints -/
theorem relsTyped_of_expr {s : St} {fl : List Nat} (H : HInv s fl) {f : Filter} {frels : Rels}
    (h : frelsExpr s.ss f frels = true) :
    RelsTyped s.w (foOf f frels).filter ((foOf f frels).rels ++ []) := by
  intro r hr
  rw [List.append_nil] at hr
  have := List.all_eq_true.mp h r hr
  rw [Bool.and_eq_true] at this
  exact ⟨by rw [← H.rget]; exact this.1, this.2⟩

/-- **for a specified entity, the model's test is the specification's test** -/
theorem entMatches_iff {s : St} {fl : List Nat} (H : HInv s fl) {e : Ent} {en : Entry}
    (hm : (e, en) ∈ s.ss.ents) (f : Filter) (frels : Rels) :
    EntMatches s.w f frels e.id ↔ entryMatches f frels en = true := by
  have ok := H.ok e en hm
  simp only [EntMatches, entryMatches, Bool.and_eq_true, List.all_eq_true, decide_eq_true_eq]
  constructor
  · rintro ⟨⟨cs, hcs, hmm⟩, hall⟩
    rw [ok.comps] at hcs
    injection hcs with hcs
    subst hcs
    rw [ofList_sortedIds ok.reg] at hmm
    refine ⟨hmm, fun r hr => ?_⟩
    have ht := hall r hr
    have hs : (targetOf s.w e.id r.comp).isSome = true := by rw [ht]; rfl
    obtain ⟨r', hr', hc⟩ := List.mem_map.mp ((H.target_isSome_iff hm r.comp).mp hs)
    have h1 := ok.tgts r' hr'
    rw [hc, ht] at h1
    have h2 : r' = r := by
      obtain ⟨c1, t1⟩ := r'
      obtain ⟨c2, t2⟩ := r
      simp only at hc h1
      injection h1 with h1
      subst hc; subst h1; rfl
    exact h2 ▸ hr'
  · rintro ⟨hmm, hall⟩
    exact ⟨⟨_, ok.comps, by rw [ofList_sortedIds ok.reg]; exact hmm⟩,
      fun r hr => ok.tgts r (hall r hr)⟩

/-- **the selection of a batch**: the table selection succeeds without changing the world, and the
    handles in the rows of the selected tables are exactly the specified entities the filter
    matches; their IDs are pairwise different -/
theorem sel_spec {s : St} {fl : List Nat} (H : HInvRB s fl) {f : Filter} {frels : Rels}
    (hg : frelsExpr s.ss f frels = true) :
    ∃ ts, getBatchTables (foOf f frels) [] s.w = .ok ts s.w ∧ TableSet s.w ts ∧
      selEnts s.w f frels = ts.flatMap (rowsOf s.w) ∧
      (∀ e, e ∈ selEnts s.w f frels ↔ e ∈ matching s.ss f frels) ∧
      ((selEnts s.w f frels).map (·.id)).Nodup ∧
      (selEnts s.w f frels).length ≤ s.w.entities.length := by
  have h := H.hinv.tinv
  have hr := relsTyped_of_expr H.hinv hg
  obtain ⟨ts, hts, S, hok, _⟩ := getBatchTables_rel h (foOf f frels) [] rfl hr
  have hsel : selEnts s.w f frels = ts.flatMap (rowsOf s.w) := by simp only [selEnts, hts]
  have u := removeTablesW_link h.link H.rows S
  refine ⟨ts, hts, S, hsel, ?_, by rw [hsel]; exact u.idsNodup,
    by rw [hsel]; exact rows_length_le h.link H.rows S⟩
  intro e
  rw [hsel, mem_matching]
  have hmr := mem_rows_iff_matches h H.rows hok e
  have hfr : (foOf f frels).rels ++ [] = frels := List.append_nil _
  rw [hfr] at hmr
  constructor
  · intro he
    obtain ⟨h2, hnf, ha, t, r, _, hx⟩ := u.live e he
    have hin : e.id < s.w.pool.ents.length := by
      rw [← h.link.lenEq]; exact (List.getElem?_eq_some_iff.mp hx).1
    obtain ⟨_, _, _, _, hs⟩ := h.link.live_entry h2 hnf ha hin
    have hl : e ∈ s.ps.live := (H.hinv.ginv.live_iff e).mpr ⟨h2, hnf, hs⟩
    obtain ⟨x, hx', rfl⟩ := List.mem_map.mp hl
    exact ⟨x.2, hx', (entMatches_iff H.hinv hx' f frels).mp (hmr.mp he).2⟩
  · rintro ⟨en, hx, hmm⟩
    exact hmr.mpr ⟨(H.hinv.live_facts hx).2.1, (entMatches_iff H.hinv hx f frels).mpr hmm⟩

/-- the selected handles are pairwise different -/
theorem nodup_of_ids {l : List Ent} (h : (l.map (·.id)).Nodup) : l.Nodup :=
  nodup_of_map (·.id) h

/-! ## any world that removed `es` realises the fold of the single removals -/

/-- **the removal of a duplicate-free list of specified handles keeps the invariant**, whatever
    produced the world (`RemovedAllRelPost`: the batch, or the single removals in any order):
    the specification is the fold of the single `del` steps — the entries of `es` dropped, every
    target among `es` zeroed — and the removed IDs are pushed on the free list in order -/
theorem HInv.removedAll {s : St} {fl : List Nat} (H : HInv s fl) {es : List Ent} {w' : World}
    (hsub : ∀ e ∈ es, e ∈ s.ss.ents.map (·.1)) (hes : es.Nodup)
    (p : RemovedAllRelPost s.w fl es w') :
    HInv ⟨w', s.issued, specDelAll s.ss es⟩ (es.reverse.map (·.id) ++ fl) := by
  have hnd := H.ginv.live_nodup
  have hmem := @mem_specDelAll s.ss hnd es hsub hes
  have hkeys : ∀ x : Ent, x ∈ (specDelAll s.ss es).ents.map (·.1) ↔
      x ∈ s.ss.ents.map (·.1) ∧ x ∉ es := by
    intro x
    constructor
    · intro hx
      obtain ⟨y, hy, rfl⟩ := List.mem_map.mp hx
      obtain ⟨en, h1, h2, _⟩ := hmem.mp (show (y.1, y.2) ∈ _ from hy)
      exact ⟨List.mem_map.mpr ⟨(y.1, en), h1, rfl⟩, h2⟩
    · rintro ⟨hx, hne⟩
      obtain ⟨y, hy, rfl⟩ := List.mem_map.mp hx
      exact List.mem_map.mpr ⟨(y.1, detachAll es y.2), hmem.mpr ⟨y.2, hy, hne, rfl⟩, rfl⟩
  have hkeysNd : ((specDelAll s.ss es).ents.map (·.1)).Nodup := by
    rw [specDelAll_ents es s.ss hnd hsub hes, List.map_map]
    exact (List.Sublist.map _ List.filter_sublist).nodup hnd
  -- an entry that stays has an ID different from the removed ones
  have hid : ∀ (x : Ent) (en : Entry), (x, en) ∈ s.ss.ents → x ∉ es → x.id ∉ es.map (·.id) := by
    intro x en hx hne hmm
    obtain ⟨e, he, heq⟩ := List.mem_map.mp hmm
    obtain ⟨y, hy, hy1⟩ := List.mem_map.mp (hsub e he)
    have : e = x := H.id_inj (show (e, y.2) ∈ s.ss.ents from hy1 ▸ hy) hx heq
    exact hne (this ▸ he)
  exact
    { tinv := p.tinv
      ginv := by
        have hlive : ∀ e ∈ es, e ∈ s.ps.live := hsub
        obtain ⟨fl1, g1⟩ := ginv_recycleAll es s.ps fl H.ginv hlive hes
        have g2 : Pool.GInv ⟨w'.pool, s.issued, (specDelAll s.ss es).ents.map (·.1)⟩ fl1 := by
          rw [p.pool]
          refine ginv_of_mem g1 hkeysNd ?_
          intro x
          rw [mem_foldl_erase _ _ hnd]
          exact hkeys x
        have hfl : fl1 = es.reverse.map (·.id) ++ fl := g2.pinv.unique p.tinv.link.pool
        rw [← hfl]
        exact g2
      unlocked := by show w'.locks.isLocked = false; rw [p.locks]; exact H.unlocked
      noObs := fun evt => by show w'.obs.hasObservers evt = false; rw [p.obs]; exact H.noObs evt
      nodup := H.nodup
      zstEq := by
        show (specDelAll s.ss es).zst = w'.kinds.map (·.zst)
        rw [specDelAll_zst, p.kinds]; exact H.zstEq
      relEq := by
        show (specDelAll s.ss es).isRel = w'.kinds.map (·.isRel)
        rw [specDelAll_isRel, p.kinds]; exact H.relEq
      maxc := p.maxComps.trans H.maxc
      ok := by
        intro x en' hx
        show EntOK w' w'.kinds.length (specDelAll s.ss es).isRel x en'
        rw [p.kinds, specDelAll_isRel]
        obtain ⟨en, hx0, hne, rfl⟩ := hmem.mp hx
        have ok := H.ok x en hx0
        obtain ⟨hsame, htg⟩ := p.frame x.id (hid x en hx0 hne)
        exact
          { nodup := ok.nodup
            reg := ok.reg
            comps := by rw [hsame.2]; exact ok.comps
            vals := fun cv hcv => by rw [hsame.1]; exact ok.vals cv hcv
            relNodup := by
              show ((en.rels.map (zeroInRel es)).map (·.comp)).Nodup
              rw [List.map_map]; exact ok.relNodup
            relKeys := by
              intro c
              show c ∈ (en.rels.map (zeroInRel es)).map (·.comp) ↔ _
              rw [List.map_map]; exact ok.relKeys c
            tgts := by
              intro r' hr'
              obtain ⟨r, hr, rfl⟩ := List.mem_map.mp (show r' ∈ en.rels.map (zeroInRel es) from hr')
              show targetOf w' x.id r.comp = some (zeroIn es r.target)
              rw [htg r.comp, ok.tgts r hr]; rfl }
      tgtsOK := by
        intro x en' hx r' hr'
        obtain ⟨en, hx0, hne, rfl⟩ := hmem.mp hx
        obtain ⟨r, hr, rfl⟩ := List.mem_map.mp (show r' ∈ en.rels.map (zeroInRel es) from hr')
        show (zeroIn es r.target).isZero = true ∨
          (find (specDelAll s.ss es).ents (zeroIn es r.target)).isSome = true
        by_cases hm : r.target ∈ es
        · left; rw [zeroIn_of_mem hm]; rfl
        · rw [zeroIn_of_not_mem hm]
          rcases H.tgtsOK x en hx0 r hr with k | k
          · exact Or.inl k
          · right
            rw [find_isSome_iff] at k ⊢
            exact (hkeys _).mpr ⟨k, hm⟩ }

/-! ## the step -/

theorem stepRB_delb_of_ok (run : ProbeRunner) {s : St} {f : Filter} {frels : Rels}
    (hg : guardRB s (.delb f frels) = true) {w' : World}
    (hop : opRemoveEntities run (foOf f frels) [] false s.w = .ok () w') :
    stepRB run s (.delb f frels) = ⟨w', s.issued, specStepRB s.ss [] (.delb f frels)⟩ := by
  show stepBatch run s (.delb f frels) = _
  simp only [stepBatch, hg, if_true, execRB, hop, Res.state, retRB, List.reverse_nil,
    List.nil_append]

/-- **the batch removal as a step of the machine.**  For an expressible filter and within the
    size bound: the model operation succeeds; the specification step is the fold of the single
    `RemoveEntity` steps over the selection; the world satisfies `RemovedAllRelPost` for the
    selected entities; the invariant `HInvRB` is kept with the removed IDs pushed on the free list
    in the batch's order. -/
theorem step_delb (run : ProbeRunner) {s : St} {fl : List Nat} (H : HInvRB s fl) (f : Filter)
    (frels : Rels) (hg : guardRB s (.delb f frels) = true) (hroom : Room s (.delb f frels)) :
    ∃ w' : World,
      opRemoveEntities run (foOf f frels) [] false s.w = .ok () w' ∧
      stepRB run s (.delb f frels) = ⟨w', s.issued, specStepRB s.ss [] (.delb f frels)⟩ ∧
      RemovedAllRelPost s.w fl (selEnts s.w f frels) w' ∧
      specStepRB s.ss [] (.delb f frels) = specDelAll s.ss (selEnts s.w f frels) ∧
      HInvRB (stepRB run s (.delb f frels)) ((selEnts s.w f frels).reverse.map (·.id) ++ fl) := by
  have h := H.hinv.tinv
  have hgx : frelsExpr s.ss f frels = true := hg
  obtain ⟨hfew, hrows⟩ := hroom
  obtain ⟨ts, hts, S, hsel, hiff, hids, hlen⟩ := sel_spec H hgx
  have hfewB : s.w.tables.length + (cleanupList s.w ts).length * s.w.relationArchetypes.length + 1 ≤
      maxU32 := by
    have h1 : (cleanupList s.w ts).length ≤ (ts.flatMap (rowsOf s.w)).length :=
      List.length_filter_le _ _
    rw [← hsel] at h1
    have := Nat.mul_le_mul_right s.w.relationArchetypes.length (Nat.le_trans h1 hlen)
    omega
  obtain ⟨w', hb, pb⟩ := opRemoveEntities_rel_spec run h H.rows H.hinv.unlocked H.hinv.noObs
    (foOf f frels) [] hts S hfewB hrows
  rw [← hsel] at pb
  have hstep := stepRB_delb_of_ok run hg hb
  have hnd := H.hinv.ginv.live_nodup
  have hsub : ∀ e ∈ selEnts s.w f frels, e ∈ s.ss.ents.map (·.1) :=
    fun e he => matching_sub ((hiff e).mp he)
  have hspec : specStepRB s.ss [] (.delb f frels) = specDelAll s.ss (selEnts s.w f frels) :=
    specDelAll_perm hnd (fun e he => matching_sub he) (matching_nodup hnd f frels)
      (nodup_of_ids hids) (fun e => (hiff e).symm)
  refine ⟨w', hb, hstep, pb, hspec, ?_⟩
  rw [hstep, hspec]
  exact ⟨HInv.removedAll H.hinv hsub (nodup_of_ids hids) pb, pb.qk.rows H.rows, by
    show ∃ (lf : List Nat), Lock.LInv ⟨w'.locks, []⟩ lf
    rw [pb.locks]; exact H.lock⟩

/-! ## batch = singles, as steps of the machine -/

/-- the run of `del e` over issued handles: if the single removals succeed, the machine reaches
    the world they leave, the same handles, and the fold of the single specification steps -/
theorem runOps_dels (run : ProbeRunner) : ∀ (es : List Ent) (s : St) (w'' : World),
    (∀ e ∈ es, e ∈ s.issued) → removeSeq run es s.w = .ok () w'' →
    runOps run s (es.map .del) = ⟨w'', s.issued, specDelAll s.ss es⟩
  | [], s, w'', _, h => by
    simp only [removeSeq, M.forM', pure, M.pure] at h
    injection h with _ hw
    subst hw
    rfl
  | e :: es, s, w'', hi, h => by
    simp only [removeSeq, M.forM', bind, M.bind] at h
    cases hop : opRemoveEntity run e s.w with
    | panic k w1 => rw [hop] at h; cases h
    | ok u w1 =>
      rw [hop] at h
      have hg : guard s (.del e) = true := by
        simp only [RelRefine.guard, decide_eq_true_eq]; exact hi e List.mem_cons_self
      have hst : step run s (.del e) = ⟨w1, s.issued, specStep s.ss default (.del e)⟩ := by
        rw [step_of_guard hg]
        simp only [exec, hop, Res.state, retOf, issuedAfter, Option.getD_none]
      show runOps run (step run s (.del e)) (es.map .del) = _
      rw [hst]
      exact runOps_dels run es ⟨w1, s.issued, specStep s.ss default (.del e)⟩ w''
        (fun e' he' => hi e' (List.mem_cons_of_mem _ he')) h

/-- **batch removal = the single removals** (C06 with relation targets, as steps of the machine):
    within the size bound of the singles, the step `delb f frels` and the run of `del e` over the
    selected entities in the batch's order reach the same specification, the same issued handles,
    the same pool (every later creation returns the same handle), and worlds that agree on the
    liveness of every handle and on the components, values AND relation targets of every ID; the
    run of singles keeps the invariant too. -/
theorem delb_eq_singles (run : ProbeRunner) {s : St} {fl : List Nat} (H : HInvRB s fl) (f : Filter)
    (frels : Rels) (hg : guardRB s (.delb f frels) = true)
    (hfew : s.w.tables.length + (selEnts s.w f frels).length * s.w.relationArchetypes.length + 1 ≤
      maxU32)
    (hrows : 2 * s.w.entities.length < 2 ^ 32) :
    ∃ w' w'' : World,
      stepRB run s (.delb f frels) = ⟨w', s.issued, specDelAll s.ss (selEnts s.w f frels)⟩ ∧
      runOps run s ((selEnts s.w f frels).map .del) =
        ⟨w'', s.issued, specDelAll s.ss (selEnts s.w f frels)⟩ ∧
      w'.pool = w''.pool ∧
      (∀ x : Ent, w'.alive x = w''.alive x) ∧
      (∀ (i : Nat) (c : Comp), valOf w' i c = valOf w'' i c) ∧
      (∀ i : Nat, compsOf w' i = compsOf w'' i) ∧
      (∀ (i : Nat) (c : Comp), targetOf w' i c = targetOf w'' i c) ∧
      HInv ⟨w'', s.issued, specDelAll s.ss (selEnts s.w f frels)⟩
        ((selEnts s.w f frels).reverse.map (·.id) ++ fl) := by
  have h := H.hinv.tinv
  have hgx : frelsExpr s.ss f frels = true := hg
  have hr := relsTyped_of_expr H.hinv hgx
  obtain ⟨ts, hts, S, hsel, hiff, hids, hlen⟩ := sel_spec H hgx
  obtain ⟨ts2, hts2, _, hboth⟩ := opRemoveEntities_rel_eq_singles run h H.rows H.hinv.unlocked
    H.hinv.noObs (foOf f frels) [] rfl hr hrows
  rw [hts] at hts2
  injection hts2 with e1 _
  subst e1
  rw [← hsel] at hboth
  obtain ⟨w', w'', hb, hs, pb, ps, hpool⟩ := hboth hfew
  have hnd := H.hinv.ginv.live_nodup
  have hsub : ∀ e ∈ selEnts s.w f frels, e ∈ s.ss.ents.map (·.1) :=
    fun e he => matching_sub ((hiff e).mp he)
  have hspec : specStepRB s.ss [] (.delb f frels) = specDelAll s.ss (selEnts s.w f frels) :=
    specDelAll_perm hnd (fun e he => matching_sub he) (matching_nodup hnd f frels)
      (nodup_of_ids hids) (fun e => (hiff e).symm)
  obtain ⟨o1, o2, o3, o4, _, _⟩ := pb.obs_eq ps (fun _ => Iff.rfl)
  refine ⟨w', w'', by rw [stepRB_delb_of_ok run hg hb, hspec], ?_, hpool, o1, o2, o3, o4,
    HInv.removedAll H.hinv hsub (nodup_of_ids hids) ps⟩
  exact runOps_dels run _ s w'' (fun e he => H.hinv.ginv.live_issued e (hsub e he)) hs

end RelRefineB

end Ark
