/-
  Ark.Proofs.BatchRelHist — C06 + C04 with relations, part 6: the batch removal along chains of
  `QGood` steps (`QGood` of `Ark.Proofs.QueryRelHist`: `TInv` for some free list, unlocked, no
  observers, exact component index, rows hold alive handles).

  * `rows_length_le` — a batch removes at most as many entities as the index has slots (so the
    table budget can be stated without knowing the selection);
  * `QGood.removeEntities` — `RemoveEntities(batch, nil)` with an uncached filter and typed
    relation constraints never panics on a `QGood` world and leaves a `QGood` world, with the
    postcondition `RemovedAllRelPost`; an empty filter cache stays empty.
  Kernel-only proofs, core Lean only.
-/
import Ark.Proofs.BatchRelSingles

set_option autoImplicit false

namespace Ark

open World Ark.Props.C01World QueryRel

/-- a duplicate-free list of numbers below `n` has at most `n` elements -/
theorem BatchRel.nodup_length_le_of_lt {l : List Nat} {n : Nat} (hnd : l.Nodup)
    (hlt : ∀ (i : Nat), i ∈ l → i < n) : l.length ≤ n := by
  have := List.Nodup.length_le_of_subset (l₂ := List.range n) hnd
    (fun i hi => List.mem_range.2 (hlt i hi))
  rwa [List.length_range] at this

/-- the rows of a set of tables hold at most as many entities as the index has slots -/
theorem rows_length_le {w : World} {fl : List Nat} (L : PLink w fl) (hR : RowsAlive w)
    {ts : List Nat} (S : TableSet w ts) : (ts.flatMap (rowsOf w)).length ≤ w.entities.length := by
  have u := removeTablesW_link L hR S
  have := BatchRel.nodup_length_le_of_lt u.idsNodup (n := w.entities.length) (by
    intro i hi
    obtain ⟨e, he, rfl⟩ := List.mem_map.mp hi
    obtain ⟨t, r, _, hx⟩ := (u.live e he).2.2.2
    exact (List.getElem?_eq_some_iff.mp hx).1)
  rwa [List.length_map] at this

/-- **`RemoveEntities(batch, nil)` keeps `QGood`** — also when relation targets are among the
    removed entities (uncached filter, typed relation constraints): it never panics -/
theorem QueryRel.QGood.removeEntities (run : ProbeRunner) {w : World} (q : QGood w) (fo : FilterObj)
    (extra : List RelID) (hc : fo.cache = none) (hr : RelsTyped w fo.filter (fo.rels ++ extra))
    (hfew : w.tables.length + w.entities.length * w.relationArchetypes.length + 1 ≤ maxU32)
    (hrows : 2 * w.entities.length < 2 ^ 32) :
    panicOf (opRemoveEntities run fo extra false w) = none ∧
    QGood (opRemoveEntities run fo extra false w).state ∧
    (CacheEmpty w → CacheEmpty (opRemoveEntities run fo extra false w).state) := by
  obtain ⟨fl, h, hl, hno⟩ := q.good
  obtain ⟨ts, hts, S, _, _⟩ := getBatchTables_rel h fo extra hc hr
  have hle := rows_length_le h.link q.rows S
  have hfewB : w.tables.length + (cleanupList w ts).length * w.relationArchetypes.length + 1 ≤
      maxU32 := by
    have h1 : (cleanupList w ts).length ≤ (ts.flatMap (rowsOf w)).length := List.length_filter_le _ _
    have := Nat.mul_le_mul_right w.relationArchetypes.length (Nat.le_trans h1 hle)
    omega
  obtain ⟨w', hb, pb⟩ := opRemoveEntities_rel_spec run h q.rows hl hno fo extra hts S hfewB hrows
  rw [hb]
  refine ⟨rfl, ⟨⟨_, pb.tinv, by show w'.locks.isLocked = false; rw [pb.locks]; exact hl,
    fun evt => by show w'.obs.hasObservers evt = false; rw [pb.obs]; exact hno evt⟩,
    pb.qk.cidx q.cidx, pb.qk.rows q.rows, by
      show ∃ (lf : List Nat), Lock.LInv ⟨w'.locks, []⟩ lf
      rw [pb.locks]; exact q.lock⟩, pb.qk.cache⟩

end Ark
