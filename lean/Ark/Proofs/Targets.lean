/-
  Ark.Proofs.Targets — C04 at world level, part 0: vocabulary and the list / table level facts.

  * `TargetsOK w`   — every relation column of every non-free table targets the zero entity or an
                      alive entity;
  * `FlagsOK w`     — a non-zero target of a non-free table carries the `isTarget` flag (the flag
                      that makes `RemoveEntity` run `cleanupArchetypes`);
  * `Table.RelsExact T` / `RelListsOK w` — the relation list `relIDs` of a non-free table names
                      every relation column exactly once, with the target stored in the column
                      (a FINDING: the cleanup of a removed target reads `relIDs`, not the columns;
                      see `Ark/Props/C04World.lean` for the reachable counterexample);
  * `FreeEmpty w`   — free tables have no rows;
  * `RelArchsOK w`  — every archetype with relation columns is listed in `relationArchetypes`
                      (the list `cleanupArchetypes` walks);
  * `targetOf w i c` — the target of relation component `c` of the entity with ID `i`, read
                      through the index (as `valOf` / `compsOf` of `Ark/Props/C01World.lean`).

  * `PLink w fl`    — the index ↔ pool link (§ 3).  It does NOT demand that the memory behind the
                      pool slice (`Pool.stale`, kept and invalidated by `Reset`) is empty, only that
                      it holds handles of generation `maxU32` (as `CInv.stale`), so that the joint
                      invariant survives `Reset` (`Ark.Proofs.RelRefine2Reset`).  A live handle is
                      therefore given by `2 ≤ e.id`, `e.id ∉ fl`, `w.alive e = true` and
                      `e.id < w.pool.ents.length` (the ID lies inside the slice): `PLink.aliveIff`,
                      `live_entry`, `removed`; `alive_in`: alive and not of generation `maxU32`
                      implies inside the slice; `alive_inj` needs neither.

  List level: `setTargets` (the loop `targets[idx(r.comp)] = r.target` shared by `createTable`
  and `getExchangeTargets(Unchecked)`), `colRels` (the relation list read off the columns).
  Kernel-only proofs, core Lean only.
-/
import Ark.Proofs.Refine
import Ark.Proofs.ShrinkInv

set_option autoImplicit false

namespace Ark

open World Ark.Props.C01World

/-! ## 0. list lemmas -/

/-- one iteration of the loop `targets[idx(r.comp)] = r.target` -/
def setStep (col : Comp → Option Nat) (ts : List Ent) (r : RelID) : List Ent :=
  match col r.comp with
  | some i => ts.set i r.target
  | none => ts

/-- the loop `targets[idx(r.comp)] = r.target` -/
def setTargets (col : Comp → Option Nat) (rels : List RelID) (ts : List Ent) : List Ent :=
  rels.foldl (setStep col) ts

theorem setTargets_nil (col : Comp → Option Nat) (ts : List Ent) : setTargets col [] ts = ts := rfl

theorem setTargets_cons (col : Comp → Option Nat) (r : RelID) (rels : List RelID) (ts : List Ent) :
    setTargets col (r :: rels) ts = setTargets col rels (setStep col ts r) := rfl

theorem setStep_length (col : Comp → Option Nat) (ts : List Ent) (r : RelID) :
    (setStep col ts r).length = ts.length := by
  unfold setStep; split
  · exact List.length_set
  · rfl

theorem setStep_getD (col : Comp → Option Nat) (ts : List Ent) (r : RelID) (i : Nat) (d : Ent) :
    (setStep col ts r).getD i d =
      if col r.comp = some i ∧ i < ts.length then r.target else ts.getD i d := by
  unfold setStep
  cases hc : col r.comp with
  | none => simp
  | some j =>
    simp only [Archetype.getD_set, Option.some.injEq]
    by_cases h : j = i
    · subst h; simp
    · have : ¬ i = j := fun e => h e.symm
      simp [h, this]

theorem setTargets_length (col : Comp → Option Nat) (rels : List RelID) (ts : List Ent) :
    (setTargets col rels ts).length = ts.length := by
  induction rels generalizing ts with
  | nil => rfl
  | cons r rest ih => rw [setTargets_cons, ih, setStep_length]

/-- a column no relation names keeps its target -/
theorem setTargets_getD_keep (col : Comp → Option Nat) (i : Nat) (d : Ent) :
    ∀ (rels : List RelID) (ts : List Ent), (∀ (r : RelID), r ∈ rels → col r.comp ≠ some i) →
      (setTargets col rels ts).getD i d = ts.getD i d
  | [], _, _ => rfl
  | r :: rest, ts, h => by
    rw [setTargets_cons, setTargets_getD_keep col i d rest _
      (fun r' hr' => h r' (List.mem_cons_of_mem _ hr')), setStep_getD,
      if_neg (fun hh => h r List.mem_cons_self hh.1)]

/-- a column all of whose naming relations carry the target `v` ends with `v` (if some relation
    names it, or it held `v` before) -/
theorem setTargets_getD_eq (col : Comp → Option Nat) (i : Nat) (v : Ent) :
    ∀ (rels : List RelID) (ts : List Ent), i < ts.length →
      (∀ (r : RelID), r ∈ rels → col r.comp = some i → r.target = v) →
      ((∃ (r : RelID), r ∈ rels ∧ col r.comp = some i) ∨ ts.getD i Ent.zero = v) →
      (setTargets col rels ts).getD i Ent.zero = v
  | [], ts, _, _, hex => by
    rcases hex with ⟨r, hr, _⟩ | h
    · cases hr
    · exact h
  | r :: rest, ts, hi, hall, hex => by
    rw [setTargets_cons]
    apply setTargets_getD_eq col i v rest
    · rw [setStep_length]; exact hi
    · exact fun r' hr' => hall r' (List.mem_cons_of_mem _ hr')
    · rw [setStep_getD]
      by_cases hc : col r.comp = some i
      · right
        rw [if_pos ⟨hc, hi⟩]
        exact hall r List.mem_cons_self hc
      · rw [if_neg (fun hh => hc hh.1)]
        rcases hex with ⟨r', hr', hc'⟩ | h
        · rcases List.mem_cons.1 hr' with rfl | hm
          · exact absurd hc' hc
          · exact Or.inl ⟨r', hm, hc'⟩
        · exact Or.inr h

/-- the value a column holds after the loop: its old value or the target of a relation -/
theorem setTargets_getD_cases (col : Comp → Option Nat) (i : Nat) (d : Ent) :
    ∀ (rels : List RelID) (ts : List Ent),
      (setTargets col rels ts).getD i d = ts.getD i d ∨
      ∃ (r : RelID), r ∈ rels ∧ (setTargets col rels ts).getD i d = r.target
  | [], _ => Or.inl rfl
  | r :: rest, ts => by
    rw [setTargets_cons]
    rcases setTargets_getD_cases col i d rest (setStep col ts r) with h | ⟨r', hr', h⟩
    · rw [h, setStep_getD]
      split
      · exact Or.inr ⟨r, List.mem_cons_self, rfl⟩
      · exact Or.inl rfl
    · exact Or.inr ⟨r', List.mem_cons_of_mem _ hr', h⟩

/-- the relation list read off the columns (`getExchangeTargets(Unchecked)`) -/
def colRels (ids : List Comp) (targets : List Ent) (isRel : List Bool) : List RelID :=
  ((ids.zip targets).zip isRel).filterMap fun ((c, e), r) =>
    if r then some ⟨c, e⟩ else none

theorem colRels_cons (c : Comp) (ids : List Comp) (e : Ent) (ts : List Ent) (b : Bool)
    (bs : List Bool) :
    colRels (c :: ids) (e :: ts) (b :: bs) = (if b then [⟨c, e⟩] else []) ++ colRels ids ts bs := by
  cases b <;> simp [colRels, List.zip_cons_cons]

theorem colRels_nil_left (ts : List Ent) (bs : List Bool) : colRels [] ts bs = [] := by
  simp [colRels]

theorem mem_colRels {ids : List Comp} {ts : List Ent} {bs : List Bool} {r : RelID} :
    r ∈ colRels ids ts bs ↔
      ∃ (i : Nat), ids[i]? = some r.comp ∧ ts[i]? = some r.target ∧ bs[i]? = some true := by
  induction ids generalizing ts bs with
  | nil => simp [colRels_nil_left]
  | cons c ids ih =>
    cases ts with
    | nil => simp [colRels]
    | cons e ts =>
      cases bs with
      | nil => simp [colRels]
      | cons b bs =>
        rw [colRels_cons, List.mem_append, ih]
        constructor
        · rintro (h | ⟨i, h1, h2, h3⟩)
          · cases b with
            | false => simp at h
            | true =>
              simp only [if_true, List.mem_singleton] at h
              subst h
              exact ⟨0, rfl, rfl, rfl⟩
          · exact ⟨i + 1, by simpa using h1, by simpa using h2, by simpa using h3⟩
        · rintro ⟨i, h1, h2, h3⟩
          cases i with
          | zero =>
            simp only [List.getElem?_cons_zero, Option.some.injEq] at h1 h2 h3
            left
            subst h3
            simp only [if_true, List.mem_singleton]
            cases r; simp_all
          | succ i =>
            right
            exact ⟨i, by simpa using h1, by simpa using h2, by simpa using h3⟩

theorem colRels_length : ∀ (ids : List Comp) (ts : List Ent) (bs : List Bool),
    ts.length = ids.length → bs.length = ids.length →
      (colRels ids ts bs).length = (bs.filter fun b => b).length
  | [], _, bs, _, h2 => by
    have : bs = [] := List.length_eq_zero_iff.1 (by simpa using h2)
    subst this; simp [colRels_nil_left]
  | c :: ids, [], _, h1, _ => by simp at h1
  | c :: ids, e :: ts, [], _, h2 => by simp at h2
  | c :: ids, e :: ts, b :: bs, h1, h2 => by
    rw [colRels_cons, List.length_append,
      colRels_length ids ts bs (by simpa using h1) (by simpa using h2)]
    cases b <;> simp <;> omega

theorem colRels_comps_sublist : ∀ (ids : List Comp) (ts : List Ent) (bs : List Bool),
    List.Sublist ((colRels ids ts bs).map (·.comp)) ids
  | [], _, _ => by simp [colRels_nil_left]
  | c :: ids, [], _ => by simp [colRels]
  | c :: ids, e :: ts, [] => by simp [colRels]
  | c :: ids, e :: ts, b :: bs => by
    rw [colRels_cons]
    cases b with
    | false =>
      simp only [Bool.false_eq_true, if_false, List.nil_append]
      exact (colRels_comps_sublist ids ts bs).cons c
    | true =>
      simp only [if_true, List.cons_append, List.nil_append, List.map_cons]
      exact (colRels_comps_sublist ids ts bs).cons_cons c

theorem colRels_comps_nodup {ids : List Comp} (h : ids.Nodup) (ts : List Ent) (bs : List Bool) :
    ((colRels ids ts bs).map (·.comp)).Nodup :=
  (colRels_comps_sublist ids ts bs).nodup h

/-- a duplicate-free list inside a list that is not longer contains it -/
theorem subset_of_nodup_length_le {α : Type} [DecidableEq α] {l r : List α} (hl : l.Nodup)
    (hsub : ∀ (x : α), x ∈ l → x ∈ r) (hlen : r.length ≤ l.length) :
    ∀ (x : α), x ∈ r → x ∈ l := by
  intro x hx
  apply Classical.byContradiction
  intro hnx
  have hsub' : l ⊆ r.erase x := by
    intro y hy
    have hne : y ≠ x := fun e => hnx (e ▸ hy)
    exact (List.mem_erase_of_ne hne).2 (hsub y hy)
  have := List.Nodup.length_le_of_subset hl hsub'
  rw [List.length_erase_of_mem hx] at this
  have : 0 < r.length := List.length_pos_of_mem hx
  omega

/-- two members of a list with duplicate-free images that have the same image are equal -/
theorem eq_of_nodup_map {α β : Type} (f : α → β) : ∀ (l : List α), (l.map f).Nodup →
    ∀ (a b : α), a ∈ l → b ∈ l → f a = f b → a = b
  | [], _, _, _, ha, _, _ => by cases ha
  | x :: l, hnd, a, b, ha, hb, hf => by
    rw [List.map_cons, List.nodup_cons] at hnd
    rcases List.mem_cons.1 ha with rfl | ha'
    · rcases List.mem_cons.1 hb with rfl | hb'
      · rfl
      · exact absurd (hf ▸ List.mem_map_of_mem hb') hnd.1
    · rcases List.mem_cons.1 hb with rfl | hb'
      · exact absurd (hf ▸ List.mem_map_of_mem ha') hnd.1
      · exact eq_of_nodup_map f l hnd.2 a b ha' hb' hf

theorem getD_false_eq_true_iff (l : List Bool) (i : Nat) : l.getD i false = true ↔ l[i]? = some true := by
  rw [List.getD_eq_getElem?_getD]
  cases l[i]? with
  | none => simp
  | some b => simp

/-- the components of the relation columns -/
def relComps (ids : List Comp) (isRel : List Bool) : List Comp :=
  (colRels ids (List.replicate ids.length Ent.zero) isRel).map (·.comp)

theorem mem_relComps {ids : List Comp} {isRel : List Bool} {c : Comp} :
    c ∈ relComps ids isRel ↔ ∃ (i : Nat), ids[i]? = some c ∧ isRel.getD i false = true := by
  simp only [relComps, List.mem_map, mem_colRels, getD_false_eq_true_iff]
  constructor
  · rintro ⟨r, ⟨i, h1, _, h3⟩, rfl⟩
    exact ⟨i, h1, h3⟩
  · rintro ⟨i, h1, h3⟩
    refine ⟨⟨c, Ent.zero⟩, ⟨i, h1, ?_, h3⟩, rfl⟩
    have hi : i < ids.length := (List.getElem?_eq_some_iff.1 h1).1
    simp [hi]

theorem relComps_length {ids : List Comp} {isRel : List Bool} (h : isRel.length = ids.length) :
    (relComps ids isRel).length = (isRel.filter fun b => b).length := by
  rw [relComps, List.length_map, colRels_length _ _ _ (by simp) h]

theorem relComps_nodup {ids : List Comp} (h : ids.Nodup) (isRel : List Bool) :
    (relComps ids isRel).Nodup := colRels_comps_nodup h _ _

/-! ## 1. vocabulary -/

/-- **TargetsOK** — every relation column of every non-free table targets the zero entity or an
    alive entity. -/
def TargetsOK (w : World) : Prop :=
  ∀ (t : Nat) (T : Table), w.tables[t]? = some T → T.isFree = false →
    ∀ (i : Nat), T.isRel.getD i false = true →
      (T.targets.getD i Ent.zero).isZero = true ∨ w.alive (T.targets.getD i Ent.zero) = true

/-- **FlagsOK** — a non-zero target of a non-free table carries the `isTarget` flag. -/
def FlagsOK (w : World) : Prop :=
  ∀ (t : Nat) (T : Table), w.tables[t]? = some T → T.isFree = false →
    ∀ (i : Nat), T.isRel.getD i false = true → (T.targets.getD i Ent.zero).isZero = false →
      w.isTarget.getD (T.targets.getD i Ent.zero).id false = true

namespace Table

/-- the relation list of the table names every relation column exactly once, with the target
    stored in the column -/
structure RelsExact (T : Table) : Prop where
  tlen : T.targets.length = T.ids.length
  sound : ∀ (r : RelID), r ∈ T.relIDs → ∃ (i : Nat), T.ids[i]? = some r.comp ∧
    T.isRel.getD i false = true ∧ T.targets.getD i Ent.zero = r.target
  complete : ∀ (i : Nat) (c : Comp), T.ids[i]? = some c → T.isRel.getD i false = true →
    (⟨c, T.targets.getD i Ent.zero⟩ : RelID) ∈ T.relIDs
  nodup : (T.relIDs.map (·.comp)).Nodup

theorem colIdx_of_get {T : Table} (hnd : T.ids.Nodup) {i : Nat} {c : Comp}
    (h : T.ids[i]? = some c) : T.colIdx c = some i := by
  obtain ⟨hi, he⟩ := List.getElem?_eq_some_iff.1 h
  have := hnd.idxOf_getElem i hi
  rw [he] at this
  simp only [Table.colIdx, this, hi, if_true]

theorem colIdx_iff {T : Table} (hnd : T.ids.Nodup) {i : Nat} {c : Comp} :
    T.colIdx c = some i ↔ T.ids[i]? = some c :=
  ⟨Table.colIdx_get, colIdx_of_get hnd⟩

/-- under `RelsExact` the column a listed relation names holds its target -/
theorem RelsExact.col {T : Table} (h : T.RelsExact) (hnd : T.ids.Nodup) {r : RelID}
    (hr : r ∈ T.relIDs) {i : Nat} (hi : T.colIdx r.comp = some i) :
    T.isRel.getD i false = true ∧ T.targets.getD i Ent.zero = r.target := by
  obtain ⟨j, h1, h2, h3⟩ := h.sound r hr
  have := colIdx_of_get hnd h1
  rw [hi] at this
  obtain rfl := Option.some.inj this
  exact ⟨h2, h3⟩

/-- under `RelsExact` there are at most as many listed relations as relation columns -/
theorem RelsExact.length_le {T : Table} (h : T.RelsExact) (hil : T.isRel.length = T.ids.length) :
    T.relIDs.length ≤ (T.isRel.filter fun b => b).length := by
  rw [← relComps_length hil, ← List.length_map (f := (·.comp))]
  apply List.Nodup.length_le_of_subset h.nodup
  intro c hc
  obtain ⟨r, hr, rfl⟩ := List.mem_map.1 hc
  obtain ⟨i, h1, h2, _⟩ := h.sound r hr
  exact mem_relComps.2 ⟨i, h1, h2⟩

/-- **a created table is exact**: `targets` written by the `createTable` loop from a relation
    list that names relation columns, no component twice, and is long enough -/
theorem RelsExact.of_created {T : Table} (hnd : T.ids.Nodup) (hil : T.isRel.length = T.ids.length)
    (htg : T.targets = setTargets T.colIdx T.relIDs (List.replicate T.ids.length Ent.zero))
    (hndr : (T.relIDs.map (·.comp)).Nodup)
    (hcol : ∀ (r : RelID), r ∈ T.relIDs →
      ∃ (i : Nat), T.ids[i]? = some r.comp ∧ T.isRel.getD i false = true)
    (hlen : (T.isRel.filter fun b => b).length ≤ T.relIDs.length) : T.RelsExact := by
  have key : ∀ (r : RelID), r ∈ T.relIDs → ∀ (i : Nat), T.ids[i]? = some r.comp →
      T.targets.getD i Ent.zero = r.target := by
    intro r hr i hi
    rw [htg]
    apply setTargets_getD_eq
    · rw [List.length_replicate]; exact (List.getElem?_eq_some_iff.1 hi).1
    · intro r' hr' hc
      have h1 := Table.colIdx_get hc
      rw [hi] at h1
      have := eq_of_nodup_map (·.comp) T.relIDs hndr r r' hr hr' (Option.some.inj h1)
      rw [this]
    · exact Or.inl ⟨r, hr, colIdx_of_get hnd hi⟩
  refine ⟨?_, ?_, ?_, hndr⟩
  · rw [htg, setTargets_length, List.length_replicate]
  · intro r hr
    obtain ⟨i, h1, h2⟩ := hcol r hr
    exact ⟨i, h1, h2, key r hr i h1⟩
  · intro i c h1 h2
    have hsub : ∀ (x : Comp), x ∈ T.relIDs.map (·.comp) → x ∈ relComps T.ids T.isRel := by
      intro x hx
      obtain ⟨r, hr, rfl⟩ := List.mem_map.1 hx
      obtain ⟨j, h3, h4⟩ := hcol r hr
      exact mem_relComps.2 ⟨j, h3, h4⟩
    have hc : c ∈ T.relIDs.map (·.comp) :=
      subset_of_nodup_length_le hndr hsub (by rw [relComps_length hil, List.length_map]; exact hlen)
        c (mem_relComps.2 ⟨i, h1, h2⟩)
    obtain ⟨r, hr, rfl⟩ := List.mem_map.1 hc
    rw [key r hr i h1]
    exact hr

/-! ### `MatchesExact` -/

theorem matchesExact_go_yes (T : Table) : ∀ (rels : List RelID), matchesExact.go T rels = .yes →
    ∀ (r : RelID), r ∈ rels → ∀ (i : Nat), T.colIdx r.comp = some i →
      T.isRel.getD i false = true ∧ T.targets.getD i Ent.zero = r.target
  | [], _, r, hr, _, _ => by cases hr
  | x :: rest, h, r, hr, i, hi => by
    simp only [matchesExact.go] at h
    cases hx : T.colIdx x.comp with
    | none =>
      rw [hx] at h
      rcases List.mem_cons.1 hr with rfl | hm
      · rw [hx] at hi; cases hi
      · exact matchesExact_go_yes T rest h r hm i hi
    | some j =>
      rw [hx] at h
      simp only at h
      split at h
      · cases h
      · rename_i h1
        split at h
        · cases h
        · rename_i h2
          rcases List.mem_cons.1 hr with rfl | hm
          · rw [hx] at hi
            obtain rfl := Option.some.inj hi
            refine ⟨by simpa using h1, ?_⟩
            have : ¬ (r.target != T.targets.getD j Ent.zero) = true := h2
            simp only [bne_iff_ne, ne_eq, Decidable.not_not] at this
            exact this.symm
          · exact matchesExact_go_yes T rest h r hm i hi

theorem matchesExact_yes {T : Table} {rels : List RelID} (h : T.matchesExact rels = .yes) :
    T.relIDs.length ≤ rels.length ∧
    ∀ (r : RelID), r ∈ rels → ∀ (i : Nat), T.colIdx r.comp = some i →
      T.isRel.getD i false = true ∧ T.targets.getD i Ent.zero = r.target := by
  unfold matchesExact at h
  split at h
  · cases h
  · rename_i hl
    exact ⟨by omega, matchesExact_go_yes T rels h⟩

/-- when every named column is a relation column, the scan answers yes or no -/
theorem matchesExact_go_total (T : Table) : ∀ (rels : List RelID),
    (∀ (r : RelID), r ∈ rels → ∀ (i : Nat), T.colIdx r.comp = some i → T.isRel.getD i false = true) →
    matchesExact.go T rels = .yes ∨ matchesExact.go T rels = .no
  | [], _ => Or.inl rfl
  | x :: rest, h => by
    simp only [matchesExact.go]
    have ih := matchesExact_go_total T rest (fun r hr => h r (List.mem_cons_of_mem _ hr))
    cases hx : T.colIdx x.comp with
    | none => exact ih
    | some j =>
      simp only
      rw [h x List.mem_cons_self j hx]
      simp only [Bool.not_true, Bool.false_eq_true, if_false]
      split
      · exact Or.inr rfl
      · exact ih

theorem matchesExact_total {T : Table} {rels : List RelID} (hlen : T.relIDs.length ≤ rels.length)
    (h : ∀ (r : RelID), r ∈ rels → ∀ (i : Nat), T.colIdx r.comp = some i →
      T.isRel.getD i false = true) :
    T.matchesExact rels = .yes ∨ T.matchesExact rels = .no := by
  unfold matchesExact
  rw [if_neg (by omega)]
  exact matchesExact_go_total T rels h

end Table

/-- **RelListsOK** — the relation lists of all non-free tables are exact. -/
def RelListsOK (w : World) : Prop :=
  ∀ (t : Nat) (T : Table), w.tables[t]? = some T → T.isFree = false → T.RelsExact

-- `FreeEmpty` (free tables have no rows) is the definition of `Ark.Proofs.ResetInv`.

/-- **RelArchsOK** — every archetype with relation columns is listed in `relationArchetypes`. -/
def RelArchsOK (w : World) : Prop :=
  ∀ (a : Nat) (A : Archetype), w.archetypes[a]? = some A → A.hasRelations = true →
    a ∈ w.relationArchetypes

/-- the target stored for component `c` in table `T` (`none` if `c` is not a relation column) -/
def Table.targetAt (T : Table) (c : Comp) : Option Ent :=
  (T.colIdx c).bind fun k => if T.isRel.getD k false then some (T.targets.getD k Ent.zero) else none

/-- **targetOf** — the target of relation component `c` of the entity with ID `i`, read through
    the index (`none` if the ID is not indexed to a table or `c` is not a relation column of its
    table). -/
def targetOf (w : World) (i : Nat) (c : Comp) : Option Ent :=
  match w.entities[i]? with
  | some (t, _) => if t = maxU32 then none else (w.tables[t]?).bind fun T => T.targetAt c
  | none => none

/-! ## 2. what `SInv` says about the columns of a table -/

theorem Mask.toList_nodup (m : Mask) (n : Nat) : (m.toList n).Nodup :=
  List.filter_sublist.nodup List.nodup_range

namespace SInvMid

theorem ids_nodup {w : World} (h : SInvMid w) {t : Nat} {T : Table} (hT : w.tables[t]? = some T) :
    T.ids.Nodup := by
  obtain ⟨A, hA, e1, _⟩ := h.tblArch t T hT
  rw [e1, (h.comps _ A hA).1]; exact Mask.toList_nodup _ _

theorem isRel_len {w : World} (h : SInvMid w) {t : Nat} {T : Table} (hT : w.tables[t]? = some T) :
    T.isRel.length = T.ids.length := by
  obtain ⟨A, hA, e1, e2, _⟩ := h.tblArch t T hT
  rw [e1, e2]; exact (h.comps _ A hA).2.1

theorem numRel_eq {w : World} (h : SInvMid w) {t : Nat} {T : Table} (hT : w.tables[t]? = some T) :
    (w.arch T.arch).numRel = (T.isRel.filter fun b => b).length := by
  obtain ⟨A, hA, _, e2, _⟩ := h.tblArch t T hT
  rw [arch_of_get hA, e2]; exact (h.astruct _ A hA).numRelEq

/-- a relation column of a table holds a relation component -/
theorem isRelComp_of_col {w : World} (h : SInvMid w) {t : Nat} {T : Table}
    (hT : w.tables[t]? = some T) {i : Nat} {c : Comp} (hc : T.ids[i]? = some c)
    (hr : T.isRel.getD i false = true) : w.isRelComp c = true := by
  obtain ⟨A, hA, e1, e2, _⟩ := h.tblArch t T hT
  rw [e1] at hc; rw [e2] at hr
  rw [World.isRelComp, ← (h.kindsOf _ A i c hA hc).1]; exact hr

end SInvMid

/-! ## 3. the pool link: index ↔ pool, without the fragment restrictions of `CInv` -/

/-- a handle stored in its slot has an ID inside the pool slice -/
theorem Pool.lt_of_slot {p : Pool} {e : Ent} (h : p.ents[e.id]? = some e) : e.id < p.ents.length :=
  (List.getElem?_eq_some_iff.mp h).1

/-- the entity index and the entity pool describe the same set of live IDs (`fl` = the ghost
    free list of the pool); the memory behind the pool slice only holds invalidated handles -/
structure PLink (w : World) (fl : List Nat) : Prop where
  idx : IdxInv w
  pool : Pool.PInv w.pool fl
  /-- the memory behind the pool slice (retained by `Reset`) only holds invalidated handles -/
  stale : ∀ (e : Ent), e ∈ w.pool.stale → e.gen = maxU32
  lenEq : w.entities.length = w.pool.ents.length
  tgtLen : w.isTarget.length = w.entities.length
  freeUnindexed : ∀ (i : Nat), i ∈ fl → ∃ (r : Nat), w.entities[i]? = some (maxU32, r)
  reservedUnindexed : ∀ (i : Nat), i < 2 → ∃ (r : Nat), w.entities[i]? = some (maxU32, r)
  liveIndexed : ∀ (i : Nat), 2 ≤ i → i < w.entities.length → i ∉ fl →
    ∃ (t r : Nat), w.entities[i]? = some (t, r) ∧ t ≠ maxU32
  fewTables : w.tables.length ≤ maxU32

namespace PLink

variable {w : World} {fl : List Nat}

/-- liveness is exact for IDs inside the pool slice and outside the free list -/
theorem aliveIff (h : PLink w fl) (e : Ent) (hnf : e.id ∉ fl) (hin : e.id < w.pool.ents.length) :
    w.alive e = true ↔ w.pool.ents[e.id]? = some e := by
  simp only [World.alive]
  exact h.pool.alive_iff_lt e hnf hin

/-- an ID inside the pool slice is inside the index / flag arrays -/
theorem lt_of_in (h : PLink w fl) {e : Ent} (hin : e.id < w.pool.ents.length) :
    e.id < w.entities.length := by rw [h.lenEq]; exact hin

/-- an alive handle that does not carry the sentinel generation has an ID inside the pool slice
    (the memory behind the slice only holds handles of generation `maxU32`) -/
theorem alive_in (h : PLink w fl) {e : Ent} (ha : w.alive e = true) (hg : e.gen ≠ maxU32) :
    e.id < w.pool.ents.length := by
  rcases Nat.lt_or_ge e.id w.pool.ents.length with h1 | h1
  · exact h1
  · exfalso
    simp only [World.alive, Pool.alive, List.getElem?_append_right h1] at ha
    cases hs : w.pool.stale[e.id - w.pool.ents.length]? with
    | none => rw [hs] at ha; cases ha
    | some s =>
      rw [hs] at ha
      have h2 : s.gen = e.gen := by simpa using ha
      exact hg (h2 ▸ h.stale s (List.mem_of_getElem? hs))

/-- an alive handle that does not carry the sentinel generation has an ID inside the index / flag
    arrays -/
theorem alive_lt (h : PLink w fl) {e : Ent} (ha : w.alive e = true) (hg : e.gen ≠ maxU32) :
    e.id < w.entities.length := h.lt_of_in (h.alive_in ha hg)

/-- two alive handles with the same ID are equal (also behind the slice) -/
theorem alive_inj (_h : PLink w fl) {e e' : Ent} (ha : w.alive e = true) (ha' : w.alive e' = true)
    (hid : e.id = e'.id) : e = e' := by
  simp only [World.alive, Pool.alive] at ha ha'
  rw [hid] at ha
  cases hs : (w.pool.ents ++ w.pool.stale)[e'.id]? with
  | none => rw [hs] at ha; cases ha
  | some s =>
    rw [hs] at ha ha'
    simp only [beq_iff_eq] at ha ha'
    cases e; cases e'; simp_all

theorem live_entry (h : PLink w fl) {e : Ent} (h2 : 2 ≤ e.id) (hnf : e.id ∉ fl)
    (ha : w.alive e = true) (hin : e.id < w.pool.ents.length) :
    ∃ (t r : Nat), w.entities[e.id]? = some (t, r) ∧ t ≠ maxU32 ∧ w.pool.ents[e.id]? = some e := by
  have hs := (h.aliveIff e hnf hin).mp ha
  obtain ⟨t, r, hi, ht⟩ := h.liveIndexed e.id h2 (h.lt_of_in hin) hnf
  exact ⟨t, r, hi, ht, hs⟩

/-- a step that keeps the pool and the length of the flag array and only moves indexed entities
    between tables keeps the link -/
theorem transfer {w' : World} (h : PLink w fl) (hidx : IdxInv w') (hpool : w'.pool = w.pool)
    (hent : IdxSame w w') (hit : w'.isTarget.length = w.isTarget.length)
    (hfew : w'.tables.length ≤ maxU32) : PLink w' fl where
  idx := hidx
  pool := by rw [hpool]; exact h.pool
  stale := by rw [hpool]; exact h.stale
  lenEq := by rw [hent.len, hpool]; exact h.lenEq
  tgtLen := by rw [hit, hent.len]; exact h.tgtLen
  freeUnindexed := by
    intro i hi
    obtain ⟨r, hr⟩ := h.freeUnindexed i hi
    rcases hent.entry i with he | ⟨t, r1, _, _, h1, h2, _⟩
    · exact ⟨r, by rw [he]; exact hr⟩
    · rw [hr] at h1
      exact absurd (Prod.mk.inj (Option.some.inj h1)).1.symm h2
  reservedUnindexed := by
    intro i hi
    obtain ⟨r, hr⟩ := h.reservedUnindexed i hi
    rcases hent.entry i with he | ⟨t, r1, _, _, h1, h2, _⟩
    · exact ⟨r, by rw [he]; exact hr⟩
    · rw [hr] at h1
      exact absurd (Prod.mk.inj (Option.some.inj h1)).1.symm h2
  liveIndexed := by
    intro i h2 hlt hnf
    rcases hent.entry i with he | ⟨_, _, t', r', _, _, h3, h4⟩
    · rw [he]; exact h.liveIndexed i h2 (by rw [← hent.len]; exact hlt) hnf
    · exact ⟨t', r', h3, h4⟩
  fewTables := hfew

end PLink

theorem IdxSame.trans {a b c : World} (h1 : IdxSame a b) (h2 : IdxSame b c) : IdxSame a c where
  len := h2.len.trans h1.len
  entry := by
    intro i
    rcases h2.entry i with e2 | ⟨t, r, t', r', p1, p2, p3, p4⟩
    · rcases h1.entry i with e1 | ⟨t0, r0, t1, r1, q1, q2, q3, q4⟩
      · exact Or.inl (e2.trans e1)
      · exact Or.inr ⟨t0, r0, t1, r1, q1, q2, e2.trans q3, q4⟩
    · rcases h1.entry i with e1 | ⟨t0, r0, t1, r1, q1, q2, q3, q4⟩
      · exact Or.inr ⟨t, r, t', r', e1 ▸ p1, p2, p3, p4⟩
      · exact Or.inr ⟨t0, r0, t', r', q1, q2, p3, p4⟩

theorem IdxSame.of_eq {w w' : World} (h : w'.entities = w.entities) : IdxSame w w' :=
  ⟨by rw [h], fun _ => Or.inl (by rw [h])⟩

/-- what taking a handle from the pool and placing it in table `t` guarantees -/
structure PlacedLink (w : World) (fl : List Nat) (t : Nat) (e : Ent) (w' : World) : Prop where
  link : PLink w' fl.tail
  ge2 : 2 ≤ e.id
  notin : e.id ∉ fl.tail
  idLe : e.id ≤ w.entities.length
  /-- the ID was not in use: a brand-new slot, or the head of the free list -/
  unused : (e.id = w.entities.length ∧ fl = [] ∧ e.gen = 0) ∨
    (e.id < w.entities.length ∧ fl = e.id :: fl.tail)
  alive : w'.alive e = true
  aliveFrame : ∀ (h : Ent), h.id ≠ e.id → w'.alive h = w.alive h
  /-- (for a handle behind the pool slice this fails: `getNew` overwrites the first cell of the
      memory `Reset` kept there) -/
  aliveMono : ∀ (h : Ent), h.id < w.pool.ents.length → w.alive h = true → w'.alive h = true
  frame : ∀ (j : Nat), j ≠ e.id → SameEnt w w' j
  lookup : ∀ (i : Nat), w'.entities[i]? =
    if i = e.id then some (t, (w.tbl t).len) else w.entities[i]?
  tables : w'.tables = w.tables.set t ((w.tbl t).add e).1
  comps : compsOf w' e.id = some (w.tbl t).ids
  zero : ∀ (c : Comp), c ∈ (w.tbl t).ids → valOf w' e.id c = some 0
  /-- an ID that carried a flag before still carries it, unless it is the placed ID and the
      flag is reset (`createEntity`) -/
  flags : ∀ (i : Nat), i ≠ e.id → w'.isTarget.getD i false = w.isTarget.getD i false

/-- **placement**: `placeNew t rt` for an existing table `t` with room for one more row. -/
theorem PLink.placed {w : World} {fl : List Nat} (h : PLink w fl) {t : Nat}
    (hlt : t < w.tables.length) (rt : Bool) (hb : (w.tbl t).len + 1 < 2 ^ 32) :
    PlacedLink w fl t (w.pool.get).2 (placedW w t rt) := by
  have g := Pool.get_spec w.pool fl h.pool
  obtain ⟨hE, hT⟩ := placedW_place w t rt
  have hTt := get_of_lt hlt
  have hSt := h.idx.shape t _ hTt
  have htm : t ≠ maxU32 := by have := h.fewTables; omega
  have hle : (w.pool.get).2.id ≤ w.entities.length := by
    rw [h.lenEq]; rcases g.cases with ⟨a, _⟩ | ⟨a, _⟩ <;> omega
  have hL : ∀ (i : Nat), (placedW w t rt).entities[i]? =
      if i = (w.pool.get).2.id then some (t, (w.tbl t).len) else w.entities[i]? := by
    intro i; rw [hE]; exact place_lookup w _ t hle i
  have hlen : (placedW w t rt).entities.length =
      if (w.pool.get).2.id = w.entities.length then w.entities.length + 1
      else w.entities.length := by
    rw [hE, place_entities]
    split
    · simp only [List.length_append, List.length_singleton]
    · simp only [List.length_set]
  have hmemfl : (w.pool.get).2.id = w.entities.length ∨ (w.pool.get).2.id ∈ fl := by
    rcases g.cases with ⟨a, _⟩ | ⟨_, b, _⟩
    · left; rw [h.lenEq]; exact a
    · right; rw [b]; exact List.mem_cons_self
  have hfree : ∀ (t' r' : Nat), w.entities[(w.pool.get).2.id]? = some (t', r') →
      w.tables.length ≤ t' := by
    intro t' r' hx
    rcases hmemfl with a | a
    · rw [a, List.getElem?_eq_none (Nat.le_refl _)] at hx; cases hx
    · obtain ⟨r, hr⟩ := h.freeUnindexed _ a
      rw [hr] at hx
      obtain ⟨rfl, _⟩ := Prod.mk.inj (Option.some.inj hx)
      exact h.fewTables
  have hidx : IdxInv (placedW w t rt) :=
    (h.idx.place (w.pool.get).2 hlt hb hle (h.idx.fresh_of_free _ hfree)).congr hE hT
  have hTab : (placedW w t rt).tables = w.tables.set t ((w.tbl t).add (w.pool.get).2).1 := by
    rw [hT, place_tables]
  have htlen : (placedW w t rt).tables.length = w.tables.length := by
    rw [hTab, List.length_set]
  have hst' : ∀ (e : Ent), e ∈ (placedW w t rt).pool.stale → e.gen = maxU32 := by
    rw [placedW_pool]
    exact fun e he => h.stale e (Pool.get_stale_sub w.pool e he)
  have hAF : ∀ (x : Ent), x.id ≠ (w.pool.get).2.id → (placedW w t rt).alive x = w.alive x := by
    intro x hx
    show (placedW w t rt).pool.alive x = w.pool.alive x
    rw [placedW_pool]
    exact Pool.get_alive_frame w.pool fl h.pool x hx
  have hFr : ∀ (j : Nat), j ≠ (w.pool.get).2.id → SameEnt w (placedW w t rt) j :=
    fun j hj => (same_place h.idx _ t hle hj).congr hE hT
  have hlink : PLink (placedW w t rt) fl.tail := by
    refine
      { idx := hidx
        pool := by rw [placedW_pool]; exact g.pinv
        stale := hst'
        lenEq := by rw [hlen, placedW_pool, g.length, h.lenEq]
        tgtLen := ?_
        freeUnindexed := ?_
        reservedUnindexed := ?_
        liveIndexed := ?_
        fewTables := by rw [htlen]; exact h.fewTables }
    · rw [hlen, placedW_isTarget']
      split
      · simp only [List.length_append, List.length_singleton, h.tgtLen]
      · split
        · simp only [List.length_set, h.tgtLen]
        · exact h.tgtLen
    · intro i hi
      have hne : i ≠ (w.pool.get).2.id := fun hh => g.notin (hh ▸ hi)
      rw [hL, if_neg hne]
      exact h.freeUnindexed i (List.mem_of_mem_tail hi)
    · intro i hi
      have hne : i ≠ (w.pool.get).2.id := by have := g.ge2; omega
      rw [hL, if_neg hne]
      exact h.reservedUnindexed i hi
    · intro i h2 hlt' hnf
      rw [hL]
      by_cases hne : i = (w.pool.get).2.id
      · rw [if_pos hne]
        exact ⟨t, _, rfl, htm⟩
      · rw [if_neg hne]
        rw [hlen] at hlt'
        rcases g.cases with ⟨a, b, _⟩ | ⟨a, b, _⟩
        · rw [h.lenEq.symm] at a
          rw [if_pos a] at hlt'
          exact h.liveIndexed i h2 (by omega) (by rw [b]; simp)
        · rw [h.lenEq.symm] at a
          rw [if_neg (by omega)] at hlt'
          refine h.liveIndexed i h2 hlt' ?_
          rw [b]
          intro hm
          rcases List.mem_cons.mp hm with hm | hm
          · exact hne hm
          · exact hnf hm
  have hentE : (placedW w t rt).entities[(w.pool.get).2.id]? = some (t, (w.tbl t).len) := by
    rw [hL, if_pos rfl]
  have htabE : (placedW w t rt).tables[t]? = some ((w.tbl t).add (w.pool.get).2).1 := by
    rw [hTab]; exact List.getElem?_set_self hlt
  have hsl : (placedW w t rt).pool.ents[(w.pool.get).2.id]? = some (w.pool.get).2 := by
    rw [placedW_pool]; exact g.slot
  have halive : (placedW w t rt).alive (w.pool.get).2 = true :=
    (hlink.aliveIff (w.pool.get).2 g.notin (List.getElem?_eq_some_iff.mp hsl).1).mpr hsl
  refine
    { link := hlink
      ge2 := g.ge2
      notin := g.notin
      idLe := hle
      unused := ?_
      alive := halive
      aliveFrame := hAF
      aliveMono := ?_
      frame := hFr
      lookup := hL
      tables := hTab
      comps := ?_
      zero := ?_
      flags := ?_ }
  · rcases g.cases with ⟨a, b, c⟩ | ⟨a, b, _⟩
    · exact Or.inl ⟨by rw [h.lenEq]; exact a, b, c⟩
    · exact Or.inr ⟨by rw [h.lenEq]; exact a, b⟩
  · intro x hxin hx
    by_cases hxe : x.id = (w.pool.get).2.id
    · -- the recycled slot keeps its generation; a new slot lies behind the slice
      have hxa := hx
      rw [World.alive, Pool.alive_of_lt x hxin] at hxa
      rcases g.cases with ⟨a, _, _⟩ | ⟨_, _, s, hs, hsg⟩
      · rw [hxe, a] at hxin; exact absurd hxin (Nat.lt_irrefl _)
      · rw [hxe, hs] at hxa
        have : x = (w.pool.get).2 := by
          have h1 : s.gen = x.gen := by simpa using hxa
          cases hx' : x; cases hg' : (w.pool.get).2
          rw [hx', hg'] at hxe; rw [hx'] at h1; rw [hg'] at hsg
          simp only at hxe h1 hsg
          subst hxe; rw [← h1, hsg]
        rw [this]; exact halive
    · rw [hAF x hxe]; exact hx
  · simp only [compsOf, hentE, htm, if_false, htabE, Option.map_some, Table.add_ids]
  · intro c hc
    obtain ⟨j, hj⟩ := colIdx_some_iff_mem.mpr hc
    have hjN : ((w.tbl t).add (w.pool.get).2).1.colIdx c = some j := by
      simp only [Table.colIdx, Table.add_ids]; exact hj
    have hzero : ((w.tbl t).add (w.pool.get).2).1.cell j (w.tbl t).len = 0 := by
      have := Table.add_new_row_zero hSt (w.pool.get).2 j
      rw [Table.add_snd] at this; exact this
    simp only [valOf, hentE, htm, if_false, htabE, Option.bind_some, Table.getComp, hjN,
      Option.map_some, hzero]
  · intro i hi
    rw [placedW_isTarget']
    split
    · rename_i he
      rw [List.getD_eq_getElem?_getD, List.getD_eq_getElem?_getD]
      rcases Nat.lt_or_ge i w.isTarget.length with h1 | h1
      · rw [List.getElem?_append_left h1]
      · have : i ≠ w.isTarget.length := by rw [h.tgtLen, ← he]; exact hi
        rw [List.getElem?_eq_none h1, List.getElem?_eq_none (by simp; omega)]
    · split
      · rw [List.getD_eq_getElem?_getD, List.getD_eq_getElem?_getD,
          List.getElem?_set_ne (fun hh => hi hh.symm)]
      · rfl

/-- what the removal block of `RemoveEntity` guarantees for a live handle -/
structure RemovedLink (w : World) (fl : List Nat) (e : Ent) (t row : Nat) (w' : World) : Prop where
  link : PLink w' (e.id :: fl)
  entry : w.entities[e.id]? = some (t, row)
  tne : t ≠ maxU32
  slot : w.pool.ents[e.id]? = some e
  dead : w'.alive e = false
  aliveFrame : ∀ (h : Ent), h.id ≠ e.id → w'.alive h = w.alive h
  frame : ∀ (j : Nat), j ≠ e.id → SameEnt w w' j
  unindexed : w'.entities[e.id]? = some (maxU32, row)
  /-- every other index entry is unchanged or is the swapped entity's (same table, new row) -/
  lookup : ∀ (i : Nat), i ≠ e.id →
    (w'.entities[i]? = some (t, row) ∧ w.entities[i]? = some (t, (w.tbl t).len - 1)) ∨
    w'.entities[i]? = w.entities[i]?
  tables : w'.tables = w.tables.set t ((w.tbl t).remove row).1
  rowLt : row < (w.tbl t).len

/-- **removal**: the removal block of `RemoveEntity` for a live handle in any table. -/
theorem PLink.removed {w : World} {fl : List Nat} (h : PLink w fl) {e : Ent} (h2 : 2 ≤ e.id)
    (hnf : e.id ∉ fl) (ha : w.alive e = true) (hin : e.id < w.pool.ents.length) :
    ∃ (t row : Nat), w.index e.id = (t, row) ∧ RemovedLink w fl e t row (removeRowOf w e t row) := by
  obtain ⟨t, row, he, ht, hs⟩ := h.live_entry h2 hnf ha hin
  refine ⟨t, row, index_of_get he, ?_⟩
  obtain ⟨hTt, hrow, hid⟩ := h.idx.indexed he ht
  obtain ⟨rp, rslot, rother, rlen, rstale, _⟩ := Pool.recycle_spec w.pool fl e h.pool h2 hnf hs
  have hE := removeRowOf_entities w e t row
  have hT := removeRowOf_tables w e t row
  have hP := removeRowOf_pool w e t row
  have hse := h.idx.rowIdx t _ ((w.tbl t).len - 1) hTt (by omega)
  have hL : ∀ (i : Nat), i ≠ e.id →
      ((removeRowOf w e t row).entities[i]? = some (t, row) ∧
        w.entities[i]? = some (t, (w.tbl t).len - 1)) ∨
      (removeRowOf w e t row).entities[i]? = w.entities[i]? := by
    intro i hi
    rw [hE, unplace_lookup h.idx he ht i, if_neg hi]
    by_cases hc : row ≠ (w.tbl t).len - 1 ∧ i = ((w.tbl t).getEntity ((w.tbl t).len - 1)).id
    · rw [if_pos hc]; left; exact ⟨rfl, by rw [hc.2]; exact hse⟩
    · rw [if_neg hc]; right; rfl
  have hLe : (removeRowOf w e t row).entities[e.id]? = some (maxU32, row) := by
    rw [hE, unplace_lookup h.idx he ht e.id, if_pos rfl]
  have hlen : (removeRowOf w e t row).entities.length = w.entities.length := by
    rw [hE, unplace_entities]; split <;> simp only [List.length_modify]
  have hTab : (removeRowOf w e t row).tables = w.tables.set t ((w.tbl t).remove row).1 := by
    rw [hT, unplace_tables]
  have htlen : (removeRowOf w e t row).tables.length = w.tables.length := by
    rw [hTab, List.length_set]
  have hst' : ∀ (x : Ent), x ∈ (removeRowOf w e t row).pool.stale → x.gen = maxU32 := by
    rw [hP, rstale]; exact h.stale
  have hAF : ∀ (x : Ent), x.id ≠ e.id → (removeRowOf w e t row).alive x = w.alive x := by
    intro x hx
    show (removeRowOf w e t row).pool.alive x = w.pool.alive x
    rw [hP]
    exact Pool.alive_congr_slot x rstale rlen (rother x.id hx)
  have hlink : PLink (removeRowOf w e t row) (e.id :: fl) := by
    refine
      { idx := h.idx.removeRowOf he ht
        pool := by rw [hP]; exact rp
        stale := hst'
        lenEq := by rw [hlen, hP, rlen]; exact h.lenEq
        tgtLen := by rw [hlen, removeRowOf_isTarget]; exact h.tgtLen
        freeUnindexed := ?_
        reservedUnindexed := ?_
        liveIndexed := ?_
        fewTables := by rw [htlen]; exact h.fewTables }
    · intro i hi
      rcases List.mem_cons.mp hi with rfl | hi
      · exact ⟨row, hLe⟩
      · have hne : i ≠ e.id := fun hh => hnf (hh ▸ hi)
        obtain ⟨r, hr⟩ := h.freeUnindexed i hi
        rcases hL i hne with ⟨_, b⟩ | b
        · rw [hr] at b
          exact absurd (Prod.mk.inj (Option.some.inj b)).1.symm ht
        · exact ⟨r, by rw [b]; exact hr⟩
    · intro i hi
      have hne : i ≠ e.id := by omega
      obtain ⟨r, hr⟩ := h.reservedUnindexed i hi
      rcases hL i hne with ⟨_, b⟩ | b
      · rw [hr] at b
        exact absurd (Prod.mk.inj (Option.some.inj b)).1.symm ht
      · exact ⟨r, by rw [b]; exact hr⟩
    · intro i hi2 hlt' hnf'
      have hne : i ≠ e.id := fun hh => hnf' (by rw [hh]; exact List.mem_cons_self)
      have hnf'' : i ∉ fl := fun hh => hnf' (List.mem_cons_of_mem _ hh)
      rcases hL i hne with ⟨a, _⟩ | b
      · exact ⟨t, row, a, ht⟩
      · rw [b]; exact h.liveIndexed i hi2 (by rw [← hlen]; exact hlt') hnf''
  refine
    { link := hlink
      entry := he
      tne := ht
      slot := hs
      dead := ?_
      aliveFrame := hAF
      frame := fun j hj => remove_frame h.idx he ht hj
      unindexed := hLe
      lookup := hL
      tables := hTab
      rowLt := hrow }
  show (removeRowOf w e t row).pool.alive e = false
  rw [Pool.alive_of_lt e (by rw [hP, rlen]; exact hin), hP, rslot]
  show (e.gen + 1 == e.gen) = false
  simp

end Ark
