/-
  Ark.Proofs.Callbacks — C08/C09 at world level, part 1: `World.dispatch` and the `fire*`
  functions of events.go for a READ-ONLY callback runner.

  Vocabulary.
  * `World.addLog w lg` — `w` with the records `lg` (newest first) put in front of its log.
  * `ReadOnly run S rec` — the callback runner `run` only observes when it executes a probe
    satisfying `S`: it appends `rec w l e p` (newest first) to the log and changes nothing else.
    `ScriptsIn w S` — every script of every observer object of `w` consists of such probes.
  * `scriptLog rec l e ps w` — what the script `ps` of observer `l` appends, each probe run on the
    world as it is then; `dispatchLog rec pred e obs w` — what `dispatch` appends: for each label of
    `obs` in order whose predicate holds, `cb l e` followed by the records of its script.
  * `cbsOf lg` — the callback records `(observer, entity)` of a log, newest first.
  * `ObsOK m` — the setting: for every event type the aggregate invariant `AggInv` holds, the
    listed observers carry the data `AddObserver` computes from their specification
    (`ObsDataOK`; implied by `Registered` of Ark/Proofs/Observers.lean) and no observer is
    listed twice.  (Kept by `Register`/`Unregister`: Ark/Proofs/CallbacksSetting.lean; the id
    bookkeeping of the manager: Ark/Proofs/ObsIndex.lean.)
  * `firing m evt ev` — the observers of event type `evt`, in registration (slice) order, whose
    SPECIFICATION fires for the event instance `ev` according to the documented rule `Spec.fires`.

  Main results.
  * `dispatch_readOnly` — `dispatch run obs pred e w = .ok found (w.addLog (dispatchLog …))`,
    `found` = some predicate held.
  * `cbsOf_dispatchLog` — the callback records of a dispatch are exactly `(l, e)` for the `l` of
    `obs` (in order) whose predicate holds, once each.
  * `fire*_readOnly` / `fire*IfHas_readOnly` — every `Fire*` function, with or without early-out,
    guarded by `hasObservers` or not, is a dispatch to the observers `firing w evt ev`: the early
    outs never lose a callback.

  Kernel-only proofs, core Lean only.
-/
import Ark.Model.Ops
import Ark.Props.C08

set_option autoImplicit false

namespace Ark

open World Spec

/-! ## 0. logs -/

/-- the callback records `(observer label, reported entity)` of a log (newest first) -/
def cbsOf (lg : List LogEv) : List (Nat × Ent) :=
  lg.filterMap fun ev => match ev with
    | .cb l e => some (l, e)
    | _ => none

/-- the record is not a callback record -/
def LogEv.notCb : LogEv → Bool
  | .cb _ _ => false
  | _ => true

theorem cbsOf_append (a b : List LogEv) : cbsOf (a ++ b) = cbsOf a ++ cbsOf b := by
  simp only [cbsOf, List.filterMap_append]

theorem cbsOf_nil_of_notCb {lg : List LogEv} (h : ∀ ev ∈ lg, ev.notCb = true) : cbsOf lg = [] := by
  induction lg with
  | nil => rfl
  | cons x xs ih =>
    have hx := h x List.mem_cons_self
    have := ih (fun ev hev => h ev (List.mem_cons_of_mem _ hev))
    cases x <;> simp_all [cbsOf, LogEv.notCb]

@[simp] theorem cbsOf_cb_cons (l : Nat) (e : Ent) (lg : List LogEv) :
    cbsOf (LogEv.cb l e :: lg) = (l, e) :: cbsOf lg := rfl

namespace World

/-- `w` with the records `lg` (newest first) put in front of its log -/
def addLog (w : World) (lg : List LogEv) : World := { w with log := lg ++ w.log }

@[simp] theorem addLog_nil (w : World) : w.addLog [] = w := rfl

@[simp] theorem addLog_addLog (w : World) (a b : List LogEv) :
    (w.addLog a).addLog b = w.addLog (b ++ a) := by
  simp only [addLog, List.append_assoc]

@[simp] theorem addLog_obs (w : World) (lg : List LogEv) : (w.addLog lg).obs = w.obs := rfl
@[simp] theorem addLog_log (w : World) (lg : List LogEv) : (w.addLog lg).log = lg ++ w.log := rfl

theorem logEv_eq (ev : LogEv) (w : World) : logEv ev w = .ok () (w.addLog [ev]) := rfl

end World

/-! ## 1. read-only runners -/

/-- **read-only callback runner** (on the probes satisfying `S`): running probe `p` for observer
    `l` on entity `e` appends the records `rec w l e p` and changes nothing else. -/
def ReadOnly (run : ProbeRunner) (S : Probe → Prop)
    (rec : World → Nat → Ent → Probe → List LogEv) : Prop :=
  ∀ (l : Nat) (e : Ent) (p : Probe) (w : World), S p →
    run l e p w = .ok () (w.addLog (rec w l e p))

/-- every script of every observer object of the manager consists of probes satisfying `S` -/
def ScriptsIn (m : ObsMgr) (S : Probe → Prop) : Prop :=
  ∀ (l : Nat), ∀ p ∈ (m.obj l).spec.script, S p

/-- the records of the runner do not depend on the log they are appended to -/
def LogBlind (rec : World → Nat → Ent → Probe → List LogEv) : Prop :=
  ∀ (w : World) (lg : List LogEv) (l : Nat) (e : Ent) (p : Probe),
    rec { w with log := lg } l e p = rec w l e p

/-- the runner writes no callback records of its own -/
def NoCb (rec : World → Nat → Ent → Probe → List LogEv) : Prop :=
  ∀ (w : World) (l : Nat) (e : Ent) (p : Probe), ∀ ev ∈ rec w l e p, ev.notCb = true

/-- what the script `ps` of observer `l` appends to the log (newest first): each probe is run on
    the world as it is then (i.e. with the records of the earlier probes already logged) -/
def scriptLog (rec : World → Nat → Ent → Probe → List LogEv) (l : Nat) (e : Ent) :
    List Probe → World → List LogEv
  | [], _ => []
  | p :: ps, w => scriptLog rec l e ps (w.addLog (rec w l e p)) ++ rec w l e p

/-- what one notified observer appends: its `cb` record, then the records of its script -/
def notifyLog (rec : World → Nat → Ent → Probe → List LogEv) (l : Nat) (e : Ent) (w : World) :
    List LogEv :=
  scriptLog rec l e (w.obs.obj l).spec.script (w.addLog [.cb l e]) ++ [.cb l e]

/-- what `dispatch` over the labels `obs` appends (newest first) -/
def dispatchLog (rec : World → Nat → Ent → Probe → List LogEv) (pred : ObsData → Bool) (e : Ent) :
    List Nat → World → List LogEv
  | [], _ => []
  | l :: ls, w =>
    if pred (w.obs.obj l).data then
      dispatchLog rec pred e ls (w.addLog (notifyLog rec l e w)) ++ notifyLog rec l e w
    else dispatchLog rec pred e ls w

section Dispatch

variable {run : ProbeRunner} {S : Probe → Prop} {rec : World → Nat → Ent → Probe → List LogEv}

/-- the inner loop of `dispatch`: the script of one observer -/
theorem script_loop (hro : ReadOnly run S rec) (l : Nat) (e : Ent) :
    ∀ (ps : List Probe) (w : World), (∀ p ∈ ps, S p) →
      (forIn ps PUnit.unit (fun p (_ : PUnit) => (do
          run l e p
          pure (ForInStep.yield PUnit.unit) : W (ForInStep PUnit))) : W PUnit) w
        = .ok PUnit.unit (w.addLog (scriptLog rec l e ps w))
  | [], w, _ => rfl
  | p :: ps, w, h => by
    rw [List.forIn_cons, M.bind_apply, M.bind_apply, hro l e p w (h p List.mem_cons_self)]
    simp only [M.pure_apply]
    rw [script_loop hro l e ps _ (fun q hq => h q (List.mem_cons_of_mem _ hq))]
    simp only [scriptLog, addLog_addLog]

/-- **`dispatch` for a read-only runner** (Goal 1): it returns whether some predicate held and
    appends, for each observer of `obs` in order whose predicate holds, `cb l e` followed by the
    records of its script on the world as it is then; nothing but the log changes. -/
theorem dispatch_loop (hro : ReadOnly run S rec) (pred : ObsData → Bool) (e : Ent) :
    ∀ (obs : List Nat) (found : Bool) (w : World), ScriptsIn w.obs S →
      (forIn obs found (fun l (s : Bool) => (do
          let w ← M.get
          if pred (w.obs.obj l).data then
            logEv (.cb l e)
            for p in (w.obs.obj l).spec.script do
              run l e p
            pure (ForInStep.yield true)
          else pure (ForInStep.yield s) : W (ForInStep Bool))) : W Bool) w
        = .ok (found || obs.any fun l => pred (w.obs.obj l).data)
            (w.addLog (dispatchLog rec pred e obs w))
  | [], found, w, _ => by simp [dispatchLog]
  | l :: ls, found, w, hs => by
    rw [List.forIn_cons, M.bind_apply, M.bind_apply, M.get_apply]
    simp only []
    cases hp : pred (w.obs.obj l).data with
    | false =>
      simp only [Bool.false_eq_true, if_false, M.pure_apply]
      rw [dispatch_loop hro pred e ls found w hs]
      simp only [dispatchLog, hp, Bool.false_eq_true, if_false, List.any_cons, Bool.false_or]
    | true =>
      simp only [if_true, M.bind_apply, logEv_eq]
      rw [script_loop hro l e _ _ (hs l)]
      simp only [M.pure_apply, addLog_addLog]
      refine (dispatch_loop hro pred e ls true (w.addLog _) hs).trans ?_
      simp only [dispatchLog, hp, if_true, List.any_cons, Bool.true_or, Bool.or_true, addLog_addLog,
        addLog_obs, notifyLog]

theorem dispatch_readOnly (hro : ReadOnly run S rec) (obs : List Nat) (pred : ObsData → Bool)
    (e : Ent) (w : World) (hs : ScriptsIn w.obs S) :
    dispatch run obs pred e w
      = .ok (obs.any fun l => pred (w.obs.obj l).data) (w.addLog (dispatchLog rec pred e obs w)) := by
  unfold dispatch
  rw [M.bind_apply]
  have h := dispatch_loop hro pred e obs false w hs
  simp only [Bool.false_or] at h
  rw [h]
  rfl

end Dispatch

/-! ## 2. the callback records of a dispatch -/

theorem flatMap_congr' {α β : Type} {l : List α} {f g : α → List β} (h : ∀ a ∈ l, f a = g a) :
    l.flatMap f = l.flatMap g := by
  induction l with
  | nil => rfl
  | cons x xs ih =>
    rw [List.flatMap_cons, List.flatMap_cons, h x List.mem_cons_self,
      ih (fun a ha => h a (List.mem_cons_of_mem _ ha))]

theorem cbsOf_scriptLog {rec : World → Nat → Ent → Probe → List LogEv} (hn : NoCb rec) (l : Nat)
    (e : Ent) : ∀ (ps : List Probe) (w : World), cbsOf (scriptLog rec l e ps w) = []
  | [], _ => rfl
  | p :: ps, w => by
    rw [scriptLog, cbsOf_append, cbsOf_scriptLog hn l e ps, cbsOf_nil_of_notCb (hn w l e p)]
    rfl

theorem cbsOf_notifyLog {rec : World → Nat → Ent → Probe → List LogEv} (hn : NoCb rec) (l : Nat)
    (e : Ent) (w : World) : cbsOf (notifyLog rec l e w) = [(l, e)] := by
  rw [notifyLog, cbsOf_append, cbsOf_scriptLog hn]
  rfl

/-- **the callback records of a dispatch**: exactly `(l, e)` for the observers `l` of `obs` whose
    predicate holds, in order (newest first, hence reversed), once each -/
theorem cbsOf_dispatchLog {rec : World → Nat → Ent → Probe → List LogEv} (hn : NoCb rec)
    (pred : ObsData → Bool) (e : Ent) : ∀ (obs : List Nat) (w : World),
      cbsOf (dispatchLog rec pred e obs w)
        = ((obs.filter fun l => pred (w.obs.obj l).data).map fun l => (l, e)).reverse
  | [], _ => rfl
  | l :: ls, w => by
    rw [dispatchLog]
    cases hp : pred (w.obs.obj l).data with
    | false =>
      simp only [Bool.false_eq_true, if_false, List.filter_cons, hp]
      exact cbsOf_dispatchLog hn pred e ls w
    | true =>
      simp only [if_true, List.filter_cons, hp, List.map_cons, List.reverse_cons]
      rw [cbsOf_append, cbsOf_dispatchLog hn pred e ls, cbsOf_notifyLog hn]
      rfl

/-- for a log-blind runner the script records do not depend on the records before them -/
theorem scriptLog_blind {rec : World → Nat → Ent → Probe → List LogEv} (hb : LogBlind rec) (l : Nat)
    (e : Ent) : ∀ (ps : List Probe) (w : World),
      scriptLog rec l e ps w = (ps.reverse.flatMap fun p => rec w l e p)
  | [], _ => rfl
  | p :: ps, w => by
    rw [scriptLog, scriptLog_blind hb l e ps]
    simp only [List.reverse_cons, List.flatMap_append, List.flatMap_cons, List.flatMap_nil,
      List.append_nil]
    congr 1
    apply flatMap_congr'
    intro q _
    exact hb w _ l e q

/-- the records of one notified observer for a log-blind runner, as a function of the world at
    dispatch -/
def notifyFlat (rec : World → Nat → Ent → Probe → List LogEv) (l : Nat) (e : Ent) (w : World) :
    List LogEv :=
  ((w.obs.obj l).spec.script.reverse.flatMap fun p => rec w l e p) ++ [.cb l e]

theorem notifyLog_blind {rec : World → Nat → Ent → Probe → List LogEv} (hb : LogBlind rec) (l : Nat)
    (e : Ent) (w : World) : notifyLog rec l e w = notifyFlat rec l e w := by
  rw [notifyLog, scriptLog_blind hb, notifyFlat]
  congr 1
  apply flatMap_congr'
  intro q _
  exact hb w _ l e q

/-- **what a dispatch logs, for a log-blind runner**: every record is a function of the ONE world
    `w` on which `dispatch` was called (observer by observer in slice order; newest first, hence
    reversed) -/
theorem dispatchLog_blind {rec : World → Nat → Ent → Probe → List LogEv} (hb : LogBlind rec)
    (pred : ObsData → Bool) (e : Ent) : ∀ (obs : List Nat) (w : World),
      dispatchLog rec pred e obs w
        = ((obs.filter fun l => pred (w.obs.obj l).data).reverse.flatMap fun l =>
            notifyFlat rec l e w)
  | [], _ => rfl
  | l :: ls, w => by
    rw [dispatchLog]
    cases hp : pred (w.obs.obj l).data with
    | false =>
      simp only [Bool.false_eq_true, if_false, List.filter_cons, hp]
      exact dispatchLog_blind hb pred e ls w
    | true =>
      simp only [if_true, List.filter_cons, hp, List.reverse_cons, List.flatMap_append,
        List.flatMap_cons, List.flatMap_nil, List.append_nil]
      rw [dispatchLog_blind hb pred e ls, notifyLog_blind hb]
      congr 1
      simp only [addLog_obs]
      apply flatMap_congr'
      intro q _
      simp only [notifyFlat, addLog_obs]
      congr 1
      apply flatMap_congr'
      intro p _
      exact hb w _ q e p

/-! ## 3. the `Fire*` functions -/

/-- what notifying the observers `ls` (all of them, in order) appends to the log -/
def notifyAll (rec : World → Nat → Ent → Probe → List LogEv) (e : Ent) :
    List Nat → World → List LogEv
  | [], _ => []
  | l :: ls, w => notifyAll rec e ls (w.addLog (notifyLog rec l e w)) ++ notifyLog rec l e w

theorem dispatchLog_eq_notifyAll (rec : World → Nat → Ent → Probe → List LogEv)
    (pred : ObsData → Bool) (e : Ent) : ∀ (obs : List Nat) (w : World),
      dispatchLog rec pred e obs w
        = notifyAll rec e (obs.filter fun l => pred (w.obs.obj l).data) w
  | [], _ => rfl
  | l :: ls, w => by
    rw [dispatchLog]
    cases hp : pred (w.obs.obj l).data with
    | false =>
      simp only [Bool.false_eq_true, if_false, List.filter_cons, hp]
      exact dispatchLog_eq_notifyAll rec pred e ls w
    | true =>
      simp only [if_true, List.filter_cons, hp, notifyAll]
      rw [dispatchLog_eq_notifyAll rec pred e ls]
      rfl

/-- the callback records of `notifyAll`: `(l, e)` for every `l`, in order -/
theorem cbsOf_notifyAll {rec : World → Nat → Ent → Probe → List LogEv} (hn : NoCb rec) (e : Ent) :
    ∀ (ls : List Nat) (w : World), cbsOf (notifyAll rec e ls w) = (ls.map fun l => (l, e)).reverse
  | [], _ => rfl
  | l :: ls, w => by
    rw [notifyAll, cbsOf_append, cbsOf_notifyAll hn e ls, cbsOf_notifyLog hn]
    simp only [List.map_cons, List.reverse_cons]

/-- for a log-blind runner: every record is a function of the one world at dispatch -/
theorem notifyAll_blind {rec : World → Nat → Ent → Probe → List LogEv} (hb : LogBlind rec) (e : Ent) :
    ∀ (ls : List Nat) (w : World),
      notifyAll rec e ls w = (ls.reverse.flatMap fun l => notifyFlat rec l e w)
  | [], _ => rfl
  | l :: ls, w => by
    rw [notifyAll, notifyAll_blind hb e ls, notifyLog_blind hb]
    simp only [List.reverse_cons, List.flatMap_append, List.flatMap_cons, List.flatMap_nil,
      List.append_nil]
    congr 1
    apply flatMap_congr'
    intro q _
    simp only [notifyFlat, addLog_obs]
    congr 1
    apply flatMap_congr'
    intro p _
    exact hb w _ q e p

/-- every observer listed under `evt` was registered for `evt` through `AddObserver`: its data is
    what the mask computation yields for its specification (`Spec.dataOf`), with component IDs
    below 256 -/
def ObsDataOK (m : ObsMgr) (evt : Nat) : Prop :=
  ∀ l ∈ (m.evt evt).observers,
    (m.obj l).spec.event = evt ∧ IdsOK (m.obj l).spec ∧ (m.obj l).data = dataOf (m.obj l).spec

theorem Registered.obsDataOK {m : ObsMgr} {evt : Nat} {isRel : Comp → Bool}
    (h : Registered m evt isRel) : ObsDataOK m evt := by
  intro l hl
  obtain ⟨h1, h2, h3⟩ := h l hl
  exact ⟨h1, h2, computeData_eq _ isRel _ h3⟩

/-- **the setting**: for every event type the aggregates agree with the registered observers
    (`AggInv`) and the registered observers carry the data of their specification (`ObsDataOK`) -/
structure ObsOK (m : ObsMgr) : Prop where
  agg : ∀ evt : Nat, AggInv m evt
  reg : ∀ evt : Nat, ObsDataOK m evt
  /-- no observer is listed twice under an event type -/
  nodup : ∀ evt : Nat, (m.evt evt).observers.Nodup

theorem obsOK_init : ObsOK {} where
  agg := AggInv.init
  reg := by intro evt l hl; cases hl
  nodup := fun _ => List.nodup_nil

/-- **the documented callback set**: the observers registered for event type `evt`, in
    registration (slice) order, whose specification fires for the event instance `ev` -/
def firing (m : ObsMgr) (evt : Nat) (ev : EvInst) : List Nat :=
  (m.evt evt).observers.filter fun l => decide (Spec.fires (m.obj l).spec ev)

theorem count_eq_one_of_nodup {l : List Nat} {a : Nat} (h : l.Nodup) (hm : a ∈ l) :
    l.count a = 1 := by
  induction l with
  | nil => cases hm
  | cons x xs ih =>
    rw [List.nodup_cons] at h
    rw [List.count_cons]
    by_cases hx : x = a
    · subst hx
      simp [List.count_eq_zero_of_not_mem h.1]
    · have : a ∈ xs := by
        rcases List.mem_cons.mp hm with h1 | h1
        · exact absurd h1.symm hx
        · exact h1
      simp [hx, ih h.2 this]

theorem firing_nodup {m : ObsMgr} (h : ObsOK m) (evt : Nat) (ev : EvInst) :
    (firing m evt ev).Nodup := (h.nodup evt).filter _

/-- membership in the documented callback set -/
theorem mem_firing {m : ObsMgr} {evt : Nat} {ev : EvInst} {l : Nat} :
    l ∈ firing m evt ev ↔ l ∈ (m.evt evt).observers ∧ Spec.fires (m.obj l).spec ev := by
  simp only [firing, List.mem_filter, decide_eq_true_iff]

/-- **exactly once**: in the records of a notification round every selected observer occurs
    exactly once, every other observer not at all -/
theorem count_cbs_firing {m : ObsMgr} (h : ObsOK m) (evt : Nat) (ev : EvInst) (e : Ent) (l : Nat) :
    (((firing m evt ev).map fun x => (x, e)).reverse).count (l, e)
      = if l ∈ firing m evt ev then 1 else 0 := by
  rw [List.count_reverse]
  have hinj : ∀ (ls : List Nat), (ls.map fun x => (x, e)).count (l, e) = ls.count l := by
    intro ls
    induction ls with
    | nil => rfl
    | cons a as ih =>
      simp only [List.map_cons, List.count_cons, ih]
      congr 1
      by_cases hal : a = l
      · subst hal; simp
      · have : ¬ ((a, e) = (l, e)) := fun hh => hal (Prod.mk.inj hh).1
        simp [hal, this]
  rw [hinj]
  split
  · rename_i hm
    exact count_eq_one_of_nodup (firing_nodup h evt ev) hm
  · rename_i hm
    exact List.count_eq_zero_of_not_mem hm

theorem filter_spec' {obs : List Nat} {p : Nat → Bool} {q : Nat → Prop} [DecidablePred q]
    (h : ∀ l ∈ obs, p l = true ↔ q l) : obs.filter p = obs.filter fun l => decide (q l) := by
  apply List.filter_congr
  intro l hl
  rw [Bool.eq_iff_iff, decide_eq_true_iff]
  exact h l hl

theorem ObsMgr.no_observers {m : ObsMgr} {evt : Nat} (h : AggInv m evt)
    (hno : m.hasObservers evt = false) : (m.evt evt).observers = [] := by
  have := h.hasObs
  unfold ObsMgr.hasObservers at hno
  rw [hno] at this
  cases hx : (m.evt evt).observers with
  | nil => rfl
  | cons a b => rw [hx] at this; simp at this

theorem firing_nil_of_no_observers {m : ObsMgr} {evt : Nat} (h : AggInv m evt)
    (hno : m.hasObservers evt = false) (ev : EvInst) : firing m evt ev = [] := by
  rw [firing, ObsMgr.no_observers h hno]; rfl

theorem any_eq_not_isEmpty_filter {α : Type} (l : List α) (p : α → Bool) :
    l.any p = !(l.filter p).isEmpty := by
  induction l with
  | nil => rfl
  | cons x xs ih =>
    cases hp : p x <;> simp [hp, ih]

section Fire

variable {run : ProbeRunner} {S : Probe → Prop} {rec : World → Nat → Ent → Probe → List LogEv}

/-- the common shape of every `Fire*` function: an early-out that is sound for the predicate,
    then `dispatch` -/
theorem fire_generic (hro : ReadOnly run S rec) (w : World) (hs : ScriptsIn w.obs S)
    (obs : List Nat) (pred : ObsData → Bool) (e : Ent) (eo early : Bool)
    (hearly : early = true → ∀ l ∈ obs, pred (w.obs.obj l).data = false)
    {fired : List Nat} (hf : (obs.filter fun l => pred (w.obs.obj l).data) = fired) :
    (if (eo && early) = true then (pure false : W Bool) else dispatch run obs pred e) w
      = .ok (!fired.isEmpty) (w.addLog (notifyAll rec e fired w)) := by
  subst hf
  split
  · rename_i hc
    simp only [Bool.and_eq_true] at hc
    have hnil : (obs.filter fun l => pred (w.obs.obj l).data) = [] := by
      rw [List.filter_eq_nil_iff]
      intro l hl
      simp [hearly hc.2 l hl]
    rw [hnil]
    rfl
  · rw [dispatch_readOnly hro obs pred e w hs, dispatchLog_eq_notifyAll, any_eq_not_isEmpty_filter]

private theorem nonEnt {e : Nat} (h : e ≠ Ev.onCreateEntity ∧ e ≠ Ev.onRemoveEntity) :
    isEntityEvt e = false := by
  simp [isEntityEvt, h.1, h.2]

variable (hro : ReadOnly run S rec) (w : World) (hs : ScriptsIn w.obs S) (hok : ObsOK w.obs)
include hro hs hok

/-- `FireAdd` is a dispatch to the observers the documented rule selects (with or without the
    early-out) -/
theorem fireAdd_readOnly (evt : Nat) (hev : evt ≠ Ev.onCreateEntity ∧ evt ≠ Ev.onRemoveEntity)
    (e : Ent) (old new : Mask) (eo : Bool) :
    fireAdd run evt e old new eo w
      = .ok (!(firing w.obs evt (.add old new)).isEmpty)
          (w.addLog (notifyAll rec e (firing w.obs evt (.add old new)) w)) := by
  simp only [fireAdd, bind, M.bind, M.get]
  refine fire_generic hro w hs _ _ e eo _
    (Props.C08.earlyOut_add_sound w.obs evt (hok.agg evt) hev old new) ?_
  refine filter_spec' fun l hl => ?_
  obtain ⟨h1, h2, h3⟩ := hok.reg evt l hl
  rw [h3]
  exact pred_add_dataOf _ h2 (nonEnt (h1 ▸ hev)) old new

theorem fireRemove_readOnly (evt : Nat) (hev : evt ≠ Ev.onCreateEntity ∧ evt ≠ Ev.onRemoveEntity)
    (e : Ent) (old new : Mask) (eo : Bool) :
    fireRemove run evt e old new eo w
      = .ok (!(firing w.obs evt (.remove old new)).isEmpty)
          (w.addLog (notifyAll rec e (firing w.obs evt (.remove old new)) w)) := by
  simp only [fireRemove, bind, M.bind, M.get]
  refine fire_generic hro w hs _ _ e eo _
    (Props.C08.earlyOut_remove_sound w.obs evt (hok.agg evt) hev old new) ?_
  refine filter_spec' fun l hl => ?_
  obtain ⟨h1, h2, h3⟩ := hok.reg evt l hl
  rw [h3]
  exact pred_remove_dataOf _ h2 (nonEnt (h1 ▸ hev)) old new

theorem fireSet_readOnly (evt : Nat) (hev : evt ≠ Ev.onCreateEntity ∧ evt ≠ Ev.onRemoveEntity)
    (e : Ent) (mask emask : Mask) (eo : Bool) :
    fireSet run evt e mask emask eo w
      = .ok (!(firing w.obs evt (.set mask emask)).isEmpty)
          (w.addLog (notifyAll rec e (firing w.obs evt (.set mask emask)) w)) := by
  simp only [fireSet, bind, M.bind, M.get]
  refine fire_generic hro w hs _ _ e eo _
    (Props.C08.earlyOut_set_sound w.obs evt (hok.agg evt) hev mask emask) ?_
  refine filter_spec' fun l hl => ?_
  obtain ⟨h1, h2, h3⟩ := hok.reg evt l hl
  rw [h3]
  exact pred_set_dataOf _ h2 (nonEnt (h1 ▸ hev)) mask emask

theorem fireCreateEntity_readOnly (e : Ent) (mask : Mask) (eo : Bool) :
    fireCreateEntity run e mask eo w
      = .ok (!(firing w.obs Ev.onCreateEntity (.entity mask)).isEmpty)
          (w.addLog (notifyAll rec e (firing w.obs Ev.onCreateEntity (.entity mask)) w)) := by
  simp only [fireCreateEntity, bind, M.bind, M.get]
  refine fire_generic hro w hs _ _ e eo _
    (Props.C08.earlyOut_entity_sound w.obs _ (hok.agg _) mask) ?_
  refine filter_spec' fun l hl => ?_
  obtain ⟨h1, h2, h3⟩ := hok.reg _ l hl
  rw [h3]
  exact pred_entity_dataOf _ h2 (by rw [h1]; rfl) mask

theorem fireRemoveEntity_readOnly (e : Ent) (mask : Mask) (eo : Bool) :
    fireRemoveEntity run e mask eo w
      = .ok (!(firing w.obs Ev.onRemoveEntity (.entity mask)).isEmpty)
          (w.addLog (notifyAll rec e (firing w.obs Ev.onRemoveEntity (.entity mask)) w)) := by
  simp only [fireRemoveEntity, bind, M.bind, M.get]
  refine fire_generic hro w hs _ _ e eo _
    (Props.C08.earlyOut_entity_sound w.obs _ (hok.agg _) mask) ?_
  refine filter_spec' fun l hl => ?_
  obtain ⟨h1, h2, h3⟩ := hok.reg _ l hl
  rw [h3]
  exact pred_entity_dataOf _ h2 (by rw [h1]; rfl) mask

theorem fireCreateEntityRel_readOnly (e : Ent) (mask : Mask) (eo : Bool) :
    fireCreateEntityRel run e mask eo w
      = .ok (!(firing w.obs Ev.onAddRelations (.entityRel mask)).isEmpty)
          (w.addLog (notifyAll rec e (firing w.obs Ev.onAddRelations (.entityRel mask)) w)) := by
  simp only [fireCreateEntityRel, bind, M.bind, M.get]
  refine fire_generic hro w hs _ _ e eo _
    (Props.C08.earlyOut_entityRel_sound w.obs _ (hok.agg _) (by decide) mask) ?_
  refine filter_spec' fun l hl => ?_
  obtain ⟨h1, h2, h3⟩ := hok.reg _ l hl
  rw [h3]
  exact pred_entityRel_dataOf _ h2 (by rw [h1]; rfl) mask

theorem fireRemoveEntityRel_readOnly (e : Ent) (mask : Mask) (eo : Bool) :
    fireRemoveEntityRel run e mask eo w
      = .ok (!(firing w.obs Ev.onRemoveRelations (.entityRel mask)).isEmpty)
          (w.addLog (notifyAll rec e (firing w.obs Ev.onRemoveRelations (.entityRel mask)) w)) := by
  simp only [fireRemoveEntityRel, bind, M.bind, M.get]
  refine fire_generic hro w hs _ _ e eo _
    (Props.C08.earlyOut_entityRel_sound w.obs _ (hok.agg _) (by decide) mask) ?_
  refine filter_spec' fun l hl => ?_
  obtain ⟨h1, h2, h3⟩ := hok.reg _ l hl
  rw [h3]
  exact pred_entityRel_dataOf _ h2 (by rw [h1]; rfl) mask

/-- the `hasObservers` guard in front of `FireAdd` loses no callback either -/
theorem fireAddIfHas_readOnly (evt : Nat) (hev : evt ≠ Ev.onCreateEntity ∧ evt ≠ Ev.onRemoveEntity)
    (e : Ent) (old new : Mask) :
    fireAddIfHas run evt e old new w
      = .ok () (w.addLog (notifyAll rec e (firing w.obs evt (.add old new)) w)) := by
  simp only [fireAddIfHas, bind, M.bind, M.get]
  cases hh : w.obs.hasObservers evt with
  | false =>
    rw [firing_nil_of_no_observers (hok.agg evt) hh]
    rfl
  | true =>
    simp only [if_true, M.bind, fireAdd_readOnly hro w hs hok evt hev]
    rfl

theorem fireCreateEntityIfHas_readOnly (e : Ent) (mask : Mask) :
    fireCreateEntityIfHas run e mask w
      = .ok () (w.addLog (notifyAll rec e (firing w.obs Ev.onCreateEntity (.entity mask)) w)) := by
  simp only [fireCreateEntityIfHas, bind, M.bind, M.get]
  cases hh : w.obs.hasObservers Ev.onCreateEntity with
  | false =>
    rw [firing_nil_of_no_observers (hok.agg _) hh]
    rfl
  | true =>
    simp only [if_true, M.bind, fireCreateEntity_readOnly hro w hs hok]
    rfl

theorem fireCreateEntityRelIfHas_readOnly (e : Ent) (mask : Mask) :
    fireCreateEntityRelIfHas run e mask w
      = .ok () (w.addLog (notifyAll rec e (firing w.obs Ev.onAddRelations (.entityRel mask)) w)) := by
  simp only [fireCreateEntityRelIfHas, bind, M.bind, M.get]
  cases hh : w.obs.hasObservers Ev.onAddRelations with
  | false =>
    rw [firing_nil_of_no_observers (hok.agg _) hh]
    rfl
  | true =>
    simp only [if_true, M.bind, fireCreateEntityRel_readOnly hro w hs hok]
    rfl

end Fire

end Ark
