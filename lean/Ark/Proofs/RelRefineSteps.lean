/-
  Ark.Proofs.RelRefineSteps — the refinement machine for the fragment WITH relation components,
  part 2: one step lemma per operation (`step_reg`, `step_new`, `step_add`, `step_rem`, `step_setrel`,
  `step_set`, `step_del`, each proving `StepGoal`), `step_goal`, `run_inv`, `reach_hinv`,
  `reach_bounds`.

  Size bounds.  `RemoveEntity` of a relation target may create one table per relation archetype
  (`RemovedRelPost.tablesLen`), every other operation at most one table; every operation creates
  at most one relation archetype and one index slot.  So after `n` operations there are at most
  `n` relation archetypes and `1 + n²` tables, and the histories covered are those with
  `ops.length < 2^16` (`n² + n + 3 ≤ 2^32`).
  Kernel-only proofs, core Lean only.
-/
import Ark.Proofs.RelRefine
import Ark.Proofs.RelRemove

set_option autoImplicit false

namespace Ark

open World Ark.Props.C01World

namespace RelRefine

open Refine (Comps keys sortedIds writeComps zeros)

/-- the conclusion of every step lemma: the invariant is kept; at most `1 + (number of relation
    archetypes)` tables, one relation archetype and one index slot are created; a call whose
    precondition fails is rejected with the world unchanged; a call whose precondition holds
    succeeds -/
def StepGoal (run : ProbeRunner) (s : St) (op : Op) : Prop :=
  (∃ fl', HInv (step run s op) fl') ∧
  (step run s op).w.tables.length ≤ s.w.tables.length + 1 + s.w.relationArchetypes.length ∧
  (step run s op).w.relationArchetypes.length ≤ s.w.relationArchetypes.length + 1 ∧
  (step run s op).w.entities.length ≤ s.w.entities.length + 1 ∧
  (guard s op = true → ¬ pre s.ss op → ∃ k, exec run s.w op = .panic k s.w) ∧
  (guard s op = true → pre s.ss op → ∃ r w', exec run s.w op = .ok r w')

theorem step_of_guard {run : ProbeRunner} {s : St} {op : Op} (hg : guard s op = true) :
    step run s op = ⟨(exec run s.w op).state, issuedAfter s.issued (exec run s.w op),
      specStep s.ss ((retOf (exec run s.w op)).getD default) op⟩ := by
  rw [step, if_pos hg]

theorem stepGoal_no_guard {run : ProbeRunner} {s : St} {fl : List Nat} (H : HInv s fl) {op : Op}
    (hg : ¬ guard s op = true) : StepGoal run s op := by
  have : step run s op = s := by rw [step, if_neg hg]
  refine ⟨⟨fl, by rw [this]; exact H⟩, by rw [this]; omega, by rw [this]; exact Nat.le_succ _,
    by rw [this]; exact Nat.le_succ _, fun h => absurd h hg, fun h => absurd h hg⟩

/-- a rejected call: the world and the specification are unchanged -/
theorem stepGoal_rejected {run : ProbeRunner} {s : St} {fl : List Nat} (H : HInv s fl) {op : Op}
    (hg : guard s op = true) {k : PanicKind} (hex : exec run s.w op = .panic k s.w)
    (hnp : ¬ pre s.ss op) (hspec : ∀ fresh, specStep s.ss fresh op = s.ss) :
    StepGoal run s op := by
  have : step run s op = s := by
    rw [step_of_guard hg, hex]
    simp only [Res.state, retOf, issuedAfter, hspec]
  refine ⟨⟨fl, by rw [this]; exact H⟩, by rw [this]; omega, by rw [this]; exact Nat.le_succ _,
    by rw [this]; exact Nat.le_succ _, fun _ _ => ⟨k, hex⟩, fun _ hp => absurd hp hnp⟩

/-- an operation whose precondition fails leaves the specification unchanged -/
theorem specStep_of_not_pre (ss : SS) (fresh : Ent) (op : Op) (h : ¬ pre ss op) :
    specStep ss fresh op = ss := by
  cases op with
  | reg size z ir => simp only [specStep]; exact if_neg h
  | new p ids vals rels => simp only [specStep]; exact if_neg h
  | add p e ids vals rels =>
    simp only [specStep]
    cases hf : find ss.ents e with
    | none => rfl
    | some en => exact if_neg (fun hv => h ⟨en, hf, hv⟩)
  | rem p e ids =>
    simp only [specStep]
    cases hf : find ss.ents e with
    | none => rfl
    | some en => exact if_neg (fun hv => h ⟨en, hf, hv⟩)
  | setrel p e rels =>
    simp only [specStep]
    cases hf : find ss.ents e with
    | none => rfl
    | some en => exact if_neg (fun hv => h ⟨en, hf, hv⟩)
  | set e vals =>
    simp only [specStep]
    cases hf : find ss.ents e with
    | none => rfl
    | some en => exact if_neg (fun hv => h ⟨en, hf, hv⟩)
  | del e =>
    simp only [specStep]
    cases hf : find ss.ents e with
    | none => rfl
    | some en => exact absurd ⟨en, hf⟩ h

/-! ### `reg` -/

theorem getD_append_left {l : List Bool} {c : Nat} (hc : c < l.length) (b : Bool) :
    (l ++ [b]).getD c false = l.getD c false := by
  simp only [List.getD_eq_getElem?_getD, List.getElem?_append_left hc]

theorem step_reg (run : ProbeRunner) {s : St} {fl : List Nat} (H : HInv s fl) (size : Nat)
    (z ir : Bool) : StepGoal run s (.reg size z ir) := by
  have hg : guard s (.reg size z ir) = true := rfl
  by_cases hlt : s.ss.zst.length < 256
  · have hlt' : s.w.kinds.length < s.w.maxComps := by rw [H.maxc, ← H.zlen]; exact hlt
    obtain ⟨w', hr⟩ := registerComponent_ok_of { isRel := ir, zst := z, size := size } s.w hlt'
      H.unlocked
    obtain ⟨ht', fo, fl'⟩ := H.tinv.registerComponent hr
    obtain ⟨_, hks, _, _, _, hpool, _⟩ := registerComponent_ok hr
    obtain ⟨hsame, hmax, hra, htl, hel⟩ := registerComponent_rel_frame hr
    have hex : exec run s.w (.reg size z ir) = .ok none w' := by simp only [exec, hr]
    have hstep : step run s (.reg size z ir) =
        ⟨w', s.issued, ⟨s.ss.ents, s.ss.zst ++ [z], s.ss.isRel ++ [ir]⟩⟩ := by
      rw [step_of_guard hg, hex]
      simp only [Res.state, retOf, issuedAfter, specStep, if_pos hlt]
    have hklen : w'.kinds.length = s.w.kinds.length + 1 := by
      rw [hks]; simp only [List.length_append, List.length_singleton]
    have hrlen : s.ss.isRel.length = s.w.kinds.length := by rw [H.relEq, List.length_map]
    refine ⟨⟨fl, ?_⟩, by rw [hstep]; show w'.tables.length ≤ _; rw [htl]; omega,
      by rw [hstep]; show w'.relationArchetypes.length ≤ _; rw [hra]; exact Nat.le_succ _,
      by rw [hstep]; show w'.entities.length ≤ _; rw [hel]; exact Nat.le_succ _,
      fun _ hnp => absurd hlt hnp, fun _ _ => ⟨_, _, hex⟩⟩
    rw [hstep]
    exact
      { tinv := ht'
        ginv := by
          have : (⟨w', s.issued, ⟨s.ss.ents, s.ss.zst ++ [z], s.ss.isRel ++ [ir]⟩⟩ : St).ps = s.ps := by
            simp only [St.ps, hpool]
          rw [this]; exact H.ginv
        unlocked := by show w'.locks.isLocked = false; rw [fl']; exact H.unlocked
        noObs := fun evt => by show w'.obs.hasObservers evt = false; rw [fo]; exact H.noObs evt
        nodup := H.nodup
        zstEq := by
          show s.ss.zst ++ [z] = w'.kinds.map (·.zst)
          rw [hks, List.map_append, H.zstEq]; rfl
        relEq := by
          show s.ss.isRel ++ [ir] = w'.kinds.map (·.isRel)
          rw [hks, List.map_append, H.relEq]; rfl
        maxc := hmax.trans H.maxc
        ok := by
          intro e en hm
          show EntOK w' w'.kinds.length (s.ss.isRel ++ [ir]) e en
          have ok := H.ok e en hm
          rw [hklen]
          exact
            { nodup := ok.nodup
              reg := fun c hc => Nat.lt_succ_of_lt (ok.reg c hc)
              comps := by rw [(hsame e.id).1.2, Refine.sortedIds_succ ok.reg]; exact ok.comps
              vals := fun cv hcv => by rw [(hsame e.id).1.1]; exact ok.vals cv hcv
              relNodup := ok.relNodup
              relKeys := by
                intro c
                rw [ok.relKeys c]
                constructor
                · rintro ⟨h1, h2⟩
                  exact ⟨h1, by rw [getD_append_left (by rw [hrlen]; exact ok.reg c h1)]; exact h2⟩
                · rintro ⟨h1, h2⟩
                  exact ⟨h1, by rw [getD_append_left (by rw [hrlen]; exact ok.reg c h1)] at h2; exact h2⟩
              tgts := fun r hr => by rw [(hsame e.id).2]; exact ok.tgts r hr }
        tgtsOK := H.tgtsOK }
  · have hfull : s.w.maxComps ≤ s.w.kinds.length := by rw [H.maxc, ← H.zlen]; omega
    have hr := registerComponent_full { isRel := ir, zst := z, size := size } s.w hfull
    exact stepGoal_rejected H hg (k := .registryFull) (by simp only [exec, hr]) hlt
      (fun _ => by simp only [specStep, if_neg hlt])

/-! ### `set` -/

theorem step_set (run : ProbeRunner) {s : St} {fl : List Nat} (H : HInv s fl)
    (e : Ent) (vals : Comps) : StepGoal run s (.set e vals) := by
  by_cases hg : guard s (.set e vals) = true
  case neg => exact stepGoal_no_guard H hg
  have hi : e ∈ s.issued := by simpa only [guard, decide_eq_true_eq] using hg
  cases ha : s.w.alive e with
  | false =>
    have hop := World.opSet_dead run s.w e ha (keys vals) vals
    have hf := H.find_of_dead hi ha
    exact stepGoal_rejected H hg (k := .deadEntity) (by simp only [exec, hop])
      (by rintro ⟨en, hen, _⟩; rw [hf] at hen; cases hen) (fun _ => by simp only [specStep, hf])
  | true =>
    obtain ⟨en, hf, hm⟩ := H.find_of_alive hi ha
    obtain ⟨_, _, h2, hnf, _, hsl⟩ := H.live_facts hm
    have ok := H.ok e en hm
    have hiff : (∀ (c : Comp), c ∈ keys vals → c ∈ sortedIds s.w.kinds.length (keys en.comps)) ↔
        ∀ cv ∈ vals, cv.1 ∈ keys en.comps := by
      constructor
      · intro hh cv hcv
        exact (H.comps_iff hm cv.1).mp (hh cv.1 (List.mem_map.mpr ⟨cv, hcv, rfl⟩))
      · intro hh c hc
        obtain ⟨cv, hcv, rfl⟩ := List.mem_map.mp hc
        exact (H.comps_iff hm cv.1).mpr (hh cv hcv)
    by_cases hv : ∀ cv ∈ vals, cv.1 ∈ keys en.comps
    · obtain ⟨w', hop, post⟩ := opSet_rel_spec run H.tinv H.noObs h2 hnf ha (Pool.lt_of_slot hsl) ok.comps (hiff.mpr hv) vals
      have hex : exec run s.w (.set e vals) = .ok none w' := by simp only [exec, hop]
      have hstep : step run s (.set e vals) =
          ⟨w', s.issued, ⟨upd s.ss.ents e fun en => { en with comps := writeComps s.ss.zst vals en.comps },
            s.ss.zst, s.ss.isRel⟩⟩ := by
        rw [step_of_guard hg, hex]
        simp only [Res.state, retOf, issuedAfter, specStep, hf, if_pos hv]
      refine ⟨⟨fl, ?_⟩,
        by rw [hstep]; show w'.tables.length ≤ _; rw [post.tablesLen]; omega,
        by rw [hstep]; show w'.relationArchetypes.length ≤ _; rw [post.relArchs]; exact Nat.le_succ _,
        by rw [hstep]; show w'.entities.length ≤ _; rw [post.entitiesLen]; exact Nat.le_succ _,
        fun _ hnp => absurd ⟨en, hf, hv⟩ hnp, fun _ _ => ⟨_, _, hex⟩⟩
      rw [hstep]
      refine H.update hm _ post.tinv post.pool post.locks post.obs post.kinds post.maxComps
        (fun j hj => ⟨post.frame j hj, post.targets j⟩) ?_ (H.tgtsOK e en hm)
      exact
        { nodup := by rw [Refine.keys_writeComps]; exact ok.nodup
          reg := by rw [Refine.keys_writeComps]; exact ok.reg
          comps := by rw [post.comps, Refine.keys_writeComps]; exact ok.comps
          vals := by
            intro cv hcv
            obtain ⟨v, hv', hval⟩ := Refine.mem_writeComps hcv
            rw [post.vals cv.1 v (ok.vals (cv.1, v) hv'), hval, H.zget]
          relNodup := ok.relNodup
          relKeys := by intro c; rw [Refine.keys_writeComps]; exact ok.relKeys c
          tgts := fun r hr => by rw [post.targets]; exact ok.tgts r hr }
    · have hop := opSet_rel_missing run H.tinv h2 hnf ha (Pool.lt_of_slot hsl) ok.comps (ids := keys vals)
        (fun hh => hv (hiff.mp hh)) vals
      exact stepGoal_rejected H hg (k := .missing) (by simp only [exec, hop])
        (by
          rintro ⟨en', hen', hp⟩
          rw [hf] at hen'
          rw [← Option.some.inj hen'] at hp
          exact hv hp)
        (fun _ => by simp only [specStep, hf, if_neg hv])

/-! ### `del` -/

theorem step_del (run : ProbeRunner) {s : St} {fl : List Nat} (H : HInv s fl)
    (hfew : s.w.tables.length + s.w.relationArchetypes.length + 1 ≤ maxU32)
    (hent : 2 * s.w.entities.length < 2 ^ 32) (e : Ent) : StepGoal run s (.del e) := by
  by_cases hg : guard s (.del e) = true
  case neg => exact stepGoal_no_guard H hg
  have hi : e ∈ s.issued := by simpa only [guard, decide_eq_true_eq] using hg
  cases ha : s.w.alive e with
  | false =>
    have hop := opRemoveEntity_dead run s.w H.unlocked e ha
    have hf := H.find_of_dead hi ha
    exact stepGoal_rejected H hg (k := .deadEntity) (by simp only [exec, hop])
      (by rintro ⟨en, hen⟩; rw [hf] at hen; cases hen) (fun _ => by simp only [specStep, hf])
  | true =>
    obtain ⟨en, hf, hm⟩ := H.find_of_alive hi ha
    obtain ⟨_, _, h2, hnf, _, hsl⟩ := H.live_facts hm
    obtain ⟨w', hop, post⟩ := opRemoveEntity_rel_spec run H.tinv H.unlocked H.noObs h2 hnf ha (Pool.lt_of_slot hsl) hfew hent
    have more := opRemoveEntity_rel_more run H.tinv H.unlocked H.noObs h2 hnf ha (Pool.lt_of_slot hsl) hfew hent hop
    have hex : exec run s.w (.del e) = .ok none w' := by simp only [exec, hop]
    have hstep : step run s (.del e) =
        ⟨w', s.issued, ⟨detach e (del s.ss.ents e), s.ss.zst, s.ss.isRel⟩⟩ := by
      rw [step_of_guard hg, hex]
      simp only [Res.state, retOf, issuedAfter, specStep, hf]
    refine ⟨⟨e.id :: fl, ?_⟩,
      by rw [hstep]; show w'.tables.length ≤ _; have := post.tablesLen; omega,
      by rw [hstep]; show w'.relationArchetypes.length ≤ _; rw [more.relArchs]; exact Nat.le_succ _,
      by rw [hstep]; show w'.entities.length ≤ _; rw [post.entitiesLen]; exact Nat.le_succ _,
      fun _ hnp => absurd ⟨en, hf⟩ hnp, fun _ _ => ⟨_, _, hex⟩⟩
    rw [hstep]
    obtain ⟨fl1, g1⟩ := Pool.step_inv s.ps fl H.ginv (.recycle e)
    have hps : s.ps.step (.recycle e) =
        (⟨w', s.issued, ⟨detach e (del s.ss.ents e), s.ss.zst, s.ss.isRel⟩⟩ : St).ps := by
      have hc : e ∈ s.ps.issued ∧ s.ps.p.alive e = true := ⟨hi, ha⟩
      simp only [Pool.PS.step, hc, and_self, if_true]
      show (⟨s.w.pool.recycle e, _, _⟩ : Pool.PS) = ⟨w'.pool, _, _⟩
      rw [more.pool, detach_keys, del_keys]; rfl
    rw [hps] at g1
    have hfl : fl1 = e.id :: fl := g1.pinv.unique post.tinv.link.pool
    subst hfl
    have hnd := H.ginv.live_nodup
    -- an entry that survives
    have hsurv : ∀ (x : Ent) (en0 : Entry), (x, en0) ∈ del s.ss.ents e →
        (x, en0) ∈ s.ss.ents ∧ x ≠ e ∧ x.id ≠ e.id := by
      intro x en0 hx
      have hx' := mem_del hx
      have hne : x ≠ e := by
        rintro rfl
        have hk : x ∈ (del s.ss.ents x).map (·.1) := List.mem_map.mpr ⟨(x, en0), hx, rfl⟩
        rw [del_keys] at hk
        exact List.Nodup.not_mem_erase hnd hk
      exact ⟨hx', hne, fun hid => hne (H.id_inj hx' hm hid)⟩
    exact
      { tinv := post.tinv
        ginv := g1
        unlocked := by show w'.locks.isLocked = false; rw [post.locks]; exact H.unlocked
        noObs := fun evt => by show w'.obs.hasObservers evt = false; rw [post.obs]; exact H.noObs evt
        nodup := H.nodup
        zstEq := by show s.ss.zst = w'.kinds.map (·.zst); rw [post.kinds]; exact H.zstEq
        relEq := by show s.ss.isRel = w'.kinds.map (·.isRel); rw [post.kinds]; exact H.relEq
        maxc := more.maxComps.trans H.maxc
        ok := by
          intro x en' hx
          show EntOK w' w'.kinds.length s.ss.isRel x en'
          rw [post.kinds]
          obtain ⟨en0, hx0, rfl⟩ := mem_detach hx
          obtain ⟨hx', _, hid⟩ := hsurv x en0 hx0
          have ok := H.ok x en0 hx'
          obtain ⟨hs, ht⟩ := post.frame x.id hid
          exact
            { nodup := ok.nodup
              reg := ok.reg
              comps := by rw [hs.2]; exact ok.comps
              vals := fun cv hcv => by rw [hs.1]; exact ok.vals cv hcv
              relNodup := by
                show ((en0.rels.map (zeroRel e)).map (·.comp)).Nodup
                rw [map_zeroRel_comp]; exact ok.relNodup
              relKeys := by
                intro c
                show c ∈ (en0.rels.map (zeroRel e)).map (·.comp) ↔ _
                rw [map_zeroRel_comp]; exact ok.relKeys c
              tgts := by
                intro r' hr'
                obtain ⟨r, hr, rfl⟩ := List.mem_map.mp (show r' ∈ en0.rels.map (zeroRel e) from hr')
                rw [zeroRel_comp, ht, ok.tgts r hr, zeroRel_target, zeroed]
                by_cases hrt : r.target = e
                · rw [if_pos (by rw [hrt]), if_pos hrt]
                · rw [if_neg (fun hh => hrt (Option.some.inj hh)), if_neg hrt] }
        tgtsOK := by
          intro x en' hx r' hr'
          show r'.target.isZero = true ∨
            (find (detach e (del s.ss.ents e)) r'.target).isSome = true
          obtain ⟨en0, hx0, rfl⟩ := mem_detach hx
          obtain ⟨hx', _, _⟩ := hsurv x en0 hx0
          obtain ⟨r, hr, rfl⟩ := List.mem_map.mp (show r' ∈ en0.rels.map (zeroRel e) from hr')
          rw [zeroRel_target]
          by_cases hrt : r.target = e
          · rw [if_pos hrt]; exact Or.inl rfl
          · rw [if_neg hrt]
            rcases H.tgtsOK x en0 hx' r hr with k | k
            · exact Or.inl k
            · right
              rw [find_isSome_iff] at k ⊢
              rw [detach_keys, del_keys]
              exact (List.mem_erase_of_ne hrt).mpr k }

/-! ### reading the guard -/

theorem tgtsExpr_iff {s : St} {rels : Rels} :
    tgtsExpr s rels = true ↔ ∀ r ∈ rels, r.target.isZero = true ∨ r.target ∈ s.issued := by
  simp only [tgtsExpr, List.all_eq_true, Bool.or_eq_true, decide_eq_true_eq]

/-- an expressible relation list that is not valid names a dead handle -/
theorem dead_of_invalid' {s : St} {fl : List Nat} (H : HInv s fl) {rels : Rels}
    (hx : tgtsExpr s rels = true) (hnv : ¬ TargetsValid s.ss.ents rels) :
    ∃ (r : RelID), r ∈ rels ∧ r.target.isZero = false ∧ s.w.alive r.target = false := by
  have h1 := tgtsExpr_iff.mp hx
  have : ∃ r ∈ rels, ¬ (r.target.isZero = true ∨ (find s.ss.ents r.target).isSome = true) := by
    apply Classical.byContradiction
    intro hh
    apply hnv
    intro r hr
    apply Classical.byContradiction
    intro hr'
    exact hh ⟨r, hr, hr'⟩
  obtain ⟨r, hr, hbad⟩ := this
  have hz : r.target.isZero = false := by
    cases hzz : r.target.isZero with
    | false => rfl
    | true => exact absurd (Or.inl hzz) hbad
  have hiss : r.target ∈ s.issued := by
    rcases h1 r hr with k | k
    · rw [hz] at k; cases k
    · exact k
  refine ⟨r, hr, hz, ?_⟩
  cases hal : s.w.alive r.target with
  | false => rfl
  | true =>
    obtain ⟨en, hf, _⟩ := H.find_of_alive hiss hal
    exact absurd (Or.inr (by rw [hf]; rfl)) hbad

/-- … the same for `new` / `add` (before the repair of the `Unsafe` API the guard asked for valid
    targets on the `Unsafe` path, and this lemma said that the path is a typed one) -/
theorem dead_of_invalid {s : St} {fl : List Nat} (H : HInv s fl) {rels : Rels}
    (hx : tgtsExpr s rels = true) (hnv : ¬ TargetsValid s.ss.ents rels) :
    ∃ (r : RelID), r ∈ rels ∧ r.target.isZero = false ∧ s.w.alive r.target = false :=
  dead_of_invalid' H hx hnv

/-- a relation list the machine admits (`RelsStep`) that is not well-formed (`RelsWF`) contains a
    relation the pre-validation refuses for its component -/
theorem bad_of_not_wf {s : St} {fl : List Nat} (H : HInv s fl) {p : Path} {ids : List Comp}
    {rels : Rels} (hmap : p = .map1 → ∀ r ∈ rels, r.comp ∈ ids)
    (hn : ¬ ∀ r ∈ rels, r.comp ∈ ids ∧ s.ss.isRel.getD r.comp false = true) :
    ∃ (r : RelID), r ∈ rels ∧ BadRelComp s.w p ids r := by
  have : ∃ r ∈ rels, ¬ (r.comp ∈ ids ∧ s.ss.isRel.getD r.comp false = true) := by
    apply Classical.byContradiction
    intro hh
    apply hn
    intro r hr
    apply Classical.byContradiction
    intro hr'
    exact hh ⟨r, hr, hr'⟩
  obtain ⟨r, hr, hbad⟩ := this
  refine ⟨r, hr, ?_⟩
  cases hrc : s.w.isRelComp r.comp with
  | false => exact Or.inl hrc
  | true =>
    have hnin : r.comp ∉ ids := fun hin => hbad ⟨hin, by rw [H.rget]; exact hrc⟩
    exact Or.inr ⟨fun hp => hnin (hmap hp r hr), hnin⟩

/-! ### `new` -/

theorem step_new (run : ProbeRunner) {s : St} {fl : List Nat} (H : HInv s fl)
    (hfew : s.w.tables.length < maxU32) (hent : s.w.entities.length + 1 < 2 ^ 32)
    (p : Path) (ids : List Comp) (vals : Comps) (rels : Rels) :
    StepGoal run s (.new p ids vals rels) := by
  by_cases hg : guard s (.new p ids vals rels) = true
  case neg => exact stepGoal_no_guard H hg
  have hg' : ((∀ c ∈ ids, c < s.ss.zst.length) ∧ RelsStep s.ss.isRel p ids rels) ∧
      tgtsExpr s rels = true := by
    simpa only [guard, Bool.and_eq_true, List.all_eq_true, decide_eq_true_eq] using hg
  obtain ⟨⟨hreg, hst⟩, hx⟩ := hg'
  have hreg' : ∀ (c : Comp), c ∈ ids → c < s.w.kinds.length := by rw [← H.zlen]; exact hreg
  have hb256 : ∀ (c : Comp), c ∈ ids → c < 256 := fun c hc => H.reg256 (hreg' c hc)
  obtain ⟨hrnd, hrmap, hrall⟩ := hst
  -- a relation on a non-relation component / on a component that is not added: refused by the
  -- pre-validation, before anything is touched
  by_cases hrin : ∀ r ∈ rels, r.comp ∈ ids ∧ s.ss.isRel.getD r.comp false = true
  case neg =>
    obtain ⟨k, hop⟩ := opNewEntity_rel_badRel run p ids vals rels s.w (bad_of_not_wf H hrmap hrin)
    have hn : ¬ NewOK s.ss ids rels := fun hp => hrin hp.2.2.1.2.1
    exact stepGoal_rejected H hg (k := k) (by simp only [exec, hop]) hn
      (fun _ => by simp only [specStep, if_neg hn])
  have hin : ∀ (r : RelID), r ∈ rels → r.comp ∈ ids := fun r hr => (hrin r hr).1
  have hrc : ∀ (r : RelID), r ∈ rels → s.w.isRelComp r.comp = true :=
    fun r hr => by rw [← H.rget]; exact (hrin r hr).2
  by_cases hnd : ids.Nodup
  case neg =>
    obtain ⟨k, hop⟩ := opNewEntity_rel_dup run p ids vals rels s.w H.unlocked hb256 hnd
    exact stepGoal_rejected H hg (k := k) (by simp only [exec, hop]) (fun hp => hnd hp.1)
      (fun _ => by
        have hn : ¬ NewOK s.ss ids rels := fun hp => hnd hp.1
        simp only [specStep, if_neg hn])
  by_cases hv : TargetsValid s.ss.ents rels
  case neg =>
    have hd := dead_of_invalid H hx hv
    have hop : opNewEntity run p ids vals rels s.w = .panic .deadTarget s.w := by
      simp only [opNewEntity, bind, M.bind, preCheck_deadTarget p ids s.w rels
        (fun r hr => ⟨hrc r hr, by
          rw [Mask.get_ofList]; simp [hb256 r.comp (hin r hr), hin r hr]⟩) hd]
    have hn : ¬ NewOK s.ss ids rels := fun hp => hv hp.2.2.2
    exact stepGoal_rejected H hg (k := .deadTarget) (by simp only [exec, hop]) hn
      (fun _ => by simp only [specStep, if_neg hn])
  have hok : NewOK s.ss ids rels := ⟨hnd, hreg, ⟨hrnd, hrin, hrall⟩, hv⟩
  obtain ⟨e, w', hop⟩ := opNewEntity_rel_total run p H.tinv H.unlocked H.noObs (vals := vals) hnd hreg'
    hrnd hin hrc (fun c hc hr => hrall c hc (by rw [H.rget]; exact hr)) (H.targets_alive hv)
  have post := opNewEntity_rel_spec run p H.tinv H.unlocked H.noObs hreg' hrnd hin hrc
    (H.tgts_in hx) hfew hent hop
  have more := opNewEntity_rel_more run p H.tinv H.unlocked H.noObs hreg' hrnd hin hfew hent hop
  have he : e = (s.w.pool.get).2 := post.ent
  subst he
  have hex : exec run s.w (.new p ids vals rels) = .ok (some (s.w.pool.get).2) w' := by
    simp only [exec, hop]
  have hstep : step run s (.new p ids vals rels) =
      ⟨w', (s.w.pool.get).2 :: s.issued,
        ⟨((s.w.pool.get).2, ⟨writeComps s.ss.zst vals (zeros ids), rels⟩) :: s.ss.ents,
          s.ss.zst, s.ss.isRel⟩⟩ := by
    rw [step_of_guard hg, hex]
    simp only [Res.state, retOf, issuedAfter, specStep, if_pos hok, Option.getD_some]
  refine ⟨⟨fl.tail, ?_⟩, by rw [hstep]; show w'.tables.length ≤ _; have := post.tablesLen; omega,
    by rw [hstep]; exact more.relArchs, by rw [hstep]; exact post.entitiesLen,
    fun _ hnp => absurd hok hnp, fun _ _ => ⟨_, _, hex⟩⟩
  rw [hstep]
  refine H.created post.tinv more.pool post.locks post.obs post.kinds more.maxComps post.frame ?_ hv
  have hk : keys (writeComps s.ss.zst vals (zeros ids)) = ids := by
    rw [Refine.keys_writeComps, Refine.keys_zeros]
  exact
    { nodup := by show (keys (writeComps s.ss.zst vals (zeros ids))).Nodup; rw [hk]; exact hnd
      reg := by
        show ∀ c ∈ keys (writeComps s.ss.zst vals (zeros ids)), _
        rw [hk]; exact hreg'
      comps := by
        show compsOf w' _ = some (sortedIds _ (keys (writeComps s.ss.zst vals (zeros ids))))
        rw [more.comps, hk]
        congr 1
        exact Refine.toList_eq_sortedIds _ _ _
          (fun c hc => Refine.mask_ofList_iff (by have := H.tinv.kindsLe; omega) c hc)
      vals := by
        intro cv hcv
        obtain ⟨v, hv', hval⟩ := Refine.mem_writeComps hcv
        simp only [zeros, List.mem_map] at hv'
        obtain ⟨c, hc, hcv'⟩ := hv'
        injection hcv' with h1 h2
        rw [← h1] at hval ⊢
        rw [more.vals c hc, hval, ← h2, H.zget]
      relNodup := hrnd
      relKeys := by
        intro c
        show c ∈ rels.map (·.comp) ↔ c ∈ keys (writeComps s.ss.zst vals (zeros ids)) ∧ _
        rw [hk]
        constructor
        · intro hc
          obtain ⟨r, hr, rfl⟩ := List.mem_map.mp hc
          exact hrin r hr
        · rintro ⟨h1, h2⟩
          exact hrall c h1 h2
      tgts := post.targets }

/-! ### `add` -/

theorem sortedIds_append_sorted (n : Nat) (ks ids : List Comp) :
    sortedIds n (sortedIds n ks ++ ids) = sortedIds n (ks ++ ids) := by
  simp only [sortedIds]
  apply List.filter_congr
  intro c hc
  have hlt := List.mem_range.mp hc
  have : (c ∈ (List.range n).filter (fun c => decide (c ∈ ks)) ++ ids) ↔ c ∈ ks ++ ids := by
    simp only [List.mem_append, List.mem_filter, List.mem_range, decide_eq_true_eq]
    constructor
    · rintro (⟨_, h⟩ | h)
      · exact Or.inl h
      · exact Or.inr h
    · rintro (h | h)
      · exact Or.inl ⟨hlt, h⟩
      · exact Or.inr h
  exact decide_eq_decide.mpr this

theorem step_add (run : ProbeRunner) {s : St} {fl : List Nat} (H : HInv s fl)
    (hfew : s.w.tables.length < maxU32) (hent : s.w.entities.length + 1 < 2 ^ 32)
    (p : Path) (e : Ent) (ids : List Comp) (vals : Comps) (rels : Rels) :
    StepGoal run s (.add p e ids vals rels) := by
  by_cases hg : guard s (.add p e ids vals rels) = true
  case neg => exact stepGoal_no_guard H hg
  have hg' : ((e ∈ s.issued ∧ ∀ c ∈ ids, c < s.ss.zst.length) ∧ RelsStep s.ss.isRel p ids rels) ∧
      tgtsExpr s rels = true := by
    simpa only [guard, Bool.and_eq_true, List.all_eq_true, decide_eq_true_eq] using hg
  obtain ⟨⟨⟨hi, hreg⟩, hst⟩, hx⟩ := hg'
  have hreg' : ∀ (c : Comp), c ∈ ids → c < s.w.kinds.length := by rw [← H.zlen]; exact hreg
  have hb256 : ∀ (c : Comp), c ∈ ids → c < 256 := fun c hc => H.reg256 (hreg' c hc)
  obtain ⟨hrnd, hrmap, hrall⟩ := hst
  -- a relation on a non-relation component / on a component that is not added: refused without
  -- effect (pre-validation; `Unsafe` with no components: `noComponents`)
  by_cases hrin : ∀ r ∈ rels, r.comp ∈ ids ∧ s.ss.isRel.getD r.comp false = true
  case neg =>
    obtain ⟨k, hop⟩ := opAdd_rel_badRel run p e ids vals rels s.w H.unlocked
      (bad_of_not_wf H hrmap hrin)
    have hnp : ¬ pre s.ss (.add p e ids vals rels) := by
      rintro ⟨en, _, hp⟩
      exact hrin hp.2.1.2.1
    refine stepGoal_rejected H hg (k := k) (by simp only [exec, hop]) hnp (fun _ => ?_)
    simp only [specStep]
    split
    · rfl
    · rename_i en hf
      have hn : ¬ AddOK s.ss en ids rels := fun hp => hrin hp.2.1.2.1
      simp only [if_neg hn]
  have hin : ∀ (r : RelID), r ∈ rels → r.comp ∈ ids := fun r hr => (hrin r hr).1
  have hrc : ∀ (r : RelID), r ∈ rels → s.w.isRelComp r.comp = true :=
    fun r hr => by rw [← H.rget]; exact (hrin r hr).2
  cases ha : s.w.alive e with
  | false =>
    obtain ⟨k, hop⟩ := opAdd_rel_panic run p e ids vals rels s.w
      (addCore_dead s.w H.unlocked e ha ids rels)
    have hf := H.find_of_dead hi ha
    exact stepGoal_rejected H hg (k := k) (by simp only [exec, hop])
      (by rintro ⟨en, hen, _⟩; rw [hf] at hen; cases hen) (fun _ => by simp only [specStep, hf])
  | true =>
    obtain ⟨en, hf, hm⟩ := H.find_of_alive hi ha
    obtain ⟨_, _, h2, hnf, _, hsl⟩ := H.live_facts hm
    have ok := H.ok e en hm
    have hmask : ∀ (c : Comp), (s.w.maskOf e).get c = true ↔ c ∈ keys en.comps := fun c => by
      rw [H.tinv.mask_iff_comps h2 hnf ha (Pool.lt_of_slot hsl) ok.comps c, H.comps_iff hm c]
    have hrej : ∀ {k : PanicKind}, opAdd run p e ids vals rels s.w = .panic k s.w →
        ¬ AddOK s.ss en ids rels → StepGoal run s (.add p e ids vals rels) := by
      intro k hop hn
      exact stepGoal_rejected H hg (k := k) (by simp only [exec, hop])
        (by
          rintro ⟨en', hen', hp⟩
          rw [hf] at hen'
          rw [← Option.some.inj hen'] at hp
          exact hn hp)
        (fun _ => by simp only [specStep, hf, if_neg hn])
    by_cases hv1 : ids ≠ [] ∧ ids.Nodup ∧ ∀ c ∈ ids, c < s.ss.zst.length ∧ c ∉ keys en.comps
    case neg =>
      have hpanic : ∃ k, addCore e ids rels s.w = .panic k s.w := by
        by_cases hne : ids = []
        · subst hne
          exact ⟨_, addCore_noComponents s.w H.unlocked e ha rels⟩
        · refine ⟨_, addCore_alreadyHas e ids rels s.w H.unlocked ha hne hb256 ?_⟩
          rintro ⟨hnd, hnew⟩
          refine hv1 ⟨hne, hnd, fun c hc => ⟨hreg c hc, fun hk => ?_⟩⟩
          have := (hmask c).mpr hk
          rw [hnew c hc] at this; cases this
      obtain ⟨k, hcore⟩ := hpanic
      obtain ⟨k', hop⟩ := opAdd_rel_panic run p e ids vals rels s.w hcore
      exact hrej hop (fun hp => hv1 hp.1)
    by_cases hv : TargetsValid s.ss.ents rels
    case neg =>
      have hd := dead_of_invalid H hx hv
      have hop := opAdd_deadTarget run p e ids vals rels s.w ha
        (fun r hr => ⟨hrc r hr, by
          rw [Mask.get_ofList]; simp [hb256 r.comp (hin r hr), hin r hr]⟩) hd
      exact hrej hop (fun hp => hv hp.2.2)
    obtain ⟨hne, hnd, hall⟩ := hv1
    have hok : AddOK s.ss en ids rels := ⟨⟨hne, hnd, hall⟩, ⟨hrnd, hrin, hrall⟩, hv⟩
    have hnew : ∀ (c : Comp), c ∈ ids → (s.w.maskOf e).get c = false := by
      intro c hc
      cases hgc : (s.w.maskOf e).get c with
      | false => rfl
      | true => exact absurd ((hmask c).mp hgc) (hall c hc).2
    obtain ⟨w', hop⟩ := opAdd_rel_total run p H.tinv H.unlocked H.noObs h2 hnf ha (Pool.lt_of_slot hsl) (vals := vals)
      hne hnd hreg' hnew hrnd hin hrc (fun c hc hr => hrall c hc (by rw [H.rget]; exact hr))
      (H.targets_alive hv)
    have post := opAdd_rel_spec run p H.tinv H.unlocked H.noObs h2 hnf ha (Pool.lt_of_slot hsl) hreg'
      hrnd hin hrc (H.tgts_in hx) hfew hent hop
    have more := opAdd_rel_more run p H.tinv H.unlocked H.noObs h2 hnf ha (Pool.lt_of_slot hsl) hreg'
      hrnd hin hrc (H.tgts_in hx) hfew hent hop
    have hex : exec run s.w (.add p e ids vals rels) = .ok none w' := by simp only [exec, hop]
    have hstep : step run s (.add p e ids vals rels) =
        ⟨w', s.issued, ⟨upd s.ss.ents e fun en =>
          ⟨writeComps s.ss.zst vals (en.comps ++ zeros ids), en.rels ++ rels⟩,
          s.ss.zst, s.ss.isRel⟩⟩ := by
      rw [step_of_guard hg, hex]
      simp only [Res.state, retOf, issuedAfter, specStep, hf, if_pos hok]
    refine ⟨⟨fl, ?_⟩, by rw [hstep]; show w'.tables.length ≤ _; have := post.tablesLen; omega,
      by rw [hstep]; exact more.relArchs,
      by rw [hstep]; show w'.entities.length ≤ _; rw [post.entitiesLen]; exact Nat.le_succ _,
      fun _ hnp => absurd ⟨en, hf, hok⟩ hnp, fun _ _ => ⟨_, _, hex⟩⟩
    rw [hstep]
    have hk : keys (writeComps s.ss.zst vals (en.comps ++ zeros ids)) = keys en.comps ++ ids := by
      rw [Refine.keys_writeComps, Refine.keys_append, Refine.keys_zeros]
    refine H.update hm _ post.tinv more.pool post.locks post.obs post.kinds more.maxComps
      post.frame ?_ ?_
    · exact
        { nodup := by
            show (keys (writeComps s.ss.zst vals (en.comps ++ zeros ids))).Nodup
            rw [hk]
            exact List.nodup_append.mpr ⟨ok.nodup, hnd, fun a ha b hb hab => (hall b hb).2 (hab ▸ ha)⟩
          reg := by
            show ∀ c ∈ keys (writeComps s.ss.zst vals (en.comps ++ zeros ids)), _
            rw [hk]
            intro c hc
            rcases List.mem_append.mp hc with h1 | h1
            · exact ok.reg c h1
            · exact hreg' c h1
          comps := by
            show compsOf w' e.id = some (sortedIds _ (keys (writeComps s.ss.zst vals (en.comps ++ zeros ids))))
            rw [more.comps _ ok.comps, hk, sortedIds_append_sorted]
          vals := by
            intro cv hcv
            obtain ⟨v, hv', hval⟩ := Refine.mem_writeComps hcv
            rcases List.mem_append.mp hv' with h1 | h1
            · rw [more.kept cv.1 v (ok.vals (cv.1, v) h1), hval, H.zget]
            · simp only [zeros, List.mem_map] at h1
              obtain ⟨c, hc, hcv'⟩ := h1
              injection hcv' with h3 h4
              rw [← h3] at hval ⊢
              rw [more.added c hc, hval, ← h4, H.zget]
          relNodup := by
            show ((en.rels ++ rels).map (·.comp)).Nodup
            rw [List.map_append]
            refine List.nodup_append.mpr ⟨ok.relNodup, hrnd, ?_⟩
            intro a ha' b hb hab
            have h1 := ((ok.relKeys a).mp ha').1
            obtain ⟨r, hr, rfl⟩ := List.mem_map.mp hb
            exact (hall r.comp (hin r hr)).2 (hab ▸ h1)
          relKeys := by
            intro c
            show c ∈ (en.rels ++ rels).map (·.comp) ↔
              c ∈ keys (writeComps s.ss.zst vals (en.comps ++ zeros ids)) ∧ _
            rw [hk, List.map_append, List.mem_append, List.mem_append, ok.relKeys c]
            constructor
            · rintro (⟨h1, h3⟩ | h1)
              · exact ⟨Or.inl h1, h3⟩
              · obtain ⟨r, hr, rfl⟩ := List.mem_map.mp h1
                exact ⟨Or.inr (hin r hr), (hrin r hr).2⟩
            · rintro ⟨h1 | h1, h3⟩
              · exact Or.inl ⟨h1, h3⟩
              · exact Or.inr (hrall c h1 h3)
          tgts := by
            intro r hr
            rcases List.mem_append.mp (show r ∈ en.rels ++ rels from hr) with h1 | h1
            · exact post.oldTargets r.comp r.target (ok.tgts r h1)
            · exact post.targets r h1 }
    · intro r hr
      rcases List.mem_append.mp (show r ∈ en.rels ++ rels from hr) with h1 | h1
      · exact H.tgtsOK e en hm r h1
      · exact hv r h1

/-! ### `rem` -/

theorem sortedIds_filter_sorted (n : Nat) (ks ids : List Comp) :
    sortedIds n ((sortedIds n ks).filter fun c => decide (c ∉ ids)) =
      sortedIds n (ks.filter fun c => decide (c ∉ ids)) := by
  simp only [sortedIds]
  apply List.filter_congr
  intro c hc
  have hlt := List.mem_range.mp hc
  apply decide_eq_decide.mpr
  simp only [List.mem_filter, List.mem_range, decide_eq_true_eq]
  constructor
  · rintro ⟨⟨_, h1⟩, h2⟩; exact ⟨h1, h2⟩
  · rintro ⟨h1, h2⟩; exact ⟨⟨hlt, h1⟩, h2⟩

theorem keys_filter_eq (cs : Comps) (ids : List Comp) :
    keys (cs.filter fun cv => decide (cv.1 ∉ ids)) = (keys cs).filter fun c => decide (c ∉ ids) := by
  simp only [keys, List.filter_map]
  rfl

theorem step_rem (run : ProbeRunner) {s : St} {fl : List Nat} (H : HInv s fl)
    (hfew : s.w.tables.length < maxU32) (hent : s.w.entities.length + 1 < 2 ^ 32)
    (p : Path) (e : Ent) (ids : List Comp) : StepGoal run s (.rem p e ids) := by
  by_cases hg : guard s (.rem p e ids) = true
  case neg => exact stepGoal_no_guard H hg
  have hi : e ∈ s.issued := by simpa only [guard, decide_eq_true_eq] using hg
  cases ha : s.w.alive e with
  | false =>
    have hop := opRemove_dead_any run p e ids s.w H.unlocked ha
    have hf := H.find_of_dead hi ha
    exact stepGoal_rejected H hg (k := .deadEntity) (by simp only [exec, hop])
      (by rintro ⟨en, hen, _⟩; rw [hf] at hen; cases hen) (fun _ => by simp only [specStep, hf])
  | true =>
    obtain ⟨en, hf, hm⟩ := H.find_of_alive hi ha
    obtain ⟨_, _, h2, hnf, _, hsl⟩ := H.live_facts hm
    have ok := H.ok e en hm
    have hmask : ∀ (c : Comp), (s.w.maskOf e).get c = true ↔ c ∈ keys en.comps := fun c => by
      rw [H.tinv.mask_iff_comps h2 hnf ha (Pool.lt_of_slot hsl) ok.comps c, H.comps_iff hm c]
    by_cases hv : ids ≠ [] ∧ ids.Nodup ∧ ∀ c ∈ ids, c ∈ keys en.comps
    · obtain ⟨hne, hnd, hall⟩ := hv
      obtain ⟨w', hop, post⟩ := opRemove_rel_spec run p H.tinv H.unlocked H.noObs h2 hnf ha (Pool.lt_of_slot hsl) hne hnd
        (fun c hc => (hmask c).mpr (hall c hc)) hfew hent
      have hex : exec run s.w (.rem p e ids) = .ok none w' := by simp only [exec, hop]
      have hstep : step run s (.rem p e ids) =
          ⟨w', s.issued, ⟨upd s.ss.ents e fun en =>
            ⟨en.comps.filter fun cv => decide (cv.1 ∉ ids), en.rels.filter fun r => decide (r.comp ∉ ids)⟩,
            s.ss.zst, s.ss.isRel⟩⟩ := by
        rw [step_of_guard hg, hex]
        simp only [Res.state, retOf, issuedAfter, specStep, hf, if_pos (And.intro hne (And.intro hnd hall))]
      refine ⟨⟨fl, ?_⟩, by rw [hstep]; show w'.tables.length ≤ _; have := post.tablesLen; omega,
        by rw [hstep]; exact post.relArchs,
        by rw [hstep]; show w'.entities.length ≤ _; rw [post.entitiesLen]; exact Nat.le_succ _,
        fun _ hnp => absurd ⟨en, hf, hne, hnd, hall⟩ hnp, fun _ _ => ⟨_, _, hex⟩⟩
      rw [hstep]
      refine H.update hm _ post.tinv post.pool post.locks post.obs post.kinds post.maxComps
        post.frame ?_ ?_
      · exact
          { nodup := List.Nodup.sublist (List.Sublist.map _ List.filter_sublist) ok.nodup
            reg := fun c hc => ok.reg c (Refine.mem_keys_filter.mp hc).1
            comps := by
              show compsOf w' e.id = some (sortedIds _ (keys (en.comps.filter _)))
              rw [post.comps _ ok.comps, sortedIds_filter_sorted, keys_filter_eq]
            vals := by
              intro cv hcv
              obtain ⟨h1, h3⟩ := List.mem_filter.mp hcv
              have hnot : cv.1 ∉ ids := by simpa using h3
              exact post.kept cv.1 cv.2 (ok.vals cv h1) hnot
            relNodup := List.Nodup.sublist (List.Sublist.map _ List.filter_sublist) ok.relNodup
            relKeys := by
              intro c
              show c ∈ (en.rels.filter fun r => decide (r.comp ∉ ids)).map (·.comp) ↔
                c ∈ keys (en.comps.filter fun cv => decide (cv.1 ∉ ids)) ∧ _
              rw [Refine.mem_keys_filter]
              constructor
              · intro hc
                obtain ⟨r, hr, rfl⟩ := List.mem_map.mp hc
                obtain ⟨h1, h3⟩ := List.mem_filter.mp hr
                have hnot : r.comp ∉ ids := by simpa using h3
                obtain ⟨k1, k2⟩ := (ok.relKeys r.comp).mp (List.mem_map.mpr ⟨r, h1, rfl⟩)
                exact ⟨⟨k1, hnot⟩, k2⟩
              · rintro ⟨⟨k1, hnot⟩, k2⟩
                obtain ⟨r, hr, rfl⟩ := List.mem_map.mp ((ok.relKeys c).mpr ⟨k1, k2⟩)
                exact List.mem_map.mpr ⟨r, List.mem_filter.mpr ⟨hr, by simpa using hnot⟩, rfl⟩
            tgts := by
              intro r hr
              obtain ⟨h1, h3⟩ := List.mem_filter.mp
                (show r ∈ en.rels.filter fun r => decide (r.comp ∉ ids) from hr)
              have hnot : r.comp ∉ ids := by simpa using h3
              exact post.oldTargets r.comp r.target (ok.tgts r h1) hnot }
      · intro r hr
        exact H.tgtsOK e en hm r (List.mem_filter.mp
          (show r ∈ en.rels.filter fun r => decide (r.comp ∉ ids) from hr)).1
    · have hpanic : ∃ k, opRemove run p e ids s.w = .panic k s.w := by
        rw [opRemove_eq run _ e ids s.w ha]
        by_cases hne : ids = []
        · subst hne
          exact ⟨_, removeCore_noComponents run s.w H.unlocked e ha⟩
        · refine ⟨_, removeCore_missing run e ids s.w H.unlocked ha hne ?_⟩
          rintro ⟨hnd, hp⟩
          exact hv ⟨hne, hnd, fun c hc => (hmask c).mp (hp c hc)⟩
      obtain ⟨k, hop⟩ := hpanic
      exact stepGoal_rejected H hg (k := k) (by simp only [exec, hop])
        (by
          rintro ⟨en', hen', hp⟩
          rw [hf] at hen'
          rw [← Option.some.inj hen'] at hp
          exact hv hp)
        (fun _ => by simp only [specStep, hf, if_neg hv])

/-! ### `setrel` -/

theorem step_setrel (run : ProbeRunner) {s : St} {fl : List Nat} (H : HInv s fl)
    (hfew : s.w.tables.length < maxU32) (hent : s.w.entities.length + 1 < 2 ^ 32)
    (p : Path) (e : Ent) (rels : Rels) : StepGoal run s (.setrel p e rels) := by
  by_cases hg : guard s (.setrel p e rels) = true
  case neg => exact stepGoal_no_guard H hg
  have hg' : e ∈ s.issued ∧ tgtsExpr s rels = true := by
    simpa only [guard, Bool.and_eq_true, decide_eq_true_eq] using hg
  obtain ⟨hi, hx⟩ := hg'
  cases ha : s.w.alive e with
  | false =>
    obtain ⟨k, hop⟩ := opSetRelations_panic run p e (rels.map (·.comp)) rels s.w
      (setRelationsCore_dead run s.w H.unlocked e ha rels)
    have hf := H.find_of_dead hi ha
    exact stepGoal_rejected H hg (k := k) (by simp only [exec, hop])
      (by rintro ⟨en, hen, _⟩; rw [hf] at hen; cases hen) (fun _ => by simp only [specStep, hf])
  | true =>
    obtain ⟨en, hf, hm⟩ := H.find_of_alive hi ha
    obtain ⟨_, _, h2, hnf, _, hsl⟩ := H.live_facts hm
    have ok := H.ok e en hm
    have hrej : ∀ {k : PanicKind},
        opSetRelations run p e (rels.map (·.comp)) rels s.w = .panic k s.w →
        ¬ SetRelOK s.ss en rels → StepGoal run s (.setrel p e rels) := by
      intro k hop hn
      exact stepGoal_rejected H hg (k := k) (by simp only [exec, hop])
        (by
          rintro ⟨en', hen', hp⟩
          rw [hf] at hen'
          rw [← Option.some.inj hen'] at hp
          exact hn hp)
        (fun _ => by simp only [specStep, hf, if_neg hn])
    by_cases hne : rels = []
    case pos =>
      subst hne
      obtain ⟨k, hop⟩ := opSetRelations_panic run p e (([] : Rels).map (·.comp)) [] s.w
        (setRelationsCore_noRelations run s.w H.unlocked e ha)
      exact hrej hop (fun hp => hp.1 rfl)
    have hemp : rels.isEmpty = false := by
      cases rels with
      | nil => exact absurd rfl hne
      | cons _ _ => rfl
    by_cases hrnd : (rels.map (·.comp)).Nodup
    case neg =>
      -- a relation component named twice: refused since the repair of D19
      obtain ⟨k, hcore⟩ := setRelationsCore_not_nodup run e rels s.w H.unlocked ha hemp hrnd
      obtain ⟨k', hop⟩ := opSetRelations_panic run p e (rels.map (·.comp)) rels s.w hcore
      exact hrej hop (fun hp => hrnd hp.2.1)
    by_cases hhas : ∀ r ∈ rels, r.comp ∈ en.rels.map (·.comp)
    case neg =>
      have hbad : ∃ (r : RelID), r ∈ rels ∧ targetOf s.w e.id r.comp = none := by
        apply Classical.byContradiction
        intro hh
        apply hhas
        intro r hr
        apply (H.target_isSome_iff hm r.comp).mp
        cases ht : targetOf s.w e.id r.comp with
        | none => exact absurd ⟨r, hr, ht⟩ hh
        | some x => rfl
      obtain ⟨k, hcore⟩ := setRelationsCore_missing run H.tinv H.unlocked h2 hnf ha (Pool.lt_of_slot hsl) hemp hbad
      obtain ⟨k', hop⟩ := opSetRelations_panic run p e (rels.map (·.comp)) rels s.w hcore
      exact hrej hop (fun hp => hhas hp.2.2.1)
    have hrel : ∀ (r : RelID), r ∈ rels → s.w.isRelComp r.comp = true ∧ r.comp < 256 := by
      intro r hr
      obtain ⟨h1, h3⟩ := (ok.relKeys r.comp).mp (hhas r hr)
      exact ⟨by rw [← H.rget]; exact h3, H.reg256 (ok.reg r.comp h1)⟩
    have hhas' : ∀ (r : RelID), r ∈ rels → (targetOf s.w e.id r.comp).isSome = true :=
      fun r hr => (H.target_isSome_iff hm r.comp).mpr (hhas r hr)
    by_cases hv : TargetsValid s.ss.ents rels
    case neg =>
      have hd := dead_of_invalid' H hx hv
      obtain ⟨k, hcore⟩ := setRelationsCore_deadTarget run H.tinv H.unlocked h2 hnf ha (Pool.lt_of_slot hsl) hemp hrnd
        hhas' hd
      obtain ⟨k', hop⟩ := opSetRelations_panic run p e (rels.map (·.comp)) rels s.w hcore
      exact hrej hop (fun hp => hv hp.2.2.2)
    have hok : SetRelOK s.ss en rels := ⟨hne, hrnd, hhas, hv⟩
    obtain ⟨w', hop⟩ := opSetRelations_total run p H.tinv H.unlocked H.noObs h2 hnf ha (Pool.lt_of_slot hsl) hemp hrnd hhas'
      (H.targets_alive hv) hrel
    have post := opSetRelations_spec run p H.tinv H.unlocked H.noObs h2 hnf ha (Pool.lt_of_slot hsl)
      hemp hrnd hhas' (H.tgts_in hx) hfew hent hop
    have more := opSetRelations_more run p H.tinv H.unlocked H.noObs h2 hnf ha (Pool.lt_of_slot hsl) hemp hrnd hhas' hop
    have hex : exec run s.w (.setrel p e rels) = .ok none w' := by simp only [exec, hop]
    have hstep : step run s (.setrel p e rels) =
        ⟨w', s.issued, ⟨upd s.ss.ents e fun en => { en with rels := setRels en.rels rels },
          s.ss.zst, s.ss.isRel⟩⟩ := by
      rw [step_of_guard hg, hex]
      simp only [Res.state, retOf, issuedAfter, specStep, hf, if_pos hok]
    refine ⟨⟨fl, ?_⟩, by rw [hstep]; show w'.tables.length ≤ _; have := post.tablesLen; omega,
      by rw [hstep]; show w'.relationArchetypes.length ≤ _; rw [more.relArchs]; exact Nat.le_succ _,
      by rw [hstep]; show w'.entities.length ≤ _; rw [post.entitiesLen]; exact Nat.le_succ _,
      fun _ hnp => absurd ⟨en, hf, hok⟩ hnp, fun _ _ => ⟨_, _, hex⟩⟩
    rw [hstep]
    refine H.update hm _ post.tinv more.pool post.locks post.obs post.kinds more.maxComps
      post.frame ?_ ?_
    · exact
        { nodup := ok.nodup
          reg := ok.reg
          comps := by rw [post.self.2]; exact ok.comps
          vals := fun cv hcv => by rw [post.self.1]; exact ok.vals cv hcv
          relNodup := by
            show ((setRels en.rels rels).map (·.comp)).Nodup
            rw [setRels_comps]; exact ok.relNodup
          relKeys := by
            intro c
            show c ∈ (setRels en.rels rels).map (·.comp) ↔ _
            rw [setRels_comps]; exact ok.relKeys c
          tgts := by
            intro r hr
            rcases mem_setRels (show r ∈ setRels en.rels rels from hr) with ⟨h1, _⟩ | ⟨h1, h3⟩
            · exact post.targets r h1
            · rw [post.otherTargets r.comp h3]; exact ok.tgts r h1 }
    · intro r hr
      rcases mem_setRels (show r ∈ setRels en.rels rels from hr) with ⟨h1, _⟩ | ⟨h1, _⟩
      · exact hv r h1
      · exact H.tgtsOK e en hm r h1

/-! ### all steps, all histories -/

theorem step_goal (run : ProbeRunner) {s : St} {fl : List Nat} (H : HInv s fl)
    (hfew : s.w.tables.length + s.w.relationArchetypes.length + 1 ≤ maxU32)
    (hent : 2 * s.w.entities.length < 2 ^ 32) (op : Op) : StepGoal run s op := by
  have hfew' : s.w.tables.length < maxU32 := by omega
  have hent' : s.w.entities.length + 1 < 2 ^ 32 := by omega
  cases op with
  | reg size z ir => exact step_reg run H size z ir
  | new p ids vals rels => exact step_new run H hfew' hent' p ids vals rels
  | add p e ids vals rels => exact step_add run H hfew' hent' p e ids vals rels
  | rem p e ids => exact step_rem run H hfew' hent' p e ids
  | setrel p e rels => exact step_setrel run H hfew' hent' p e rels
  | set e vals => exact step_set run H e vals
  | del e => exact step_del run H hfew hent e

/-- the invariant holds after every history that stays within the size bounds; an operation
    creates at most `1 + (relation archetypes)` tables, one relation archetype, one index slot -/
theorem run_inv (run : ProbeRunner) (ops : List Op) : ∀ (s : St) (fl : List Nat), HInv s fl →
    s.w.tables.length + ops.length * (s.w.relationArchetypes.length + ops.length) +
      s.w.relationArchetypes.length + ops.length + 1 ≤ maxU32 →
    2 * (s.w.entities.length + ops.length) < 2 ^ 32 →
    ∃ fl', HInv (runOps run s ops) fl' ∧
      (runOps run s ops).w.tables.length ≤
        s.w.tables.length + ops.length * (s.w.relationArchetypes.length + ops.length) ∧
      (runOps run s ops).w.relationArchetypes.length ≤ s.w.relationArchetypes.length + ops.length ∧
      (runOps run s ops).w.entities.length ≤ s.w.entities.length + ops.length := by
  induction ops with
  | nil =>
    intro s fl h _ _
    exact ⟨fl, h, by simp [runOps], by simp [runOps], by simp [runOps]⟩
  | cons op ops ih =>
    intro s fl h hb1 hb2
    simp only [List.length_cons] at hb1 hb2 ⊢
    have e1 : (ops.length + 1) * (s.w.relationArchetypes.length + (ops.length + 1)) =
        ops.length * (s.w.relationArchetypes.length + 1 + ops.length) +
          (s.w.relationArchetypes.length + 1 + ops.length) := by
      rw [Nat.succ_mul]
      have : s.w.relationArchetypes.length + (ops.length + 1) =
          s.w.relationArchetypes.length + 1 + ops.length := by omega
      rw [this]
    rw [e1] at hb1 ⊢
    obtain ⟨⟨fl1, h1⟩, g1, g2, g3, _, _⟩ := step_goal run h (by omega) (by omega) op
    have hm : ops.length * ((step run s op).w.relationArchetypes.length + ops.length) ≤
        ops.length * (s.w.relationArchetypes.length + 1 + ops.length) :=
      Nat.mul_le_mul_left _ (by omega)
    obtain ⟨fl2, h2, b1, b2, b3⟩ := ih _ fl1 h1 (by omega) (by omega)
    refine ⟨fl2, h2, ?_, ?_, ?_⟩
    · show (runOps run (step run s op) ops).w.tables.length ≤ _; omega
    · show (runOps run (step run s op) ops).w.relationArchetypes.length ≤ _; omega
    · show (runOps run (step run s op) ops).w.entities.length ≤ _; omega

theorem reach_hinv (run : ProbeRunner) (cap rel : Nat) (ops : List Op)
    (hlen : ops.length < 2 ^ 16) : ∃ fl, HInv (reach run cap rel ops) fl := by
  have hsq : ops.length * ops.length ≤ 65535 * 65535 := Nat.mul_le_mul (by omega) (by omega)
  obtain ⟨fl, h, _⟩ := run_inv run ops _ [] (hinv_init cap rel)
    (by
      show 1 + ops.length * (0 + ops.length) + 0 + ops.length + 1 ≤ maxU32
      rw [Nat.zero_add]; simp only [maxU32]; omega)
    (by show 2 * (2 + ops.length) < 2 ^ 32; omega)
  exact ⟨fl, h⟩

/-- at most `n²` tables, `n` relation archetypes and `n` index slots after `n` operations -/
theorem reach_bounds (run : ProbeRunner) (cap rel : Nat) (ops : List Op)
    (hlen : ops.length < 2 ^ 16) :
    (reach run cap rel ops).w.tables.length ≤ 1 + ops.length * ops.length ∧
    (reach run cap rel ops).w.relationArchetypes.length ≤ ops.length ∧
    (reach run cap rel ops).w.entities.length ≤ 2 + ops.length := by
  have hsq : ops.length * ops.length ≤ 65535 * 65535 := Nat.mul_le_mul (by omega) (by omega)
  obtain ⟨fl, _, b1, b2, b3⟩ := run_inv run ops _ [] (hinv_init cap rel)
    (by
      show 1 + ops.length * (0 + ops.length) + 0 + ops.length + 1 ≤ maxU32
      rw [Nat.zero_add]; simp only [maxU32]; omega)
    (by show 2 * (2 + ops.length) < 2 ^ 32; omega)
  refine ⟨?_, ?_, b3⟩
  · have : (reach run cap rel ops).w.tables.length ≤ 1 + ops.length * (0 + ops.length) := b1
    rw [Nat.zero_add] at this; exact this
  · have : (reach run cap rel ops).w.relationArchetypes.length ≤ 0 + ops.length := b2
    rw [Nat.zero_add] at this; exact this

/-- the size hypotheses of the step lemmas hold in every reachable state (one more operation
    fits) -/
theorem reach_fits (run : ProbeRunner) (cap rel : Nat) (ops : List Op)
    (hlen : ops.length + 1 < 2 ^ 16) :
    (reach run cap rel ops).w.tables.length + (reach run cap rel ops).w.relationArchetypes.length +
      1 ≤ maxU32 ∧ 2 * (reach run cap rel ops).w.entities.length < 2 ^ 32 := by
  have hsq : ops.length * ops.length ≤ 65535 * 65535 := Nat.mul_le_mul (by omega) (by omega)
  obtain ⟨b1, b2, b3⟩ := reach_bounds run cap rel ops (by omega)
  simp only [maxU32]
  omega

end RelRefine

end Ark
