/-
  Ark.Proofs.TargetsInv — C04 at world level, part 1: the joint invariant `TInv` and the frame
  lemmas it is carried with.

  * `RelAux w`  — `TargetsOK ∧ RelListsOK ∧ RelArchsOK ∧ CacheRelsOK` (what holds at every point
                  of `storage.go`, also between `createArchetype` and `createTable`);
  * `RelInv w`  — `SInv ∧ RInv ∧ RelAux`;
  * `TInv w fl` — `RelInv ∧ FlagsOK ∧ FreeEmpty ∧ PLink` (index ↔ pool), the invariant of the
                  theorems of `TargetsCreate` / `TargetsCleanup`; `tinv_init`.
  * steps that keep the table metadata (`RelInv.of_sameMeta`), `registerTargets`
    (`FlagsOKUpTo.register`), `findOrCreateArch`, `createTable` (`RelAux.created`),
    `getTable` (`getTable_found`, `getTable_total`).
  Kernel-only proofs, core Lean only.
-/
import Ark.Proofs.Targets

set_option autoImplicit false

namespace Ark

open World Ark.Props.C01World

/-! ## 0. small facts -/

theorem World.tbl_of_ge {w : World} {t : Nat} (h : w.tables.length ≤ t) : w.tbl t = default := by
  simp [World.tbl, List.getD_eq_getElem?_getD, List.getElem?_eq_none h]

namespace Table

theorem RelsExact.of_sameMeta {T T' : Table} (h : T.RelsExact) (sm : SameMeta T T') :
    T'.RelsExact where
  tlen := by rw [sm.targets, sm.ids]; exact h.tlen
  sound := by rw [sm.relIDs, sm.ids, sm.isRel, sm.targets]; exact h.sound
  complete := by rw [sm.relIDs, sm.ids, sm.isRel, sm.targets]; exact h.complete
  nodup := by rw [sm.relIDs]; exact h.nodup

theorem targetAt_sameMeta {T T' : Table} (sm : SameMeta T T') (c : Comp) :
    T'.targetAt c = T.targetAt c := by
  simp only [targetAt, colIdx, sm.ids, sm.isRel, sm.targets]

theorem recycle_targets (T : Table) (ts : List Ent) (rs : List RelID) :
    (T.recycle ts rs).targets = ts := rfl

end Table

/-- the target of component `c` of the entity with ID `i`, through its index entry -/
theorem targetOf_of_entry {w : World} {i t r : Nat} {T : Table} (hi : w.entities[i]? = some (t, r))
    (ht : t ≠ maxU32) (hT : w.tables[t]? = some T) (c : Comp) : targetOf w i c = T.targetAt c := by
  simp only [targetOf, hi, ht, if_false, hT, Option.bind_some]

theorem targetOf_none_of_entry {w : World} {i : Nat}
    (hdead : ∀ (t r : Nat), w.entities[i]? = some (t, r) → t = maxU32) (c : Comp) :
    targetOf w i c = none := by
  simp only [targetOf]
  cases hx : w.entities[i]? with
  | none => rfl
  | some p => obtain ⟨t, r⟩ := p; simp only [hdead t r hx, if_true]

/-- `targetOf` only reads the index entry and the metadata of the entity's table -/
theorem targetOf_congr_meta {w w' : World} {i : Nat} (he : w'.entities[i]? = w.entities[i]?)
    (hlen : w'.tables.length = w.tables.length)
    (hm : ∀ (t : Nat), t < w.tables.length → Table.SameMeta (w.tbl t) (w'.tbl t)) (c : Comp) :
    targetOf w' i c = targetOf w i c := by
  simp only [targetOf, he]
  cases hx : w.entities[i]? with
  | none => rfl
  | some p =>
    obtain ⟨t, r⟩ := p
    simp only
    by_cases ht : t = maxU32
    · simp only [ht, if_true]
    · simp only [ht, if_false]
      rcases Nat.lt_or_ge t w.tables.length with hlt | hge
      · rw [get_of_lt hlt, get_of_lt (by rw [hlen]; exact hlt)]
        simp only [Option.bind_some]
        exact Table.targetAt_sameMeta (hm t hlt) c
      · rw [List.getElem?_eq_none hge, List.getElem?_eq_none (by rw [hlen]; exact hge)]

/-! ## 1. the invariants -/

/-- the part of the invariant that holds at every point of `storage.go` -/
structure RelAux (w : World) : Prop where
  targets : TargetsOK w
  rels : RelListsOK w
  relArchs : RelArchsOK w
  cacheRels : CacheRelsOK w

/-- the structural part of the C04 invariant: it reads archetypes, registry, cache keys, table
    metadata and liveness only -/
structure RelInv (w : World) : Prop where
  sinv : SInv w
  rinv : RInv w
  aux : RelAux w

/-- **the joint invariant** of the C04 theorems (`fl` = the ghost free list of the pool) -/
structure TInv (w : World) (fl : List Nat) : Prop where
  rel : RelInv w
  flags : FlagsOK w
  freeEmpty : FreeEmpty w
  link : PLink w fl
  /-- the registry never exceeds the mask width -/
  kindsLe : w.kinds.length ≤ w.maxComps ∧ w.maxComps ≤ 256

/-- `FlagsOK` up to the targets of `rels` (which `registerTargets rels` is about to flag) -/
def FlagsOKUpTo (w : World) (rels : List RelID) : Prop :=
  ∀ (t : Nat) (T : Table), w.tables[t]? = some T → T.isFree = false →
    ∀ (i : Nat), T.isRel.getD i false = true → (T.targets.getD i Ent.zero).isZero = false →
      w.isTarget.getD (T.targets.getD i Ent.zero).id false = true ∨
      ∃ (r : RelID), r ∈ rels ∧ r.target = T.targets.getD i Ent.zero

theorem FlagsOK.upTo {w : World} (h : FlagsOK w) (rels : List RelID) : FlagsOKUpTo w rels :=
  fun t T hT hf i hi hz => Or.inl (h t T hT hf i hi hz)

/-! ### the initial world -/

theorem PLink.of_cinv {w : World} {fl : List Nat} (h : CInv w fl) : PLink w fl :=
  ⟨h.idx, h.pool, h.stale, h.lenEq, h.tgtLen, h.freeUnindexed, h.reservedUnindexed,
    h.liveIndexed, h.fewTables⟩

theorem init_tables (cap rel : Nat) (maxComps : Nat) :
    (World.init cap rel maxComps).tables = [Table.new 0 0 [] [] [] cap [] []] := rfl

theorem tinv_init (cap rel : Nat) : TInv (World.init cap rel) [] := by
  have hget : ∀ (t : Nat) (T : Table), (World.init cap rel).tables[t]? = some T →
      T = Table.new 0 0 [] [] [] cap [] [] := by
    intro t T hT
    rw [init_tables] at hT
    exact (getElem?_singleton_some hT).2
  refine ⟨⟨sinv_init cap rel, RInv.init cap rel 256, ⟨?_, ?_, ?_, ?_⟩⟩, ?_, ?_,
    PLink.of_cinv (cinv_init cap rel), ⟨Nat.zero_le _, Nat.le_refl _⟩⟩
  · intro t T hT _ i hi
    rw [hget t T hT] at hi
    simp [Table.new] at hi
  · intro t T hT _
    rw [hget t T hT]
    exact { tlen := rfl, sound := fun r hr => (by cases hr),
            complete := fun i c hc => (by simp [Table.new] at hc), nodup := List.nodup_nil }
  · intro a A hA hr
    have h0 : (World.init cap rel).archetypes = [Archetype.new 0 Mask.empty [] [] [] [0]] := rfl
    rw [h0] at hA
    obtain ⟨_, rfl⟩ := getElem?_singleton_some hA
    simp [Archetype.hasRelations, Archetype.new] at hr
  · intro e he; cases he
  · intro t T hT _ i hi
    rw [hget t T hT] at hi
    simp [Table.new] at hi
  · intro t T hT hf
    rw [hget t T hT] at hf
    simp [Table.new] at hf

/-! ## 2. steps that keep the table metadata -/

theorem targets_fun_eq {w w' : World} (hlen : w'.tables.length = w.tables.length)
    (hm : ∀ (t : Nat), t < w.tables.length → Table.SameMeta (w.tbl t) (w'.tbl t)) :
    (fun t => (w'.tbl t).targets) = fun t => (w.tbl t).targets := by
  funext t
  rcases Nat.lt_or_ge t w.tables.length with hlt | hge
  · exact (hm t hlt).targets
  · rw [tbl_of_ge hge, tbl_of_ge (by rw [hlen]; exact hge)]

theorem RInv.of_sameMeta {w w' : World} (h : RInv w) (ha : w'.archetypes = w.archetypes)
    (hlen : w'.tables.length = w.tables.length)
    (hm : ∀ (t : Nat), t < w.tables.length → Table.SameMeta (w.tbl t) (w'.tbl t)) : RInv w' := by
  intro a A hA
  rw [ha] at hA
  rw [targets_fun_eq hlen hm]
  exact h a A hA

/-- a table of `w'` and its counterpart in `w` -/
theorem get_sameMeta {w w' : World} (hlen : w'.tables.length = w.tables.length) {t : Nat} {T : Table}
    (hT : w'.tables[t]? = some T) :
    t < w.tables.length ∧ T = w'.tbl t ∧ w.tables[t]? = some (w.tbl t) := by
  have hlt : t < w.tables.length := by rw [← hlen]; exact lt_of_get hT
  exact ⟨hlt, (tbl_of_get hT).symm, get_of_lt hlt⟩

theorem TargetsOK.of_sameMeta {w w' : World} (h : TargetsOK w)
    (hlen : w'.tables.length = w.tables.length)
    (hm : ∀ (t : Nat), t < w.tables.length → Table.SameMeta (w.tbl t) (w'.tbl t))
    (hal : ∀ (e : Ent), w.alive e = true → w'.alive e = true) : TargetsOK w' := by
  intro t T hT hf i hi
  obtain ⟨hlt, rfl, hT0⟩ := get_sameMeta hlen hT
  have sm := hm t hlt
  rw [sm.targets]
  rw [sm.isFree] at hf; rw [sm.isRel] at hi
  rcases h t _ hT0 hf i hi with h1 | h1
  · exact Or.inl h1
  · exact Or.inr (hal _ h1)

theorem RelListsOK.of_sameMeta {w w' : World} (h : RelListsOK w)
    (hlen : w'.tables.length = w.tables.length)
    (hm : ∀ (t : Nat), t < w.tables.length → Table.SameMeta (w.tbl t) (w'.tbl t)) :
    RelListsOK w' := by
  intro t T hT hf
  obtain ⟨hlt, rfl, hT0⟩ := get_sameMeta hlen hT
  have sm := hm t hlt
  rw [sm.isFree] at hf
  exact (h t _ hT0 hf).of_sameMeta sm

theorem FlagsOKUpTo.of_sameMeta {w w' : World} {rels : List RelID} (h : FlagsOKUpTo w rels)
    (hlen : w'.tables.length = w.tables.length)
    (hm : ∀ (t : Nat), t < w.tables.length → Table.SameMeta (w.tbl t) (w'.tbl t))
    (hfl : ∀ (i : Nat), w.isTarget.getD i false = true → w'.isTarget.getD i false = true) :
    FlagsOKUpTo w' rels := by
  intro t T hT hf i hi hz
  obtain ⟨hlt, rfl, hT0⟩ := get_sameMeta hlen hT
  have sm := hm t hlt
  rw [sm.targets] at hz ⊢
  rw [sm.isFree] at hf; rw [sm.isRel] at hi
  rcases h t _ hT0 hf i hi hz with h1 | h1
  · exact Or.inl (hfl _ h1)
  · exact Or.inr h1

theorem FlagsOK.of_sameMeta {w w' : World} (h : FlagsOK w)
    (hlen : w'.tables.length = w.tables.length)
    (hm : ∀ (t : Nat), t < w.tables.length → Table.SameMeta (w.tbl t) (w'.tbl t))
    (hfl : ∀ (i : Nat), w.isTarget.getD i false = true → w'.isTarget.getD i false = true) :
    FlagsOK w' := by
  intro t T hT hf i hi hz
  rcases (h.upTo []).of_sameMeta hlen hm hfl t T hT hf i hi hz with h1 | ⟨r, hr, _⟩
  · exact h1
  · cases hr

theorem RelAux.of_sameMeta {w w' : World} (h : RelAux w) (ha : w'.archetypes = w.archetypes)
    (hra : w'.relationArchetypes = w.relationArchetypes) (hc : w'.cache = w.cache)
    (hlen : w'.tables.length = w.tables.length)
    (hm : ∀ (t : Nat), t < w.tables.length → Table.SameMeta (w.tbl t) (w'.tbl t))
    (hal : ∀ (e : Ent), w.alive e = true → w'.alive e = true) : RelAux w' where
  targets := h.targets.of_sameMeta hlen hm hal
  rels := h.rels.of_sameMeta hlen hm
  relArchs := by intro a A hA hr; rw [ha] at hA; rw [hra]; exact h.relArchs a A hA hr
  cacheRels := by intro e he; rw [hc] at he; exact h.cacheRels e he

theorem RelInv.of_sameMeta {w w' : World} (h : RelInv w) (ha : w'.archetypes = w.archetypes)
    (hk : w'.kinds = w.kinds) (hra : w'.relationArchetypes = w.relationArchetypes)
    (hc : w'.cache = w.cache) (hlen : w'.tables.length = w.tables.length)
    (hm : ∀ (t : Nat), t < w.tables.length → Table.SameMeta (w.tbl t) (w'.tbl t))
    (hal : ∀ (e : Ent), w.alive e = true → w'.alive e = true) : RelInv w' where
  sinv := h.sinv.of_sameMeta ha hk hlen hm
  rinv := h.rinv.of_sameMeta ha hlen hm
  aux := h.aux.of_sameMeta ha hra hc hlen hm hal

/-! ### steps that keep liveness only inside the pool slice (`Pool.get` overwrites the first cell
of the memory `Reset` kept behind the slice, so a handle behind the slice may stop testing alive;
the stored targets are not affected: a flagged ID lies inside the flag array) -/

/-- the non-zero targets of the non-free tables have IDs inside the pool slice -/
def TargetsIn (w : World) : Prop :=
  ∀ (t : Nat) (T : Table), w.tables[t]? = some T → T.isFree = false →
    ∀ (i : Nat), T.isRel.getD i false = true → (T.targets.getD i Ent.zero).isZero = false →
      (T.targets.getD i Ent.zero).id < w.pool.ents.length

theorem FlagsOKUpTo.targetsIn {w : World} {rels : List RelID} (h : FlagsOKUpTo w rels)
    (hl : w.isTarget.length = w.pool.ents.length)
    (hr : ∀ (r : RelID), r ∈ rels → r.target.id < w.pool.ents.length) : TargetsIn w := by
  intro t T hT hf i hi hz
  rcases h t T hT hf i hi hz with h1 | ⟨r, hr1, hr2⟩
  · rw [← hl]
    rcases Nat.lt_or_ge (T.targets.getD i Ent.zero).id w.isTarget.length with h2 | h2
    · exact h2
    · rw [List.getD_eq_getElem?_getD, List.getElem?_eq_none h2] at h1; cases h1
  · rw [← hr2]; exact hr r hr1

theorem FlagsOK.targetsIn {w : World} (h : FlagsOK w) (hl : w.isTarget.length = w.pool.ents.length) :
    TargetsIn w :=
  (h.upTo []).targetsIn hl (fun r hr => by cases hr)

theorem TInv.targetsIn {w : World} {fl : List Nat} (h : TInv w fl) : TargetsIn w :=
  h.flags.targetsIn (h.link.tgtLen.trans h.link.lenEq)

theorem TargetsOK.of_sameMeta_in {w w' : World} (h : TargetsOK w) (hin : TargetsIn w)
    (hlen : w'.tables.length = w.tables.length)
    (hm : ∀ (t : Nat), t < w.tables.length → Table.SameMeta (w.tbl t) (w'.tbl t))
    (hal : ∀ (e : Ent), e.id < w.pool.ents.length → w.alive e = true → w'.alive e = true) :
    TargetsOK w' := by
  intro t T hT hf i hi
  obtain ⟨hlt, rfl, hT0⟩ := get_sameMeta hlen hT
  have sm := hm t hlt
  rw [sm.targets]
  rw [sm.isFree] at hf; rw [sm.isRel] at hi
  rcases h t _ hT0 hf i hi with h1 | h1
  · exact Or.inl h1
  · cases hz : ((w.tbl t).targets.getD i Ent.zero).isZero with
    | true => exact Or.inl rfl
    | false => exact Or.inr (hal _ (hin t _ hT0 hf i hi hz) h1)

theorem RelInv.of_sameMeta_in {w w' : World} (h : RelInv w) (hin : TargetsIn w)
    (ha : w'.archetypes = w.archetypes)
    (hk : w'.kinds = w.kinds) (hra : w'.relationArchetypes = w.relationArchetypes)
    (hc : w'.cache = w.cache) (hlen : w'.tables.length = w.tables.length)
    (hm : ∀ (t : Nat), t < w.tables.length → Table.SameMeta (w.tbl t) (w'.tbl t))
    (hal : ∀ (e : Ent), e.id < w.pool.ents.length → w.alive e = true → w'.alive e = true) :
    RelInv w' where
  sinv := h.sinv.of_sameMeta ha hk hlen hm
  rinv := h.rinv.of_sameMeta ha hlen hm
  aux :=
    { targets := h.aux.targets.of_sameMeta_in hin hlen hm hal
      rels := h.aux.rels.of_sameMeta hlen hm
      relArchs := by intro a A hA hr; rw [ha] at hA; rw [hra]; exact h.aux.relArchs a A hA hr
      cacheRels := by intro e he; rw [hc] at he; exact h.aux.cacheRels e he }

/-- metadata of the tables after replacing one table by a table with the same metadata -/
theorem sameMeta_set {w w' : World} {t : Nat} {T' : Table} (ht : w'.tables = w.tables.set t T')
    (hlt : t < w.tables.length) (sm : Table.SameMeta (w.tbl t) T') :
    w'.tables.length = w.tables.length ∧
    ∀ (t0 : Nat), t0 < w.tables.length → Table.SameMeta (w.tbl t0) (w'.tbl t0) := by
  refine ⟨by rw [ht, List.length_set], fun t0 _ => ?_⟩
  by_cases h0 : t0 = t
  · subst h0
    have : w'.tbl t0 = T' := tbl_of_get (by rw [ht]; exact List.getElem?_set_self hlt)
    rw [this]; exact sm
  · have : w'.tbl t0 = w.tbl t0 := by
      simp only [tbl, ht, List.getD_eq_getElem?_getD, List.getElem?_set_ne (Ne.symm h0)]
    rw [this]; exact Table.SameMeta.refl _

/-! ### `registerTargets` -/

theorem flagFold_length (rels : List RelID) : ∀ (it : List Bool),
    (rels.foldl (fun (it : List Bool) r => it.set r.target.id true) it).length = it.length := by
  induction rels with
  | nil => intro it; rfl
  | cons r rest ih => intro it; rw [List.foldl_cons, ih, List.length_set]

theorem flagFold_mono (rels : List RelID) : ∀ (it : List Bool) (i : Nat), it.getD i false = true →
    (rels.foldl (fun (it : List Bool) r => it.set r.target.id true) it).getD i false = true := by
  induction rels with
  | nil => intro it i h; exact h
  | cons r rest ih =>
    intro it i h
    rw [List.foldl_cons]
    apply ih
    rw [Archetype.getD_set]
    split
    · rfl
    · exact h

theorem flagFold_hit (rels : List RelID) : ∀ (it : List Bool) (r : RelID), r ∈ rels →
    r.target.id < it.length →
    (rels.foldl (fun (it : List Bool) r => it.set r.target.id true) it).getD r.target.id false = true := by
  induction rels with
  | nil => intro it r hr; cases hr
  | cons x rest ih =>
    intro it r hr hlt
    rw [List.foldl_cons]
    rcases List.mem_cons.1 hr with rfl | hm
    · apply flagFold_mono
      rw [Archetype.getD_set, if_pos ⟨rfl, hlt⟩]
    · exact ih _ r hm (by rw [List.length_set]; exact hlt)

/-- the state `registerTargets rels` produces -/
def registerW (w : World) (rels : List RelID) : World :=
  { w with isTarget := rels.foldl (fun it r => it.set r.target.id true) w.isTarget }

theorem registerTargets_eq (rels : List RelID) (w : World) :
    registerTargets rels w = .ok () (registerW w rels) := rfl

theorem FlagsOKUpTo.register {w : World} {rels : List RelID} (h : FlagsOKUpTo w rels)
    (hlt : ∀ (r : RelID), r ∈ rels → r.target.isZero = false → r.target.id < w.isTarget.length) :
    FlagsOK (registerW w rels) := by
  intro t T hT hf i hi hz
  have hT0 : w.tables[t]? = some T := hT
  show (rels.foldl (fun (it : List Bool) r => it.set r.target.id true) w.isTarget).getD _ false = true
  rcases h t T hT0 hf i hi hz with h1 | ⟨r, hr, he⟩
  · exact flagFold_mono _ _ _ h1
  · rw [← he] at hz ⊢
    exact flagFold_hit rels _ r hr (hlt r hr hz)

/-! ## 3. `findOrCreateArch` -/

namespace World

theorem createArchetypeW_relationArchetypes (w : World) (mask : Mask) :
    (createArchetypeW w mask).relationArchetypes =
      if (newArch w mask).hasRelations then w.relationArchetypes ++ [w.archetypes.length]
      else w.relationArchetypes := by
  unfold createArchetypeW
  simp only
  split
  · show (List.foldl (caStep w.archetypes.length) _ _).relationArchetypes ++ _ = _
    rw [foldl_keep (caStep w.archetypes.length) (·.relationArchetypes) (fun _ _ => rfl)]
  · exact foldl_keep (caStep w.archetypes.length) (·.relationArchetypes) (fun _ _ => rfl) _ _

end World

theorem RelAux.findOrCreateArch {w w' : World} (h : RelAux w) {mask : Mask} {a : Nat}
    (hr : World.findOrCreateArch mask w = .ok a w') : RelAux w' := by
  unfold World.findOrCreateArch at hr
  split at hr
  · injection hr with _ h2; subst h2; exact h
  · obtain ⟨w1, hok, ha, ht, _, _, hp, hc⟩ := createArchetype_ok mask w
    rw [hok] at hr
    injection hr with _ h2
    subst h2
    have hra := createArchetypeW_relationArchetypes w mask
    rw [createArchetype_eq] at hok
    injection hok with _ h3
    subst h3
    refine ⟨?_, ?_, ?_, ?_⟩
    · intro t T hT hf i hi
      rw [ht] at hT
      rcases h.targets t T hT hf i hi with h1 | h1
      · exact Or.inl h1
      · exact Or.inr (by simp only [World.alive, hp]; exact h1)
    · intro t T hT hf; rw [ht] at hT; exact h.rels t T hT hf
    · intro b B hB hrel
      rw [ha] at hB
      rw [hra]
      rcases getElem?_concat_cases hB with ⟨_, h1⟩ | ⟨h1, h2⟩
      · have := h.relArchs b B h1 hrel
        split
        · exact List.mem_append_left _ this
        · exact this
      · subst h2
        rw [if_pos hrel, h1]; simp
    · intro e he; rw [hc] at he; exact h.cacheRels e he

/-! ## 4. `createTable` -/

namespace World

/-- fields `createTable` never touches, beyond `Untouched` -/
theorem createTable_frame {a : Nat} {rels : List RelID} {w w' : World} {t : Nat}
    (h : createTable a rels w = .ok t w') :
    w'.relationArchetypes = w.relationArchetypes ∧ (CacheRelsOK w → CacheRelsOK w') := by
  obtain ⟨_, _, _, _, h5⟩ := createTable_ok h
  have h6 := cacheAddTable_eq h5
  have hra : (createTableS w a rels).1.relationArchetypes = w.relationArchetypes := by
    unfold createTableS; split <;> rfl
  have hca : (createTableS w a rels).1.cache = w.cache := by
    unfold createTableS; split <;> rfl
  constructor
  · rw [h6]; exact hra
  · intro hc e he
    rw [h6] at he
    simp only [hca, List.mem_map] at he
    obtain ⟨e0, he0, rfl⟩ := he
    intro r hr
    rw [addTableEntry_rels] at hr
    rw [addTableEntry_filter]
    exact hc e0 he0 r hr

end World

theorem ctTargets_eq (A : Archetype) (rels : List RelID) :
    ctTargets A rels = setTargets A.colIdx rels (List.replicate A.comps.length Ent.zero) := rfl

theorem colIdx_fun_eq {T : Table} {A : Archetype} (h : T.ids = A.comps) : T.colIdx = A.colIdx := by
  funext c; simp only [Table.colIdx, Archetype.colIdx, h]

/-- the table `createTable` produced: its metadata -/
theorem CreatedTable.tbl {w w' : World} {a : Nat} {rels : List RelID} {t : Nat}
    (ct : CreatedTable w w' a rels t) :
    w'.tables[t]? = some (w'.tbl t) ∧ (w'.tbl t).arch = a ∧ (w'.tbl t).relIDs = rels ∧
    (w'.tbl t).isFree = false ∧ (w'.tbl t).targets = ctTargets (w.arch a) rels ∧
    (w'.tbl t).ids = (w.arch a).comps := by
  obtain ⟨T, hT, h1, h2, h3, h4, h5⟩ := ct.get
  rw [tbl_of_get hT]; exact ⟨hT, h1, h2, h3, h4, h5⟩

/-- a relation column of the created table holds zero or the target of a given relation -/
theorem CreatedTable.target_cases {w w' : World} {a : Nat} {rels : List RelID} {t : Nat}
    (ct : CreatedTable w w' a rels t) (i : Nat) :
    (w'.tbl t).targets.getD i Ent.zero = Ent.zero ∨
    ∃ (r : RelID), r ∈ rels ∧ (w'.tbl t).targets.getD i Ent.zero = r.target := by
  rw [ct.tbl.2.2.2.2.1, ctTargets_eq]
  rcases setTargets_getD_cases (w.arch a).colIdx i Ent.zero rels _ with h | h
  · left
    rw [h, List.getD_eq_getElem?_getD, List.getElem?_replicate]
    split <;> rfl
  · exact Or.inr h

/-- `createTable` keeps the relation lists exact when its relation list names no component
    twice -/
theorem RelListsOK.created {w w' : World} (h : RelListsOK w) {a : Nat} {rels : List RelID} {t : Nat}
    (ha : a < w.archetypes.length) (ct : CreatedTable w w' a rels t) (hmid : SInvMid w)
    (hnd : (rels.map (·.comp)).Nodup) : RelListsOK w' := by
  obtain ⟨hTt, hTa, hTr, hTf, hTg, hTi⟩ := ct.tbl
  have hA := aget_of_lt ha
  intro t0 T0 hT0 hf
  by_cases h0 : t0 = t
  · subst h0
    rw [hTt] at hT0
    obtain rfl := Option.some.inj hT0
    have hcols := hmid.rels_cols hA ct.cols ct.valid
    have hnr := ct.sinvMid.numRel_eq hTt
    rw [hTa, ct.archA.2.2.2.1] at hnr
    apply Table.RelsExact.of_created (ct.sinvMid.ids_nodup hTt) (ct.sinvMid.isRel_len hTt)
    · rw [hTg, ctTargets_eq, colIdx_fun_eq hTi, hTi, hTr]
    · rw [hTr]; exact hnd
    · rw [hTr, hTi]
      intro r hr
      obtain ⟨i, h1, h2⟩ := hcols r hr
      refine ⟨i, h1, ?_⟩
      obtain ⟨A', hA', _, e2, _⟩ := ct.sinvMid.tblArch t0 _ hTt
      rw [hTa] at hA'
      have hc' : A'.comps[i]? = some r.comp := by
        have := arch_of_get hA'
        rw [← this, ct.archA.2.1]; exact h1
      rw [e2, (ct.sinvMid.kindsOf a A' i r.comp hA' hc').1, ct.kinds,
        ← (hmid.kindsOf a _ i r.comp hA h1).1]
      exact h2
    · rw [hTr, ← hnr]; exact ct.numRel
  · rw [ct.others t0 h0] at hT0
    exact h t0 T0 hT0 hf

theorem RelArchsOK.created {w w' : World} (h : RelArchsOK w) {a : Nat} {rels : List RelID} {t : Nat}
    (ha : a < w.archetypes.length) (ct : CreatedTable w w' a rels t)
    (hra : w'.relationArchetypes = w.relationArchetypes) : RelArchsOK w' := by
  have hA := aget_of_lt ha
  intro b B hB hrel
  rw [hra]
  by_cases hb : b = a
  · subst hb
    apply h b _ hA
    have := arch_of_get hB
    simp only [Archetype.hasRelations] at hrel ⊢
    rw [← this, ct.archA.2.2.2.1] at hrel
    exact hrel
  · rw [ct.otherArchs b hb] at hB
    exact h b B hB hrel

/-- **`createTable` keeps `RelAux`** when the relation list names no component twice -/
theorem RelAux.created {w w' : World} (h : RelAux w) {a : Nat} {rels : List RelID} {t : Nat}
    (ha : a < w.archetypes.length) (ct : CreatedTable w w' a rels t)
    (hok : World.createTable a rels w = .ok t w') (hmid : SInvMid w)
    (hnd : (rels.map (·.comp)).Nodup) : RelAux w' := by
  obtain ⟨hTt, _, _, _, _, _⟩ := ct.tbl
  obtain ⟨hra, hcr⟩ := createTable_frame hok
  have hal : ∀ (e : Ent), w'.alive e = w.alive e := fun e => by simp only [World.alive, ct.pool]
  refine ⟨?_, h.rels.created ha ct hmid hnd, h.relArchs.created ha ct hra, hcr h.cacheRels⟩
  intro t0 T0 hT0 hf i hi
  by_cases h0 : t0 = t
  · subst h0
    rw [hTt] at hT0
    obtain rfl := Option.some.inj hT0
    rcases ct.target_cases i with hz | ⟨r, hr, he⟩
    · left; rw [hz]; rfl
    · rw [he, hal]
      exact (ct.valid r hr).2
  · rw [ct.others t0 h0] at hT0
    rcases h.targets t0 T0 hT0 hf i hi with h1 | h1
    · exact Or.inl h1
    · exact Or.inr (by rw [hal]; exact h1)

/-- after `createTable` the flags are complete up to the targets of the given relations -/
theorem FlagsOKUpTo.created {w w' : World} {rels0 rels : List RelID} (h : FlagsOKUpTo w rels0)
    {a : Nat} {t : Nat} (ct : CreatedTable w w' a rels t) (hit : w'.isTarget = w.isTarget)
    (hsub : ∀ (r : RelID), r ∈ rels → r.target.isZero = false →
      w.isTarget.getD r.target.id false = true ∨ ∃ (r0 : RelID), r0 ∈ rels0 ∧ r0.target = r.target) :
    FlagsOKUpTo w' rels0 := by
  obtain ⟨hTt, _, _, _, _, _⟩ := ct.tbl
  intro t0 T0 hT0 hf i hi hz
  rw [hit]
  by_cases h0 : t0 = t
  · subst h0
    rw [hTt] at hT0
    obtain rfl := Option.some.inj hT0
    rcases ct.target_cases i with hzz | ⟨r, hr, he⟩
    · rw [hzz] at hz; cases hz
    · rw [he] at hz ⊢
      exact hsub r hr hz
  · rw [ct.others t0 h0] at hT0
    exact h t0 T0 hT0 hf i hi hz

theorem FreeEmpty.created {w w' : World} (h : FreeEmpty w) {a : Nat} {rels : List RelID} {t : Nat}
    (ct : CreatedTable w w' a rels t) : FreeEmpty w' := by
  obtain ⟨hTt, _, _, hTf, _, _⟩ := ct.tbl
  intro t0 T0 hT0 hf
  by_cases h0 : t0 = t
  · subst h0
    rw [hTt] at hT0
    obtain rfl := Option.some.inj hT0
    rw [hTf] at hf; cases hf
  · rw [ct.others t0 h0] at hT0
    exact h t0 T0 hT0 hf

/-! ## 5. `getTable` -/

namespace World

theorem getTable_go_found (rels : List RelID) (w : World) : ∀ (ts : List Nat) (t : Nat) (w' : World),
    getTable.go rels w ts = .ok (some t) w' → (w.tbl t).matchesExact rels = .yes
  | [], t, w', h => by simp [getTable.go] at h
  | x :: rest, t, w', h => by
    simp only [getTable.go] at h
    split at h
    · rename_i hy
      injection h with h1 _; injection h1 with h1; subst h1; exact hy
    · exact getTable_go_found rels w rest t w' h
    · cases h
    · cases h

/-- a table found by `getTable` in an archetype with relation columns matches the relation list
    exactly -/
theorem getTable_found {a : Nat} {rels : List RelID} {w w' : World} {t : Nat}
    (h : getTable a rels w = .ok (some t) w') (hr : (w.arch a).hasRelations = true) :
    (w.tbl t).matchesExact rels = .yes := by
  unfold getTable at h
  simp only [hr, Bool.not_true, Bool.false_eq_true, if_false] at h
  split at h
  · cases h
  · split at h
    · cases h
    · split at h
      · cases h
      · split at h
        · cases h
        · split at h
          · cases h
          · split at h
            · cases h
            · exact getTable_go_found _ _ _ _ _ h

theorem getTable_go_total (rels : List RelID) (w : World) : ∀ (ts : List Nat),
    (∀ (t : Nat), t ∈ ts → (w.tbl t).matchesExact rels = .yes ∨ (w.tbl t).matchesExact rels = .no) →
    ∃ (r : Option Nat), getTable.go rels w ts = .ok r w
  | [], _ => ⟨none, rfl⟩
  | x :: rest, h => by
    simp only [getTable.go]
    rcases h x List.mem_cons_self with hy | hn
    · rw [hy]; exact ⟨some x, rfl⟩
    · rw [hn]; exact getTable_go_total rels w rest (fun t ht => h t (List.mem_cons_of_mem _ ht))

end World

end Ark
