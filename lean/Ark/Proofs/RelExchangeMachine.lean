/-
  Ark.Proofs.RelExchangeMachine — `Exchange` with relation components as a step of the history
  machine: the machine `Op3 = base2 (op : Op2) | xchg p e add vals rem rels` on top of
  `Ark.RelRefine2` (`Ark/Proofs/RelRefine2Machine.lean`), part 1: the step.

  * `opExchange_rel_keep` — an accepted `Exchange` keeps the filter-side state (`QKeep`, `CKeep`);
  * `XchgOK` (the precondition in terms of the specification), `xchgEntry` (the new entry:
    components `(current \ rem) ∪ add` with the values written, relations `(current \ rem) ++ rels`),
    `specXchg`, `preXchg`, `guardXchg`, `Op3`, `step3`, `reach3`;
  * `step3_xchg` — the step keeps `HInv2` (so `TInv`, refinement, cache invariant …), creates at
    most one table, one relation archetype and no index slot; a step whose precondition fails is
    rejected with the world unchanged; a step whose precondition holds succeeds.

  The theorems over histories are in `Ark/Proofs/RelExchangeHist.lean`.
  Kernel-only proofs, core Lean only.
-/
import Ark.Proofs.RelExchangeOp
import Ark.Proofs.RelRefine2Spec

set_option autoImplicit false

namespace Ark

open World Ark.Props.C01World QueryRel

/-- **an accepted `Exchange` keeps the filter-side state**: under the hypotheses of
    `opExchange_rel_spec` the call succeeds with `XchgRelPost`, `RowsAlive` / `CIdx` / `CacheEmpty`
    are kept (`QKeep`) and the cache keeps its entries up to their table lists, which stay exact
    (`CKeep`) -/
theorem opExchange_rel_keep (run : ProbeRunner) (p : Path) {w : World} {fl : List Nat}
    (h : TInv w fl) (hl : w.isLocked = false) (hno : ∀ (evt : Nat), w.obs.hasObservers evt = false)
    {e : Ent} (h2 : 2 ≤ e.id) (hnf : e.id ∉ fl) (ha : w.alive e = true)
    (hsl : e.id < w.pool.ents.length) {add rem : List Comp}
    {rels : List RelID} (hp : XchgPre w e add rem rels) (vals : List (Comp × Val))
    (htin : ∀ (r : RelID), r ∈ rels → r.target.id < w.pool.ents.length)
    (hfew : w.tables.length < maxU32) (hrows : w.entities.length + 1 < 2 ^ 32) :
    ∃ (w' : World), opExchange run p e add vals rem rels w = .ok () w' ∧
      XchgRelPost w fl e add rem vals rels w' ∧ QKeep w w' ∧ RelRefine2.CKeep w w' := by
  obtain ⟨w', hok, post⟩ := opExchange_rel_spec run p h hl hno h2 hnf ha hsl hp vals htin hfew hrows
  refine ⟨w', hok, post, ?_⟩
  obtain ⟨w2, hcore, cp⟩ := exchangeCore_rel_spec run h hl hno h2 hnf ha hsl hp htin hfew hrows
  have hk256 : w.kinds.length ≤ 256 := Nat.le_trans h.kindsLe.1 h.kindsLe.2
  have hpre : preCheck p add rels w = .ok () w := by
    apply preCheck_ok_of_valid
    intro r hr
    refine ⟨hp.targets r hr, hp.relsRel r hr, ?_⟩
    rw [Mask.get_ofList]
    have : r.comp < 256 := Nat.lt_of_lt_of_le (hp.addReg r.comp (hp.relsIn r hr)) hk256
    simp [this, hp.relsIn r hr]
  have hno2 : ∀ (evt : Nat), w2.obs.hasObservers evt = false := by
    intro evt; rw [cp.obs]; exact hno evt
  rw [opExchange_rel_eq run p e add vals rem rels w ha hpre hcore hno2] at hok
  injection hok with _ hw
  subst hw
  obtain ⟨oldT, row, t, a, m, L, w1, he, htm, hne', hmreg, hadd, rfl⟩ := cp.shape
  have hSS := h.rel.sinv
  have hI := h.link.idx
  obtain ⟨hT, _, _⟩ := hI.indexed he htm
  have hlt := lt_of_get hT
  obtain ⟨_, foc, _⟩ := hSS.findOrCreateTableAdd_of_ok_rinv h.rel.rinv hmreg
    (fun c hc => by cases hc) hadd
  have hI1 : IdxInv w1 := foc.idx hI
  have he1 : w1.entities[e.id]? = some (oldT, row) := by rw [foc.entities]; exact he
  have hb1 : (w1.tbl t).len + 1 < 2 ^ 32 := by
    have := hI1.rows_le t
    rw [foc.entities] at this; omega
  have ha1 : w1.alive e = true := by simp only [World.alive, foc.pool]; exact ha
  have hel1 : e.id < w1.entities.length := (List.getElem?_eq_some_iff.1 he1).1
  have q1 : QKeep w w1 :=
    ⟨fun hr => hr.lookup (findOrCreateTableAdd_keeps hadd), fun hc => hc.findOrCreateTableAdd hadd,
     fun hce => findOrCreateTable_cacheEmpty.1 hadd hce⟩
  have c1 : RelRefine2.CKeep w w1 :=
    RelRefine2.foc_ckeep hSS hmreg (fun c hc => by cases hc) hadd
  exact ⟨((q1.trans (addMove_qkeep hI1 _ ha1 he1 htm hne' foc.tblLt hb1)).trans
      (registerW_qkeep _ rels)).trans (writeValsW_qkeep _ e vals),
    ((c1.trans (RelRefine2.addMove_ckeep w1 e _ hne' foc.tblLt
      (Nat.lt_of_lt_of_le hlt foc.tablesLen) hel1)).trans
      (RelRefine2.registerW_ckeep _ rels)).trans (RelRefine2.writeValsW_ckeep _ e vals)⟩

namespace RelRefine3

open RelRefine RelRefine2
open Refine (Comps keys sortedIds writeComps zeros)

/-! ## 1. the machine -/

/-- the precondition of `Exchange(e, add, rem, rels)` on an entity with the entry `en`, in terms of
    the specification: not both lists empty; `rem` distinct components of the entity; `add`
    distinct registered components it lacks; `rels` names exactly the relation components among
    `add`, none twice (`RelsWF`); every target is the zero entity or specified (= alive) -/
def XchgOK (ss : SS) (en : Entry) (add rem : List Comp) (rels : List RelID) : Prop :=
  (¬ (add = [] ∧ rem = []) ∧ rem.Nodup ∧ (∀ c ∈ rem, c ∈ keys en.comps) ∧ add.Nodup ∧
    ∀ c ∈ add, c < ss.zst.length ∧ c ∉ keys en.comps) ∧
  RelsWF ss.isRel add rels ∧ TargetsValid ss.ents rels

instance (ss : SS) (en : Entry) (add rem : List Comp) (rels : List RelID) :
    Decidable (XchgOK ss en add rem rels) :=
  inferInstanceAs (Decidable ((¬ (add = [] ∧ rem = []) ∧ rem.Nodup ∧ (∀ c ∈ rem, c ∈ keys en.comps) ∧
    add.Nodup ∧ ∀ c ∈ add, c < ss.zst.length ∧ c ∉ keys en.comps) ∧
    RelsWF ss.isRel add rels ∧ TargetsValid ss.ents rels))

/-- the entry after an accepted `Exchange`: the components that stay keep their values, the added
    ones start at zero, then the values are written (last write wins, zero-size components are not
    written); the relations that stay, then the given ones -/
def xchgEntry (z : List Bool) (add : List Comp) (vals : Comps) (rem : List Comp) (rels : Rels)
    (en : Entry) : Entry :=
  ⟨writeComps z vals ((en.comps.filter fun cv => decide (cv.1 ∉ rem)) ++ zeros add),
    (en.rels.filter fun r => decide (r.comp ∉ rem)) ++ rels⟩

/-- the specification step of `xchg`: an operation whose precondition fails leaves the
    specification unchanged -/
def specXchg (ss : SS) (e : Ent) (add : List Comp) (vals : Comps) (rem : List Comp) (rels : Rels) :
    SS :=
  match find ss.ents e with
  | none => ss
  | some en =>
    if XchgOK ss en add rem rels then
      { ss with ents := upd ss.ents e (xchgEntry ss.zst add vals rem rels) }
    else ss

/-- the precondition of `xchg`, in terms of the specification only -/
def preXchg (ss : SS) (e : Ent) (add rem : List Comp) (rels : Rels) : Prop :=
  ∃ en, find ss.ents e = some en ∧ XchgOK ss en add rem rels

/-- what is a step: as for `add` (`RelRefine.guard`) — a handle the client was given, registered
    component IDs to add, a relation list that names no relation component twice and every
    relation component among `add` (`RelsStep`: what `createTable` would notice only after the
    archetype was created), whose targets are the zero entity or handles the client was given.
    Since the repair of the `Unsafe` API a dead target, a relation on a non-relation component
    and a relation on a component that is not added are refused before anything is touched
    through `Unsafe.Exchange` as through `ExchangeN.Exchange`: such calls are steps. -/
def guardXchg (s : St) (p : Path) (e : Ent) (add : List Comp) (rels : Rels) : Bool :=
  decide (e ∈ s.issued) && (add.all fun c => decide (c < s.ss.zst.length)) &&
    decide (RelsStep s.ss.isRel p add rels) && tgtsExpr s rels

/-- the operations: those of `Ark.RelRefine2` and `Exchange` -/
inductive Op3
  /-- an operation of `Ark.RelRefine2` (entity operations with relations, `CopyEntity`, `Shrink`,
      `Reset` — now a step that keeps the invariant —, filter operations, queries) -/
  | base2 (op : Op2)
  /-- `Exchange(e, add, rem, rels)` through the access path `p`, writing `vals` -/
  | xchg (p : Path) (e : Ent) (add : List Comp) (vals : Comps) (rem : List Comp) (rels : Rels)
  deriving Repr

/-- one step in lock step: the model operation and the specification step.  A panic keeps the
    state the model reached (Go `recover`); that a rejected call leaves the world unchanged is a
    theorem, not part of the definition. -/
def step3 (run : ProbeRunner) (s : St) : Op3 → St
  | .base2 op => step2 run s op
  | .xchg p e add vals rem rels =>
    if guardXchg s p e add rels = true then
      ⟨(opExchange run p e add vals rem rels s.w).state, s.issued,
        specXchg s.ss e add vals rem rels⟩
    else s

def runOps3 (run : ProbeRunner) (s : St) (ops : List Op3) : St := ops.foldl (step3 run) s

/-- the state reached from `NewWorld(cap, rel)` by the history `ops` -/
def reach3 (run : ProbeRunner) (cap rel : Nat) (ops : List Op3) : St :=
  runOps3 run (St.init cap rel) ops

theorem reach3_snoc (run : ProbeRunner) (cap rel : Nat) (ops : List Op3) (op : Op3) :
    reach3 run cap rel (ops ++ [op]) = step3 run (reach3 run cap rel ops) op := by
  simp only [reach3, runOps3, List.foldl_append, List.foldl_cons, List.foldl_nil]

theorem specXchg_of_not_pre (ss : SS) (e : Ent) (add : List Comp) (vals : Comps) (rem : List Comp)
    (rels : Rels) (h : ¬ preXchg ss e add rem rels) : specXchg ss e add vals rem rels = ss := by
  simp only [specXchg]
  cases hf : find ss.ents e with
  | none => rfl
  | some en => exact if_neg (fun hv => h ⟨en, hf, hv⟩)

/-! ## 2. the step -/

theorem sortedIds_filter_append_sorted (n : Nat) (ks rem add : List Comp) :
    sortedIds n (((sortedIds n ks).filter fun c => decide (c ∉ rem)) ++ add) =
      sortedIds n ((ks.filter fun c => decide (c ∉ rem)) ++ add) := by
  simp only [sortedIds]
  apply List.filter_congr
  intro c hc
  have hlt := List.mem_range.mp hc
  apply decide_eq_decide.mpr
  simp only [List.mem_append, List.mem_filter, List.mem_range, decide_eq_true_eq]
  constructor
  · rintro (⟨⟨_, h1⟩, h2⟩ | h)
    · exact Or.inl ⟨h1, h2⟩
    · exact Or.inr h
  · rintro (⟨h1, h2⟩ | h)
    · exact Or.inl ⟨⟨hlt, h1⟩, h2⟩
    · exact Or.inr h

/-- the conclusion of the step lemma: the invariant is kept, the world grows by at most one table
    and one relation archetype; a step whose precondition fails is rejected with the world
    unchanged; a step whose precondition holds succeeds -/
def XchgGoal (run : ProbeRunner) (s : St) (p : Path) (e : Ent) (add : List Comp) (vals : Comps)
    (rem : List Comp) (rels : Rels) : Prop :=
  (∃ fl', HInv2 (step3 run s (.xchg p e add vals rem rels)) fl') ∧
  Grows s (step3 run s (.xchg p e add vals rem rels)) ∧
  (guardXchg s p e add rels = true → ¬ preXchg s.ss e add rem rels →
    ∃ k, opExchange run p e add vals rem rels s.w = .panic k s.w) ∧
  (guardXchg s p e add rels = true → preXchg s.ss e add rem rels →
    ∃ w', opExchange run p e add vals rem rels s.w = .ok () w')

theorem step3_xchg (run : ProbeRunner) {s : St} {fl : List Nat} (H : HInv2 s fl)
    (hfew : s.w.tables.length < maxU32) (hent : s.w.entities.length + 1 < 2 ^ 32)
    (p : Path) (e : Ent) (add : List Comp) (vals : Comps) (rem : List Comp) (rels : Rels) :
    XchgGoal run s p e add vals rem rels := by
  have HB := H.base
  by_cases hg : guardXchg s p e add rels = true
  case neg =>
    have : step3 run s (.xchg p e add vals rem rels) = s := by simp only [step3, if_neg hg]
    exact ⟨⟨fl, by rw [this]; exact H⟩, by rw [this]; exact Grows.refl s,
      fun h => absurd h hg, fun h => absurd h hg⟩
  have hg' : ((e ∈ s.issued ∧ ∀ c ∈ add, c < s.ss.zst.length) ∧ RelsStep s.ss.isRel p add rels) ∧
      tgtsExpr s rels = true := by
    simpa only [guardXchg, Bool.and_eq_true, List.all_eq_true, decide_eq_true_eq] using hg
  obtain ⟨⟨⟨hi, hreg⟩, hst⟩, hx⟩ := hg'
  have hreg' : ∀ (c : Comp), c ∈ add → c < s.w.kinds.length := by rw [← HB.zlen]; exact hreg
  have hb256 : ∀ (c : Comp), c ∈ add → c < 256 := fun c hc => HB.reg256 (hreg' c hc)
  obtain ⟨hrnd, hrmap, hrall⟩ := hst
  -- a relation on a non-relation component / on a component that is not added: refused by the
  -- pre-validation (after the `Alive` check of `Unsafe.Exchange`), the machine state unchanged
  by_cases hrin : ∀ r ∈ rels, r.comp ∈ add ∧ s.ss.isRel.getD r.comp false = true
  case neg =>
    obtain ⟨r, hr, hb⟩ := bad_of_not_wf HB hrmap hrin
    obtain ⟨k, hop⟩ := opExchange_rel_badRel run p e add vals rem rels s.w HB.unlocked
      ⟨r, hr, by
        rcases hb with hb | ⟨hp, hb⟩
        · exact Or.inr (Or.inl hb)
        · exact Or.inr (Or.inr ⟨hp, by rw [Mask.get_ofList]; simp [hb]⟩)⟩
    have hnp : ¬ preXchg s.ss e add rem rels := by
      rintro ⟨en, _, hp⟩
      exact hrin hp.2.1.2.1
    have : step3 run s (.xchg p e add vals rem rels) = s := by
      simp only [step3, if_pos hg, hop, Res.state, specXchg_of_not_pre _ _ _ _ _ _ hnp]
    exact ⟨⟨fl, by rw [this]; exact H⟩, by rw [this]; exact Grows.refl s,
      fun _ _ => ⟨k, hop⟩, fun _ hp => absurd hp hnp⟩
  have hin : ∀ (r : RelID), r ∈ rels → r.comp ∈ add := fun r hr => (hrin r hr).1
  have hrc : ∀ (r : RelID), r ∈ rels → s.w.isRelComp r.comp = true :=
    fun r hr => by rw [← HB.rget]; exact (hrin r hr).2
  -- a rejected call: the whole machine state is unchanged
  have hrejected : ∀ {k : PanicKind}, opExchange run p e add vals rem rels s.w = .panic k s.w →
      ¬ preXchg s.ss e add rem rels → XchgGoal run s p e add vals rem rels := by
    intro k hop hnp
    have : step3 run s (.xchg p e add vals rem rels) = s := by
      simp only [step3, if_pos hg, hop, Res.state, specXchg_of_not_pre _ _ _ _ _ _ hnp]
    exact ⟨⟨fl, by rw [this]; exact H⟩, by rw [this]; exact Grows.refl s,
      fun _ _ => ⟨k, hop⟩, fun _ hp => absurd hp hnp⟩
  cases ha : s.w.alive e with
  | false =>
    obtain ⟨k, hop⟩ := opExchange_rel_dead run p e add vals rem rels s.w HB.unlocked ha
    have hf := HB.find_of_dead hi ha
    exact hrejected hop (by rintro ⟨en, hen, _⟩; rw [hf] at hen; cases hen)
  | true =>
    obtain ⟨en, hf, hm⟩ := HB.find_of_alive hi ha
    obtain ⟨_, _, h2, hnf, _, hsl⟩ := HB.live_facts hm
    have ok := HB.ok e en hm
    have hmask : ∀ (c : Comp), (s.w.maskOf e).get c = true ↔ c ∈ keys en.comps := fun c => by
      rw [HB.tinv.mask_iff_comps h2 hnf ha (Pool.lt_of_slot hsl) ok.comps c, HB.comps_iff hm c]
    have hnotpre : ¬ XchgOK s.ss en add rem rels → ¬ preXchg s.ss e add rem rels := by
      rintro hn ⟨en', hen', hp⟩
      rw [hf] at hen'
      rw [← Option.some.inj hen'] at hp
      exact hn hp
    by_cases hv1 : ¬ (add = [] ∧ rem = []) ∧ rem.Nodup ∧ (∀ c ∈ rem, c ∈ keys en.comps) ∧
        add.Nodup ∧ ∀ c ∈ add, c < s.ss.zst.length ∧ c ∉ keys en.comps
    case neg =>
      have hpanic : ∃ k, opExchange run p e add vals rem rels s.w = .panic k s.w := by
        by_cases hne : add = [] ∧ rem = []
        · obtain ⟨rfl, rfl⟩ := hne
          exact opExchange_rel_empty run p e vals rels s.w HB.unlocked
        · apply opExchange_rel_misfit run p e add vals rem rels s.w HB.unlocked hb256
          rintro ⟨k1, k2, k3, k4⟩
          refine hv1 ⟨hne, k1, fun c hc => (hmask c).mp (k2 c hc), k3, fun c hc => ⟨hreg c hc, ?_⟩⟩
          intro hk
          have := (hmask c).mpr hk
          rw [k4 c hc] at this; cases this
      obtain ⟨k, hop⟩ := hpanic
      exact hrejected hop (hnotpre fun hp => hv1 hp.1)
    by_cases hv : TargetsValid s.ss.ents rels
    case neg =>
      obtain ⟨r, hr, hz, hd⟩ := dead_of_invalid HB hx hv
      obtain ⟨k, hop⟩ := opExchange_rel_badRel run p e add vals rem rels s.w HB.unlocked
        ⟨r, hr, Or.inl ⟨hz, hd⟩⟩
      exact hrejected hop (hnotpre fun hp => hv hp.2.2)
    obtain ⟨hne, hremnd, hremhas, haddnd, hall⟩ := hv1
    have hok : XchgOK s.ss en add rem rels :=
      ⟨⟨hne, hremnd, hremhas, haddnd, hall⟩, ⟨hrnd, hrin, hrall⟩, hv⟩
    have hpw : XchgPre s.w e add rem rels :=
      { nonempty := hne
        remNodup := hremnd
        remHas := fun c hc => (hmask c).mpr (hremhas c hc)
        addNodup := haddnd
        addReg := hreg'
        addNew := by
          intro c hc
          cases hgc : (s.w.maskOf e).get c with
          | false => rfl
          | true => exact absurd ((hmask c).mp hgc) (hall c hc).2
        relsNodup := hrnd
        relsIn := hin
        relsRel := hrc
        relsAll := fun c hc hr => hrall c hc (by rw [HB.rget]; exact hr)
        targets := HB.targets_alive hv }
    obtain ⟨w', hop, post, qk, ck⟩ := opExchange_rel_keep run p HB.tinv HB.unlocked HB.noObs h2 hnf
      ha (Pool.lt_of_slot hsl) hpw vals (HB.tgts_in hx) hfew hent
    have hstep : step3 run s (.xchg p e add vals rem rels) =
        ⟨w', s.issued, ⟨upd s.ss.ents e (xchgEntry s.ss.zst add vals rem rels),
          s.ss.zst, s.ss.isRel⟩⟩ := by
      simp only [step3, if_pos hg, hop, Res.state, specXchg, hf, if_pos hok]
    refine ⟨⟨fl, ?_⟩, ?_, fun _ hnp => absurd ⟨en, hf, hok⟩ hnp, fun _ _ => ⟨_, hop⟩⟩
    case refine_2 =>
      rw [hstep]
      exact ⟨by show w'.tables.length ≤ _; have := post.tablesLen; omega, post.relArchs,
        by show w'.entities.length ≤ _; rw [post.entitiesLen]; exact Nat.le_succ _⟩
    rw [hstep]
    refine ⟨?_, H.finv.kept ⟨qk, ck, post.locks, isRelComp_of_kinds post.kinds⟩⟩
    have hk : keys (xchgEntry s.ss.zst add vals rem rels en).comps =
        ((keys en.comps).filter fun c => decide (c ∉ rem)) ++ add := by
      show keys (writeComps s.ss.zst vals
        ((en.comps.filter fun cv => decide (cv.1 ∉ rem)) ++ zeros add)) = _
      rw [Refine.keys_writeComps, Refine.keys_append, Refine.keys_zeros, keys_filter_eq]
    have hmemk : ∀ (c : Comp), c ∈ keys (xchgEntry s.ss.zst add vals rem rels en).comps ↔
        ((c ∈ keys en.comps ∧ c ∉ rem) ∨ c ∈ add) := by
      intro c
      rw [hk, List.mem_append, List.mem_filter]
      simp only [decide_eq_true_eq]
    refine HB.update hm _ post.tinv post.pool post.locks post.obs post.kinds post.maxComps
      post.frame ?_ ?_
    · exact
        { nodup := by
            rw [hk]
            refine List.nodup_append.mpr ⟨ok.nodup.sublist List.filter_sublist, haddnd, ?_⟩
            intro a ha' b hb hab
            exact (hall b hb).2 (hab ▸ (List.mem_filter.mp ha').1)
          reg := by
            intro c hc
            rcases (hmemk c).mp hc with h1 | h1
            · exact ok.reg c h1.1
            · exact hreg' c h1
          comps := by
            rw [post.comps _ ok.comps, hk, sortedIds_filter_append_sorted]
          vals := by
            intro cv hcv
            obtain ⟨v, hv', hval⟩ := Refine.mem_writeComps
              (show cv ∈ writeComps s.ss.zst vals
                ((en.comps.filter fun cv => decide (cv.1 ∉ rem)) ++ zeros add) from hcv)
            rcases List.mem_append.mp hv' with h1 | h1
            · obtain ⟨h3, h4⟩ := List.mem_filter.mp h1
              have hnot : cv.1 ∉ rem := by simpa using h4
              rw [post.kept cv.1 v (ok.vals (cv.1, v) h3) hnot, hval, HB.zget]
            · simp only [zeros, List.mem_map] at h1
              obtain ⟨c, hc, hcv'⟩ := h1
              injection hcv' with h3 h4
              rw [← h3] at hval ⊢
              rw [post.added c hc, hval, ← h4, HB.zget]
          relNodup := by
            show (((en.rels.filter fun r => decide (r.comp ∉ rem)) ++ rels).map (·.comp)).Nodup
            rw [List.map_append]
            refine List.nodup_append.mpr
              ⟨ok.relNodup.sublist (List.Sublist.map _ List.filter_sublist), hrnd, ?_⟩
            intro a ha' b hb hab
            obtain ⟨r1, hr1, rfl⟩ := List.mem_map.mp ha'
            have h1 := ((ok.relKeys r1.comp).mp
              (List.mem_map.mpr ⟨r1, (List.mem_filter.mp hr1).1, rfl⟩)).1
            obtain ⟨r, hr, rfl⟩ := List.mem_map.mp hb
            exact (hall r.comp (hin r hr)).2 (hab ▸ h1)
          relKeys := by
            intro c
            show c ∈ ((en.rels.filter fun r => decide (r.comp ∉ rem)) ++ rels).map (·.comp) ↔
              c ∈ keys (xchgEntry s.ss.zst add vals rem rels en).comps ∧ _
            rw [hmemk, List.map_append, List.mem_append]
            constructor
            · rintro (h1 | h1)
              · obtain ⟨r, hr, rfl⟩ := List.mem_map.mp h1
                obtain ⟨k1, k2⟩ := List.mem_filter.mp hr
                have hnot : r.comp ∉ rem := by simpa using k2
                obtain ⟨k3, k4⟩ := (ok.relKeys r.comp).mp (List.mem_map.mpr ⟨r, k1, rfl⟩)
                exact ⟨Or.inl ⟨k3, hnot⟩, k4⟩
              · obtain ⟨r, hr, rfl⟩ := List.mem_map.mp h1
                exact ⟨Or.inr (hin r hr), (hrin r hr).2⟩
            · rintro ⟨⟨k1, hnot⟩ | k1, k2⟩
              · left
                obtain ⟨r, hr, rfl⟩ := List.mem_map.mp ((ok.relKeys c).mpr ⟨k1, k2⟩)
                exact List.mem_map.mpr ⟨r, List.mem_filter.mpr ⟨hr, by simpa using hnot⟩, rfl⟩
              · exact Or.inr (hrall c k1 k2)
          tgts := by
            intro r hr
            rcases List.mem_append.mp
              (show r ∈ (en.rels.filter fun r => decide (r.comp ∉ rem)) ++ rels from hr) with h1 | h1
            · obtain ⟨k1, k2⟩ := List.mem_filter.mp h1
              have hnot : r.comp ∉ rem := by simpa using k2
              exact post.oldTargets r.comp r.target (ok.tgts r k1) hnot
            · exact post.targets r h1 }
    · intro r hr
      rcases List.mem_append.mp
        (show r ∈ (en.rels.filter fun r => decide (r.comp ∉ rem)) ++ rels from hr) with h1 | h1
      · exact HB.tgtsOK e en hm r (List.mem_filter.mp h1).1
      · exact hv r h1

end RelRefine3
end Ark
