/-
  Ark.Proofs.RelRejects — C10 for relation arguments: since the repair of the `Unsafe` API
  (`ToCheckedRelationIDsForUnsafe`) EVERY access path of `NewEntity` / `Add` / `Exchange` /
  `SetRelations` validates its relation arguments before the operation proper starts (before the
  lock check, before the archetype lookup), so a refusal leaves the world exactly as it was —
  whatever state the world is in (no invariant, locked or not, observers or not).

  The verdict on a relation list (`relsVerdict`, `Ark/Proofs/PreCheck.lean`) is that of the first
  relation failing, in this order, one of
    * `deadTarget`    the target is a removed entity (not the zero entity, not alive),
    * `notRelation`   the component is not a relation component,
    * `relNotInMask`  the component is not among the added / the mapper's components
                      (`checkMask`: paths `.typed`, `.unsafe_`; `Map[T]` has no such check).

  Per entry point (the ORDER of the checks):
    * `NewEntity(ids, rels)`            verdict (membership in `ids`, also when `ids` is empty),
                                        then `World.newEntity`;
    * `Add(e, ids, rels)`               `Unsafe` / `Map`: `Alive(e)` first (`deadEntity`); then the
                                        verdict — `Unsafe` with no components: without membership
                                        (`Path.addCheck`), the call is refused with `noComponents`
                                        right afterwards —; then `World.add`;
    * `Exchange(e, add, rem, rels)`     `Unsafe`: `Alive(e)` first; then the verdict (membership in
                                        `add`, always: a pure removal admits no relations); then
                                        `World.exchange`;
    * `SetRelations(e, rels)`           verdict (`Unsafe`, `Map`: without membership,
                                        `Path.setRelCheck`; `MapN`: the mapper's components), then
                                        `World.setRelations`.
  Kernel-only proofs, core Lean only.
-/
import Ark.Proofs.PreCheck
import Ark.Proofs.MaskLemmas

set_option autoImplicit false

namespace Ark
namespace World

/-! ## 1. a refused relation list: the exact outcome -/

/-- `NewEntity`, any path, any world: a relation list the pre-validation refuses with class `k`
    makes the call panic `k`, the world unchanged -/
theorem opNewEntity_refused (run : ProbeRunner) (p : Path) (ids : List Comp)
    (vals : List (Comp × Val)) (rels : List RelID) (w : World) {k : PanicKind}
    (h : relsVerdict w (checkMask p ids) rels = some k) :
    opNewEntity run p ids vals rels w = .panic k w := by
  have hpre : preCheck p ids rels w = .panic k w := by rw [preCheck_eq, h]
  simp only [opNewEntity, bind, M.bind, hpre]

/-- `Add`, any path, any world, on an entity that is alive (`MapN.Add` does not ask: it checks
    the entity after the relations) -/
theorem opAdd_refused (run : ProbeRunner) (p : Path) (e : Ent) (ids : List Comp)
    (vals : List (Comp × Val)) (rels : List RelID) (w : World)
    (ha : p = .typed ∨ w.alive e = true) {k : PanicKind}
    (h : relsVerdict w (checkMask (p.addCheck ids) ids) rels = some k) :
    opAdd run p e ids vals rels w = .panic k w := by
  have hpre : preCheck (p.addCheck ids) ids rels w = .panic k w := by rw [preCheck_eq, h]
  cases p with
  | typed => simp [opAdd, bind, M.bind, hpre]
  | unsafe_ =>
    have ha' : w.alive e = true := by rcases ha with h | h; cases h; exact h
    simp [opAdd, bind, M.bind, M.get, M.assert, ha', hpre]
  | map1 =>
    have ha' : w.alive e = true := by rcases ha with h | h; cases h; exact h
    simp [opAdd, bind, M.bind, M.get, M.assert, ha', hpre]

/-- `Add` through `Unsafe` / `Map` on a dead handle: `deadEntity` before the relations are looked
    at, the world unchanged -/
theorem opAdd_dead_first (run : ProbeRunner) (p : Path) (hp : p ≠ .typed) (e : Ent)
    (ids : List Comp) (vals : List (Comp × Val)) (rels : List RelID) (w : World)
    (hd : w.alive e = false) : opAdd run p e ids vals rels w = .panic .deadEntity w := by
  cases p <;>
  first
  | exact absurd rfl hp
  | simp [opAdd, bind, M.bind, M.get, M.assert, hd]

/-- `Exchange`, any path, any world, on an entity that is alive (`ExchangeN.Exchange` does not
    ask) -/
theorem opExchange_refused (run : ProbeRunner) (p : Path) (e : Ent) (add : List Comp)
    (vals : List (Comp × Val)) (rem : List Comp) (rels : List RelID) (w : World)
    (ha : p ≠ .unsafe_ ∨ w.alive e = true) {k : PanicKind}
    (h : relsVerdict w (checkMask p add) rels = some k) :
    opExchange run p e add vals rem rels w = .panic k w := by
  have hpre : preCheck p add rels w = .panic k w := by rw [preCheck_eq, h]
  cases p with
  | typed => simp [opExchange, bind, M.bind, hpre]
  | map1 => simp [opExchange, bind, M.bind, hpre]
  | unsafe_ =>
    have ha' : w.alive e = true := by rcases ha with h | h; exact absurd rfl h; exact h
    simp [opExchange, bind, M.bind, M.get, M.assert, ha', hpre]

/-- `Unsafe.Exchange` on a dead handle: `deadEntity` first -/
theorem opExchange_dead_first (run : ProbeRunner) (e : Ent) (add : List Comp)
    (vals : List (Comp × Val)) (rem : List Comp) (rels : List RelID) (w : World)
    (hd : w.alive e = false) :
    opExchange run .unsafe_ e add vals rem rels w = .panic .deadEntity w := by
  simp [opExchange, bind, M.bind, M.get, M.assert, hd]

/-- `SetRelations`, any path, any world, any entity (dead or alive: the relations are validated
    before `World.setRelations` looks at the entity) -/
theorem opSetRelations_refused (run : ProbeRunner) (p : Path) (e : Ent) (mapperIds : List Comp)
    (rels : List RelID) (w : World) {k : PanicKind}
    (h : relsVerdict w (checkMask p.setRelCheck mapperIds) rels = some k) :
    opSetRelations run p e mapperIds rels w = .panic k w := by
  have hpre : preCheck p.setRelCheck mapperIds rels w = .panic k w := by rw [preCheck_eq, h]
  simp only [opSetRelations, bind, M.bind, hpre]

/-! ## 2. a removed entity as relation target -/

/-- a removed entity: a handle that is not the zero entity and does not test alive -/
def Removed (w : World) (t : Ent) : Prop := t.isZero = false ∧ w.alive t = false

instance (w : World) (t : Ent) : Decidable (Removed w t) := by unfold Removed; infer_instance

/-- a relation list naming a removed entity is refused, on every mask: with `deadTarget`, or with
    the class of an earlier relation of the list -/
theorem relsVerdict_removed (w : World) (m : Option Mask) {rels : List RelID}
    (hd : ∃ (r : RelID), r ∈ rels ∧ Removed w r.target) :
    ∃ (k : PanicKind), relsVerdict w m rels = some k ∧
      (k = .deadTarget ∨ k = .notRelation ∨ k = .relNotInMask) := by
  obtain ⟨r, hr, hz, ha⟩ := hd
  have hs := relsVerdict_isSome (m := m) hr (by rw [relVerdict_dead m hz ha]; rfl)
  cases hv : relsVerdict w m rels with
  | none => rw [hv] at hs; cases hs
  | some k => exact ⟨k, rfl, relsVerdict_class hv⟩

/-- … exactly `deadTarget` when the relations before it pass -/
theorem relsVerdict_removed_first (w : World) (m : Option Mask) (pre : List RelID) (r : RelID)
    (post : List RelID) (hpre : ∀ (x : RelID), x ∈ pre → relVerdict w m x = none)
    (hd : Removed w r.target) : relsVerdict w m (pre ++ r :: post) = some .deadTarget :=
  relsVerdict_first pre r post hpre (relVerdict_dead m hd.1 hd.2)

/-- a relation on a component that is not among the required ones, with a fine target and a
    relation component: `relNotInMask` -/
theorem relVerdict_notIn {w : World} {m : Mask} {r : RelID}
    (ht : r.target.isZero = true ∨ w.alive r.target = true) (hc : w.isRelComp r.comp = true)
    (hm : m.get r.comp = false) : relVerdict w (some m) r = some .relNotInMask := by
  have h1 : (!r.target.isZero && !w.alive r.target) = false := by
    rcases ht with h | h <;> simp [h]
  simp [relVerdict, h1, hc, hm]

/-- … in terms of the component list: the relation's component is not in it -/
theorem relVerdict_notIn_list {w : World} {ids : List Comp} {r : RelID}
    (ht : r.target.isZero = true ∨ w.alive r.target = true) (hc : w.isRelComp r.comp = true)
    (hm : r.comp ∉ ids) : relVerdict w (some (Mask.ofList ids)) r = some .relNotInMask :=
  relVerdict_notIn ht hc (by rw [Mask.get_ofList]; simp [hm])

/-- a relation that passes: target zero or alive, relation component, among the required ones -/
theorem relVerdict_none_iff {w : World} {m : Option Mask} {r : RelID} :
    relVerdict w m r = none ↔
      (r.target.isZero = true ∨ w.alive r.target = true) ∧ w.isRelComp r.comp = true ∧
      ∀ (mm : Mask), m = some mm → mm.get r.comp = true := by
  unfold relVerdict
  cases hz : r.target.isZero <;> cases ha : w.alive r.target <;> cases hc : w.isRelComp r.comp <;>
    cases m with
    | none => simp
    | some mm => cases hg : mm.get r.comp <;> simp [hg]

end World
end Ark
