/-
  Ark.Proofs.StatsRelStep — property C19 for worlds WITH relation tables, part 3: what an
  operation does to the part of the world `World.Stats()` relies on, and that no operation reads
  or writes the statistics object.

  * `NoObs w` — no observer is registered for any event (what `RelRefine.HInv` provides);
  * `RStep w w'` — `SStep w w'` (archetypes only appended, the existing ones keep component list
    and relation count, registered sizes unchanged, `w'.stats = w.stats`, observer count `0`
    kept) and `NoObs` is kept;
  * `Fr m` — the action `m`, run on a world without observers, (a) commutes with replacing the
    statistics object (`m (w.setStats st) = liftS st (m w)`, for success AND panic) and (b) on
    success is an `RStep`; closed under `pure`, `bind`, `get`, `modify`, `assert`, `forM'`,
    `if`, so it is established by walking over the definitions of the model;
  * the storage primitives and the table lookups;
  * `cleanupArchetypes`; the operations of the relation machines: `opNewEntity`, `opAdd`,
    `opRemove`, `opExchange`, `opSetRelations`, `opSet`, `opRemoveEntity`, `opCopyEntity`,
    `opShrink` — each with ANY callback runner (without observers it is never consulted).

  Kernel-only proofs, core Lean only.
-/
import Ark.Proofs.StatsReplay
import Ark.Proofs.TargetsCleanup

set_option autoImplicit false

namespace Ark

open World

/-! ## 1. the relation and the predicate -/

/-- no observer is registered, for any event type -/
def NoObs (w : World) : Prop := ∀ (evt : Nat), w.obs.hasObservers evt = false

theorem NoObs.setStats {w : World} (h : NoObs w) (st : WorldStats) : NoObs (w.setStats st) := h

/-- what `Stats()` relies on between two calls (`SStep`), and: no observer appears -/
structure RStep (w w' : World) : Prop where
  sstep : SStep w w'
  noObs : NoObs w → NoObs w'

namespace RStep

theorem refl (w : World) : RStep w w := ⟨SStep.refl w, id⟩

theorem trans {a b c : World} (h1 : RStep a b) (h2 : RStep b c) : RStep a c :=
  ⟨h1.sstep.trans h2.sstep, fun h => h2.noObs (h1.noObs h)⟩

/-- a step that leaves archetypes, registry, statistics object and observers alone -/
theorem of_eq {w w' : World} (ha : w'.archetypes = w.archetypes) (hk : w'.kinds = w.kinds)
    (hs : w'.stats = w.stats) (ho : w'.obs = w.obs) : RStep w w' :=
  ⟨SStep.of_eq ha hk hs ho, fun h evt => by rw [ho]; exact h evt⟩

theorem of_sstep_obs {w w' : World} (h : SStep w w') (ho : w'.obs = w.obs) : RStep w w' :=
  ⟨h, fun hn evt => by rw [ho]; exact hn evt⟩

end RStep

/-- the action at the world `w`: commutes with replacing the statistics object; on success an
    `RStep` -/
def FrAt {α : Type} (m : W α) (w : World) : Prop :=
  (∀ (st : WorldStats), m (w.setStats st) = liftS st (m w)) ∧
  (∀ (a : α) (w' : World), m w = .ok a w' → RStep w w')

/-- the action on every world without observers -/
def Fr {α : Type} (m : W α) : Prop := ∀ (w : World), NoObs w → FrAt m w

namespace Fr

variable {α β : Type}

theorem pure (a : α) : Fr (Pure.pure a : W α) := fun w _ =>
  ⟨fun _ => rfl, fun _ _ h => by cases h; exact RStep.refl w⟩

theorem bind {m : W α} {f : α → W β} (hm : Fr m) (hf : ∀ (a : α), Fr (f a)) : Fr (m >>= f) := by
  intro w hno
  obtain ⟨h1, h2⟩ := hm w hno
  constructor
  · intro st
    rw [M.bind_apply, h1 st, M.bind_apply]
    cases hmw : m w with
    | ok a w' => exact (hf a w' ((h2 a w' hmw).noObs hno)).1 st
    | panic k w' => rfl
  · intro b w2 hok
    rw [M.bind_apply] at hok
    cases hmw : m w with
    | ok a w' =>
      rw [hmw] at hok
      have r1 := h2 a w' hmw
      exact r1.trans ((hf a w' (r1.noObs hno)).2 b w2 hok)
    | panic k w' => rw [hmw] at hok; cases hok

/-- `do let w ← get; f w`, where `f` reads fields other than `stats`; the body is examined at the
    world it was read from -/
theorem get_bind {f : World → W β} (hr : ∀ (w : World) (st : WorldStats), f (w.setStats st) = f w)
    (hf : ∀ (w : World), NoObs w → FrAt (f w) w) : Fr (M.get >>= f) := by
  intro w hno
  obtain ⟨h1, h2⟩ := hf w hno
  constructor
  · intro st
    show f (w.setStats st) (w.setStats st) = liftS st (f w w)
    rw [hr]; exact h1 st
  · intro b w2 hok
    exact h2 b w2 hok

/-- … when the body is `Fr` whatever value was read -/
theorem get_bind' {f : World → W β} (hr : ∀ (w : World) (st : WorldStats), f (w.setStats st) = f w)
    (hf : ∀ (w : World), Fr (f w)) : Fr (M.get >>= f) :=
  get_bind hr fun w hno => hf w w hno

/-- … when the body, read at a world without observers, is an action that is `Fr` -/
theorem get_bind_noObs {f g : World → W β}
    (hr : ∀ (w : World) (st : WorldStats), f (w.setStats st) = f w)
    (hfg : ∀ (w : World), NoObs w → f w = g w) (hg : ∀ (w : World), Fr (g w)) :
    Fr (M.get >>= f) :=
  get_bind hr fun w hno => by rw [hfg w hno]; exact hg w w hno

theorem modify {g : World → World}
    (hg : ∀ (w : World) (st : WorldStats), g (w.setStats st) = (g w).setStats st)
    (hs : ∀ (w : World), RStep w (g w)) : Fr (M.modify g) := fun w _ =>
  ⟨fun st => by
      show Res.ok () (g (w.setStats st)) = Res.ok () ((g w).setStats st)
      rw [hg],
    fun _ _ h => by cases h; exact hs w⟩

theorem assert (c : Bool) (k : PanicKind) : Fr (M.assert c k : W Unit) := fun w _ =>
  ⟨fun st => Indep.assert c k w st, fun _ _ h => by
    cases c with
    | true => cases h; exact RStep.refl w
    | false => cases h⟩

theorem panic (k : PanicKind) : Fr (M.panic k : W α) := fun w _ =>
  ⟨fun _ => rfl, fun _ _ h => by cases h⟩

theorem forM' {γ : Type} {g : γ → W Unit} (hg : ∀ (x : γ), Fr (g x)) :
    ∀ (l : List γ), Fr (M.forM' l g)
  | [] => pure ()
  | x :: l => by
    show Fr (g x >>= fun _ => M.forM' l g)
    exact bind (hg x) fun _ => forM' hg l

theorem ite {c : Prop} [Decidable c] {a b : W α} (ha : Fr a) (hb : Fr b) :
    Fr (if c then a else b) := by
  split
  · exact ha
  · exact hb

theorem _root_.Ark.M.bind_assoc' {σ α β γ : Type} (m : M σ α) (f : α → M σ β) (g : β → M σ γ) :
    (m >>= f) >>= g = m >>= fun a => f a >>= g := by
  funext s
  show (match (match m s with | .ok a s' => f a s' | .panic k s' => .panic k s') with
      | .ok b s'' => g b s'' | .panic k s'' => .panic k s'') =
    (match m s with | .ok a s' => (f a >>= g) s' | .panic k s' => .panic k s')
  cases m s <;> rfl

/-- an action that is independent of the statistics object and leaves the world alone -/
theorem of_indep_same {m : W α} (hi : Indep m)
    (hs : ∀ (w : World) (a : α) (w' : World), m w = .ok a w' → w' = w) : Fr m := fun w _ =>
  ⟨hi w, fun a w' h => by rw [hs w a w' h]; exact RStep.refl w⟩

/-- an action that is independent of the statistics object and is an `RStep` on success -/
theorem of_indep {m : W α} (hi : Indep m)
    (hs : ∀ (w : World) (a : α) (w' : World), m w = .ok a w' → RStep w w') : Fr m := fun w _ =>
  ⟨hi w, hs w⟩

/-- an action that without observers does nothing (an event that nobody listens to) -/
theorem of_skip {m : W α} {a : α} (h : ∀ (w : World), NoObs w → m w = .ok a w) : Fr m :=
  fun w hno =>
  ⟨fun st => by rw [h w hno, h (w.setStats st) (hno.setStats st)]; rfl,
    fun _ w' hok => by rw [h w hno] at hok; cases hok; exact RStep.refl w⟩

theorem congr {m m' : W α} (h : Fr m) (he : ∀ (w : World), NoObs w → m' w = m w)
    : Fr m' := fun w hno => by
  obtain ⟨h1, h2⟩ := h w hno
  refine ⟨fun st => ?_, fun a w' hok => h2 a w' (by rw [← he w hno]; exact hok)⟩
  rw [he _ (hno.setStats st), he w hno]; exact h1 st

end Fr

theorem FrAt.of_fr {α : Type} {m : W α} (h : Fr m) {w : World} (hno : NoObs w) : FrAt m w := h w hno

/-! ## 2. the storage primitives -/

namespace World

theorem fr_checkLocked : Fr checkLocked :=
  Fr.of_indep_same indep_checkLocked fun w a w' h => by
    unfold checkLocked at h
    split at h
    · cases h
    · injection h with _ h; exact h.symm

theorem fr_checkRelationComponent (c : Comp) : Fr (checkRelationComponent c) :=
  Fr.of_indep_same (indep_checkRelationComponent c) fun w a w' h => by
    unfold checkRelationComponent at h
    split at h
    · injection h with _ h; exact h.symm
    · cases h

theorem fr_checkRelationTarget (t : Ent) : Fr (checkRelationTarget t) :=
  Fr.of_indep_same (indep_checkRelationTarget t) fun w a w' h => by
    unfold checkRelationTarget at h
    split at h
    · cases h
    · injection h with _ h; exact h.symm

theorem fr_preCheck (p : Path) (ids : List Comp) (rels : List RelID) : Fr (preCheck p ids rels) := by
  cases p with
  | unsafe_ =>
    exact Fr.forM' (fun r => Fr.bind (fr_checkRelationTarget r.target)
      fun _ => Fr.bind (fr_checkRelationComponent r.comp) fun _ => Fr.assert _ _) rels
  | map1 =>
    exact Fr.forM' (fun r => Fr.bind (fr_checkRelationTarget r.target)
      fun _ => fr_checkRelationComponent r.comp) rels
  | typed =>
    exact Fr.forM' (fun r => Fr.bind (fr_checkRelationTarget r.target)
      fun _ => Fr.bind (fr_checkRelationComponent r.comp) fun _ => Fr.assert _ _) rels


/-! ### the table lookups -/

theorem rstep_findOrCreateArch {mask : Mask} {w w' : World} {a : Nat}
    (h : findOrCreateArch mask w = .ok a w') : RStep w w' :=
  RStep.of_sstep_obs (SStep.findOrCreateArch h) (findOrCreateArch_untouched h).obs

theorem rstep_createTable {a : Nat} {rels : List RelID} {w w' : World} {t : Nat}
    (h : createTable a rels w = .ok t w') : RStep w w' :=
  RStep.of_sstep_obs (SStep.createTable h) (createTable_untouched h).obs

/-- the three table lookups, on success -/
theorem rstep_lookups :
    (∀ {oldT : Nat} {startMask : Mask} {add : List Comp} {rels : List RelID} {w w' : World}
        {r : Nat × Nat × Mask},
        findOrCreateTableAdd oldT startMask add rels w = .ok r w' → RStep w w') ∧
    (∀ {oldT : Nat} {startMask : Mask} {rem : List Comp} {w w' : World}
        {r : Nat × Nat × Mask × Bool},
        findOrCreateTableRemove oldT startMask rem w = .ok r w' → RStep w w') ∧
    (∀ {oldT : Nat} {startMask : Mask} {add rem : List Comp} {rels : List RelID} {w w' : World}
        {r : Nat × Nat × Mask × Bool},
        findOrCreateTable oldT startMask add rem rels w = .ok r w' → RStep w w') :=
  lookup_induct RStep RStep.trans rstep_findOrCreateArch rstep_createTable

theorem fr_findOrCreateTableAdd (oldT : Nat) (m : Mask) (add : List Comp) (rels : List RelID) :
    Fr (findOrCreateTableAdd oldT m add rels) :=
  Fr.of_indep (indep_findOrCreateTableAdd oldT m add rels) fun _ _ _ h => rstep_lookups.1 h

theorem fr_findOrCreateTableRemove (oldT : Nat) (m : Mask) (rem : List Comp) :
    Fr (findOrCreateTableRemove oldT m rem) :=
  Fr.of_indep (indep_findOrCreateTableRemove oldT m rem) fun _ _ _ h => rstep_lookups.2.1 h

theorem fr_findOrCreateTable (oldT : Nat) (m : Mask) (add rem : List Comp) (rels : List RelID) :
    Fr (findOrCreateTable oldT m add rem rels) :=
  Fr.of_indep (indep_findOrCreateTable oldT m add rem rels) fun _ _ _ h => rstep_lookups.2.2 h

theorem fr_getTable (a : Nat) (rels : List RelID) : Fr (getTable a rels) :=
  Fr.of_indep_same (indep_getTable a rels) fun _ _ _ h => getTable_ok_state h

theorem fr_createTable (a : Nat) (rels : List RelID) : Fr (createTable a rels) :=
  Fr.of_indep (indep_createTable a rels) fun _ _ _ h => rstep_createTable h

theorem fr_getOrCreate (a : Nat) (rels : List RelID) : Fr (getOrCreate a rels) := by
  unfold getOrCreate
  refine Fr.bind (fr_getTable a rels) fun r => ?_
  cases r with
  | some t => exact Fr.pure t
  | none => exact fr_createTable a rels

/-! ### row-level steps -/

theorem fr_placeNew (t : Nat) (rt : Bool) : Fr (placeNew t rt) := fun w _ =>
  ⟨fun st => by
      rw [placeNew_eq, placeNew_eq, placedW_setStats]; rfl,
    fun a w' h => by
      rw [placeNew_eq] at h
      injection h with _ h; subst h
      exact RStep.of_sstep_obs (SStep.placedW w t rt) (placedW_obs w t rt)⟩

theorem fr_registerTargets (rels : List RelID) : Fr (registerTargets rels) :=
  Fr.modify (fun _ _ => rfl) fun _ => RStep.of_eq rfl rfl rfl rfl

theorem fr_writeVals (e : Ent) (vals : List (Comp × Val)) : Fr (writeVals e vals) := fun w _ =>
  ⟨fun st => by
      rw [writeVals_eq, writeVals_eq, writeValsW_setStats]; rfl,
    fun a w' h => by
      rw [writeVals_eq] at h
      injection h with _ h; subst h
      exact RStep.of_sstep_obs (SStep.writeValsW w e vals) (Quiet.writeValsW w e vals).obs⟩

/-- "add `e` to `newT`, then `moveRow`" -/
theorem fr_addMove (e : Ent) (oldT row newT : Nat) (keep : Mask) :
    Fr ((fun w => let (N, i) := (w.tbl newT).add e; Res.ok i (w.setTbl newT N) : W Nat) >>=
      fun newIndex => moveRow e oldT row newT newIndex keep) := fun w _ =>
  ⟨fun st => by
      rw [addMove_eq, addMove_eq, addMove_setStats]; rfl,
    fun a w' h => by
      rw [addMove_eq] at h
      injection h with _ h; subst h
      exact RStep.of_sstep_obs (SStep.addMove w e oldT row newT keep)
        (Quiet.addMove w e oldT row newT keep).obs⟩


/-- … followed by the rest of the operation -/
theorem fr_addMove_bind {β : Type} (e : Ent) (oldT row newT : Nat) (keep : Mask) {f : Unit → W β}
    (hf : ∀ (u : Unit), Fr (f u)) :
    Fr ((fun w => let (N, i) := (w.tbl newT).add e; Res.ok i (w.setTbl newT N) : W Nat) >>=
      fun newIndex => moveRow e oldT row newT newIndex keep >>= f) := by
  have h := Fr.bind (fr_addMove e oldT row newT keep) hf
  exact (M.bind_assoc' (σ := World) _ _ f) ▸ h

end World

end Ark
