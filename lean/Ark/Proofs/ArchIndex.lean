/-
  Ark.Proofs.ArchIndex — the relation indices of an archetype (`relationTables`, `targetTables`
  of archetype.go) stay consistent with the set of active tables and their relation targets
  under table creation, freeing, recycling and target removal (supports C04/C05).
  Kernel-only proofs.
-/
import Ark.Proofs.TableIDs

namespace Ark

/-- The tables stored under a map entry; an absent key means "no table" (the Go code creates
    the entries lazily). -/
def tablesOf : Option TableIDs → List Nat
  | none => []
  | some ts => ts.tables

@[simp] theorem tablesOf_none : tablesOf none = [] := rfl
@[simp] theorem tablesOf_some (ts : TableIDs) : tablesOf (some ts) = ts.tables := rfl

/-- Invariant of one `map[entityID]tableIDs`: unique keys, every stored `tableIDs` is
    well-formed, and table `t` is stored under key `g` exactly when `P g t`. -/
structure MapInv (m : AL TableIDs) (P : Nat → Nat → Prop) : Prop where
  uniq : AL.Uniq m
  wf : ∀ (g : Nat) (ts : TableIDs), AL.find? m g = some ts → ts.WF
  mem : ∀ (g t : Nat), t ∈ tablesOf (AL.find? m g) ↔ P g t

namespace MapInv

theorem nil : MapInv [] (fun _ _ => False) :=
  ⟨AL.uniq_nil, by intro g ts h; simp at h, by intro g t; simp⟩

theorem congr {m : AL TableIDs} {P Q : Nat → Nat → Prop} (h : MapInv m P)
    (hpq : ∀ (g t : Nat), P g t ↔ Q g t) : MapInv m Q :=
  ⟨h.uniq, h.wf, fun g t => (h.mem g t).trans (hpq g t)⟩

/-- Storing a well-formed `tableIDs` under key `g`. -/
theorem insert {m : AL TableIDs} {P : Nat → Nat → Prop} (h : MapInv m P) (g : Nat)
    (ts : TableIDs) (hts : ts.WF) :
    MapInv (AL.insert m g ts) (fun g' t => if g' = g then t ∈ ts.tables else P g' t) where
  uniq := h.uniq.insert _ _
  wf := by
    intro g' ts' hf
    rw [AL.find?_insert] at hf
    by_cases hg : g' = g
    · rw [if_pos hg] at hf; injection hf with hf; subst hf; exact hts
    · rw [if_neg hg] at hf; exact h.wf _ _ hf
  mem := by
    intro g' t
    rw [AL.find?_insert]
    by_cases hg : g' = g
    · rw [if_pos hg, if_pos hg]; rfl
    · rw [if_neg hg, if_neg hg]; exact h.mem g' t

theorem not_of_find?_none {m : AL TableIDs} {P : Nat → Nat → Prop} (h : MapInv m P) {g : Nat}
    (hf : AL.find? m g = none) (t : Nat) : ¬ P g t := by
  intro hp
  have := (h.mem g t).2 hp
  rw [hf] at this
  simp at this

theorem mem_of_find? {m : AL TableIDs} {P : Nat → Nat → Prop} (h : MapInv m P) {g : Nat}
    {ts : TableIDs} (hf : AL.find? m g = some ts) (t : Nat) : t ∈ ts.tables ↔ P g t := by
  have := h.mem g t
  rw [hf] at this
  exact this

end MapInv

/-- `AddTable` on one map: append `tid` to the entry of `g`, creating it if needed. -/
def mapAdd (m : AL TableIDs) (g tid : Nat) : AL TableIDs :=
  match AL.find? m g with
  | some ts => AL.insert m g (ts.append tid)
  | none => AL.insert m g (TableIDs.ofList [tid])

/-- `AddTable` on `targetTables`: as `mapAdd`, but skip when `tid` is already indexed there
    (two relation columns of the table with the same target). -/
def mapAddIfAbsent (m : AL TableIDs) (g tid : Nat) : AL TableIDs :=
  match AL.find? m g with
  | some ts => if ts.hasIndex tid then m else AL.insert m g (ts.append tid)
  | none => AL.insert m g (TableIDs.ofList [tid])

/-- `removeTableRelations` on one map: remove `tid` from the entry of `g` (if any). -/
def mapRemove (m : AL TableIDs) (g tid : Nat) : AL TableIDs :=
  match AL.find? m g with
  | some ts => AL.insert m g (ts.remove tid).1
  | none => m

namespace MapInv

theorem mapAdd {m : AL TableIDs} {P : Nat → Nat → Prop} (h : MapInv m P) (g tid : Nat)
    (hn : ¬ P g tid) :
    MapInv (mapAdd m g tid) (fun g' t => P g' t ∨ (g' = g ∧ t = tid)) := by
  unfold Ark.mapAdd
  cases hf : AL.find? m g with
  | none =>
    refine (h.insert g _ (TableIDs.wf_singleton tid)).congr ?_
    intro g' t
    by_cases hg : g' = g
    · subst hg
      have := h.not_of_find?_none hf t
      simp [TableIDs.ofList_tables, this]
    · simp [hg]
  | some ts =>
    have hnm : tid ∉ ts.tables := fun hm => hn ((h.mem_of_find? hf tid).1 hm)
    refine (h.insert g _ ((h.wf g ts hf).append hnm)).congr ?_
    intro g' t
    by_cases hg : g' = g
    · subst hg
      simp [TableIDs.append_tables, h.mem_of_find? hf t]
    · simp [hg]

theorem mapAddIfAbsent {m : AL TableIDs} {P : Nat → Nat → Prop} (h : MapInv m P) (g tid : Nat) :
    MapInv (mapAddIfAbsent m g tid) (fun g' t => P g' t ∨ (g' = g ∧ t = tid)) := by
  unfold Ark.mapAddIfAbsent
  cases hf : AL.find? m g with
  | none =>
    refine (h.insert g _ (TableIDs.wf_singleton tid)).congr ?_
    intro g' t
    by_cases hg : g' = g
    · subst hg
      have := h.not_of_find?_none hf t
      simp [TableIDs.ofList_tables, this]
    · simp [hg]
  | some ts =>
    by_cases hi : ts.hasIndex tid = true
    · simp only [hi, if_true]
      have hp : P g tid := (h.mem_of_find? hf tid).1 (((h.wf g ts hf).hasIndex_iff tid).1 hi)
      refine h.congr ?_
      intro g' t
      constructor
      · exact Or.inl
      · rintro (h1 | ⟨h1, h2⟩)
        · exact h1
        · subst h1; subst h2; exact hp
    · simp only [hi]
      have hnm : tid ∉ ts.tables := fun hm => hi (((h.wf g ts hf).hasIndex_iff tid).2 hm)
      refine (h.insert g _ ((h.wf g ts hf).append hnm)).congr ?_
      intro g' t
      by_cases hg : g' = g
      · subst hg
        simp [TableIDs.append_tables, h.mem_of_find? hf t]
      · simp [hg]

theorem mapRemove {m : AL TableIDs} {P : Nat → Nat → Prop} (h : MapInv m P) (g tid : Nat) :
    MapInv (mapRemove m g tid) (fun g' t => P g' t ∧ ¬ (g' = g ∧ t = tid)) := by
  unfold Ark.mapRemove
  cases hf : AL.find? m g with
  | none =>
    refine h.congr ?_
    intro g' t
    constructor
    · intro hp
      refine ⟨hp, ?_⟩
      rintro ⟨h1, _⟩
      subst h1
      exact h.not_of_find?_none hf t hp
    · exact fun hp => hp.1
  | some ts =>
    have hw := h.wf g ts hf
    refine (h.insert g _ (hw.remove tid)).congr ?_
    intro g' t
    by_cases hg : g' = g
    · subst hg
      simp [hw.mem_remove, h.mem_of_find? hf t]
    · simp [hg]

/-- `FreeTable` with several relations: remove `tid` from every entry. -/
theorem mapVals_remove {m : AL TableIDs} {P : Nat → Nat → Prop} (h : MapInv m P) (tid : Nat) :
    MapInv (AL.mapVals m fun v => (v.remove tid).1) (fun g t => P g t ∧ t ≠ tid) where
  uniq := h.uniq.mapVals _
  wf := by
    intro g ts hf
    rw [AL.find?_mapVals] at hf
    cases hf' : AL.find? m g with
    | none => rw [hf'] at hf; simp at hf
    | some ts' =>
      rw [hf'] at hf
      simp at hf
      subst hf
      exact (h.wf g ts' hf').remove tid
  mem := by
    intro g t
    rw [AL.find?_mapVals]
    cases hf' : AL.find? m g with
    | none =>
      simp
      intro hp
      exact absurd hp (h.not_of_find?_none hf' t)
    | some ts' =>
      simp [(h.wf g ts' hf').mem_remove, h.mem_of_find? hf' t]

/-- `RemoveTarget`: drop the entry of `g`. -/
theorem erase {m : AL TableIDs} {P : Nat → Nat → Prop} (h : MapInv m P) (g : Nat) :
    MapInv (AL.erase m g) (fun g' t => P g' t ∧ g' ≠ g) where
  uniq := h.uniq.erase _
  wf := by
    intro g' ts hf
    rw [AL.find?_erase] at hf
    by_cases hg : g' = g
    · rw [if_pos hg] at hf; cases hf
    · rw [if_neg hg] at hf; exact h.wf _ _ hf
  mem := by
    intro g' t
    rw [AL.find?_erase]
    by_cases hg : g' = g
    · rw [if_pos hg]; simp [hg]
    · rw [if_neg hg]; simp [hg, h.mem g' t]

end MapInv

namespace Archetype

/-! ## The invariant -/

/-- Structural part: the table lists and the column metadata. -/
structure Struct (a : Archetype) : Prop where
  tablesWF : a.tables.WF
  freeNodup : a.freeTables.Nodup
  disjoint : ∀ (t : Nat), t ∈ a.tables.tables → t ∉ a.freeTables
  lenRel : a.relationTables.length = a.comps.length
  lenIsRel : a.isRel.length = a.comps.length
  numRelEq : a.numRel = (a.isRel.filter fun b => b).length

/-- Index part, relative to membership predicates: `R i g t` — "table `t` is listed in
    `relationTables[i][g]`", `T g t` — "table `t` is listed in `targetTables[g]`". -/
structure MapsInv (a : Archetype) (R : Nat → Nat → Nat → Prop) (T : Nat → Nat → Prop) :
    Prop where
  rel : ∀ (i : Nat), a.isRel.getD i false = true → MapInv (a.relationTables.getD i []) (R i)
  nonRel : ∀ (i : Nat), a.isRel.getD i false = false → a.relationTables.getD i [] = []
  target : MapInv a.targetTables T

/-- Table `t` is active and its column `i` targets ID `g`. -/
def relP (a : Archetype) (tgt : Nat → List Ent) (i g t : Nat) : Prop :=
  t ∈ a.tables.tables ∧ ((tgt t).getD i Ent.zero).id = g

/-- Table `t` is active and some relation column of it targets ID `g`. -/
def tgtP (a : Archetype) (tgt : Nat → List Ent) (g t : Nat) : Prop :=
  t ∈ a.tables.tables ∧ ∃ (i : Nat), a.isRel.getD i false = true ∧ ((tgt t).getD i Ent.zero).id = g

/-- The index invariant of an archetype relative to `tgt`, the per-column relation targets of
    each table (`fun t => world.tables[t].targets` in the full model).
    Fields (flattened): `tablesWF`, `freeNodup`, `disjoint`, `lenRel`, `lenIsRel`, `numRelEq`,
    `rel` (for a relation column `i`: `relationTables[i]` has unique keys, stores well-formed
    `tableIDs`, and lists `t` under `g` iff `t` is active and its column `i` targets `g`),
    `nonRel` (`relationTables[i] = []` for other columns), `target` (the same for
    `targetTables` and "some relation column of `t` targets `g`"). -/
structure IndexInv (a : Archetype) (tgt : Nat → List Ent) : Prop
  extends Struct a, MapsInv a (relP a tgt) (tgtP a tgt)

theorem MapsInv.congr {a : Archetype} {R R' : Nat → Nat → Nat → Prop} {T T' : Nat → Nat → Prop}
    (h : MapsInv a R T)
    (hr : ∀ (i : Nat), a.isRel.getD i false = true → ∀ (g t : Nat), R i g t ↔ R' i g t)
    (ht : ∀ (g t : Nat), T g t ↔ T' g t) : MapsInv a R' T' :=
  ⟨fun i hi => (h.rel i hi).congr (hr i hi), h.nonRel, h.target.congr ht⟩

/-- A relation column is a column. -/
theorem isRel_lt {a : Archetype} {i : Nat} (h : a.isRel.getD i false = true) :
    i < a.isRel.length := by
  by_cases hi : i < a.isRel.length
  · exact hi
  · rw [List.getD_eq_getElem?_getD, List.getElem?_eq_none (by omega)] at h
    simp at h

/-- `a'` differs from `a` at most in the contents of the two index maps. -/
structure SameShape (a a' : Archetype) : Prop where
  comps : a'.comps = a.comps
  isRel : a'.isRel = a.isRel
  numRel : a'.numRel = a.numRel
  tables : a'.tables = a.tables
  freeTables : a'.freeTables = a.freeTables
  lenRel : a'.relationTables.length = a.relationTables.length

theorem SameShape.refl (a : Archetype) : SameShape a a := ⟨rfl, rfl, rfl, rfl, rfl, rfl⟩

theorem SameShape.trans {a b c : Archetype} (h1 : SameShape a b) (h2 : SameShape b c) :
    SameShape a c :=
  ⟨h2.comps.trans h1.comps, h2.isRel.trans h1.isRel, h2.numRel.trans h1.numRel,
   h2.tables.trans h1.tables, h2.freeTables.trans h1.freeTables, h2.lenRel.trans h1.lenRel⟩

theorem Struct.of_sameShape {a a' : Archetype} (h : Struct a) (s : SameShape a a') :
    Struct a' := by
  refine ⟨?_, ?_, ?_, ?_, ?_, ?_⟩
  · rw [s.tables]; exact h.tablesWF
  · rw [s.freeTables]; exact h.freeNodup
  · rw [s.tables, s.freeTables]; exact h.disjoint
  · rw [s.lenRel, s.comps]; exact h.lenRel
  · rw [s.isRel, s.comps]; exact h.lenIsRel
  · rw [s.numRel, s.isRel]; exact h.numRelEq

theorem getD_set {α : Type} (l : List α) (k i : Nat) (v d : α) :
    (l.set k v).getD i d = if i = k ∧ k < l.length then v else l.getD i d := by
  simp only [List.getD_eq_getElem?_getD, List.getElem?_set]
  by_cases h1 : k = i
  · subst h1
    by_cases h2 : k < l.length
    · simp [h2]
    · simp [h2]
  · have : ¬ i = k := fun e => h1 e.symm
    simp [h1, this]

/-! ## (1) a new archetype -/

theorem struct_new (id : Nat) (mask : Mask) (comps : List Comp) (isRel zst : List Bool)
    (hlen : isRel.length = comps.length) : Struct (Archetype.new id mask comps isRel zst []) :=
  ⟨TableIDs.wf_empty, List.nodup_nil, by intro t h; simp [Archetype.new, TableIDs.ofList] at h,
   by simp [Archetype.new], hlen, rfl⟩

/-- (1) A freshly created archetype (no tables) satisfies the invariant. -/
theorem indexInv_new (id : Nat) (mask : Mask) (comps : List Comp) (isRel zst : List Bool)
    (hlen : isRel.length = comps.length) (tgt : Nat → List Ent) :
    IndexInv (Archetype.new id mask comps isRel zst []) tgt := by
  have hempty : ∀ (i : Nat), (comps.map fun _ => ([] : AL TableIDs)).getD i [] = [] := by
    intro i
    rw [List.getD_eq_getElem?_getD, List.getElem?_map]
    cases comps[i]? <;> rfl
  have hno : ∀ (t : Nat), t ∉ (Archetype.new id mask comps isRel zst []).tables.tables := by
    intro t h; simp [Archetype.new, TableIDs.ofList] at h
  refine { struct_new id mask comps isRel zst hlen with rel := ?_, nonRel := ?_, target := ?_ }
  · intro i _
    show MapInv ((comps.map fun _ => ([] : AL TableIDs)).getD i []) _
    rw [hempty]
    exact MapInv.nil.congr (fun g t => ⟨False.elim, fun h => hno t h.1⟩)
  · intro i _; exact hempty i
  · exact MapInv.nil.congr (fun g t => ⟨False.elim, fun h => hno t h.1⟩)

/-- Without relation columns there is no relation column. -/
theorem Struct.no_rel {a : Archetype} (h : Struct a) (h0 : a.numRel = 0) (i : Nat) :
    a.isRel.getD i false ≠ true := by
  intro hi
  have hlt := isRel_lt hi
  rw [List.getD_eq_getElem?_getD, List.getElem?_eq_getElem hlt] at hi
  simp at hi
  have hm : true ∈ a.isRel.filter fun b => b := by
    rw [List.mem_filter]; exact ⟨hi ▸ List.getElem_mem hlt, rfl⟩
  have := h.numRelEq
  rw [h0] at this
  rw [List.eq_nil_of_length_eq_zero this.symm] at hm
  simp at hm

theorem Struct.hasRelations_of_rel {a : Archetype} (h : Struct a) {i : Nat}
    (hi : a.isRel.getD i false = true) : a.hasRelations = true := by
  unfold hasRelations
  have : a.numRel ≠ 0 := fun h0 => h.no_rel h0 i hi
  simp; omega

/-! ## (2) `AddTable` -/

/-- One column of `AddTable`. -/
def addStep (tid : Nat) (targets : List Ent) (a : Archetype) (i : Nat) : Archetype :=
  if !(a.isRel.getD i false) then a else
  { a with
    relationTables :=
      a.relationTables.set i (mapAdd (a.relationTables.getD i []) (targets.getD i Ent.zero).id tid)
    targetTables := mapAddIfAbsent a.targetTables (targets.getD i Ent.zero).id tid }

theorem addTable_eq (a : Archetype) (tid : Nat) (targets : List Ent) :
    a.addTable tid targets =
      if !a.hasRelations then { a with tables := a.tables.append tid }
      else (List.range a.comps.length).foldl (addStep tid targets)
        { a with tables := a.tables.append tid } := rfl

theorem addStep_sameShape (tid : Nat) (targets : List Ent) (a : Archetype) (k : Nat) :
    SameShape a (addStep tid targets a k) := by
  unfold addStep
  split
  · exact SameShape.refl a
  · exact ⟨rfl, rfl, rfl, rfl, rfl, by simp⟩

theorem addStep_maps (tid : Nat) (targets : List Ent) {a : Archetype}
    {R : Nat → Nat → Nat → Prop} {T : Nat → Nat → Prop} (h : MapsInv a R T)
    (hlen : a.relationTables.length = a.isRel.length) (k : Nat)
    (hn : a.isRel.getD k false = true → ¬ R k (targets.getD k Ent.zero).id tid) :
    MapsInv (addStep tid targets a k)
      (fun i g t => R i g t ∨ (i = k ∧ g = (targets.getD k Ent.zero).id ∧ t = tid))
      (fun g t => T g t ∨
        (a.isRel.getD k false = true ∧ g = (targets.getD k Ent.zero).id ∧ t = tid)) := by
  by_cases hk : a.isRel.getD k false = true
  · have hklt : k < a.relationTables.length := hlen ▸ isRel_lt hk
    have he : addStep tid targets a k = { a with
        relationTables := a.relationTables.set k
          (mapAdd (a.relationTables.getD k []) (targets.getD k Ent.zero).id tid)
        targetTables := mapAddIfAbsent a.targetTables (targets.getD k Ent.zero).id tid } := by
      unfold addStep; rw [if_neg (by rw [hk]; decide)]
    rw [he]
    refine ⟨?_, ?_, ?_⟩
    · intro i hi
      show MapInv ((a.relationTables.set k _).getD i []) _
      rw [getD_set]
      by_cases hik : i = k
      · subst hik
        rw [if_pos ⟨rfl, hklt⟩]
        refine ((h.rel i hk).mapAdd _ tid (hn hk)).congr ?_
        intro g t
        simp
      · rw [if_neg (fun hh => hik hh.1)]
        refine (h.rel i hi).congr ?_
        intro g t
        simp [hik]
    · intro i hi
      show (a.relationTables.set k _).getD i [] = []
      rw [getD_set]
      have hik : i ≠ k := by
        intro e; subst e
        change a.isRel.getD i false = false at hi
        rw [hk] at hi; cases hi
      rw [if_neg (fun hh => hik hh.1)]
      exact h.nonRel i hi
    · refine (h.target.mapAddIfAbsent _ tid).congr ?_
      intro g t
      constructor
      · rintro (h1 | ⟨h1, h2⟩)
        · exact Or.inl h1
        · exact Or.inr ⟨hk, h1, h2⟩
      · rintro (h1 | ⟨_, h1, h2⟩)
        · exact Or.inl h1
        · exact Or.inr ⟨h1, h2⟩
  · have he : addStep tid targets a k = a := by
      unfold addStep; rw [if_pos (by simpa using hk)]
    rw [he]
    refine h.congr ?_ ?_
    · intro i hi g t
      have hik : i ≠ k := by intro e; subst e; exact hk hi
      simp [hik]
    · intro g t
      constructor
      · exact Or.inl
      · rintro (h1 | ⟨h1, _⟩)
        · exact h1
        · exact absurd h1 hk

theorem addFold (tid : Nat) (targets : List Ent) {a : Archetype}
    {R : Nat → Nat → Nat → Prop} {T : Nat → Nat → Prop} (h : MapsInv a R T)
    (hlen : a.relationTables.length = a.isRel.length)
    (hn : ∀ (i : Nat), a.isRel.getD i false = true → ¬ R i (targets.getD i Ent.zero).id tid)
    (n : Nat) :
    SameShape a ((List.range n).foldl (addStep tid targets) a) ∧
    MapsInv ((List.range n).foldl (addStep tid targets) a)
      (fun i g t => R i g t ∨ (i < n ∧ g = (targets.getD i Ent.zero).id ∧ t = tid))
      (fun g t => T g t ∨ ∃ (i : Nat), i < n ∧ a.isRel.getD i false = true ∧
        g = (targets.getD i Ent.zero).id ∧ t = tid) := by
  induction n with
  | zero =>
    refine ⟨SameShape.refl a, ?_⟩
    simp only [List.range_zero, List.foldl_nil]
    exact h.congr (fun i _ g t => by simp) (fun g t => by simp)
  | succ n ih =>
    obtain ⟨hs, hm⟩ := ih
    rw [List.range_succ, List.foldl_append]
    simp only [List.foldl_cons, List.foldl_nil]
    refine ⟨hs.trans (addStep_sameShape _ _ _ _), ?_⟩
    have hlen' : ((List.range n).foldl (addStep tid targets) a).relationTables.length =
        ((List.range n).foldl (addStep tid targets) a).isRel.length := by
      rw [hs.lenRel, hs.isRel]; exact hlen
    have hstep := addStep_maps tid targets hm hlen' n (by
      intro hrel
      rw [hs.isRel] at hrel
      rintro (h1 | ⟨h1, _⟩)
      · exact hn n hrel h1
      · omega)
    rw [hs.isRel] at hstep
    refine hstep.congr ?_ ?_
    · intro i _ g t
      constructor
      · rintro ((h1 | ⟨h1, h2⟩) | ⟨h1, h2⟩)
        · exact Or.inl h1
        · exact Or.inr ⟨by omega, h2⟩
        · subst h1; exact Or.inr ⟨by omega, h2⟩
      · rintro (h1 | ⟨h1, h2⟩)
        · exact Or.inl (Or.inl h1)
        · by_cases hin : i = n
          · subst hin; exact Or.inr ⟨rfl, h2⟩
          · exact Or.inl (Or.inr ⟨by omega, h2⟩)
    · intro g t
      constructor
      · rintro ((h1 | ⟨i, h1, h2⟩) | h2)
        · exact Or.inl h1
        · exact Or.inr ⟨i, by omega, h2⟩
        · exact Or.inr ⟨n, by omega, h2⟩
      · rintro (h1 | ⟨i, h1, h2⟩)
        · exact Or.inl (Or.inl h1)
        · by_cases hin : i = n
          · subst hin; exact Or.inr h2
          · exact Or.inl (Or.inr ⟨i, by omega, h2⟩)

/-- (2) `AddTable tid targets` keeps the invariant, for the target function updated at `tid`,
    when `tid` is neither an active nor a free table of the archetype. -/
theorem IndexInv.addTable {a : Archetype} {tgt : Nat → List Ent} (h : IndexInv a tgt)
    (tid : Nat) (targets : List Ent) (hact : tid ∉ a.tables.tables) (hfree : tid ∉ a.freeTables) :
    IndexInv (a.addTable tid targets) (fun t => if t = tid then targets else tgt t) := by
  have hs0 : Struct { a with tables := a.tables.append tid } := by
    refine ⟨h.tablesWF.append hact, h.freeNodup, ?_, h.lenRel, h.lenIsRel, h.numRelEq⟩
    intro t ht
    rw [show ({ a with tables := a.tables.append tid } : Archetype).tables.tables
        = a.tables.tables ++ [tid] from rfl] at ht
    rcases List.mem_append.1 ht with h1 | h1
    · exact h.disjoint t h1
    · rw [List.mem_singleton.1 h1]; exact hfree
  have hm0 : MapsInv { a with tables := a.tables.append tid } (relP a tgt) (tgtP a tgt) :=
    ⟨h.rel, h.nonRel, h.target⟩
  have hlenR : a.relationTables.length = a.isRel.length := h.lenRel.trans h.lenIsRel.symm
  -- the final membership predicates, for any `a'` of the same shape as the appended archetype
  have hfinal : ∀ (a' : Archetype), SameShape { a with tables := a.tables.append tid } a' →
      MapsInv a'
        (fun i g t => relP a tgt i g t ∨
          (i < a.comps.length ∧ g = (targets.getD i Ent.zero).id ∧ t = tid))
        (fun g t => tgtP a tgt g t ∨ ∃ (i : Nat), i < a.comps.length ∧
          a.isRel.getD i false = true ∧ g = (targets.getD i Ent.zero).id ∧ t = tid) →
      IndexInv a' (fun t => if t = tid then targets else tgt t) := by
    intro a' hs hm
    have htab : ∀ (t : Nat), t ∈ a'.tables.tables ↔ t ∈ a.tables.tables ∨ t = tid := by
      intro t; rw [hs.tables]
      show t ∈ a.tables.tables ++ [tid] ↔ _
      simp
    refine { hs0.of_sameShape hs with rel := ?_, nonRel := ?_, target := ?_ }
    · intro i hi
      refine (hm.rel i hi).congr ?_
      intro g t
      rw [hs.isRel] at hi
      have hil : i < a.comps.length := h.lenIsRel ▸ isRel_lt hi
      unfold relP
      rw [htab]
      by_cases ht : t = tid
      · subst ht
        simp [hact, hil, eq_comm]
      · simp [ht]
    · exact hm.nonRel
    · refine hm.target.congr ?_
      intro g t
      unfold tgtP
      rw [htab, hs.isRel]
      by_cases ht : t = tid
      · subst ht
        simp only [hact, false_and, false_or, true_and, or_true, if_true]
        constructor
        · rintro ⟨i, _, h1, h2, _⟩; exact ⟨i, h1, h2.symm⟩
        · rintro ⟨i, h1, h2⟩
          exact ⟨i, h.lenIsRel ▸ isRel_lt h1, h1, h2.symm, trivial⟩
      · simp [ht]
  rw [addTable_eq]
  by_cases hr : a.hasRelations = true
  · rw [if_neg (by simp [hr])]
    obtain ⟨hs, hm⟩ := addFold tid targets hm0 hlenR (fun i _ hh => hact hh.1) a.comps.length
    exact hfinal _ hs hm
  · rw [if_pos (by simpa using hr)]
    have h0 : a.numRel = 0 := by
      unfold hasRelations at hr; simp at hr; exact hr
    refine hfinal _ (SameShape.refl _) (hm0.congr ?_ ?_)
    · intro i hi
      exact absurd hi (h.toStruct.no_rel h0 i)
    · intro g t
      constructor
      · exact Or.inl
      · rintro (h1 | ⟨i, _, h1, _⟩)
        · exact h1
        · exact absurd h1 (h.toStruct.no_rel h0 i)

/-! ## (5) `GetTables` -/

theorem getTables_nil (a : Archetype) : a.getTables [] = some a.tables.tables := by
  unfold getTables; split <;> rfl

theorem getTables_noRel (a : Archetype) (h0 : a.numRel = 0) (rels : List RelID) :
    a.getTables rels = some a.tables.tables := by
  unfold getTables
  rw [if_pos (by simp [hasRelations, h0])]

/-- The Go runtime panic: the first relation's component is not a column. -/
theorem getTables_noColumn (a : Archetype) (hr : a.hasRelations = true) (r : RelID)
    (rest : List RelID) (hc : a.colIdx r.comp = none) : a.getTables (r :: rest) = none := by
  unfold getTables
  rw [if_neg (by simp [hr])]
  simp only [hc]

theorem getTables_col (a : Archetype) (hr : a.hasRelations = true) (r : RelID)
    (rest : List RelID) (i : Nat) (hc : a.colIdx r.comp = some i) :
    a.getTables (r :: rest) =
      some (tablesOf (AL.find? (a.relationTables.getD i []) r.target.id)) := by
  unfold getTables
  rw [if_neg (by simp [hr])]
  simp only [hc]
  cases AL.find? (a.relationTables.getD i []) r.target.id <;> rfl

/-- (5) Under the invariant, `GetTables` for a first relation on relation column `i` returns
    exactly the active tables whose column `i` targets `r.target.id`, without duplicates. -/
theorem IndexInv.getTables_complete {a : Archetype} {tgt : Nat → List Ent} (h : IndexInv a tgt)
    (r : RelID) (rest : List RelID) (i : Nat) (hc : a.colIdx r.comp = some i)
    (hi : a.isRel.getD i false = true) :
    ∃ (ts : List Nat), a.getTables (r :: rest) = some ts ∧ ts.Nodup ∧
      ∀ (t : Nat), t ∈ ts ↔
        t ∈ a.tables.tables ∧ ((tgt t).getD i Ent.zero).id = r.target.id := by
  refine ⟨_, getTables_col a (h.toStruct.hasRelations_of_rel hi) r rest i hc, ?_, ?_⟩
  · cases hf : AL.find? (a.relationTables.getD i []) r.target.id with
    | none => exact List.nodup_nil
    | some ts => exact ((h.rel i hi).wf _ ts hf).nodup
  · intro t
    exact (h.rel i hi).mem r.target.id t

/-- (5) With no relations given, or for an archetype without relation columns, `GetTables`
    returns all active tables (without duplicates). -/
theorem IndexInv.getTables_all {a : Archetype} {tgt : Nat → List Ent} (h : IndexInv a tgt)
    (rels : List RelID) (hr : rels = [] ∨ a.numRel = 0) :
    a.getTables rels = some a.tables.tables ∧ a.tables.tables.Nodup := by
  refine ⟨?_, h.tablesWF.nodup⟩
  rcases hr with hr | hr
  · subst hr; exact getTables_nil a
  · exact getTables_noRel a hr rels

/-- A first relation on a non-relation column finds nothing (Go: lookup in a nil map). -/
theorem IndexInv.getTables_nonRelCol {a : Archetype} {tgt : Nat → List Ent} (h : IndexInv a tgt)
    (hr : a.hasRelations = true) (r : RelID) (rest : List RelID) (i : Nat)
    (hc : a.colIdx r.comp = some i) (hi : a.isRel.getD i false = false) :
    a.getTables (r :: rest) = some [] := by
  rw [getTables_col a hr r rest i hc, h.nonRel i hi]; rfl

/-! ## (4) `GetFreeTable` -/

theorem eq_dropLast_append_of_getLast? (l : List Nat) (x : Nat) (h : l.getLast? = some x) :
    l = l.dropLast ++ [x] := by
  have hne : l ≠ [] := by intro e; subst e; simp at h
  rw [List.getLast?_eq_some_getLast hne] at h
  injection h with h; subst h; exact (List.dropLast_concat_getLast hne).symm

/-- (4) `GetFreeTable` pops the last free table and keeps the invariant; the popped table is
    afterwards neither free nor active, so it can be handed to `AddTable`. -/
theorem IndexInv.getFreeTable {a : Archetype} {tgt : Nat → List Ent} (h : IndexInv a tgt)
    {a' : Archetype} {t : Nat} (hg : a.getFreeTable = some (a', t)) :
    IndexInv a' tgt ∧ a.freeTables = a'.freeTables ++ [t] ∧ a'.tables = a.tables ∧
      t ∉ a'.freeTables ∧ t ∉ a'.tables.tables := by
  unfold Archetype.getFreeTable at hg
  cases hl : a.freeTables.getLast? with
  | none => rw [hl] at hg; cases hg
  | some x =>
    rw [hl] at hg
    injection hg with hg
    injection hg with ha ht
    subst ht
    subst ha
    have hsplit : a.freeTables = a.freeTables.dropLast ++ [x] :=
      eq_dropLast_append_of_getLast? _ x hl
    have hnd := h.freeNodup
    rw [hsplit] at hnd
    have hnd' := List.nodup_append.1 hnd
    have hxfree : x ∈ a.freeTables := by rw [hsplit]; simp
    refine ⟨?_, hsplit, rfl, ?_, ?_⟩
    · refine { rel := h.rel, nonRel := h.nonRel, target := h.target, tablesWF := h.tablesWF,
               freeNodup := hnd'.1, disjoint := ?_, lenRel := h.lenRel, lenIsRel := h.lenIsRel,
               numRelEq := h.numRelEq }
      intro t ht hm
      exact h.disjoint t ht (by rw [hsplit]; exact List.mem_append_left _ hm)
    · intro hm
      exact hnd'.2.2 x hm x (List.mem_singleton.2 rfl) rfl
    · intro hm
      exact h.disjoint x hm hxfree

/-- Recycling: `GetFreeTable` followed by `AddTable` of the popped table keeps the invariant. -/
theorem IndexInv.recycle {a : Archetype} {tgt : Nat → List Ent} (h : IndexInv a tgt)
    {a' : Archetype} {t : Nat} (hg : a.getFreeTable = some (a', t)) (targets : List Ent) :
    IndexInv (a'.addTable t targets) (fun t' => if t' = t then targets else tgt t') := by
  obtain ⟨h', _, _, hf, ha⟩ := h.getFreeTable hg
  exact h'.addTable t targets ha hf

/-! ## (3) `FreeTable`, `removeTableRelations`, `RemoveTarget` -/

theorem getD_map_nil {ν : Type} (l : List (AL ν)) (f : AL ν → AL ν) (hf : f [] = []) (i : Nat) :
    (l.map f).getD i [] = f (l.getD i []) := by
  rw [List.getD_eq_getElem?_getD, List.getD_eq_getElem?_getD, List.getElem?_map]
  cases l[i]? with
  | none => exact hf.symm
  | some v => rfl

theorem freeTable_eq (a : Archetype) (tid : Nat) :
    a.freeTable tid =
      if a.numRel ≤ 1 then
        { a with tables := (a.tables.remove tid).1, freeTables := a.freeTables ++ [tid] }
      else
        { a with
          tables := (a.tables.remove tid).1, freeTables := a.freeTables ++ [tid]
          relationTables := a.relationTables.map fun m => m.mapVals fun v => (v.remove tid).1
          targetTables := a.targetTables.mapVals fun v => (v.remove tid).1 } := rfl

theorem freeTable_tables (a : Archetype) (tid : Nat) :
    (a.freeTable tid).tables = (a.tables.remove tid).1 := by
  rw [freeTable_eq]; split <;> rfl

theorem freeTable_freeTables (a : Archetype) (tid : Nat) :
    (a.freeTable tid).freeTables = a.freeTables ++ [tid] := by
  rw [freeTable_eq]; split <;> rfl

theorem freeTable_isRel (a : Archetype) (tid : Nat) : (a.freeTable tid).isRel = a.isRel := by
  rw [freeTable_eq]; split <;> rfl

theorem freeTable_numRel (a : Archetype) (tid : Nat) : (a.freeTable tid).numRel = a.numRel := by
  rw [freeTable_eq]; split <;> rfl

theorem freeTable_comps (a : Archetype) (tid : Nat) : (a.freeTable tid).comps = a.comps := by
  rw [freeTable_eq]; split <;> rfl

theorem freeTable_lenRel (a : Archetype) (tid : Nat) :
    (a.freeTable tid).relationTables.length = a.relationTables.length := by
  rw [freeTable_eq]; split
  · rfl
  · simp

/-- `FreeTable` keeps the structural part: `tid` leaves the active tables and becomes free. -/
theorem Struct.freeTable {a : Archetype} (h : Struct a) (tid : Nat) (hfree : tid ∉ a.freeTables) :
    Struct (a.freeTable tid) := by
  refine ⟨?_, ?_, ?_, ?_, ?_, ?_⟩
  · rw [freeTable_tables]; exact h.tablesWF.remove tid
  · rw [freeTable_freeTables]
    refine List.nodup_append.2 ⟨h.freeNodup, by simp, ?_⟩
    intro x hx y hy e
    rw [List.mem_singleton.1 hy] at e
    exact hfree (e ▸ hx)
  · intro t ht
    rw [freeTable_tables, h.tablesWF.mem_remove] at ht
    rw [freeTable_freeTables]
    intro hm
    rcases List.mem_append.1 hm with h1 | h1
    · exact h.disjoint t ht.1 h1
    · exact ht.2 (List.mem_singleton.1 h1)
  · rw [freeTable_lenRel, freeTable_comps]; exact h.lenRel
  · rw [freeTable_isRel, freeTable_comps]; exact h.lenIsRel
  · rw [freeTable_numRel, freeTable_isRel]; exact h.numRelEq

/-- `FreeTable` on the index maps: with at most one relation column they are untouched, with
    several `tid` is removed from every entry. -/
theorem MapsInv.freeTable {a : Archetype} {R : Nat → Nat → Nat → Prop} {T : Nat → Nat → Prop}
    (h : MapsInv a R T) (tid : Nat) :
    MapsInv (a.freeTable tid) (fun i g t => R i g t ∧ (a.numRel ≤ 1 ∨ t ≠ tid))
      (fun g t => T g t ∧ (a.numRel ≤ 1 ∨ t ≠ tid)) := by
  rw [freeTable_eq]
  by_cases hn : a.numRel ≤ 1
  · rw [if_pos hn]
    have h' : MapsInv ({ a with
        tables := (a.tables.remove tid).1
        freeTables := a.freeTables ++ [tid] } : Archetype) R T := ⟨h.rel, h.nonRel, h.target⟩
    exact h'.congr (fun i _ g t => by simp [hn]) (fun g t => by simp [hn])
  · rw [if_neg hn]
    refine ⟨?_, ?_, ?_⟩
    · intro i hi
      show MapInv ((a.relationTables.map fun m => m.mapVals fun v => (v.remove tid).1).getD i []) _
      rw [getD_map_nil _ _ rfl]
      exact ((h.rel i hi).mapVals_remove tid).congr (fun g t => by simp [hn])
    · intro i hi
      show (a.relationTables.map fun m => m.mapVals fun v => (v.remove tid).1).getD i [] = []
      rw [getD_map_nil _ _ rfl, h.nonRel i hi]; rfl
    · exact (h.target.mapVals_remove tid).congr (fun g t => by simp [hn])

/-- One column of `removeTableRelations`. -/
def remStep (tid : Nat) (targets : List Ent) (a : Archetype) (i : Nat) : Archetype :=
  if !(a.isRel.getD i false) then a else
  { a with
    relationTables :=
      a.relationTables.set i
        (mapRemove (a.relationTables.getD i []) (targets.getD i Ent.zero).id tid)
    targetTables := mapRemove a.targetTables (targets.getD i Ent.zero).id tid }

theorem removeTableRelations_eq (a : Archetype) (tid : Nat) (targets : List Ent) :
    a.removeTableRelations tid targets =
      (List.range a.comps.length).foldl (remStep tid targets) a := rfl

theorem remStep_sameShape (tid : Nat) (targets : List Ent) (a : Archetype) (k : Nat) :
    SameShape a (remStep tid targets a k) := by
  unfold remStep
  split
  · exact SameShape.refl a
  · exact ⟨rfl, rfl, rfl, rfl, rfl, by simp⟩

theorem remStep_maps (tid : Nat) (targets : List Ent) {a : Archetype}
    {R : Nat → Nat → Nat → Prop} {T : Nat → Nat → Prop} (h : MapsInv a R T)
    (hlen : a.relationTables.length = a.isRel.length) (k : Nat) :
    MapsInv (remStep tid targets a k)
      (fun i g t => R i g t ∧ ¬ (i = k ∧ g = (targets.getD k Ent.zero).id ∧ t = tid))
      (fun g t => T g t ∧
        ¬ (a.isRel.getD k false = true ∧ g = (targets.getD k Ent.zero).id ∧ t = tid)) := by
  by_cases hk : a.isRel.getD k false = true
  · have hklt : k < a.relationTables.length := hlen ▸ isRel_lt hk
    have he : remStep tid targets a k = { a with
        relationTables := a.relationTables.set k
          (mapRemove (a.relationTables.getD k []) (targets.getD k Ent.zero).id tid)
        targetTables := mapRemove a.targetTables (targets.getD k Ent.zero).id tid } := by
      unfold remStep; rw [if_neg (by rw [hk]; decide)]
    rw [he]
    refine ⟨?_, ?_, ?_⟩
    · intro i hi
      show MapInv ((a.relationTables.set k _).getD i []) _
      rw [getD_set]
      by_cases hik : i = k
      · subst hik
        rw [if_pos ⟨rfl, hklt⟩]
        refine ((h.rel i hk).mapRemove _ tid).congr ?_
        intro g t
        simp
      · rw [if_neg (fun hh => hik hh.1)]
        refine (h.rel i hi).congr ?_
        intro g t
        simp [hik]
    · intro i hi
      show (a.relationTables.set k _).getD i [] = []
      rw [getD_set]
      have hik : i ≠ k := by
        intro e; subst e
        change a.isRel.getD i false = false at hi
        rw [hk] at hi; cases hi
      rw [if_neg (fun hh => hik hh.1)]
      exact h.nonRel i hi
    · refine (h.target.mapRemove _ tid).congr ?_
      intro g t
      constructor
      · rintro ⟨h1, h2⟩; exact ⟨h1, fun hh => h2 ⟨hh.2.1, hh.2.2⟩⟩
      · rintro ⟨h1, h2⟩; exact ⟨h1, fun hh => h2 ⟨hk, hh.1, hh.2⟩⟩
  · have he : remStep tid targets a k = a := by
      unfold remStep; rw [if_pos (by simpa using hk)]
    rw [he]
    refine h.congr ?_ ?_
    · intro i hi g t
      have hik : i ≠ k := by intro e; subst e; exact hk hi
      simp [hik]
    · intro g t
      constructor
      · intro h1; exact ⟨h1, fun hh => hk hh.1⟩
      · exact fun h1 => h1.1

theorem remFold (tid : Nat) (targets : List Ent) {a : Archetype}
    {R : Nat → Nat → Nat → Prop} {T : Nat → Nat → Prop} (h : MapsInv a R T)
    (hlen : a.relationTables.length = a.isRel.length) (n : Nat) :
    SameShape a ((List.range n).foldl (remStep tid targets) a) ∧
    MapsInv ((List.range n).foldl (remStep tid targets) a)
      (fun i g t => R i g t ∧ ¬ (i < n ∧ g = (targets.getD i Ent.zero).id ∧ t = tid))
      (fun g t => T g t ∧ ¬ ∃ (i : Nat), i < n ∧ a.isRel.getD i false = true ∧
        g = (targets.getD i Ent.zero).id ∧ t = tid) := by
  induction n with
  | zero =>
    refine ⟨SameShape.refl a, ?_⟩
    simp only [List.range_zero, List.foldl_nil]
    exact h.congr (fun i _ g t => by simp) (fun g t => by simp)
  | succ n ih =>
    obtain ⟨hs, hm⟩ := ih
    rw [List.range_succ, List.foldl_append]
    simp only [List.foldl_cons, List.foldl_nil]
    refine ⟨hs.trans (remStep_sameShape _ _ _ _), ?_⟩
    have hlen' : ((List.range n).foldl (remStep tid targets) a).relationTables.length =
        ((List.range n).foldl (remStep tid targets) a).isRel.length := by
      rw [hs.lenRel, hs.isRel]; exact hlen
    have hstep := remStep_maps tid targets hm hlen' n
    rw [hs.isRel] at hstep
    refine hstep.congr ?_ ?_
    · intro i _ g t
      constructor
      · rintro ⟨⟨h1, h2⟩, h3⟩
        refine ⟨h1, ?_⟩
        rintro ⟨h4, h5⟩
        by_cases hin : i = n
        · subst hin; exact h3 ⟨rfl, h5⟩
        · exact h2 ⟨by omega, h5⟩
      · rintro ⟨h1, h2⟩
        refine ⟨⟨h1, fun hh => h2 ⟨by omega, hh.2⟩⟩, ?_⟩
        rintro ⟨h3, h4⟩
        subst h3
        exact h2 ⟨by omega, h4⟩
    · intro g t
      constructor
      · rintro ⟨⟨h1, h2⟩, h3⟩
        refine ⟨h1, ?_⟩
        rintro ⟨i, h4, h5⟩
        by_cases hin : i = n
        · subst hin; exact h3 h5
        · exact h2 ⟨i, by omega, h5⟩
      · rintro ⟨h1, h2⟩
        refine ⟨⟨h1, ?_⟩, ?_⟩
        · rintro ⟨i, h3, h4⟩; exact h2 ⟨i, by omega, h4⟩
        · intro h3; exact h2 ⟨n, by omega, h3⟩

/-- (3) `FreeTable tid` followed by `removeTableRelations tid (tgt tid)` — what the repaired
    `Shrink` does — keeps the invariant; `tid` moves from the active to the free tables. -/
theorem IndexInv.freeTable_removeTableRelations {a : Archetype} {tgt : Nat → List Ent}
    (h : IndexInv a tgt) (tid : Nat) (hfree : tid ∉ a.freeTables) :
    IndexInv ((a.freeTable tid).removeTableRelations tid (tgt tid)) tgt ∧
    ((a.freeTable tid).removeTableRelations tid (tgt tid)).freeTables = a.freeTables ++ [tid] ∧
    ∀ (t : Nat), t ∈ ((a.freeTable tid).removeTableRelations tid (tgt tid)).tables.tables ↔
      t ∈ a.tables.tables ∧ t ≠ tid := by
  have hs1 := h.toStruct.freeTable tid hfree
  have hm1 := h.toMapsInv.freeTable tid
  rw [removeTableRelations_eq]
  obtain ⟨hs, hm⟩ := remFold tid (tgt tid) hm1 (hs1.lenRel.trans hs1.lenIsRel.symm)
    (a.freeTable tid).comps.length
  have htab : ∀ (t : Nat),
      t ∈ ((List.range (a.freeTable tid).comps.length).foldl (remStep tid (tgt tid))
        (a.freeTable tid)).tables.tables ↔ t ∈ a.tables.tables ∧ t ≠ tid := by
    intro t
    rw [hs.tables, freeTable_tables, h.tablesWF.mem_remove]
  refine ⟨?_, ?_, htab⟩
  · refine { hs1.of_sameShape hs with rel := ?_, nonRel := hm.nonRel, target := ?_ }
    · intro i hi
      refine (hm.rel i hi).congr ?_
      intro g t
      rw [hs.isRel, freeTable_isRel] at hi
      have hil : i < (a.freeTable tid).comps.length := by
        rw [freeTable_comps]; exact h.lenIsRel ▸ isRel_lt hi
      unfold relP
      rw [htab]
      by_cases ht : t = tid
      · subst ht
        constructor
        · rintro ⟨⟨⟨_, h1⟩, _⟩, h2⟩; exact absurd ⟨hil, h1.symm, rfl⟩ h2
        · rintro ⟨⟨_, h1⟩, _⟩; exact absurd rfl h1
      · simp [ht]
    · refine hm.target.congr ?_
      intro g t
      unfold tgtP
      rw [htab, hs.isRel, freeTable_isRel]
      by_cases ht : t = tid
      · subst ht
        constructor
        · rintro ⟨⟨⟨_, i, h1, h2⟩, _⟩, h3⟩
          exact absurd ⟨i, by rw [freeTable_comps]; exact h.lenIsRel ▸ isRel_lt h1, h1,
            h2.symm, rfl⟩ h3
        · rintro ⟨⟨_, h1⟩, _⟩; exact absurd rfl h1
      · simp [ht]
  · rw [hs.freeTables, freeTable_freeTables]

/-! ### `RemoveTarget` -/

theorem getD_zip_erase (g : Nat) : ∀ (rt : List (AL TableIDs)) (ir : List Bool),
    rt.length = ir.length → ∀ (i : Nat),
    ((rt.zip ir).map fun p => if p.2 = true then AL.erase p.1 g else p.1).getD i [] =
      if ir.getD i false = true then AL.erase (rt.getD i []) g else rt.getD i []
  | [], [], _, i => by simp
  | [], _ :: _, h, _ => by simp at h
  | _ :: _, [], h, _ => by simp at h
  | m :: rt, r :: ir, _, 0 => by simp
  | m :: rt, r :: ir, h, i + 1 => by
    simpa using getD_zip_erase g rt ir (by simpa using h) i

theorem removeTarget_eq (a : Archetype) (e : Ent) :
    a.removeTarget e = { a with
      relationTables := (a.relationTables.zip a.isRel).map fun p =>
        if p.2 = true then AL.erase p.1 e.id else p.1
      targetTables := AL.erase a.targetTables e.id } := rfl

theorem removeTarget_sameShape (a : Archetype) (e : Ent)
    (hlen : a.relationTables.length = a.isRel.length) : SameShape a (a.removeTarget e) := by
  rw [removeTarget_eq]
  exact ⟨rfl, rfl, rfl, rfl, rfl, by simp [hlen]⟩

/-- `RemoveTarget e` on the index maps: the entries of `e.id` disappear. -/
theorem MapsInv.removeTarget {a : Archetype} {R : Nat → Nat → Nat → Prop} {T : Nat → Nat → Prop}
    (h : MapsInv a R T) (hlen : a.relationTables.length = a.isRel.length) (e : Ent) :
    MapsInv (a.removeTarget e) (fun i g t => R i g t ∧ g ≠ e.id) (fun g t => T g t ∧ g ≠ e.id) := by
  rw [removeTarget_eq]
  refine ⟨?_, ?_, ?_⟩
  · intro i hi
    change a.isRel.getD i false = true at hi
    show MapInv (((a.relationTables.zip a.isRel).map _).getD i []) _
    rw [getD_zip_erase e.id _ _ hlen, if_pos hi]
    exact (h.rel i hi).erase e.id
  · intro i hi
    change a.isRel.getD i false = false at hi
    show ((a.relationTables.zip a.isRel).map _).getD i [] = []
    rw [getD_zip_erase e.id _ _ hlen, if_neg (by rw [hi]; decide)]
    exact h.nonRel i hi
  · exact h.target.erase e.id

/-- (3') `RemoveTarget e` keeps the invariant when no active table has a relation column
    targeting `e.id`. -/
theorem IndexInv.removeTarget {a : Archetype} {tgt : Nat → List Ent} (h : IndexInv a tgt)
    (e : Ent)
    (hno : ∀ (t : Nat), t ∈ a.tables.tables → ∀ (i : Nat), a.isRel.getD i false = true →
      ((tgt t).getD i Ent.zero).id ≠ e.id) :
    IndexInv (a.removeTarget e) tgt := by
  have hlen : a.relationTables.length = a.isRel.length := h.lenRel.trans h.lenIsRel.symm
  have hs := removeTarget_sameShape a e hlen
  have hm := h.toMapsInv.removeTarget hlen e
  refine { h.toStruct.of_sameShape hs with rel := ?_, nonRel := hm.nonRel, target := ?_ }
  · intro i hi
    refine (hm.rel i hi).congr ?_
    intro g t
    rw [hs.isRel] at hi
    show relP a tgt i g t ∧ g ≠ e.id ↔ relP a tgt i g t
    constructor
    · exact fun h1 => h1.1
    · intro h1
      exact ⟨h1, fun hg => hno t h1.1 i hi (h1.2.trans hg)⟩
  · refine hm.target.congr ?_
    intro g t
    show tgtP a tgt g t ∧ g ≠ e.id ↔ tgtP a tgt g t
    constructor
    · exact fun h1 => h1.1
    · rintro ⟨h1, i, h2, h3⟩
      exact ⟨⟨h1, i, h2, h3⟩, fun hg => hno t h1 i h2 (h3.trans hg)⟩

/-! ### The `cleanupArchetypes` pattern: `FreeTable` alone, then `RemoveTarget`

`FreeTable` alone leaves the per-target maps untouched when the archetype has at most one
relation column, so the entries of the freed table's target go stale.  `cleanupArchetypes`
frees every table listed under `targetTables[g]` and then calls `RemoveTarget g`, which drops
exactly the stale entries.  `IndexInvExcept a tgt g` is the invariant "up to key `g`". -/

/-- The index invariant with the entries of key `g` unconstrained (apart from unique keys and
    well-formedness of the stored `tableIDs`). -/
structure IndexInvExcept (a : Archetype) (tgt : Nat → List Ent) (g : Nat) : Prop
    extends Struct a where
  maps : ∃ (S : Nat → Nat → Prop) (S' : Nat → Prop),
    MapsInv a (fun i g' t => if g' = g then S i t else relP a tgt i g' t)
      (fun g' t => if g' = g then S' t else tgtP a tgt g' t)

theorem IndexInv.toExcept {a : Archetype} {tgt : Nat → List Ent} (h : IndexInv a tgt) (g : Nat) :
    IndexInvExcept a tgt g := by
  refine { h.toStruct with maps := ⟨fun i t => relP a tgt i g t, fun t => tgtP a tgt g t, ?_⟩ }
  refine h.toMapsInv.congr ?_ ?_
  · intro i _ g' t
    by_cases hg : g' = g
    · subst hg; simp
    · simp [hg]
  · intro g' t
    by_cases hg : g' = g
    · subst hg; simp
    · simp [hg]

/-- `FreeTable tid` alone keeps the invariant up to key `g`, provided that — when the archetype
    has at most one relation column — the relation columns of `tid` all target `g`. -/
theorem IndexInvExcept.freeTable {a : Archetype} {tgt : Nat → List Ent} {g : Nat}
    (h : IndexInvExcept a tgt g) (tid : Nat) (hfree : tid ∉ a.freeTables)
    (hsingle : a.numRel ≤ 1 → ∀ (i : Nat), a.isRel.getD i false = true →
      ((tgt tid).getD i Ent.zero).id = g) :
    IndexInvExcept (a.freeTable tid) tgt g := by
  obtain ⟨S, S', hm⟩ := h.maps
  have hm1 := hm.freeTable tid
  have htab : ∀ (t : Nat), t ∈ (a.freeTable tid).tables.tables ↔ t ∈ a.tables.tables ∧ t ≠ tid := by
    intro t; rw [freeTable_tables, h.tablesWF.mem_remove]
  refine { h.toStruct.freeTable tid hfree with maps :=
    ⟨fun i t => S i t ∧ (a.numRel ≤ 1 ∨ t ≠ tid), fun t => S' t ∧ (a.numRel ≤ 1 ∨ t ≠ tid), ?_⟩ }
  refine hm1.congr ?_ ?_
  · intro i hi g' t
    rw [freeTable_isRel] at hi
    by_cases hg : g' = g
    · simp [hg]
    · simp only [hg, if_false]
      unfold relP
      rw [htab]
      constructor
      · rintro ⟨⟨h1, h2⟩, h3⟩
        refine ⟨⟨h1, ?_⟩, h2⟩
        intro ht
        rcases h3 with h3 | h3
        · subst ht; exact hg (h2.symm.trans (hsingle h3 i hi))
        · exact h3 ht
      · rintro ⟨⟨h1, h2⟩, h3⟩
        exact ⟨⟨h1, h3⟩, Or.inr h2⟩
  · intro g' t
    by_cases hg : g' = g
    · simp [hg]
    · simp only [hg, if_false]
      unfold tgtP
      rw [htab, freeTable_isRel]
      constructor
      · rintro ⟨⟨h1, i, h2, h3⟩, h4⟩
        refine ⟨⟨h1, ?_⟩, i, h2, h3⟩
        intro ht
        rcases h4 with h4 | h4
        · subst ht; exact hg (h3.symm.trans (hsingle h4 i h2))
        · exact h4 ht
      · rintro ⟨⟨h1, h2⟩, h3⟩
        exact ⟨⟨h1, h3⟩, Or.inr h2⟩

/-- `RemoveTarget e` restores the full invariant from the invariant up to key `e.id`, once no
    active table has a relation column targeting `e.id`. -/
theorem IndexInvExcept.removeTarget {a : Archetype} {tgt : Nat → List Ent} {e : Ent}
    (h : IndexInvExcept a tgt e.id)
    (hno : ∀ (t : Nat), t ∈ a.tables.tables → ∀ (i : Nat), a.isRel.getD i false = true →
      ((tgt t).getD i Ent.zero).id ≠ e.id) :
    IndexInv (a.removeTarget e) tgt := by
  obtain ⟨S, S', hm0⟩ := h.maps
  have hlen : a.relationTables.length = a.isRel.length := h.lenRel.trans h.lenIsRel.symm
  have hs := removeTarget_sameShape a e hlen
  have hm := hm0.removeTarget hlen e
  refine { h.toStruct.of_sameShape hs with rel := ?_, nonRel := hm.nonRel, target := ?_ }
  · intro i hi
    refine (hm.rel i hi).congr ?_
    intro g t
    rw [hs.isRel] at hi
    show (if g = e.id then S i t else relP a tgt i g t) ∧ g ≠ e.id ↔ relP a tgt i g t
    by_cases hg : g = e.id
    · simp only [hg, if_true, ne_eq, not_true_eq_false, and_false, false_iff]
      intro h1
      exact hno t h1.1 i hi h1.2
    · simp [hg]
  · refine hm.target.congr ?_
    intro g t
    show (if g = e.id then S' t else tgtP a tgt g t) ∧ g ≠ e.id ↔ tgtP a tgt g t
    by_cases hg : g = e.id
    · simp only [hg, if_true, ne_eq, not_true_eq_false, and_false, false_iff]
      rintro ⟨h1, i, h2, h3⟩
      exact hno t h1 i h2 h3
    · simp [hg]

theorem relP_addTable {a a' : Archetype} (tgt : Nat → List Ent) (tid : Nat) (targets : List Ent)
    (htab : ∀ (t : Nat), t ∈ a'.tables.tables ↔ t ∈ a.tables.tables ∨ t = tid)
    (hact : tid ∉ a.tables.tables) (n i : Nat) (hil : i < n) (g t : Nat) :
    relP a tgt i g t ∨ (i < n ∧ g = (targets.getD i Ent.zero).id ∧ t = tid) ↔
      relP a' (fun t => if t = tid then targets else tgt t) i g t := by
  unfold relP
  rw [htab]
  by_cases ht : t = tid
  · subst ht
    simp [hact, hil, eq_comm]
  · simp [ht]

theorem tgtP_addTable {a a' : Archetype} (tgt : Nat → List Ent) (tid : Nat) (targets : List Ent)
    (htab : ∀ (t : Nat), t ∈ a'.tables.tables ↔ t ∈ a.tables.tables ∨ t = tid)
    (hrel : a'.isRel = a.isRel)
    (hact : tid ∉ a.tables.tables) (n : Nat)
    (hn : ∀ (i : Nat), a.isRel.getD i false = true → i < n) (g t : Nat) :
    (tgtP a tgt g t ∨ ∃ (i : Nat), i < n ∧ a.isRel.getD i false = true ∧
        g = (targets.getD i Ent.zero).id ∧ t = tid) ↔
      tgtP a' (fun t => if t = tid then targets else tgt t) g t := by
  unfold tgtP
  rw [htab, hrel]
  by_cases ht : t = tid
  · subst ht
    simp only [hact, false_and, false_or, true_and, or_true, if_true]
    constructor
    · rintro ⟨i, _, h1, h2, _⟩; exact ⟨i, h1, h2.symm⟩
    · rintro ⟨i, h1, h2⟩
      exact ⟨i, hn i h1, h1, h2.symm, trivial⟩
  · simp [ht]

/-- `AddTable` (of a new or recycled table none of whose relation columns targets `g`) keeps
    the invariant up to key `g` — the `createTable` inside the `cleanupArchetypes` loop. -/
theorem IndexInvExcept.addTable {a : Archetype} {tgt : Nat → List Ent} {g : Nat}
    (h : IndexInvExcept a tgt g) (tid : Nat) (targets : List Ent)
    (hact : tid ∉ a.tables.tables) (hfree : tid ∉ a.freeTables)
    (htg : ∀ (i : Nat), a.isRel.getD i false = true → (targets.getD i Ent.zero).id ≠ g) :
    IndexInvExcept (a.addTable tid targets) (fun t => if t = tid then targets else tgt t) g := by
  obtain ⟨S, S', hm⟩ := h.maps
  have hs0 : Struct { a with tables := a.tables.append tid } := by
    refine ⟨h.tablesWF.append hact, h.freeNodup, ?_, h.lenRel, h.lenIsRel, h.numRelEq⟩
    intro t ht
    rw [show ({ a with tables := a.tables.append tid } : Archetype).tables.tables
        = a.tables.tables ++ [tid] from rfl] at ht
    rcases List.mem_append.1 ht with h1 | h1
    · exact h.disjoint t h1
    · rw [List.mem_singleton.1 h1]; exact hfree
  have hm0 : MapsInv { a with tables := a.tables.append tid }
      (fun i g' t => if g' = g then S i t else relP a tgt i g' t)
      (fun g' t => if g' = g then S' t else tgtP a tgt g' t) := ⟨hm.rel, hm.nonRel, hm.target⟩
  have hlenR : a.relationTables.length = a.isRel.length := h.lenRel.trans h.lenIsRel.symm
  have hfinal : ∀ (a' : Archetype), SameShape { a with tables := a.tables.append tid } a' →
      MapsInv a'
        (fun i g' t => (if g' = g then S i t else relP a tgt i g' t) ∨
          (i < a.comps.length ∧ g' = (targets.getD i Ent.zero).id ∧ t = tid))
        (fun g' t => (if g' = g then S' t else tgtP a tgt g' t) ∨ ∃ (i : Nat),
          i < a.comps.length ∧ a.isRel.getD i false = true ∧
          g' = (targets.getD i Ent.zero).id ∧ t = tid) →
      IndexInvExcept a' (fun t => if t = tid then targets else tgt t) g := by
    intro a' hs hm'
    have htab : ∀ (t : Nat), t ∈ a'.tables.tables ↔ t ∈ a.tables.tables ∨ t = tid := by
      intro t; rw [hs.tables]
      show t ∈ a.tables.tables ++ [tid] ↔ _
      simp
    refine { hs0.of_sameShape hs with maps := ⟨S, S', ?_⟩ }
    refine hm'.congr ?_ ?_
    · intro i hi g' t
      rw [hs.isRel] at hi
      have hi' : a.isRel.getD i false = true := hi
      have hil : i < a.comps.length := h.lenIsRel ▸ isRel_lt hi'
      by_cases hg : g' = g
      · simp only [hg, if_true]
        constructor
        · rintro (h1 | ⟨_, h1, _⟩)
          · exact h1
          · exact absurd h1.symm (htg i hi')
        · exact Or.inl
      · simp only [hg, if_false]
        exact relP_addTable tgt tid targets htab hact _ i hil g' t
    · intro g' t
      by_cases hg : g' = g
      · simp only [hg, if_true]
        constructor
        · rintro (h1 | ⟨i, _, h1, h2, _⟩)
          · exact h1
          · exact absurd h2.symm (htg i h1)
        · exact Or.inl
      · simp only [hg, if_false]
        exact tgtP_addTable tgt tid targets htab hs.isRel hact _
          (fun i hi => h.lenIsRel ▸ isRel_lt hi) g' t
  rw [addTable_eq]
  by_cases hr : a.hasRelations = true
  · rw [if_neg (by simp [hr])]
    obtain ⟨hs, hm'⟩ := addFold tid targets hm0 hlenR (fun i hi => by
      show ¬ (if (targets.getD i Ent.zero).id = g then _ else _)
      rw [if_neg (htg i hi)]
      exact fun hh => hact hh.1) a.comps.length
    exact hfinal _ hs hm'
  · rw [if_pos (by simpa using hr)]
    have h0 : a.numRel = 0 := by
      unfold hasRelations at hr; simp at hr; exact hr
    refine hfinal _ (SameShape.refl _) (hm0.congr ?_ ?_)
    · intro i hi
      exact absurd hi (h.toStruct.no_rel h0 i)
    · intro g' t
      constructor
      · exact Or.inl
      · rintro (h1 | ⟨i, _, h1, _⟩)
        · exact h1
        · exact absurd h1 (h.toStruct.no_rel h0 i)

/-- `GetFreeTable` keeps the invariant up to key `g`. -/
theorem IndexInvExcept.getFreeTable {a : Archetype} {tgt : Nat → List Ent} {g : Nat}
    (h : IndexInvExcept a tgt g) {a' : Archetype} {t : Nat}
    (hg : a.getFreeTable = some (a', t)) :
    IndexInvExcept a' tgt g ∧ a.freeTables = a'.freeTables ++ [t] ∧ a'.tables = a.tables ∧
      t ∉ a'.freeTables ∧ t ∉ a'.tables.tables := by
  unfold Archetype.getFreeTable at hg
  cases hl : a.freeTables.getLast? with
  | none => rw [hl] at hg; cases hg
  | some x =>
    rw [hl] at hg
    injection hg with hg
    injection hg with ha ht
    subst ht
    subst ha
    have hsplit : a.freeTables = a.freeTables.dropLast ++ [x] :=
      eq_dropLast_append_of_getLast? _ x hl
    have hnd := h.freeNodup
    rw [hsplit] at hnd
    have hnd' := List.nodup_append.1 hnd
    have hxfree : x ∈ a.freeTables := by rw [hsplit]; simp
    obtain ⟨S, S', hm⟩ := h.maps
    refine ⟨?_, hsplit, rfl, ?_, ?_⟩
    · refine { maps := ⟨S, S', ⟨hm.rel, hm.nonRel, hm.target⟩⟩, tablesWF := h.tablesWF,
               freeNodup := hnd'.1, disjoint := ?_, lenRel := h.lenRel, lenIsRel := h.lenIsRel,
               numRelEq := h.numRelEq }
      intro t ht hm'
      exact h.disjoint t ht (by rw [hsplit]; exact List.mem_append_left _ hm')
    · intro hm'
      exact hnd'.2.2 x hm' x (List.mem_singleton.2 rfl) rfl
    · intro hm'
      exact h.disjoint x hm' hxfree

/-! ### `FreeAllTables` -/

/-- `FreeAllTables` (used by `Reset`/`RemoveEntities` of everything) keeps the invariant. -/
theorem IndexInv.freeAllTables {a : Archetype} {tgt : Nat → List Ent} (h : IndexInv a tgt) :
    IndexInv a.freeAllTables tgt := by
  have hempty : ∀ (i : Nat), (a.relationTables.map fun _ => ([] : AL TableIDs)).getD i [] = [] :=
    fun i => by rw [getD_map_nil _ _ rfl]
  have hno : ∀ (t : Nat), t ∉ a.freeAllTables.tables.tables := by
    intro t ht; exact absurd ht (by simp [Archetype.freeAllTables])
  refine { tablesWF := TableIDs.wf_empty, freeNodup := ?_, disjoint := fun t ht => absurd ht (hno t),
           lenRel := ?_, lenIsRel := h.lenIsRel, numRelEq := h.numRelEq,
           rel := ?_, nonRel := ?_, target := ?_ }
  · show (a.freeTables ++ a.tables.tables).Nodup
    refine List.nodup_append.2 ⟨h.freeNodup, h.tablesWF.nodup, ?_⟩
    intro x hx y hy e
    subst e
    exact h.disjoint x hy hx
  · show (a.relationTables.map fun _ => ([] : AL TableIDs)).length = a.comps.length
    rw [List.length_map]; exact h.lenRel
  · intro i _
    show MapInv ((a.relationTables.map fun _ => ([] : AL TableIDs)).getD i []) _
    rw [hempty]
    exact MapInv.nil.congr (fun g t => ⟨False.elim, fun h1 => hno t h1.1⟩)
  · intro i _; exact hempty i
  · exact MapInv.nil.congr (fun g t => ⟨False.elim, fun h1 => hno t h1.1⟩)

/-! ### `FreeTable` alone is not enough (defect D1)

With at most one relation column `FreeTable` leaves the freed table listed in the per-target
maps.  Concrete witness: one relation column, one table `5` targeting entity ID `7`. -/

/-- The witness archetype: one relation column, table `5` with target `7.0`. -/
def d1Witness : Archetype :=
  (Archetype.new 0 default [0] [true] [false] []).addTable 5 [⟨7, 0⟩]

theorem d1Witness_inv :
    IndexInv d1Witness (fun t => if t = 5 then [⟨7, 0⟩] else []) :=
  (indexInv_new 0 default [0] [true] [false] rfl (fun _ => [])).addTable 5 [⟨7, 0⟩]
    (by simp [Archetype.new, TableIDs.ofList]) (by simp [Archetype.new])

/-- After `FreeTable 5` alone the freed table is still returned by `GetTables` for its target,
    so the invariant fails for every target function. -/
theorem freeTable_alone_breaks (tgt : Nat → List Ent) :
    (d1Witness.freeTable 5).getTables [⟨0, ⟨7, 0⟩⟩] = some [5] ∧
    (d1Witness.freeTable 5).tables.tables = [] ∧
    ¬ IndexInv (d1Witness.freeTable 5) tgt := by
  refine ⟨by decide, by decide, ?_⟩
  intro h
  have hm := (h.rel 0 (by decide)).mem 7 5
  have h5 : 5 ∈ tablesOf (AL.find? ((d1Witness.freeTable 5).relationTables.getD 0 []) 7) := by
    decide
  have := (hm.1 h5).1
  have hnil : (d1Witness.freeTable 5).tables.tables = [] := by decide
  rw [hnil] at this
  simp at this

end Archetype

end Ark
