/-
  Ark.Proofs.ResetEquivRelXchg — C16, second sentence, for the machine `Ark.RelRefine3`
  (`Ark.RelRefine2` plus `Exchange` with relation components): the theorems of
  `Ark/Proofs/ResetEquivRelHist.lean` with `xchg` as a further step.

  * `rejKindX`, `xchg_desc` — the step `xchg`, described by the specification: accepted (the
    specification moves by `specXchg`; handles, pool, registry, filter heap unchanged) or rejected
    with the class `rejKindX` computes (`Unsafe` on a dead handle: `deadEntity`; the pre-validation; `deadEntity`; `noComponents`; the
    class the mask walk of `graph.Find` reports) without effect;
  * `stepOut3`, `labelsAfter3`, `trace3`, `labels3`, `sim_step3`, `sim_run3`, `regsOf3`,
    `regs_run3`, `reach3_reserved`, `sim_reset_regs3`;
  * `reset_equiv_rel3` — **the main theorem** for `Ark.RelRefine3`; `reset_equiv_rel3_worlds`.

  Kernel-only proofs, core Lean only.
-/
import Ark.Proofs.ResetEquivRelWorld
import Ark.Proofs.RelExchangeHist

set_option autoImplicit false

namespace Ark

open World Ark.Props.C01World

namespace RelRefine3

open QueryRel QueryExact RelRefine RelRefine2
open Refine (Outcome outcome Reserved2 keys findKind)

/-! ## 1. the step `xchg` -/

/-- **the panic class of a rejected `Exchange`**, from the specification alone: the typed
    pre-validation first (`preKindP`), then an unknown or dead handle, both lists empty, and the
    class the mask walk of `graph.Find` reports (`missing`, `alreadyHas`, `addedAndRemoved`) -/
def rejKindX (ss : SS) (p : Path) (e : Ent) (add rem : List Comp) (rels : Rels) : PanicKind :=
  match find ss.ents e with
  | none => if p = .unsafe_ then .deadEntity else (preKindP ss p add rels).getD .deadEntity
  | some en =>
    (preKindP ss p add rels).getD
      (if add = [] ∧ rem = [] then .noComponents
       else findKind (Mask.ofList (keys en.comps)) add rem)

/-- **the step `xchg`, from the specification**: accepted — the specification moves by
    `specXchg`, handles, pool, registry and filter heap stay, the client sees success —, or
    rejected with `rejKindX` and the whole machine state unchanged -/
theorem xchg_desc (run : ProbeRunner) {s : St} {fl : List Nat} (H : HInv2 s fl)
    (hfew : s.w.tables.length < maxU32) (hent : s.w.entities.length + 1 < 2 ^ 32)
    (p : Path) (e : Ent) (add : List Comp) (vals : Refine.Comps) (rem : List Comp) (rels : Rels)
    (hg : guardXchg s p e add rels = true) :
    (preXchg s.ss e add rem rels →
      (step3 run s (.xchg p e add vals rem rels)).ss = specXchg s.ss e add vals rem rels ∧
      (step3 run s (.xchg p e add vals rem rels)).issued = s.issued ∧
      (step3 run s (.xchg p e add vals rem rels)).w.pool = s.w.pool ∧
      (step3 run s (.xchg p e add vals rem rels)).w.kinds = s.w.kinds ∧
      (step3 run s (.xchg p e add vals rem rels)).w.filters = s.w.filters ∧
      outcomeU (opExchange run p e add vals rem rels s.w) = .ok none) ∧
    (¬ preXchg s.ss e add rem rels →
      step3 run s (.xchg p e add vals rem rels) = s ∧
      outcomeU (opExchange run p e add vals rem rels s.w) =
        .panic (rejKindX s.ss p e add rem rels)) := by
  have HB := H.base
  have hg' : ((e ∈ s.issued ∧ ∀ c ∈ add, c < s.ss.zst.length) ∧ RelsStep s.ss.isRel p add rels) ∧
      tgtsExpr s rels = true := by
    simpa only [guardXchg, Bool.and_eq_true, List.all_eq_true, decide_eq_true_eq] using hg
  obtain ⟨⟨⟨hi, hreg⟩, hst⟩, hx⟩ := hg'
  have hreg' : ∀ (c : Comp), c ∈ add → c < s.w.kinds.length := by rw [← HB.zlen]; exact hreg
  have hb256 : ∀ (c : Comp), c ∈ add → c < 256 := fun c hc => HB.reg256 (hreg' c hc)
  have hal := HB.alive_eq_find hi
  constructor
  · rintro ⟨en, hf, hok⟩
    have hm := find_some_mem hf
    obtain ⟨_, ha, h2, hnf, _, hsl⟩ := HB.live_facts hm
    have ok := HB.ok e en hm
    have hmask : ∀ (c : Comp), (s.w.maskOf e).get c = true ↔ c ∈ keys en.comps := fun c => by
      rw [HB.tinv.mask_iff_comps h2 hnf ha (Pool.lt_of_slot hsl) ok.comps c, HB.comps_iff hm c]
    obtain ⟨⟨hne, hremnd, hremhas, haddnd, hall⟩, ⟨hrnd, hrin, hrall⟩, hv⟩ := hok
    have hin : ∀ (r : RelID), r ∈ rels → r.comp ∈ add := fun r hr => (hrin r hr).1
    have hrc : ∀ (r : RelID), r ∈ rels → s.w.isRelComp r.comp = true :=
      fun r hr => by rw [← HB.rget]; exact (hrin r hr).2
    have hpw : XchgPre s.w e add rem rels :=
      { nonempty := hne
        remNodup := hremnd
        remHas := fun c hc => (hmask c).mpr (hremhas c hc)
        addNodup := haddnd
        addReg := hreg'
        addNew := by
          intro c hc
          cases hgc : (s.w.maskOf e).get c with
          | false => rfl
          | true => exact absurd ((hmask c).mp hgc) (hall c hc).2
        relsNodup := hrnd
        relsIn := hin
        relsRel := hrc
        relsAll := fun c hc hr => hrall c hc (by rw [HB.rget]; exact hr)
        targets := HB.targets_alive hv }
    obtain ⟨w', hop, post, _, ck⟩ := opExchange_rel_keep run p HB.tinv HB.unlocked HB.noObs h2 hnf
      ha (Pool.lt_of_slot hsl) hpw vals (HB.tgts_in hx) hfew hent
    simp only [step3, if_pos hg, hop, Res.state]
    exact ⟨trivial, trivial, post.pool, post.kinds, ck.filters, rfl⟩
  · intro hnp
    have hpk := HB.preCheck_kind p add hx
    have hkind : opExchange run p e add vals rem rels s.w =
        .panic (rejKindX s.ss p e add rem rels) s.w := by
      cases hf : find s.ss.ents e with
      | none =>
        have ha : s.w.alive e = false := by rw [hal, hf]; rfl
        have hcore := exchangeCore_dead run s.w HB.unlocked e ha add rem rels
        by_cases hpu : p = .unsafe_
        · subst hpu
          rw [opExchange_dead_first run e add vals rem rels s.w ha]
          simp only [rejKindX, hf, if_true]
        · cases hk : preKindP s.ss p add rels with
          | some k =>
            have h1 := ofKind_some hpk hk
            cases p with
            | unsafe_ => exact absurd rfl hpu
            | map1 => simp [opExchange, bind, M.bind, h1, rejKindX, hf, hk]
            | typed => simp [opExchange, bind, M.bind, h1, rejKindX, hf, hk]
          | none =>
            have h1 := ofKind_none hpk hk
            cases p with
            | unsafe_ => exact absurd rfl hpu
            | map1 => simp [opExchange, bind, M.bind, h1, hcore, rejKindX, hf, hk]
            | typed => simp [opExchange, bind, M.bind, h1, hcore, rejKindX, hf, hk]
      | some en =>
        have ha : s.w.alive e = true := by rw [hal, hf]; rfl
        cases hk : preKindP s.ss p add rels with
        | some k =>
          have h1 := ofKind_some hpk hk
          rw [opExchange_rel_prePanic run p e add vals rem rels s.w ha h1]
          simp only [rejKindX, hf, hk, Option.getD_some]
        | none =>
          have h1 := ofKind_none hpk hk
          obtain ⟨hwf, hv⟩ := wf_of_pre_ok hst hk
          have hm := find_some_mem hf
          obtain ⟨_, _, h2, hnf, _, hsl⟩ := HB.live_facts hm
          have ok := HB.ok e en hm
          have hmask : ∀ (c : Comp), (s.w.maskOf e).get c = true ↔ c ∈ keys en.comps := fun c => by
            rw [HB.tinv.mask_iff_comps h2 hnf ha (Pool.lt_of_slot hsl) ok.comps c,
              HB.comps_iff hm c]
          have hmeq : s.w.maskOf e = Mask.ofList (keys en.comps) := by
            apply Mask.ext_get
            intro c hc
            rw [Mask.get_ofList, Bool.eq_iff_iff, hmask c]
            simp [hc]
          have hv1 : ¬ (¬ (add = [] ∧ rem = []) ∧ rem.Nodup ∧ (∀ c ∈ rem, c ∈ keys en.comps) ∧
              add.Nodup ∧ ∀ c ∈ add, c < s.ss.zst.length ∧ c ∉ keys en.comps) :=
            fun hh => hnp ⟨en, hf, hh, hwf, hv⟩
          by_cases hne : add = [] ∧ rem = []
          · obtain ⟨rfl, rfl⟩ := hne
            rw [opExchange_rel_panic run p e [] vals [] rels s.w ha h1
              (exchangeCore_noComponents run s.w HB.unlocked e ha rels)]
            simp only [rejKindX, hf, hk, Option.getD_none, and_self, if_true]
          · obtain ⟨k, _, hgk⟩ := graphFind_bad (s.w.maskOf e) add rem s.w hb256 (by
              rintro ⟨k1, k2, k3, k4⟩
              refine hv1 ⟨hne, k1, fun c hc => (hmask c).mp (k2 c hc), k3,
                fun c hc => ⟨hreg c hc, fun hk' => ?_⟩⟩
              have := (hmask c).mpr hk'
              rw [k4 c hc] at this; cases this)
            have hcore := exchangeCore_reject_kind run e add rem rels s.w HB.unlocked ha hne hgk
            have hfk : findKind (Mask.ofList (keys en.comps)) add rem = k := by
              rw [← hmeq]; exact Refine.findKind_of_panic hgk
            rw [opExchange_rel_panic run p e add vals rem rels s.w ha h1 hcore]
            simp only [rejKindX, hf, hk, Option.getD_none, if_neg hne, hfk]
    refine ⟨?_, by rw [hkind]; rfl⟩
    simp only [step3, if_pos hg, hkind, Res.state, specXchg_of_not_pre _ _ _ _ _ _ hnp]

/-! ## 2. what the client sees; the simulation step -/

/-- what the client sees of one operation of `Ark.RelRefine3` -/
def stepOut3 (run : ProbeRunner) (L : List Nat) (s : St) : Op3 → Option Out
  | .base2 op => stepOut2 run L s op
  | .xchg p e add vals rem rels =>
    if guardXchg s p e add rels = true then
      some (.call (outcomeU (opExchange run p e add vals rem rels s.w)))
    else none

def labelsAfter3 (L : List Nat) (s : St) : Op3 → List Nat
  | .base2 op => labelsAfter L s op
  | .xchg _ _ _ _ _ _ => L

/-- what the client sees of a history -/
def trace3 (run : ProbeRunner) : List Nat → St → List Op3 → List (Option Out)
  | _, _, [] => []
  | L, s, op :: ops => stepOut3 run L s op :: trace3 run (labelsAfter3 L s op) (step3 run s op) ops

/-- the filter labels usable after a history -/
def labels3 (run : ProbeRunner) : List Nat → St → List Op3 → List Nat
  | L, _, [] => L
  | L, s, op :: ops => labels3 run (labelsAfter3 L s op) (step3 run s op) ops

theorem guardXchg_congr {s1 s2 : St} (hss : s1.ss = s2.ss) (hi : s1.issued = s2.issued) (p : Path)
    (e : Ent) (add : List Comp) (rels : Rels) : guardXchg s1 p e add rels = guardXchg s2 p e add rels := by
  simp only [guardXchg, tgtsExpr, hss, hi]

/-- **`Sim` is kept by every step of `Ark.RelRefine3`, and the client sees the same** -/
theorem sim_step3 (run1 run2 : ProbeRunner) {L : List Nat} {s1 s2 : St} {fl1 fl2 : List Nat}
    (H1 : HInv2 s1 fl1) (H2 : HInv2 s2 fl2)
    (hf1 : s1.w.tables.length + s1.w.relationArchetypes.length + 1 ≤ maxU32)
    (he1 : 2 * s1.w.entities.length < 2 ^ 32)
    (hf2 : s2.w.tables.length + s2.w.relationArchetypes.length + 1 ≤ maxU32)
    (he2 : 2 * s2.w.entities.length < 2 ^ 32) (S : Sim L s1 s2) (op : Op3) :
    Sim (labelsAfter3 L s1 op) (step3 run1 s1 op) (step3 run2 s2 op) ∧
    labelsAfter3 L s1 op = labelsAfter3 L s2 op ∧
    OutEq (stepOut3 run1 L s1 op) (stepOut3 run2 L s2 op) := by
  cases op with
  | base2 op => exact sim_step2 run1 run2 H1 H2 hf1 he1 hf2 he2 S op
  | xchg p e add vals rem rels =>
    have hgc := guardXchg_congr S.ss S.issued p e add rels
    show Sim L _ _ ∧ L = L ∧ _
    by_cases hg : guardXchg s1 p e add rels = true
    · have hg2 : guardXchg s2 p e add rels = true := by rw [← hgc]; exact hg
      obtain ⟨a1, r1⟩ := xchg_desc run1 H1 (by omega) (by omega) p e add vals rem rels hg
      obtain ⟨a2, r2⟩ := xchg_desc run2 H2 (by omega) (by omega) p e add vals rem rels hg2
      simp only [stepOut3, if_pos hg, if_pos hg2]
      by_cases hp : preXchg s1.ss e add rem rels
      · have hp2 : preXchg s2.ss e add rem rels := by rw [← S.ss]; exact hp
        obtain ⟨b1, b2, b3, b4, b5, b6⟩ := a1 hp
        obtain ⟨c1, c2, c3, c4, c5, c6⟩ := a2 hp2
        refine ⟨⟨?_, ?_, ?_, ?_, ?_⟩, trivial, ?_⟩
        · rw [b1, c1, S.ss]
        · rw [b2, c2, S.issued]
        · rw [b4, c4, S.kinds]
        · rw [b3, c3]; exact S.core
        · intro f hf
          rw [foAt_congr b5, foAt_congr c5]; exact S.heap f hf
        · rw [b6, c6]; exact OutEq.call_refl _
      · have hp2 : ¬ preXchg s2.ss e add rem rels := by rw [← S.ss]; exact hp
        obtain ⟨b1, b2⟩ := r1 hp
        obtain ⟨c1, c2⟩ := r2 hp2
        rw [b1, c1, b2, c2, S.ss]
        exact ⟨S, trivial, OutEq.call_refl _⟩
    · have hg2 : ¬ guardXchg s2 p e add rels = true := by rw [← hgc]; exact hg
      have e1 : step3 run1 s1 (.xchg p e add vals rem rels) = s1 := by simp only [step3, if_neg hg]
      have e2 : step3 run2 s2 (.xchg p e add vals rem rels) = s2 := by simp only [step3, if_neg hg2]
      rw [e1, e2]
      simp only [stepOut3, if_neg hg, if_neg hg2]
      exact ⟨S, trivial, OutEq.none_refl⟩

/-! ## 3. histories -/

theorem snoc_assoc (A : List Op3) (op : Op3) (ops : List Op3) :
    A ++ op :: ops = (A ++ [op]) ++ ops := by
  rw [List.append_assoc]; rfl

/-- **`Sim` along histories** of `Ark.RelRefine3` -/
theorem sim_run3 (run1 run2 : ProbeRunner) (cap rel cap' rel' : Nat) :
    ∀ (post A B : List Op3) (L : List Nat),
    (A ++ post).length < 2 ^ 16 → (B ++ post).length < 2 ^ 16 →
    Sim L (reach3 run1 cap rel A) (reach3 run2 cap' rel' B) →
    TraceEq (trace3 run1 L (reach3 run1 cap rel A) post)
      (trace3 run2 L (reach3 run2 cap' rel' B) post) ∧
    labels3 run1 L (reach3 run1 cap rel A) post = labels3 run2 L (reach3 run2 cap' rel' B) post ∧
    Sim (labels3 run1 L (reach3 run1 cap rel A) post) (reach3 run1 cap rel (A ++ post))
      (reach3 run2 cap' rel' (B ++ post)) := by
  intro post
  induction post with
  | nil =>
    intro A B L _ _ S
    simp only [List.append_nil]
    simp only [trace3, labels3, TraceEq]
    exact ⟨trivial, trivial, S⟩
  | cons op ops ih =>
    intro A B L hA hB S
    simp only [List.length_append, List.length_cons] at hA hB
    obtain ⟨fl1, H1⟩ := reach3_inv run1 cap rel A (by omega)
    obtain ⟨fl2, H2⟩ := reach3_inv run2 cap' rel' B (by omega)
    obtain ⟨hf1, he1⟩ := reach3_fits run1 cap rel A (by omega)
    obtain ⟨hf2, he2⟩ := reach3_fits run2 cap' rel' B (by omega)
    obtain ⟨S', hL, hout⟩ := sim_step3 run1 run2 H1 H2 hf1 he1 hf2 he2 S op
    rw [← reach3_snoc, ← reach3_snoc] at S'
    obtain ⟨t, l, S''⟩ := ih (A ++ [op]) (B ++ [op]) (labelsAfter3 L (reach3 run1 cap rel A) op)
      (by simp only [List.length_append, List.length_singleton]; omega)
      (by simp only [List.length_append, List.length_singleton]; omega) S'
    rw [reach3_snoc, reach3_snoc] at t l
    rw [reach3_snoc, List.append_assoc, List.append_assoc] at S''
    simp only [trace3, labels3, TraceEq]
    rw [← hL]
    exact ⟨⟨hout, t⟩, l, S''⟩

/-- is the operation a registration of a component type? -/
def Op3.isReg : Op3 → Bool
  | .base2 op => op.isReg
  | .xchg _ _ _ _ _ _ => false

/-- the registration operations of a history, in order -/
def regsOf3 (ops : List Op3) : List Op3 := ops.filter Op3.isReg

theorem regsOf3_length_le (ops : List Op3) : (regsOf3 ops).length ≤ ops.length :=
  List.length_filter_le _ _

theorem regsOf3_cons (op : Op3) (ops : List Op3) :
    regsOf3 (op :: ops) = if op.isReg = true then op :: regsOf3 ops else regsOf3 ops := by
  simp only [regsOf3, List.filter_cons]

/-- a step that is not a registration keeps the registry -/
theorem step3_keeps_registry (run : ProbeRunner) {s : St} {fl : List Nat} (H : HInv2 s fl)
    (hfew : s.w.tables.length + s.w.relationArchetypes.length + 1 ≤ maxU32)
    (hent : 2 * s.w.entities.length < 2 ^ 32) (op : Op3) (h : op.isReg = false) :
    RegEq (step3 run s op) s := by
  cases op with
  | base2 op => exact step2_keeps_registry run H hfew hent op h
  | xchg p e add vals rem rels =>
    by_cases hg : guardXchg s p e add rels = true
    · obtain ⟨a, r⟩ := xchg_desc run H (by omega) (by omega) p e add vals rem rels hg
      by_cases hp : preXchg s.ss e add rem rels
      · obtain ⟨b1, _, _, b4, _, _⟩ := a hp
        obtain ⟨en, hf, hok⟩ := hp
        refine ⟨?_, ?_, b4⟩
        · rw [b1]; simp only [specXchg, hf, if_pos hok]
        · rw [b1]; simp only [specXchg, hf, if_pos hok]
      · rw [(r hp).1]; exact RegEq.refl s
    · have : step3 run s (.xchg p e add vals rem rels) = s := by simp only [step3, if_neg hg]
      rw [this]; exact RegEq.refl s

/-- **the registrations alone** -/
theorem regs_run3 (run1 run2 : ProbeRunner) (cap rel cap' rel' : Nat) :
    ∀ (ops A B : List Op3), (A ++ ops).length < 2 ^ 16 → B.length ≤ A.length →
    RegEq (reach3 run1 cap rel A) (reach3 run2 cap' rel' B) → Fresh (reach3 run2 cap' rel' B) →
    RegEq (reach3 run1 cap rel (A ++ ops)) (reach3 run2 cap' rel' (B ++ regsOf3 ops)) ∧
    Fresh (reach3 run2 cap' rel' (B ++ regsOf3 ops)) := by
  intro ops
  induction ops with
  | nil =>
    intro A B _ _ E F
    simp only [regsOf3, List.filter_nil, List.append_nil]
    exact ⟨E, F⟩
  | cons op ops ih =>
    intro A B hA hBA E F
    simp only [List.length_append, List.length_cons] at hA
    obtain ⟨fl1, H1⟩ := reach3_inv run1 cap rel A (by omega)
    obtain ⟨hf1, he1⟩ := reach3_fits run1 cap rel A (by omega)
    rw [snoc_assoc A op ops, regsOf3_cons]
    cases hr : op.isReg with
    | false =>
      simp only [Bool.false_eq_true, if_false]
      have K := step3_keeps_registry run1 H1 hf1 he1 op hr
      rw [← reach3_snoc] at K
      exact ih (A ++ [op]) B
        (by simp only [List.length_append, List.length_singleton]; omega)
        (by simp only [List.length_append, List.length_singleton]; omega) (K.trans E) F
    | true =>
      simp only [if_true]
      obtain ⟨fl2, H2⟩ := reach3_inv run2 cap' rel' B (by omega)
      obtain ⟨hf2, he2⟩ := reach3_fits run2 cap' rel' B (by omega)
      rw [snoc_assoc B op (regsOf3 ops)]
      cases op with
      | xchg _ _ _ _ _ _ => cases hr
      | base2 op2 =>
        cases op2 with
        | base bop =>
          cases bop with
          | reg size z ir =>
            obtain ⟨q1, q2⟩ := reg_step2 run1 run2 H1 H2 hf1 he1 hf2 he2 E size z ir
            have q1' : RegEq (step3 run1 (reach3 run1 cap rel A) (.base2 (.base (.reg size z ir))))
                (step3 run2 (reach3 run2 cap' rel' B) (.base2 (.base (.reg size z ir)))) := q1
            have q2' : Fresh (reach3 run2 cap' rel' B) →
                Fresh (step3 run2 (reach3 run2 cap' rel' B) (.base2 (.base (.reg size z ir)))) := q2
            rw [← reach3_snoc, ← reach3_snoc] at q1'
            rw [← reach3_snoc] at q2'
            exact ih (A ++ [.base2 (.base (.reg size z ir))]) (B ++ [.base2 (.base (.reg size z ir))])
              (by simp only [List.length_append, List.length_singleton]; omega)
              (by simp only [List.length_append, List.length_singleton]; omega) q1' (q2' F)
          | new _ _ _ _ => cases hr
          | add _ _ _ _ _ => cases hr
          | rem _ _ _ => cases hr
          | setrel _ _ _ => cases hr
          | set _ _ => cases hr
          | del _ => cases hr
        | copy _ => cases hr
        | shrink _ => cases hr
        | reset => cases hr
        | fdef _ _ => cases hr
        | freg _ => cases hr
        | funreg _ => cases hr
        | query _ _ => cases hr

theorem reserved2_step3 (run : ProbeRunner) {s : St} {fl : List Nat} (H : HInv2 s fl)
    (hfew : s.w.tables.length + s.w.relationArchetypes.length + 1 ≤ maxU32)
    (hent : 2 * s.w.entities.length < 2 ^ 32) (op : Op3) (h : Reserved2 s.w.pool) :
    Reserved2 (step3 run s op).w.pool := by
  cases op with
  | base2 op => exact reserved2_step2 run H hfew hent op h
  | xchg p e add vals rem rels =>
    by_cases hg : guardXchg s p e add rels = true
    · obtain ⟨a, r⟩ := xchg_desc run H (by omega) (by omega) p e add vals rem rels hg
      by_cases hp : preXchg s.ss e add rem rels
      · rw [(a hp).2.2.1]; exact h
      · rw [(r hp).1]; exact h
    · have : step3 run s (.xchg p e add vals rem rels) = s := by simp only [step3, if_neg hg]
      rw [this]; exact h

/-- after every history the reserved pool slots are as in a new world -/
theorem reach3_reserved (run : ProbeRunner) (cap rel : Nat) (ops : List Op3)
    (hlen : ops.length < 2 ^ 16) : Reserved2 (reach3 run cap rel ops).w.pool := by
  have key : ∀ (n : Nat), n ≤ ops.length → Reserved2 (reach3 run cap rel (ops.take n)).w.pool := by
    intro n
    induction n with
    | zero => intro _; exact Refine.reserved2_init
    | succ n ih =>
      intro hn
      have hlt : n < ops.length := by omega
      have htake : ops.take (n + 1) = ops.take n ++ [ops[n]] := by
        rw [List.take_add_one, List.getElem?_eq_getElem hlt]; rfl
      have hl : (ops.take n).length = n := by rw [List.length_take]; omega
      obtain ⟨fl, H⟩ := reach3_inv run cap rel (ops.take n) (by rw [hl]; omega)
      obtain ⟨hfew, hent⟩ := reach3_fits run cap rel (ops.take n) (by rw [hl]; omega)
      rw [htake, reach3_snoc]
      exact reserved2_step3 run H hfew hent _ (ih (by omega))
  have := key ops.length (Nat.le_refl _)
  rwa [List.take_length] at this

/-- **right after `Reset`** -/
theorem sim_reset_regs3 (run1 run2 : ProbeRunner) (cap rel cap' rel' : Nat) (pre : List Op3)
    (hlen : pre.length + 1 < 2 ^ 16) :
    Sim [] (reach3 run1 cap rel (pre ++ [.base2 .reset])) (reach3 run2 cap' rel' (regsOf3 pre)) := by
  obtain ⟨fl, H⟩ := reach3_inv run1 cap rel pre (by omega)
  obtain ⟨E, F⟩ := regs_run3 run1 run2 cap rel cap' rel' pre [] []
    (by simp only [List.nil_append]; omega) (Nat.le_refl _) ⟨rfl, rfl, rfl⟩ (fresh_init cap' rel')
  simp only [List.nil_append] at E F
  have hd := reset_desc run1 H
  have hd' : (step3 run1 (reach3 run1 cap rel pre) (.base2 .reset)).ss =
        ⟨[], (reach3 run1 cap rel pre).ss.zst, (reach3 run1 cap rel pre).ss.isRel⟩ ∧
      (step3 run1 (reach3 run1 cap rel pre) (.base2 .reset)).issued = [] ∧
      (step3 run1 (reach3 run1 cap rel pre) (.base2 .reset)).w.pool =
        (reach3 run1 cap rel pre).w.pool.reset ∧
      (step3 run1 (reach3 run1 cap rel pre) (.base2 .reset)).w.kinds =
        (reach3 run1 cap rel pre).w.kinds := ⟨hd.1, hd.2.1, hd.2.2.1, hd.2.2.2.1⟩
  obtain ⟨b1, b2, b3, b4⟩ := hd'
  have hres := reach3_reserved run1 cap rel pre (by omega)
  rw [reach3_snoc]
  refine ⟨?_, ?_, ?_, ?_, fun f hf => absurd hf List.not_mem_nil⟩
  · rw [b1]
    cases hss : (reach3 run2 cap' rel' (regsOf3 pre)).ss with
    | mk ents zst isRel =>
      have he := F.ents
      have hz := E.zst
      have hr := E.isRel
      rw [hss] at he hz hr
      simp only at he hz hr
      rw [he, hz, hr]
  · rw [b2, F.issued]
  · rw [b4]; exact E.kinds
  · rw [b3, F.pool]; exact hres.reset_core

/-- **C16 with relation components and `Exchange`, every later history.**  Let `pre` and `post` be
    histories of the machine `Ark.RelRefine3` (all single-entity operations with relation
    components — `new`, `add`, `rem`, `xchg`, `setrel`, `set`, `del`, `copy` — through any access
    path, `shrink`, `reset`, filter operations, queries; bound `2^16`) and `regsOf3 pre` the
    component registrations of `pre`, in order.  Running `post` after `pre ++ [reset]` and running
    `post` after `regsOf3 pre` on a new world (any initial capacities, any callback runner) gives
    equivalent traces (`TraceEq`: same expressibility, same handles, same panic classes, the same
    visit records of every query up to their order) and ends in states related by `Sim`. -/
theorem reset_equiv_rel3 (run1 run2 : ProbeRunner) (cap rel cap' rel' : Nat) (pre post : List Op3)
    (hlen : pre.length + 1 + post.length < 2 ^ 16) :
    TraceEq (trace3 run1 [] (reach3 run1 cap rel (pre ++ [.base2 .reset])) post)
      (trace3 run2 [] (reach3 run2 cap' rel' (regsOf3 pre)) post) ∧
    Sim (labels3 run1 [] (reach3 run1 cap rel (pre ++ [.base2 .reset])) post)
      (reach3 run1 cap rel (pre ++ [.base2 .reset] ++ post))
      (reach3 run2 cap' rel' (regsOf3 pre ++ post)) := by
  have hl2 := regsOf3_length_le pre
  have S := sim_reset_regs3 run1 run2 cap rel cap' rel' pre (by omega)
  obtain ⟨t, _, S'⟩ := sim_run3 run1 run2 cap rel cap' rel' post (pre ++ [.base2 .reset])
    (regsOf3 pre) []
    (by simp only [List.length_append, List.length_singleton]; omega)
    (by simp only [List.length_append]; omega) S
  exact ⟨t, S'⟩

/-- **… on the model worlds**: specification, handles, registry, next handle; component set, values
    and relation targets of EVERY entity ID; `Alive` of every issued handle and of every handle
    whose generation is not the sentinel -/
theorem reset_equiv_rel3_worlds (run1 run2 : ProbeRunner) (cap rel cap' rel' : Nat)
    (pre post : List Op3) (hlen : pre.length + 1 + post.length < 2 ^ 16) :
    (reach3 run1 cap rel (pre ++ [.base2 .reset] ++ post)).ss =
      (reach3 run2 cap' rel' (regsOf3 pre ++ post)).ss ∧
    (reach3 run1 cap rel (pre ++ [.base2 .reset] ++ post)).issued =
      (reach3 run2 cap' rel' (regsOf3 pre ++ post)).issued ∧
    (reach3 run1 cap rel (pre ++ [.base2 .reset] ++ post)).w.kinds =
      (reach3 run2 cap' rel' (regsOf3 pre ++ post)).w.kinds ∧
    ((reach3 run1 cap rel (pre ++ [.base2 .reset] ++ post)).w.pool.get).2 =
      ((reach3 run2 cap' rel' (regsOf3 pre ++ post)).w.pool.get).2 ∧
    (∀ (i : Nat),
      compsOf (reach3 run1 cap rel (pre ++ [.base2 .reset] ++ post)).w i =
        compsOf (reach3 run2 cap' rel' (regsOf3 pre ++ post)).w i ∧
      (∀ (c : Comp), valOf (reach3 run1 cap rel (pre ++ [.base2 .reset] ++ post)).w i c =
        valOf (reach3 run2 cap' rel' (regsOf3 pre ++ post)).w i c) ∧
      ∀ (c : Comp), targetOf (reach3 run1 cap rel (pre ++ [.base2 .reset] ++ post)).w i c =
        targetOf (reach3 run2 cap' rel' (regsOf3 pre ++ post)).w i c) ∧
    (∀ (h : Ent), h ∈ (reach3 run1 cap rel (pre ++ [.base2 .reset] ++ post)).issued →
      (reach3 run1 cap rel (pre ++ [.base2 .reset] ++ post)).w.alive h =
        (reach3 run2 cap' rel' (regsOf3 pre ++ post)).w.alive h) ∧
    (∀ (h : Ent), h.gen ≠ maxU32 →
      (reach3 run1 cap rel (pre ++ [.base2 .reset] ++ post)).w.alive h =
        (reach3 run2 cap' rel' (regsOf3 pre ++ post)).w.alive h) := by
  have hl1 : (pre ++ [Op3.base2 .reset] ++ post).length = pre.length + 1 + post.length := by
    simp only [List.length_append, List.length_singleton]
  have hl2 : (regsOf3 pre ++ post).length ≤ pre.length + post.length := by
    have := regsOf3_length_le pre
    simp only [List.length_append]; omega
  obtain ⟨fl1, H1⟩ := reach3_inv run1 cap rel (pre ++ [.base2 .reset] ++ post) (by omega)
  obtain ⟨fl2, H2⟩ := reach3_inv run2 cap' rel' (regsOf3 pre ++ post) (by omega)
  have S := (reset_equiv_rel3 run1 run2 cap rel cap' rel' pre post hlen).2
  obtain ⟨_, _, hnext, hobs, hal⟩ := S.observe H1 H2
  refine ⟨S.ss, S.issued, S.kinds, hnext, hobs, ?_, fun h hg => hal h (Or.inl hg)⟩
  intro h hi
  exact hal h (Or.inr (H1.base.issued_in hi))

end RelRefine3

end Ark
