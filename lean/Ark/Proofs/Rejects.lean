/-
  Ark.Proofs.Rejects — precondition violations are rejected with the state unchanged: every
  structural operation of the model on a locked world, and every checked single-entity
  operation on a dead handle or with an empty component list, returns `panic` with exactly the
  state it was called on.
-/
import Ark.Model.Ops

namespace Ark.World

theorem checkLocked_locked (w : World) (h : w.isLocked = true) : checkLocked w = .panic .locked w := by
  simp [checkLocked, h]

theorem checkLocked_unlocked (w : World) (h : w.isLocked = false) : checkLocked w = .ok () w := by
  simp [checkLocked, h]

section Locked
variable (run : ProbeRunner) (w : World) (h : w.isLocked = true)
include h

theorem opNewEntity0_locked : opNewEntity0 run w = .panic .locked w := by
  unfold opNewEntity0; simp only [bind, M.bind, checkLocked, h, if_true]
theorem newEntityCore_locked (ids : List Comp) (rels : List RelID) :
    newEntityCore ids rels w = .panic .locked w := by
  unfold newEntityCore; simp only [bind, M.bind, checkLocked, h, if_true]
theorem addCore_locked (e : Ent) (a : List Comp) (r : List RelID) : addCore e a r w = .panic .locked w := by
  unfold addCore; simp only [bind, M.bind, checkLocked, h, if_true]
theorem removeCore_locked (e : Ent) (a : List Comp) : removeCore run e a w = .panic .locked w := by
  unfold removeCore; simp only [bind, M.bind, checkLocked, h, if_true]
theorem exchangeCore_locked (e : Ent) (a b : List Comp) (r : List RelID) :
    exchangeCore run e a b r w = .panic .locked w := by
  unfold exchangeCore; simp only [bind, M.bind, checkLocked, h, if_true]
theorem setRelationsCore_locked (e : Ent) (r : List RelID) : setRelationsCore run e r w = .panic .locked w := by
  unfold setRelationsCore; simp only [bind, M.bind, checkLocked, h, if_true]
theorem opRemoveEntity_locked (e : Ent) : opRemoveEntity run e w = .panic .locked w := by
  unfold opRemoveEntity; simp only [bind, M.bind, checkLocked, h, if_true]
theorem opCopyEntity_locked (e : Ent) : opCopyEntity run e w = .panic .locked w := by
  unfold opCopyEntity; simp only [bind, M.bind, checkLocked, h, if_true]
theorem opNewEntities_locked (n : Nat) (f : Bool) : opNewEntities run n f w = .panic .locked w := by
  unfold opNewEntities; simp only [bind, M.bind, checkLocked, h, if_true]
theorem opNewBatch_locked (p : Path) (n : Nat) (ids : List Comp) (v : List (Comp × Val)) (r : List RelID) (f : Bool) :
    opNewBatch run p n ids v r f w = .panic .locked w := by
  unfold opNewBatch; simp only [bind, M.bind, checkLocked, h, if_true]
theorem exchangeBatch_locked (fo : FilterObj) (ex : List RelID) (a b : List Comp) (r : List RelID)
    (v : Option (List (Comp × Val))) : exchangeBatch run fo ex a b r v w = .panic .locked w := by
  unfold exchangeBatch; simp only [bind, M.bind, checkLocked, h, if_true]
theorem setRelationsBatch_locked (fo : FilterObj) (ex r : List RelID) (f : Bool) :
    setRelationsBatch run fo ex r f w = .panic .locked w := by
  unfold setRelationsBatch; simp only [bind, M.bind, checkLocked, h, if_true]
theorem opRemoveEntities_locked (fo : FilterObj) (ex : List RelID) (f : Bool) :
    opRemoveEntities run fo ex f w = .panic .locked w := by
  unfold opRemoveEntities; simp only [bind, M.bind, checkLocked, h, if_true]
theorem opReset_locked : opReset w = .panic .locked w := by
  unfold opReset; simp only [bind, M.bind, checkLocked, h, if_true]
theorem opShrink_locked (b : Bool) : opShrink b w = .panic .locked w := by
  unfold opShrink; simp only [bind, M.bind, checkLocked, h, if_true]
theorem opLoad_locked' (d : Dump) : opLoad d w = .panic .locked w := by
  unfold opLoad; simp only [bind, M.bind, checkLocked, h, if_true]
/-- registering a new component type on a locked world is rolled back: nothing is consumed -/
theorem registerComponent_locked (k : CompKind) (hn : w.kinds.length < w.maxComps) :
    registerComponent k w = .panic .registerLocked w := by
  unfold registerComponent
  have : ¬ w.kinds.length ≥ w.maxComps := by omega
  simp [this, h]

end Locked

section Dead
variable (run : ProbeRunner) (w : World) (hl : w.isLocked = false) (e : Ent) (hd : w.alive e = false)
include hl hd

theorem addCore_dead (a : List Comp) (r : List RelID) : addCore e a r w = .panic .deadEntity w := by
  unfold addCore; simp [bind, M.bind, checkLocked, hl, hd, M.get, M.assert]
theorem removeCore_dead (a : List Comp) : removeCore run e a w = .panic .deadEntity w := by
  unfold removeCore; simp [bind, M.bind, checkLocked, hl, hd, M.get, M.assert]
theorem exchangeCore_dead (a b : List Comp) (r : List RelID) :
    exchangeCore run e a b r w = .panic .deadEntity w := by
  unfold exchangeCore; simp [bind, M.bind, checkLocked, hl, hd, M.get, M.assert]
theorem setRelationsCore_dead (r : List RelID) : setRelationsCore run e r w = .panic .deadEntity w := by
  unfold setRelationsCore; simp [bind, M.bind, checkLocked, hl, hd, M.get, M.assert]
theorem opRemoveEntity_dead : opRemoveEntity run e w = .panic .deadEntity w := by
  unfold opRemoveEntity; simp [bind, M.bind, checkLocked, hl, hd, M.get, M.assert]
theorem opCopyEntity_dead : opCopyEntity run e w = .panic .deadEntity w := by
  unfold opCopyEntity; simp [bind, M.bind, checkLocked, hl, hd, M.get, M.assert]
omit hl in
theorem opSet_dead (ids : List Comp) (v : List (Comp × Val)) : opSet run e ids v w = .panic .deadEntity w := by
  unfold opSet; simp [bind, M.bind, hd, M.get, M.assert]
end Dead

section Empty
variable (run : ProbeRunner) (w : World) (hl : w.isLocked = false) (e : Ent) (ha : w.alive e = true)
include hl ha

theorem addCore_noComponents (r : List RelID) : addCore e [] r w = .panic .noComponents w := by
  unfold addCore; simp [bind, M.bind, checkLocked, hl, ha, M.get, M.assert]
theorem removeCore_noComponents : removeCore run e [] w = .panic .noComponents w := by
  unfold removeCore; simp [bind, M.bind, checkLocked, hl, ha, M.get, M.assert]
theorem exchangeCore_noComponents (r : List RelID) : exchangeCore run e [] [] r w = .panic .noComponents w := by
  unfold exchangeCore; simp [bind, M.bind, checkLocked, hl, ha, M.get, M.assert]
theorem setRelationsCore_noRelations : setRelationsCore run e [] w = .panic .noRelations w := by
  unfold setRelationsCore; simp [bind, M.bind, checkLocked, hl, ha, M.get, M.assert]
end Empty

/-- The mask walk of `graph.FindAdd` rejects a component that is already present, without effect. -/
theorem graphFindAdd_state (m : Mask) (add : List Comp) (w : World) :
    (graphFindAdd m add w).state = w := by
  unfold graphFindAdd
  generalize m = mm
  induction add generalizing mm with
  | nil => simp [graphFindAdd.go, Res.state]
  | cons c rest ih =>
    simp only [graphFindAdd.go]
    split
    · rfl
    · exact ih _

theorem graphFindAdd_already (m : Mask) (c : Comp) (rest : List Comp) (w : World) (h : m.get c = true) :
    graphFindAdd m (c :: rest) w = .panic .alreadyHas w := by
  simp [graphFindAdd, graphFindAdd.go, h]

theorem graphFindRemove_missing (m : Mask) (c : Comp) (rest : List Comp) (w : World) (h : m.get c = false) :
    graphFindRemove m (c :: rest) w = .panic .missing w := by
  simp [graphFindRemove, graphFindRemove.go, h]

end Ark.World
