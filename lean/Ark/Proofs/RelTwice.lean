/-
  Ark.Proofs.RelTwice — the repair of defect D26: `archetype.getTableSlowPath` refuses a relation
  list that names one relation component twice.

  Before the repair `GetTable` accepted such a list whenever a matching table existed: the count
  check `len(relations) < numRelations` was satisfied by the duplicate, `MatchesExact` matched
  both entries against the same column, and the entity was put into that table — it got a target
  for ANOTHER relation component that nobody had specified (which one depended on the order of
  the tables).  `createTable` refuses such lists since the repair of D18, but is only reached when
  no table matches.  The repaired slow path panics "relation component %d specified more than
  once" (`relTwice`) right after the count check (`World.getTable`, `World.namedTwice`).

  * `getTable_rel_twice`, `getTable_some_nodup` (in `Ark/Proofs/TargetsMove.lean`);
  * `findOrCreateTableAdd_relTwice` — when the archetype of the new mask EXISTS, has relation
    columns and an active table, the lookup panics `relTwice` and the world is unchanged (no
    archetype, no table is created);
  * `findOrCreateTableAdd_ok_nodup` — an accepted lookup into an archetype with relation columns
    was given a relation list naming no relation component twice (now true whether a table
    existed or had to be created);
  * `newEntityCore_relTwice` / `opNewEntity_relTwice`, `addCore_relTwice` / `opAdd_relTwice` —
    the same at the level of `World.newEntity` / `World.add` and of the API, on every path.

  What remains a LATE finding: when the archetype does not exist yet, or exists without an active
  table, `GetTable` answers "no table" before any check, and `createTable` refuses the list after
  `findOrCreateArch` has created the archetype (`Ark/Props/C04Hist.lean` § 7 (f)).
  Kernel-only proofs, core Lean only.
-/
import Ark.Proofs.TargetsMove
import Ark.Proofs.RelRejects

set_option autoImplicit false

namespace Ark
namespace World

/-- `findOrCreateArch` on a mask whose archetype exists: the archetype, nothing changes -/
theorem findOrCreateArch_found {w : World} {mask : Mask} {a : Nat}
    (hf : w.findArch mask = some a) : findOrCreateArch mask w = .ok a w := by
  simp only [findOrCreateArch, hf]

/-- **D26 repaired, the table lookup of `NewEntity` / `Add`**: the new mask's archetype exists,
    has relation columns and an active table; the relation list (old table's relations, then the
    given ones) passes the count check and names a relation component twice: `relTwice`, the
    world unchanged -/
theorem findOrCreateTableAdd_relTwice (oldT : Nat) (m : Mask) (add : List Comp)
    (rels : List RelID) (w : World)
    (hnew : ∀ (c : Comp), c ∈ add → m.get c = false) (hnd : add.Nodup) {a : Nat}
    (hf : w.findArch (add.foldl Mask.set m) = some a)
    (hr : (w.arch a).hasRelations = true) (hne : (w.arch a).tables.tables.isEmpty = false)
    (hlen : (w.arch a).numRel ≤ (relsForAdd (w.tbl oldT) rels).length)
    (hd : ¬ ((relsForAdd (w.tbl oldT) rels).map (·.comp)).Nodup) :
    findOrCreateTableAdd oldT m add rels w = .panic .relTwice w := by
  simp only [findOrCreateTableAdd, bind, M.bind, graphFindAdd_ok m add w hnew hnd,
    findOrCreateArch_found hf, M.get, getTable_rel_twice hr hne hlen hd]

/-- **accepted ⇒ no relation component named twice**: a table lookup that succeeds into an
    archetype with relation columns was given a duplicate-free relation list — whether the table
    existed (`getTable`, since the repair of D26) or was created (`createTable`, since D18) -/
theorem findOrCreateTableAdd_ok_nodup {oldT : Nat} {m : Mask} {add : List Comp}
    {rels : List RelID} {w w' : World} {t a : Nat} {mask : Mask}
    (h : findOrCreateTableAdd oldT m add rels w = .ok (t, a, mask) w')
    (hr : (w'.arch a).hasRelations = true) :
    ((relsForAdd (w.tbl oldT) rels).map (·.comp)).Nodup := by
  simp only [findOrCreateTableAdd, bind, M.bind] at h
  cases hg : graphFindAdd m add w with
  | panic k s => rw [hg] at h; cases h
  | ok mk s =>
    have hs : s = w := by
      have := graphFindAdd_state m add w
      rw [hg] at this; exact this
    subst hs
    rw [hg] at h
    simp only at h
    cases hfa : findOrCreateArch mk s with
    | panic k s1 => rw [hfa] at h; cases h
    | ok a1 w1 =>
      rw [hfa] at h
      simp only [M.get] at h
      have htb : w1.tbl oldT = s.tbl oldT := by
        simp only [World.tbl, findOrCreateArch_tables hfa]
      rw [htb] at h
      cases hgt : getTable a1 (relsForAdd (s.tbl oldT) rels) w1 with
      | panic k s2 => rw [hgt] at h; cases h
      | ok r s2 =>
        have hs2 := getTable_ok_state hgt
        subst hs2
        rw [hgt] at h
        cases r with
        | some t1 =>
          simp only [pure, M.pure] at h
          injection h with h1 h2
          injection h1 with _ h1
          injection h1 with h1 _
          subst h1; subst h2
          exact getTable_some_nodup hr hgt
        | none =>
          cases hct : createTable a1 (relsForAdd (s.tbl oldT) rels) s2 with
          | panic k s3 => simp only [M.bind, hct] at h; cases h
          | ok t1 s3 => exact createTable_ok_nodup hct

/-- `World.newEntity` (D26 repaired) -/
theorem newEntityCore_relTwice (ids : List Comp) (rels : List RelID) (w : World)
    (hl : w.isLocked = false) (hnd : ids.Nodup) {a : Nat}
    (hf : w.findArch (ids.foldl Mask.set Mask.empty) = some a)
    (hr : (w.arch a).hasRelations = true) (hne : (w.arch a).tables.tables.isEmpty = false)
    (hlen : (w.arch a).numRel ≤ (relsForAdd (w.tbl 0) rels).length)
    (hd : ¬ ((relsForAdd (w.tbl 0) rels).map (·.comp)).Nodup) :
    newEntityCore ids rels w = .panic .relTwice w := by
  simp only [newEntityCore, bind, M.bind, checkLocked_unlocked w hl,
    findOrCreateTableAdd_relTwice 0 Mask.empty ids rels w (fun c _ => Mask.get_empty c) hnd hf hr
      hne hlen hd]

/-- **`NewEntity` naming one relation component twice** (any path; the relations pass the
    pre-validation; the archetype of `ids` exists, has relation columns and an active table):
    before the repair of D26 the call was ACCEPTED when a table matched — the duplicate stood in
    for a relation component that was not named; now `relTwice`, the world unchanged -/
theorem opNewEntity_relTwice (run : ProbeRunner) (p : Path) (ids : List Comp)
    (vals : List (Comp × Val)) (rels : List RelID) (w : World)
    (hpre : relsVerdict w (checkMask p ids) rels = none)
    (hl : w.isLocked = false) (hnd : ids.Nodup) {a : Nat}
    (hf : w.findArch (ids.foldl Mask.set Mask.empty) = some a)
    (hr : (w.arch a).hasRelations = true) (hne : (w.arch a).tables.tables.isEmpty = false)
    (hlen : (w.arch a).numRel ≤ (relsForAdd (w.tbl 0) rels).length)
    (hd : ¬ ((relsForAdd (w.tbl 0) rels).map (·.comp)).Nodup) :
    opNewEntity run p ids vals rels w = .panic .relTwice w := by
  have hp : preCheck p ids rels w = .ok () w := by rw [preCheck_eq, hpre]
  simp only [opNewEntity, bind, M.bind, hp,
    newEntityCore_relTwice ids rels w hl hnd hf hr hne hlen hd]

/-- `World.add` (D26 repaired) -/
theorem addCore_relTwice (e : Ent) (ids : List Comp) (rels : List RelID) (w : World)
    (hl : w.isLocked = false) (ha : w.alive e = true) (hne0 : ids ≠ [])
    (hnew : ∀ (c : Comp), c ∈ ids → (w.maskOf e).get c = false) (hnd : ids.Nodup) {a : Nat}
    (hf : w.findArch (ids.foldl Mask.set (w.maskOf e)) = some a)
    (hr : (w.arch a).hasRelations = true) (hne : (w.arch a).tables.tables.isEmpty = false)
    (hlen : (w.arch a).numRel ≤ (relsForAdd (w.tbl (w.index e.id).1) rels).length)
    (hd : ¬ ((relsForAdd (w.tbl (w.index e.id).1) rels).map (·.comp)).Nodup) :
    addCore e ids rels w = .panic .relTwice w := by
  have hemp : ids.isEmpty = false := by
    cases ids with
    | nil => exact absurd rfl hne0
    | cons c cs => rfl
  have hm : (w.arch (w.tbl (w.index e.id).1).arch).mask = w.maskOf e := rfl
  have := findOrCreateTableAdd_relTwice (w.index e.id).1 (w.maskOf e) ids rels w hnew hnd hf hr
    hne hlen hd
  simp only [addCore, bind, M.bind, checkLocked_unlocked w hl, M.get, M.assert, ha, hemp,
    Bool.not_false, if_true, hm, this]

/-- **`Add` naming one relation component twice** (any path; `e` alive; the relations pass the
    pre-validation; the archetype `mask(e) ∪ ids` exists, has relation columns and an active
    table): `relTwice`, the world unchanged -/
theorem opAdd_relTwice (run : ProbeRunner) (p : Path) (e : Ent) (ids : List Comp)
    (vals : List (Comp × Val)) (rels : List RelID) (w : World)
    (hpre : relsVerdict w (checkMask (p.addCheck ids) ids) rels = none)
    (hl : w.isLocked = false) (ha : w.alive e = true) (hne0 : ids ≠ [])
    (hnew : ∀ (c : Comp), c ∈ ids → (w.maskOf e).get c = false) (hnd : ids.Nodup) {a : Nat}
    (hf : w.findArch (ids.foldl Mask.set (w.maskOf e)) = some a)
    (hr : (w.arch a).hasRelations = true) (hne : (w.arch a).tables.tables.isEmpty = false)
    (hlen : (w.arch a).numRel ≤ (relsForAdd (w.tbl (w.index e.id).1) rels).length)
    (hd : ¬ ((relsForAdd (w.tbl (w.index e.id).1) rels).map (·.comp)).Nodup) :
    opAdd run p e ids vals rels w = .panic .relTwice w := by
  have hp : preCheck (p.addCheck ids) ids rels w = .ok () w := by rw [preCheck_eq, hpre]
  have hc := addCore_relTwice e ids rels w hl ha hne0 hnew hnd hf hr hne hlen hd
  cases p <;> simp [opAdd, bind, M.bind, M.get, M.assert, ha, hp, hc]

end World
end Ark
