/-
  Ark.Proofs.BatchRelSingles — C06 + C04 with relations, part 5: `RemoveEntities(batch, nil)`
  against `RemoveEntity` applied to every selected entity, in a world WITH relations where some
  of the removed entities are relation targets.

  * `removeSeq_rel_post` — the singles: `RemoveEntity` applied, in any order, to alive handles
    with distinct IDs satisfies `RemovedAllRelPost` (the postcondition of the batch);
  * `RemovedAllRelPost.obs_eq` — two worlds obtained by removing the same set of entities are
    observationally equal: same liveness of every handle, same components, values and relation
    targets of every ID;
  * `getBatchTables_rel`, `mem_rows_iff_matches` — the selection of an uncached batch with (typed)
    relation constraints: exactly the alive entities whose component set passes the mask test
    and whose targets are the ones asked for;
  * `opRemoveEntities_rel_eq_singles`, `opRemoveEntities_rel_any_order` — batch = singles.
  Kernel-only proofs, core Lean only.
-/
import Ark.Proofs.BatchRelRemove
import Ark.Proofs.RelSpecs

set_option autoImplicit false

namespace Ark

open World Ark.Props.C01World QueryRel

/-! ## 1. the single removals -/

theorem zeroIn_zero (es : List Ent) : zeroIn es Ent.zero = Ent.zero := by
  unfold zeroIn
  split
  · rfl
  · rfl

theorem map_zeroIn_cons (e : Ent) (l : List Ent) (o : Option Ent) : (zeroed e o).map (zeroIn l) = o.map (zeroIn (e :: l)) := by
  cases o with
  | none => simp [zeroed]
  | some x =>
    unfold zeroed
    by_cases hx : x = e
    · subst hx
      rw [if_pos rfl]
      simp only [Option.map_some, Option.some.injEq]
      rw [zeroIn_zero l]
      unfold zeroIn
      rw [if_pos List.mem_cons_self]
    · rw [if_neg (fun hh => hx (Option.some.inj hh))]
      simp only [Option.map_some, Option.some.injEq]
      unfold zeroIn
      by_cases hm : x ∈ l
      · rw [if_pos hm, if_pos (List.mem_cons_of_mem _ hm)]
      · rw [if_neg hm, if_neg (fun hh => by
          rcases List.mem_cons.1 hh with h1 | h1
          · exact hx h1
          · exact hm h1)]

/-- **the singles**: `RemoveEntity` applied, in any order, to alive handles with distinct IDs, in
    a world with relations (targets among them or not) -/
theorem removeSeq_rel_post (run : ProbeRunner) : ∀ (l : List Ent) {w : World} {fl : List Nat},
    TInv w fl → RowsAlive w → w.isLocked = false →
    (∀ (evt : Nat), w.obs.hasObservers evt = false) →
    (∀ (e : Ent), e ∈ l → 2 ≤ e.id ∧ e.id ∉ fl ∧ w.alive e = true) →
    (∀ (e : Ent), e ∈ l → e.id < w.pool.ents.length) →
    (l.map (·.id)).Nodup →
    w.tables.length + l.length * w.relationArchetypes.length + 1 ≤ maxU32 →
    2 * w.entities.length < 2 ^ 32 →
    ∃ (w'' : World), removeSeq run l w = .ok () w'' ∧ RemovedAllRelPost w fl l w''
  | [], w, fl, h, _, _, _, _, _, _, _, _ =>
    ⟨w, rfl,
      { tinv := by simpa using h
        pool := rfl
        removedAlive := by intro e he; cases he
        aliveFrame := fun _ _ => rfl
        frame := fun j _ => ⟨⟨fun _ => rfl, rfl⟩, fun c => by
          cases targetOf w j c with
          | none => rfl
          | some x => simp [zeroIn]⟩
        unindexed := by intro e he; cases he
        obs := rfl, locks := rfl, kinds := rfl, maxComps := rfl, relationArchetypes := rfl
        entitiesLen := rfl
        tablesLen := by simp
        qk := QKeep.refl w }⟩
  | e :: l, w, fl, h, hR, hl, hno, hlive, hlin, hnd, hfew, hrows => by
    obtain ⟨h2, hnf, ha⟩ := hlive e List.mem_cons_self
    have hsl := hlin e List.mem_cons_self
    have hnd' : e.id ∉ l.map (·.id) ∧ (l.map (·.id)).Nodup := by
      rw [List.map_cons] at hnd; exact List.nodup_cons.mp hnd
    have hfew1 : w.tables.length + w.relationArchetypes.length + 1 ≤ maxU32 := by
      simp only [List.length_cons, Nat.add_mul, Nat.one_mul] at hfew; omega
    obtain ⟨w1, hok, rp⟩ := opRemoveEntity_rel_spec run h hl hno h2 hnf ha hsl hfew1 hrows
    have more := opRemoveEntity_rel_more run h hl hno h2 hnf ha hsl hfew1 hrows hok
    obtain ⟨w1', hok', q1, hlk⟩ := opRemoveEntity_qkeep run h hl hno h2 hnf ha hsl hfew1 hrows
    rw [hok] at hok'
    injection hok' with _ hw
    subst hw
    obtain ⟨t0, r0, he, ht, hs⟩ := h.link.live_entry h2 hnf ha hsl
    have hin : e.id < w.pool.ents.length := (List.getElem?_eq_some_iff.mp hs).1
    have hne : ∀ (e' : Ent), e' ∈ l → e'.id ≠ e.id := by
      intro e' he' heq
      exact hnd'.1 (heq ▸ List.mem_map_of_mem he')
    have hlive1 : ∀ (e' : Ent), e' ∈ l → 2 ≤ e'.id ∧ e'.id ∉ e.id :: fl ∧ w1.alive e' = true := by
      intro e' he'
      obtain ⟨a, b, c⟩ := hlive e' (List.mem_cons_of_mem _ he')
      refine ⟨a, ?_, by rw [rp.aliveFrame e' (hne e' he')]; exact c⟩
      intro hm
      rcases List.mem_cons.mp hm with hm | hm
      · exact hne e' he' hm
      · exact b hm
    have hfew2 : w1.tables.length + l.length * w1.relationArchetypes.length + 1 ≤ maxU32 := by
      have := rp.tablesLen
      rw [more.relArchs]
      simp only [List.length_cons, Nat.add_mul, Nat.one_mul] at hfew
      omega
    obtain ⟨w'', hrest, ip⟩ := removeSeq_rel_post run l rp.tinv (q1.rows hR)
      (by show w1.locks.isLocked = false; rw [rp.locks]; exact hl)
      (fun evt => by rw [rp.obs]; exact hno evt) hlive1
      (fun e' he' => by
        rw [more.pool, (Pool.recycle_spec w.pool fl e h.link.pool h2 hnf hs).2.2.2.1]
        exact hlin e' (List.mem_cons_of_mem _ he')) hnd'.2 hfew2
      (by rw [rp.entitiesLen]; exact hrows)
    refine ⟨w'', ?_, ?_⟩
    · simp only [removeSeq, M.forM', bind, M.bind, hok]
      exact hrest
    · have hfl : (e :: l).reverse.map (·.id) ++ fl = l.reverse.map (·.id) ++ e.id :: fl := by simp
      exact
        { tinv := by rw [hfl]; exact ip.tinv
          pool := by rw [ip.pool, more.pool]; rfl
          removedAlive := by
            intro e' he' x hx
            rcases List.mem_cons.mp he' with rfl | he'
            · rw [ip.aliveFrame x (by rw [hx]; exact hnd'.1)]
              obtain ⟨_, rslot, _, rlen, _, _⟩ := Pool.recycle_spec w.pool fl e' h.link.pool h2 hnf hs
              show w1.pool.alive x = _
              rw [Pool.alive_of_lt x (by rw [hx, more.pool, rlen]; exact hin), more.pool, hx, rslot]
            · exact ip.removedAlive e' he' x hx
          aliveFrame := by
            intro x hx
            simp only [List.map_cons, List.mem_cons, not_or] at hx
            rw [ip.aliveFrame x hx.2, rp.aliveFrame x hx.1]
          frame := by
            intro j hj
            simp only [List.map_cons, List.mem_cons, not_or] at hj
            refine ⟨((rp.frame j hj.1).1).trans (ip.frame j hj.2).1, fun c => ?_⟩
            rw [(ip.frame j hj.2).2 c, (rp.frame j hj.1).2 c]
            exact map_zeroIn_cons e l _
          unindexed := by
            intro e' he'
            rcases List.mem_cons.mp he' with rfl | he'
            · have hs' := ip.frame e'.id hnd'.1
              refine ⟨fun c => by rw [hs'.1.1 c]; exact rp.unindexed.1 c,
                by rw [hs'.1.2]; exact rp.unindexed.2.1, fun c => ?_⟩
              rw [hs'.2 c, rp.unindexed.2.2 c]; rfl
            · exact ip.unindexed e' he'
          obs := ip.obs.trans rp.obs
          locks := ip.locks.trans rp.locks
          kinds := ip.kinds.trans rp.kinds
          maxComps := ip.maxComps.trans more.maxComps
          relationArchetypes := ip.relationArchetypes.trans more.relArchs
          entitiesLen := ip.entitiesLen.trans rp.entitiesLen
          tablesLen := by
            have h1 := ip.tablesLen
            have h2' := rp.tablesLen
            rw [more.relArchs] at h1
            simp only [List.length_cons, Nat.add_mul, Nat.one_mul]
            omega
          qk := q1.trans ip.qk }

/-! ## 2. removing the same set of entities gives observationally equal worlds -/

theorem zeroIn_congr {es es' : List Ent} (hmem : ∀ (e : Ent), e ∈ es ↔ e ∈ es') (x : Ent) :
    zeroIn es x = zeroIn es' x := by
  unfold zeroIn
  by_cases hx : x ∈ es
  · rw [if_pos hx, if_pos ((hmem x).1 hx)]
  · rw [if_neg hx, if_neg (fun hh => hx ((hmem x).2 hh))]

/-- two worlds obtained from `w` by removing the same entities (in whatever order, by the batch
    or one by one) are observationally equal: same liveness of every handle, same components,
    values and relation targets of every ID; the rest of the observable state is that of `w` -/
theorem RemovedAllRelPost.obs_eq {w w' w'' : World} {fl : List Nat} {es es' : List Ent}
    (p' : RemovedAllRelPost w fl es w') (p'' : RemovedAllRelPost w fl es' w'')
    (hmem : ∀ (e : Ent), e ∈ es ↔ e ∈ es') :
    (∀ (x : Ent), w'.alive x = w''.alive x) ∧
    (∀ (i : Nat) (c : Comp), valOf w' i c = valOf w'' i c) ∧
    (∀ (i : Nat), compsOf w' i = compsOf w'' i) ∧
    (∀ (i : Nat) (c : Comp), targetOf w' i c = targetOf w'' i c) ∧
    w'.isLocked = w''.isLocked ∧ w'.kinds = w''.kinds := by
  have hids : ∀ (i : Nat), i ∈ es.map (·.id) ↔ i ∈ es'.map (·.id) := by
    intro i
    simp only [List.mem_map]
    exact ⟨fun ⟨e, he, hi⟩ => ⟨e, (hmem e).mp he, hi⟩, fun ⟨e, he, hi⟩ => ⟨e, (hmem e).mpr he, hi⟩⟩
  refine ⟨?_, ?_, ?_, ?_, ?_, by rw [p'.kinds, p''.kinds]⟩
  · intro x
    by_cases hx : x.id ∈ es.map (·.id)
    · obtain ⟨e, he, hi⟩ := List.mem_map.mp hx
      rw [p'.removedAlive e he x hi.symm, p''.removedAlive e ((hmem e).mp he) x hi.symm]
    · rw [p'.aliveFrame x hx, p''.aliveFrame x (fun hh => hx ((hids _).mpr hh))]
  · intro i c
    by_cases hx : i ∈ es.map (·.id)
    · obtain ⟨e, he, hi⟩ := List.mem_map.mp hx
      rw [← hi, (p'.unindexed e he).1 c, (p''.unindexed e ((hmem e).mp he)).1 c]
    · rw [(p'.frame i hx).1.1 c, (p''.frame i (fun hh => hx ((hids _).mpr hh))).1.1 c]
  · intro i
    by_cases hx : i ∈ es.map (·.id)
    · obtain ⟨e, he, hi⟩ := List.mem_map.mp hx
      rw [← hi, (p'.unindexed e he).2.1, (p''.unindexed e ((hmem e).mp he)).2.1]
    · rw [(p'.frame i hx).1.2, (p''.frame i (fun hh => hx ((hids _).mpr hh))).1.2]
  · intro i c
    by_cases hx : i ∈ es.map (·.id)
    · obtain ⟨e, he, hi⟩ := List.mem_map.mp hx
      rw [← hi, (p'.unindexed e he).2.2 c, (p''.unindexed e ((hmem e).mp he)).2.2 c]
    · rw [(p'.frame i hx).2 c, (p''.frame i (fun hh => hx ((hids _).mpr hh))).2 c]
      cases targetOf w i c with
      | none => rfl
      | some x => simp only [Option.map_some, zeroIn_congr hmem]
  · show w'.locks.isLocked = w''.locks.isLocked
    rw [p'.locks, p''.locks]

/-! ## 3. the selection of a batch with relation constraints -/

/-- **the table selection of an uncached batch** whose relations (fixed by the filter and per
    call) are typed: `getBatchTables` succeeds without changing the world; the list has no
    duplicates, consists of existing non-free tables that match (`TblMatch`: archetype mask and
    the targets asked for) and contains every non-empty matching table -/
theorem getBatchTables_rel {w : World} {fl : List Nat} (h : TInv w fl) (fo : FilterObj)
    (extra : List RelID) (hc : fo.cache = none)
    (hr : RelsTyped w fo.filter (fo.rels ++ extra)) :
    ∃ (ts : List Nat), getBatchTables fo extra w = .ok ts w ∧ TableSet w ts ∧
      RelTablesOK w fo.filter (fo.rels ++ extra) ts ∧
      ∀ (t : Nat), t ∈ ts → (w.tbl t).isFree = false := by
  have H := tablesInv_of_rel h.rel
  have hok := relsOK_of_typed h.rel.sinv.toSInvMid hr
  obtain ⟨ts, hts, hnd, hmem⟩ := getCacheTables_spec H hok
  refine ⟨ts, ?_, ?_, ?_, fun t ht => ((selected_iff_match h.rel hr t).mp ((hmem t).mp ht)).2.1⟩
  · rw [getBatchTables_uncached fo extra w hc, hts]
  · exact ⟨hnd, fun t ht => ((selected_iff_match h.rel hr t).mp ((hmem t).mp ht)).1⟩
  · refine ⟨hnd, ?_, ?_⟩
    · intro t ht
      have := (selected_iff_match h.rel hr t).mp ((hmem t).mp ht)
      exact ⟨this.1, this.2.2⟩
    · intro t ht hl hm
      exact (hmem t).mpr ((selected_iff_match h.rel hr t).mpr ⟨ht, notFree_of_rows h.freeEmpty ht hl, hm⟩)

/-- **the selected entities are exactly the alive entities that match**: the handles stored in
    the rows of a good table list are the alive entities whose component set passes the filter's
    mask test and whose relation targets are the ones asked for -/
theorem mem_rows_iff_matches {w : World} {fl : List Nat} (h : TInv w fl) (hR : RowsAlive w)
    {f : Filter} {rels : List RelID} {ts : List Nat} (hok : RelTablesOK w f rels ts) (e : Ent) :
    e ∈ ts.flatMap (rowsOf w) ↔ w.alive e = true ∧ EntMatches w f rels e.id := by
  have hS := h.rel.sinv.toSInvMid
  have hfew := h.link.fewTables
  rw [mem_rows]
  constructor
  · rintro ⟨t, r, ht, hr, rfl⟩
    obtain ⟨hlt, hm, htg⟩ := hok.sound t ht
    obtain ⟨_, _, hx⟩ := h.link.row_live_id hlt hr
    have htm : t ≠ maxU32 := by omega
    refine ⟨hR.tbl hr, ⟨_, compsOf_of_entry hx htm hlt, ?_⟩, ?_⟩
    · rw [ofList_ids hS (get_of_lt hlt)]; exact hm
    · intro rl hrl
      rw [targetOf_of_entry hx htm (get_of_lt hlt)]; exact htg rl hrl
  · rintro ⟨hal, ⟨cs, hcs, hm⟩, hall⟩
    obtain ⟨t, r, hi, htm, hlt, rfl⟩ := entry_of_compsOf hcs
    rw [ofList_ids hS (get_of_lt hlt)] at hm
    obtain ⟨_, hrow, hid⟩ := h.link.idx.indexed hi htm
    have hts : t ∈ ts := by
      refine hok.complete t hlt (by omega) ⟨hm, ?_⟩
      intro rl hrl
      rw [← targetOf_of_entry hi htm (get_of_lt hlt)]; exact hall rl hrl
    refine ⟨t, r, hts, hrow, ?_⟩
    exact h.link.alive_inj (hR.tbl hrow) hal hid

/-! ## 4. batch = singles -/

/-- **C06 + C04, removal with relation targets among the removed**: `RemoveEntities(batch, nil)`
    on an unlocked world without observers satisfying `TInv` whose rows hold alive handles, for an
    uncached filter with typed relation constraints.  The batch selects exactly the alive
    entities that match (`mem_rows_iff_matches`); both the batch and `RemoveEntity` applied to
    these handles in the batch's order succeed and satisfy `RemovedAllRelPost`: every selected
    entity is dead and un-indexed, every other entity keeps liveness, components and values, its
    targets are unchanged except that a removed target reads as the zero entity, `TInv` holds
    with the IDs pushed on the free list in table/row order, and the two pools are EQUAL. -/
theorem opRemoveEntities_rel_eq_singles (run : ProbeRunner) {w : World} {fl : List Nat}
    (h : TInv w fl) (hR : RowsAlive w) (hl : w.isLocked = false)
    (hno : ∀ (evt : Nat), w.obs.hasObservers evt = false) (fo : FilterObj) (extra : List RelID)
    (hc : fo.cache = none) (hr : RelsTyped w fo.filter (fo.rels ++ extra))
    (hrows : 2 * w.entities.length < 2 ^ 32) :
    ∃ (ts : List Nat), getBatchTables fo extra w = .ok ts w ∧
      (∀ (e : Ent), e ∈ ts.flatMap (rowsOf w) ↔
        w.alive e = true ∧ EntMatches w fo.filter (fo.rels ++ extra) e.id) ∧
      (w.tables.length + (ts.flatMap (rowsOf w)).length * w.relationArchetypes.length + 1 ≤ maxU32 →
        ∃ (w' w'' : World), opRemoveEntities run fo extra false w = .ok () w' ∧
          removeSeq run (ts.flatMap (rowsOf w)) w = .ok () w'' ∧
          RemovedAllRelPost w fl (ts.flatMap (rowsOf w)) w' ∧
          RemovedAllRelPost w fl (ts.flatMap (rowsOf w)) w'' ∧ w'.pool = w''.pool) := by
  obtain ⟨ts, hts, S, hok, _⟩ := getBatchTables_rel h fo extra hc hr
  refine ⟨ts, hts, mem_rows_iff_matches h hR hok, ?_⟩
  intro hfew
  have u := removeTablesW_link h.link hR S
  have hfewB : w.tables.length + (cleanupList w ts).length * w.relationArchetypes.length + 1 ≤
      maxU32 := by
    have : (cleanupList w ts).length ≤ (ts.flatMap (rowsOf w)).length := List.length_filter_le _ _
    have := Nat.mul_le_mul_right w.relationArchetypes.length this
    omega
  obtain ⟨w', hb, pb⟩ := opRemoveEntities_rel_spec run h hR hl hno fo extra hts S hfewB hrows
  obtain ⟨w'', hs, ps⟩ := removeSeq_rel_post run (ts.flatMap (rowsOf w)) h hR hl hno
    (fun e he => ⟨(u.live e he).1, (u.live e he).2.1, (u.live e he).2.2.1⟩)
    (fun e he => by
      obtain ⟨t, r, _, hx⟩ := (u.live e he).2.2.2
      rw [← h.link.lenEq]; exact (List.getElem?_eq_some_iff.mp hx).1) u.idsNodup hfew hrows
  exact ⟨w', w'', hb, hs, pb, ps, by rw [pb.pool, ps.pool]⟩

/-- **order independence**: removing the selected entities one by one in ANY order gives a world
    with the same liveness, components, values and relation targets as the batch; only the
    free-list order (hence the identity of handles issued later) differs -/
theorem opRemoveEntities_rel_any_order (run : ProbeRunner) {w : World} {fl : List Nat}
    (h : TInv w fl) (hR : RowsAlive w) (hl : w.isLocked = false)
    (hno : ∀ (evt : Nat), w.obs.hasObservers evt = false) (fo : FilterObj) (extra : List RelID)
    (hc : fo.cache = none) (hr : RelsTyped w fo.filter (fo.rels ++ extra))
    (hrows : 2 * w.entities.length < 2 ^ 32) :
    ∃ (ts : List Nat), getBatchTables fo extra w = .ok ts w ∧
      ∀ (es' : List Ent), es'.Perm (ts.flatMap (rowsOf w)) →
        w.tables.length + es'.length * w.relationArchetypes.length + 1 ≤ maxU32 →
        ∃ (w' w'' : World), opRemoveEntities run fo extra false w = .ok () w' ∧
          removeSeq run es' w = .ok () w'' ∧
          RemovedAllRelPost w fl (ts.flatMap (rowsOf w)) w' ∧ RemovedAllRelPost w fl es' w'' ∧
          (∀ (x : Ent), w'.alive x = w''.alive x) ∧
          (∀ (i : Nat) (c : Comp), valOf w' i c = valOf w'' i c) ∧
          (∀ (i : Nat), compsOf w' i = compsOf w'' i) ∧
          (∀ (i : Nat) (c : Comp), targetOf w' i c = targetOf w'' i c) ∧
          w'.isLocked = w''.isLocked := by
  obtain ⟨ts, hts, S, _, _⟩ := getBatchTables_rel h fo extra hc hr
  refine ⟨ts, hts, ?_⟩
  intro es' hperm hfew
  have u := removeTablesW_link h.link hR S
  have hfewB : w.tables.length + (cleanupList w ts).length * w.relationArchetypes.length + 1 ≤
      maxU32 := by
    have h1 : (cleanupList w ts).length ≤ (ts.flatMap (rowsOf w)).length := List.length_filter_le _ _
    rw [← hperm.length_eq] at h1
    have := Nat.mul_le_mul_right w.relationArchetypes.length h1
    omega
  obtain ⟨w', hb, pb⟩ := opRemoveEntities_rel_spec run h hR hl hno fo extra hts S hfewB hrows
  have hlive : ∀ (e : Ent), e ∈ es' → 2 ≤ e.id ∧ e.id ∉ fl ∧ w.alive e = true := by
    intro e he
    have he' := hperm.mem_iff.mp he
    exact ⟨(u.live e he').1, (u.live e he').2.1, (u.live e he').2.2.1⟩
  have hnd : (es'.map (·.id)).Nodup := (hperm.map (·.id)).nodup_iff.mpr u.idsNodup
  have hlin : ∀ (e : Ent), e ∈ es' → e.id < w.pool.ents.length := by
    intro e he
    obtain ⟨t, r, _, hx⟩ := (u.live e (hperm.mem_iff.mp he)).2.2.2
    rw [← h.link.lenEq]; exact (List.getElem?_eq_some_iff.mp hx).1
  obtain ⟨w'', hs, ps⟩ := removeSeq_rel_post run es' h hR hl hno hlive hlin hnd hfew hrows
  obtain ⟨o1, o2, o3, o4, o5, _⟩ := pb.obs_eq ps (fun e => hperm.mem_iff.symm)
  exact ⟨w', w'', hb, hs, pb, ps, o1, o2, o3, o4, o5⟩

end Ark
