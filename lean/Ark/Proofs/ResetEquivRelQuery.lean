/-
  Ark.Proofs.ResetEquivRelQuery — what a complete query iteration of the machine
  `Ark.RelRefine2` yields, compared between two states with the same specification.

  * `VisitRec`, `visitRec` — what the client reads at one visit: the entity, the value of every
    registered component (`Query.Get`) and the target of every registered component
    (`Query.GetRelation`), both read in the visited table at the visited row;
  * `HInv.spec_of_alive_indexed` — an alive handle whose ID is indexed to a table has an entry in
    the specification (also for handles nobody was given);
  * `spec_reads_agree` — two states with the same specification and registry agree on component
    set, values and targets of every specified entity;
  * `QOut`, `qOut` — the result of `drain`, as the client sees it; `QOut.Equiv`: the same panic
    class, or visit records that are permutations of each other;
  * `query_congr` — **the same query on both sides**: two states satisfying the invariant with the
    same specification, handles, registry, and filter objects that agree up to the cache ID give
    equivalent results, for per-call relations whose targets the client can name.

  Kernel-only proofs, core Lean only.
-/
import Ark.Proofs.ResetEquivRelStep

set_option autoImplicit false

namespace Ark

open World Ark.Props.C01World

namespace RelRefine2

open QueryRel QueryExact RelRefine
open Refine (Outcome keys sortedIds)

/-! ## 1. what the client reads at a visit -/

/-- what the client reads at one visit: the entity, and per registered component ID (ascending)
    the value (`Query.Get`) and the relation target (`Query.GetRelation`) in the visited table -/
structure VisitRec where
  e : Ent
  vals : List (Option Val)
  tgts : List (Option Ent)
  deriving DecidableEq, Repr

def visitRec (w : World) (v : Visit) : VisitRec :=
  ⟨v.e, (List.range w.kinds.length).map fun c => (w.tbl v.table).getComp c v.row,
    (List.range w.kinds.length).map fun c => (w.tbl v.table).targetAt c⟩

/-- the same through random access (`valOf`, `targetOf`) -/
def entRec (w : World) (e : Ent) : VisitRec :=
  ⟨e, (List.range w.kinds.length).map fun c => valOf w e.id c,
    (List.range w.kinds.length).map fun c => targetOf w e.id c⟩

theorem _root_.Ark.QueryRel.Observed.visitRec_eq {w w1 : World} {fo : FilterObj} {extra : List RelID} {q : QueryObj}
    {visits : List Visit} (ob : Observed w fo extra w1 q visits) :
    visits.map (visitRec w) = (visits.map (·.e)).map (entRec w) := by
  rw [List.map_map]
  apply List.map_congr_left
  intro v hv
  simp only [visitRec, entRec, Function.comp]
  congr 1
  · apply List.map_congr_left
    intro c _
    exact (ob.data v hv c).symm
  · apply List.map_congr_left
    intro c _
    exact ((ob.targets v hv c).1).symm

/-! ## 2. visited entities are specified -/

/-- an alive handle whose ID is indexed to a table has an entry in the specification — whether or
    not the client was ever given the handle (the memory `Reset` keeps behind the pool slice makes
    handles of generation `maxU32` "alive", but their IDs are not indexed) -/
theorem _root_.Ark.RelRefine.HInv.spec_of_alive_indexed {s : St} {fl : List Nat} (H : HInv s fl)
    {e : Ent} (ha : s.w.alive e = true) {cs : List Comp} (hcs : compsOf s.w e.id = some cs) :
    ∃ (en : Entry), (e, en) ∈ s.ss.ents := by
  have L := H.tinv.link
  have hlt : e.id < s.w.entities.length := by
    rcases Nat.lt_or_ge e.id s.w.entities.length with h | h
    · exact h
    · simp only [compsOf, List.getElem?_eq_none h] at hcs; cases hcs
  have h2 : 2 ≤ e.id := by
    rcases Nat.lt_or_ge e.id 2 with h | h
    · obtain ⟨r, hr⟩ := L.reservedUnindexed e.id h
      simp only [compsOf, hr, if_true] at hcs; cases hcs
    · exact h
  have hnf : e.id ∉ fl := by
    intro h
    obtain ⟨r, hr⟩ := L.freeUnindexed e.id h
    simp only [compsOf, hr, if_true] at hcs; cases hcs
  have hin : e.id < s.w.pool.ents.length := by rw [← L.lenEq]; exact hlt
  have hsl := (L.aliveIff e hnf hin).mp ha
  have hl : e ∈ s.ps.live := (H.ginv.live_iff e).mpr ⟨h2, hnf, hsl⟩
  obtain ⟨x, hx, hxe⟩ := List.mem_map.mp hl
  exact ⟨x.2, by rw [← hxe]; exact hx⟩

/-- **two states with the same specification and registry agree on every specified entity**:
    component set, every value, every relation target (through the entity index) -/
theorem spec_reads_agree {s1 s2 : St} {fl1 fl2 : List Nat} (H1 : HInv s1 fl1) (H2 : HInv s2 fl2)
    (hss : s1.ss = s2.ss) (hk : s1.w.kinds = s2.w.kinds) {e : Ent} {en : Entry}
    (hm : (e, en) ∈ s1.ss.ents) :
    compsOf s1.w e.id = compsOf s2.w e.id ∧
    (∀ (c : Comp), valOf s1.w e.id c = valOf s2.w e.id c) ∧
    (∀ (c : Comp), targetOf s1.w e.id c = targetOf s2.w e.id c) := by
  have hm2 : (e, en) ∈ s2.ss.ents := by rw [← hss]; exact hm
  have ok1 := H1.ok e en hm
  have ok2 := H2.ok e en hm2
  have c1 := ok1.comps
  have c2 := ok2.comps
  rw [← hk] at c2
  refine ⟨c1.trans c2.symm, fun c => ?_, fun c => ?_⟩
  · by_cases hkc : c ∈ keys en.comps
    · obtain ⟨cv, hcv, rfl⟩ := List.mem_map.mp hkc
      exact (ok1.vals cv hcv).trans (ok2.vals cv hcv).symm
    · have hn : c ∉ sortedIds s1.w.kinds.length (keys en.comps) :=
        fun hh => hkc (Refine.mem_sortedIds.mp hh).2
      rw [valOf_none_of_comps c1 hn, valOf_none_of_comps c2 hn]
  · by_cases hr : c ∈ en.rels.map (·.comp)
    · obtain ⟨r, hr', rfl⟩ := List.mem_map.mp hr
      exact (ok1.tgts r hr').trans (ok2.tgts r hr').symm
    · have n1 : targetOf s1.w e.id c = none := by
        cases ht : targetOf s1.w e.id c with
        | none => rfl
        | some x => exact absurd ((H1.target_isSome_iff hm c).mp (by rw [ht]; rfl)) hr
      have n2 : targetOf s2.w e.id c = none := by
        cases ht : targetOf s2.w e.id c with
        | none => rfl
        | some x => exact absurd ((H2.target_isSome_iff hm2 c).mp (by rw [ht]; rfl)) hr
      rw [n1, n2]

/-- the entities a query matches are the same on both sides -/
theorem matches_transfer {s1 s2 : St} {fl1 fl2 : List Nat} (H1 : HInv s1 fl1) (H2 : HInv s2 fl2)
    (hss : s1.ss = s2.ss) (hk : s1.w.kinds = s2.w.kinds) (f : Filter) (rels : List RelID)
    {e : Ent} (h : s1.w.alive e = true ∧ EntMatches s1.w f rels e.id) :
    (s2.w.alive e = true ∧ EntMatches s2.w f rels e.id) ∧ entRec s1.w e = entRec s2.w e := by
  obtain ⟨ha, ⟨cs, hcs, hmm⟩, htg⟩ := h
  obtain ⟨en, hm⟩ := H1.spec_of_alive_indexed ha hcs
  have hm2 : (e, en) ∈ s2.ss.ents := by rw [← hss]; exact hm
  obtain ⟨a1, a2, a3⟩ := spec_reads_agree H1 H2 hss hk hm
  obtain ⟨_, ha2, _⟩ := H2.live_facts hm2
  refine ⟨⟨ha2, ⟨cs, by rw [← a1]; exact hcs, hmm⟩, fun r hr => by rw [← a3]; exact htg r hr⟩, ?_⟩
  simp only [entRec, hk]
  congr 1
  · exact List.map_congr_left fun c _ => a2 c
  · exact List.map_congr_left fun c _ => a3 c

/-! ## 3. the result of a query -/

/-- the result of a complete query iteration, as the client sees it: the panic class of a
    rejected `Query(rel…)`, or the records of the visits in iteration order -/
inductive QOut
  | rejected (k : PanicKind)
  | visited (vs : List VisitRec)
  deriving DecidableEq, Repr

def qOut (w : World) : Res World (List Visit) → QOut
  | .ok vs _ => .visited (vs.map (visitRec w))
  | .panic k _ => .rejected k

/-- the same result up to the order of iteration -/
def QOut.Equiv : QOut → QOut → Prop
  | .rejected a, .rejected b => a = b
  | .visited a, .visited b => a.Perm b
  | _, _ => False

theorem QOut.Equiv.refl : ∀ (a : QOut), a.Equiv a
  | .rejected _ => rfl
  | .visited _ => List.Perm.refl _

/-- the filter objects agree up to the cache ID -/
structure FoRel (a b : FilterObj) : Prop where
  filter : a.filter = b.filter
  ids : a.ids = b.ids
  rels : a.rels = b.rels
  typed : a.typed = b.typed
  cache : a.cache.isSome = b.cache.isSome

theorem FoRel.refl (a : FilterObj) : FoRel a a := ⟨rfl, rfl, rfl, rfl, rfl⟩

/-- the per-call relations of `Query(extra…)` on the object under label `f` are expressible: the
    machine's own condition (`guardQ`) and targets the client can name -/
def qExpr (s : St) (f : Nat) (extra : List RelID) : Bool :=
  guardQ s.w (foAt s.w f) extra && tgtsExpr s extra

/-- a complete iteration on a state of the machine: rejected by the typed pre-validation with the
    class the specification determines, or exact (`Observed`) -/
theorem query_desc {s : St} {fl : List Nat} (H : HInv2 s fl) (f : Nat) {extra : List RelID}
    (hg : guardQ s.w (foAt s.w f) extra = true) (hx : tgtsExpr s extra = true) :
    (∀ (k : PanicKind), (foAt s.w f).typed = true →
      preKind s.ss (some (foAt s.w f).filter.mask) extra = some k →
      drain (foAt s.w f) extra s.w = .panic k s.w) ∧
    (((foAt s.w f).typed = true → preKind s.ss (some (foAt s.w f).filter.mask) extra = none) →
      ∃ (l1 l2 : Lock) (q : QueryObj) (visits : List Visit),
        drain (foAt s.w f) extra s.w = .ok visits (s.w.withLocks l2) ∧
        Observed s.w (foAt s.w f) extra (s.w.withLocks l1) q visits) := by
  have hpk := H.base.preCheckTyped_kind (foAt s.w f).filter.mask extra hx
  constructor
  · intro k ht hk
    have h1 := ofKind_some hpk hk
    have ho : qOpen (foAt s.w f) extra s.w = .panic k s.w := by
      unfold qOpen
      simp [ht, bind, M.bind, h1]
    simp [drain, bind, M.bind, ho]
  · intro hnone
    obtain ⟨hrt, hfok⟩ := foAt_facts H.finv.heap f
    have hadm : ExtraAdmissible s.w (foAt s.w f) extra := by
      refine ⟨fun ht => ?_, fun ht r hr => ?_⟩
      · exact (preCheckTyped_ok_iff _ s.w extra).mp (ofKind_none hpk (hnone ht))
      · simp only [guardQ, ht, Bool.false_or, List.all_eq_true, Bool.and_eq_true] at hg
        exact hg r hr
    obtain ⟨l1, l2, b, hL, _⟩ := H.qgood.lockCycle
    obtain ⟨d1, d2⟩ := H.drain_both hrt hfok hadm hL
    cases hc : (foAt s.w f).cache with
    | none =>
      obtain ⟨q, visits, Q⟩ := d1 hc
      exact ⟨l1, l2, q, visits, Q.drained, Observed.of_exact H.base.tinv H.finv.rows Q⟩
    | some id =>
      cases hfind : AL.find? s.w.filters f with
      | none => simp only [foAt, hfind] at hc; cases hc
      | some fo =>
        have hfo : foAt s.w f = fo := by simp only [foAt, hfind]; rfl
        obtain ⟨e, he, h1, h2, h3⟩ := H.finv.heap.reg f fo id hfind (by rw [← hfo]; exact hc)
        have hlook := lookup_of_mem H.finv.cache he
        rw [h1] at hlook
        obtain ⟨q, visits, Q⟩ := d2 id e hc hlook (by rw [hfo]; exact h2) (by rw [hfo]; exact h3)
        exact ⟨l1, l2, q, visits, Q.drained, Observed.of_exact H.base.tinv H.finv.rows Q⟩

/-- **the same query on both sides**: on two states of the machine with the same specification,
    handles and registry whose filter objects under label `f` agree up to the cache ID, a complete
    iteration with expressible per-call relations is rejected on both sides with the same class,
    or succeeds on both and the visit records — entity, component values, relation targets — are
    permutations of each other (table IDs and iteration order may differ) -/
theorem query_congr {s1 s2 : St} {fl1 fl2 : List Nat} (H1 : HInv2 s1 fl1) (H2 : HInv2 s2 fl2)
    (hss : s1.ss = s2.ss) (hiss : s1.issued = s2.issued) (hk : s1.w.kinds = s2.w.kinds)
    (f : Nat) (R : FoRel (foAt s1.w f) (foAt s2.w f)) {extra : List RelID}
    (hq : qExpr s1 f extra = true) :
    qExpr s2 f extra = true ∧
    (qOut s1.w (drain (foAt s1.w f) extra s1.w)).Equiv
      (qOut s2.w (drain (foAt s2.w f) extra s2.w)) := by
  simp only [qExpr, Bool.and_eq_true] at hq
  obtain ⟨hg1, hx1⟩ := hq
  have hx2 : tgtsExpr s2 extra = true := by
    simp only [tgtsExpr, ← hiss] at hx1 ⊢; exact hx1
  have hrc : ∀ (c : Comp), s1.w.isRelComp c = s2.w.isRelComp c := fun c => by
    simp only [World.isRelComp, hk]
  have hg2 : guardQ s2.w (foAt s2.w f) extra = true := by
    simp only [guardQ, ← R.typed, ← R.filter, ← hrc] at hg1 ⊢; exact hg1
  refine ⟨by simp only [qExpr, hg2, hx2, Bool.and_self], ?_⟩
  obtain ⟨r1, a1⟩ := query_desc H1 f hg1 hx1
  obtain ⟨r2, a2⟩ := query_desc H2 f hg2 hx2
  have hpk : preKind s1.ss (some (foAt s1.w f).filter.mask) extra =
      preKind s2.ss (some (foAt s2.w f).filter.mask) extra := by rw [hss, R.filter]
  by_cases hrej : (foAt s1.w f).typed = true ∧
      ∃ (k : PanicKind), preKind s1.ss (some (foAt s1.w f).filter.mask) extra = some k
  · obtain ⟨ht, k, hk1⟩ := hrej
    rw [r1 k ht hk1, r2 k (by rw [← R.typed]; exact ht) (by rw [← hpk]; exact hk1)]
    exact rfl
  · have hn1 : (foAt s1.w f).typed = true →
        preKind s1.ss (some (foAt s1.w f).filter.mask) extra = none := by
      intro ht
      cases hp : preKind s1.ss (some (foAt s1.w f).filter.mask) extra with
      | none => rfl
      | some k => exact absurd ⟨ht, k, hp⟩ hrej
    have hn2 : (foAt s2.w f).typed = true →
        preKind s2.ss (some (foAt s2.w f).filter.mask) extra = none := by
      intro ht
      rw [← hpk]; exact hn1 (by rw [R.typed]; exact ht)
    obtain ⟨l1, l2, q, v1, d1, ob1⟩ := a1 hn1
    obtain ⟨m1, m2, q', v2, d2, ob2⟩ := a2 hn2
    rw [d1, d2]
    show ((v1.map (visitRec s1.w))).Perm (v2.map (visitRec s2.w))
    rw [ob1.visitRec_eq, ob2.visitRec_eq]
    have hmem : ∀ (e : Ent), e ∈ v1.map (·.e) ↔ e ∈ v2.map (·.e) := by
      intro e
      rw [ob1.exact e, ob2.exact e, ← R.filter, ← R.rels]
      constructor
      · intro h
        exact (matches_transfer H1.base H2.base hss hk _ _ h).1
      · intro h
        exact (matches_transfer H2.base H1.base hss.symm hk.symm _ _ h).1
    have hperm : (v1.map (·.e)).Perm (v2.map (·.e)) :=
      (List.perm_ext_iff_of_nodup ob1.nodup ob2.nodup).2 hmem
    have hrec : (v1.map (·.e)).map (entRec s1.w) = (v1.map (·.e)).map (entRec s2.w) := by
      apply List.map_congr_left
      intro e he
      exact (matches_transfer H1.base H2.base hss hk _ _ ((ob1.exact e).mp he)).2
    rw [hrec]
    exact hperm.map _

end RelRefine2

end Ark
