/-
  Ark.Proofs.BatchNewFn — C06 at world level, part 1b: `NewBatchFn` (creation with a callback that
  initialises every new entity while the world is locked) against the single `NewEntity` calls
  with the same values.
-/
import Ark.Proofs.BatchNew
import Ark.Proofs.Lock

set_option autoImplicit false

namespace Ark

open World Ark.Props.C01World

/-! ## 1. table level: writes into existing rows commute with `Add` -/

namespace Table

theorem list_map_modify_comm {α : Type} (cols : List (List α)) (i r len k : Nat) (v z : α)
    (hr : r < len) (hcl : ∀ col ∈ cols, len ≤ col.length) :
    (cols.modify i fun cl => cl.set r v).map (fun col => col.take len ++ List.replicate k z) =
      (cols.map fun col => col.take len ++ List.replicate k z).modify i fun cl => cl.set r v := by
  apply List.ext_getElem?
  intro j
  simp only [List.getElem?_map, List.getElem?_modify]
  by_cases hij : i = j
  · subst hij
    simp only [if_true]
    cases hc : cols[i]? with
    | none => rfl
    | some col =>
      have hlen := hcl col (List.mem_of_getElem? hc)
      show some _ = some _
      congr 1
      show List.take len (col.set r v) ++ _ = (List.take len col ++ _).set r v
      rw [List.take_set, List.set_append_left _ _ (by rw [List.length_take]; omega)]
  · simp only [if_neg hij]
    cases cols[j]? <;> rfl

theorem setCell_add_comm {T : Table} (hS : T.Shape) (i r : Nat) (v : Val) (e : Ent)
    (hr : r < T.len) : ((T.setCell i r v).add e).1 = ((T.add e).1).setCell i r v := by
  have hz : (T.add e).1.zst = T.zst := Table.add_zst T e
  simp only [Table.setCell, hz]
  split
  · rfl
  · obtain ⟨id, arch, ids, isRel, zst, ents, cols, targets, relIDs, len, cap, isFree⟩ := T
    have hlen := hS.len_le
    have hcl := hS.col_len
    simp only at hlen hcl hr
    simp only [Table.add, Table.alloc, Table.extend]
    by_cases hcap : cap ≥ len + 1
    · simp only [hcap, if_true]
    · simp only [hcap, if_false, Table.adjustCapacity, Table.mk.injEq, true_and, and_true]
      exact list_map_modify_comm cols i r len _ v 0 hr (fun col hc => by rw [hcl col hc]; exact hlen)

/-- writing a cell of an existing row commutes with `Add` -/
theorem setComp_add_comm {T : Table} (hS : T.Shape) (c : Comp) (r : Nat) (v : Val) (e : Ent)
    (hr : r < T.len) : ((T.setComp c r v).add e).1 = ((T.add e).1).setComp c r v := by
  have hi : (T.add e).1.colIdx c = T.colIdx c := by simp only [Table.colIdx, Table.add_ids]
  simp only [Table.setComp, hi]
  split
  · exact setCell_add_comm hS _ r v e hr
  · rfl


/-- … and so does a sequence of writes into one row -/
theorem writeFold_add_comm (r : Nat) (e : Ent) : ∀ (vals : List (Comp × Val)) {T : Table}, T.Shape →
    r < T.len →
    ((vals.foldl (fun T (cv : Comp × Val) => T.setComp cv.1 r cv.2) T).add e).1 =
      vals.foldl (fun T (cv : Comp × Val) => T.setComp cv.1 r cv.2) (T.add e).1
  | [], _, _, _ => rfl
  | cv :: vals, T, hS, hr => by
    have hw := Table.setComp_writeRel T cv.1 r cv.2 hr
    simp only [List.foldl_cons]
    rw [writeFold_add_comm r e vals (hw.shape hS) (by rw [hw.len]; exact hr),
      setComp_add_comm hS cv.1 r cv.2 e hr]

end Table

/-! ## 2. the callback loop and the lock as pure functions -/

namespace World

/-- a `for` loop over a list whose body always continues and is a pure state update -/
theorem forIn_fold (f : World → Nat → World) (g : Nat → PUnit → W (ForInStep PUnit))
    (hg : ∀ (i : Nat) (w : World), g i PUnit.unit w = .ok (ForInStep.yield PUnit.unit) (f w i)) :
    ∀ (l : List Nat) (w : World), (forIn l PUnit.unit g : W PUnit) w = .ok PUnit.unit (l.foldl f w)
  | [], _ => rfl
  | x :: l, w => by
    rw [List.forIn_cons, M.bind_apply, hg]
    exact forIn_fold f g hg l (f w x)

/-- write `vals` through the component pointers of row `row` of table `t` -/
def writeRow (w : World) (t row : Nat) (vals : List (Comp × Val)) : World :=
  w.modTbl t fun T => vals.foldl (fun T (cv : Comp × Val) => T.setComp cv.1 row cv.2) T

/-- what the batch callback records for row `row` of table `t` -/
def fnEvent (w : World) (t row : Nat) (vals : List (Comp × Val)) : LogEv :=
  .fn ((w.tbl t).getEntity row) w.isLocked
    (vals.map fun cv => (cv.1, ((w.tbl t).getComp cv.1 row).getD 0))

/-- one iteration of `batchFn` -/
def batchFnStep (t start : Nat) (vals : List (Comp × Val)) (w : World) (i : Nat) : World :=
  writeRow { w with log := fnEvent w t (start + i) vals :: w.log } t (start + i) vals

/-- the state change of `batchFn` -/
def batchFnW (w : World) (t start n : Nat) (vals : List (Comp × Val)) : World :=
  (List.range n).foldl (batchFnStep t start vals) w

theorem batchFn_eq (t start n : Nat) (vals : List (Comp × Val)) (w : World) :
    batchFn t start n vals w = .ok () (batchFnW w t start n vals) := by
  unfold batchFn
  rw [M.bind_apply, forIn_fold (batchFnStep t start vals) _ (fun i w => rfl) (List.range n) w]
  rfl

/-! ### the lock taken around the callback -/

/-- the world lock is well-formed and no lock is outstanding (every reachable unlocked world) -/
def LockFree (l : Lock) : Prop := ∃ lfl : List Nat, Lock.LInv ⟨l, []⟩ lfl

theorem lockFree_init : LockFree ({} : Lock) := ⟨[], Lock.linv_init⟩

/-- on such a lock, `Lock()` succeeds, the world is locked, the matching `Unlock` succeeds and
    leaves it unlocked and well-formed -/
theorem LockFree.cycle {l : Lock} (h : LockFree l) :
    ∃ (l' : Lock) (b : Nat) (l'' : Lock), l.lock = some (l', b) ∧ l'.isLocked = true ∧
      l'.unlock b = some l'' ∧ l''.isLocked = false ∧ LockFree l'' := by
  obtain ⟨lfl, g⟩ := h
  rcases Lock.lock_spec ⟨l, []⟩ lfl g with ⟨_, h64⟩ | ⟨l', b, hl, hb, _, _, fl', g'⟩
  · simp at h64
  · rcases Lock.unlock_spec ⟨l', [b]⟩ fl' g' b with ⟨_, hn⟩ | ⟨l'', hul, _, g''⟩
    · exact absurd (List.mem_singleton.mpr rfl) hn
    · have he : ([b] : List Nat).erase b = [] := by simp
      rw [he] at g''
      refine ⟨l', b, l'', hl, ?_, hul, ?_, _, g''⟩
      · have hbit : l'.locks.getLsbD b = true := (g'.locks b hb).mpr (List.mem_singleton.mpr rfl)
        simp only [Lock.isLocked, bne_iff_ne, ne_eq]
        intro h0
        rw [h0] at hbit
        simp at hbit
      · have hz : l''.locks = 0#64 := by
          apply BitVec.eq_of_getLsbD_eq
          intro i hi
          have := g''.locks i hi
          simp only [List.not_mem_nil, iff_false, Bool.not_eq_true] at this
          rw [this]; simp
        simp only [Lock.isLocked, hz, bne_self_eq_false]

theorem lock_ok {w : World} {l' : Lock} {b : Nat} (h : w.locks.lock = some (l', b)) :
    lock w = .ok b { w with locks := l' } := by
  simp only [lock, h]

theorem unlock_ok {w : World} {l'' : Lock} {b : Nat} (h : w.locks.unlock b = some l'') :
    unlock b w = .ok () { w with locks := l'' } := by
  simp only [unlock, h]

theorem batchFnStep_obs (t start : Nat) (vals : List (Comp × Val)) (w : World) (i : Nat) :
    (batchFnStep t start vals w i).obs = w.obs := rfl

theorem batchFnStep_locks (t start : Nat) (vals : List (Comp × Val)) (w : World) (i : Nat) :
    (batchFnStep t start vals w i).locks = w.locks := rfl

theorem foldl_keep' {β : Type} (f : World → β) (g : World → Nat → World)
    (hf : ∀ (w : World) (k : Nat), f (g w k) = f w) :
    ∀ (l : List Nat) (w : World), f (l.foldl g w) = f w
  | [], _ => rfl
  | k :: l, w => by rw [List.foldl_cons, foldl_keep' f g hf l, hf]

theorem batchFnW_obs (w : World) (t start n : Nat) (vals : List (Comp × Val)) :
    (batchFnW w t start n vals).obs = w.obs :=
  foldl_keep' (·.obs) _ (batchFnStep_obs t start vals) _ _

theorem batchFnW_locks (w : World) (t start n : Nat) (vals : List (Comp × Val)) :
    (batchFnW w t start n vals).locks = w.locks :=
  foldl_keep' (·.locks) _ (batchFnStep_locks t start vals) _ _

/-- without observers, `NewBatchFn` is: table lookup, `createEntities`, `Lock`, the callback on
    every new row, `Unlock` -/
theorem opNewBatch_fn_eq (run : ProbeRunner) (p : Path) (count : Nat) (ids : List Comp)
    (vals : List (Comp × Val)) (w : World) (hl : w.isLocked = false) {t a : Nat} {m : Mask}
    {w1 : World} (hfoc : findOrCreateTableAdd 0 Mask.empty ids [] w = .ok (t, a, m) w1)
    (hno : ∀ evt : Nat, w1.obs.hasObservers evt = false) {l' l'' : Lock} {b : Nat}
    (hlk : w1.locks.lock = some (l', b)) (hul : l'.unlock b = some l'') :
    opNewBatch run p count ids vals [] true w =
      .ok (t, (w1.tbl t).len)
        { batchFnW { createEntitiesW w1 t count with locks := l' } t (w1.tbl t).len count vals with
          locks := l'' } := by
  have hno1 : ∀ evt : Nat, (createEntitiesW w1 t count).obs.hasObservers evt = false := by
    intro evt; rw [createEntitiesW_obs]; exact hno evt
  have hlk1 : (createEntitiesW w1 t count).locks.lock = some (l', b) := by
    rw [createEntitiesW_locks]; exact hlk
  have hul2 : (batchFnW { createEntitiesW w1 t count with locks := l' } t (w1.tbl t).len
      count vals).locks.unlock b = some l'' := by
    rw [batchFnW_locks]; exact hul
  cases p <;>
  simp [opNewBatch, preCheck, preCheckMap, preCheckTyped, M.forM', bind, M.bind,
    M.get, checkLocked_unlocked w hl, hfoc, createEntities_eq, registerTargets, M.modify,
    hno1, lock_ok hlk1, batchFn_eq, unlock_ok hul2, pure, M.pure]

/-! ## 3. the writes commute with the placements -/


theorem writeRow_tbl_self {w : World} {t : Nat} (hlt : t < w.tables.length) (r : Nat)
    (vals : List (Comp × Val)) :
    (writeRow w t r vals).tbl t =
      vals.foldl (fun T (cv : Comp × Val) => T.setComp cv.1 r cv.2) (w.tbl t) :=
  modTbl_tbl_self _ hlt

theorem writeRow_tbl_ne (w : World) {t t' : Nat} (hne : t ≠ t') (r : Nat) (vals : List (Comp × Val)) :
    (writeRow w t r vals).tbl t' = w.tbl t' := modTbl_tbl_ne w _ hne

theorem writeRow_tables_len (w : World) (t r : Nat) (vals : List (Comp × Val)) :
    (writeRow w t r vals).tables.length = w.tables.length := by
  show (w.tables.set t _).length = _
  rw [List.length_set]

/-- writing into an existing row of table `t` commutes with `placeNew t` -/
theorem placedW_writeRow_comm {w : World} {t : Nat} (hlt : t < w.tables.length)
    (hS : (w.tbl t).Shape) (r : Nat) (hr : r < (w.tbl t).len) (vals : List (Comp × Val)) (rt : Bool) :
    placedW (writeRow w t r vals) t rt = writeRow (placedW w t rt) t r vals := by
  have e1 : (writeRow w t r vals).pool = w.pool := rfl
  have e2 : (writeRow w t r vals).entities = w.entities := rfl
  have e3 : (writeRow w t r vals).isTarget = w.isTarget := rfl
  have e4 : (writeRow w t r vals).tables = w.tables.set t
      (vals.foldl (fun T (cv : Comp × Val) => T.setComp cv.1 r cv.2) (w.tbl t)) := rfl
  have e5 : ∀ ts p es it, upd (writeRow w t r vals) ts p es it = upd w ts p es it :=
    fun _ _ _ _ => rfl
  have e6 : ∀ ts p es it, (upd w ts p es it).writeRow t r vals =
      upd w (ts.set t (vals.foldl (fun T (cv : Comp × Val) => T.setComp cv.1 r cv.2)
        (ts.getD t default))) p es it := fun _ _ _ _ => rfl
  have e7 : ((writeRow w t r vals).tbl t).len = (w.tbl t).len := by
    rw [writeRow_tbl_self hlt]; exact (writeVals_writeRel _ r vals hr).len
  rw [placedW_upd (writeRow w t r vals), placedW_upd w, e6, e7, e1, e2, e3, e4, e5,
    writeRow_tbl_self hlt, List.set_set, List.set_set, Table.writeFold_add_comm r _ vals hS hr]
  have h2 : (w.tables.set t ((w.tbl t).add (w.pool.get).2).1).getD t default =
      ((w.tbl t).add (w.pool.get).2).1 := by
    rw [List.getD_eq_getElem?_getD, List.getElem?_set_self hlt]; rfl
  rw [h2]

theorem placeN_writeRow_comm {t r : Nat} {vals : List (Comp × Val)} : ∀ (n : Nat) {w : World},
    t < w.tables.length → (w.tbl t).Shape → r < (w.tbl t).len → (w.tbl t).len + n < 2 ^ 32 →
    placeN (writeRow w t r vals) t n = writeRow (placeN w t n) t r vals
  | 0, _, _, _, _, _ => rfl
  | n + 1, w, hlt, hS, hr, hb => by
    show placeN (placedW (writeRow w t r vals) t false) t n =
      writeRow (placeN (placedW w t false) t n) t r vals
    rw [placedW_writeRow_comm hlt hS r hr vals false]
    have hlen' : ((placedW w t false).tbl t).len = (w.tbl t).len + 1 := by
      rw [placedW_tbl_self hlt, Table.add_fst_len]
    exact placeN_writeRow_comm n (by rw [placedW_tables_len]; exact hlt)
      (by rw [placedW_tbl_self hlt]; exact Table.add_shape hS _ (by omega))
      (by rw [hlen']; omega) (by rw [hlen']; omega)

/-- write `vals` into the rows `start … start+n-1` of table `t`, in order -/
def writeRows (w : World) (t start n : Nat) (vals : List (Comp × Val)) : World :=
  (List.range n).foldl (fun W i => writeRow W t (start + i) vals) w

theorem writeRows_succ_front (w : World) (t start n : Nat) (vals : List (Comp × Val)) :
    writeRows w t start (n + 1) vals = writeRows (writeRow w t start vals) t (start + 1) n vals := by
  simp only [writeRows]
  rw [List.range_succ_eq_map, List.foldl_cons, List.foldl_map, Nat.add_zero]
  have hf : (fun (W : World) (i : Nat) => writeRow W t (start + (i + 1)) vals) =
      fun W i => writeRow W t (start + 1 + i) vals := by
    funext W i; congr 1; omega
  exact congrArg (fun f => List.foldl f (writeRow w t start vals) (List.range n)) hf

theorem writeRows_succ (w : World) (t start n : Nat) (vals : List (Comp × Val)) :
    writeRows w t start (n + 1) vals = writeRow (writeRows w t start n vals) t (start + n) vals := by
  simp only [writeRows, List.range_succ, List.foldl_append, List.foldl_cons, List.foldl_nil]

/-- the index entry of the handle just placed -/
theorem placedW_index {w : World} {fl : List Nat} (h : CInv w fl) (t : Nat) (rt : Bool) :
    (placedW w t rt).index (w.pool.get).2.id = (t, (w.tbl t).len) := by
  have g := Pool.get_spec w.pool fl h.pool
  have hle : (w.pool.get).2.id ≤ w.entities.length := by
    rw [h.lenEq]; rcases g.cases with ⟨a, _⟩ | ⟨a, _⟩ <;> omega
  apply index_of_get
  rw [(placedW_place w t rt).1, place_lookup w _ t hle, if_pos rfl]

/-- the write of a single `NewEntity` is a write into the row just added -/
theorem writeValsW_placedW {w : World} {fl : List Nat} (h : CInv w fl) (t : Nat) (rt : Bool)
    (vals : List (Comp × Val)) :
    writeValsW (placedW w t rt) (w.pool.get).2 vals = writeRow (placedW w t rt) t (w.tbl t).len vals := by
  simp only [writeValsW, placedW_index h t rt, writeRow]

/-- **the singles, rearranged**: `n` single creations with the values `vals` = the `n` placements
    followed by the writes into the new rows -/
theorem newN_eq_writeRows (vals : List (Comp × Val)) {ids : List Comp} {t a : Nat} :
    ∀ (n : Nat) {w : World} {fl : List Nat}, CInv w fl → BatchTarget w ids t a →
    (w.tbl t).len + n < 2 ^ 32 →
    newN w t vals n = writeRows (placeN w t n) t (w.tbl t).len n vals
  | 0, _, _, _, _, _ => rfl
  | n + 1, w, fl, h, bt, hb => by
    obtain ⟨h2, _, h4, h5⟩ := newStep_facts h bt vals (by omega)
    have hS := h.idx.shape t _ (get_of_lt bt.tlt)
    have hlen' : ((placedW w t false).tbl t).len = (w.tbl t).len + 1 := by
      rw [placedW_tbl_self bt.tlt, Table.add_fst_len]
    show newN (writeValsW (placedW w t false) (w.pool.get).2 vals) t vals n = _
    rw [newN_eq_writeRows vals n h2 h4 (by rw [h5]; omega), h5, writeValsW_placedW h t false vals,
      placeN_writeRow_comm n (by rw [placedW_tables_len]; exact bt.tlt)
        (by rw [placedW_tbl_self bt.tlt]; exact Table.add_shape hS _ (by omega))
        (by rw [hlen']; omega) (by rw [hlen']; omega), writeRows_succ_front]
    rfl

/-! ### the callback loop in closed form -/

/-- the records of the callback loop, newest first -/
def fnEvents (w : World) (t start : Nat) (vals : List (Comp × Val)) : Nat → List LogEv
  | 0 => []
  | n + 1 => fnEvent (writeRows w t start n vals) t (start + n) vals :: fnEvents w t start vals n

theorem batchFnW_succ (w : World) (t start n : Nat) (vals : List (Comp × Val)) :
    batchFnW w t start (n + 1) vals = batchFnStep t start vals (batchFnW w t start n vals) n := by
  simp only [batchFnW, List.range_succ, List.foldl_append, List.foldl_cons, List.foldl_nil]

/-- the callback loop = the writes into the rows, plus one record per row -/
theorem batchFnW_closed (w : World) (t start : Nat) (vals : List (Comp × Val)) : ∀ n : Nat,
    batchFnW w t start n vals =
      { writeRows w t start n vals with log := fnEvents w t start vals n ++ w.log }
  | 0 => rfl
  | n + 1 => by
    rw [batchFnW_succ, batchFnW_closed w t start vals n, writeRows_succ]
    rfl

/-- what `i` row writes below row `start+i` leave in place -/
structure RowsRel (t : Nat) (W X : World) (from_ : Nat) : Prop where
  tlen : X.tables.length = W.tables.length
  len : (X.tbl t).len = (W.tbl t).len
  ents : (X.tbl t).ents = (W.tbl t).ents
  ids : (X.tbl t).ids = (W.tbl t).ids
  shape : (X.tbl t).Shape
  cells : ∀ j r : Nat, from_ ≤ r → (X.tbl t).cell j r = (W.tbl t).cell j r
  locks : X.locks = W.locks

theorem writeRows_rel {W : World} {t : Nat} (hlt : t < W.tables.length) (hS : (W.tbl t).Shape)
    (start : Nat) (vals : List (Comp × Val)) : ∀ i : Nat, start + i ≤ (W.tbl t).len →
    RowsRel t W (writeRows W t start i vals) (start + i)
  | 0, _ => ⟨rfl, rfl, rfl, rfl, hS, fun _ _ _ => rfl, rfl⟩
  | i + 1, hi => by
    have ih := writeRows_rel hlt hS start vals i (by omega)
    rw [writeRows_succ]
    have hlt' : t < (writeRows W t start i vals).tables.length := by rw [ih.tlen]; exact hlt
    have hw := writeVals_writeRel ((writeRows W t start i vals).tbl t) (start + i) vals
      (by rw [ih.len]; omega)
    refine ⟨?_, ?_, ?_, ?_, ?_, ?_, ih.locks⟩
    · rw [writeRow_tables_len]; exact ih.tlen
    · rw [writeRow_tbl_self hlt', hw.len]; exact ih.len
    · rw [writeRow_tbl_self hlt', hw.ents]; exact ih.ents
    · rw [writeRow_tbl_self hlt', hw.ids]; exact ih.ids
    · rw [writeRow_tbl_self hlt']; exact hw.shape ih.shape
    · intro j r hr
      rw [writeRow_tbl_self hlt', hw.other j r (by omega)]
      exact ih.cells j r (by omega)

/-- on fresh (all-zero) rows the callback sees the entity of its row, a locked world and zeros -/
theorem fnEvents_fresh {W : World} {t : Nat} (hlt : t < W.tables.length) (hS : (W.tbl t).Shape)
    (start : Nat) (vals : List (Comp × Val))
    (hz : ∀ j r : Nat, start ≤ r → (W.tbl t).cell j r = 0) : ∀ n : Nat, start + n ≤ (W.tbl t).len →
    fnEvents W t start vals n =
      (List.range n).reverse.map fun i =>
        LogEv.fn ((W.tbl t).getEntity (start + i)) W.isLocked (vals.map fun cv => (cv.1, 0))
  | 0, _ => rfl
  | n + 1, hn => by
    have rel := writeRows_rel hlt hS start vals n (by omega)
    rw [List.range_succ, List.reverse_append, List.reverse_singleton, List.singleton_append,
      List.map_cons, ← fnEvents_fresh hlt hS start vals hz n (by omega)]
    show fnEvent _ t (start + n) vals :: _ = _
    congr 1
    simp only [fnEvent, Table.getEntity, rel.ents]
    congr 1
    · show (writeRows W t start n vals).locks.isLocked = W.locks.isLocked
      rw [rel.locks]
    · apply List.map_congr_left
      intro cv _
      congr 1
      simp only [Table.getComp, Table.colIdx, rel.ids]
      split
      · simp only [Option.map_some, Option.getD_some]
        rw [rel.cells _ _ (Nat.le_refl _)]; exact hz _ _ (by omega)
      · rfl

/-! ### the rows `placeN` adds are zero; fields it keeps -/

theorem placeN_cell_lt {t : Nat} : ∀ (n : Nat) {w : World}, t < w.tables.length →
    ∀ j r : Nat, r < (w.tbl t).len → ((placeN w t n).tbl t).cell j r = (w.tbl t).cell j r
  | 0, _, _, _, _, _ => rfl
  | n + 1, w, hlt, j, r, hr => by
    show ((placeN (placedW w t false) t n).tbl t).cell j r = _
    rw [placeN_cell_lt n (by rw [placedW_tables_len]; exact hlt) j r
      (by rw [placedW_tbl_self hlt, Table.add_fst_len]; omega), placedW_tbl_self hlt,
      Table.add_cell_lt _ _ _ _ hr]

theorem placeN_shape {t : Nat} : ∀ (n : Nat) {w : World}, t < w.tables.length → (w.tbl t).Shape →
    (w.tbl t).len + n < 2 ^ 32 → ((placeN w t n).tbl t).Shape
  | 0, _, _, hS, _ => hS
  | n + 1, w, hlt, hS, hb =>
    placeN_shape n (by rw [placedW_tables_len]; exact hlt)
      (by rw [placedW_tbl_self hlt]; exact Table.add_shape hS _ (by omega))
      (by rw [placedW_tbl_self hlt, Table.add_fst_len]; omega)

theorem placeN_new_rows_zero {t : Nat} : ∀ (n : Nat) {w : World}, t < w.tables.length →
    (w.tbl t).Shape → (w.tbl t).len + n < 2 ^ 32 →
    ∀ j r : Nat, (w.tbl t).len ≤ r → ((placeN w t n).tbl t).cell j r = 0
  | 0, _, _, hS, _, j, r, hr => hS.cell_tail j r hr
  | n + 1, w, hlt, hS, hb, j, r, hr => by
    have hlt' : t < (placedW w t false).tables.length := by rw [placedW_tables_len]; exact hlt
    have hlen' : ((placedW w t false).tbl t).len = (w.tbl t).len + 1 := by
      rw [placedW_tbl_self hlt, Table.add_fst_len]
    show ((placeN (placedW w t false) t n).tbl t).cell j r = 0
    rcases Nat.lt_or_ge (w.tbl t).len r with h1 | h1
    · exact placeN_new_rows_zero n hlt'
        (by rw [placedW_tbl_self hlt]; exact Table.add_shape hS _ (by omega))
        (by rw [hlen']; omega) j r (by rw [hlen']; omega)
    · have : r = (w.tbl t).len := by omega
      subst this
      rw [placeN_cell_lt n hlt' j _ (by rw [hlen']; omega), placedW_tbl_self hlt]
      have := Table.add_new_row_zero hS (w.pool.get).2 j
      rw [Table.add_snd] at this; exact this

theorem placedW_log (w : World) (t : Nat) (rt : Bool) : (placedW w t rt).log = w.log := by
  rw [placedW_upd]; rfl

theorem placeN_locks (t : Nat) : ∀ (n : Nat) (w : World), (placeN w t n).locks = w.locks
  | 0, _ => rfl
  | n + 1, w => by
    show (placeN (placedW w t false) t n).locks = _
    rw [placeN_locks t n, placedW_locks]

theorem placeN_log (t : Nat) : ∀ (n : Nat) (w : World), (placeN w t n).log = w.log
  | 0, _ => rfl
  | n + 1, w => by
    show (placeN (placedW w t false) t n).log = _
    rw [placeN_log t n, placedW_log]

theorem writeRows_log (w : World) (t start : Nat) (vals : List (Comp × Val)) : ∀ n : Nat,
    (writeRows w t start n vals).log = w.log
  | 0 => rfl
  | n + 1 => by rw [writeRows_succ]; exact writeRows_log w t start vals n

theorem writeRows_locks (w : World) (t start : Nat) (vals : List (Comp × Val)) : ∀ n : Nat,
    (writeRows w t start n vals).locks = w.locks
  | 0 => rfl
  | n + 1 => by rw [writeRows_succ]; exact writeRows_locks w t start vals n

/-- the writes do not look at the lock or the log -/
theorem writeRows_with (w : World) (l : Lock) (lg : List LogEv) (t start : Nat)
    (vals : List (Comp × Val)) : ∀ n : Nat,
    writeRows { w with locks := l, log := lg } t start n vals =
      { writeRows w t start n vals with locks := l, log := lg }
  | 0 => rfl
  | n + 1 => by rw [writeRows_succ, writeRows_succ, writeRows_with w l lg t start vals n]; rfl

/-! ### the table lookup keeps the log -/

theorem findOrCreateArch_log {w w' : World} {mask : Mask} {a : Nat}
    (h : findOrCreateArch mask w = .ok a w') : w'.log = w.log := by
  unfold findOrCreateArch at h
  split at h
  · injection h with _ h2; subst h2; rfl
  · rw [createArchetype_eq] at h
    injection h with _ h2; subst h2
    exact createArchetypeW_proj (·.log) (fun _ _ _ => rfl) (fun _ _ => rfl) w mask

theorem createTable_log {a : Nat} {rels : List RelID} {w w' : World} {t : Nat}
    (h : createTable a rels w = .ok t w') : w'.log = w.log := by
  obtain ⟨_, _, _, _, h5⟩ := createTable_ok h
  have h1 : (createTableS w a rels).1.log = w.log := by
    unfold createTableS
    split <;> rfl
  have h2 : w'.log = (createTableS w a rels).1.log := by
    unfold cacheAddTable at h5
    simp only at h5
    split at h5
    · cases h5
    · injection h5 with h5; subst h5; rfl
  rw [h2, h1]

theorem findOrCreateTableAdd_log {oldT : Nat} {startMask : Mask} {add : List Comp}
    {rels : List RelID} {w w' : World} {r : Nat × Nat × Mask}
    (hok : findOrCreateTableAdd oldT startMask add rels w = .ok r w') : w'.log = w.log := by
  obtain ⟨t, a, mask⟩ := r
  have hg : graphFindAdd startMask add w = .ok (add.foldl Mask.set startMask) w := by
    rcases graphFindAdd_cases startMask add w with hg | ⟨hg, _⟩
    · exact hg
    · simp only [World.findOrCreateTableAdd, bind, M.bind, hg] at hok; cases hok
  cases ha : findOrCreateArch (add.foldl Mask.set startMask) w with
  | panic k s => simp only [World.findOrCreateTableAdd, bind, M.bind, hg, ha] at hok; cases hok
  | ok a1 w1 =>
    obtain ⟨_, _, hbr⟩ := findOrCreateTableAdd_ok_inv hg ha hok
    have u1 := findOrCreateArch_log ha
    rcases hbr with ⟨_, rfl⟩ | ⟨_, hct⟩
    · exact u1
    · exact (createTable_log hct).trans u1

/-- the handles depend on the pool only -/
theorem handlesN_pool (t : Nat) : ∀ (n : Nat) {w w' : World}, w.pool = w'.pool →
    handlesN w t n = handlesN w' t n
  | 0, _, _, _ => rfl
  | n + 1, w, w', hp => by
    show (w.pool.get).2 :: handlesN (placedW w t false) t n =
      (w'.pool.get).2 :: handlesN (placedW w' t false) t n
    rw [hp, handlesN_pool t n (w := placedW w t false) (w' := placedW w' t false)
      (by rw [placedW_pool, placedW_pool, hp])]

theorem newHandles_eq (t : Nat) (vals : List (Comp × Val)) : ∀ (n : Nat) (w : World),
    newHandles w t vals n = handlesN w t n
  | 0, _ => rfl
  | n + 1, w => by
    show (w.pool.get).2 :: newHandles (writeValsW (placedW w t false) (w.pool.get).2 vals) t vals n =
      (w.pool.get).2 :: handlesN (placedW w t false) t n
    rw [newHandles_eq t vals n, handlesN_pool t n (writeValsW_pool _ _ _)]

/-! ### `NewBatchFn` equals the singles -/

/-- **C06, creation with callback**: `NewBatchFn(count, fn)` (here: `fn` writes `vals`) on an
    unlocked world of the fragment whose lock is well-formed.  Let `w''` be the world `count`
    successive `NewEntity(ids…)` calls writing `vals` leave, and `es` the handles they return.
    Then the batch returns `(t, start)` and leaves `w''` EXACTLY, except for two fields: the
    record of the callback invocations is pushed on `log`, and the internal free list of the lock
    (`locks`) has gone through one `Lock`/`Unlock` cycle (the world is unlocked again).
    The callback ran exactly once per new entity, in creation order, on a locked world, and saw
    zeros (the fresh row) for every component it was about to write; `es` are the entities in
    rows `start … start+count-1` of table `t`. -/
theorem opNewBatchFn_eq_singles (run : ProbeRunner) (p : Path) {w : World} {fl : List Nat}
    (h : CInv w fl) (hl : w.isLocked = false) (hL : LockFree w.locks) {ids : List Comp}
    (hnd : ids.Nodup) (hreg : ∀ (c : Comp), c ∈ ids → c < w.kinds.length)
    (vals : List (Comp × Val)) {count : Nat} (hpos : 0 < count) (hfew : w.tables.length < maxU32)
    (hrows : ∀ t : Nat, (w.tbl t).len + count < 2 ^ 32) :
    ∃ (t start : Nat) (es : List Ent) (w'' : World) (L' : Lock),
      newEntitiesSeq run p ids vals count w = .ok es w'' ∧
      opNewBatch run p count ids vals [] true w = .ok (t, start)
        { w'' with locks := L'
                   log := es.reverse.map (fun e => LogEv.fn e true (vals.map fun cv => (cv.1, 0))) ++
                     w''.log } ∧
      es = (List.range count).map (fun i => (w''.tbl t).getEntity (start + i)) ∧
      es.length = count ∧ LockFree L' ∧ L'.isLocked = false ∧ w''.locks = w.locks ∧
      w''.log = w.log ∧ CInv w'' (fl.drop count) ∧ w''.isLocked = false := by
  obtain ⟨t, a, w1, hfoc, h1, hl1, bt, hsame, hnew, _, _, _⟩ := cinv_afterLookup h hnd hreg hfew
  rw [hl] at hl1
  have hlk1 : w1.locks = w.locks := (findOrCreateTableAdd_untouched hfoc).locks
  have hlog1 : w1.log = w.log := findOrCreateTableAdd_log hfoc
  have hb : (w1.tbl t).len + count < 2 ^ 32 := by
    rcases Nat.lt_or_ge t w.tables.length with hh | hh
    · rw [hsame t hh]; exact hrows t
    · rw [hnew hh]; have := hrows 0; omega
  have hS := h1.idx.shape t _ (get_of_lt bt.tlt)
  obtain ⟨l', b, l'', k1, k2, k3, k4, k5⟩ := hL.cycle
  rw [← hlk1] at k1
  have hbatch := opNewBatch_fn_eq run p count ids vals w hl hfoc h1.noObs k1 k3
  rw [createEntitiesW_eq_placeN count bt.tlt hS h1.noTargets hb] at hbatch
  -- the singles
  obtain ⟨s1, s2, s3⟩ := newEntitiesSeq_eq run p hnd vals count h1 hl1 bt hb
  have hseq : newEntitiesSeq run p ids vals count w = newEntitiesSeq run p ids vals count w1 := by
    obtain ⟨n, rfl⟩ : ∃ n, count = n + 1 := ⟨count - 1, by omega⟩
    have e1 := opNewEntity_eq run p ids vals w hl hfoc h1.noObs
    have e2 := (opNewEntity_found run p h1 hl1 hnd bt vals (by omega)).1
    simp only [newEntitiesSeq, bind, M.bind, e1, e2]
  have hnewN := newN_eq_writeRows vals count h1 bt hb
  -- the placements
  have hPlt : t < (placeN w1 t count).tables.length := by rw [placeN_tables_len]; exact bt.tlt
  have hPS := placeN_shape count bt.tlt hS hb
  have hPlen : ((placeN w1 t count).tbl t).len = (w1.tbl t).len + count := placeN_len count bt.tlt
  have rel := writeRows_rel hPlt hPS (w1.tbl t).len vals count (by rw [hPlen]; omega)
  have hrowsP := placeN_rows count bt.tlt hS hb
  have hrows'' : (List.range count).map
      (fun i => ((newN w1 t vals count).tbl t).getEntity ((w1.tbl t).len + i)) =
      handlesN w1 t count := by
    rw [← hrowsP, hnewN]
    apply List.map_congr_left
    intro i _
    simp only [Table.getEntity, rel.ents]
  rw [newHandles_eq] at s1
  have hlenH : (handlesN w1 t count).length = count := by
    rw [← hrowsP, List.length_map, List.length_range]
  -- the callback loop
  have hclosed := batchFnW_closed { placeN w1 t count with locks := l' } t (w1.tbl t).len vals count
  have hev := fnEvents_fresh (W := { placeN w1 t count with locks := l' }) hPlt hPS (w1.tbl t).len vals
    (placeN_new_rows_zero count bt.tlt hS hb) count (by
      show (w1.tbl t).len + count ≤ ((placeN w1 t count).tbl t).len
      rw [hPlen]; exact Nat.le_refl _)
  have hev' : fnEvents { placeN w1 t count with locks := l' } t (w1.tbl t).len vals count =
      (handlesN w1 t count).reverse.map
        (fun e => LogEv.fn e true (vals.map fun cv => (cv.1, 0))) := by
    rw [hev, ← hrowsP, ← List.map_reverse, List.map_map]
    apply List.map_congr_left
    intro i _
    show LogEv.fn _ l'.isLocked _ = _
    rw [k2]; rfl
  refine ⟨t, (w1.tbl t).len, handlesN w1 t count, newN w1 t vals count, l'', hseq.trans s1, ?_,
    hrows''.symm, hlenH, k5, k4, ?_, ?_, s2, s3⟩
  · rw [hbatch, hclosed, hev']
    have e1 : ({ placeN w1 t count with locks := l' } : World) =
        { placeN w1 t count with locks := l', log := (placeN w1 t count).log } := rfl
    rw [e1, writeRows_with, ← hnewN]
    have e2 : (newN w1 t vals count).log = (placeN w1 t count).log := by
      rw [hnewN, writeRows_log]
    rw [e2]
  · rw [hnewN, writeRows_locks, placeN_locks, hlk1]
  · rw [hnewN, writeRows_log, placeN_log, hlog1]


/-! ## 4. `World.NewEntities(count, fn)` (no components) against `World.NewEntity()` -/

/-- table 0 is the table of the component-less archetype 0 -/
theorem batchTarget_root {w : World} {fl : List Nat} (h : CInv w fl) : BatchTarget w [] 0 0 := by
  obtain ⟨h0, h1, h2⟩ := h.sinv.root
  have hT := get_of_lt h0
  obtain ⟨A, hA, _⟩ := h.sinv.tblArch 0 _ hT
  rw [h1] at hA
  have halt := alt_of_get hA
  have hnr := h.noRelArch' halt
  have hfree := (h.sinv.nonRelLe 0 _ (aget_of_lt halt) hnr).2
  have hmem := h.sinv.member 0 _ hT
  rw [h1] at hmem
  have hact : 0 ∈ (w.arch 0).tables.tables := by
    apply hmem.1.mp
    cases hf : (w.tbl 0).isFree with
    | false => rfl
    | true => have := hmem.2.mp hf; rw [hfree] at this; cases this
  have hlen := h.sinv.settled 0 _ (aget_of_lt halt) hnr
  refine ⟨halt, h2, ?_, h0⟩
  cases hts : (w.arch 0).tables.tables with
  | nil => rw [hts] at hact; cases hact
  | cons x rest =>
    rw [hts] at hact hlen
    cases rest with
    | nil => simp at hact; rw [← hact]
    | cons y r => simp at hlen

theorem placedW_rt {w : World} (hT : ∀ i : Nat, w.isTarget.getD i false = false) (t : Nat) :
    placedW w t true = placedW w t false := by
  rw [placedW_upd, placedW_upd]
  simp only [if_true, Bool.false_eq_true, if_false, set_false_of_allFalse hT]

/-- `n` successive `World.NewEntity()` calls; the handles in order -/
def newEntities0Seq (run : ProbeRunner) : Nat → W (List Ent)
  | 0 => pure []
  | n + 1 => do
    let e ← opNewEntity0 run
    let es ← newEntities0Seq run n
    pure (e :: es)

theorem newEntities0Seq_eq (run : ProbeRunner) : ∀ (n : Nat) {w : World} {fl : List Nat}, CInv w fl →
    w.isLocked = false → (w.tbl 0).len + n < 2 ^ 32 →
    newEntities0Seq run n w = .ok (handlesN w 0 n) (placeN w 0 n) ∧
    CInv (placeN w 0 n) (fl.drop n) ∧ (placeN w 0 n).isLocked = false
  | 0, _, _, h, hl, _ => ⟨rfl, h, hl⟩
  | n + 1, w, fl, h, hl, hb => by
    have h0 := h.sinv.root.1
    have pp := h.placed h0 false (by omega)
    have e1 := opNewEntity0_eq run w hl (h.noObs _)
    rw [placedW_rt h.noTargets] at e1
    obtain ⟨i1, i2, i3⟩ := newEntities0Seq_eq run n pp.cinv (by rw [pp.unlocked]; exact hl)
      (by rw [placedW_tbl_self h0, Table.add_fst_len]; omega)
    refine ⟨?_, ?_, i3⟩
    · simp only [newEntities0Seq, bind, M.bind, e1, i1, pure, M.pure]
      rfl
    · have : fl.drop (n + 1) = fl.tail.drop n := by cases fl <;> simp
      rw [this]; exact i2

theorem opNewEntities_eq (run : ProbeRunner) (count : Nat) (w : World) (hl : w.isLocked = false)
    {t a : Nat} {m : Mask} {w1 : World}
    (hfoc : findOrCreateTableAdd 0 Mask.empty [] [] w = .ok (t, a, m) w1)
    (hno : ∀ evt : Nat, w1.obs.hasObservers evt = false) :
    opNewEntities run count false w = .ok (t, (w1.tbl t).len) (createEntitiesW w1 t count) := by
  have hno1 : ∀ evt : Nat, (createEntitiesW w1 t count).obs.hasObservers evt = false := by
    intro evt; rw [createEntitiesW_obs]; exact hno evt
  simp [opNewEntities, bind, M.bind, M.get, checkLocked_unlocked w hl, hfoc, createEntities_eq,
    registerTargets, M.modify, hno1, pure, M.pure]

/-- **C06, `World.NewEntities(count, nil)`** = `count` × `World.NewEntity()`, as worlds; the
    handles are the entities of rows `start … start+count-1` of table 0.  (Any `count`, also 0:
    table 0 always exists.) -/
theorem opNewEntities_eq_singles (run : ProbeRunner) {w : World} {fl : List Nat} (h : CInv w fl)
    (hl : w.isLocked = false) (count : Nat) (hb : (w.tbl 0).len + count < 2 ^ 32) :
    ∃ (es : List Ent) (w' : World),
      opNewEntities run count false w = .ok (0, (w.tbl 0).len) w' ∧
      newEntities0Seq run count w = .ok es w' ∧
      es = (List.range count).map (fun i => (w'.tbl 0).getEntity ((w.tbl 0).len + i)) ∧
      es.length = count ∧ CInv w' (fl.drop count) ∧ w'.isLocked = false := by
  have bt := batchTarget_root h
  have hfoc := findOrCreateTableAdd_found h.sinv.toSInvMid bt List.nodup_nil (h.noRelArch' bt.altA)
    (h.relIDs_nil bt.tlt)
  have hS := h.idx.shape 0 _ (get_of_lt bt.tlt)
  have hbatch := opNewEntities_eq run count w hl hfoc h.noObs
  rw [createEntitiesW_eq_placeN count bt.tlt hS h.noTargets hb] at hbatch
  obtain ⟨s1, s2, s3⟩ := newEntities0Seq_eq run count h hl hb
  refine ⟨handlesN w 0 count, placeN w 0 count, hbatch, s1, (placeN_rows count bt.tlt hS hb).symm, ?_,
    s2, s3⟩
  rw [← placeN_rows count bt.tlt hS hb, List.length_map, List.length_range]

theorem writeRow_nil (w : World) (t r : Nat) : writeRow w t r [] = w := by
  show { w with tables := w.tables.set t (w.tbl t) } = w
  rw [set_tbl_self]

theorem writeRows_nil (w : World) (t start : Nat) : ∀ n : Nat, writeRows w t start n [] = w
  | 0 => rfl
  | n + 1 => by rw [writeRows_succ, writeRows_nil w t start n, writeRow_nil]

theorem opNewEntities_fn_eq (run : ProbeRunner) (count : Nat) (w : World) (hl : w.isLocked = false)
    {t a : Nat} {m : Mask} {w1 : World}
    (hfoc : findOrCreateTableAdd 0 Mask.empty [] [] w = .ok (t, a, m) w1)
    (hno : ∀ evt : Nat, w1.obs.hasObservers evt = false) {l' l'' : Lock} {b : Nat}
    (hlk : w1.locks.lock = some (l', b)) (hul : l'.unlock b = some l'') :
    opNewEntities run count true w =
      .ok (t, (w1.tbl t).len)
        { batchFnW { createEntitiesW w1 t count with locks := l' } t (w1.tbl t).len count [] with
          locks := l'' } := by
  have hno1 : ∀ evt : Nat, (createEntitiesW w1 t count).obs.hasObservers evt = false := by
    intro evt; rw [createEntitiesW_obs]; exact hno evt
  have hlk1 : (createEntitiesW w1 t count).locks.lock = some (l', b) := by
    rw [createEntitiesW_locks]; exact hlk
  have hul2 : (batchFnW { createEntitiesW w1 t count with locks := l' } t (w1.tbl t).len
      count []).locks.unlock b = some l'' := by
    rw [batchFnW_locks]; exact hul
  simp [opNewEntities, bind, M.bind, M.get, checkLocked_unlocked w hl, hfoc, createEntities_eq,
    registerTargets, M.modify, hno1, lock_ok hlk1, batchFn_eq, unlock_ok hul2, pure, M.pure]

/-- **C06, `World.NewEntities(count, fn)`**: the world `count` × `World.NewEntity()` leave, except
    that `log` records one callback invocation per new entity (in creation order, world locked,
    no component values) and the lock's free list went through one `Lock`/`Unlock` cycle. -/
theorem opNewEntitiesFn_eq_singles (run : ProbeRunner) {w : World} {fl : List Nat} (h : CInv w fl)
    (hl : w.isLocked = false) (hL : LockFree w.locks) (count : Nat)
    (hb : (w.tbl 0).len + count < 2 ^ 32) :
    ∃ (es : List Ent) (w'' : World) (L' : Lock),
      newEntities0Seq run count w = .ok es w'' ∧
      opNewEntities run count true w = .ok (0, (w.tbl 0).len)
        { w'' with locks := L', log := es.reverse.map (fun e => LogEv.fn e true []) ++ w''.log } ∧
      es = (List.range count).map (fun i => (w''.tbl 0).getEntity ((w.tbl 0).len + i)) ∧
      es.length = count ∧ LockFree L' ∧ L'.isLocked = false ∧ w''.locks = w.locks ∧
      w''.log = w.log ∧ CInv w'' (fl.drop count) ∧ w''.isLocked = false := by
  have bt := batchTarget_root h
  have hfoc := findOrCreateTableAdd_found h.sinv.toSInvMid bt List.nodup_nil (h.noRelArch' bt.altA)
    (h.relIDs_nil bt.tlt)
  have hS := h.idx.shape 0 _ (get_of_lt bt.tlt)
  obtain ⟨l', b, l'', k1, k2, k3, k4, k5⟩ := hL.cycle
  have hbatch := opNewEntities_fn_eq run count w hl hfoc h.noObs k1 k3
  rw [createEntitiesW_eq_placeN count bt.tlt hS h.noTargets hb] at hbatch
  obtain ⟨s1, s2, s3⟩ := newEntities0Seq_eq run count h hl hb
  have hPlt : 0 < (placeN w 0 count).tables.length := by rw [placeN_tables_len]; exact bt.tlt
  have hPS := placeN_shape count bt.tlt hS hb
  have hPlen : ((placeN w 0 count).tbl 0).len = (w.tbl 0).len + count := placeN_len count bt.tlt
  have hrowsP := placeN_rows count bt.tlt hS hb
  have hclosed := batchFnW_closed { placeN w 0 count with locks := l' } 0 (w.tbl 0).len [] count
  have hev := fnEvents_fresh (W := { placeN w 0 count with locks := l' }) hPlt hPS (w.tbl 0).len []
    (placeN_new_rows_zero count bt.tlt hS hb) count (by
      show (w.tbl 0).len + count ≤ ((placeN w 0 count).tbl 0).len
      rw [hPlen]; exact Nat.le_refl _)
  have hev' : fnEvents { placeN w 0 count with locks := l' } 0 (w.tbl 0).len [] count =
      (handlesN w 0 count).reverse.map (fun e => LogEv.fn e true []) := by
    rw [hev, ← hrowsP, ← List.map_reverse, List.map_map]
    apply List.map_congr_left
    intro i _
    show LogEv.fn _ l'.isLocked _ = _
    rw [k2]; rfl
  refine ⟨handlesN w 0 count, placeN w 0 count, l'', s1, ?_, hrowsP.symm, ?_, k5, k4,
    placeN_locks 0 count w, placeN_log 0 count w, s2, s3⟩
  · rw [hbatch, hclosed, hev', writeRows_nil]
  · rw [← hrowsP, List.length_map, List.length_range]

end World

end Ark
