/-
  Ark.Proofs.CacheHist — property C05 over whole histories, part 1: the storage steps.

  `Ark.Proofs.CacheInv` proves that the cache invariant `CacheInv` is kept by each of the cache's
  own operations.  This file proves that it is kept by the storage steps through which the entity
  operations reach the cache:

  * `cacheInv_append_arch`   — `createArchetype` (a new archetype has no table yet);
  * `SInvMid.createTable_cacheInv` — `createTable` (storage part + `cache.addTable`), relations
    allowed: the abstract effect `Ark.TableAdded` of `SInv` is an instance of the cache's
    `World.TableAdded`;
  * `SInv.foc_shape` / `FocShape` — a successful `findOrCreateTableAdd` is "find or append the
    archetype, then find or create the table";
  * `FocShape.cacheInv`, `FocShape.filters`, `FocShape.cidx` — what that does to the cache, the
    filter heap and the component index.

  * `CIdxH w` — `componentIndex[c]` is the ascending list of the archetypes whose mask has bit `c`
    (what the uncached query of a TYPED filter walks: `archList (some rare)`); kept by
    `registerComponent`, `createArchetype`, `createTable`.

  Kernel-only proofs, core Lean only.
-/
import Ark.Proofs.CacheInv
import Ark.Proofs.Refine

set_option autoImplicit false

namespace Ark

open World

/-! ## 1. `CacheInv` through `createArchetype` -/

namespace World

/-- a new archetype has no table: selection is unchanged -/
theorem selected_append_arch {w w' : World} (mask : Mask)
    (ha : w'.archetypes = w.archetypes ++ [newArch w mask]) (ht : w'.tables = w.tables)
    (f : Filter) (rels : List RelID) (t : Nat) :
    Selected w' f rels t ↔ Selected w f rels t := by
  unfold Selected tbl
  rw [ha, ht]
  constructor
  · rintro ⟨a, A, hA, h1, h2, h3⟩
    rcases getElem?_concat_cases hA with ⟨_, hA'⟩ | ⟨_, rfl⟩
    · exact ⟨a, A, hA', h1, h2, h3⟩
    · simp [newArch, Archetype.new, TableIDs.ofList] at h1
  · rintro ⟨a, A, hA, h1, h2, h3⟩
    exact ⟨a, A, by rw [List.getElem?_append_left (alt_of_get hA)]; exact hA, h1, h2, h3⟩

theorem cacheInv_append_arch {w w' : World} (h : CacheInv w) (mask : Mask)
    (ha : w'.archetypes = w.archetypes ++ [newArch w mask]) (ht : w'.tables = w.tables)
    (hc : w'.cache = w.cache) : CacheInv w' := by
  refine ⟨by rw [hc]; exact h.uniq, by rw [hc]; exact h.index, ?_⟩
  intro e he
  rw [hc] at he
  exact ⟨(h.entries e he).1, fun t => by
    rw [selected_append_arch mask ha ht]; exact (h.entries e he).2 t⟩

theorem cacheInv_createArchetypeW {w : World} (h : CacheInv w) (mask : Mask) :
    CacheInv (createArchetypeW w mask) :=
  cacheInv_append_arch h mask
    (createArchetypeW_proj (·.archetypes) (fun _ _ _ => rfl) (fun _ _ => rfl) w mask)
    (createArchetypeW_proj (·.tables) (fun _ _ _ => rfl) (fun _ _ => rfl) w mask)
    (createArchetypeW_proj (·.cache) (fun _ _ _ => rfl) (fun _ _ => rfl) w mask)

end World

/-! ## 2. `CacheInv` through `createTable` -/

/-- the storage part of `createTable` in the vocabulary of the cache: table `tid` becomes active
    in archetype `a` -/
theorem TableAdded.toCache {w w' : World} {a tid : Nat} {A A2 : Archetype} {Tn : Table}
    (ta : TableAdded w w' a tid A A2 Tn) (hc : w'.cache = w.cache) :
    World.TableAdded w w' a tid where
  other := fun a' hne => ta.aget_ne hne
  here := ⟨A, A2, ta.hA, ta.aget_self, ta.mask, fun t' ht' => by
    rw [ta.memT]
    constructor
    · rintro (h | h)
      · exact h
      · exact absurd h ht'
    · exact Or.inl⟩
  tbl := fun t' ht' => by simp only [tbl, List.getD_eq_getElem?_getD, ta.tget_ne ht']
  cache := hc
  inactive := by
    intro a' B hB hm
    by_cases ha : a' = a
    · subst ha
      rw [ta.hA] at hB
      have hBA : A = B := Option.some.inj hB
      subst hBA
      have hnd := ta.struct.tablesWF.nodup
      rw [ta.tabsEq] at hnd
      have := (List.nodup_append.mp hnd).2.2 tid hm tid (List.mem_singleton.mpr rfl)
      exact this rfl
    · exact (ta.others a' B ha hB).1 hm
  active := by
    intro A' hA'
    rw [ta.aget_self] at hA'
    rw [← Option.some.inj hA']
    exact (ta.memT tid).2 (Or.inr rfl)
  back := by rw [tbl_of_get ta.tget_self]; exact ta.tArch

/-- **`createTable` keeps the cache invariant** (relations allowed): for an existing archetype
    `a` which — if it has no relation column — has no table yet. -/
theorem SInvMid.createTable_cacheInv {w w' : World} (h : SInvMid w) (hc : CacheInv w) {a : Nat}
    {rels : List RelID} {t : Nat} (ha : a < w.archetypes.length)
    (hnr : (w.arch a).hasRelations = false → (w.arch a).tables.tables = [])
    (hok : World.createTable a rels w = .ok t w') : CacheInv w' := by
  obtain ⟨_, h2, h3, h4, h5⟩ := createTable_ok hok
  have hA := aget_of_lt ha
  obtain ⟨A2, Tn, ta, _, _, _, _, _, e3, _⟩ := h.createTableS_added hA h2 h3 hnr
  rw [← h4] at ta
  have hd := ta.toCache e3
  have hid : ((createTableS w a rels).1.tbl t).id = t := by
    rw [tbl_of_get ta.tget_self]; exact ta.tId
  exact (cacheAddTable_inv hc hd hid h5).1

/-! ## 2b. fields `createTable` does not touch -/

namespace World

theorem createTableS_heap (w : World) (a : Nat) (rels : List RelID) :
    (createTableS w a rels).1.filters = w.filters ∧
    (createTableS w a rels).1.componentIndex = w.componentIndex := by
  unfold createTableS
  split <;> exact ⟨rfl, rfl⟩

theorem cacheAddTable_heap {w w' : World} {T : Table} (h : w.cacheAddTable T = some w') :
    w'.filters = w.filters ∧ w'.componentIndex = w.componentIndex ∧
    w'.cache.indices = w.cache.indices ∧ w'.cache.pool = w.cache.pool := by
  unfold cacheAddTable at h
  simp only at h
  split at h
  · cases h
  · injection h with h; subst h; exact ⟨rfl, rfl, rfl, rfl⟩

/-- `createTable` touches neither the filter heap nor the component index -/
theorem createTable_heap {a : Nat} {rels : List RelID} {w w' : World} {t : Nat}
    (h : createTable a rels w = .ok t w') :
    w'.filters = w.filters ∧ w'.componentIndex = w.componentIndex := by
  obtain ⟨_, _, _, _, h5⟩ := createTable_ok h
  obtain ⟨f1, f2, _, _⟩ := cacheAddTable_heap h5
  obtain ⟨g1, g2⟩ := createTableS_heap w a rels
  exact ⟨f1.trans g1, f2.trans g2⟩

end World

/-! ## 3. the shape of a successful `findOrCreateTableAdd` -/

/-- `w'` arises from `w` by: find the archetype or append it (`w1`), then find its table or
    create one. -/
structure FocShape (w w1 w' : World) : Prop where
  arch : w1 = w ∨ ∃ (mask : Mask), w.findArch mask = none ∧
    (∀ (c : Nat), mask.get c = true → c < w.kinds.length) ∧ w1 = createArchetypeW w mask
  mid : SInvMid w1
  tab : w' = w1 ∨ ∃ (a : Nat) (rels : List RelID) (t : Nat), a < w1.archetypes.length ∧
    ((w1.arch a).hasRelations = false → (w1.arch a).tables.tables = []) ∧
    World.createTable a rels w1 = .ok t w'

theorem SInv.foc_shape {w w' : World} (h : SInv w) {oldT : Nat} {startMask : Mask}
    {add : List Comp} {rels : List RelID} {r : Nat × Nat × Mask}
    (hstart : ∀ (c : Nat), startMask.get c = true → c < w.kinds.length)
    (hreg : ∀ (c : Comp), c ∈ add → c < w.kinds.length)
    (hok : World.findOrCreateTableAdd oldT startMask add rels w = .ok r w') :
    ∃ (w1 : World), FocShape w w1 w' := by
  obtain ⟨t, a, mask⟩ := r
  have hg : graphFindAdd startMask add w = .ok (add.foldl Mask.set startMask) w := by
    rcases graphFindAdd_cases startMask add w with hg | ⟨hg, _⟩
    · exact hg
    · simp only [World.findOrCreateTableAdd, bind, M.bind, hg] at hok; cases hok
  have hmreg := Mask.get_foldl_set_reg hstart hreg
  obtain ⟨a1, w1, ha, hmid, _, halt, _, _, _, _, _, _, _, _, hcase⟩ :=
    h.findOrCreateArch (add.foldl Mask.set startMask) hmreg
  obtain ⟨_, _, hbr⟩ := findOrCreateTableAdd_ok_inv hg ha hok
  subst_vars
  refine ⟨w1, ?_, hmid, ?_⟩
  · rcases hcase with ⟨_, rfl⟩ | ⟨hf, _, _⟩
    · exact Or.inl rfl
    · refine Or.inr ⟨_, hf, hmreg, ?_⟩
      have : World.findOrCreateArch (add.foldl Mask.set startMask) w =
          .ok w.archetypes.length (createArchetypeW w (add.foldl Mask.set startMask)) := by
        simp only [World.findOrCreateArch, hf]; rfl
      rw [this] at ha
      injection ha with _ h2
      exact h2.symm
  · rcases hbr with ⟨_, rfl⟩ | ⟨hgt, hct⟩
    · exact Or.inl rfl
    · refine Or.inr ⟨_, _, _, halt, ?_, hct⟩
      intro hr
      rw [getTable_noRel _ hr] at hgt
      injection hgt with hgt _
      split at hgt
      · rename_i he
        exact List.isEmpty_iff.1 he
      · cases hgt

namespace FocShape

variable {w w1 w' : World}

/-- **`findOrCreateTableAdd` keeps the cache invariant.** -/
theorem cacheInv (s : FocShape w w1 w') (hc : CacheInv w) : CacheInv w' := by
  have h1 : CacheInv w1 := by
    rcases s.arch with rfl | ⟨mask, _, _, rfl⟩
    · exact hc
    · exact cacheInv_createArchetypeW hc mask
  rcases s.tab with rfl | ⟨a, rels, t, halt, hnr, hct⟩
  · exact h1
  · exact s.mid.createTable_cacheInv h1 halt hnr hct

/-- the filter heap is not touched -/
theorem filters (s : FocShape w w1 w') : w'.filters = w.filters := by
  have h1 : w1.filters = w.filters := by
    rcases s.arch with rfl | ⟨mask, _, _, rfl⟩
    · rfl
    · exact createArchetypeW_proj (·.filters) (fun _ _ _ => rfl) (fun _ _ => rfl) w mask
  rcases s.tab with rfl | ⟨a, rels, t, _, _, hct⟩
  · exact h1
  · exact (createTable_heap hct).1.trans h1

end FocShape

/-! ## 4. the component index -/

/-- **the component index**: one entry per registered component; entry `c` is the ascending
    list of the archetypes whose mask has bit `c` (`storage.componentIndex`, what the uncached
    query of a typed filter walks). -/
structure CIdxH (w : World) : Prop where
  len : w.componentIndex.length = w.kinds.length
  idx : ∀ (c : Nat), c < w.kinds.length →
    w.componentIndex.getD c [] =
      (List.range w.archetypes.length).filter fun a => (w.arch a).mask.get c

theorem cidx_init (cap rel : Nat) : CIdxH (World.init cap rel) :=
  ⟨rfl, fun c hc => absurd hc (Nat.not_lt_zero c)⟩

/-- the index only reads the masks of the archetypes -/
theorem CIdxH.congr {w w' : World} (h : CIdxH w) (hk : w'.kinds = w.kinds)
    (hci : w'.componentIndex = w.componentIndex)
    (hlen : w'.archetypes.length = w.archetypes.length)
    (hm : ∀ (a : Nat), a < w.archetypes.length → (w'.arch a).mask = (w.arch a).mask) : CIdxH w' := by
  refine ⟨by rw [hci, hk]; exact h.len, fun c hc => ?_⟩
  rw [hci, hlen, h.idx c (by rw [← hk]; exact hc)]
  apply List.filter_congr
  intro a ha
  rw [hm a (List.mem_range.mp ha)]

namespace CIdxH

/-- the update loop of `createArchetype` on the index alone -/
theorem caFold_componentIndex (id : Nat) : ∀ (cs : List Comp) (w : World),
    (cs.foldl (caStep id) w).componentIndex =
      cs.foldl (fun (ci : List (List Nat)) c => ci.modify c (· ++ [id])) w.componentIndex
  | [], _ => rfl
  | c :: cs, w => by
    rw [List.foldl_cons, List.foldl_cons, caFold_componentIndex id cs]; rfl

theorem modifyFold_length (id : Nat) : ∀ (cs : List Nat) (ci : List (List Nat)),
    (cs.foldl (fun (ci : List (List Nat)) c => ci.modify c (· ++ [id])) ci).length = ci.length
  | [], _ => rfl
  | c :: cs, ci => by
    rw [List.foldl_cons, modifyFold_length id cs, List.length_modify]

theorem modifyFold_getD (id : Nat) : ∀ (cs : List Nat) (ci : List (List Nat)) (c : Nat),
    cs.Nodup → c < ci.length →
    (cs.foldl (fun (ci : List (List Nat)) c => ci.modify c (· ++ [id])) ci).getD c [] =
      ci.getD c [] ++ (if c ∈ cs then [id] else [])
  | [], ci, c, _, _ => by simp
  | x :: cs, ci, c, hnd, hc => by
    obtain ⟨hx, hnd'⟩ := List.nodup_cons.mp hnd
    rw [List.foldl_cons, modifyFold_getD id cs _ c hnd' (by rw [List.length_modify]; exact hc)]
    simp only [List.getD_eq_getElem?_getD, List.getElem?_modify]
    by_cases hxc : x = c
    · subst hxc
      simp [hx, List.getElem?_eq_getElem hc]
    · have : c ≠ x := fun e => hxc e.symm
      simp [hxc, this]

end CIdxH

/-- **`createArchetype` keeps the component index** (for a mask of registered components) -/
theorem CIdxH.createArchetypeW {w : World} (h : CIdxH w) (mask : Mask) :
    CIdxH (createArchetypeW w mask) := by
  have hk : (World.createArchetypeW w mask).kinds = w.kinds :=
    createArchetypeW_proj (·.kinds) (fun _ _ _ => rfl) (fun _ _ => rfl) w mask
  have ha : (World.createArchetypeW w mask).archetypes = w.archetypes ++ [newArch w mask] :=
    createArchetypeW_proj (·.archetypes) (fun _ _ _ => rfl) (fun _ _ => rfl) w mask
  have hci : (World.createArchetypeW w mask).componentIndex =
      (mask.toList w.kinds.length).foldl
        (fun (ci : List (List Nat)) c => ci.modify c (· ++ [w.archetypes.length])) w.componentIndex := by
    unfold World.createArchetypeW
    simp only
    split
    · exact CIdxH.caFold_componentIndex _ _ _
    · exact CIdxH.caFold_componentIndex _ _ _
  have hnd : (mask.toList w.kinds.length).Nodup := by
    unfold Mask.toList
    exact List.Pairwise.filter _ List.nodup_range
  have hold : ∀ (a : Nat), a < w.archetypes.length →
      (World.createArchetypeW w mask).arch a = w.arch a := by
    intro a hlt
    simp only [arch, ha, List.getD_eq_getElem?_getD, List.getElem?_append_left hlt]
  have hnew : (World.createArchetypeW w mask).arch w.archetypes.length = newArch w mask := by
    apply arch_of_get; rw [ha]; exact List.getElem?_concat_length
  refine ⟨by rw [hci, hk, CIdxH.modifyFold_length]; exact h.len, fun c hc => ?_⟩
  rw [hk] at hc
  rw [hci, CIdxH.modifyFold_getD _ _ _ c hnd (by rw [h.len]; exact hc), h.idx c hc, ha]
  simp only [List.length_append, List.length_singleton, List.range_succ, List.filter_append]
  congr 1
  · apply List.filter_congr
    intro a hlt
    rw [hold a (List.mem_range.mp hlt)]
  · have hm : (newArch w mask).mask = mask := rfl
    simp only [Mask.mem_toList, hc, true_and, List.filter_cons, List.filter_nil, hnew, hm]

namespace World

/-- the state after a successful component registration -/
theorem registerComponent_ok_eq {k : CompKind} {w w' : World} {n : Nat}
    (hr : registerComponent k w = .ok n w') :
    w' = { w with kinds := w.kinds ++ [k], archCount := w.archCount ++ [0],
                  componentIndex := w.componentIndex ++ [[]] } := by
  unfold registerComponent at hr
  simp only at hr
  split at hr
  · cases hr
  · split at hr
    · cases hr
    · injection hr with _ h2; exact h2.symm

end World

/-- **`registerComponent` keeps the component index**: the new component is in no mask -/
theorem CIdxH.registerComponent {w w' : World} (h : CIdxH w) (hS : SInvMid w) {k : CompKind}
    {n : Nat} (hr : World.registerComponent k w = .ok n w') : CIdxH w' := by
  rw [registerComponent_ok_eq hr]
  refine ⟨by simp only [List.length_append, List.length_singleton, h.len], fun c hc => ?_⟩
  simp only [List.length_append, List.length_singleton] at hc
  show (w.componentIndex ++ [[]]).getD c [] =
    (List.range w.archetypes.length).filter fun a => (w.arch a).mask.get c
  rcases Nat.lt_or_ge c w.kinds.length with h1 | h1
  · rw [getD_append_left' _ _ _ _ (by rw [h.len]; exact h1)]
    exact h.idx c h1
  · have hce : c = w.componentIndex.length := by rw [h.len]; omega
    subst hce
    simp only [List.getD_eq_getElem?_getD, List.getElem?_concat_length, Option.getD_some]
    symm
    rw [List.filter_eq_nil_iff]
    intro a ha hg
    have := hS.maskReg a _ (aget_of_lt (List.mem_range.mp ha)) _ hg
    rw [h.len] at this
    exact absurd this (Nat.lt_irrefl _)

/-- **`createTable` keeps the component index** -/
theorem CIdxH.createTable {w w' : World} (h : CIdxH w) (hS : SInvMid w) {a : Nat}
    {rels : List RelID} {t : Nat} (ha : a < w.archetypes.length)
    (hnr : (w.arch a).hasRelations = false → (w.arch a).tables.tables = [])
    (hok : World.createTable a rels w = .ok t w') : CIdxH w' := by
  have ct := hS.createTable ha hnr hok
  refine h.congr ct.kinds (createTable_heap hok).2 ct.archLen ?_
  intro b _
  by_cases hb : b = a
  · subst hb; exact ct.archA.1
  · simp only [arch, List.getD_eq_getElem?_getD, ct.otherArchs b hb]

/-- **`findOrCreateTableAdd` keeps the component index** -/
theorem FocShape.cidx {w w1 w' : World} (s : FocShape w w1 w') (h : CIdxH w) : CIdxH w' := by
  have h1 : CIdxH w1 := by
    rcases s.arch with rfl | ⟨mask, _, _, rfl⟩
    · exact h
    · exact h.createArchetypeW mask
  rcases s.tab with rfl | ⟨a, rels, t, halt, hnr, hct⟩
  · exact h1
  · exact h1.createTable s.mid halt hnr hct

end Ark
