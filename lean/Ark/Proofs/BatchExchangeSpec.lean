/-
  Ark.Proofs.BatchExchangeSpec — C06 at world level, part 3 (continued): the lookup loop and the
  move loop of `exchangeBatch`, and the comparison with `Exchange` applied to every selected entity.
-/
import Ark.Proofs.BatchExchange
import Ark.Proofs.RefineOps
set_option autoImplicit false
namespace Ark
open World Ark.Props.C01World
namespace World

/-! ## 4. the lookup loop of `exchangeBatch` -/

/-- the mask after `Exchange(add, rem)` -/
def xmask (add rem : List Comp) (m : Mask) : Mask := add.foldl Mask.set (rem.foldl Mask.clear m)

theorem xmask_get (add rem : List Comp) (m : Mask) (c : Nat) :
    (xmask add rem m).get c =
      ((m.get c && !decide (c ∈ rem)) || decide (c < 256) && decide (c ∈ add)) := by
  rw [xmask, Mask.get_ofList_foldl, Mask.get_foldl_clear]

/-- the precondition of `Exchange(add, rem)` on the mask `m` (`n` registered component types) -/
structure ExchOK (n : Nat) (add rem : List Comp) (m : Mask) : Prop where
  remNodup : rem.Nodup
  pres : ∀ c : Comp, c ∈ rem → m.get c = true
  addNodup : add.Nodup
  reg : ∀ c : Comp, c ∈ add → c < n
  new : ∀ c : Comp, c ∈ add → m.get c = false

/-- the mask of table `t`'s archetype -/
def tmask (w : World) (t : Nat) : Mask := (w.arch (w.tbl t).arch).mask

/-- `w'` extends `w` by archetypes and tables (what the table lookups do) -/
structure Ext (w w' : World) : Prop where
  tables : ∀ t : Nat, t < w.tables.length → w'.tables[t]? = w.tables[t]?
  masks : ∀ b : Nat, b < w.archetypes.length → (w'.arch b).mask = (w.arch b).mask
  tablesLen : w.tables.length ≤ w'.tables.length
  archsLen : w.archetypes.length ≤ w'.archetypes.length
  entities : w'.entities = w.entities
  pool : w'.pool = w.pool
  kinds : w'.kinds = w.kinds
  log : w'.log = w.log
  untouched : Untouched w w'

theorem Ext.refl (w : World) : Ext w w :=
  ⟨fun _ _ => rfl, fun _ _ => rfl, Nat.le_refl _, Nat.le_refl _, rfl, rfl, rfl, rfl, Untouched.refl w⟩

theorem Ext.trans {a b c : World} (h1 : Ext a b) (h2 : Ext b c) : Ext a c :=
  ⟨fun t ht => (h2.tables t (Nat.lt_of_lt_of_le ht h1.tablesLen)).trans (h1.tables t ht),
    fun x hx => (h2.masks x (Nat.lt_of_lt_of_le hx h1.archsLen)).trans (h1.masks x hx),
    Nat.le_trans h1.tablesLen h2.tablesLen, Nat.le_trans h1.archsLen h2.archsLen,
    h2.entities.trans h1.entities, h2.pool.trans h1.pool, h2.kinds.trans h1.kinds,
    h2.log.trans h1.log, h1.untouched.trans h2.untouched⟩

theorem Ext.tbl {w w' : World} (h : Ext w w') {t : Nat} (ht : t < w.tables.length) :
    w'.tbl t = w.tbl t := by
  simp only [World.tbl, List.getD_eq_getElem?_getD, h.tables t ht]

theorem Ext.tmask {w w' : World} (h : Ext w w') (hS : SInv w) {t : Nat} (ht : t < w.tables.length) :
    tmask w' t = tmask w t := by
  obtain ⟨A, hA, _⟩ := hS.tblArch t _ (get_of_lt ht)
  simp only [World.tmask, h.tbl ht]
  exact h.masks _ (alt_of_get hA)

theorem xmask_ne {n : Nat} {add rem : List Comp} {m : Mask} (ok : ExchOK n add rem m) (hn : n ≤ 256)
    (hne : ¬ (add = [] ∧ rem = [])) : xmask add rem m ≠ m := by
  intro heq
  have hgc := fun c => congrArg (fun m => Mask.get m c) heq
  simp only [xmask_get] at hgc
  cases add with
  | cons c rest =>
    have := hgc c
    rw [ok.new c List.mem_cons_self] at this
    have hc := ok.reg c List.mem_cons_self
    have hc256 : c < 256 := Nat.lt_of_lt_of_le hc hn
    simp [hc256] at this
  | nil =>
    cases rem with
    | nil => exact hne ⟨rfl, rfl⟩
    | cons c rest =>
      have := hgc c
      rw [ok.pres c List.mem_cons_self] at this
      simp at this

/-- one table lookup of the batch: the destination of the source table `t` -/
theorem findOrCreateTable_step {w : World} {fl : List Nat} (h : CInv w fl) {t : Nat}
    (ht : t < w.tables.length) {add rem : List Comp} (hne : ¬ (add = [] ∧ rem = []))
    (ok : ExchOK w.kinds.length add rem (tmask w t)) (hfew : w.tables.length < maxU32) :
    ∃ (d a : Nat) (w' : World),
      findOrCreateTable t (tmask w t) add rem [] w =
        .ok (d, a, xmask add rem (tmask w t), false) w' ∧
      CInv w' fl ∧ Ext w w' ∧ d < w'.tables.length ∧ d ≠ t ∧
      tmask w' d = xmask add rem (tmask w t) ∧ w'.tables.length ≤ w.tables.length + 1 := by
  have hTt := get_of_lt ht
  obtain ⟨A, hA, _⟩ := h.sinv.tblArch t _ hTt
  have hAE := arch_of_get hA
  have hb256 : ∀ (c : Comp), c ∈ add → c < 256 := fun c hc => h.reg_lt_256 (ok.reg c hc)
  have hrel0 : (w.tbl t).relIDs = [] := h.relIDs_nil ht
  have hg := graphFind_ok (tmask w t) add rem w hb256 ok.remNodup ok.pres ok.addNodup ok.new
  have hregM : ∀ c : Nat, (xmask add rem (tmask w t)).get c = true → c < w.kinds.length := by
    intro c hc
    rw [xmask_get] at hc
    cases hs : (tmask w t).get c with
    | true =>
      simp only [tmask, hAE] at hs
      exact h.sinv.maskReg _ A hA c hs
    | false =>
      rw [hs] at hc
      simp at hc
      exact ok.reg c hc.2
  obtain ⟨d, a, w1, hok, fc, hI1, hsame⟩ :=
    h.sinv.foc_nil_spec h.idx h.noRelKinds hrel0 hregM
  have hu := findOrCreateTableAdd_untouched hok
  have hlen1 := findOrCreateTableAdd_tables_len hok
  have hfoc : findOrCreateTable t (tmask w t) add rem [] w =
      .ok (d, a, xmask add rem (tmask w t), false) w1 := by
    rw [findOrCreateTable_eq_add t _ _ add rem w hg hrel0]
    show (match findOrCreateTableAdd t (xmask add rem (tmask w t)) [] [] w with
      | .ok r w' => Res.ok (r.1, r.2.1, r.2.2, false) w'
      | .panic k w' => .panic k w') = _
    rw [hok]
  have h1 : CInv w1 fl := h.transfer hI1 fc.sinv fc.pool
    ⟨by rw [fc.entities], fun i => Or.inl (by rw [fc.entities])⟩ fc.kinds hu (by omega)
  have hneT : d ≠ t := by
    apply fc.ne_old h.sinv ht
    exact xmask_ne ok (by have := h.kindsLe; omega) hne
  refine ⟨d, a, w1, hfoc, h1,
    ⟨hsame, fc.masks, fc.tablesLen, fc.archsLen, fc.entities, fc.pool, fc.kinds,
      findOrCreateTableAdd_log hok, hu⟩, fc.tblLt, hneT, ?_, hlen1⟩
  simp only [tmask, fc.tblArch, fc.archMask]

/-- a source table of the original world `w0` and its destination in the world `W` -/
structure DestOK (w0 : World) (add rem : List Comp) (W : World) (b : BatchTable) : Prop where
  src : b.oldT < w0.tables.length
  nonempty : (w0.tbl b.oldT).len ≠ 0
  len : b.len = (w0.tbl b.oldT).len
  dlt : b.newT < W.tables.length
  ne : b.newT ≠ b.oldT
  dmask : tmask W b.newT = xmask add rem (tmask w0 b.oldT)

theorem DestOK.mono {w0 W W' : World} {add rem : List Comp} {b : BatchTable}
    (d : DestOK w0 add rem W b) (hS : SInv W) (e : Ext W W') : DestOK w0 add rem W' b :=
  ⟨d.src, d.nonempty, d.len, Nat.lt_of_lt_of_le d.dlt e.tablesLen, d.ne,
    (e.tmask hS d.dlt).trans d.dmask⟩

/-- **the lookup loop**: every non-empty selected table gets its destination; the world is
    extended by the archetypes and tables that did not exist -/
theorem findLoop_spec {w0 : World} (hS0 : SInv w0) {fl : List Nat} {add rem : List Comp}
    (hne : ¬ (add = [] ∧ rem = [])) : ∀ (ts : List Nat) (s : Bool × List BatchTable) (w : World),
    CInv w fl → Ext w0 w → (∀ t ∈ ts, t < w0.tables.length) →
    (∀ t ∈ ts, (w0.tbl t).len ≠ 0 → ExchOK w0.kinds.length add rem (tmask w0 t)) →
    w.tables.length + ts.length < maxU32 →
    ∃ (bts : List BatchTable) (w1 : World),
      findLoop add rem ts s w = .ok (s.1, s.2 ++ bts) w1 ∧ CInv w1 fl ∧ Ext w w1 ∧
      bts.map (·.oldT) = ts.filter (fun t => (w0.tbl t).len != 0) ∧
      (∀ b ∈ bts, DestOK w0 add rem w1 b) ∧ w1.tables.length ≤ w.tables.length + ts.length
  | [], s, w, h, _, _, _, _ =>
    ⟨[], w, (by simp [findLoop, pure, M.pure]), h, Ext.refl w, rfl, (fun b hb => by cases hb),
      Nat.le_refl _⟩
  | t :: ts, s, w, h, e0, hlt, hok, hfew => by
    have ht0 := hlt t List.mem_cons_self
    have ht : t < w.tables.length := Nat.lt_of_lt_of_le ht0 e0.tablesLen
    have htbl : w.tbl t = w0.tbl t := e0.tbl ht0
    have hlt' : ∀ t' ∈ ts, t' < w0.tables.length := fun t' h' => hlt t' (List.mem_cons_of_mem _ h')
    have hok' : ∀ t' ∈ ts, (w0.tbl t').len ≠ 0 → ExchOK w0.kinds.length add rem (tmask w0 t') :=
      fun t' h' => hok t' (List.mem_cons_of_mem _ h')
    simp only [List.length_cons] at hfew
    cases h0 : ((w0.tbl t).len == 0) with
    | true =>
      obtain ⟨bts, w1, i1, i2, i3, i4, i5, i6⟩ :=
        findLoop_spec hS0 hne ts s w h e0 hlt' hok' (by omega)
      refine ⟨bts, w1, ?_, i2, i3, ?_, i5, by simp only [List.length_cons]; omega⟩
      · simp only [findLoop, htbl, h0, if_true]; exact i1
      · rw [i4, List.filter_cons]
        have : ((w0.tbl t).len != 0) = false := by simp only [bne, h0, Bool.not_true]
        rw [this]; rfl
    | false =>
      have hnz : (w0.tbl t).len ≠ 0 := by simpa using h0
      have hmask : tmask w t = tmask w0 t := e0.tmask hS0 ht0
      have ok := hok t List.mem_cons_self hnz
      rw [← hmask, ← e0.kinds] at ok
      obtain ⟨d, a, w', hfoc, h', e', hd, hdne, hdm, hl'⟩ :=
        findOrCreateTable_step h ht hne ok (by omega)
      obtain ⟨bts, w1, i1, i2, i3, i4, i5, i6⟩ :=
        findLoop_spec hS0 hne ts (s.1, s.2 ++ [{ oldT := t, newT := d, len := (w.tbl t).len }]) w' h'
          (e0.trans e') hlt' hok' (by omega)
      refine ⟨{ oldT := t, newT := d, len := (w.tbl t).len } :: bts, w1, ?_, i2, e'.trans i3, ?_, ?_,
        by simp only [List.length_cons]; omega⟩
      · have hfoc' : findOrCreateTable t (w.arch (w.tbl t).arch).mask add rem [] w =
            .ok (d, a, xmask add rem (tmask w t), false) w' := hfoc
        simp only [findLoop, htbl, h0, Bool.false_eq_true, if_false]
        rw [← htbl, hfoc']
        simp only [Bool.false_eq_true, if_false]
        rw [i1]
        simp only [List.append_assoc, List.singleton_append]
      · rw [List.map_cons, i4, List.filter_cons]
        have : ((w0.tbl t).len != 0) = true := by simp only [bne, h0, Bool.not_false]
        rw [this]; rfl
      · intro b hb
        rcases List.mem_cons.mp hb with rfl | hb
        · exact DestOK.mono ⟨ht0, hnz, by rw [htbl], hd, hdne, by rw [hdm, hmask]⟩ h'.sinv i3
        · exact i5 b hb


/-! ## 5. the move loop of `exchangeBatch` -/

/-- the moves are independent: distinct sources, distinct destinations, no destination is a
    source; all tables exist -/
structure MovesOK (W : World) (bts : List BatchTable) : Prop where
  srcNodup : (bts.map (·.oldT)).Nodup
  dstNodup : (bts.map (·.newT)).Nodup
  src : ∀ b ∈ bts, b.oldT < W.tables.length
  dst : ∀ b ∈ bts, b.newT < W.tables.length
  disj : ∀ b ∈ bts, ∀ b' ∈ bts, b.newT ≠ b'.oldT

/-- the entity IDs in the rows of the source tables -/
def srcIds (W : World) (bts : List BatchTable) : List Nat :=
  ((bts.map (·.oldT)).flatMap (rowsOf W)).map (·.id)

/-- what the move loop guarantees -/
structure MovedAllPost (W : World) (fl : List Nat) (bts : List BatchTable) (W' : World) : Prop where
  cinv : CInv W' fl
  pool : W'.pool = W.pool
  kinds : W'.kinds = W.kinds
  maxComps : W'.maxComps = W.maxComps
  archetypes : W'.archetypes = W.archetypes
  tablesLen : W'.tables.length = W.tables.length
  entitiesLen : W'.entities.length = W.entities.length
  /-- every entity of a source table has the components of the destination; a component the
      source had keeps its value, the others read zero -/
  moved : ∀ b ∈ bts, ∀ k : Nat, k < (W.tbl b.oldT).len →
    compsOf W' ((W.tbl b.oldT).getEntity k).id = some (W.tbl b.newT).ids ∧
    ∀ c : Comp, c ∈ (W.tbl b.newT).ids →
      valOf W' ((W.tbl b.oldT).getEntity k).id c =
        if c ∈ (W.tbl b.oldT).ids then valOf W ((W.tbl b.oldT).getEntity k).id c else some 0
  /-- every other entity is unchanged -/
  frame : ∀ j : Nat, j ∉ srcIds W bts → SameEnt W W' j

theorem mem_srcIds {W : World} {bts : List BatchTable} {j : Nat} :
    j ∈ srcIds W bts ↔ ∃ b ∈ bts, ∃ k, k < (W.tbl b.oldT).len ∧ ((W.tbl b.oldT).getEntity k).id = j := by
  simp only [srcIds, List.mem_map, List.mem_flatMap, mem_rowsOf]
  constructor
  · rintro ⟨e, ⟨t, ⟨b, hb, rfl⟩, k, hk, rfl⟩, rfl⟩
    exact ⟨b, hb, k, hk, rfl⟩
  · rintro ⟨b, hb, k, hk, rfl⟩
    exact ⟨_, ⟨b.oldT, ⟨b, hb, rfl⟩, k, hk, rfl⟩, rfl⟩

/-- **the move loop** (no callback): the tables are moved one after the other -/
theorem moveLoop_post {fl : List Nat} : ∀ (bts : List BatchTable) {W : World}, CInv W fl →
    MovesOK W bts → 2 * W.entities.length < 2 ^ 32 →
    MovedAllPost W fl bts (bts.foldl (moveStep none) W)
  | [], W, h, _, _ =>
    { cinv := h, pool := rfl, kinds := rfl, maxComps := rfl, archetypes := rfl, tablesLen := rfl,
      entitiesLen := rfl, moved := (fun b hb => by cases hb),
      frame := fun _ _ => ⟨fun _ => rfl, rfl⟩ }
  | b :: bts, W, h, ok, hent => by
    have hsn : b.oldT ∉ bts.map (·.oldT) ∧ (bts.map (·.oldT)).Nodup := by
      have := ok.srcNodup; rw [List.map_cons] at this; exact List.nodup_cons.mp this
    have hdn : b.newT ∉ bts.map (·.newT) ∧ (bts.map (·.newT)).Nodup := by
      have := ok.dstNodup; rw [List.map_cons] at this; exact List.nodup_cons.mp this
    have hbo := ok.src b List.mem_cons_self
    have hbn := ok.dst b List.mem_cons_self
    have hne : b.oldT ≠ b.newT := fun hh => ok.disj b List.mem_cons_self b List.mem_cons_self hh.symm
    have hb : (W.tbl b.newT).len + (W.tbl b.oldT).len < 2 ^ 32 := by
      have h1 := h.idx.rows_le b.newT
      have h2 := h.idx.rows_le b.oldT
      omega
    have tp := CInv.tableMoved h hne hbo hbn hb
    -- the remaining moves do not touch the two tables
    have hother : ∀ b' ∈ bts, b'.oldT ≠ b.oldT ∧ b'.oldT ≠ b.newT ∧ b'.newT ≠ b.oldT ∧
        b'.newT ≠ b.newT := by
      intro b' hb'
      refine ⟨?_, ?_, ?_, ?_⟩
      · intro hh; exact hsn.1 (List.mem_map.mpr ⟨b', hb', hh⟩)
      · intro hh; exact ok.disj b List.mem_cons_self b' (List.mem_cons_of_mem _ hb') hh.symm
      · exact ok.disj b' (List.mem_cons_of_mem _ hb') b List.mem_cons_self
      · intro hh; exact hdn.1 (List.mem_map.mpr ⟨b', hb', hh⟩)
    have hsrc' : ∀ b' ∈ bts, (exchangeTableW W b.oldT b.newT).tbl b'.oldT = W.tbl b'.oldT :=
      fun b' hb' => tp.others _ (hother b' hb').1 (hother b' hb').2.1
    have hdst' : ∀ b' ∈ bts, (exchangeTableW W b.oldT b.newT).tbl b'.newT = W.tbl b'.newT :=
      fun b' hb' => tp.others _ (hother b' hb').2.2.1 (hother b' hb').2.2.2
    have ok' : MovesOK (exchangeTableW W b.oldT b.newT) bts :=
      ⟨hsn.2, hdn.2, fun b' hb' => by rw [tp.tablesLen]; exact ok.src b' (List.mem_cons_of_mem _ hb'),
        fun b' hb' => by rw [tp.tablesLen]; exact ok.dst b' (List.mem_cons_of_mem _ hb'),
        fun b1 h1 b2 h2 => ok.disj b1 (List.mem_cons_of_mem _ h1) b2 (List.mem_cons_of_mem _ h2)⟩
    have ip := moveLoop_post bts tp.cinv ok' (by rw [tp.entitiesLen]; exact hent)
    have htm : ∀ t : Nat, t < W.tables.length → t ≠ maxU32 := by
      intro t ht; have := h.fewTables; omega
    -- IDs in the rows of the first source are not in the rows of the later sources
    have hsep : ∀ k : Nat, k < (W.tbl b.oldT).len →
        ((W.tbl b.oldT).getEntity k).id ∉ srcIds (exchangeTableW W b.oldT b.newT) bts := by
      intro k hk hm
      obtain ⟨b', hb', k', hk', heq⟩ := mem_srcIds.mp hm
      rw [hsrc' b' hb'] at hk' heq
      have := h.idx.row_inj (get_of_lt (ok.src b' (List.mem_cons_of_mem _ hb'))) (get_of_lt hbo)
        hk' hk heq
      exact (hother b' hb').1 this.1
    have hsep' : ∀ j : Nat, j ∉ srcIds W (b :: bts) →
        (∀ k : Nat, k < (W.tbl b.oldT).len → ((W.tbl b.oldT).getEntity k).id ≠ j) ∧
        j ∉ srcIds (exchangeTableW W b.oldT b.newT) bts := by
      intro j hj
      constructor
      · intro k hk heq
        exact hj (mem_srcIds.mpr ⟨b, List.mem_cons_self, k, hk, heq⟩)
      · intro hm
        obtain ⟨b', hb', k', hk', heq⟩ := mem_srcIds.mp hm
        rw [hsrc' b' hb'] at hk' heq
        exact hj (mem_srcIds.mpr ⟨b', List.mem_cons_of_mem _ hb', k', hk', heq⟩)
    show MovedAllPost W fl (b :: bts) (bts.foldl (moveStep none) (exchangeTableW W b.oldT b.newT))
    exact
      { cinv := ip.cinv
        pool := ip.pool.trans tp.pool
        kinds := ip.kinds.trans tp.kinds
        maxComps := ip.maxComps.trans tp.maxComps
        archetypes := ip.archetypes.trans tp.archetypes
        tablesLen := ip.tablesLen.trans tp.tablesLen
        entitiesLen := ip.entitiesLen.trans tp.entitiesLen
        moved := by
          intro b1 hb1 k hk
          rcases List.mem_cons.mp hb1 with rfl | hb1
          · obtain ⟨_, m2, m3⟩ := tp.moved k hk
            have hs := ip.frame _ (hsep k hk)
            exact ⟨by rw [hs.2]; exact m2, fun c hc => by rw [hs.1 c]; exact m3 c hc⟩
          · have hk' : k < ((exchangeTableW W b.oldT b.newT).tbl b1.oldT).len := by
              rw [hsrc' b1 hb1]; exact hk
            obtain ⟨m2, m3⟩ := ip.moved b1 hb1 k hk'
            rw [hsrc' b1 hb1, hdst' b1 hb1] at m2 m3
            have hnot : ∀ k' : Nat, k' < (W.tbl b.oldT).len →
                ((W.tbl b.oldT).getEntity k').id ≠ ((W.tbl b1.oldT).getEntity k).id := by
              intro k' hk' heq
              have := h.idx.row_inj (get_of_lt hbo)
                (get_of_lt (ok.src b1 (List.mem_cons_of_mem _ hb1))) hk' hk heq
              exact (hother b1 hb1).1 this.1.symm
            have hfr := (tp.frame _ hnot).1
            exact ⟨m2, fun c hc => by rw [m3 c hc, hfr.1 c]⟩
        frame := by
          intro j hj
          obtain ⟨h1, h2⟩ := hsep' j hj
          exact ((tp.frame j h1).1).trans (ip.frame j h2) }


/-! ## 6. the single `Exchange` calls -/

/-- the observable outcome of `Exchange(add, rem)` with the written values `vals` on every entity
    of `es` -/
structure ExchangedAllPost (w : World) (fl : List Nat) (es : List Ent) (add rem : List Comp)
    (vals : List (Comp × Val)) (w' : World) : Prop where
  cinv : CInv w' fl
  unlocked : w'.isLocked = w.isLocked
  kinds : w'.kinds = w.kinds
  pool : w'.pool = w.pool
  maxComps : w'.maxComps = w.maxComps
  aliveSame : ∀ x : Ent, w'.alive x = w.alive x
  comps : ∀ e ∈ es, compsOf w' e.id = some ((xmask add rem (w.maskOf e)).toList w.kinds.length)
  kept : ∀ e ∈ es, ∀ (c : Comp) (v : Val), (w.maskOf e).get c = true → c ∉ rem →
    valOf w e.id c = some v →
    valOf w' e.id c = some (if (w.kinds.getD c {}).zst = true then v else applyVals v vals c)
  gone : ∀ e ∈ es, ∀ c : Comp, c ∈ rem → valOf w' e.id c = none
  added : ∀ e ∈ es, ∀ c : Comp, c ∈ add →
    valOf w' e.id c = some (if (w.kinds.getD c {}).zst = true then 0 else applyVals 0 vals c)
  frame : ∀ j : Nat, j ∉ es.map (·.id) → SameEnt w w' j
  entitiesLen : w'.entities.length = w.entities.length

/-- a live entity's mask is determined by its component list -/
theorem maskOf_eq_of_compsOf {w w' : World} {fl fl' : List Nat} (h : CInv w fl) (h' : CInv w' fl')
    {e : Ent} (h2 : 2 ≤ e.id) (hnf : e.id ∉ fl) (ha : w.alive e = true)
    (hin : e.id < w.pool.ents.length) (hnf' : e.id ∉ fl') (ha' : w'.alive e = true)
    (hin' : e.id < w'.pool.ents.length) (hk : w'.kinds = w.kinds)
    (hc : compsOf w' e.id = compsOf w e.id) : w'.maskOf e = w.maskOf e := by
  obtain ⟨c1, r1⟩ := h.comps_of_live h2 hnf ha hin
  obtain ⟨c2, r2⟩ := h'.comps_of_live h2 hnf' ha' hin'
  rw [c1, c2, hk] at hc
  have hl := Option.some.inj hc
  apply Mask.ext_get
  intro c _
  have hm : c ∈ (w'.maskOf e).toList w.kinds.length ↔ c ∈ (w.maskOf e).toList w.kinds.length := by
    rw [hl]
  simp only [Mask.mem_toList] at hm
  cases hA : (w'.maskOf e).get c with
  | true =>
    have := (hm.mp ⟨by rw [← hk]; exact r2 c hA, hA⟩).2
    rw [this]
  | false =>
    cases hB : (w.maskOf e).get c with
    | true =>
      have := (hm.mpr ⟨r1 c hB, hB⟩).2
      rw [hA] at this; cases this
    | false => rfl

/-- `Exchange(add, rem)` writing `vals`, applied to the handles `l` in order -/
def exchangeSeq (run : ProbeRunner) (p : Path) (add rem : List Comp) (vals : List (Comp × Val))
    (l : List Ent) : W Unit :=
  M.forM' l fun e => opExchange run p e add vals rem []

/-- **the singles**: `Exchange` applied, in any order, to live handles with distinct IDs whose
    masks satisfy the precondition -/
theorem exchangeSeq_post (run : ProbeRunner) (p : Path) {add rem : List Comp}
    (hne : ¬ (add = [] ∧ rem = [])) (vals : List (Comp × Val)) :
    ∀ (l : List Ent) {w : World} {fl : List Nat}, CInv w fl → w.isLocked = false →
    (∀ e ∈ l, 2 ≤ e.id ∧ e.id ∉ fl ∧ w.alive e = true ∧ e.id < w.pool.ents.length ∧
      ExchOK w.kinds.length add rem (w.maskOf e)) →
    (l.map (·.id)).Nodup → w.tables.length + l.length < maxU32 → w.entities.length + 1 < 2 ^ 32 →
    ∃ w'', exchangeSeq run p add rem vals l w = .ok () w'' ∧
      ExchangedAllPost w fl l add rem vals w''
  | [], w, fl, h, _, _, _, _, _ =>
    ⟨w, rfl,
      { cinv := h, unlocked := rfl, kinds := rfl, pool := rfl, maxComps := rfl,
        aliveSame := fun _ => rfl, comps := (fun e he => by cases he),
        kept := (fun e he => by cases he), gone := (fun e he => by cases he),
        added := (fun e he => by cases he), frame := fun _ _ => ⟨fun _ => rfl, rfl⟩,
        entitiesLen := rfl }⟩
  | e :: l, w, fl, h, hl, hlive, hnd, hfew, hent => by
    obtain ⟨h2, hnf, ha, hin, ok⟩ := hlive e List.mem_cons_self
    have hnd' : e.id ∉ l.map (·.id) ∧ (l.map (·.id)).Nodup := by
      rw [List.map_cons] at hnd; exact List.nodup_cons.mp hnd
    simp only [List.length_cons] at hfew
    have hrows : ∀ t : Nat, (w.tbl t).len + 1 < 2 ^ 32 := by
      intro t; have := h.idx.rows_le t; omega
    obtain ⟨w1, hstep, sp⟩ := opExchange_spec run p h hl h2 hnf ha hin hne ok.remNodup ok.pres
      ok.addNodup ok.reg ok.new vals (by omega) hrows
    have hne' : ∀ e' ∈ l, e'.id ≠ e.id := by
      intro e' he' heq
      exact hnd'.1 (heq ▸ List.mem_map_of_mem he')
    have hmask1 : ∀ e' ∈ l, w1.maskOf e' = w.maskOf e' := by
      intro e' he'
      obtain ⟨a, b, c, d, _⟩ := hlive e' (List.mem_cons_of_mem _ he')
      exact maskOf_eq_of_compsOf h sp.cinv a b c d b (by rw [sp.aliveSame]; exact c)
        (by rw [sp.pool]; exact d) sp.kinds (sp.frame e'.id (hne' e' he')).2
    have hlive1 : ∀ e' ∈ l, 2 ≤ e'.id ∧ e'.id ∉ fl ∧ w1.alive e' = true ∧
        e'.id < w1.pool.ents.length ∧ ExchOK w1.kinds.length add rem (w1.maskOf e') := by
      intro e' he'
      obtain ⟨a, b, c, d, o⟩ := hlive e' (List.mem_cons_of_mem _ he')
      exact ⟨a, b, by rw [sp.aliveSame]; exact c, by rw [sp.pool]; exact d,
        by rw [sp.kinds, hmask1 e' he']; exact o⟩
    obtain ⟨w'', hrest, ip⟩ := exchangeSeq_post run p hne vals l sp.cinv
      (by rw [sp.unlocked]; exact hl) hlive1 hnd'.2
      (by have := sp.tablesLen; omega) (by rw [sp.entitiesLen]; exact hent)
    refine ⟨w'', ?_, ?_⟩
    · simp only [exchangeSeq, M.forM', bind, M.bind, hstep]
      exact hrest
    · have hfe := ip.frame e.id hnd'.1
      exact
        { cinv := ip.cinv
          unlocked := ip.unlocked.trans sp.unlocked
          kinds := ip.kinds.trans sp.kinds
          pool := ip.pool.trans sp.pool
          maxComps := ip.maxComps.trans sp.maxComps
          aliveSame := fun x => (ip.aliveSame x).trans (sp.aliveSame x)
          comps := by
            intro e' he'
            rcases List.mem_cons.mp he' with rfl | he'
            · rw [hfe.2]; exact sp.comps
            · rw [ip.comps e' he', hmask1 e' he', sp.kinds]
          kept := by
            intro e' he' c v hc hnr hv
            rcases List.mem_cons.mp he' with rfl | he'
            · rw [hfe.1 c]; exact sp.kept c v hc hnr hv
            · rw [ip.kept e' he' c v (by rw [hmask1 e' he']; exact hc) hnr
                (by rw [(sp.frame e'.id (hne' e' he')).1 c]; exact hv), sp.kinds]
          gone := by
            intro e' he' c hc
            rcases List.mem_cons.mp he' with rfl | he'
            · rw [hfe.1 c]; exact sp.gone c hc
            · exact ip.gone e' he' c hc
          added := by
            intro e' he' c hc
            rcases List.mem_cons.mp he' with rfl | he'
            · rw [hfe.1 c]; exact sp.added c hc
            · rw [ip.added e' he' c hc, sp.kinds]
          frame := by
            intro j hj
            simp only [List.map_cons, List.mem_cons, not_or] at hj
            exact (sp.frame j hj.1).trans (ip.frame j hj.2)
          entitiesLen := ip.entitiesLen.trans sp.entitiesLen }


/-! ## 7. the batch -/

/-- the invariant does not read the lock or the log -/
theorem cinv_withLocks {w : World} {fl : List Nat} (h : CInv w fl) (l : Lock) (lg : List LogEv) :
    CInv { w with locks := l, log := lg } fl :=
  { idx := h.idx.congr rfl rfl
    sinv := h.sinv.of_sameMeta rfl rfl rfl (fun _ _ => Table.SameMeta.refl _)
    pool := h.pool
    stale := h.stale
    lenEq := h.lenEq
    tgtLen := h.tgtLen
    freeUnindexed := h.freeUnindexed
    reservedUnindexed := h.reservedUnindexed
    liveIndexed := h.liveIndexed
    fewTables := h.fewTables
    noRelKinds := h.noRelKinds
    kindsLe := h.kindsLe
    noTargets := h.noTargets
    noObs := h.noObs }

/-- a mask cannot satisfy the precondition both before and after the exchange -/
theorem xmask_not_ok {n : Nat} {add rem : List Comp} {m : Mask} (ok : ExchOK n add rem m)
    (hn : n ≤ 256) (hne : ¬ (add = [] ∧ rem = [])) : ¬ ExchOK n add rem (xmask add rem m) := by
  intro ok2
  cases add with
  | cons c rest =>
    have h1 := ok2.new c List.mem_cons_self
    rw [xmask_get] at h1
    have hc256 : c < 256 := Nat.lt_of_lt_of_le (ok.reg c List.mem_cons_self) hn
    simp [hc256] at h1
  | nil =>
    cases rem with
    | nil => exact hne ⟨rfl, rfl⟩
    | cons c rest =>
      have h1 := ok2.pres c List.mem_cons_self
      rw [xmask_get] at h1
      simp at h1

/-- the exchange is injective on the masks that satisfy its precondition -/
theorem xmask_inj {n : Nat} {add rem : List Comp} {m m' : Mask} (ok : ExchOK n add rem m)
    (ok' : ExchOK n add rem m') (heq : xmask add rem m = xmask add rem m') : m = m' := by
  apply Mask.ext_get
  intro c hc
  have hg := congrArg (fun x => Mask.get x c) heq
  simp only [xmask_get] at hg
  by_cases ha : c ∈ add
  · rw [ok.new c ha, ok'.new c ha]
  · by_cases hr : c ∈ rem
    · rw [ok.pres c hr, ok'.pres c hr]
    · simpa [ha, hr] using hg

/-- two existing tables of the fragment with the same mask are the same table -/
theorem tmask_inj {w : World} {fl : List Nat} (h : CInv w fl) {t t' : Nat} (ht : t < w.tables.length)
    (ht' : t' < w.tables.length) (heq : tmask w t = tmask w t') : t = t' := by
  obtain ⟨A, hA, hAt⟩ := cinv_table_arch h ht
  obtain ⟨A', hA', hAt'⟩ := cinv_table_arch h ht'
  simp only [tmask, arch_of_get hA, arch_of_get hA'] at heq
  have ha := h.sinv.maskUniq _ _ A A' hA hA' heq
  rw [ha] at hA
  rw [hA'] at hA
  have := Option.some.inj hA
  subst this
  rw [← hAt, ← hAt']

theorem cinv_tbl_ids {w : World} {fl : List Nat} (h : CInv w fl) {t : Nat} (ht : t < w.tables.length) :
    (w.tbl t).ids = (tmask w t).toList w.kinds.length := by
  obtain ⟨A, hA, e1, _⟩ := h.sinv.tblArch t _ (get_of_lt ht)
  rw [e1, (h.sinv.comps _ A hA).1, tmask, arch_of_get hA]

theorem tmask_reg {w : World} {fl : List Nat} (h : CInv w fl) {t : Nat} (ht : t < w.tables.length)
    {c : Nat} (hc : (tmask w t).get c = true) : c < w.kinds.length := by
  obtain ⟨A, hA, _⟩ := h.sinv.tblArch t _ (get_of_lt ht)
  rw [tmask, arch_of_get hA] at hc
  exact h.sinv.maskReg _ A hA c hc

/-- the moves found by the lookup loop are independent -/
theorem movesOK_of_dest {w0 W : World} {fl : List Nat} (h0 : CInv w0 fl) (e : Ext w0 W)
    {add rem : List Comp} (hne : ¬ (add = [] ∧ rem = [])) {bts : List BatchTable}
    (hsrc : (bts.map (·.oldT)).Nodup) (hd : ∀ b ∈ bts, DestOK w0 add rem W b)
    (hok : ∀ b ∈ bts, ExchOK w0.kinds.length add rem (tmask w0 b.oldT)) :
    MovesOK W bts := by
  have hn : w0.kinds.length ≤ 256 := by have := h0.kindsLe; omega
  refine ⟨hsrc, ?_, fun b hb => Nat.lt_of_lt_of_le (hd b hb).src e.tablesLen, fun b hb => (hd b hb).dlt,
    ?_⟩
  · unfold List.Nodup at hsrc ⊢
    rw [List.pairwise_map] at hsrc ⊢
    refine List.Pairwise.imp_of_mem ?_ hsrc
    intro b b' hb hb' hne' heq
    apply hne'
    have m1 := (hd b hb).dmask
    have m2 := (hd b' hb').dmask
    rw [heq, m2] at m1
    exact tmask_inj h0 (hd b hb).src (hd b' hb').src (xmask_inj (hok b hb) (hok b' hb') m1.symm)
  · intro b hb b' hb' heq
    have m1 := (hd b hb).dmask
    rw [heq, e.tmask h0.sinv (hd b' hb').src] at m1
    have := hok b' hb'
    rw [m1] at this
    exact xmask_not_ok (hok b hb) hn hne this

/-- **the exchange batch** (no callback) on an unlocked world of the fragment: every selected
    entity gets `Exchange(add, rem)`; the rest is untouched -/
theorem exchangeBatch_post (run : ProbeRunner) {w : World} {fl : List Nat} (h : CInv w fl)
    (hl : w.isLocked = false) (hL : LockFree w.locks) (fo : FilterObj) (extra : List RelID)
    (hc : fo.cache = none) {add rem : List Comp} (hne : ¬ (add = [] ∧ rem = []))
    (hok : ∀ t ∈ selTables w fo.filter, (w.tbl t).len ≠ 0 →
      ExchOK w.kinds.length add rem (tmask w t))
    (hfew : w.tables.length + (selTables w fo.filter).length < maxU32)
    (hent : 2 * w.entities.length < 2 ^ 32) :
    ∃ Wf : World, exchangeBatch run fo extra add rem [] none w = .ok () Wf ∧
      ExchangedAllPost w fl (selEnts w fo.filter) add rem [] Wf ∧ LockFree Wf.locks ∧
      Wf.log = w.log := by
  obtain ⟨l', b, l'', k1, k2, k3, k4, k5⟩ := hL.cycle
  have hwl : CInv { w with locks := l' } fl := cinv_withLocks h l' w.log
  have hts : getBatchTables fo extra { w with locks := l' } =
      .ok (selTables w fo.filter) { w with locks := l' } := by
    rw [getBatchTables_uncached fo extra _ hc, getCacheTables_noRel _ fo.filter _
      (fun A hA => by
        obtain ⟨a, ha⟩ := List.mem_iff_getElem?.1 hA
        exact h.noRelArch ha)]
    rfl
  have S := selTables_tableSet h fo.filter
  obtain ⟨bts, w1, i1, i2, i3, i4, i5, i6⟩ := findLoop_spec (w0 := { w with locks := l' }) hwl.sinv
    hne (selTables w fo.filter) (false, []) { w with locks := l' } hwl (Ext.refl _) S.lt hok hfew
  simp only [List.nil_append] at i1
  have hno1 : ∀ evt : Nat, w1.obs.hasObservers evt = false := by
    intro evt; rw [i3.untouched.obs]; exact h.noObs evt
  have hneB : (add.isEmpty && rem.isEmpty) = false := by
    cases add with
    | cons _ _ => rfl
    | nil =>
      cases rem with
      | cons _ _ => rfl
      | nil => exact absurd ⟨rfl, rfl⟩ hne
  have hbatch := exchangeBatch_eq run fo extra add rem none w hl hneB k1 hts i1 hno1
  -- the sources
  have hsrcmem : ∀ b ∈ bts, b.oldT ∈ selTables w fo.filter ∧ (w.tbl b.oldT).len ≠ 0 := by
    intro b0 hb0
    have : b0.oldT ∈ bts.map (·.oldT) := List.mem_map_of_mem hb0
    rw [i4, List.mem_filter] at this
    refine ⟨this.1, ?_⟩
    have h2 := this.2
    simp only [bne_iff_ne, ne_eq] at h2
    exact h2
  have hokb : ∀ b ∈ bts, ExchOK w.kinds.length add rem (tmask w b.oldT) :=
    fun b0 hb0 => hok _ (hsrcmem b0 hb0).1 (hsrcmem b0 hb0).2
  have hsrcN : (bts.map (·.oldT)).Nodup := by
    rw [i4]; exact List.Pairwise.filter _ S.nodup
  have mok : MovesOK w1 bts := movesOK_of_dest hwl i3 hne hsrcN i5 hokb
  have mp := moveLoop_post bts i2 mok (by rw [i3.entities]; exact hent)
  have hlocks : (bts.foldl (moveStep none) w1).locks = l' := by
    rw [foldl_moveStep_locks, i3.untouched.locks]
  have hlogs : (bts.foldl (moveStep none) w1).log = w.log := by
    have : ∀ (l : List BatchTable) (X : World), (l.foldl (moveStep none) X).log = X.log := by
      intro l
      induction l with
      | nil => intro X; rfl
      | cons b0 l ih =>
        intro X
        rw [List.foldl_cons, ih]
        exact (exchangeTableW_rest X b0.oldT b0.newT).2.2.2.2.2
    rw [this, i3.log]
  rw [unlock_ok (by rw [hlocks]; exact k3)] at hbatch
  refine ⟨_, hbatch, ?_, k5, hlogs⟩
  -- the world before the moves reads like `w`
  have hsw1 : ∀ j : Nat, SameEnt w w1 j := by
    intro j
    have := same_of_prefix hwl.idx i3.entities i3.tables j
    exact this
  have htbl1 : ∀ t : Nat, t < w.tables.length → w1.tbl t = w.tbl t := fun t ht => i3.tbl ht
  have hk1 : w1.kinds = w.kinds := i3.kinds
  -- an entity of the selection: its table, its row, its move
  have hsel : ∀ e ∈ selEnts w fo.filter, ∃ b ∈ bts, ∃ k, k < (w.tbl b.oldT).len ∧
      (w.tbl b.oldT).getEntity k = e ∧ b.oldT < w.tables.length ∧ w.maskOf e = tmask w b.oldT := by
    intro e he
    obtain ⟨t, k, ht, hk, rfl⟩ := mem_selEnts.mp he
    have : t ∈ bts.map (·.oldT) := by
      rw [i4, List.mem_filter]
      exact ⟨ht, by simp only [bne_iff_ne, ne_eq]; show ¬ (w.tbl t).len = 0; omega⟩
    obtain ⟨b0, hb0, rfl⟩ := List.mem_map.mp this
    refine ⟨b0, hb0, k, hk, rfl, S.lt _ ht, ?_⟩
    have hx := h.idx.rowIdx b0.oldT _ k (get_of_lt (S.lt _ ht)) hk
    simp only [maskOf, index_of_get hx, tmask]
  have hfin : ∀ (j : Nat) (c : Comp),
      valOf ({ bts.foldl (moveStep none) w1 with locks := l'' } : World) j c =
        valOf (bts.foldl (moveStep none) w1) j c := fun j c => valOf_congr rfl rfl j c
  have hfinC : ∀ j : Nat,
      compsOf ({ bts.foldl (moveStep none) w1 with locks := l'' } : World) j =
        compsOf (bts.foldl (moveStep none) w1) j := fun j => compsOf_congr rfl rfl j
  -- what the move gives for a selected entity
  have hmv : ∀ e ∈ selEnts w fo.filter,
      compsOf (bts.foldl (moveStep none) w1) e.id =
        some ((xmask add rem (w.maskOf e)).toList w.kinds.length) ∧
      ∀ c : Comp, (xmask add rem (w.maskOf e)).get c = true → c < w.kinds.length →
        valOf (bts.foldl (moveStep none) w1) e.id c =
          if (w.maskOf e).get c = true then valOf w e.id c else some 0 := by
    intro e he
    obtain ⟨b0, hb0, k, hk, rfl, hlt, hm⟩ := hsel e he
    have hd := i5 b0 hb0
    have hk' : k < (w1.tbl b0.oldT).len := by rw [htbl1 _ hlt]; exact hk
    obtain ⟨m1, m2⟩ := mp.moved b0 hb0 k hk'
    rw [htbl1 _ hlt] at m1 m2
    have hids : (w1.tbl b0.newT).ids = (xmask add rem (tmask w b0.oldT)).toList w.kinds.length := by
      rw [cinv_tbl_ids i2 hd.dlt, hd.dmask, hk1]; rfl
    refine ⟨by rw [m1, hids, hm], ?_⟩
    intro c hc hcn
    rw [hm] at hc ⊢
    rw [m2 c (by rw [hids, Mask.mem_toList]; exact ⟨hcn, hc⟩), (hsw1 _).1 c]
    have hmem : c ∈ (w.tbl b0.oldT).ids ↔ (tmask w b0.oldT).get c = true := by
      rw [cinv_tbl_ids h hlt, Mask.mem_toList]
      exact ⟨fun hh => hh.2, fun hh => ⟨tmask_reg h hlt hh, hh⟩⟩
    by_cases hcm : (tmask w b0.oldT).get c = true
    · rw [if_pos (hmem.mpr hcm), if_pos hcm]
    · rw [if_neg (fun hh => hcm (hmem.mp hh)), if_neg hcm]
  have hokE : ∀ e ∈ selEnts w fo.filter, ExchOK w.kinds.length add rem (w.maskOf e) := by
    intro e he
    obtain ⟨b0, hb0, k, hk, rfl, hlt, hm⟩ := hsel e he
    rw [hm]; exact hokb b0 hb0
  have hmreg : ∀ e ∈ selEnts w fo.filter, ∀ c : Nat, (w.maskOf e).get c = true →
      c < w.kinds.length := by
    intro e he c hc
    obtain ⟨b0, hb0, k, hk, rfl, hlt, hm⟩ := hsel e he
    rw [hm] at hc; exact tmask_reg h hlt hc
  exact
    { cinv := cinv_withLocks mp.cinv l'' _
      unlocked := by
        show l''.isLocked = w.isLocked
        rw [k4, hl]
      kinds := mp.kinds.trans hk1
      pool := mp.pool.trans i3.pool
      maxComps := mp.maxComps.trans i3.untouched.maxComps
      aliveSame := by
        intro x
        show (bts.foldl (moveStep none) w1).pool.alive x = w.pool.alive x
        rw [mp.pool, i3.pool]
      comps := fun e he => by rw [hfinC]; exact (hmv e he).1
      kept := by
        intro e he c v hc hnr hv
        have hx : (xmask add rem (w.maskOf e)).get c = true := by
          rw [xmask_get, hc]; simp [hnr]
        rw [hfin, (hmv e he).2 c hx (hmreg e he c hc), if_pos hc, hv]
        simp only [applyVals, List.foldl_nil, ite_self]
      gone := by
        intro e he c hc
        rw [hfin]
        apply valOf_none_of_comps (hmv e he).1
        rw [Mask.mem_toList, xmask_get]
        have ok := hokE e he
        have hna : c ∉ add := fun hca => by
          have := ok.new c hca
          rw [ok.pres c hc] at this; cases this
        simp [hc, hna]
      added := by
        intro e he c hc
        have ok := hokE e he
        have hc256 : c < 256 := h.reg_lt_256 (ok.reg c hc)
        have hx : (xmask add rem (w.maskOf e)).get c = true := by
          rw [xmask_get]; simp [hc256, hc]
        rw [hfin, (hmv e he).2 c hx (ok.reg c hc), if_neg (by rw [ok.new c hc]; simp)]
        simp only [applyVals, List.foldl_nil, ite_self]
      frame := by
        intro j hj
        have hj1 : j ∉ srcIds w1 bts := by
          intro hm
          obtain ⟨b0, hb0, k, hk, heq⟩ := mem_srcIds.mp hm
          have hlt := S.lt _ (hsrcmem b0 hb0).1
          rw [htbl1 _ hlt] at hk heq
          exact hj (List.mem_map.mpr ⟨_, mem_selEnts.mpr ⟨b0.oldT, k, (hsrcmem b0 hb0).1, hk, rfl⟩, heq⟩)
        have := (hsw1 j).trans (mp.frame j hj1)
        exact ⟨fun c => by rw [hfin]; exact this.1 c, by rw [hfinC]; exact this.2⟩
      entitiesLen := by
        show (bts.foldl (moveStep none) w1).entities.length = w.entities.length
        rw [mp.entitiesLen, i3.entities] }


/-! ## 8. batch = singles -/

/-- two worlds obtained from `w` by exchanging the same components on the same entities are
    observationally equal -/
theorem ExchangedAllPost.obs_eq {w w' w'' : World} {fl : List Nat} {es es' : List Ent}
    {add rem : List Comp} {vals : List (Comp × Val)}
    (p' : ExchangedAllPost w fl es add rem vals w') (p'' : ExchangedAllPost w fl es' add rem vals w'')
    (hmem : ∀ e : Ent, e ∈ es ↔ e ∈ es')
    (hcomps : ∀ e ∈ es, compsOf w e.id = some ((w.maskOf e).toList w.kinds.length)) :
    w'.pool = w''.pool ∧ (∀ x : Ent, w'.alive x = w''.alive x) ∧
    (∀ (i : Nat) (c : Comp), valOf w' i c = valOf w'' i c) ∧
    (∀ i : Nat, compsOf w' i = compsOf w'' i) ∧ w'.isLocked = w''.isLocked ∧
    w'.kinds = w''.kinds := by
  have hids : ∀ i : Nat, i ∈ es.map (·.id) ↔ i ∈ es'.map (·.id) := by
    intro i
    simp only [List.mem_map]
    exact ⟨fun ⟨e, he, hi⟩ => ⟨e, (hmem e).mp he, hi⟩, fun ⟨e, he, hi⟩ => ⟨e, (hmem e).mpr he, hi⟩⟩
  refine ⟨by rw [p'.pool, p''.pool], fun x => by rw [p'.aliveSame, p''.aliveSame], ?_, ?_,
    by rw [p'.unlocked, p''.unlocked], by rw [p'.kinds, p''.kinds]⟩
  · intro i c
    by_cases hx : i ∈ es.map (·.id)
    · obtain ⟨e, he, rfl⟩ := List.mem_map.mp hx
      have he' := (hmem e).mp he
      by_cases hc : c ∈ (xmask add rem (w.maskOf e)).toList w.kinds.length
      · rw [Mask.mem_toList, xmask_get] at hc
        obtain ⟨hcn, hcb⟩ := hc
        by_cases hadd : c ∈ add
        · rw [p'.added e he c hadd, p''.added e he' c hadd]
        · have hkeep : (w.maskOf e).get c = true ∧ c ∉ rem := by
            simp only [hadd, decide_false, Bool.and_false, Bool.or_false, Bool.and_eq_true,
              Bool.not_eq_true', decide_eq_false_iff_not] at hcb
            exact hcb
          obtain ⟨v, hv⟩ := valOf_some_of_comps (hcomps e he)
            (by rw [Mask.mem_toList]; exact ⟨hcn, hkeep.1⟩)
          rw [p'.kept e he c v hkeep.1 hkeep.2 hv, p''.kept e he' c v hkeep.1 hkeep.2 hv]
      · rw [valOf_none_of_comps (p'.comps e he) hc, valOf_none_of_comps (p''.comps e he') hc]
    · rw [(p'.frame i hx).1 c, (p''.frame i (fun hh => hx ((hids _).mpr hh))).1 c]
  · intro i
    by_cases hx : i ∈ es.map (·.id)
    · obtain ⟨e, he, rfl⟩ := List.mem_map.mp hx
      rw [p'.comps e he, p''.comps e ((hmem e).mp he)]
    · rw [(p'.frame i hx).2, (p''.frame i (fun hh => hx ((hids _).mpr hh))).2]

theorem opExchangeBatch_eq_exchangeBatch (run : ProbeRunner) (p : Path) (fo : FilterObj)
    (extra : List RelID) (add rem : List Comp) (vals : Option (List (Comp × Val))) (w : World) :
    opExchangeBatch run p fo extra add rem [] vals w = exchangeBatch run fo extra add rem [] vals w := by
  cases p <;> simp [opExchangeBatch, preCheck, preCheckMap, preCheckTyped, M.forM', bind, M.bind,
    pure, M.pure]

/-- **C06, the add / remove / exchange batches (no callback)**: on an unlocked world of the fragment
    with live rows, for an uncached filter, when every non-empty selected table satisfies the
    precondition of `Exchange(add, rem)`: the batch and `Exchange` applied to every selected entity
    (in the batch's order — or any other, see `exchangeSeq_post`) both succeed and satisfy
    `ExchangedAllPost`; the two worlds have the same pool and agree on the liveness of every handle
    and on the components and values of every entity. -/
theorem opExchangeBatch_eq_singles (run : ProbeRunner) (p : Path) {w : World} {fl : List Nat}
    (h : CInv w fl) (hR : RowsLive w) (hl : w.isLocked = false) (hL : LockFree w.locks)
    (fo : FilterObj) (extra : List RelID) (hc : fo.cache = none) {add rem : List Comp}
    (hne : ¬ (add = [] ∧ rem = []))
    (hok : ∀ t ∈ selTables w fo.filter, (w.tbl t).len ≠ 0 →
      ExchOK w.kinds.length add rem (tmask w t))
    (hfew : w.tables.length + (selTables w fo.filter).length + (selEnts w fo.filter).length < maxU32)
    (hent : 2 * w.entities.length < 2 ^ 32) :
    ∃ Wb Ws : World,
      opExchangeBatch run p fo extra add rem [] none w = .ok () Wb ∧
      exchangeSeq run p add rem [] (selEnts w fo.filter) w = .ok () Ws ∧
      ExchangedAllPost w fl (selEnts w fo.filter) add rem [] Wb ∧
      ExchangedAllPost w fl (selEnts w fo.filter) add rem [] Ws ∧
      Wb.pool = Ws.pool ∧ (∀ x : Ent, Wb.alive x = Ws.alive x) ∧
      (∀ (i : Nat) (c : Comp), valOf Wb i c = valOf Ws i c) ∧
      (∀ i : Nat, compsOf Wb i = compsOf Ws i) ∧ Wb.isLocked = Ws.isLocked ∧
      LockFree Wb.locks ∧ Wb.log = w.log := by
  have S := selTables_tableSet h fo.filter
  obtain ⟨Wb, hb, pb, hLb, hlogb⟩ := exchangeBatch_post run h hl hL fo extra hc hne hok
    (by omega) hent
  have hlive : ∀ e ∈ selEnts w fo.filter, 2 ≤ e.id ∧ e.id ∉ fl ∧ w.alive e = true ∧
      e.id < w.pool.ents.length ∧ ExchOK w.kinds.length add rem (w.maskOf e) := by
    intro e he
    obtain ⟨a, b, c, d, _⟩ := (mem_selEnts_iff h hR fo.filter e).mp he
    obtain ⟨t, k, ht, hk, rfl⟩ := mem_selEnts.mp he
    have hx := h.idx.rowIdx t _ k (get_of_lt (S.lt t ht)) hk
    have hm : w.maskOf ((w.tbl t).getEntity k) = tmask w t := by
      simp only [maskOf, index_of_get hx, tmask]
    exact ⟨a, b, d, c, by rw [hm]; exact hok t ht (by omega)⟩
  obtain ⟨Ws, hs, ps⟩ := exchangeSeq_post run p hne [] (selEnts w fo.filter) h hl hlive
    (rows_ids_nodup h S) (by omega) (by omega)
  have hcomps : ∀ e ∈ selEnts w fo.filter,
      compsOf w e.id = some ((w.maskOf e).toList w.kinds.length) := by
    intro e he
    obtain ⟨a, b, c, d, _⟩ := hlive e he
    exact (h.comps_of_live a b c d).1
  obtain ⟨o1, o2, o3, o4, o5, _⟩ := pb.obs_eq ps (fun _ => Iff.rfl) hcomps
  exact ⟨Wb, Ws, by rw [opExchangeBatch_eq_exchangeBatch]; exact hb, hs, pb, ps, o1, o2, o3, o4, o5,
    hLb, hlogb⟩

end World
end Ark

namespace Ark
namespace World

theorem exchOK_iff (n : Nat) (add rem : List Comp) (m : Mask) :
    ExchOK n add rem m ↔ (rem.Nodup ∧ (∀ c ∈ rem, m.get c = true) ∧ add.Nodup ∧ (∀ c ∈ add, c < n) ∧
      ∀ c ∈ add, m.get c = false) :=
  ⟨fun h => ⟨h.remNodup, h.pres, h.addNodup, h.reg, h.new⟩,
    fun ⟨a, b, c, d, e⟩ => ⟨a, b, c, d, e⟩⟩

instance (n : Nat) (add rem : List Comp) (m : Mask) : Decidable (ExchOK n add rem m) :=
  decidable_of_iff _ (exchOK_iff n add rem m).symm

end World
end Ark
