/-
  Ark.Proofs.RelTotal — totality ("never fails for a valid call") of `NewEntity(ids…, rels…)`,
  `Add(e, ids…, rels…)` and `SetRelations` in worlds with relations.
  Kernel-only proofs, core Lean only.
-/
import Ark.Proofs.RelSpecs

set_option autoImplicit false

namespace Ark

open World Ark.Props.C01World

namespace World

/-- the pre-validation (of every path) passes when every relation names a relation component
    among the added / the mapper's components and a zero or alive target -/
theorem preCheck_ok_of_valid (p : Path) (ids : List Comp) (w : World) : ∀ (rels : List RelID),
    (∀ (r : RelID), r ∈ rels → (r.target.isZero = true ∨ w.alive r.target = true) ∧
      w.isRelComp r.comp = true ∧ (Mask.ofList ids).get r.comp = true) →
    preCheck p ids rels w = .ok () w := by
  intro rels
  induction rels with
  | nil => intro _; cases p <;> rfl
  | cons r rest ih =>
    intro hv
    obtain ⟨hvt, hvc, hvm⟩ := hv r List.mem_cons_self
    have hok : checkRelationTarget r.target w = .ok () w := by
      unfold checkRelationTarget
      rcases hvt with hz | ha
      · simp [hz]
      · simp [ha]
    have ih' := ih (fun r' hr' => hv r' (List.mem_cons_of_mem _ hr'))
    cases p with
    | unsafe_ =>
      simp only [preCheck, preCheckTyped] at ih' ⊢
      simp only [M.forM', bind, M.bind, hok, checkRelationComponent, hvc, if_true, M.assert, hvm]
      exact ih'
    | map1 =>
      simp only [preCheck, preCheckMap] at ih' ⊢
      simp only [M.forM', bind, M.bind, hok, checkRelationComponent, hvc, if_true]
      exact ih'
    | typed =>
      simp only [preCheck, preCheckTyped] at ih' ⊢
      simp only [M.forM', bind, M.bind, hok, checkRelationComponent, hvc, if_true, M.assert, hvm]
      exact ih'

end World

/-! ## `findOrCreateTableAdd` with relations never fails for valid arguments -/

theorem Archetype.colIdx_isSome_of_mem_comps {A : Archetype} {c : Comp} (h : c ∈ A.comps) :
    (A.colIdx c).isSome = true := by
  unfold Archetype.colIdx
  simp only
  rw [if_pos (List.idxOf_lt_length_of_mem h)]; rfl

theorem Archetype.colIdx_some_of_mem_comps {A : Archetype} {c : Comp} (h : c ∈ A.comps) :
    ∃ (i : Nat), A.colIdx c = some i := by
  have := Archetype.colIdx_isSome_of_mem_comps h
  cases hc : A.colIdx c with
  | none => rw [hc] at this; cases this
  | some i => exact ⟨i, rfl⟩

/-- **totality of the lookup tail** (`findOrCreateArch mask`, then `getTable` / `createTable` with
    the relation list `L`): `mask` registered; `L` names only components of `mask`, names every
    relation component of `mask`, and is valid (relation components, zero or alive targets) -/
theorem RelInv.lookup_total {w : World} (hR : RelInv w) {mask : Mask}
    (hmreg : ∀ (c : Nat), mask.get c = true → c < w.kinds.length) {L : List RelID}
    (hcolsM : ∀ (r : RelID), r ∈ L → mask.get r.comp = true)
    (hnamedM : ∀ (c : Comp), mask.get c = true → w.isRelComp c = true → c ∈ L.map (·.comp))
    (hndL : (L.map (·.comp)).Nodup) (hvalid0 : RelsValid w L) :
    ∃ (a : Nat) (w1 : World), World.findOrCreateArch mask w = .ok a w1 ∧ w1.tables = w.tables ∧
      ((∃ (t : Nat), getTable a L w1 = .ok (some t) w1) ∨
       (getTable a L w1 = .ok none w1 ∧ ∃ (t : Nat) (w' : World), createTable a L w1 = .ok t w')) := by
  obtain ⟨a, w1, ha, hmid, _, halt, hmask1, _, _, ht, hk, _, hp, _, _⟩ :=
    hR.sinv.findOrCreateArch mask hmreg
  refine ⟨a, w1, ha, ht, ?_⟩
  have aux1 : RelAux w1 := hR.aux.findOrCreateArch ha
  have rinv1 : RInv w1 := hR.rinv.findOrCreateArch ha
  have hal1 : ∀ (x : Ent), w1.alive x = w.alive x := fun x => by simp only [World.alive, hp]
  have hrc1 : ∀ (c : Comp), w1.isRelComp c = w.isRelComp c := fun c => by
    simp only [World.isRelComp, hk]
  have hA1 := aget_of_lt halt
  have hcomps1 := (hmid.comps a _ hA1).1
  have hmemA : ∀ (c : Comp), c ∈ (w1.arch a).comps ↔ mask.get c = true := by
    intro c; rw [hmid.mem_comps hA1 c, hmask1]
  have hcols : ∀ (r : RelID), r ∈ L → r.comp ∈ (w1.arch a).comps :=
    fun r hr => (hmemA r.comp).2 (hcolsM r hr)
  have hvalid : RelsValid w1 L := by
    intro r hr; rw [hrc1, hal1]; exact hvalid0 r hr
  have hnamed : ∀ (c : Comp), c ∈ relComps (w1.arch a).comps (w1.arch a).isRel →
      c ∈ L.map (·.comp) := by
    intro c hc
    obtain ⟨i, hi, hir⟩ := mem_relComps.1 hc
    have hrel : w.isRelComp c = true := by
      rw [← hrc1, World.isRelComp, ← (hmid.kindsOf a _ i c hA1 hi).1]; exact hir
    exact hnamedM c ((hmemA c).1 (List.mem_of_getElem? hi)) hrel
  have hnum : (w1.arch a).numRel ≤ L.length := by
    rw [(hmid.astruct a _ hA1).numRelEq, ← relComps_length (hmid.astruct a _ hA1).lenIsRel,
      ← List.length_map (f := (·.comp)) (as := L)]
    apply List.Nodup.length_le_of_subset
      (relComps_nodup (by rw [hcomps1]; exact Mask.toList_nodup _ _) _)
    intro c hc
    exact hnamed c hc
  have hget : ∃ (r : Option Nat), getTable a L w1 = .ok r w1 := by
    cases hrel : (w1.arch a).hasRelations with
    | false => exact ⟨_, getTable_noRel _ hrel⟩
    | true =>
      cases hall' : L with
      | nil =>
        rw [hall'] at hnum
        simp [Archetype.hasRelations] at hrel
        simp at hnum
        omega
      | cons r0 rest =>
        rw [hall'] at hnum
        have hr0 : r0 ∈ L := by rw [hall']; exact List.mem_cons_self
        obtain ⟨ic, hic⟩ := Archetype.colIdx_some_of_mem_comps (hcols r0 hr0)
        apply getTable_rel_total hrel hnum hic (by rw [← hall']; exact hndL)
        intro ts hf t htm
        have hic' : (w1.arch a).comps[ic]? = some r0.comp := Archetype.colIdx_get hic
        have hicr : (w1.arch a).isRel.getD ic false = true := by
          rw [(hmid.kindsOf a _ ic r0.comp hA1 hic').1, ← World.isRelComp]
          exact (hvalid r0 hr0).1
        have hact := ((rinv1 a _ hA1).listed hicr hf htm).1
        obtain ⟨Tt, hTt, hTta⟩ := hmid.owned a _ t hA1 (Or.inl hact)
        obtain ⟨A', hA', k1, k2, _, _⟩ := hmid.tblArch t Tt hTt
        rw [hTta, hA1] at hA'
        obtain rfl := Option.some.inj hA'
        have hfree := (hmid.member t Tt hTt).1
        rw [hTta] at hfree
        rw [tbl_of_get hTt]
        apply Table.matchesExact_total
        · have := (aux1.rels t Tt hTt (hfree.2 hact)).length_le (hmid.isRel_len hTt)
          rw [k2, ← (hmid.astruct a _ hA1).numRelEq] at this
          omega
        · intro r hr j hj
          rw [← hall'] at hr
          have hj' := Table.colIdx_get hj
          rw [k1] at hj'
          rw [k2, (hmid.kindsOf a _ j r.comp hA1 hj').1, ← World.isRelComp]
          exact (hvalid r hr).1
  obtain ⟨res, hres⟩ := hget
  cases res with
  | some t => exact Or.inl ⟨t, hres⟩
  | none =>
    have hnr : (w1.arch a).hasRelations = false → (w1.arch a).tables.tables = [] := by
      intro hr
      rw [getTable_noRel _ hr] at hres
      injection hres with hres _
      split at hres
      · rename_i he
        exact List.isEmpty_iff.1 he
      · cases hres
    obtain ⟨t, w', hct, _⟩ := hmid.createTable_total aux1.cacheRels halt hnr hnum
      (fun r hr => Archetype.colIdx_isSome_of_mem_comps (hcols r hr)) hndL hvalid
    exact Or.inr ⟨hres, t, w', hct⟩

/-- **totality of the table lookup of `add` / `newEntity`**: `add` distinct, registered and absent
    from `startMask` (the mask of the old table's archetype); `rels` names every relation
    component among `add` (each a relation component of `add`, none twice), with zero or alive
    targets -/
theorem RelInv.findOrCreateTableAdd_total {w : World} (hR : RelInv w)
    (hk256 : w.kinds.length ≤ 256) {oldT : Nat} {startMask : Mask} {add : List Comp}
    {rels : List RelID}
    (hreg : ∀ (c : Comp), c ∈ add → c < w.kinds.length)
    (hold : oldT < w.tables.length) (hofree : (w.tbl oldT).isFree = false)
    (homask : (w.arch (w.tbl oldT).arch).mask = startMask)
    (hnd : add.Nodup) (hnew : ∀ (c : Comp), c ∈ add → startMask.get c = false)
    (hrnd : (rels.map (·.comp)).Nodup) (hin : ∀ (r : RelID), r ∈ rels → r.comp ∈ add)
    (hrc : ∀ (r : RelID), r ∈ rels → w.isRelComp r.comp = true)
    (hall : ∀ (c : Comp), c ∈ add → w.isRelComp c = true → c ∈ rels.map (·.comp))
    (hval : ∀ (r : RelID), r ∈ rels → r.target.isZero = true ∨ w.alive r.target = true) :
    ∃ (t a : Nat) (w' : World),
      World.findOrCreateTableAdd oldT startMask add rels w =
        .ok (t, a, add.foldl Mask.set startMask) w' := by
  have hS := hR.sinv.toSInvMid
  have hOT := get_of_lt hold
  obtain ⟨A0, hA0, j1, j2, j3, _⟩ := hS.tblArch oldT _ hOT
  have hA0e := arch_of_get hA0
  rw [hA0e] at homask
  have hstart : ∀ (c : Nat), startMask.get c = true → c < w.kinds.length := by
    intro c hc; rw [← homask] at hc; exact hS.maskReg _ A0 hA0 c hc
  have hOex := hR.aux.rels oldT _ hOT hofree
  have hg := graphFindAdd_ok startMask add w hnew hnd
  have hmaskGet : ∀ (c : Comp), (add.foldl Mask.set startMask).get c = true ↔
      (startMask.get c = true ∨ c ∈ add) := by
    intro c
    rw [Mask.get_ofList_foldl]
    constructor
    · intro hh
      cases hs : startMask.get c with
      | true => exact Or.inl rfl
      | false =>
        rw [hs] at hh
        simp only [Bool.false_or, Bool.and_eq_true, decide_eq_true_eq] at hh
        exact Or.inr hh.2
    · rintro (hh | hh)
      · rw [hh]; rfl
      · have : c < 256 := Nat.lt_of_lt_of_le (hreg c hh) hk256
        simp [this, hh]
  have holdCol : ∀ (r : RelID), r ∈ (w.tbl oldT).relIDs → startMask.get r.comp = true := by
    intro r hr
    obtain ⟨i, hi, _⟩ := hS.relCols oldT _ hOT r hr
    rw [← homask]
    exact (hS.mem_comps hA0 r.comp).1 (by rw [← j1]; exact List.mem_of_getElem? hi)
  obtain ⟨a, w1, ha, ht, hlook⟩ := hR.lookup_total (mask := add.foldl Mask.set startMask)
    (Mask.get_foldl_set_reg hstart hreg) (L := (w.tbl oldT).relIDs ++ rels)
    (by
      intro r hr
      rcases List.mem_append.1 hr with k | k
      · exact (hmaskGet r.comp).2 (Or.inl (holdCol r k))
      · exact (hmaskGet r.comp).2 (Or.inr (hin r k)))
    (by
      intro c hc hrel
      rw [List.map_append, List.mem_append]
      rcases (hmaskGet c).1 hc with k | k
      · left
        rw [← homask] at k
        have hc0 : c ∈ (w.tbl oldT).ids := by rw [j1]; exact (hS.mem_comps hA0 c).2 k
        obtain ⟨j, hj⟩ := List.getElem?_of_mem hc0
        have hjr : (w.tbl oldT).isRel.getD j false = true := by
          have hj' := hj
          rw [j1] at hj'
          rw [j2, (hS.kindsOf _ A0 j c hA0 hj').1]; exact hrel
        exact List.mem_map.2 ⟨_, hOex.complete j c hj hjr, rfl⟩
      · exact Or.inr (hall c k hrel))
    (by
      rw [List.map_append, List.nodup_append]
      refine ⟨hOex.nodup, hrnd, ?_⟩
      intro c hc1 c' hc2 heq
      obtain ⟨r1, hr1, rfl⟩ := List.mem_map.1 hc1
      obtain ⟨r2, hr2, rfl⟩ := List.mem_map.1 hc2
      have h1 := holdCol r1 hr1
      have h2 := hnew r2.comp (hin r2 hr2)
      rw [← heq, h1] at h2; cases h2)
    (by
      intro r hr
      rcases List.mem_append.1 hr with k | k
      · obtain ⟨i, h1, h2, h3⟩ := hOex.sound r k
        refine ⟨hS.isRelComp_of_col hOT h1 h2, ?_⟩
        rw [← h3]; exact hR.aux.targets oldT _ hOT hofree i h2
      · exact ⟨hrc r k, hval r k⟩)
  have hold1 : w1.tbl oldT = w.tbl oldT := by simp only [tbl, ht]
  have hallEq : relsForAdd (w1.tbl oldT) rels = (w.tbl oldT).relIDs ++ rels := by
    rw [hold1, relsForAdd_eq]
  rcases hlook with ⟨t, hres⟩ | ⟨hres, t, w', hct⟩
  · exact ⟨t, a, w1, by
      simp only [World.findOrCreateTableAdd, bind, M.bind, hg, ha, M.get, hallEq, hres, pure, M.pure]⟩
  · exact ⟨t, a, w', by
      simp only [World.findOrCreateTableAdd, bind, M.bind, hg, ha, M.get, hallEq, hres, hct, pure,
        M.pure]⟩

/-- **a valid `NewEntity(ids…, rels…)` never fails**: distinct registered components, every
    relation component among them named (with a zero or alive target), every relation naming a
    relation component among `ids`; any path, no observers -/
theorem opNewEntity_rel_total (run : ProbeRunner) (p : Path) {w : World} {fl : List Nat}
    (h : TInv w fl) (hl : w.isLocked = false) (hno : ∀ (evt : Nat), w.obs.hasObservers evt = false)
    {ids : List Comp} {vals : List (Comp × Val)} {rels : List RelID}
    (hnd : ids.Nodup) (hreg : ∀ (c : Comp), c ∈ ids → c < w.kinds.length)
    (hrnd : (rels.map (·.comp)).Nodup) (hin : ∀ (r : RelID), r ∈ rels → r.comp ∈ ids)
    (hrc : ∀ (r : RelID), r ∈ rels → w.isRelComp r.comp = true)
    (hall : ∀ (c : Comp), c ∈ ids → w.isRelComp c = true → c ∈ rels.map (·.comp))
    (hval : ∀ (r : RelID), r ∈ rels → r.target.isZero = true ∨ w.alive r.target = true) :
    ∃ (e : Ent) (w' : World), opNewEntity run p ids vals rels w = .ok e w' := by
  have hk256 : w.kinds.length ≤ 256 := Nat.le_trans h.kindsLe.1 h.kindsLe.2
  have hpre : preCheck p ids rels w = .ok () w := by
    apply preCheck_ok_of_valid
    intro r hr
    refine ⟨hval r hr, hrc r hr, ?_⟩
    rw [Mask.get_ofList]
    have : r.comp < 256 := Nat.lt_of_lt_of_le (hreg r.comp (hin r hr)) hk256
    simp [this, hin r hr]
  have hS := h.rel.sinv
  obtain ⟨t, a, w1, hf⟩ := h.rel.findOrCreateTableAdd_total hk256 (oldT := 0)
    (startMask := Mask.empty) hreg hS.root.1 hS.toSInvMid.root_notFree
    (by rw [hS.root.2.1]; exact hS.root.2.2) hnd (fun c _ => by simp) hrnd hin hrc hall hval
  have hu := findOrCreateTableAdd_untouched hf
  have hno1 : ∀ (evt : Nat), w1.obs.hasObservers evt = false := by
    intro evt; rw [hu.obs]; exact hno evt
  exact ⟨_, _, opNewEntity_rel_eq run p ids vals rels w hl hpre hf hno1⟩

/-- **a valid `Add(e, ids…, rels…)` never fails**: live entity, distinct registered components it
    lacks, relations as for `NewEntity`; any path, no observers -/
theorem opAdd_rel_total (run : ProbeRunner) (p : Path) {w : World} {fl : List Nat} (h : TInv w fl)
    (hl : w.isLocked = false) (hno : ∀ (evt : Nat), w.obs.hasObservers evt = false) {e : Ent}
    (h2 : 2 ≤ e.id) (hnf : e.id ∉ fl) (ha : w.alive e = true)
    (hsl : e.id < w.pool.ents.length) {ids : List Comp}
    {vals : List (Comp × Val)} {rels : List RelID}
    (hne : ids ≠ []) (hnd : ids.Nodup) (hreg : ∀ (c : Comp), c ∈ ids → c < w.kinds.length)
    (hnew : ∀ (c : Comp), c ∈ ids → (w.maskOf e).get c = false)
    (hrnd : (rels.map (·.comp)).Nodup) (hin : ∀ (r : RelID), r ∈ rels → r.comp ∈ ids)
    (hrc : ∀ (r : RelID), r ∈ rels → w.isRelComp r.comp = true)
    (hall : ∀ (c : Comp), c ∈ ids → w.isRelComp c = true → c ∈ rels.map (·.comp))
    (hval : ∀ (r : RelID), r ∈ rels → r.target.isZero = true ∨ w.alive r.target = true) :
    ∃ (w' : World), opAdd run p e ids vals rels w = .ok () w' := by
  have hk256 : w.kinds.length ≤ 256 := Nat.le_trans h.kindsLe.1 h.kindsLe.2
  have hpre : preCheck (p.addCheck ids) ids rels w = .ok () w := by
    apply preCheck_ok_of_valid
    intro r hr
    refine ⟨hval r hr, hrc r hr, ?_⟩
    rw [Mask.get_ofList]
    have : r.comp < 256 := Nat.lt_of_lt_of_le (hreg r.comp (hin r hr)) hk256
    simp [this, hin r hr]
  obtain ⟨oldT, row, he, htm, _⟩ := h.link.live_entry h2 hnf ha hsl
  have hix := index_of_get he
  obtain ⟨hT, _, _⟩ := h.link.idx.indexed he htm
  have hlt := lt_of_get hT
  have hTf : (w.tbl oldT).isFree = false := by
    cases hf : (w.tbl oldT).isFree with
    | false => rfl
    | true => have := h.freeEmpty oldT _ hT hf; omega
  have hemp : ids.isEmpty = false := by
    cases ids with
    | nil => exact absurd rfl hne
    | cons _ _ => rfl
  have hm : w.maskOf e = (w.arch (w.tbl oldT).arch).mask := by simp only [maskOf, hix]
  obtain ⟨t, a, w1, hf⟩ := h.rel.findOrCreateTableAdd_total hk256 (oldT := oldT)
    (startMask := (w.arch (w.tbl oldT).arch).mask) hreg hlt hTf rfl hnd
    (fun c hc => by rw [← hm]; exact hnew c hc) hrnd hin hrc hall hval
  have hu := findOrCreateTableAdd_untouched hf
  have hcore := addCore_rel_eq e ids rels w hl ha hemp hix hf
  have hno3 : ∀ (evt : Nat), (registerW (addMove w1 e oldT row t
      (ids.foldl Mask.set (w.arch (w.tbl oldT).arch).mask)) rels).obs.hasObservers evt = false := by
    intro evt
    show (addMove w1 e oldT row t _).obs.hasObservers evt = false
    rw [(addMove_fields w1 e oldT row t _).2.2.2.obs, hu.obs]; exact hno evt
  exact ⟨_, opAdd_rel_eq run p e ids vals rels w ha hpre hcore hno3⟩

/-- **a valid `SetRelations` never fails**, through any path (the mapper of exactly the components
    named) -/
theorem opSetRelations_total (run : ProbeRunner) (p : Path) {w : World} {fl : List Nat}
    (h : TInv w fl) (hl : w.isLocked = false) (hno : ∀ (evt : Nat), w.obs.hasObservers evt = false)
    {e : Ent} (h2 : 2 ≤ e.id) (hnf : e.id ∉ fl) (ha : w.alive e = true)
    (hsl : e.id < w.pool.ents.length) {rels : List RelID}
    (hne : rels.isEmpty = false) (hnd : (rels.map (·.comp)).Nodup)
    (hhas : ∀ (r : RelID), r ∈ rels → (targetOf w e.id r.comp).isSome = true)
    (hval : ∀ (r : RelID), r ∈ rels → r.target.isZero = true ∨ w.alive r.target = true)
    (hreg : ∀ (r : RelID), r ∈ rels → w.isRelComp r.comp = true ∧ r.comp < 256) :
    ∃ (w' : World), opSetRelations run p e (rels.map (·.comp)) rels w = .ok () w' := by
  have hpre : preCheck p.setRelCheck (rels.map (·.comp)) rels w = .ok () w := by
    apply preCheck_ok_of_valid
    intro r hr
    refine ⟨hval r hr, (hreg r hr).1, ?_⟩
    rw [Mask.get_ofList]
    simp only [(hreg r hr).2, decide_true, Bool.true_and, decide_eq_true_eq]
    exact List.mem_map.mpr ⟨r, hr, rfl⟩
  obtain ⟨w', hok⟩ := setRelationsCore_total run h hl hno h2 hnf ha hsl hne hnd hhas hval
  exact ⟨w', by simp only [opSetRelations, bind, M.bind, hpre, hok]⟩

/-! ## the access path does not matter for a valid call -/

/-- a valid `NewEntity(ids…, rels…)` gives the same result (handle and world) through `Unsafe`,
    `Map` and `MapN` -/
theorem opNewEntity_rel_path_indep (run : ProbeRunner) (p q : Path) {w : World} {fl : List Nat}
    (h : TInv w fl) (hl : w.isLocked = false) (hno : ∀ (evt : Nat), w.obs.hasObservers evt = false)
    {ids : List Comp} {vals : List (Comp × Val)} {rels : List RelID}
    (hnd : ids.Nodup) (hreg : ∀ (c : Comp), c ∈ ids → c < w.kinds.length)
    (hrnd : (rels.map (·.comp)).Nodup) (hin : ∀ (r : RelID), r ∈ rels → r.comp ∈ ids)
    (hrc : ∀ (r : RelID), r ∈ rels → w.isRelComp r.comp = true)
    (hall : ∀ (c : Comp), c ∈ ids → w.isRelComp c = true → c ∈ rels.map (·.comp))
    (hval : ∀ (r : RelID), r ∈ rels → r.target.isZero = true ∨ w.alive r.target = true) :
    opNewEntity run p ids vals rels w = opNewEntity run q ids vals rels w := by
  have hk256 : w.kinds.length ≤ 256 := Nat.le_trans h.kindsLe.1 h.kindsLe.2
  have hpre : ∀ (p' : Path), preCheck p' ids rels w = .ok () w := by
    intro p'
    apply preCheck_ok_of_valid
    intro r hr
    refine ⟨hval r hr, hrc r hr, ?_⟩
    rw [Mask.get_ofList]
    have : r.comp < 256 := Nat.lt_of_lt_of_le (hreg r.comp (hin r hr)) hk256
    simp [this, hin r hr]
  have hS := h.rel.sinv
  obtain ⟨t, a, w1, hf⟩ := h.rel.findOrCreateTableAdd_total hk256 (oldT := 0)
    (startMask := Mask.empty) hreg hS.root.1 hS.toSInvMid.root_notFree
    (by rw [hS.root.2.1]; exact hS.root.2.2) hnd (fun c _ => by simp) hrnd hin hrc hall hval
  have hu := findOrCreateTableAdd_untouched hf
  have hno1 : ∀ (evt : Nat), w1.obs.hasObservers evt = false := by
    intro evt; rw [hu.obs]; exact hno evt
  rw [opNewEntity_rel_eq run p ids vals rels w hl (hpre p) hf hno1,
    opNewEntity_rel_eq run q ids vals rels w hl (hpre q) hf hno1]

/-- a valid `Add(e, ids…, rels…)` gives the same world through every access path -/
theorem opAdd_rel_path_indep (run : ProbeRunner) (p q : Path) {w : World} {fl : List Nat}
    (h : TInv w fl) (hl : w.isLocked = false) (hno : ∀ (evt : Nat), w.obs.hasObservers evt = false)
    {e : Ent} (h2 : 2 ≤ e.id) (hnf : e.id ∉ fl) (ha : w.alive e = true)
    (hsl : e.id < w.pool.ents.length) {ids : List Comp}
    {vals : List (Comp × Val)} {rels : List RelID}
    (hne : ids ≠ []) (hnd : ids.Nodup) (hreg : ∀ (c : Comp), c ∈ ids → c < w.kinds.length)
    (hnew : ∀ (c : Comp), c ∈ ids → (w.maskOf e).get c = false)
    (hrnd : (rels.map (·.comp)).Nodup) (hin : ∀ (r : RelID), r ∈ rels → r.comp ∈ ids)
    (hrc : ∀ (r : RelID), r ∈ rels → w.isRelComp r.comp = true)
    (hall : ∀ (c : Comp), c ∈ ids → w.isRelComp c = true → c ∈ rels.map (·.comp))
    (hval : ∀ (r : RelID), r ∈ rels → r.target.isZero = true ∨ w.alive r.target = true) :
    opAdd run p e ids vals rels w = opAdd run q e ids vals rels w := by
  have hk256 : w.kinds.length ≤ 256 := Nat.le_trans h.kindsLe.1 h.kindsLe.2
  have hpre : ∀ (p' : Path), preCheck (p'.addCheck ids) ids rels w = .ok () w := by
    intro p'
    apply preCheck_ok_of_valid
    intro r hr
    refine ⟨hval r hr, hrc r hr, ?_⟩
    rw [Mask.get_ofList]
    have : r.comp < 256 := Nat.lt_of_lt_of_le (hreg r.comp (hin r hr)) hk256
    simp [this, hin r hr]
  obtain ⟨oldT, row, he, htm, _⟩ := h.link.live_entry h2 hnf ha hsl
  have hix := index_of_get he
  obtain ⟨hT, _, _⟩ := h.link.idx.indexed he htm
  have hlt := lt_of_get hT
  have hTf : (w.tbl oldT).isFree = false := by
    cases hf : (w.tbl oldT).isFree with
    | false => rfl
    | true => have := h.freeEmpty oldT _ hT hf; omega
  have hemp : ids.isEmpty = false := by
    cases ids with
    | nil => exact absurd rfl hne
    | cons _ _ => rfl
  have hm : w.maskOf e = (w.arch (w.tbl oldT).arch).mask := by simp only [maskOf, hix]
  obtain ⟨t, a, w1, hf⟩ := h.rel.findOrCreateTableAdd_total hk256 (oldT := oldT)
    (startMask := (w.arch (w.tbl oldT).arch).mask) hreg hlt hTf rfl hnd
    (fun c hc => by rw [← hm]; exact hnew c hc) hrnd hin hrc hall hval
  have hu := findOrCreateTableAdd_untouched hf
  have hcore := addCore_rel_eq e ids rels w hl ha hemp hix hf
  have hno3 : ∀ (evt : Nat), (registerW (addMove w1 e oldT row t
      (ids.foldl Mask.set (w.arch (w.tbl oldT).arch).mask)) rels).obs.hasObservers evt = false := by
    intro evt
    show (addMove w1 e oldT row t _).obs.hasObservers evt = false
    rw [(addMove_fields w1 e oldT row t _).2.2.2.obs, hu.obs]; exact hno evt
  rw [opAdd_rel_eq run p e ids vals rels w ha (hpre p) hcore hno3,
    opAdd_rel_eq run q e ids vals rels w ha (hpre q) hcore hno3]

/-- a `SetRelations` whose relations pass the pre-validation is `World.setRelations`, whatever
    the path -/
theorem opSetRelations_path_indep (run : ProbeRunner) (p q : Path) (e : Ent) {w : World}
    {rels : List RelID}
    (hval : ∀ (r : RelID), r ∈ rels → r.target.isZero = true ∨ w.alive r.target = true)
    (hreg : ∀ (r : RelID), r ∈ rels → w.isRelComp r.comp = true ∧ r.comp < 256) :
    opSetRelations run p e (rels.map (·.comp)) rels w =
      opSetRelations run q e (rels.map (·.comp)) rels w := by
  have hpre : ∀ (p' : Path), preCheck p'.setRelCheck (rels.map (·.comp)) rels w = .ok () w := by
    intro p'
    apply preCheck_ok_of_valid
    intro r hr
    refine ⟨hval r hr, (hreg r hr).1, ?_⟩
    rw [Mask.get_ofList]
    simp only [(hreg r hr).2, decide_true, Bool.true_and, decide_eq_true_eq]
    exact List.mem_map.mpr ⟨r, hr, rfl⟩
  simp only [opSetRelations, bind, M.bind, hpre p, hpre q]

end Ark
