/-
  Ark.Proofs.RefineBatchRows — what the BATCH operations need beyond `CInv`, kept by every
  operation of the refinement machine `Ark.Refine`.

  * `YInv w` — the handle stored in a row in use is alive (`RowsAlive`, i.e. under `CInv` the
    row holds the pool's current handle: `RowsLive`), and the world lock is well formed with no
    lock outstanding (`LockFree`).  This is the part of `XInv` (Ark/Proofs/QueryOps.lean) a batch
    needs, WITHOUT `w.locks = {}`: the exchange batches take and release the world lock, after
    which the lock's bit pool is no longer the initial one, so `XInv` does not survive them.
  * one preservation lemma per operation of the API (`YInv.registerComponent`, …, `YInv.opReset`),
    under the hypotheses of the corresponding specification theorem, for any successful result —
    the proofs are those of the `XInv` lemmas restricted to the two components;
  * `yinv_step` — every accepted, successful step of `Ark.Refine` keeps `YInv`.

  Kernel-only proofs, core Lean only.
-/
import Ark.Proofs.QueryHist
import Ark.Proofs.BatchRemove

set_option autoImplicit false

namespace Ark

open World Ark.Props.C01World

/-- rows hold alive handles; the world lock is well formed and free -/
structure YInv (w : World) : Prop where
  rows : RowsAlive w
  lock : LockFree w.locks

theorem yinv_init (cap rel : Nat) : YInv (World.init cap rel) :=
  ⟨RowsAlive.init cap rel, lockFree_init⟩

/-- under the joint invariant, `RowsAlive` is `RowsLive` -/
theorem YInv.rowsLive {w : World} {fl : List Nat} (Y : YInv w) (h : CInv w fl) : RowsLive w := by
  intro t r _ hr
  exact Y.rows.slot h hr

/-- … and conversely -/
theorem rowsAlive_of_rowsLive {w : World} {fl : List Nat} (h : CInv w fl) (hR : RowsLive w) :
    RowsAlive w := by
  apply rowsAlive_of_tbl
  intro t r hr
  have ht := World.tbl_len_pos_lt hr
  exact (row_handle_live h hR ht hr).2.2.1

/-- `registerComponent` (Op `reg`) -/
theorem YInv.registerComponent {w w' : World} {fl : List Nat} (_h : CInv w fl) (X : YInv w)
    {k : CompKind} {n : Nat} (hr : World.registerComponent k w = .ok n w') : YInv w' := by
  refine ⟨?_, ?_⟩
  · obtain ⟨_, _, _, ht, _, hp, _⟩ := registerComponent_ok hr
    exact X.rows.lookup (LookupKeeps.of_tables hp ht)
  · rw [registerComponent_ok_eq hr]; exact X.lock

/-- `NewEntity(ids…)` (Op `new`), hypotheses of `opNewEntity_spec` -/
theorem YInv.opNewEntity (run : ProbeRunner) (p : Path) {w : World} {fl : List Nat} (h : CInv w fl)
    (X : YInv w) (hl : w.isLocked = false) {ids : List Comp} (hnd : ids.Nodup)
    (hreg : ∀ (c : Comp), c ∈ ids → c < w.kinds.length) (vals : List (Comp × Val))
    (hfew : w.tables.length < maxU32) (hrows : ∀ t : Nat, (w.tbl t).len + 1 < 2 ^ 32)
    {e : Ent} {w' : World} (hop : opNewEntity run p ids vals [] w = .ok e w') : YInv w' := by
  obtain ⟨t, a, w1, hok, fc, hI1, hsame, _⟩ :=
    h.sinv.findOrCreateTableAdd_spec_new h.idx hnd hreg (fun c _ => h.noRelKinds c)
  have hu := findOrCreateTableAdd_untouched hok
  have hlen1 := findOrCreateTableAdd_tables_len hok
  have hfew1 : w1.tables.length ≤ maxU32 := by omega
  have h1 : CInv w1 fl := h.transfer hI1 fc.sinv fc.pool
    ⟨by rw [fc.entities], fun i => Or.inl (by rw [fc.entities])⟩ fc.kinds hu hfew1
  have hb : (w1.tbl t).len + 1 < 2 ^ 32 := by
    rcases Nat.lt_or_ge t w.tables.length with h1 | h1
    · have : w1.tbl t = w.tbl t := by
        simp only [tbl, List.getD_eq_getElem?_getD, hsame t h1]
      rw [this]; exact hrows t
    · rw [fc.newEmpty h1]; decide
  have heq := opNewEntity_eq run p ids vals w hl hok (by rw [hu.obs]; exact h.noObs)
  rw [heq] at hop
  injection hop with _ hw
  subst hw
  have hk := findOrCreateTableAdd_keeps hok
  refine ⟨?_, ?_⟩
  · exact ((X.rows.lookup hk).placed h1 fc.tblLt false hb).writeVals _ _
  · show LockFree (placedW w1 t false).locks
    rw [placedW_locks, hu.locks]; exact X.lock

/-- `Add` (Op `add`), hypotheses of `opAdd_spec` -/
theorem YInv.opAdd (run : ProbeRunner) (p : Path) {w : World} {fl : List Nat} (h : CInv w fl)
    (X : YInv w) (hl : w.isLocked = false) {e : Ent} (h2 : 2 ≤ e.id) (hnf : e.id ∉ fl)
    (ha : w.alive e = true) (hin : e.id < w.pool.ents.length)
    {add : List Comp} (hne : add ≠ []) (hnd : add.Nodup)
    (hreg : ∀ (c : Comp), c ∈ add → c < w.kinds.length)
    (hnew : ∀ (c : Comp), c ∈ add → (w.maskOf e).get c = false) (vals : List (Comp × Val))
    (hfew : w.tables.length < maxU32) (hrows : ∀ t : Nat, (w.tbl t).len + 1 < 2 ^ 32)
    {w' : World} (hop : opAdd run p e add vals [] w = .ok () w') : YInv w' := by
  obtain ⟨oldT, row, he, ht, _⟩ := h.live_entry h2 hnf ha hin
  have hix := index_of_get he
  have hm : w.maskOf e = (w.arch (w.tbl oldT).arch).mask := by simp only [maskOf, hix]
  obtain ⟨holdlt, _, _, halt, _, _⟩ := h.table_of_entry he ht
  have hb256 : ∀ (c : Comp), c ∈ add → c < 256 := fun c hc => h.reg_lt_256 (hreg c hc)
  obtain ⟨t, a, w1, hok, fc, hI1, hsame, hneT⟩ :=
    h.sinv.findOrCreateTableAdd_spec h.idx holdlt (startMask := w.maskOf e) hm (h.noRelArch' halt)
      hnd hnew hreg (fun c _ => h.noRelKinds c)
  have hu := findOrCreateTableAdd_untouched hok
  have hlen1 := findOrCreateTableAdd_tables_len hok
  obtain ⟨mp, hma⟩ := h.move_spec he ht fc hu hsame (hneT hne hb256) hlen1 hfew hrows
  have hok' := hok
  rw [hm] at hok'
  have hcore := addCore_eq e add w hl ha hne hix hok'
  rw [← hm] at hcore
  have heq := opAdd_eq run p e add vals w ha hcore mp.cinv.noObs
  rw [heq] at hop
  injection hop with _ hw
  subst hw
  have hk := findOrCreateTableAdd_keeps hok
  have hb : (w1.tbl t).len + 1 < 2 ^ 32 := by
    rcases Nat.lt_or_ge t w.tables.length with h1 | h1
    · have : w1.tbl t = w.tbl t := by
        simp only [tbl, List.getD_eq_getElem?_getD, hsame t h1]
      rw [this]; exact hrows t
    · rw [fc.newEmpty h1]; decide
  have ha1 : w1.alive e = true := by simp only [World.alive, fc.pool]; exact ha
  have he1 : w1.entities[e.id]? = some (oldT, row) := by rw [fc.entities]; exact he
  have hne' : oldT ≠ t := Ne.symm (hneT hne hb256)
  refine ⟨?_, ?_⟩
  · exact ((X.rows.lookup hk).moved hI1 _ ha1 he1 ht hne' fc.tblLt hb).writeVals _ _
  · show LockFree (addMove w1 e oldT row t (add.foldl Mask.set (w.maskOf e))).locks
    rw [(addMove_fields _ _ _ _ _ _).2.2.2.locks, hu.locks]; exact X.lock

/-- `Remove` (Op `rem`), hypotheses of `opRemove_spec` -/
theorem YInv.opRemove (run : ProbeRunner) (p : Path) {w : World} {fl : List Nat} (h : CInv w fl)
    (X : YInv w) (hl : w.isLocked = false) {e : Ent} (h2 : 2 ≤ e.id) (hnf : e.id ∉ fl)
    (ha : w.alive e = true) (hin : e.id < w.pool.ents.length)
    {rem : List Comp} (hne : rem ≠ []) (hnd : rem.Nodup)
    (hpres : ∀ (c : Comp), c ∈ rem → (w.maskOf e).get c = true)
    (_hfew : w.tables.length < maxU32) (hrows : ∀ t : Nat, (w.tbl t).len + 1 < 2 ^ 32)
    {w' : World} (hop : opRemove run p e rem w = .ok () w') : YInv w' := by
  rw [opRemove_eq run p e rem w ha] at hop
  obtain ⟨oldT, row, he, ht, _⟩ := h.live_entry h2 hnf ha hin
  have hix := index_of_get he
  have hm : w.maskOf e = (w.arch (w.tbl oldT).arch).mask := by simp only [maskOf, hix]
  obtain ⟨holdlt, _, _, halt, _, _⟩ := h.table_of_entry he ht
  obtain ⟨t, a, w1, hok, fc, hI1, hu, hsame, hneT⟩ :=
    h.sinv.findOrCreateTableRemove_spec h.idx h.noRelKinds holdlt (startMask := w.maskOf e) hm
      hnd hpres
  have hok' := hok
  rw [hm] at hok'
  have heq := removeCore_eq run e rem w hl ha hne hix hok' (by rw [hu.obs]; exact h.noObs)
  rw [← hm] at heq
  rw [heq] at hop
  injection hop with _ hw
  subst hw
  have hk := findOrCreateTableRemove_keeps hok
  have hb : (w1.tbl t).len + 1 < 2 ^ 32 := by
    rcases Nat.lt_or_ge t w.tables.length with h1 | h1
    · have : w1.tbl t = w.tbl t := by
        simp only [tbl, List.getD_eq_getElem?_getD, hsame t h1]
      rw [this]; exact hrows t
    · rw [fc.newEmpty h1]; decide
  have ha1 : w1.alive e = true := by simp only [World.alive, fc.pool]; exact ha
  have he1 : w1.entities[e.id]? = some (oldT, row) := by rw [fc.entities]; exact he
  have hne' : oldT ≠ t := Ne.symm (hneT hne)
  refine ⟨?_, ?_⟩
  · exact (X.rows.lookup hk).moved hI1 _ ha1 he1 ht hne' fc.tblLt hb
  · rw [(addMove_fields _ _ _ _ _ _).2.2.2.locks, hu.locks]; exact X.lock

/-- `Set` (Op `set`), hypotheses of `opSet_spec_c` -/
theorem YInv.opSet (run : ProbeRunner) {w : World} {fl : List Nat} (h : CInv w fl) (X : YInv w)
    {e : Ent} (h2 : 2 ≤ e.id) (hnf : e.id ∉ fl) (ha : w.alive e = true)
    (hin : e.id < w.pool.ents.length) {ids : List Comp}
    (hhas : ∀ (c : Comp), c ∈ ids → (w.maskOf e).get c = true) (vals : List (Comp × Val))
    {w' : World} (hop : opSet run e ids vals w = .ok () w') : YInv w' := by
  have heq := opSet_eq run w e ids vals ha (by
    rw [List.all_eq_true]
    intro c hc
    exact (h.has_iff h2 hnf ha hin c).mpr (hhas c hc)) (h.noObs _)
  rw [heq] at hop
  injection hop with _ hw
  subst hw
  exact ⟨X.rows.writeVals _ _, X.lock⟩

/-- `RemoveEntity` (Op `del`), hypotheses of `opRemoveEntity_spec` -/
theorem YInv.opRemoveEntity (run : ProbeRunner) {w : World} {fl : List Nat} (h : CInv w fl)
    (X : YInv w) (hl : w.isLocked = false) {e : Ent} (h2 : 2 ≤ e.id) (hnf : e.id ∉ fl)
    (ha : w.alive e = true) (hin : e.id < w.pool.ents.length)
    {w' : World} (hop : opRemoveEntity run e w = .ok () w') : YInv w' := by
  obtain ⟨t, row, hix, _⟩ := h.removed h2 hnf ha hin
  have heq := opRemoveEntity_eq run w e hl ha hix h.noObs (h.noTargets _)
  rw [heq] at hop
  injection hop with _ hw
  subst hw
  refine ⟨X.rows.removed h h2 hnf ha hin hix, ?_⟩
  rw [removeRowOf_locks]; exact X.lock

/-- `World.NewEntity()` (Op `new0`), hypotheses of `opNewEntity0_spec` -/
theorem YInv.opNewEntity0 (run : ProbeRunner) {w : World} {fl : List Nat} (h : CInv w fl)
    (X : YInv w) (hl : w.isLocked = false) (hb : (w.tbl 0).len + 1 < 2 ^ 32)
    {e : Ent} {w' : World} (hop : opNewEntity0 run w = .ok e w') : YInv w' := by
  rw [opNewEntity0_eq run w hl (h.noObs _)] at hop
  injection hop with _ hw
  subst hw
  exact ⟨X.rows.placed h h.sinv.root.1 true hb, by rw [placedW_locks]; exact X.lock⟩

/-- `Exchange` (Op `xchg`), hypotheses of `opExchange_spec` -/
theorem YInv.opExchange (run : ProbeRunner) (p : Path) {w : World} {fl : List Nat} (h : CInv w fl)
    (X : YInv w) (hl : w.isLocked = false) {e : Ent} (h2 : 2 ≤ e.id) (hnf : e.id ∉ fl)
    (ha : w.alive e = true) (hin : e.id < w.pool.ents.length)
    {add rem : List Comp} (hne : ¬ (add = [] ∧ rem = [])) (hrnd : rem.Nodup)
    (hpres : ∀ (c : Comp), c ∈ rem → (w.maskOf e).get c = true) (hand : add.Nodup)
    (hreg : ∀ (c : Comp), c ∈ add → c < w.kinds.length)
    (hnew : ∀ (c : Comp), c ∈ add → (w.maskOf e).get c = false) (vals : List (Comp × Val))
    (hfew : w.tables.length < maxU32) (hrows : ∀ t : Nat, (w.tbl t).len + 1 < 2 ^ 32)
    {w' : World} (hop : opExchange run p e add vals rem [] w = .ok () w') : YInv w' := by
  obtain ⟨oldT, row, he, ht, _⟩ := h.live_entry h2 hnf ha hin
  have hix := index_of_get he
  have hm : w.maskOf e = (w.arch (w.tbl oldT).arch).mask := by simp only [maskOf, hix]
  obtain ⟨holdlt, _, _, halt, _, _⟩ := h.table_of_entry he ht
  have hb256 : ∀ (c : Comp), c ∈ add → c < 256 := fun c hc => h.reg_lt_256 (hreg c hc)
  have hrel0 : (w.tbl oldT).relIDs = [] := h.relIDs_nil holdlt
  have hg := graphFind_ok (w.maskOf e) add rem w hb256 hrnd hpres hand hnew
  have hget : ∀ c : Nat, (add.foldl Mask.set (rem.foldl Mask.clear (w.maskOf e))).get c =
      (((w.maskOf e).get c && !decide (c ∈ rem)) || decide (c < 256) && decide (c ∈ add)) := by
    intro c; rw [Mask.get_ofList_foldl, Mask.get_foldl_clear]
  have hregM : ∀ c : Nat,
      (add.foldl Mask.set (rem.foldl Mask.clear (w.maskOf e))).get c = true → c < w.kinds.length := by
    intro c hc
    rw [hget] at hc
    cases hs : (w.maskOf e).get c with
    | true => exact (h.comps_of_live h2 hnf ha hin).2 c hs
    | false =>
      rw [hs] at hc
      simp at hc
      exact hreg c hc.2
  obtain ⟨t, a, w1, hok, fc, hI1, hsame⟩ := h.sinv.foc_nil_spec h.idx h.noRelKinds hrel0 hregM
  have hu := findOrCreateTableAdd_untouched hok
  have hlen1 := findOrCreateTableAdd_tables_len hok
  have hfoc : findOrCreateTable oldT (w.maskOf e) add rem [] w =
      .ok (t, a, add.foldl Mask.set (rem.foldl Mask.clear (w.maskOf e)), false) w1 := by
    rw [findOrCreateTable_eq_add oldT _ _ add rem w hg hrel0, hok]
  have hneT : t ≠ oldT := by
    apply fc.ne_old h.sinv holdlt
    rw [← hm]
    intro heq
    have hgc := fun c => congrArg (fun m => Mask.get m c) heq
    simp only [hget] at hgc
    cases add with
    | cons c rest =>
      have := hgc c
      rw [hnew c List.mem_cons_self] at this
      simp [hb256 c List.mem_cons_self] at this
    | nil =>
      cases rem with
      | nil => exact hne ⟨rfl, rfl⟩
      | cons c rest =>
        have := hgc c
        rw [hpres c List.mem_cons_self] at this
        simp at this
  obtain ⟨mp, _⟩ := h.move_spec he ht fc hu hsame hneT hlen1 hfew hrows
  have hfoc' := hfoc
  rw [hm] at hfoc'
  have hcore := exchangeCore_eq run e add rem w hl ha hne hix hfoc' (by rw [hu.obs]; exact h.noObs)
  rw [← hm] at hcore
  have heq := opExchange_eq run p e add vals rem w ha hcore mp.cinv.noObs
  rw [heq] at hop
  injection hop with _ hw
  subst hw
  have hk := findOrCreateTableAdd_keeps hok
  have hb : (w1.tbl t).len + 1 < 2 ^ 32 := by
    rcases Nat.lt_or_ge t w.tables.length with h1 | h1
    · have : w1.tbl t = w.tbl t := by
        simp only [tbl, List.getD_eq_getElem?_getD, hsame t h1]
      rw [this]; exact hrows t
    · rw [fc.newEmpty h1]; decide
  have ha1 : w1.alive e = true := by simp only [World.alive, fc.pool]; exact ha
  have he1 : w1.entities[e.id]? = some (oldT, row) := by rw [fc.entities]; exact he
  have hne' : oldT ≠ t := Ne.symm hneT
  refine ⟨?_, ?_⟩
  · exact ((X.rows.lookup hk).moved hI1 _ ha1 he1 ht hne' fc.tblLt hb).writeVals _ _
  · show LockFree (addMove w1 e oldT row t
      (add.foldl Mask.set (rem.foldl Mask.clear (w.maskOf e)))).locks
    rw [(addMove_fields _ _ _ _ _ _).2.2.2.locks, hu.locks]; exact X.lock

/-- `CopyEntity` (Op `copy`), hypotheses of `opCopyEntity_spec` -/
theorem YInv.opCopyEntity (run : ProbeRunner) {w : World} {fl : List Nat} (h : CInv w fl)
    (X : YInv w) (hl : w.isLocked = false) {src : Ent} (h2 : 2 ≤ src.id) (hnf : src.id ∉ fl)
    (ha : w.alive src = true) (hin : src.id < w.pool.ents.length)
    (hrows : ∀ t : Nat, (w.tbl t).len + 1 < 2 ^ 32)
    {e : Ent} {w' : World} (hop : opCopyEntity run src w = .ok e w') : YInv w' := by
  obtain ⟨t, row, he, ht, _⟩ := h.live_entry h2 hnf ha hin
  obtain ⟨hTt, _, _⟩ := h.idx.indexed he ht
  have hlt := lt_of_get hTt
  rw [opCopyEntity_eq run w src hl ha (index_of_get he) h.noObs] at hop
  injection hop with _ hw
  subst hw
  refine ⟨?_, ?_⟩
  · exact (X.rows.placed h hlt false (hrows t)).copied _ _ _
  · show LockFree (placedW w t false).locks
    rw [placedW_locks]; exact X.lock

/-- `Shrink` (Op `shrink`), hypotheses of `opShrink_spec` -/
theorem YInv.opShrink {w : World} {fl : List Nat} (h : CInv w fl) (X : YInv w)
    (hl : w.isLocked = false) (hrows : ∀ t : Nat, (w.tbl t).len + 1 < 2 ^ 32) (bounded : Bool)
    {b : Bool} {w' : World} (hop : opShrink bounded w = .ok b w') : YInv w' := by
  rw [opShrink_eq bounded w hl] at hop
  injection hop with _ hw
  subst hw
  have hb : RowsBounded w := fun t => by have := hrows t; omega
  obtain ⟨_, hrel⟩ := shrinkPure_rel h.idx hb bounded
  obtain ⟨hu, _⟩ := hrel.frame.untouched
  refine ⟨?_, ?_⟩
  · refine X.rows.lookup ⟨hrel.frame.pool, ?_⟩
    intro t r hr
    rw [(hrel.tbl t).len] at hr
    exact ⟨hr, (hrel.tbl t).ent r hr⟩
  · rw [hu.locks]; exact X.lock

/-- `Reset` (Op `reset`), hypotheses of `opReset_spec` -/
theorem YInv.opReset {w : World} {fl : List Nat} (h : CInv w fl) (X : YInv w)
    (hl : w.isLocked = false) {w' : World} (hop : opReset w = .ok () w') : YInv w' := by
  obtain ⟨w2, hop2, post⟩ := opReset_spec h hl
  rw [opReset_eq w hl] at hop hop2
  injection hop with _ hw
  subst hw
  injection hop2 with _ hw2
  subst hw2
  refine ⟨?_, ?_⟩
  · intro t T r hT hr
    have hlt := lt_of_get hT
    have := tbl_of_get hT
    subst this
    obtain ⟨g2, _, g3, _⟩ := post.cinv.row_live_id hlt hr
    rw [post.entitiesLen] at g3
    omega
  · rw [resetW_locks]
    obtain ⟨lfl, g⟩ := X.lock
    exact ⟨[], Lock.reset_inv ⟨w.locks, []⟩ lfl g⟩

namespace Refine

/-- every accepted successful step keeps `YInv` — one case per operation -/
theorem yinv_step (run : ProbeRunner) (s : St) (fl : List Nat) (op : Op) (r : Option Ent)
    (w' : World) (H : HInv s fl) (hfew : s.w.tables.length < maxU32)
    (hent : s.w.entities.length + 1 < 2 ^ 32) (hg : guard s op = true) (hpre : pre s.ss op)
    (X : YInv s.w) (hex : exec run s.w op = .ok r w') : YInv w' := by
  cases op with
  | reg size z =>
    simp only [exec] at hex
    split at hex
    · rename_i n w1 hr
      injection hex with _ hw; subst hw
      exact X.registerComponent H.cinv hr
    · cases hex
  | new p ids vals =>
    obtain ⟨hnd, hreg⟩ := hpre
    have hreg' : ∀ (c : Comp), c ∈ ids → c < s.w.kinds.length := by rw [← H.zlen]; exact hreg
    simp only [exec] at hex
    split at hex
    · rename_i e w1 hop
      injection hex with _ hw; subst hw
      exact X.opNewEntity run p H.cinv H.unlocked hnd hreg' vals hfew (H.hrows hent) hop
    · cases hex
  | new0 =>
    simp only [exec] at hex
    split at hex
    · rename_i e w1 hop
      injection hex with _ hw; subst hw
      exact X.opNewEntity0 run H.cinv H.unlocked (H.hrows hent 0) hop
    · cases hex
  | add p e ids vals =>
    obtain ⟨cs, hf, hne, hnd, hall⟩ := hpre
    have hm := find_some_mem hf
    obtain ⟨_, ha, h2, hnf, _, hsl⟩ := H.live_facts hm
    have hin := (List.getElem?_eq_some_iff.mp hsl).1
    have hreg' : ∀ (c : Comp), c ∈ ids → c < s.w.kinds.length := by
      intro c hc; rw [← H.zlen]; exact (hall c hc).1
    have hnew : ∀ (c : Comp), c ∈ ids → (s.w.maskOf e).get c = false := by
      intro c hc
      cases hgc : (s.w.maskOf e).get c with
      | false => rfl
      | true => exact absurd ((H.mask_iff hm c).mp hgc) (hall c hc).2
    simp only [exec] at hex
    split at hex
    · rename_i u w1 hop
      injection hex with _ hw; subst hw
      exact X.opAdd run p H.cinv H.unlocked h2 hnf ha hin hne hnd hreg' hnew vals hfew
        (H.hrows hent) hop
    · cases hex
  | rem p e ids =>
    obtain ⟨cs, hf, hne, hnd, hall⟩ := hpre
    have hm := find_some_mem hf
    obtain ⟨_, ha, h2, hnf, _, hsl⟩ := H.live_facts hm
    have hin := (List.getElem?_eq_some_iff.mp hsl).1
    have hpres : ∀ (c : Comp), c ∈ ids → (s.w.maskOf e).get c = true :=
      fun c hc => (H.mask_iff hm c).mpr (hall c hc)
    simp only [exec] at hex
    split at hex
    · rename_i u w1 hop
      injection hex with _ hw; subst hw
      exact X.opRemove run p H.cinv H.unlocked h2 hnf ha hin hne hnd hpres hfew
        (H.hrows hent) hop
    · cases hex
  | xchg p e add rem vals =>
    obtain ⟨cs, hf, hne, hrnd, hrall, hand, hall⟩ := hpre
    have hm := find_some_mem hf
    obtain ⟨_, ha, h2, hnf, _, hsl⟩ := H.live_facts hm
    have hin := (List.getElem?_eq_some_iff.mp hsl).1
    have hreg' : ∀ (c : Comp), c ∈ add → c < s.w.kinds.length := by
      intro c hc; rw [← H.zlen]; exact (hall c hc).1
    have hpres : ∀ (c : Comp), c ∈ rem → (s.w.maskOf e).get c = true :=
      fun c hc => (H.mask_iff hm c).mpr (hrall c hc)
    have hnew : ∀ (c : Comp), c ∈ add → (s.w.maskOf e).get c = false := by
      intro c hc
      cases hgc : (s.w.maskOf e).get c with
      | false => rfl
      | true => exact absurd ((H.mask_iff hm c).mp hgc) (hall c hc).2
    simp only [exec] at hex
    split at hex
    · rename_i u w1 hop
      injection hex with _ hw; subst hw
      exact X.opExchange run p H.cinv H.unlocked h2 hnf ha hin hne hrnd hpres hand hreg' hnew vals
        hfew (H.hrows hent) hop
    · cases hex
  | set e vals =>
    obtain ⟨cs, hf, hv⟩ := hpre
    have hm := find_some_mem hf
    obtain ⟨_, ha, h2, hnf, _, hsl⟩ := H.live_facts hm
    have hin := (List.getElem?_eq_some_iff.mp hsl).1
    have hhas : ∀ (c : Comp), c ∈ keys vals → (s.w.maskOf e).get c = true := by
      intro c hc
      obtain ⟨cv, hcv, rfl⟩ := List.mem_map.mp hc
      exact (H.mask_iff hm cv.1).mpr (hv cv hcv)
    simp only [exec] at hex
    split at hex
    · rename_i u w1 hop
      injection hex with _ hw; subst hw
      exact X.opSet run H.cinv h2 hnf ha hin hhas vals hop
    · cases hex
  | del e =>
    obtain ⟨cs, hf⟩ := hpre
    have hm := find_some_mem hf
    obtain ⟨_, ha, h2, hnf, _, hsl⟩ := H.live_facts hm
    have hin := (List.getElem?_eq_some_iff.mp hsl).1
    simp only [exec] at hex
    split at hex
    · rename_i u w1 hop
      injection hex with _ hw; subst hw
      exact X.opRemoveEntity run H.cinv H.unlocked h2 hnf ha hin hop
    · cases hex
  | copy e =>
    obtain ⟨cs, hf⟩ := hpre
    have hm := find_some_mem hf
    obtain ⟨_, ha, h2, hnf, _, hsl⟩ := H.live_facts hm
    have hin := (List.getElem?_eq_some_iff.mp hsl).1
    simp only [exec] at hex
    split at hex
    · rename_i e' w1 hop
      injection hex with _ hw; subst hw
      exact X.opCopyEntity run H.cinv H.unlocked h2 hnf ha hin (H.hrows hent) hop
    · cases hex
  | shrink bounded =>
    simp only [exec] at hex
    split at hex
    · rename_i b w1 hop
      injection hex with _ hw; subst hw
      exact X.opShrink H.cinv H.unlocked (H.hrows hent) bounded hop
    · cases hex
  | reset =>
    simp only [exec] at hex
    split at hex
    · rename_i u w1 hop
      injection hex with _ hw; subst hw
      exact X.opReset H.cinv H.unlocked hop
    · cases hex

/-- **every step of the machine keeps `YInv`** (accepted or not, successful or rejected) -/
theorem step_yinv (run : ProbeRunner) {s : St} {fl : List Nat} (H : HInv s fl)
    (hfew : s.w.tables.length < maxU32) (hent : s.w.entities.length + 1 < 2 ^ 32) (op : Op)
    (X : YInv s.w) : YInv (step run s op).w :=
  run_ext run YInv (fun s fl op r w' H hf he hg hpre X hex => yinv_step run s fl op r w' H hf he hg hpre X hex)
    [op] s fl H (by simp only [List.length_singleton]; omega)
    (by simp only [List.length_singleton]; omega) X

end Refine

end Ark
