/-
  Ark.Proofs.ResetEquivRelOut — the OUTCOME of every ACCEPTED operation of the relation machine
  `Ark.RelRefine` (`reg | new p | add p | rem p | setrel p | set | del`) is a function of the
  specification state and of the next handle of the entity pool: what
  `Ark/Proofs/ResetEquivOut.lean` is for the relation-free machine, first half.

  * `Op.creates`, `retSpec` — the handle an accepted operation returns (`new`: the pool's next
    handle);
  * `poolAfter`, `kindsAfter` — what an accepted operation does to the pool and the registry;
  * `exec_acc` — under the invariant `HInv`, within the size bounds, for an expressible operation
    (`guard`) whose precondition holds: `exec = .ok (retSpec (pool.get).2 op) w'` with
    `w'.pool = poolAfter …`, `w'.kinds = kindsAfter …`.

  The rejected operations (with their panic class) are in `Ark/Proofs/ResetEquivRelKind.lean`.
  Kernel-only proofs, core Lean only.
-/
import Ark.Proofs.RelRefine2Spec
import Ark.Proofs.ResetEquiv

set_option autoImplicit false

namespace Ark

open World Ark.Props.C01World

namespace RelRefine

open Refine (Comps keys sortedIds writeComps zeros Outcome outcome)

/-! ## 1. what an accepted operation returns and does to pool and registry -/

/-- the operations that return a new handle -/
def Op.creates : Op → Bool
  | .new _ _ _ _ => true
  | _ => false

/-- the value an accepted operation returns (`fresh` = the next handle of the pool) -/
def retSpec (fresh : Ent) (op : Op) : Option Ent := if op.creates = true then some fresh else none

/-- the pool after an accepted operation: a creation takes a handle, `RemoveEntity` recycles
    one, everything else leaves the pool alone -/
def poolAfter (p : Pool) : Op → Pool
  | .new _ _ _ _ => (p.get).1
  | .del e => p.recycle e
  | _ => p

/-- the registry after an accepted operation: `reg` appends one component type -/
def kindsAfter (ks : List CompKind) : Op → List CompKind
  | .reg size z ir => ks ++ [{ isRel := ir, zst := z, size := size }]
  | _ => ks

/-- **an accepted operation**: the returned handle is the pool's next handle (`new`) or nothing;
    the pool and the registry change as `poolAfter` / `kindsAfter` say -/
theorem exec_acc (run : ProbeRunner) {s : St} {fl : List Nat} (H : HInv s fl)
    (hfew : s.w.tables.length + s.w.relationArchetypes.length + 1 ≤ maxU32)
    (hent : 2 * s.w.entities.length < 2 ^ 32) {op : Op} (hg : guard s op = true)
    (hp : pre s.ss op) :
    ∃ (w' : World), exec run s.w op = .ok (retSpec (s.w.pool.get).2 op) w' ∧
      w'.pool = poolAfter s.w.pool op ∧ w'.kinds = kindsAfter s.w.kinds op := by
  have hfew' : s.w.tables.length < maxU32 := by omega
  have hent' : s.w.entities.length + 1 < 2 ^ 32 := by omega
  obtain ⟨_, _, _, _, _, g5⟩ := step_goal run H hfew hent op
  obtain ⟨r, w', hex⟩ := g5 hg hp
  cases op with
  | reg size z ir =>
    cases hr : World.registerComponent { isRel := ir, zst := z, size := size } s.w with
    | panic k w1 => simp only [exec, hr] at hex; cases hex
    | ok n w1 =>
      obtain ⟨_, hks, _, _, _, hpool, _⟩ := registerComponent_ok hr
      exact ⟨w1, by simp only [exec, hr]; rfl, hpool, hks⟩
  | new p ids vals rels =>
    obtain ⟨hnd, hreg, ⟨hrnd, hrin, hrall⟩, hv⟩ := hp
    have hg' : ((∀ c ∈ ids, c < s.ss.zst.length) ∧ RelsStep s.ss.isRel p ids rels) ∧
        tgtsExpr s rels = true := by
      simpa only [guard, Bool.and_eq_true, List.all_eq_true, decide_eq_true_eq] using hg
    have hreg' : ∀ (c : Comp), c ∈ ids → c < s.w.kinds.length := by rw [← H.zlen]; exact hreg
    have hin : ∀ (r : RelID), r ∈ rels → r.comp ∈ ids := fun r hr => (hrin r hr).1
    have hrc : ∀ (r : RelID), r ∈ rels → s.w.isRelComp r.comp = true :=
      fun r hr => by rw [← H.rget]; exact (hrin r hr).2
    cases hop : opNewEntity run p ids vals rels s.w with
    | panic k w1 => simp only [exec, hop] at hex; cases hex
    | ok e w1 =>
      have post := opNewEntity_rel_spec run p H.tinv H.unlocked H.noObs hreg' hrnd hin hrc
        (H.tgts_in hg'.2) hfew' hent' hop
      have more := opNewEntity_rel_more run p H.tinv H.unlocked H.noObs hreg' hrnd hin hfew' hent'
        hop
      have he : e = (s.w.pool.get).2 := post.ent
      subst he
      exact ⟨w1, by simp only [exec, hop]; rfl, more.pool, post.kinds⟩
  | add p e ids vals rels =>
    obtain ⟨en, hf, ⟨hne, hnd, hall⟩, ⟨hrnd, hrin, hrall⟩, hv⟩ := hp
    have hm := find_some_mem hf
    obtain ⟨_, ha, h2, hnf, _, hsl0⟩ := H.live_facts hm
    have hsl := Pool.lt_of_slot hsl0
    have hg' : ((e ∈ s.issued ∧ ∀ c ∈ ids, c < s.ss.zst.length) ∧ RelsStep s.ss.isRel p ids rels) ∧
        tgtsExpr s rels = true := by
      simpa only [guard, Bool.and_eq_true, List.all_eq_true, decide_eq_true_eq] using hg
    have hreg' : ∀ (c : Comp), c ∈ ids → c < s.w.kinds.length := by
      rw [← H.zlen]; exact hg'.1.1.2
    have hin : ∀ (r : RelID), r ∈ rels → r.comp ∈ ids := fun r hr => (hrin r hr).1
    have hrc : ∀ (r : RelID), r ∈ rels → s.w.isRelComp r.comp = true :=
      fun r hr => by rw [← H.rget]; exact (hrin r hr).2
    cases hop : opAdd run p e ids vals rels s.w with
    | panic k w1 => simp only [exec, hop] at hex; cases hex
    | ok u w1 =>
      have post := opAdd_rel_spec run p H.tinv H.unlocked H.noObs h2 hnf ha hsl hreg'
        hrnd hin hrc (H.targets_in hv) hfew' hent' hop
      have more := opAdd_rel_more run p H.tinv H.unlocked H.noObs h2 hnf ha hsl hreg' hrnd hin hrc
        (H.targets_in hv) hfew' hent' hop
      exact ⟨w1, by simp only [exec, hop]; rfl, more.pool, post.kinds⟩
  | rem p e ids =>
    obtain ⟨en, hf, hne, hnd, hall⟩ := hp
    have hm := find_some_mem hf
    obtain ⟨_, ha, h2, hnf, _, hsl0⟩ := H.live_facts hm
    have hsl := Pool.lt_of_slot hsl0
    have ok := H.ok e en hm
    have hmask : ∀ (c : Comp), (s.w.maskOf e).get c = true ↔ c ∈ keys en.comps := fun c => by
      rw [H.tinv.mask_iff_comps h2 hnf ha hsl ok.comps c, H.comps_iff hm c]
    obtain ⟨w1, hop, post⟩ := opRemove_rel_spec run p H.tinv H.unlocked H.noObs h2 hnf ha hsl hne hnd
      (fun c hc => (hmask c).mpr (hall c hc)) hfew' hent'
    exact ⟨w1, by simp only [exec, hop]; rfl, post.pool, post.kinds⟩
  | setrel p e rels =>
    obtain ⟨en, hf, hne, hrnd, hhas, hv⟩ := hp
    have hm := find_some_mem hf
    obtain ⟨_, ha, h2, hnf, _, hsl0⟩ := H.live_facts hm
    have hsl := Pool.lt_of_slot hsl0
    have hemp : rels.isEmpty = false := by
      cases rels with
      | nil => exact absurd rfl hne
      | cons _ _ => rfl
    have hhas' : ∀ (r : RelID), r ∈ rels → (targetOf s.w e.id r.comp).isSome = true :=
      fun r hr => (H.target_isSome_iff hm r.comp).mpr (hhas r hr)
    cases hop : opSetRelations run p e (rels.map (·.comp)) rels s.w with
    | panic k w1 => simp only [exec, hop] at hex; cases hex
    | ok u w1 =>
      have post := opSetRelations_spec run p H.tinv H.unlocked H.noObs h2 hnf ha hsl
        hemp hrnd hhas' (H.targets_in hv) hfew' hent' hop
      have more := opSetRelations_more run p H.tinv H.unlocked H.noObs h2 hnf ha hsl hemp hrnd hhas'
        hop
      exact ⟨w1, by simp only [exec, hop]; rfl, more.pool, post.kinds⟩
  | set e vals =>
    obtain ⟨en, hf, hv⟩ := hp
    have hm := find_some_mem hf
    obtain ⟨_, ha, h2, hnf, _, hsl0⟩ := H.live_facts hm
    have hsl := Pool.lt_of_slot hsl0
    have ok := H.ok e en hm
    obtain ⟨w1, hop, post⟩ := opSet_rel_spec run H.tinv H.noObs h2 hnf ha hsl ok.comps
      (ids := keys vals) (by
        intro c hc
        obtain ⟨cv, hcv, rfl⟩ := List.mem_map.mp hc
        exact (H.comps_iff hm cv.1).mpr (hv cv hcv)) vals
    exact ⟨w1, by simp only [exec, hop]; rfl, post.pool, post.kinds⟩
  | del e =>
    obtain ⟨en, hf⟩ := hp
    have hm := find_some_mem hf
    obtain ⟨_, ha, h2, hnf, _, hsl0⟩ := H.live_facts hm
    have hsl := Pool.lt_of_slot hsl0
    obtain ⟨w1, hop, post⟩ := opRemoveEntity_rel_spec run H.tinv H.unlocked H.noObs h2 hnf ha hsl
      hfew hent
    have more := opRemoveEntity_rel_more run H.tinv H.unlocked H.noObs h2 hnf ha hsl hfew hent hop
    exact ⟨w1, by simp only [exec, hop]; rfl, more.pool, post.kinds⟩

end RelRefine

end Ark
