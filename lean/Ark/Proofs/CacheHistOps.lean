/-
  Ark.Proofs.CacheHistOps — property C05 over whole histories, part 2: the filter-side invariant
  `FInv` and the history machine with filter operations.

  * `Quiet w w'` — `w'` has the archetypes, cache, filter heap, component index, locks, registry
    and observers of `w` (what every row-level step of an entity operation leaves alone).
  * `NoRelW w` — the relation-free fragment seen from the storage: `SInv` + no relation component
    registered.  `NoRelW.selected_iff`: in such a world `Selected` does not look at the tables.
    `NoRelW.tablesInv`: `TablesInv` follows from `SInv` and `RInv`.
  * `FInv w` — the filter-side invariant: `CacheInv`, `RInv`, the agreement of the filter heap
    with the cache (`HeapOK`), the component index (`CIdxH`), the lock pool, the cache's ID pool.
    `FInv.quiet`, `FInv.foc`, `FInv.reg`, `FInv.shrink`, `FInv.reset`: kept by row-level steps, by
    `findOrCreateTableAdd`, by `registerComponent`, by `Shrink`, by `Reset` (which empties the
    cache and unregisters every filter object).
  * `exec_evolves` — every successful operation of `Refine.exec` (all eleven: `reg`, `new p`,
    `new0`, `add p`, `rem p`, `xchg p`, `set`, `del`, `copy`, `shrink`, `reset`) is at most one
    `findOrCreateTableAdd` / `registerComponent` followed by row-level steps, or `Shrink`, or
    `Reset` (`Evolves`).
  * `Op2`, `step2`, `reach2`, `HInv2`, `reach2_inv` — the history machine with `fdef` (a filter
    object is put into the heap), `freg`, `funreg` between the entity operations, and its
    inductive invariant.

  Kernel-only proofs, core Lean only.
-/
import Ark.Proofs.CacheHist
import Ark.Proofs.Lock

set_option autoImplicit false

namespace Ark

open World

/-! ## 1. row-level steps -/

/-- `w'` has the archetypes, cache, filter heap, component index, locks, registry and
    observers of `w` -/
structure Quiet (w w' : World) : Prop where
  archetypes : w'.archetypes = w.archetypes
  cache : w'.cache = w.cache
  filters : w'.filters = w.filters
  componentIndex : w'.componentIndex = w.componentIndex
  locks : w'.locks = w.locks
  kinds : w'.kinds = w.kinds
  obs : w'.obs = w.obs

namespace Quiet

theorem refl (w : World) : Quiet w w := ⟨rfl, rfl, rfl, rfl, rfl, rfl, rfl⟩

theorem trans {a b c : World} (h1 : Quiet a b) (h2 : Quiet b c) : Quiet a c :=
  ⟨h2.archetypes.trans h1.archetypes, h2.cache.trans h1.cache, h2.filters.trans h1.filters,
    h2.componentIndex.trans h1.componentIndex, h2.locks.trans h1.locks, h2.kinds.trans h1.kinds,
    h2.obs.trans h1.obs⟩

theorem placedW (w : World) (t : Nat) (rt : Bool) : Quiet w (placedW w t rt) := by
  refine ⟨?_, ?_, ?_, ?_, ?_, ?_, ?_⟩ <;>
  · simp only [World.placedW]
    split <;> rfl

theorem writeValsW (w : World) (e : Ent) (vals : List (Comp × Val)) :
    Quiet w (writeValsW w e vals) := ⟨rfl, rfl, rfl, rfl, rfl, rfl, rfl⟩

theorem addMove (w : World) (e : Ent) (oldT row newT : Nat) (keep : Mask) :
    Quiet w (addMove w e oldT row newT keep) := by
  refine ⟨?_, ?_, ?_, ?_, ?_, ?_, ?_⟩ <;>
  · simp only [World.addMove, moveRowW]
    split <;> rfl

theorem removeRowOf (w : World) (e : Ent) (t row : Nat) : Quiet w (removeRowOf w e t row) := by
  refine ⟨?_, ?_, ?_, ?_, ?_, ?_, ?_⟩ <;>
  · simp only [World.removeRowOf]
    split <;> rfl

end Quiet

/-! ## 2. the relation-free fragment seen from the storage -/

/-- structural invariant + no relation component registered -/
structure NoRelW (w : World) : Prop where
  sinv : SInv w
  kinds : ∀ (c : Comp), (w.kinds.getD c {}).isRel = false

theorem CInv.noRelW {w : World} {fl : List Nat} (h : CInv w fl) : NoRelW w :=
  ⟨h.sinv, h.noRelKinds⟩

namespace NoRelW

variable {w : World}

theorem arch (h : NoRelW w) {a : Nat} {A : Archetype} (hA : w.archetypes[a]? = some A) :
    A.hasRelations = false :=
  h.sinv.toSInvMid.hasRelations_false_of_kinds hA (fun c _ => h.kinds c)

/-- an active table has no relation -/
theorem tblNoRel (h : NoRelW w) {a : Nat} {A : Archetype} (hA : w.archetypes[a]? = some A)
    {t : Nat} (ht : t ∈ A.tables.tables) : (w.tbl t).hasRelations = false := by
  obtain ⟨T, hT, hTa⟩ := h.sinv.owned a A t hA (Or.inl ht)
  have hr : (w.arch T.arch).hasRelations = false := by
    rw [hTa, arch_of_get hA]; exact h.arch hA
  have := h.sinv.toSInvMid.relIDs_nil hT hr
  rw [tbl_of_get hT]
  simp [Table.hasRelations, this]

/-- in the fragment, selection does not look at the tables -/
theorem selected_iff (h : NoRelW w) (f : Filter) (rels : List RelID) (t : Nat) :
    Selected w f rels t ↔ ∃ (a : Nat) (A : Archetype), w.archetypes[a]? = some A ∧
      t ∈ A.tables.tables ∧ f.matchesMask A.mask = true := by
  constructor
  · rintro ⟨a, A, hA, h1, h2, _⟩; exact ⟨a, A, hA, h1, h2⟩
  · rintro ⟨a, A, hA, h1, h2⟩
    exact ⟨a, A, hA, h1, h2, Table.matchesRels_noRel _ (h.tblNoRel hA h1) rels⟩

/-- the walk cannot hit a nil dereference: there is no relation archetype -/
theorem relsOK (h : NoRelW w) (f : Filter) (rels : List RelID) : RelsOK w f rels := by
  intro a A hA _ hr
  rw [h.arch hA] at hr; cases hr

/-- **`TablesInv` at every state of the fragment** (from `SInv` and the relation-index
    invariant) -/
theorem tablesInv (h : NoRelW w) (hR : RInv w) : TablesInv w where
  index := hR
  arch := by
    intro a A hA t ht
    obtain ⟨T, hT, hTa⟩ := h.sinv.owned a A t hA (Or.inl ht)
    rw [tbl_of_get hT]; exact hTa
  ids := by
    intro a A hA t ht
    obtain ⟨T, hT, hTa⟩ := h.sinv.owned a A t hA (Or.inl ht)
    obtain ⟨A', hA', e1, _⟩ := h.sinv.tblArch t T hT
    rw [hTa, hA] at hA'
    rw [tbl_of_get hT, e1, ← Option.some.inj hA']
  hasRel := by
    intro a A hA t ht
    rw [h.tblNoRel hA ht, h.arch hA]
  single := fun a A hA hr => h.sinv.settled a A hA hr

end NoRelW

/-- the index invariant of an archetype without relation columns does not look at the targets -/
theorem Archetype.IndexInv.noRel_tgt {a : Archetype} {tgt tgt' : Nat → List Ent}
    (h : a.IndexInv tgt) (h0 : a.hasRelations = false) : a.IndexInv tgt' := by
  have hn : a.numRel = 0 := by simpa [Archetype.hasRelations] using h0
  exact
    { toStruct := h.toStruct
      toMapsInv := h.toMapsInv.congr
        (fun i hi => absurd hi (h.toStruct.no_rel hn i))
        (fun g t => by
          unfold Archetype.tgtP
          constructor
          · rintro ⟨_, i, hi, _⟩; exact absurd hi (h.toStruct.no_rel hn i)
          · rintro ⟨_, i, hi, _⟩; exact absurd hi (h.toStruct.no_rel hn i)) }

/-- in the fragment the relation-index invariant only reads the archetypes -/
theorem RInv.quiet {w w' : World} (hR : RInv w) (hn : NoRelW w)
    (ha : w'.archetypes = w.archetypes) : RInv w' := by
  intro a A hA
  rw [ha] at hA
  exact (hR a A hA).noRel_tgt (hn.arch hA)

/-! ## 3. the filter-side invariant -/

/-- **the filter heap agrees with the cache**: a filter object that believes to be registered
    under `id` has a cache entry `id` with its filter and relations; two registered filter
    objects have different IDs; the component list of a typed filter object names registered
    components, all of which are in the filter's mask. -/
structure HeapOK (w : World) : Prop where
  reg : ∀ (f : Nat) (fo : FilterObj) (id : Nat), AL.find? w.filters f = some fo →
    fo.cache = some id →
    ∃ (e : CacheEntry), e ∈ w.cache.filters ∧ e.id = id ∧ e.filter = fo.filter ∧ e.rels = fo.rels
  inj : ∀ (f g : Nat) (fo go : FilterObj) (id : Nat), AL.find? w.filters f = some fo →
    AL.find? w.filters g = some go → fo.cache = some id → go.cache = some id → f = g
  typed : ∀ (f : Nat) (fo : FilterObj), AL.find? w.filters f = some fo → fo.typed = true →
    ∀ (c : Comp), c ∈ fo.ids → c < w.kinds.length ∧ fo.filter.mask.get c = true

/-- the cache's ID pool never recycles (`unregister` does not return the ID): every registered
    ID is below the next fresh one -/
structure CachePoolOK (w : World) : Prop where
  avail : w.cache.pool.available = 0
  bound : ∀ (id i : Nat), AL.find? w.cache.indices id = some i → id < w.cache.pool.pool.length

/-- **the filter-side invariant** -/
structure FInv (w : World) : Prop where
  cache : CacheInv w
  rinv : RInv w
  heap : HeapOK w
  cidx : CIdxH w
  /-- the lock-bit pool is consistent and no bit is outstanding -/
  lock : ∃ (lf : List Nat), Lock.LInv ⟨w.locks, []⟩ lf
  pool : CachePoolOK w

theorem finv_init (cap rel : Nat) : FInv (World.init cap rel) where
  cache := cacheInv_init cap rel 256
  rinv := RInv.init cap rel 256
  heap := by
    refine ⟨?_, ?_, ?_⟩
    · intro f fo id h; cases h
    · intro f g fo go id h; cases h
    · intro f fo h; cases h
  cidx := cidx_init cap rel
  lock := ⟨[], Lock.linv_init⟩
  pool := ⟨rfl, fun id i h => by cases h⟩

/-- a registered entry is found under its ID -/
theorem World.CacheInv.lookup_of_mem {w : World} (h : CacheInv w) {e : CacheEntry}
    (he : e ∈ w.cache.filters) : w.cacheEntry? e.id = some e := by
  obtain ⟨i, hi⟩ := List.getElem?_of_mem he
  have := (h.index e.id i).2 ⟨e, hi, rfl⟩
  simp only [cacheEntry?, this, hi]

/-- **row-level steps keep the filter-side invariant** -/
theorem FInv.quiet {w w' : World} (h : FInv w) (hn : NoRelW w) (hn' : NoRelW w')
    (q : Quiet w w') : FInv w' where
  cache := by
    refine ⟨by rw [q.cache]; exact h.cache.uniq, by rw [q.cache]; exact h.cache.index, ?_⟩
    intro e he
    rw [q.cache] at he
    refine ⟨(h.cache.entries e he).1, fun t => ?_⟩
    rw [(h.cache.entries e he).2 t, hn.selected_iff, hn'.selected_iff, q.archetypes]
  rinv := h.rinv.quiet hn q.archetypes
  heap := by
    refine ⟨?_, ?_, ?_⟩
    · rw [q.filters, q.cache]; exact h.heap.reg
    · rw [q.filters]; exact h.heap.inj
    · rw [q.filters, q.kinds]; exact h.heap.typed
  cidx := h.cidx.congr q.kinds q.componentIndex (by rw [q.archetypes])
    (fun a _ => by simp only [arch, q.archetypes])
  lock := by rw [q.locks]; exact h.lock
  pool := ⟨by rw [q.cache]; exact h.pool.avail, by rw [q.cache]; exact h.pool.bound⟩

/-! ## 4. `findOrCreateTableAdd` and `registerComponent` keep the filter-side invariant -/

namespace World

theorem createTableS_cache (w : World) (a : Nat) (rels : List RelID) :
    (createTableS w a rels).1.cache = w.cache := by
  unfold createTableS
  split <;> rfl

/-- `createTable` keeps the ID map and the ID pool of the cache, and every entry keeps its ID,
    filter and relations -/
theorem createTable_entries {a : Nat} {rels : List RelID} {w w' : World} {t : Nat}
    (h : createTable a rels w = .ok t w') :
    w'.cache.indices = w.cache.indices ∧ w'.cache.pool = w.cache.pool ∧
    ∀ (e : CacheEntry), e ∈ w.cache.filters →
      ∃ (e' : CacheEntry), e' ∈ w'.cache.filters ∧ e'.id = e.id ∧ e'.filter = e.filter ∧
        e'.rels = e.rels := by
  obtain ⟨_, _, _, _, h5⟩ := createTable_ok h
  obtain ⟨_, _, f3, f4⟩ := cacheAddTable_heap h5
  have hS := createTableS_cache w a rels
  have heq := cacheAddTable_eq h5
  have hF : w'.cache.filters = w.cache.filters.map
      (addTableEntry ((createTableS w a rels).1.arch ((createTableS w a rels).1.tbl t).arch).mask
        ((createTableS w a rels).1.tbl t)) := by
    rw [heq, ← hS]
  refine ⟨by rw [f3, hS], by rw [f4, hS], fun e he => ?_⟩
  rw [hF]
  exact ⟨_, List.mem_map_of_mem he, addTableEntry_id _ _ e, addTableEntry_filter _ _ e,
    addTableEntry_rels _ _ e⟩

end World

/-- what the entity operations need to know about a successful `findOrCreateTableAdd` -/
structure FocStep (w w' : World) : Prop where
  shape : ∃ (w1 : World), FocShape w w1 w'
  sinv : SInv w'
  rinv : RInv w'
  kinds : w'.kinds = w.kinds
  untouched : Untouched w w'

theorem SInv.focStep {w w' : World} (h : SInv w) (hR : RInv w) {oldT : Nat} {startMask : Mask}
    {add : List Comp} {rels : List RelID} {r : Nat × Nat × Mask}
    (hstart : ∀ (c : Nat), startMask.get c = true → c < w.kinds.length)
    (hreg : ∀ (c : Comp), c ∈ add → c < w.kinds.length)
    (hok : World.findOrCreateTableAdd oldT startMask add rels w = .ok r w') : FocStep w w' := by
  have hs := h.foc_shape hstart hreg hok
  have hu := findOrCreateTableAdd_untouched hok
  obtain ⟨t, a, mask⟩ := r
  obtain ⟨_, fc, hR'⟩ := h.findOrCreateTableAdd_of_ok_rinv hR hstart hreg hok
  exact ⟨hs, fc.sinv, hR', fc.kinds, hu⟩

namespace FocShape

variable {w w1 w' : World}

theorem entries (s : FocShape w w1 w') :
    w'.cache.indices = w.cache.indices ∧ w'.cache.pool = w.cache.pool ∧
    ∀ (e : CacheEntry), e ∈ w.cache.filters →
      ∃ (e' : CacheEntry), e' ∈ w'.cache.filters ∧ e'.id = e.id ∧ e'.filter = e.filter ∧
        e'.rels = e.rels := by
  have h1 : w1.cache = w.cache := by
    rcases s.arch with rfl | ⟨mask, _, _, rfl⟩
    · rfl
    · exact createArchetypeW_proj (·.cache) (fun _ _ _ => rfl) (fun _ _ => rfl) w mask
  rcases s.tab with rfl | ⟨a, rels, t, _, _, hct⟩
  · rw [h1]; exact ⟨rfl, rfl, fun e he => ⟨e, he, rfl, rfl, rfl⟩⟩
  · obtain ⟨g1, g2, g3⟩ := createTable_entries hct
    rw [h1] at g1 g2 g3
    exact ⟨g1, g2, g3⟩

end FocShape

/-- **`findOrCreateTableAdd` keeps the filter-side invariant** -/
theorem FInv.foc {w w' : World} (h : FInv w) (st : FocStep w w') : FInv w' := by
  obtain ⟨w1, s⟩ := st.shape
  obtain ⟨e1, e2, e3⟩ := s.entries
  exact
    { cache := s.cacheInv h.cache
      rinv := st.rinv
      heap := by
        refine ⟨?_, ?_, ?_⟩
        · intro f fo id hf hc
          rw [s.filters] at hf
          obtain ⟨e, he, h1, h2, h3⟩ := h.heap.reg f fo id hf hc
          obtain ⟨e', he', g1, g2, g3⟩ := e3 e he
          exact ⟨e', he', g1.trans h1, g2.trans h2, g3.trans h3⟩
        · rw [s.filters]; exact h.heap.inj
        · rw [s.filters, st.kinds]; exact h.heap.typed
      cidx := s.cidx h.cidx
      lock := by rw [st.untouched.locks]; exact h.lock
      pool := ⟨by rw [e2]; exact h.pool.avail, by rw [e1, e2]; exact h.pool.bound⟩ }

/-- **`registerComponent` keeps the filter-side invariant** -/
theorem FInv.reg {w w' : World} (h : FInv w) (hS : SInvMid w) {k : CompKind} {n : Nat}
    (hr : World.registerComponent k w = .ok n w') : FInv w' := by
  have hci := h.cidx.registerComponent hS hr
  have e := registerComponent_ok_eq hr
  subst e
  exact
    { cache := ⟨h.cache.uniq, h.cache.index, fun e he => ⟨(h.cache.entries e he).1, fun t =>
        ((h.cache.entries e he).2 t).trans (Selected_congr rfl rfl _ _ _).symm⟩⟩
      rinv := h.rinv.congr rfl rfl
      heap := by
        refine ⟨h.heap.reg, h.heap.inj, ?_⟩
        intro f fo hf ht c hc
        obtain ⟨h1, h2⟩ := h.heap.typed f fo hf ht c hc
        refine ⟨?_, h2⟩
        show c < (w.kinds ++ [k]).length
        rw [List.length_append]
        exact Nat.lt_add_right _ h1
      cidx := hci
      lock := h.lock
      pool := ⟨h.pool.avail, h.pool.bound⟩ }

/-! ## 4b. `Shrink` and `Reset` keep the filter-side invariant -/

/-- **`Shrink` keeps the filter-side invariant** (stated with what `ShrinkInv` proves about the
    world after `Shrink`; relations allowed) -/
theorem FInv.shrink {w w' : World} (h : FInv w) (r : ShrinkRel w w') (hr : RInv w')
    (hc : CacheInv w → CacheInv w') : FInv w' where
  cache := hc h.cache
  rinv := hr
  heap := by
    refine ⟨?_, ?_, ?_⟩
    · intro f fo id hf hcid
      rw [r.frame.filters] at hf
      obtain ⟨e, he, h1, h2, h3⟩ := h.heap.reg f fo id hf hcid
      have hk : (e.id, e.filter, e.rels) ∈ w'.cacheKeys := by
        rw [r.cacheKeys]; exact List.mem_map.mpr ⟨e, he, rfl⟩
      obtain ⟨e', he', heq⟩ := List.mem_map.mp hk
      injection heq with g1 g23
      injection g23 with g2 g3
      exact ⟨e', he', g1.trans h1, g2.trans h2, g3.trans h3⟩
    · rw [r.frame.filters]; exact h.heap.inj
    · rw [r.frame.filters, r.frame.kinds]; exact h.heap.typed
  cidx := h.cidx.congr r.frame.kinds r.frame.componentIndex r.alen (fun a _ => (r.arch a).mask)
  lock := by rw [r.frame.locks]; exact h.lock
  pool := ⟨by rw [r.cachePool]; exact h.pool.avail, by rw [r.cacheIdx, r.cachePool]; exact h.pool.bound⟩

namespace World

theorem cacheReset_componentIndex (w : World) : w.cacheReset.componentIndex = w.componentIndex := by
  unfold cacheReset; split <;> rfl

theorem resetW_componentIndex (w : World) : (resetW w).componentIndex = w.componentIndex :=
  (resetW_proj (·.componentIndex) (fun _ _ _ => rfl) (fun _ _ _ => rfl) (fun _ _ => rfl) w).trans
    (cacheReset_componentIndex _)

/-- what `cache.Reset` does to the filter heap when it agrees with the cache: every filter
    object is unregistered; nothing else about it changes -/
theorem cacheReset_heap {w : World} (hC : CacheInv w) (hH : HeapOK w) (f : Nat) (fo' : FilterObj)
    (hf : AL.find? w.cacheReset.filters f = some fo') :
    fo'.cache = none ∧ ∃ (fo : FilterObj), AL.find? w.filters f = some fo ∧
      fo'.typed = fo.typed ∧ fo'.ids = fo.ids ∧ fo'.filter = fo.filter := by
  unfold cacheReset at hf
  by_cases h0 : w.cache.indices.isEmpty = true
  · rw [if_pos h0] at hf
    refine ⟨?_, fo', hf, rfl, rfl, rfl⟩
    cases hc : fo'.cache with
    | none => rfl
    | some id =>
      obtain ⟨e, he, _⟩ := hH.reg f fo' id hf hc
      rw [hC.filters_nil_of_indices_nil (List.isEmpty_iff.1 h0)] at he
      cases he
  · rw [if_neg h0] at hf
    replace hf : AL.find? (AL.mapVals w.filters fun fo =>
        match fo.cache with
        | some id => if (w.cache.filters.map (·.id)).contains id then { fo with cache := none }
            else fo
        | none => fo) f = some fo' := hf
    rw [AL.find?_mapVals] at hf
    cases hfo : AL.find? w.filters f with
    | none => rw [hfo] at hf; cases hf
    | some fo =>
      rw [hfo] at hf
      simp only [Option.map_some, Option.some.injEq] at hf
      subst hf
      have hcache : ∀ (id : Nat), fo.cache = some id →
          (w.cache.filters.map (·.id)).contains id = true := by
        intro id hc
        obtain ⟨e, he, hid, _, _⟩ := hH.reg f fo id hfo hc
        rw [List.contains_iff_mem]; exact List.mem_map.2 ⟨e, he, hid⟩
      refine ⟨?_, fo, rfl, ?_, ?_, ?_⟩
      · cases hc : fo.cache with
        | none => simp only []; exact hc
        | some id => simp only [hcache id hc, if_true]
      · cases hc : fo.cache with
        | none => simp only []
        | some id => simp only []; split <;> rfl
      · cases hc : fo.cache with
        | none => simp only []
        | some id => simp only []; split <;> rfl
      · cases hc : fo.cache with
        | none => simp only []
        | some id => simp only []; split <;> rfl

end World

/-- **`Reset` keeps the filter-side invariant**: the cache is empty, every filter object is
    unregistered, the lock pool and the cache's ID pool start afresh -/
theorem FInv.reset {w : World} (h : FInv w) (hn : NoRelW w) : FInv (resetW w) where
  cache := cacheInv_of_empty (by rw [resetW_cache]; exact (cacheReset_empty h.cache).1)
    (by rw [resetW_cache]; exact (cacheReset_empty h.cache).2)
  rinv := RInv.resetW hn.sinv h.rinv
  heap := by
    refine ⟨?_, ?_, ?_⟩
    · intro f fo id hf hcid
      rw [resetW_filters] at hf
      rw [(cacheReset_heap h.cache h.heap f fo hf).1] at hcid; cases hcid
    · intro f g fo go id hf _ hcid _
      rw [resetW_filters] at hf
      rw [(cacheReset_heap h.cache h.heap f fo hf).1] at hcid; cases hcid
    · intro f fo hf ht c hcm
      rw [resetW_filters] at hf
      obtain ⟨_, fo0, hf0, e1, e2, e3⟩ := cacheReset_heap h.cache h.heap f fo hf
      rw [resetW_kinds, e3]
      exact h.heap.typed f fo0 hf0 (by rw [← e1]; exact ht) c (by rw [← e2]; exact hcm)
  cidx := by
    refine h.cidx.congr (resetW_kinds w) (resetW_componentIndex w)
      (by rw [resetW_archetypes hn.sinv, List.length_map]) (fun a ha => ?_)
    rw [resetW_arch hn.sinv a, resetArchOf_nonRel (hn.arch (aget_of_lt ha))]
  lock := by
    obtain ⟨lf, g⟩ := h.lock
    rw [resetW_locks]
    exact ⟨[], Lock.reset_inv ⟨w.locks, []⟩ lf g⟩
  pool := by
    have hcache := resetW_cache w
    by_cases h0 : w.cache.indices.isEmpty = true
    · have e : w.cacheReset = w := by unfold cacheReset; rw [if_pos h0]
      rw [e] at hcache
      exact ⟨by rw [hcache]; exact h.pool.avail, by rw [hcache]; exact h.pool.bound⟩
    · have e : w.cacheReset.cache =
          { indices := [], filters := [], pool := w.cache.pool.reset } := by
        unfold cacheReset; rw [if_neg h0]
      rw [e] at hcache
      exact ⟨by rw [hcache]; rfl, fun id i hf => by rw [hcache] at hf; cases hf⟩

/-! ## 5. what a successful entity operation does to the cache-relevant part of the world -/

/-- what one successful entity operation does to the cache-relevant part of the world before
    it touches rows -/
inductive Grow (w : World) : World → Prop
  | same : Grow w w
  | foc {w' : World} (st : FocStep w w') : Grow w w'
  | reg {k : CompKind} {n : Nat} {w' : World} (hk : k.isRel = false)
      (hr : World.registerComponent k w = .ok n w') : Grow w w'

/-- **the shapes of a successful operation**: one growth step followed by row-level steps;
    `Shrink` (tables, archetypes and cache change as `ShrinkRel` allows); `Reset`. -/
inductive Evolves (w : World) : World → Prop
  | rows {w1 w' : World} (g : Grow w w1) (q : Quiet w1 w') : Evolves w w'
  | shrink {w' : World} (r : ShrinkRel w w') (hs : SInv w') (hr : RInv w')
      (hc : CacheInv w → CacheInv w') : Evolves w w'
  | reset : Evolves w (resetW w)

namespace World

theorem opNewEntity_foc_panic (run : ProbeRunner) (p : Path) (ids : List Comp)
    (vals : List (Comp × Val)) (w : World) (hl : w.isLocked = false) {k : PanicKind} {w1 : World}
    (hfoc : findOrCreateTableAdd 0 Mask.empty ids [] w = .panic k w1) :
    opNewEntity run p ids vals [] w = .panic k w1 := by
  cases p <;>
  simp [opNewEntity, newEntityCore, preCheck, preCheckMap, preCheckTyped, M.forM', bind, M.bind,
    checkLocked_unlocked w hl, hfoc, pure, M.pure]

theorem addCore_foc_panic (e : Ent) (add : List Comp) (w : World) (hl : w.isLocked = false)
    (ha : w.alive e = true) (hne : add ≠ []) {oldT row : Nat} (hix : w.index e.id = (oldT, row))
    {k : PanicKind} {w1 : World}
    (hfoc : findOrCreateTableAdd oldT (w.arch (w.tbl oldT).arch).mask add [] w = .panic k w1) :
    addCore e add [] w = .panic k w1 := by
  have hemp : add.isEmpty = false := by
    cases add with
    | nil => exact absurd rfl hne
    | cons _ _ => rfl
  simp only [addCore, bind, M.bind, checkLocked_unlocked w hl, M.get, M.assert, ha, if_true, hemp,
    Bool.not_false, hix, hfoc]

theorem removeCore_foc_panic (run : ProbeRunner) (e : Ent) (rem : List Comp) (w : World)
    (hl : w.isLocked = false) (ha : w.alive e = true) (hne : rem ≠ []) {oldT row : Nat}
    (hix : w.index e.id = (oldT, row)) {k : PanicKind} {w1 : World}
    (hfoc : findOrCreateTableRemove oldT (w.arch (w.tbl oldT).arch).mask rem w = .panic k w1) :
    removeCore run e rem w = .panic k w1 := by
  have hemp : rem.isEmpty = false := by
    cases rem with
    | nil => exact absurd rfl hne
    | cons _ _ => rfl
  simp only [removeCore, bind, M.bind, checkLocked_unlocked w hl, M.get, M.assert, ha, if_true, hemp,
    Bool.not_false, hix, hfoc]

theorem exchangeCore_foc_panic (run : ProbeRunner) (e : Ent) (add rem : List Comp) (w : World)
    (hl : w.isLocked = false) (ha : w.alive e = true) (hne : ¬ (add = [] ∧ rem = []))
    {oldT row : Nat} (hix : w.index e.id = (oldT, row)) {k : PanicKind} {w1 : World}
    (hfoc : findOrCreateTable oldT (w.arch (w.tbl oldT).arch).mask add rem [] w = .panic k w1) :
    exchangeCore run e add rem [] w = .panic k w1 := by
  have hemp : (add.isEmpty && rem.isEmpty) = false := by
    cases add with
    | nil =>
      cases rem with
      | nil => exact absurd ⟨rfl, rfl⟩ hne
      | cons _ _ => rfl
    | cons _ _ => rfl
  simp only [exchangeCore, bind, M.bind, checkLocked_unlocked w hl, M.get, M.assert, ha, if_true,
    hemp, Bool.not_false, hix, hfoc]

theorem copiedW_quiet (w : World) (t row idx : Nat) : Quiet w (copiedW w t row idx) :=
  ⟨rfl, rfl, rfl, rfl, rfl, rfl, rfl⟩

end World

open Refine in
/-- **Every successful entity operation** of the machine of `Ark.Proofs.Refine` (all eleven) is:
    nothing, one `findOrCreateTableAdd`, or one `registerComponent` — followed by steps that
    touch neither archetypes, cache, filter heap, component index, locks, registry nor
    observers; or it is `Shrink`; or it is `Reset`. -/
theorem exec_evolves (run : ProbeRunner) {s : Refine.St} {fl : List Nat} (H : Refine.HInv s fl)
    (hR : RInv s.w) (hent : s.w.entities.length + 1 < 2 ^ 32) {op : Refine.Op}
    (hg : Refine.guard s op = true) {r : Option Ent} {w' : World}
    (hex : Refine.exec run s.w op = .ok r w') : Evolves s.w w' := by
  have hl := H.unlocked
  have hc := H.cinv
  -- facts about a live issued handle
  have live : ∀ (e : Ent), e ∈ s.issued → s.w.alive e = true →
      ∃ (oldT row : Nat), s.w.index e.id = (oldT, row) ∧ oldT < s.w.tables.length ∧
        (s.w.tbl oldT).arch < s.w.archetypes.length := by
    intro e hi ha
    obtain ⟨cs, _, hm⟩ := H.find_of_alive hi ha
    obtain ⟨_, _, h2, hnf, _, hsl⟩ := H.live_facts hm
    obtain ⟨oldT, row, hentry, htm, _⟩ :=
      hc.live_entry h2 hnf ha (List.getElem?_eq_some_iff.mp hsl).1
    obtain ⟨hTlt, _, _, halt, _, _⟩ := hc.table_of_entry hentry htm
    exact ⟨oldT, row, index_of_get hentry, hTlt, halt⟩
  cases op with
  | reg size z =>
    cases hr : World.registerComponent { isRel := false, zst := z, size := size } s.w with
    | panic k w1 => simp only [exec, hr] at hex; cases hex
    | ok n w1 =>
      simp only [exec, hr] at hex
      injection hex with _ h2
      subst h2
      exact .rows (.reg rfl hr) (Quiet.refl _)
  | new p ids vals =>
    have hreg : ∀ c ∈ ids, c < s.ss.zst.length := by
      simpa only [Refine.guard, List.all_eq_true, decide_eq_true_eq] using hg
    have hreg' : ∀ (c : Comp), c ∈ ids → c < s.w.kinds.length := by rw [← H.zlen]; exact hreg
    cases hfoc : findOrCreateTableAdd 0 Mask.empty ids [] s.w with
    | panic k w1 =>
      simp only [exec, opNewEntity_foc_panic run p ids vals s.w hl hfoc] at hex; cases hex
    | ok r1 w1 =>
      obtain ⟨t, a, m⟩ := r1
      have st := hc.sinv.focStep hR (startMask := Mask.empty)
        (fun c hcc => by simp [Mask.empty, Mask.get] at hcc) hreg' hfoc
      have heq := opNewEntity_eq run p ids vals s.w hl hfoc
        (by rw [st.untouched.obs]; exact hc.noObs)
      simp only [exec, heq] at hex
      injection hex with _ h2
      subst h2
      exact .rows (.foc st) ((Quiet.placedW w1 t false).trans (Quiet.writeValsW _ _ _))
  | new0 =>
    simp only [exec, opNewEntity0_eq run s.w hl (hc.noObs _)] at hex
    injection hex with _ h2
    subst h2
    exact .rows .same (Quiet.placedW _ _ _)
  | add p e ids vals =>
    have hg' : e ∈ s.issued ∧ ∀ c ∈ ids, c < s.ss.zst.length := by
      simpa only [Refine.guard, Bool.and_eq_true, List.all_eq_true, decide_eq_true_eq] using hg
    obtain ⟨hi, hreg⟩ := hg'
    have hreg' : ∀ (c : Comp), c ∈ ids → c < s.w.kinds.length := by rw [← H.zlen]; exact hreg
    cases ha : s.w.alive e with
    | false =>
      simp only [exec, opAdd_dead_any run p e ids vals s.w hl ha] at hex; cases hex
    | true =>
      obtain ⟨oldT, row, hix, _, halt⟩ := live e hi ha
      cases hcore : addCore e ids [] s.w with
      | panic k w1 =>
        simp only [exec, opAdd_panic run p e ids vals s.w ha hcore] at hex; cases hex
      | ok r1 w2 =>
        obtain ⟨old, new⟩ := r1
        by_cases hne : ids = []
        · subst hne
          rw [addCore_noComponents s.w hl e ha []] at hcore; cases hcore
        · cases hfoc : findOrCreateTableAdd oldT (s.w.arch (s.w.tbl oldT).arch).mask ids [] s.w with
          | panic k w1 =>
            rw [addCore_foc_panic e ids s.w hl ha hne hix hfoc] at hcore; cases hcore
          | ok r2 w1 =>
            obtain ⟨t, a, m⟩ := r2
            have st := hc.sinv.focStep hR
              (fun c hcc => hc.sinv.maskReg _ _ (aget_of_lt halt) c hcc) hreg' hfoc
            have hcore' := hcore
            rw [addCore_eq e ids s.w hl ha hne hix hfoc] at hcore
            injection hcore with _ h2
            have hq : Quiet w1 w2 := by rw [← h2]; exact Quiet.addMove w1 e oldT row t m
            have heq := opAdd_eq run p e ids vals s.w ha hcore'
              (by rw [hq.obs, st.untouched.obs]; exact hc.noObs)
            simp only [exec, heq] at hex
            injection hex with _ h3
            subst h3
            exact .rows (.foc st) (hq.trans (Quiet.writeValsW _ _ _))
  | rem p e ids =>
    have hi : e ∈ s.issued := by simpa only [Refine.guard, decide_eq_true_eq] using hg
    cases ha : s.w.alive e with
    | false =>
      simp only [exec, opRemove_dead_any run p e ids s.w hl ha] at hex; cases hex
    | true =>
      obtain ⟨oldT, row, hix, hTlt, halt⟩ := live e hi ha
      simp only [exec, opRemove_eq run p e ids s.w ha] at hex
      by_cases hne : ids = []
      · subst hne
        rw [removeCore_noComponents run s.w hl e ha] at hex; cases hex
      · cases hfoc : findOrCreateTableRemove oldT (s.w.arch (s.w.tbl oldT).arch).mask ids s.w with
        | panic k w1 =>
          rw [removeCore_foc_panic run e ids s.w hl ha hne hix hfoc] at hex; cases hex
        | ok r2 w1 =>
          obtain ⟨t, a, m, rr⟩ := r2
          by_cases hgood : ids.Nodup ∧
              ∀ (c : Comp), c ∈ ids → (s.w.arch (s.w.tbl oldT).arch).mask.get c = true
          · have hgr := graphFindRemove_ok _ ids s.w hgood.2 hgood.1
            have hrel0 : (s.w.tbl oldT).relIDs = [] := hc.relIDs_nil hTlt
            rw [findOrCreateTableRemove_eq_add oldT _ _ ids s.w hgr hrel0] at hfoc
            cases hadd : findOrCreateTableAdd oldT
                (ids.foldl Mask.clear (s.w.arch (s.w.tbl oldT).arch).mask) [] [] s.w with
            | panic k w3 => rw [hadd] at hfoc; cases hfoc
            | ok r3 w3 =>
              rw [hadd] at hfoc
              injection hfoc with _ h3
              subst h3
              have st := hc.sinv.focStep hR (startMask := ids.foldl Mask.clear _) (add := [])
                (fun c hcc => by
                  rw [Mask.get_foldl_clear, Bool.and_eq_true] at hcc
                  exact hc.sinv.maskReg _ _ (aget_of_lt halt) c hcc.1)
                (fun c hcc => by cases hcc) hadd
              have hfoc' : findOrCreateTableRemove oldT (s.w.arch (s.w.tbl oldT).arch).mask ids s.w =
                  .ok (r3.1, r3.2.1, r3.2.2, false) w3 := by
                rw [findOrCreateTableRemove_eq_add oldT _ _ ids s.w hgr hrel0, hadd]
              rw [removeCore_eq run e ids s.w hl ha hne hix hfoc'
                (by rw [st.untouched.obs]; exact hc.noObs)] at hex
              injection hex with _ h4
              subst h4
              exact .rows (.foc st) (Quiet.addMove _ _ _ _ _ _)
          · rw [findOrCreateTableRemove_reject oldT _ ids s.w hgood] at hfoc; cases hfoc
  | xchg p e add rem vals =>
    have hg' : e ∈ s.issued ∧ ∀ c ∈ add, c < s.ss.zst.length := by
      simpa only [Refine.guard, Bool.and_eq_true, List.all_eq_true, decide_eq_true_eq] using hg
    obtain ⟨hi, hreg⟩ := hg'
    have hreg' : ∀ (c : Comp), c ∈ add → c < s.w.kinds.length := by rw [← H.zlen]; exact hreg
    have hb256 : ∀ (c : Comp), c ∈ add → c < 256 := fun c hcc => hc.reg_lt_256 (hreg' c hcc)
    cases ha : s.w.alive e with
    | false =>
      simp only [exec, opExchange_dead_any run p e add vals rem s.w hl ha] at hex; cases hex
    | true =>
      obtain ⟨oldT, row, hix, hTlt, halt⟩ := live e hi ha
      cases hcore : exchangeCore run e add rem [] s.w with
      | panic k w1 =>
        simp only [exec, opExchange_panic run p e add vals rem s.w ha hcore] at hex; cases hex
      | ok r1 w2 =>
        obtain ⟨old, new⟩ := r1
        by_cases hne : add = [] ∧ rem = []
        · obtain ⟨h1, h2⟩ := hne
          subst h1; subst h2
          rw [exchangeCore_noComponents run s.w hl e ha []] at hcore; cases hcore
        · cases hfoc : findOrCreateTable oldT (s.w.arch (s.w.tbl oldT).arch).mask add rem [] s.w with
          | panic k w1 =>
            rw [exchangeCore_foc_panic run e add rem s.w hl ha hne hix hfoc] at hcore; cases hcore
          | ok r2 w1 =>
            obtain ⟨t, a, m, rr⟩ := r2
            by_cases hgood : rem.Nodup ∧
                (∀ (c : Comp), c ∈ rem → (s.w.arch (s.w.tbl oldT).arch).mask.get c = true) ∧
                add.Nodup ∧
                ∀ (c : Comp), c ∈ add → (s.w.arch (s.w.tbl oldT).arch).mask.get c = false
            · have hgr := graphFind_ok _ add rem s.w hb256 hgood.1 hgood.2.1 hgood.2.2.1
                hgood.2.2.2
              have hrel0 : (s.w.tbl oldT).relIDs = [] := hc.relIDs_nil hTlt
              rw [findOrCreateTable_eq_add oldT _ _ add rem s.w hgr hrel0] at hfoc
              cases hadd : findOrCreateTableAdd oldT
                  (add.foldl Mask.set (rem.foldl Mask.clear (s.w.arch (s.w.tbl oldT).arch).mask))
                  [] [] s.w with
              | panic k w3 => rw [hadd] at hfoc; cases hfoc
              | ok r3 w3 =>
                rw [hadd] at hfoc
                injection hfoc with _ h3
                subst h3
                have hstart : ∀ (c : Nat),
                    (rem.foldl Mask.clear (s.w.arch (s.w.tbl oldT).arch).mask).get c = true →
                    c < s.w.kinds.length := by
                  intro c hcc
                  rw [Mask.get_foldl_clear, Bool.and_eq_true] at hcc
                  exact hc.sinv.maskReg _ _ (aget_of_lt halt) c hcc.1
                have st := hc.sinv.focStep hR (add := [])
                  (Mask.get_foldl_set_reg hstart hreg') (fun c hcc => by cases hcc) hadd
                have hfoc' : findOrCreateTable oldT (s.w.arch (s.w.tbl oldT).arch).mask add rem []
                    s.w = .ok (r3.1, r3.2.1, r3.2.2, false) w3 := by
                  rw [findOrCreateTable_eq_add oldT _ _ add rem s.w hgr hrel0, hadd]
                have hcore' := hcore
                rw [exchangeCore_eq run e add rem s.w hl ha hne hix hfoc'
                  (by rw [st.untouched.obs]; exact hc.noObs)] at hcore
                injection hcore with _ h2
                have hq : Quiet w3 w2 := by rw [← h2]; exact Quiet.addMove _ _ _ _ _ _
                have heq := opExchange_eq run p e add vals rem s.w ha hcore'
                  (by rw [hq.obs, st.untouched.obs]; exact hc.noObs)
                simp only [exec, heq] at hex
                injection hex with _ h4
                subst h4
                exact .rows (.foc st) (hq.trans (Quiet.writeValsW _ _ _))
            · obtain ⟨k, _, hbad⟩ := graphFind_bad _ add rem s.w hb256 hgood
              simp only [findOrCreateTable, bind, M.bind, hbad] at hfoc
              cases hfoc
  | set e vals =>
    cases ha : s.w.alive e with
    | false =>
      simp only [exec, World.opSet_dead run s.w e ha (keys vals) vals] at hex; cases hex
    | true =>
      cases hhas : ((keys vals).all fun c => (s.w.tbl (s.w.index e.id).1).has c) with
      | false =>
        simp only [exec, opSet_missing run s.w e (keys vals) vals ha hhas] at hex; cases hex
      | true =>
        simp only [exec, opSet_eq run s.w e (keys vals) vals ha hhas (hc.noObs _)] at hex
        injection hex with _ h2
        subst h2
        exact .rows .same (Quiet.writeValsW _ _ _)
  | del e =>
    have hi : e ∈ s.issued := by simpa only [Refine.guard, decide_eq_true_eq] using hg
    cases ha : s.w.alive e with
    | false =>
      simp only [exec, opRemoveEntity_dead run s.w hl e ha] at hex; cases hex
    | true =>
      obtain ⟨t, row, hix, _, _⟩ := live e hi ha
      simp only [exec, opRemoveEntity_eq run s.w e hl ha hix hc.noObs (hc.noTargets _)] at hex
      injection hex with _ h3
      subst h3
      exact .rows .same (Quiet.removeRowOf _ _ _ _)
  | copy e =>
    have hi : e ∈ s.issued := by simpa only [Refine.guard, decide_eq_true_eq] using hg
    cases ha : s.w.alive e with
    | false =>
      simp only [exec, opCopyEntity_dead run s.w hl e ha] at hex; cases hex
    | true =>
      obtain ⟨t, row, hix, _, _⟩ := live e hi ha
      simp only [exec, opCopyEntity_eq run s.w e hl ha hix hc.noObs] at hex
      injection hex with _ h3
      subst h3
      exact .rows .same ((Quiet.placedW _ _ _).trans (copiedW_quiet _ _ _ _))
  | shrink bounded =>
    simp only [exec, opShrink_eq bounded s.w hl] at hex
    injection hex with _ h3
    subst h3
    have hb : RowsBounded s.w := fun t => by have := H.hrows hent t; omega
    obtain ⟨_, hrel⟩ := shrinkPure_rel hc.idx hb bounded
    obtain ⟨hs, hr'⟩ := shrinkPure_sinv hc.sinv hR bounded
    refine .shrink hrel hs hr' (fun hcc => ?_)
    exact (shrinkPure_induct (fun w' => SInv w' ∧ RInv w' ∧ CacheInv w')
      (fun _ t ⟨a, b, c⟩ => shrinkStep_struct a b c t) bounded s.w ⟨hc.sinv, hR, hcc⟩).2.2
  | reset =>
    simp only [exec, opReset_eq s.w hl] at hex
    injection hex with _ h3
    subst h3
    exact .reset

/-! ## 6. a world that differs only in cache and filter heap -/

open Ark.Props.C01World in
/-- the invariant of the entity machine reads neither the cache nor the filter heap -/
theorem Refine.HInv.setCF {s : Refine.St} {fl : List Nat} (H : Refine.HInv s fl) (c : Cache)
    (f : AL FilterObj) :
    Refine.HInv ⟨{ s.w with cache := c, filters := f }, s.issued, s.ss⟩ fl where
  cinv :=
    { idx := H.cinv.idx.congr rfl rfl
      sinv := H.cinv.sinv.congr rfl rfl rfl
      pool := H.cinv.pool
      stale := H.cinv.stale
      lenEq := H.cinv.lenEq
      tgtLen := H.cinv.tgtLen
      freeUnindexed := H.cinv.freeUnindexed
      reservedUnindexed := H.cinv.reservedUnindexed
      liveIndexed := H.cinv.liveIndexed
      fewTables := H.cinv.fewTables
      noRelKinds := H.cinv.noRelKinds
      kindsLe := H.cinv.kindsLe
      noTargets := H.cinv.noTargets
      noObs := H.cinv.noObs }
  ginv := H.ginv
  unlocked := H.unlocked
  nodup := H.nodup
  zstEq := H.zstEq
  maxc := H.maxc
  ok := fun e cs hm =>
    (H.ok e cs hm).frame ⟨fun c => valOf_congr rfl rfl _ c, compsOf_congr rfl rfl _⟩

/-- `w'` is `w` with another cache and filter heap -/
def SameButCF (w w' : World) : Prop := w' = { w with cache := w'.cache, filters := w'.filters }

theorem SameButCF.refl (w : World) : SameButCF w w := rfl

theorem Refine.HInv.sameButCF {s : Refine.St} {fl : List Nat} (H : Refine.HInv s fl) {w' : World}
    (h : SameButCF s.w w') : Refine.HInv ⟨w', s.issued, s.ss⟩ fl := by
  rw [h]; exact H.setCF _ _

/-- the filter-side invariant under a change of the filter heap alone -/
theorem FInv.setFilters {w : World} (h : FInv w) (F : AL FilterObj)
    (hheap : HeapOK { w with filters := F }) : FInv { w with filters := F } where
  cache := ⟨h.cache.uniq, h.cache.index, fun e he => ⟨(h.cache.entries e he).1, fun t =>
    ((h.cache.entries e he).2 t).trans (Selected_congr rfl rfl _ _ _).symm⟩⟩
  rinv := h.rinv.congr rfl rfl
  heap := hheap
  cidx := h.cidx.congr rfl rfl rfl (fun _ _ => rfl)
  lock := h.lock
  pool := ⟨h.pool.avail, h.pool.bound⟩

/-! ## 7. `fdef`: a filter object is put into the heap -/

namespace World

/-- the typed filter constructor's validation reads the world only -/
theorem preCheckTyped_cases (m : Mask) (rels : List RelID) (w : World) :
    preCheckTyped m rels w = .ok () w ∨ ∃ (k : PanicKind), preCheckTyped m rels w = .panic k w := by
  unfold preCheckTyped
  induction rels with
  | nil => exact Or.inl rfl
  | cons r rest ih =>
    simp only [M.forM', bind, M.bind, checkRelationTarget, checkRelationComponent, M.assert]
    by_cases h1 : (!r.target.isZero && !w.alive r.target) = true
    · simp only [h1, if_true]; exact Or.inr ⟨_, rfl⟩
    · simp only [h1, Bool.false_eq_true, if_false]
      by_cases h2 : w.isRelComp r.comp = true
      · simp only [h2, if_true]
        by_cases h3 : m.get r.comp = true
        · simp only [h3, if_true]; exact ih
        · simp only [h3, Bool.false_eq_true, if_false]; exact Or.inr ⟨_, rfl⟩
      · simp only [h2, Bool.false_eq_true, if_false]; exact Or.inr ⟨_, rfl⟩

end World

namespace CacheHist

/-- what a client can construct: a fresh (unregistered) filter object; for a typed filter the
    component list consists of registered components and the mask contains them (`FilterN` is
    built from its type parameters). -/
def guardF (w : World) (fo : FilterObj) : Bool :=
  fo.cache.isNone &&
    (!fo.typed || fo.ids.all fun c => decide (c < w.kinds.length) && fo.filter.mask.get c)

/-- the `filter` line of the driver: the typed constructor validates the fixed relations; on
    success the object is stored under label `f` (replacing what was there) -/
def defFilter (f : Nat) (fo : FilterObj) (w : World) : World :=
  match (if fo.typed then preCheckTyped fo.filter.mask fo.rels else pure ()) w with
  | .ok _ w' => { w' with filters := AL.insert w'.filters f fo }
  | .panic _ w' => w'

theorem defFilter_cases (f : Nat) (fo : FilterObj) (w : World) :
    defFilter f fo w = w ∨ defFilter f fo w = { w with filters := AL.insert w.filters f fo } := by
  unfold defFilter
  cases ht : fo.typed with
  | false => exact Or.inr rfl
  | true =>
    simp only [if_true]
    rcases preCheckTyped_cases fo.filter.mask fo.rels w with h | ⟨k, h⟩
    · rw [h]; exact Or.inr rfl
    · rw [h]; exact Or.inl rfl

/-- the filter object the driver builds from a `filter` line -/
def mkFilterObj (ids : List Comp) (wo : Option (List Comp)) (excl typed : Bool)
    (rels : List RelID) : FilterObj :=
  let f : Filter := { mask := Mask.ofList ids }
  let f := match wo with | some l => if l.isEmpty then f else f.withoutList l | none => f
  let f := if excl then f.exclusive else f
  { filter := f, ids, rels, typed }

theorem mkFilterObj_mask (ids : List Comp) (wo : Option (List Comp)) (excl typed : Bool)
    (rels : List RelID) : (mkFilterObj ids wo excl typed rels).filter.mask = Mask.ofList ids := by
  unfold mkFilterObj
  cases wo with
  | none => cases excl <;> rfl
  | some l =>
    cases hl : l.isEmpty <;> cases excl <;>
      simp [hl, Filter.withoutList, Filter.exclusive]

/-- the driver's filter objects pass the guard when their components are registered -/
theorem guardF_mkFilterObj {w : World} (hk : w.kinds.length ≤ 256) (ids : List Comp)
    (wo : Option (List Comp)) (excl typed : Bool) (rels : List RelID)
    (hreg : ∀ (c : Comp), c ∈ ids → c < w.kinds.length) :
    guardF w (mkFilterObj ids wo excl typed rels) = true := by
  have hc : (mkFilterObj ids wo excl typed rels).cache = none := rfl
  have hi : (mkFilterObj ids wo excl typed rels).ids = ids := rfl
  simp only [guardF, hc, Option.isNone_none, Bool.true_and, Bool.or_eq_true, Bool.not_eq_true',
    List.all_eq_true, Bool.and_eq_true, decide_eq_true_eq, mkFilterObj_mask, hi]
  refine Or.inr fun c hcm => ⟨hreg c hcm, ?_⟩
  rw [Mask.get_ofList]
  have h256 : c < 256 := Nat.lt_of_lt_of_le (hreg c hcm) hk
  simp [hcm, h256]

end CacheHist

/-- **`fdef` keeps the filter-side invariant** -/
theorem FInv.defFilter {w : World} (h : FInv w) (f : Nat) (fo : FilterObj)
    (hg : CacheHist.guardF w fo = true) : FInv (CacheHist.defFilter f fo w) := by
  rcases CacheHist.defFilter_cases f fo w with he | he
  · rw [he]; exact h
  · rw [he]
    simp only [CacheHist.guardF, Bool.and_eq_true, Option.isNone_iff_eq_none, Bool.or_eq_true,
      Bool.not_eq_true', List.all_eq_true, decide_eq_true_eq] at hg
    obtain ⟨hc, hty⟩ := hg
    apply h.setFilters
    refine ⟨?_, ?_, ?_⟩
    · intro g go id hf hgc
      rw [show ({ w with filters := AL.insert w.filters f fo } : World).filters =
        AL.insert w.filters f fo from rfl, AL.find?_insert] at hf
      by_cases hgf : g = f
      · rw [if_pos hgf] at hf
        rw [← Option.some.inj hf, hc] at hgc; cases hgc
      · rw [if_neg hgf] at hf
        exact h.heap.reg g go id hf hgc
    · intro g1 g2 o1 o2 id h1 h2 c1 c2
      rw [show ({ w with filters := AL.insert w.filters f fo } : World).filters =
        AL.insert w.filters f fo from rfl, AL.find?_insert] at h1 h2
      by_cases hg1 : g1 = f
      · rw [if_pos hg1] at h1
        rw [← Option.some.inj h1, hc] at c1; cases c1
      · by_cases hg2 : g2 = f
        · rw [if_pos hg2] at h2
          rw [← Option.some.inj h2, hc] at c2; cases c2
        · rw [if_neg hg1] at h1
          rw [if_neg hg2] at h2
          exact h.heap.inj g1 g2 o1 o2 id h1 h2 c1 c2
    · intro g go hf ht c hcm
      rw [show ({ w with filters := AL.insert w.filters f fo } : World).filters =
        AL.insert w.filters f fo from rfl, AL.find?_insert] at hf
      by_cases hgf : g = f
      · rw [if_pos hgf] at hf
        have hgo : fo = go := Option.some.inj hf
        subst hgo
        rcases hty with hty | hty
        · rw [hty] at ht; cases ht
        · exact hty c hcm
      · rw [if_neg hgf] at hf
        exact h.heap.typed g go hf ht c hcm

/-! ## 8. `freg` / `funreg`: `FilterN.Register` / `FilterN.Unregister` -/

namespace World

/-- the filter object under label `f` (the zero object when the label is unknown) -/
def foAt (w : World) (f : Nat) : FilterObj := (AL.find? w.filters f).getD {}

theorem opFilterRegister_registered (f : Nat) (w : World) {id : Nat}
    (hc : (w.foAt f).cache = some id) :
    opFilterRegister f w = .panic .filterRegistered w := by
  unfold foAt at hc
  simp [opFilterRegister, bind, M.bind, M.get, M.assert, hc]

theorem opFilterRegister_eq (f : Nat) (w : World) (hc : (w.foAt f).cache = none) {id : Nat}
    {w1 : World} (hreg : cacheRegister (w.foAt f).filter (w.foAt f).rels w = .ok id w1) :
    opFilterRegister f w = .ok ()
      { w1 with filters := AL.insert w1.filters f { w.foAt f with cache := some id } } := by
  unfold foAt at hc hreg ⊢
  simp only [opFilterRegister, bind, M.bind, M.get, M.assert, hc, Option.isNone_none, if_true, hreg,
    M.modify]

theorem opFilterUnregister_unregistered (f : Nat) (w : World) (hc : (w.foAt f).cache = none) :
    opFilterUnregister f w = .panic .filterNotRegistered w := by
  unfold foAt at hc
  simp [opFilterUnregister, bind, M.bind, M.get, hc]

theorem opFilterUnregister_eq (f : Nat) (w : World) {id : Nat} (hc : (w.foAt f).cache = some id)
    {w1 : World} (hun : cacheUnregister id w = .ok () w1) :
    opFilterUnregister f w = .ok ()
      { w1 with filters := AL.insert w1.filters f { w.foAt f with cache := none } } := by
  unfold foAt at hc ⊢
  simp only [opFilterUnregister, bind, M.bind, M.get, hc, hun, M.modify]

/-- a successful `unregister` changes only the entry slice and the ID map -/
theorem cacheUnregister_form {id : Nat} {w w1 : World} (h : cacheUnregister id w = .ok () w1) :
    ∃ (F : List CacheEntry) (I : AL Nat),
      w1 = { w with cache := { w.cache with filters := F, indices := I } } := by
  cases hf : AL.find? w.cache.indices id with
  | none => rw [cacheUnregister_unknown w id hf] at h; cases h
  | some idx =>
    by_cases hl : idx = w.cache.filters.length - 1
    · rw [cacheUnregister_last w id (hl ▸ hf)] at h
      injection h with _ h2
      exact ⟨_, _, h2.symm⟩
    · rw [cacheUnregister_inner w id idx hf hl] at h
      injection h with _ h2
      exact ⟨_, _, h2.symm⟩

/-- a member of the entry slice is registered in the ID map -/
theorem CacheInv.find_of_mem {w : World} (h : CacheInv w) {e : CacheEntry}
    (he : e ∈ w.cache.filters) : ∃ (i : Nat), AL.find? w.cache.indices e.id = some i := by
  obtain ⟨i, hi⟩ := List.getElem?_of_mem he
  exact ⟨i, (h.index e.id i).2 ⟨e, hi, rfl⟩⟩

end World

/-- the ID the cache's pool hands out next is not registered -/
theorem CachePoolOK.fresh {w : World} (h : CachePoolOK w) :
    (w.cache.pool.get).2 = w.cache.pool.pool.length ∧
    (w.cache.pool.get).1.available = 0 ∧
    (w.cache.pool.get).1.pool.length = w.cache.pool.pool.length + 1 ∧
    AL.find? w.cache.indices (w.cache.pool.get).2 = none := by
  have h1 : (w.cache.pool.get).2 = w.cache.pool.pool.length := by
    simp [IntPool.get, h.avail, IntPool.getNew]
  refine ⟨h1, by simp [IntPool.get, h.avail, IntPool.getNew],
    by simp [IntPool.get, h.avail, IntPool.getNew], ?_⟩
  cases hf : AL.find? w.cache.indices (w.cache.pool.get).2 with
  | none => rfl
  | some i =>
    have := h.bound _ i hf
    rw [h1] at this
    exact absurd this (Nat.lt_irrefl _)

/-- the filter-side invariant for a world `w2` that has the storage of `w` (hypotheses: what
    `register`/`unregister` followed by the heap update leave alone) -/
theorem FInv.ofCacheHeap {w w2 : World} (h : FInv w) (hA : w2.archetypes = w.archetypes)
    (hT : w2.tables = w.tables) (hK : w2.kinds = w.kinds)
    (hCI : w2.componentIndex = w.componentIndex) (hL : w2.locks = w.locks)
    (hcache : CacheInv w2) (hheap : HeapOK w2) (hpool : CachePoolOK w2) : FInv w2 where
  cache := hcache
  rinv := h.rinv.congr hA hT
  heap := hheap
  cidx := h.cidx.congr hK hCI (by rw [hA]) (fun a _ => by simp only [arch, hA])
  lock := by rw [hL]; exact h.lock
  pool := hpool

/-- **`FilterN.Register` keeps the filter-side invariant** and changes only cache and heap -/
theorem FInv.filterRegister {w : World} (h : FInv w) (hn : NoRelW w) (f : Nat) :
    FInv (opFilterRegister f w).state ∧ SameButCF w (opFilterRegister f w).state := by
  cases hc : (w.foAt f).cache with
  | some id0 =>
    rw [opFilterRegister_registered f w hc]
    exact ⟨h, SameButCF.refl w⟩
  | none =>
    have H := hn.tablesInv h.rinv
    have hok := hn.relsOK (w.foAt f).filter (w.foAt f).rels
    obtain ⟨hidEq, hav, hlen, hfresh⟩ := h.pool.fresh
    obtain ⟨ts, hts, hnd, hmem⟩ := getCacheTables_spec H hok
    have hreg := cacheRegister_eq w _ _ ts hts
    obtain ⟨w1, e, hreg', hci, _, _, _, _, _, _, _, _, _⟩ := cacheRegister_inv h.cache H hok hfresh
    have hw1 : w1 = registered w (w.foAt f).filter (w.foAt f).rels ts := by
      rw [hreg] at hreg'
      injection hreg' with _ h2
      exact h2.symm
    subst hw1
    rw [opFilterRegister_eq f w hc hreg]
    -- an old object cannot carry the fresh ID
    have hold : ∀ (g : Nat) (o : FilterObj), AL.find? w.filters g = some o →
        o.cache ≠ some (w.cache.pool.get).2 := by
      intro g o hgo hco
      obtain ⟨e0, he0, g1, _, _⟩ := h.heap.reg g o _ hgo hco
      obtain ⟨i, hi⟩ := h.cache.find_of_mem he0
      rw [g1, hfresh] at hi; cases hi
    have key : FInv ({ registered w (w.foAt f).filter (w.foAt f).rels ts with
        filters := AL.insert w.filters f { w.foAt f with cache := some (w.cache.pool.get).2 } } :
          World) := by
      refine h.ofCacheHeap rfl rfl rfl rfl rfl ?_ ?_ ?_
      · exact ⟨hci.uniq, hci.index, fun e he => ⟨(hci.entries e he).1, fun t =>
          ((hci.entries e he).2 t).trans (Selected_congr rfl rfl _ _ _).symm⟩⟩
      · refine ⟨?_, ?_, ?_⟩
        · intro g go id' hf hgc
          replace hf : AL.find? (AL.insert w.filters f
              { w.foAt f with cache := some (w.cache.pool.get).2 }) g = some go := hf
          show ∃ e, e ∈ w.cache.filters ++ [newEntry w _ _ ts] ∧ _
          rw [AL.find?_insert] at hf
          by_cases hgf : g = f
          · rw [if_pos hgf] at hf
            rw [← Option.some.inj hf] at hgc
            have hid : (w.cache.pool.get).2 = id' := Option.some.inj hgc
            refine ⟨newEntry w _ _ ts, List.mem_append_right _ (List.mem_singleton.mpr rfl),
              hid, ?_, ?_⟩
            · rw [← Option.some.inj hf]; rfl
            · rw [← Option.some.inj hf]; rfl
          · rw [if_neg hgf] at hf
            obtain ⟨e0, he0, g1, g2, g3⟩ := h.heap.reg g go id' hf hgc
            exact ⟨e0, List.mem_append_left _ he0, g1, g2, g3⟩
        · intro g1 g2 o1 o2 id' h1 h2 c1 c2
          replace h1 : AL.find? (AL.insert w.filters f
              { w.foAt f with cache := some (w.cache.pool.get).2 }) g1 = some o1 := h1
          replace h2 : AL.find? (AL.insert w.filters f
              { w.foAt f with cache := some (w.cache.pool.get).2 }) g2 = some o2 := h2
          rw [AL.find?_insert] at h1 h2
          by_cases hg1 : g1 = f
          · by_cases hg2 : g2 = f
            · rw [hg1, hg2]
            · rw [if_pos hg1] at h1
              rw [if_neg hg2] at h2
              rw [← Option.some.inj h1] at c1
              have hid : (w.cache.pool.get).2 = id' := Option.some.inj c1
              rw [← hid] at c2
              exact absurd c2 (hold g2 o2 h2)
          · rw [if_neg hg1] at h1
            by_cases hg2 : g2 = f
            · rw [if_pos hg2] at h2
              rw [← Option.some.inj h2] at c2
              have hid : (w.cache.pool.get).2 = id' := Option.some.inj c2
              rw [← hid] at c1
              exact absurd c1 (hold g1 o1 h1)
            · rw [if_neg hg2] at h2
              exact h.heap.inj g1 g2 o1 o2 id' h1 h2 c1 c2
        · intro g go hf ht c hcm
          replace hf : AL.find? (AL.insert w.filters f
              { w.foAt f with cache := some (w.cache.pool.get).2 }) g = some go := hf
          show c < w.kinds.length ∧ _
          rw [AL.find?_insert] at hf
          by_cases hgf : g = f
          · rw [if_pos hgf] at hf
            rw [← Option.some.inj hf] at ht hcm ⊢
            replace ht : (w.foAt f).typed = true := ht
            replace hcm : c ∈ (w.foAt f).ids := hcm
            show c < w.kinds.length ∧ (w.foAt f).filter.mask.get c = true
            cases hfind : AL.find? w.filters f with
            | none =>
              have hz : w.foAt f = {} := by simp only [foAt, hfind]; rfl
              rw [hz] at hcm
              cases hcm
            | some fo0 =>
              have hz : w.foAt f = fo0 := by simp only [foAt, hfind]; rfl
              rw [hz] at ht hcm ⊢
              exact h.heap.typed f fo0 hfind ht c hcm
          · rw [if_neg hgf] at hf
            exact h.heap.typed g go hf ht c hcm
      · refine ⟨hav, ?_⟩
        intro id' i hf
        replace hf : AL.find? (AL.insert w.cache.indices (w.cache.pool.get).2
          w.cache.filters.length) id' = some i := hf
        show id' < (w.cache.pool.get).1.pool.length
        rw [AL.find?_insert] at hf
        by_cases hid : id' = (w.cache.pool.get).2
        · rw [hlen, hid, hidEq]; exact Nat.lt_succ_self _
        · rw [if_neg hid] at hf
          have := h.pool.bound id' i hf
          rw [hlen]; exact Nat.lt_succ_of_lt this
    exact ⟨key, rfl⟩

/-- **`FilterN.Unregister` keeps the filter-side invariant** and changes only cache and heap -/
theorem FInv.filterUnregister {w : World} (h : FInv w) (f : Nat) :
    FInv (opFilterUnregister f w).state ∧ SameButCF w (opFilterUnregister f w).state := by
  cases hc : (w.foAt f).cache with
  | none =>
    rw [opFilterUnregister_unregistered f w hc]
    exact ⟨h, SameButCF.refl w⟩
  | some id =>
    -- the object is in the heap (the zero object is unregistered)
    cases hfind : AL.find? w.filters f with
    | none => simp only [foAt, hfind] at hc; cases hc
    | some fo =>
      have hfo : w.foAt f = fo := by simp only [foAt, hfind]; rfl
      have hcfo : fo.cache = some id := by rw [← hfo]; exact hc
      obtain ⟨e0, he0, hid0, _, _⟩ := h.heap.reg f fo id hfind hcfo
      obtain ⟨idx, hidx⟩ := h.cache.find_of_mem he0
      rw [hid0] at hidx
      obtain ⟨w1, hun, hci, hA, hT, hgone, hoth⟩ := cacheUnregister_inv h.cache hidx
      obtain ⟨F, I, hform⟩ := cacheUnregister_form hun
      have hFl : w1.filters = w.filters := by rw [hform]
      have hP : w1.cache.pool = w.cache.pool := by rw [hform]
      rw [opFilterUnregister_eq f w hc hun]
      -- entries of other IDs survive
      have hkeep : ∀ (e : CacheEntry), e ∈ w.cache.filters → e.id ≠ id → e ∈ w1.cache.filters := by
        intro e he hne
        have h1 := h.cache.lookup_of_mem he
        rw [← hoth e.id hne] at h1
        exact (hci.entry_of_lookup h1).1
      have key : FInv ({ w1 with
          filters := AL.insert w1.filters f { w.foAt f with cache := none } } : World) := by
        refine h.ofCacheHeap hA hT (by rw [hform]) (by rw [hform]) (by rw [hform]) ?_ ?_ ?_
        · exact ⟨hci.uniq, hci.index, fun e he => ⟨(hci.entries e he).1, fun t =>
            ((hci.entries e he).2 t).trans (Selected_congr rfl rfl _ _ _).symm⟩⟩
        · refine ⟨?_, ?_, ?_⟩
          · intro g go id' hf hgc
            replace hf : AL.find? (AL.insert w1.filters f { w.foAt f with cache := none }) g =
              some go := hf
            show ∃ e, e ∈ w1.cache.filters ∧ _
            rw [AL.find?_insert, hFl] at hf
            by_cases hgf : g = f
            · rw [if_pos hgf] at hf
              rw [← Option.some.inj hf] at hgc; cases hgc
            · rw [if_neg hgf] at hf
              obtain ⟨e1, he1, g1, g2, g3⟩ := h.heap.reg g go id' hf hgc
              have hne : id' ≠ id := by
                intro hii
                exact hgf (h.heap.inj g f go fo id hf hfind (hii ▸ hgc) hcfo)
              exact ⟨e1, hkeep e1 he1 (by rw [g1]; exact hne), g1, g2, g3⟩
          · intro g1 g2 o1 o2 id' h1 h2 c1 c2
            replace h1 : AL.find? (AL.insert w1.filters f { w.foAt f with cache := none }) g1 =
              some o1 := h1
            replace h2 : AL.find? (AL.insert w1.filters f { w.foAt f with cache := none }) g2 =
              some o2 := h2
            rw [AL.find?_insert, hFl] at h1 h2
            by_cases hg1 : g1 = f
            · rw [if_pos hg1] at h1
              rw [← Option.some.inj h1] at c1; cases c1
            · by_cases hg2 : g2 = f
              · rw [if_pos hg2] at h2
                rw [← Option.some.inj h2] at c2; cases c2
              · rw [if_neg hg1] at h1
                rw [if_neg hg2] at h2
                exact h.heap.inj g1 g2 o1 o2 id' h1 h2 c1 c2
          · intro g go hf ht c hcm
            replace hf : AL.find? (AL.insert w1.filters f { w.foAt f with cache := none }) g =
              some go := hf
            show c < w1.kinds.length ∧ _
            rw [show w1.kinds = w.kinds by rw [hform]]
            rw [AL.find?_insert, hFl] at hf
            by_cases hgf : g = f
            · rw [if_pos hgf] at hf
              rw [← Option.some.inj hf] at ht hcm ⊢
              replace ht : (w.foAt f).typed = true := ht
              replace hcm : c ∈ (w.foAt f).ids := hcm
              show c < w.kinds.length ∧ (w.foAt f).filter.mask.get c = true
              rw [hfo] at ht hcm ⊢
              exact h.heap.typed f fo hfind ht c hcm
            · rw [if_neg hgf] at hf
              exact h.heap.typed g go hf ht c hcm
        · refine ⟨?_, ?_⟩
          · show w1.cache.pool.available = 0
            rw [hP]; exact h.pool.avail
          · intro id' i hf
            replace hf : AL.find? w1.cache.indices id' = some i := hf
            show id' < w1.cache.pool.pool.length
            rw [hP]
            obtain ⟨e1, he1, hid1⟩ := (hci.index id' i).1 hf
            have hlook : w1.cacheEntry? id' = some e1 := by
              simp only [cacheEntry?, hf, he1]
            have hne : id' ≠ id := by
              intro hii; rw [hii, hgone] at hlook; cases hlook
            rw [hoth id' hne] at hlook
            obtain ⟨hm1, hm2⟩ := h.cache.entry_of_lookup hlook
            obtain ⟨j, hj⟩ := h.cache.find_of_mem hm1
            rw [hm2] at hj
            exact h.pool.bound id' j hj
      refine ⟨key, ?_⟩
      subst hform
      rfl

/-! ## 9. the history machine with filter operations -/

namespace CacheHist

open Refine

/-- the operations: those of the entity machine, plus the three filter operations -/
inductive Op2
  /-- an operation of `Ark.Refine` (`reg`, `new p`, `new0`, `add p`, `rem p`, `xchg p`, `set`,
      `del`, `copy`, `shrink`, `reset`) -/
  | base (op : Refine.Op)
  /-- a filter object is constructed and stored under label `f` (the driver's `filter` line) -/
  | fdef (f : Nat) (fo : FilterObj)
  /-- `FilterN.Register` on the object under label `f` -/
  | freg (f : Nat)
  /-- `FilterN.Unregister` on the object under label `f` -/
  | funreg (f : Nat)
  deriving Repr

/-- one step.  Filter operations leave the ghost history and the specification alone; a panic
    keeps the state the model reached (Go `recover`). -/
def step2 (run : ProbeRunner) (s : St) : Op2 → St
  | .base op => Refine.step run s op
  | .fdef f fo => if guardF s.w fo = true then { s with w := defFilter f fo s.w } else s
  | .freg f => { s with w := (opFilterRegister f s.w).state }
  | .funreg f => { s with w := (opFilterUnregister f s.w).state }

def runOps2 (run : ProbeRunner) (s : St) (ops : List Op2) : St := ops.foldl (step2 run) s

/-- the state reached from `NewWorld(cap, rel)` by the history `ops` -/
def reach2 (run : ProbeRunner) (cap rel : Nat) (ops : List Op2) : St :=
  runOps2 run (St.init cap rel) ops

/-- **the inductive invariant of the machine with filters**: the invariant of the entity machine
    (`HInv` ⊇ `CInv` ⊇ `SInv`, `IdxInv`) and the filter-side invariant (`CacheInv`, `RInv`,
    `HeapOK`, `CIdxH`, lock pool, cache ID pool).  `TablesInv` follows (`HInv2.tablesInv`). -/
structure HInv2 (s : St) (fl : List Nat) : Prop where
  base : HInv s fl
  finv : FInv s.w

theorem hinv2_init (cap rel : Nat) : HInv2 (St.init cap rel) [] :=
  ⟨hinv_init cap rel, finv_init cap rel⟩

namespace HInv2

variable {s : St} {fl : List Nat}

theorem noRelW (H : HInv2 s fl) : NoRelW s.w := H.base.cinv.noRelW

theorem cacheInv (H : HInv2 s fl) : CacheInv s.w := H.finv.cache

theorem tablesInv (H : HInv2 s fl) : TablesInv s.w := H.noRelW.tablesInv H.finv.rinv

theorem relsOK (H : HInv2 s fl) (f : Filter) (rels : List RelID) : RelsOK s.w f rels :=
  H.noRelW.relsOK f rels

end HInv2

theorem sameButCF_sizes {w w' : World} (h : SameButCF w w') :
    w'.tables = w.tables ∧ w'.entities = w.entities := by
  unfold SameButCF at h
  exact ⟨by rw [h], by rw [h]⟩

/-- the entity operations (all eleven) keep the filter-side invariant -/
theorem finv_step (run : ProbeRunner) {s : St} {fl fl1 : List Nat} (H : HInv2 s fl)
    (hent : s.w.entities.length + 1 < 2 ^ 32) (op : Refine.Op)
    (G : StepGoal run s op) (H1 : HInv (Refine.step run s op) fl1) :
    FInv (Refine.step run s op).w := by
  obtain ⟨_, _, _, g4, g5, _⟩ := G
  by_cases hg : Refine.guard s op = true
  case neg =>
    have : Refine.step run s op = s := by rw [Refine.step, if_neg hg]
    rw [this]; exact H.finv
  have hw : (Refine.step run s op).w = (exec run s.w op).state := by rw [step_of_guard hg]
  rcases Classical.em (pre s.ss op) with hp | hnp
  · obtain ⟨r, w', hex⟩ := g5 hg hp
    have hw' : (Refine.step run s op).w = w' := by rw [hw, hex]; rfl
    have hn' : NoRelW w' := by rw [← hw']; exact H1.cinv.noRelW
    rw [hw']
    cases exec_evolves run H.base H.finv.rinv hent hg hex with
    | rows hgrow hq =>
      cases hgrow with
      | same => exact H.finv.quiet H.noRelW hn' hq
      | foc st =>
        rename_i w1
        have hn1 : NoRelW w1 := ⟨st.sinv, by rw [st.kinds]; exact H.base.cinv.noRelKinds⟩
        exact (H.finv.foc st).quiet hn1 hn' hq
      | reg hk hr =>
        rename_i w1 _ _
        have hn1 : NoRelW w1 := (H.base.cinv.registerComponent hk hr).1.noRelW
        exact (H.finv.reg H.base.cinv.sinv.toSInvMid hr).quiet hn1 hn' hq
    | shrink r hs hr hc => exact H.finv.shrink r hr hc
    | reset => exact H.finv.reset H.noRelW
  · obtain ⟨k, hex⟩ := g4 hg hnp
    have hw' : (Refine.step run s op).w = s.w := by rw [hw, hex]; rfl
    rw [hw']; exact H.finv

/-- **one step keeps the invariant**; at most one table and one index slot are created -/
theorem step2_inv (run : ProbeRunner) {s : St} {fl : List Nat} (H : HInv2 s fl)
    (hfew : s.w.tables.length < maxU32) (hent : s.w.entities.length + 1 < 2 ^ 32) (op : Op2) :
    (∃ fl', HInv2 (step2 run s op) fl') ∧
    (step2 run s op).w.tables.length ≤ s.w.tables.length + 1 ∧
    (step2 run s op).w.entities.length ≤ s.w.entities.length + 1 := by
  -- a step that changes only cache and heap
  have cf : ∀ (w' : World), FInv w' → SameButCF s.w w' →
      (∃ fl', HInv2 ⟨w', s.issued, s.ss⟩ fl') ∧ w'.tables.length ≤ s.w.tables.length + 1 ∧
      w'.entities.length ≤ s.w.entities.length + 1 := by
    intro w' hf hs
    obtain ⟨h1, h2⟩ := sameButCF_sizes hs
    exact ⟨⟨fl, H.base.sameButCF hs, hf⟩, by rw [h1]; exact Nat.le_succ _,
      by rw [h2]; exact Nat.le_succ _⟩
  cases op with
  | base op =>
    have G := step_goal run H.base hfew hent op
    obtain ⟨⟨fl1, h1⟩, g1, g2, _, _, _⟩ := id G
    exact ⟨⟨fl1, h1, finv_step run H hent op G h1⟩, g1, g2⟩
  | fdef f fo =>
    by_cases hg : guardF s.w fo = true
    · simp only [step2, if_pos hg]
      refine cf _ (H.finv.defFilter f fo hg) ?_
      rcases defFilter_cases f fo s.w with he | he
      · rw [he]; exact SameButCF.refl _
      · rw [he]; rfl
    · simp only [step2, if_neg hg]
      exact ⟨⟨fl, H⟩, Nat.le_succ _, Nat.le_succ _⟩
  | freg f =>
    obtain ⟨hf, hs⟩ := H.finv.filterRegister H.noRelW f
    exact cf _ hf hs
  | funreg f =>
    obtain ⟨hf, hs⟩ := H.finv.filterUnregister f
    exact cf _ hf hs

/-- the invariant holds after every history that stays within the size bounds -/
theorem run2_inv (run : ProbeRunner) (ops : List Op2) : ∀ (s : St) (fl : List Nat), HInv2 s fl →
    s.w.tables.length + ops.length ≤ maxU32 → s.w.entities.length + ops.length < 2 ^ 32 →
    ∃ fl', HInv2 (runOps2 run s ops) fl' := by
  induction ops with
  | nil => intro s fl h _ _; exact ⟨fl, h⟩
  | cons op ops ih =>
    intro s fl h hb1 hb2
    simp only [List.length_cons] at hb1 hb2
    obtain ⟨⟨fl1, h1⟩, g1, g2⟩ := step2_inv run h (by omega) (by omega) op
    exact ih _ fl1 h1 (by omega) (by omega)

/-- **the invariant holds at every reachable state** (same length bound as `reach_hinv`) -/
theorem reach2_inv (run : ProbeRunner) (cap rel : Nat) (ops : List Op2)
    (hlen : ops.length < 2 ^ 32 - 2) : ∃ fl, HInv2 (reach2 run cap rel ops) fl :=
  run2_inv run ops _ [] (hinv2_init cap rel)
    (by show 1 + ops.length ≤ maxU32; simp only [maxU32]; omega)
    (by show 2 + ops.length < 2 ^ 32; omega)

theorem reach2_snoc (run : ProbeRunner) (cap rel : Nat) (ops : List Op2) (op : Op2) :
    reach2 run cap rel (ops ++ [op]) = step2 run (reach2 run cap rel ops) op := by
  simp only [reach2, runOps2, List.foldl_append, List.foldl_cons, List.foldl_nil]

end CacheHist

end Ark
