/-
  Ark.Proofs.TableIDs — the invariant of `tableIDs` (archetype.go): the `indices` map is exactly
  the position map of the `tables` slice.  `Remove` swap-removes THROUGH the map, so everything
  it does is only meaningful under this invariant.  Kernel-only proofs.
-/
import Ark.Proofs.AL
import Ark.Model.Archetype

namespace Ark
namespace TableIDs

/-- Well-formed `tableIDs`: no duplicates, and the index map is the position map of the slice. -/
structure WF (t : TableIDs) : Prop where
  nodup : t.tables.Nodup
  uniq : AL.Uniq t.indices
  index : ∀ (id i : Nat), AL.find? t.indices id = some i ↔ t.tables[i]? = some id

/-! ### generic list facts -/

/-- A list that has an exact position map has no duplicates. -/
theorem nodup_of_index (l : List Nat) (m : AL Nat)
    (h : ∀ (id i : Nat), AL.find? m id = some i ↔ l[i]? = some id) : l.Nodup := by
  rw [List.nodup_iff_pairwise_ne, List.pairwise_iff_getElem]
  intro i j hi hj hij heq
  have h1 : AL.find? m l[i] = some i := (h _ _).2 (List.getElem?_eq_getElem hi)
  have h2 : AL.find? m l[i] = some j := (h _ _).2 (by rw [heq]; exact List.getElem?_eq_getElem hj)
  rw [h1] at h2
  injection h2 with h2
  omega

/-- In a duplicate-free list equal entries sit at equal positions. -/
theorem idx_inj_of_nodup {l : List Nat} (hn : l.Nodup) {i j x : Nat}
    (hi : l[i]? = some x) (hj : l[j]? = some x) : i = j := by
  rw [List.nodup_iff_pairwise_ne, List.pairwise_iff_getElem] at hn
  obtain ⟨hil, hix⟩ := List.getElem?_eq_some_iff.1 hi
  obtain ⟨hjl, hjx⟩ := List.getElem?_eq_some_iff.1 hj
  rcases Nat.lt_trichotomy i j with h | h | h
  · exact absurd (hix.trans hjx.symm) (hn i j hil hjl h)
  · exact h
  · exact absurd (hjx.trans hix.symm) (hn j i hjl hil h)

/-- Positions after the swap-remove of position `index` (the last element `b` moves there). -/
theorem swapRemove_getElem? (T : List Nat) (index : Nat) (a b : Nat) (i : Nat) :
    (((T.set index b).set (T.length - 1) a).take (T.length - 1))[i]? =
      if i < T.length - 1 then (if i = index then some b else T[i]?) else none := by
  grind

/-! ### construction -/

theorem wf_empty : WF {} :=
  ⟨List.nodup_nil, AL.uniq_nil, by intro id i; simp⟩

theorem append_tables (t : TableIDs) (id : Nat) : (t.append id).tables = t.tables ++ [id] := rfl

theorem append_indices (t : TableIDs) (id : Nat) :
    (t.append id).indices = AL.insert t.indices id t.tables.length := rfl

/-- `Append` of a new table ID keeps the invariant. -/
theorem WF.append {t : TableIDs} (h : WF t) {id : Nat} (hid : id ∉ t.tables) :
    WF (t.append id) := by
  have hidx : ∀ (id' i : Nat), AL.find? (t.append id).indices id' = some i ↔
      (t.append id).tables[i]? = some id' := by
    intro id' i
    rw [append_indices, append_tables, AL.find?_insert]
    by_cases hk : id' = id
    · subst hk
      simp only [if_true]
      constructor
      · intro e; injection e with e; subst e; simp
      · intro e
        rcases Nat.lt_trichotomy i t.tables.length with hlt | heq | hgt
        · rw [List.getElem?_append_left hlt] at e
          exact absurd (List.mem_of_getElem? e) hid
        · rw [heq]
        · rw [List.getElem?_eq_none (by simp; omega)] at e; cases e
    · simp only [hk, if_false]
      rw [h.index]
      rcases Nat.lt_trichotomy i t.tables.length with hlt | heq | hgt
      · rw [List.getElem?_append_left hlt]
      · subst heq
        have : t.tables[t.tables.length]? = none := List.getElem?_eq_none (Nat.le_refl _)
        rw [this]
        simp
        exact fun e => hk e.symm
      · rw [List.getElem?_eq_none (by omega), List.getElem?_eq_none (by simp; omega)]
  exact ⟨nodup_of_index _ _ hidx, h.uniq.insert _ _, hidx⟩

/-- `newTableIDs(ts...)` is the same as appending one by one. -/
theorem ofList_append (ts : List Nat) (x : Nat) : ofList (ts ++ [x]) = (ofList ts).append x := by
  simp [ofList, TableIDs.append, List.zipIdx_append, List.foldl_append]

theorem ofList_nil : ofList [] = {} := rfl

theorem ofList_tables (ts : List Nat) : (ofList ts).tables = ts := rfl

/-- `newTableIDs(ts...)` of distinct IDs is well-formed. -/
theorem wf_ofList (ts : List Nat) (h : ts.Nodup) : WF (ofList ts) := by
  have key : ∀ rs : List Nat, rs.reverse.Nodup → WF (ofList rs.reverse) := by
    intro rs
    induction rs with
    | nil => intro _; exact wf_empty
    | cons x rs ih =>
      intro hn
      rw [List.reverse_cons] at hn ⊢
      rw [ofList_append]
      have h' := List.nodup_append.1 hn
      refine (ih h'.1).append ?_
      rw [ofList_tables]
      intro hx
      exact h'.2.2 x hx x (List.mem_singleton.2 rfl) rfl
  have := key ts.reverse (by rwa [List.reverse_reverse])
  rwa [List.reverse_reverse] at this

theorem wf_singleton (x : Nat) : WF (ofList [x]) := wf_ofList [x] (by simp)

/-! ### membership -/

theorem WF.mem_iff_find? {t : TableIDs} (h : WF t) (id : Nat) :
    id ∈ t.tables ↔ ∃ i, AL.find? t.indices id = some i := by
  rw [List.mem_iff_getElem?]
  constructor
  · rintro ⟨i, hi⟩; exact ⟨i, (h.index id i).2 hi⟩
  · rintro ⟨i, hi⟩; exact ⟨i, (h.index id i).1 hi⟩

theorem WF.find?_none_iff {t : TableIDs} (h : WF t) (id : Nat) :
    AL.find? t.indices id = none ↔ id ∉ t.tables := by
  rw [h.mem_iff_find?]
  cases AL.find? t.indices id <;> simp

/-- `indices[id]` exists iff `id` is in the slice. -/
theorem WF.hasIndex_iff {t : TableIDs} (h : WF t) (id : Nat) :
    t.hasIndex id = true ↔ id ∈ t.tables := by
  rw [h.mem_iff_find?]
  unfold hasIndex AL.contains
  cases AL.find? t.indices id <;> simp

/-! ### `Remove` -/

/-- Unfolding of `Remove` when the map knows the ID. -/
theorem remove_some (t : TableIDs) (id index : Nat) (h : AL.find? t.indices id = some index)
    (hlt : index < t.tables.length) :
    t.remove id =
      (if index = t.tables.length - 1 then
        { tables := t.tables.take (t.tables.length - 1), indices := AL.erase t.indices id }
       else
        { tables := ((t.tables.set index (t.tables.getD (t.tables.length - 1) 0)).set
              (t.tables.length - 1) (t.tables.getD index 0)).take (t.tables.length - 1),
          indices :=
            AL.erase (AL.insert t.indices (t.tables.getD (t.tables.length - 1) 0) index) id },
       true) := by
  unfold TableIDs.remove
  rw [h]
  by_cases hi : index = t.tables.length - 1
  · simp [hi]
  · have hget : ((t.tables.set index (t.tables.getD (t.tables.length - 1) 0)).set (t.tables.length - 1)
        (t.tables.getD index 0)).getD index 0 = t.tables.getD (t.tables.length - 1) 0 := by
      rw [List.getD_eq_getElem?_getD, List.getElem?_set_ne (Ne.symm hi), List.getElem?_set_self hlt]
      rfl
    have hne : (index != t.tables.length - 1) = true := by simpa using hi
    simp only [hne, if_true, hget, hi, if_false]

theorem remove_none (t : TableIDs) (id : Nat) (h : AL.find? t.indices id = none) :
    t.remove id = (t, false) := by
  unfold TableIDs.remove; rw [h]

/-- under the invariant a looked-up index is a position of the slice -/
theorem WF.index_lt {t : TableIDs} (h : WF t) {id index : Nat}
    (hf : AL.find? t.indices id = some index) : index < t.tables.length :=
  (List.getElem?_eq_some_iff.1 ((h.index id index).1 hf)).1

/-- `Remove` of an ID that is not in the slice changes nothing and reports `false`. -/
theorem WF.remove_of_not_mem {t : TableIDs} (h : WF t) {id : Nat} (hid : id ∉ t.tables) :
    t.remove id = (t, false) :=
  remove_none t id ((h.find?_none_iff id).2 hid)

/-- `Remove` reports whether the ID was present. -/
theorem WF.remove_snd {t : TableIDs} (h : WF t) (id : Nat) :
    (t.remove id).2 = true ↔ id ∈ t.tables := by
  cases hf : AL.find? t.indices id with
  | none =>
    rw [remove_none t id hf]
    simp [(h.find?_none_iff id).1 hf]
  | some index =>
    rw [remove_some t id index hf (h.index_lt hf)]
    simp only [true_iff]
    exact (h.mem_iff_find? id).2 ⟨index, hf⟩

/-- Positions of the slice after removing the ID stored at position `index`: the last element
    moves to `index`, the slice is one shorter. -/
theorem WF.remove_getElem? {t : TableIDs} (h : WF t) {id index : Nat}
    (hf : AL.find? t.indices id = some index) (i : Nat) :
    (t.remove id).1.tables[i]? =
      if i < t.tables.length - 1 then
        (if i = index then t.tables[t.tables.length - 1]? else t.tables[i]?)
      else none := by
  have hidx := (h.index id index).1 hf
  obtain ⟨hlt, _⟩ := List.getElem?_eq_some_iff.1 hidx
  rw [remove_some t id index hf (h.index_lt hf)]
  by_cases hi : index = t.tables.length - 1
  · simp only [hi, if_true]
    rw [List.getElem?_take]
    by_cases h1 : i < t.tables.length - 1
    · have : i ≠ t.tables.length - 1 := by omega
      simp [h1, this]
    · simp [h1]
  · simp only [hi, if_false]
    rw [swapRemove_getElem?]
    have : t.tables.getD (t.tables.length - 1) 0 = t.tables[t.tables.length - 1]'(by omega) := by
      simp [List.getD_eq_getElem?_getD, List.getElem?_eq_getElem (show t.tables.length - 1 < t.tables.length by omega)]
    rw [this, List.getElem?_eq_getElem (show t.tables.length - 1 < t.tables.length by omega)]

theorem WF.remove_length {t : TableIDs} (h : WF t) {id : Nat} (hid : id ∈ t.tables) :
    (t.remove id).1.tables.length = t.tables.length - 1 := by
  obtain ⟨index, hf⟩ := (h.mem_iff_find? id).1 hid
  have hidx := (h.index id index).1 hf
  obtain ⟨hlt, _⟩ := List.getElem?_eq_some_iff.1 hidx
  rw [remove_some t id index hf (h.index_lt hf)]
  by_cases hi : index = t.tables.length - 1
  · simp only [hi, if_true, List.length_take]; omega
  · simp only [hi, if_false, List.length_take, List.length_set]; omega

/-- `x` survives `Remove id` iff it was there and is not `id`. -/
theorem WF.mem_remove {t : TableIDs} (h : WF t) (id x : Nat) :
    x ∈ (t.remove id).1.tables ↔ x ∈ t.tables ∧ x ≠ id := by
  cases hf : AL.find? t.indices id with
  | none =>
    have hid := (h.find?_none_iff id).1 hf
    rw [remove_none t id hf]
    constructor
    · intro hx; exact ⟨hx, fun e => hid (e ▸ hx)⟩
    · exact fun hx => hx.1
  | some index =>
    have hidx := (h.index id index).1 hf
    obtain ⟨hlt, _⟩ := List.getElem?_eq_some_iff.1 hidx
    have hlast : t.tables[t.tables.length - 1]? = some (t.tables[t.tables.length - 1]'(by omega)) :=
      List.getElem?_eq_getElem _
    rw [List.mem_iff_getElem?, List.mem_iff_getElem?]
    constructor
    · rintro ⟨i, hi⟩
      rw [h.remove_getElem? hf] at hi
      by_cases h1 : i < t.tables.length - 1
      · simp only [h1, if_true] at hi
        by_cases h2 : i = index
        · simp only [h2, if_true] at hi
          refine ⟨⟨_, hi⟩, ?_⟩
          intro e; subst e
          have := idx_inj_of_nodup h.nodup hi hidx
          omega
        · simp only [h2, if_false] at hi
          refine ⟨⟨_, hi⟩, ?_⟩
          intro e; subst e
          exact h2 (idx_inj_of_nodup h.nodup hi hidx)
      · simp [h1] at hi
    · rintro ⟨⟨i, hi⟩, hne⟩
      obtain ⟨hil, _⟩ := List.getElem?_eq_some_iff.1 hi
      by_cases h1 : i = t.tables.length - 1
      · refine ⟨index, ?_⟩
        rw [h.remove_getElem? hf]
        have h2 : index < t.tables.length - 1 := by
          have : index ≠ i := by
            intro e; rw [e] at hidx; rw [hidx] at hi; injection hi with hi; exact hne hi.symm
          omega
        simp only [h2, if_true]
        rw [← h1]; exact hi
      · refine ⟨i, ?_⟩
        rw [h.remove_getElem? hf]
        have h2 : i < t.tables.length - 1 := by omega
        have h3 : i ≠ index := by
          intro e; rw [e] at hi; rw [hidx] at hi; injection hi with hi; exact hne hi.symm
        simp only [h2, h3, if_true, if_false]
        exact hi

/-- `Remove` keeps the invariant. -/
theorem WF.remove {t : TableIDs} (h : WF t) (id : Nat) : WF (t.remove id).1 := by
  cases hf : AL.find? t.indices id with
  | none => rw [remove_none t id hf]; exact h
  | some index =>
    have hidx := (h.index id index).1 hf
    obtain ⟨hlt, _⟩ := List.getElem?_eq_some_iff.1 hidx
    have hlast : t.tables[t.tables.length - 1]? = some (t.tables[t.tables.length - 1]'(by omega)) :=
      List.getElem?_eq_getElem _
    have hgetD : t.tables.getD (t.tables.length - 1) 0 = t.tables[t.tables.length - 1]'(by omega) := by
      simp [List.getD_eq_getElem?_getD, hlast]
    -- the lookups of the new index map
    have hfind : ∀ x, AL.find? (t.remove id).1.indices x =
        if x = id then none
        else if index ≠ t.tables.length - 1 ∧ x = t.tables[t.tables.length - 1]'(by omega)
          then some index
        else AL.find? t.indices x := by
      intro x
      rw [remove_some t id index hf (h.index_lt hf)]
      by_cases hi : index = t.tables.length - 1
      · simp only [hi, if_true, AL.find?_erase]
        simp
      · simp only [hi, if_false, AL.find?_erase, AL.find?_insert, hgetD]
        simp [hi]
    have hidx' : ∀ (x i : Nat), AL.find? (t.remove id).1.indices x = some i ↔
        (t.remove id).1.tables[i]? = some x := by
      intro x i
      rw [hfind, h.remove_getElem? hf]
      by_cases hx : x = id
      · subst hx
        simp only [if_true]
        constructor
        · intro e; cases e
        · intro e
          exfalso
          by_cases h1 : i < t.tables.length - 1
          · simp only [h1, if_true] at e
            by_cases h2 : i = index
            · simp only [h2, if_true] at e
              have := idx_inj_of_nodup h.nodup e hidx
              omega
            · simp only [h2, if_false] at e
              exact h2 (idx_inj_of_nodup h.nodup e hidx)
          · simp [h1] at e
      · simp only [hx, if_false]
        by_cases hb : index ≠ t.tables.length - 1 ∧ x = t.tables[t.tables.length - 1]'(by omega)
        · rw [if_pos hb]
          obtain ⟨hb1, hb2⟩ := hb
          have hil : index < t.tables.length - 1 := by omega
          constructor
          · intro e; injection e with e; subst e
            simp [hil, hlast, hb2]
          · intro e
            by_cases h1 : i < t.tables.length - 1
            · simp only [h1, if_true] at e
              by_cases h2 : i = index
              · rw [h2]
              · simp only [h2, if_false] at e
                rw [hb2] at e
                have := idx_inj_of_nodup h.nodup e hlast
                omega
            · simp [h1] at e
        · rw [if_neg hb]
          rw [h.index]
          by_cases h1 : i < t.tables.length - 1
          · simp only [h1, if_true]
            by_cases h2 : i = index
            · subst h2
              simp only [if_true]
              rw [hidx, hlast]
              constructor
              · intro e; injection e with e; exact absurd e.symm hx
              · intro e; injection e with e
                exfalso; apply hb
                refine ⟨by omega, e.symm⟩
            · simp only [h2, if_false]
          · simp only [h1, if_false]
            constructor
            · intro e
              exfalso
              obtain ⟨hil, hix⟩ := List.getElem?_eq_some_iff.1 e
              have hi' : i = t.tables.length - 1 := by omega
              subst hi'
              by_cases hi2 : index = t.tables.length - 1
              · rw [hi2] at hidx; rw [hidx] at e; injection e with e; exact hx e.symm
              · exact hb ⟨hi2, hix.symm⟩
            · intro e; cases e
    refine ⟨nodup_of_index _ _ hidx', ?_, hidx'⟩
    rw [remove_some t id index hf (h.index_lt hf)]
    by_cases hi : index = t.tables.length - 1
    · simp only [hi, if_true]; exact h.uniq.erase _
    · simp only [hi, if_false]; exact (h.uniq.insert _ _).erase _

/-- After `Remove id` the slice is a permutation of the old slice with `id` erased. -/
theorem WF.remove_perm {t : TableIDs} (h : WF t) (id : Nat) :
    (t.remove id).1.tables.Perm (t.tables.erase id) := by
  rw [List.perm_ext_iff_of_nodup (h.remove id).nodup (h.nodup.erase id)]
  intro x
  rw [h.mem_remove, h.nodup.mem_erase_iff]
  exact And.comm

theorem WF.not_mem_remove {t : TableIDs} (h : WF t) (id : Nat) :
    id ∉ (t.remove id).1.tables := fun hx => ((h.mem_remove id id).1 hx).2 rfl

theorem clear_eq (t : TableIDs) : t.clear = {} := rfl

end TableIDs
end Ark
