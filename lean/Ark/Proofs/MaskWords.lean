/-
  Ark.Proofs.MaskWords — the regenerated word-level mask code (`Ark/Generated/Words.lean`:
  `bitMask256` over `[4]uint64`, `bitMask64` over one `uint64`) computes exactly the mask
  operations of the model (`Ark/Model/Mask.lean`, `Ark/Model/Mask64.lean`).

  `abs` reads the four words as one 256-bit vector (word 0 = bits 0…63); `abs64` is the word.
  Kernel-only: every theorem depends on `propext`, `Classical.choice`, `Quot.sound` at most.
-/
import Ark.Generated.Words
import Ark.Model.Mask64

namespace Ark.MaskWords
open Ark Ark.Words Ark.Generated

/-! ## Word-array lemmas -/

theorem getLsbD_abs (a : Arr4) (i : Nat) :
    a.abs.getLsbD i =
      if i < 64 then a.w0.getLsbD i
      else if i < 128 then a.w1.getLsbD (i - 64)
      else if i < 192 then a.w2.getLsbD (i - 128)
      else a.w3.getLsbD (i - 192) := by
  simp only [Arr4.abs, BitVec.getLsbD_append, Nat.sub_sub]
  by_cases h1 : i < 64
  · simp only [h1, if_true]
  · by_cases h2 : i < 128
    · have h2' : i - 64 < 64 := by omega
      simp only [h1, h2, h2', if_true, if_false]
    · have h2' : ¬ i - 64 < 64 := by omega
      by_cases h3 : i < 192
      · have h3' : i - (64 + 64) < 64 := by omega
        simp only [h1, h2, h2', h3, h3', if_true, if_false]
      · have h3' : ¬ i - (64 + 64) < 64 := by omega
        simp only [h1, h2, h2', h3, h3', if_false]

theorem get_of_toNat (a : Arr4) (i : BitVec 8) :
    (i.toNat = 0 → a.get i = a.w0) ∧ (i.toNat = 1 → a.get i = a.w1) ∧
    (i.toNat = 2 → a.get i = a.w2) ∧ (i.toNat = 3 → a.get i = a.w3) := by
  refine ⟨?_, ?_, ?_, ?_⟩ <;> intro h <;> simp [Arr4.get, h]

@[simp] theorem get_0 (a : Arr4) : a.get 0#8 = a.w0 := rfl
@[simp] theorem get_1 (a : Arr4) : a.get 1#8 = a.w1 := rfl
@[simp] theorem get_2 (a : Arr4) : a.get 2#8 = a.w2 := rfl
@[simp] theorem get_3 (a : Arr4) : a.get 3#8 = a.w3 := rfl
@[simp] theorem set_0 (a : Arr4) (v) : a.set 0#8 v = { a with w0 := v } := rfl
@[simp] theorem set_1 (a : Arr4) (v) : a.set 1#8 v = { a with w1 := v } := rfl
@[simp] theorem set_2 (a : Arr4) (v) : a.set 2#8 v = { a with w2 := v } := rfl
@[simp] theorem set_3 (a : Arr4) (v) : a.set 3#8 v = { a with w3 := v } := rfl

/-- bit `n` of the 256-bit value is bit `n % 64` of word `n / 64` -/
theorem getLsbD_abs_get (a : Arr4) (n : Nat) (hn : n < 256) (i : BitVec 8)
    (hi : i.toNat = n / 64) : a.abs.getLsbD n = (a.get i).getLsbD (n % 64) := by
  have hg := get_of_toNat a i
  rw [getLsbD_abs]
  have h4 : n / 64 = 0 ∨ n / 64 = 1 ∨ n / 64 = 2 ∨ n / 64 = 3 := by omega
  rcases h4 with h | h | h | h
  · rw [hg.1 (by omega)]
    have : n < 64 := by omega
    have e : n % 64 = n := by omega
    simp only [this, if_true, e]
  · rw [hg.2.1 (by omega)]
    have h1 : ¬ n < 64 := by omega
    have h2 : n < 128 := by omega
    have e : n % 64 = n - 64 := by omega
    simp only [h1, h2, if_true, if_false, e]
  · rw [hg.2.2.1 (by omega)]
    have h1 : ¬ n < 64 := by omega
    have h2 : ¬ n < 128 := by omega
    have h3 : n < 192 := by omega
    have e : n % 64 = n - 128 := by omega
    simp only [h1, h2, h3, if_true, if_false, e]
  · rw [hg.2.2.2 (by omega)]
    have h1 : ¬ n < 64 := by omega
    have h2 : ¬ n < 128 := by omega
    have h3 : ¬ n < 192 := by omega
    have e : n % 64 = n - 192 := by omega
    simp only [h1, h2, h3, if_false, e]

/-- writing word `i` changes exactly the bits `j` with `j / 64 = i` -/
theorem getLsbD_abs_set (a : Arr4) (i : BitVec 8) (hi : i.toNat < 4) (v : BitVec 64)
    (j : Nat) (hj : j < 256) :
    (a.set i v).abs.getLsbD j =
      if j / 64 = i.toNat then v.getLsbD (j % 64) else a.abs.getLsbD j := by
  have h4 : i.toNat = 0 ∨ i.toNat = 1 ∨ i.toNat = 2 ∨ i.toNat = 3 := by omega
  rw [getLsbD_abs, getLsbD_abs]
  rcases h4 with h | h | h | h <;> simp only [Arr4.set, h] <;>
    (by_cases h1 : j < 64
     · have : j / 64 = 0 := by omega
       have h' : j % 64 = j := by omega
       simp [h1, this, h']
     · by_cases h2 : j < 128
       · have : j / 64 = 1 := by omega
         have h' : j % 64 = j - 64 := by omega
         simp [h1, h2, this, h']
       · by_cases h3 : j < 192
         · have : j / 64 = 2 := by omega
           have h' : j % 64 = j - 128 := by omega
           simp [h1, h2, h3, this, h']
         · have : j / 64 = 3 := by omega
           have h' : j % 64 = j - 192 := by omega
           simp [h1, h2, h3, this, h'])

theorem abs_words_inj (a b : Arr4) (h : a.abs = b.abs) : a = b := by
  have hb : ∀ i, a.abs.getLsbD i = b.abs.getLsbD i := fun i => by rw [h]
  cases a with | mk a0 a1 a2 a3 =>
  cases b with | mk b0 b1 b2 b3 =>
  have e0 : a0 = b0 := by
    apply BitVec.eq_of_getLsbD_eq; intro i hi
    have := hb i; simp only [getLsbD_abs, hi, if_true] at this; exact this
  have e1 : a1 = b1 := by
    apply BitVec.eq_of_getLsbD_eq; intro i hi
    have := hb (i + 64)
    have h1 : ¬ i + 64 < 64 := by omega
    have h2 : i + 64 < 128 := by omega
    simp only [getLsbD_abs, h1, h2, if_true, if_false, Nat.add_sub_cancel] at this; exact this
  have e2 : a2 = b2 := by
    apply BitVec.eq_of_getLsbD_eq; intro i hi
    have := hb (i + 128)
    have h1 : ¬ i + 128 < 64 := by omega
    have h2 : ¬ i + 128 < 128 := by omega
    have h3 : i + 128 < 192 := by omega
    simp only [getLsbD_abs, h1, h2, h3, if_true, if_false, Nat.add_sub_cancel] at this
    exact this
  have e3 : a3 = b3 := by
    apply BitVec.eq_of_getLsbD_eq; intro i hi
    have := hb (i + 192)
    have h1 : ¬ i + 192 < 64 := by omega
    have h2 : ¬ i + 192 < 128 := by omega
    have h3 : ¬ i + 192 < 192 := by omega
    simp only [getLsbD_abs, h1, h2, h3, if_false, Nat.add_sub_cancel] at this
    exact this
  subst e0 e1 e2 e3; rfl

theorem abs_words_eq_iff (a b : Arr4) :
    a.abs = b.abs ↔ a.w0 = b.w0 ∧ a.w1 = b.w1 ∧ a.w2 = b.w2 ∧ a.w3 = b.w3 := by
  constructor
  · intro h; have := abs_words_inj a b h; subst this; exact ⟨rfl, rfl, rfl, rfl⟩
  · intro ⟨h0, h1, h2, h3⟩
    cases a; cases b; simp only at h0 h1 h2 h3; subst h0 h1 h2 h3; rfl

theorem abs_mk_and (a b : Arr4) :
    a.abs &&& b.abs = (Arr4.mk (a.w0 &&& b.w0) (a.w1 &&& b.w1) (a.w2 &&& b.w2) (a.w3 &&& b.w3)).abs := by
  apply BitVec.eq_of_getLsbD_eq; intro i _
  simp only [BitVec.getLsbD_and, getLsbD_abs]
  repeat' split
  all_goals rfl

theorem abs_mk_or (a b : Arr4) :
    a.abs ||| b.abs = (Arr4.mk (a.w0 ||| b.w0) (a.w1 ||| b.w1) (a.w2 ||| b.w2) (a.w3 ||| b.w3)).abs := by
  apply BitVec.eq_of_getLsbD_eq; intro i _
  simp only [BitVec.getLsbD_or, getLsbD_abs]
  repeat' split
  all_goals rfl

theorem abs_mk_not (a : Arr4) :
    ~~~ a.abs = (Arr4.mk (~~~ a.w0) (~~~ a.w1) (~~~ a.w2) (~~~ a.w3)).abs := by
  apply BitVec.eq_of_getLsbD_eq; intro i hi
  simp only [BitVec.getLsbD_not, getLsbD_abs, hi, decide_true, Bool.true_and]
  have h3 : i - 192 < 64 := by omega
  repeat' split
  all_goals simp_all <;> omega

theorem abs_zero : (Arr4.mk 0#64 0#64 0#64 0#64).abs = 0#256 := by
  simp [Arr4.abs]

/-! ## Index arithmetic and the single-bit mask -/

theorem idx_toNat (bit : BitVec 8) : (bit >>> 6).toNat = bit.toNat / 64 := by
  simp [BitVec.toNat_ushiftRight, Nat.shiftRight_eq_div_pow]

theorem off_toNat (bit : BitVec 8) : (bit &&& 63#8).toNat = bit.toNat % 64 := by
  have : (63 : Nat) = 2 ^ 6 - 1 := by decide
  simp only [BitVec.toNat_and, BitVec.toNat_ofNat]
  rw [show (63 % 2 ^ 8 : Nat) = 2 ^ 6 - 1 from by decide, Nat.and_two_pow_sub_one_eq_mod]

theorem idx_lt (bit : BitVec 8) : (bit >>> 6).toNat < 4 := by
  rw [idx_toNat]; have := bit.isLt; omega

/-- bit `j` of `1 << k` at width 64 -/
theorem getLsbD_one_shl (k j : Nat) :
    ((1#64) <<< k).getLsbD j = (decide (j < 64) && decide (j = k)) := by
  simp only [BitVec.getLsbD_shiftLeft, BitVec.getLsbD_one]
  by_cases h1 : j < 64
  · by_cases h2 : j = k
    · subst h2; simp [h1]
    · by_cases h3 : j < k
      · simp [h1, h2, h3]
      · have : j - k ≠ 0 := by omega
        simp [h1, h2, h3, this]
  · simp [h1]

/-- bit `j` of `1 << k` at width 256 -/
theorem getLsbD_bit256 (k j : Nat) :
    (Mask.bit k).getLsbD j = (decide (j < 256) && decide (j = k)) := by
  simp only [Mask.bit, BitVec.getLsbD_shiftLeft, BitVec.getLsbD_one]
  by_cases h1 : j < 256
  · by_cases h2 : j = k
    · subst h2; simp [h1]
    · by_cases h3 : j < k
      · simp [h1, h2, h3]
      · have : j - k ≠ 0 := by omega
        simp [h1, h2, h3, this]
  · simp [h1]

/-- the Go idiom `x & mask == mask` for a one-bit mask tests that bit -/
theorem and_one_shl_beq (x : BitVec 64) (k : Nat) (hk : k < 64) :
    ((x &&& ((1#64) <<< k)) == ((1#64) <<< k)) = x.getLsbD k := by
  cases hx : x.getLsbD k
  · apply beq_eq_false_iff_ne.mpr
    intro h
    have := congrArg (fun v => v.getLsbD k) h
    simp only [BitVec.getLsbD_and, getLsbD_one_shl, hx, hk] at this
    simp at this
  · apply beq_iff_eq.mpr
    apply BitVec.eq_of_getLsbD_eq
    intro j hj
    rw [BitVec.getLsbD_and, getLsbD_one_shl]
    by_cases h2 : j = k
    · subst h2; simp [hx, hj]
    · simp [h2]

/-- the other Go idiom for the same test, `x & mask != 0` -/
theorem and_one_shl_bne (x : BitVec 64) (k : Nat) (hk : k < 64) :
    ((x &&& ((1#64) <<< k)) != 0#64) = x.getLsbD k := by
  cases hx : x.getLsbD k
  · have : (x &&& ((1#64) <<< k)) = 0#64 := by
      apply BitVec.eq_of_getLsbD_eq
      intro j hj
      rw [BitVec.getLsbD_and, getLsbD_one_shl]
      by_cases h2 : j = k
      · subst h2; simp [hx]
      · simp [h2]
    simp [this]
  · apply bne_iff_ne.mpr
    intro h
    have := congrArg (fun v => v.getLsbD k) h
    simp only [BitVec.getLsbD_and, getLsbD_one_shl, hx, hk] at this
    simp at this

/-! ## popcount -/

theorem countP_range_add (p : Nat → Bool) (n m : Nat) :
    (List.range (n + m)).countP p = (List.range n).countP p + (List.range m).countP (fun i => p (n + i)) := by
  rw [List.range_add, List.countP_append, List.countP_map]
  rfl

theorem popCount_eq (x : BitVec 64) : Words.popCount x = ((List.range 64).filter x.getLsbD).length := by
  simp only [Words.popCount, List.countP_eq_length_filter]

/-! ## `bitMask256` -/

/-- the 256-bit value of a `bitMask256` -/
def abs (m : M256) : Mask := m.bits.abs

theorem abs_injective {a b : M256} (h : abs a = abs b) : a = b := by
  cases a with | mk x => cases b with | mk y =>
  have := abs_words_inj x y h
  subst this; rfl

theorem get_inRange (b : M256) (bit : BitVec 8) : M256.Get_inRange b bit := idx_lt bit
theorem set_inRange (b : M256) (bit : BitVec 8) : M256.Set_inRange b bit := idx_lt bit
theorem clear_inRange (b : M256) (bit : BitVec 8) : M256.Clear_inRange b bit := idx_lt bit

theorem get_eq (b : M256) (bit : BitVec 8) : M256.Get b bit = (abs b).get bit.toNat := by
  have hoff : bit.toNat % 64 < 64 := Nat.mod_lt _ (by decide)
  simp only [M256.Get, abs, Mask.get, BitVec.shiftLeft_eq', off_toNat]
  first
    | rw [and_one_shl_beq _ _ hoff, getLsbD_abs_get b.bits bit.toNat bit.isLt (bit >>> 6) (idx_toNat bit)]
    | rw [and_one_shl_bne _ _ hoff, getLsbD_abs_get b.bits bit.toNat bit.isLt (bit >>> 6) (idx_toNat bit)]

theorem set_eq (b : M256) (bit : BitVec 8) : abs (M256.Set b bit) = (abs b).set bit.toNat := by
  have hlt : bit.toNat < 256 := bit.isLt
  apply BitVec.eq_of_getLsbD_eq; intro j hj
  simp only [M256.Set, abs, Mask.set, BitVec.shiftLeft_eq', off_toNat, BitVec.getLsbD_or,
    getLsbD_bit256]
  rw [getLsbD_abs_set _ _ (idx_lt bit) _ _ hj, idx_toNat]
  by_cases h : j / 64 = bit.toNat / 64
  · have hm : j % 64 < 64 := Nat.mod_lt _ (by decide)
    have e : (j % 64 = bit.toNat % 64) = (j = bit.toNat) := by
      apply propext; constructor <;> intro <;> omega
    rw [getLsbD_abs_get b.bits j hj (bit >>> 6) (by rw [idx_toNat, h])]
    simp only [h, if_true, hm, hj, decide_true, Bool.true_and, e, BitVec.getLsbD_or,
      getLsbD_one_shl]
  · have e : ¬ j = bit.toNat := by intro e; subst e; exact h rfl
    simp [h, e]

theorem clear_eq (b : M256) (bit : BitVec 8) :
    abs (M256.Clear b bit) = (abs b).clear bit.toNat := by
  have hlt : bit.toNat < 256 := bit.isLt
  apply BitVec.eq_of_getLsbD_eq; intro j hj
  simp only [M256.Clear, abs, Mask.clear, BitVec.shiftLeft_eq', off_toNat, BitVec.getLsbD_and,
    BitVec.getLsbD_not, getLsbD_bit256]
  rw [getLsbD_abs_set _ _ (idx_lt bit) _ _ hj, idx_toNat]
  by_cases h : j / 64 = bit.toNat / 64
  · have hm : j % 64 < 64 := Nat.mod_lt _ (by decide)
    have e : (j % 64 = bit.toNat % 64) = (j = bit.toNat) := by
      apply propext; constructor <;> intro <;> omega
    rw [getLsbD_abs_get b.bits j hj (bit >>> 6) (by rw [idx_toNat, h])]
    simp only [h, if_true, hm, hj, decide_true, Bool.true_and, e, BitVec.getLsbD_and,
      BitVec.getLsbD_not, getLsbD_one_shl]
  · have e : ¬ j = bit.toNat := by intro e; subst e; exact h rfl
    simp [h, e, hj]

theorem not_eq (b : M256) : abs (M256.Not b) = (abs b).not := by
  simp only [M256.Not, abs, Mask.not, abs_mk_not, get_0, get_1, get_2, get_3]

theorem orI_eq (b o : M256) : abs (M256.OrI b o) = (abs b).or (abs o) := by
  simp only [M256.OrI, abs, Mask.or, abs_mk_or, get_0, get_1, get_2, get_3, set_0, set_1,
    set_2, set_3]

theorem reset_eq (b : M256) : abs (M256.Reset b) = Mask.empty := by
  simp only [M256.Reset, abs, Mask.empty, abs_zero]

theorem abs_eq_zero_iff (a : Arr4) :
    a.abs = 0#256 ↔ a.w0 = 0#64 ∧ a.w1 = 0#64 ∧ a.w2 = 0#64 ∧ a.w3 = 0#64 := by
  rw [← abs_zero, abs_words_eq_iff]

theorem isZero_eq (b : M256) : M256.IsZero b = (abs b).isZero := by
  simp only [M256.IsZero, abs, Mask.isZero, get_0, get_1, get_2, get_3]
  rw [Bool.eq_iff_iff]
  simp only [Bool.and_eq_true, beq_iff_eq, abs_eq_zero_iff, and_assoc]

theorem contains_eq (b o : M256) : M256.Contains b o = (abs b).contains (abs o) := by
  simp only [M256.Contains, abs, Mask.contains, get_0, get_1, get_2, get_3, abs_mk_and]
  rw [Bool.eq_iff_iff]
  simp only [Bool.and_eq_true, beq_iff_eq, abs_words_eq_iff, and_assoc]

theorem containsAny_eq (b o : M256) :
    M256.ContainsAny b o = (abs b).containsAny (abs o) := by
  simp only [M256.ContainsAny, abs, Mask.containsAny, get_0, get_1, get_2, get_3, abs_mk_and]
  rw [Bool.eq_iff_iff]
  simp only [Bool.or_eq_true, bne_iff_ne, ne_eq, abs_eq_zero_iff]
  generalize b.bits.w0 &&& o.bits.w0 = x0
  generalize b.bits.w1 &&& o.bits.w1 = x1
  generalize b.bits.w2 &&& o.bits.w2 = x2
  generalize b.bits.w3 &&& o.bits.w3 = x3
  by_cases h0 : x0 = 0#64 <;> by_cases h1 : x1 = 0#64 <;> by_cases h2 : x2 = 0#64 <;>
    by_cases h3 : x3 = 0#64 <;> simp [h0, h1, h2, h3]

theorem equals_eq (b o : M256) : M256.Equals b o = decide (abs b = abs o) := by
  by_cases h : abs b = abs o
  · rw [decide_eq_true h]
    have := abs_injective h
    subst this
    simp only [M256.Equals, beq_self_eq_true]
  · rw [decide_eq_false h]
    simp only [M256.Equals, beq_eq_false_iff_ne, ne_eq]
    intro e; apply h; simp only [abs, e]

theorem totalBitsSet_eq (b : M256) : M256.TotalBitsSet b = ((abs b).toList 256).length := by
  have key : ∀ p : Nat → Bool, (List.range 256).countP p =
      (List.range 64).countP p + (List.range 64).countP (fun i => p (64 + i)) +
      (List.range 64).countP (fun i => p (128 + i)) +
      (List.range 64).countP (fun i => p (192 + i)) := by
    intro p
    rw [show (256 : Nat) = 192 + 64 from rfl, countP_range_add,
      show (192 : Nat) = 128 + 64 from rfl, countP_range_add,
      show (128 : Nat) = 64 + 64 from rfl, countP_range_add]
  simp only [M256.TotalBitsSet, Mask.toList, ← List.countP_eq_length_filter, key,
    Words.popCount, get_0, get_1, get_2, get_3, abs, Mask.get]
  have hg : ∀ (m : Mask) (i : Nat), Mask.get m i = m.getLsbD i := fun _ _ => rfl
  congr 1
  · congr 1
    · congr 1
      · apply List.countP_congr; intro i hi
        have := List.mem_range.mp hi
        simp only [hg, getLsbD_abs, this, if_true]
      · apply List.countP_congr; intro i hi
        have := List.mem_range.mp hi
        have h1 : ¬ 64 + i < 64 := by omega
        have h2 : 64 + i < 128 := by omega
        simp only [getLsbD_abs, h1, h2, if_true, if_false, Nat.add_sub_cancel_left]
    · apply List.countP_congr; intro i hi
      have := List.mem_range.mp hi
      have h1 : ¬ 128 + i < 64 := by omega
      have h2 : ¬ 128 + i < 128 := by omega
      have h3 : 128 + i < 192 := by omega
      simp only [getLsbD_abs, h1, h2, h3, if_true, if_false, Nat.add_sub_cancel_left]
  · apply List.countP_congr; intro i hi
    have := List.mem_range.mp hi
    have h1 : ¬ 192 + i < 64 := by omega
    have h2 : ¬ 192 + i < 128 := by omega
    have h3 : ¬ 192 + i < 192 := by omega
    simp only [getLsbD_abs, h1, h2, h3, if_false, Nat.add_sub_cancel_left]

theorem abs_foldl_set (ids : List (BitVec 8)) (m : M256) :
    abs (ids.foldl M256.Set m) = (ids.map (·.toNat)).foldl Mask.set (abs m) := by
  induction ids generalizing m with
  | nil => rfl
  | cons x xs ih => simp only [List.foldl_cons, List.map_cons, ih, set_eq]

theorem ofIDs_eq (ids : List (BitVec 8)) :
    abs (M256.ofIDs ids) = Mask.ofList (ids.map (·.toNat)) := by
  simp only [M256.ofIDs, Mask.ofList, abs_foldl_set]
  rfl

/-! ## `bitMask64` -/

/-- the value of a `bitMask64` -/
def abs64 (m : M64) : Mask64 := m.bits

theorem abs64_injective {a b : M64} (h : abs64 a = abs64 b) : a = b := by
  cases a; cases b; simp only [abs64] at h; subst h; rfl

/-- `Get` agrees with the model for bits below 64 … -/
theorem get64_eq (b : M64) (bit : BitVec 8) (h : bit.toNat < 64) :
    M64.Get b bit = (abs64 b).get bit.toNat := by
  simp only [M64.Get, abs64, Mask64.get, BitVec.shiftLeft_eq']
  exact and_one_shl_beq _ _ h

/-- … and beyond, the Go code answers `true` (the mask `1 << bit` is 0), whereas the model
    answers `false`.  The tiny build never has component IDs ≥ 64 (its registry is full at 64). -/
theorem get64_out_of_range (b : M64) (bit : BitVec 8) (h : 64 ≤ bit.toNat) :
    M64.Get b bit = true := by
  simp only [M64.Get, BitVec.shiftLeft_eq', BitVec.shiftLeft_eq_zero h, BitVec.and_zero,
    beq_self_eq_true]

theorem set64_eq (b : M64) (bit : BitVec 8) :
    abs64 (M64.Set b bit) = (abs64 b).set bit.toNat := rfl

theorem clear64_eq (b : M64) (bit : BitVec 8) :
    abs64 (M64.Clear b bit) = (abs64 b).clear bit.toNat := rfl

theorem not64_eq (b : M64) : abs64 (M64.Not b) = (abs64 b).not := rfl

theorem orI64_eq (b o : M64) : abs64 (M64.OrI b o) = (abs64 b).or (abs64 o) := rfl

theorem reset64_eq (b : M64) : abs64 (M64.Reset b) = Mask64.empty := rfl

theorem isZero64_eq (b : M64) : M64.IsZero b = (abs64 b).isZero := rfl

theorem contains64_eq (b o : M64) : M64.Contains b o = (abs64 b).contains (abs64 o) := rfl

theorem containsAny64_eq (b o : M64) :
    M64.ContainsAny b o = (abs64 b).containsAny (abs64 o) := rfl

theorem equals64_eq (b o : M64) : M64.Equals b o = decide (abs64 b = abs64 o) := by
  by_cases h : abs64 b = abs64 o
  · rw [decide_eq_true h]
    have := abs64_injective h
    subst this
    simp only [M64.Equals, beq_self_eq_true]
  · rw [decide_eq_false h]
    simp only [M64.Equals, beq_eq_false_iff_ne, ne_eq]
    intro e; apply h; simp only [abs64, e]

theorem totalBitsSet64_eq (b : M64) :
    M64.TotalBitsSet b = ((abs64 b).toList 64).length := by
  simp only [M64.TotalBitsSet, abs64, Mask64.toList, Words.popCount,
    List.countP_eq_length_filter]
  rfl

theorem abs64_foldl_set (ids : List (BitVec 8)) (m : M64) :
    abs64 (ids.foldl M64.Set m) = (ids.map (·.toNat)).foldl Mask64.set (abs64 m) := by
  induction ids generalizing m with
  | nil => rfl
  | cons x xs ih => simp only [List.foldl_cons, List.map_cons, ih, set64_eq]

theorem ofIDs64_eq (ids : List (BitVec 8)) :
    abs64 (M64.ofIDs ids) = Mask64.ofList (ids.map (·.toNat)) := by
  simp only [M64.ofIDs, Mask64.ofList, abs64_foldl_set]
  rfl

end Ark.MaskWords
