/-
  Ark.Proofs.BatchRelClean — C06 + C04 with relations, part 1: the cleanup of a removed relation
  target while OTHER removed targets are still pending.

  `RemoveEntities(batch)` un-indexes and recycles ALL selected entities first and only then runs
  `cleanupArchetypes e` for every selected entity that carried the target flag.  During the
  cleanup of `g` the tables may therefore still target other dead entities; the filter of
  `cleanupArchetypes` (`r.target.id == g.id || !alive r.target`, the repaired defect D2) resets
  those as well.  This file generalises the invariants of `Ark.Proofs.TargetsCleanup` from one
  pending dead target `g` to a list `D` of pending dead targets:

  * `OKTs w D h` — the targets admitted while `D` is pending: the zero entity, an alive entity
    whose ID is the ID of no pending target, or a pending target;
  * `DeadSet p D` — the pending targets are dead and have non-zero IDs;
  * `zeroDead p h` — what the cleanup writes for a column holding `h`: the zero entity if `h` is
    dead, else `h` (the pool does not change during the cleanup);
  * `cleanRelsD_spec` — the relation list the cleanup builds for one table (multi-target form of
    `cleanRels_spec`);
  * `CleanBaseD D w` — the multi-target form of `CleanBase g w`;
  * `cleanGetD` — the destination table of one cleanup step (multi-target form of `cleanGet`),
    with `QKeep` (rows hold alive handles, component index, empty cache carry over).
  The relation-index invariant needs no generalisation: `RInvExcept w a g.id` ("up to key
  `g.id`") is what holds while the tables listed under `g` are freed, whatever else is pending.
  Kernel-only proofs, core Lean only.
-/
import Ark.Proofs.QueryRelRemove

set_option autoImplicit false

namespace Ark

open World Ark.Props.C01World QueryRel

/-! ## 1. vocabulary -/

/-- targets admitted while the dead targets `D` (already removed from the pool) are pending: the
    zero entity, an alive entity with the ID of no pending target, or a pending target -/
def OKTs (w : World) (D : List Ent) (h : Ent) : Prop :=
  h.isZero = true ∨ (w.alive h = true ∧ ∀ (d : Ent), d ∈ D → h.id ≠ d.id) ∨ h ∈ D

/-- the pending targets are dead and none of them is the zero entity -/
structure DeadSet (p : Pool) (D : List Ent) : Prop where
  dead : ∀ (d : Ent), d ∈ D → p.alive d = false
  nz : ∀ (d : Ent), d ∈ D → d.id ≠ 0

/-- the new target of a column whose target was `h`: dead targets are reset -/
def zeroDead (p : Pool) (h : Ent) : Ent :=
  if (!h.isZero && !p.alive h) = true then Ent.zero else h

theorem zeroDead_idem (p : Pool) (h : Ent) : zeroDead p (zeroDead p h) = zeroDead p h := by
  unfold zeroDead
  by_cases hc : (!h.isZero && !p.alive h) = true
  · rw [if_pos hc]; rfl
  · rw [if_neg hc, if_neg hc]

theorem DeadSet.tail {p : Pool} {g : Ent} {D : List Ent} (h : DeadSet p (g :: D)) : DeadSet p D :=
  ⟨fun d hd => h.dead d (List.mem_cons_of_mem _ hd), fun d hd => h.nz d (List.mem_cons_of_mem _ hd)⟩

/-- the filter of `cleanupArchetypes g` selects exactly the relations with a dead target -/
theorem cleanFilterD_iff {w : World} {D : List Ent} {g h : Ent} (hk : OKTs w D h)
    (hD : DeadSet w.pool D) (hg : g ∈ D) :
    (h.id == g.id || (!h.isZero && !w.alive h)) = true ↔ (!h.isZero && !w.alive h) = true := by
  constructor
  · intro hf
    rcases hk with h1 | ⟨_, h2⟩ | h1
    · simp only [Ent.isZero, beq_iff_eq] at h1
      simp only [Ent.isZero, h1, beq_self_eq_true, Bool.not_true, Bool.false_and, Bool.or_false,
        beq_iff_eq] at hf
      exact absurd hf.symm (hD.nz g hg)
    · rcases Bool.or_eq_true_iff.1 hf with h3 | h3
      · exact absurd (beq_iff_eq.1 h3) (h2 g hg)
      · exact h3
    · have hd : w.alive h = false := hD.dead h h1
      have hz : h.isZero = false := by
        simp only [Ent.isZero, beq_eq_false_iff_ne]; exact hD.nz h h1
      rw [hd, hz]; rfl
  · intro hf; rw [hf, Bool.or_true]

/-- under `OKTs`, the edited target is the zero entity or an alive entity whose ID is pending
    nowhere -/
theorem OKTs.zeroDead_good {w : World} {D : List Ent} {h : Ent} (hk : OKTs w D h)
    (hD : DeadSet w.pool D) :
    (zeroDead w.pool h).isZero = true ∨
      (w.alive (zeroDead w.pool h) = true ∧ ∀ (d : Ent), d ∈ D → (zeroDead w.pool h).id ≠ d.id) := by
  unfold zeroDead
  by_cases hc : (!h.isZero && !w.pool.alive h) = true
  · rw [if_pos hc]; exact Or.inl rfl
  · rw [if_neg hc]
    rcases hk with h1 | h1 | h1
    · exact Or.inl h1
    · exact Or.inr h1
    · have hd : w.pool.alive h = false := hD.dead h h1
      have hz : h.isZero = false := by
        simp only [Ent.isZero, beq_eq_false_iff_ne]; exact hD.nz h h1
      rw [hd, hz] at hc
      exact absurd rfl hc

theorem OKTs.zeroDead_id_ne {w : World} {D : List Ent} {g h : Ent} (hk : OKTs w D h)
    (hD : DeadSet w.pool D) (hg : g ∈ D) : (zeroDead w.pool h).id ≠ g.id := by
  rcases hk.zeroDead_good hD with h1 | h1
  · simp only [Ent.isZero, beq_iff_eq] at h1
    rw [h1]; exact fun e => hD.nz g hg e.symm
  · exact h1.2 g hg

/-- a column whose target carries the ID of a pending target is reset -/
theorem OKTs.zeroDead_of_id {w : World} {D : List Ent} {g h : Ent} (hk : OKTs w D h)
    (hD : DeadSet w.pool D) (hg : g ∈ D) (hid : h.id = g.id) : zeroDead w.pool h = Ent.zero := by
  rcases hk with h1 | ⟨_, h2⟩ | h1
  · simp only [Ent.isZero, beq_iff_eq] at h1
    rw [hid] at h1; exact absurd h1 (hD.nz g hg)
  · exact absurd hid (h2 g hg)
  · have hd : w.pool.alive h = false := hD.dead h h1
    have hz : h.isZero = false := by
      simp only [Ent.isZero, beq_eq_false_iff_ne]; exact hD.nz h h1
    unfold zeroDead
    rw [hd, hz]; rfl

/-! ## 2. the relation list the cleanup builds for one table -/

/-- What the cleanup computes for a non-free table `T` with an exact relation list whose
    targets are admitted: the edited target list replaces every dead target by the zero entity in
    every relation column, and every relation handed to the loop names a column. -/
theorem cleanRelsD_spec {w : World} {D : List Ent} {g : Ent} {T : Table} (hex : T.RelsExact)
    (hnd : T.ids.Nodup) (hrl : T.isRel.length = T.ids.length)
    (hok : ∀ (i : Nat), T.isRel.getD i false = true → OKTs w D (T.targets.getD i Ent.zero))
    (hD : DeadSet w.pool D) (hg : g ∈ D) :
    (∀ (r : RelID), r ∈ cleanRels w g T → (T.colIdx r.comp).isSome = true) ∧
    (setTargets T.colIdx (cleanRels w g T) T.targets).length = T.ids.length ∧
    ∀ (i : Nat), T.isRel.getD i false = true →
      (setTargets T.colIdx (cleanRels w g T) T.targets).getD i Ent.zero =
        zeroDead w.pool (T.targets.getD i Ent.zero) := by
  -- members of `cleanRels`
  have hmem : ∀ (r' : RelID), r' ∈ cleanRels w g T ↔
      ∃ (r : RelID), r ∈ T.relIDs ∧ (!r.target.isZero && !w.alive r.target) = true ∧
        r' = ⟨r.comp, Ent.zero⟩ := by
    intro r'
    simp only [cleanRels, List.mem_map, List.mem_filter]
    constructor
    · rintro ⟨r, ⟨hr, hf⟩, rfl⟩
      obtain ⟨i, _, h2, h3⟩ := hex.sound r hr
      refine ⟨r, hr, ?_, rfl⟩
      exact (cleanFilterD_iff (h3 ▸ hok i h2) hD hg).1 hf
    · rintro ⟨r, hr, hg', rfl⟩
      obtain ⟨i, _, h2, h3⟩ := hex.sound r hr
      exact ⟨r, ⟨hr, (cleanFilterD_iff (h3 ▸ hok i h2) hD hg).2 hg'⟩, rfl⟩
  refine ⟨?_, by rw [setTargets_length, hex.tlen], ?_⟩
  · intro r' hr'
    obtain ⟨r, hr, _, rfl⟩ := (hmem r').1 hr'
    obtain ⟨i, h1, _, _⟩ := hex.sound r hr
    rw [Table.colIdx_of_get hnd h1]; rfl
  · intro i hi
    have hil : i < T.ids.length := by rw [← hrl]; exact lt_of_getD_true hi
    by_cases hgi : (!(T.targets.getD i Ent.zero).isZero && !w.alive (T.targets.getD i Ent.zero)) = true
    · rw [zeroDead, if_pos (show (!(T.targets.getD i Ent.zero).isZero &&
        !w.pool.alive (T.targets.getD i Ent.zero)) = true from hgi)]
      apply setTargets_getD_eq
      · rw [hex.tlen]; exact hil
      · intro r' hr' _
        obtain ⟨r, _, _, rfl⟩ := (hmem r').1 hr'
        rfl
      · left
        obtain ⟨c, hc⟩ : ∃ (c : Comp), T.ids[i]? = some c := ⟨_, List.getElem?_eq_getElem hil⟩
        have := hex.complete i c hc hi
        exact ⟨⟨c, Ent.zero⟩, (hmem _).2 ⟨⟨c, T.targets.getD i Ent.zero⟩, this, hgi, rfl⟩,
          Table.colIdx_of_get hnd hc⟩
    · rw [zeroDead, if_neg (show ¬ (!(T.targets.getD i Ent.zero).isZero &&
        !w.pool.alive (T.targets.getD i Ent.zero)) = true from hgi)]
      apply setTargets_getD_keep
      intro r' hr' hc
      obtain ⟨r, hr, hg', rfl⟩ := (hmem r').1 hr'
      have := (hex.col hnd hr hc).2
      rw [← this] at hg'
      exact hgi hg'

/-! ## 3. the invariants of the cleanup -/

/-- what holds of the world while the dead targets `D` are pending (apart from the relation
    indices) -/
structure CleanBaseD (D : List Ent) (w : World) : Prop where
  idx : IdxInv w
  sinv : SInv w
  tgts : TargetsSat (OKTs w D) w
  rels : RelListsOK w
  cacheRels : CacheRelsOK w
  flags : FlagsOK w
  freeEmpty : FreeEmpty w
  relArchs : RelArchsOK w

/-- `OKTs` reads the pool only -/
theorem OKTs.mono_alive {w w' : World} {D : List Ent} {h : Ent} (hk : OKTs w D h)
    (hp : w'.pool = w.pool) : OKTs w' D h := by
  rcases hk with h1 | ⟨h1, h2⟩ | h1
  · exact Or.inl h1
  · exact Or.inr (Or.inl ⟨by simp only [World.alive, hp]; exact h1, h2⟩)
  · exact Or.inr (Or.inr h1)

/-! ## 4. finding or creating the destination table -/

/-- **the destination table of one cleanup step**: for the non-free table `tid` of archetype `a`
    with a column targeting the pending target `g ∈ D`, `getOrCreate` on the relation list read off
    the edited targets (every dead target reset)
    never panics, keeps the cleanup invariants and returns another active table of `a` whose
    relation columns hold the edited targets. -/
theorem cleanGetD {D : List Ent} {g : Ent} {a tid : Nat} {w : World} {ts' : List Ent}
    (hB : CleanBaseD D w) (hD : DeadSet w.pool D) (hg : g ∈ D)
    (hX : RInvExcept w a g.id) (hlt : tid < w.tables.length)
    (hTa : (w.tbl tid).arch = a) (hTf : (w.tbl tid).isFree = false)
    (hcol0 : ∃ (i0 : Nat), (w.tbl tid).isRel.getD i0 false = true ∧
      ((w.tbl tid).targets.getD i0 Ent.zero).id = g.id)
    (hl : ts'.length = (w.tbl tid).ids.length)
    (hts : ∀ (i : Nat), (w.tbl tid).isRel.getD i false = true →
      ts'.getD i Ent.zero = zeroDead w.pool ((w.tbl tid).targets.getD i Ent.zero)) :
    ∃ (nt : Nat) (w1 : World),
      getOrCreate a (colRels (w.tbl tid).ids ts' (w.tbl tid).isRel) w = .ok nt w1 ∧
      CleanBaseD D w1 ∧ RInvExcept w1 a g.id ∧ CleanGot w w1 a tid nt ts' ∧ QKeep w w1 := by
  have hS := hB.sinv.toSInvMid
  have hT := get_of_lt hlt
  obtain ⟨A, hA, i1, i2, i3, _⟩ := hS.tblArch tid _ hT
  rw [hTa] at hA
  have hAe : w.arch a = A := arch_of_get hA
  have halt := alt_of_get hA
  have hnd := hS.ids_nodup hT
  have hrl := hS.isRel_len hT
  have hTex := hB.rels tid _ hT hTf
  obtain ⟨i0, hi0, hg0t⟩ := hcol0
  have hrelA : A.hasRelations = true :=
    (hS.astruct a A hA).hasRelations_of_rel (by rw [← i2]; exact hi0)
  obtain ⟨f1, f2, f3, f4⟩ := colRels_facts (ts := ts') hnd hl hrl
  have hnum : A.numRel = (colRels (w.tbl tid).ids ts' (w.tbl tid).isRel).length := by
    rw [f2, (hS.astruct a A hA).numRelEq, i2]
  -- the edited targets are zero or alive with another ID
  have hgood : ∀ (i : Nat), (w.tbl tid).isRel.getD i false = true →
      (ts'.getD i Ent.zero).isZero = true ∨
      (w.alive (ts'.getD i Ent.zero) = true ∧ ∀ (d : Ent), d ∈ D → (ts'.getD i Ent.zero).id ≠ d.id) := by
    intro i hi
    rw [hts i hi]
    exact (hB.tgts tid _ hT hTf i hi).zeroDead_good hD
  have hidne : ∀ (i : Nat), (w.tbl tid).isRel.getD i false = true →
      (ts'.getD i Ent.zero).id ≠ g.id := by
    intro i hi
    rw [hts i hi]
    exact (hB.tgts tid _ hT hTf i hi).zeroDead_id_ne hD hg
  -- a column of another table of `a` (same layout)
  have hcolOf : ∀ (Tt : Table), Tt.ids = (w.tbl tid).ids → Tt.isRel = (w.tbl tid).isRel →
      ∀ (r : RelID), r ∈ colRels (w.tbl tid).ids ts' (w.tbl tid).isRel → ∀ (j : Nat),
      Tt.colIdx r.comp = some j →
        Tt.isRel.getD j false = true ∧ ts'.getD j Ent.zero = r.target := by
    intro Tt e1 e2 r hr j hj
    obtain ⟨i, a1, a2, a3⟩ := f3 r hr
    have hj' := Table.colIdx_get hj
    rw [e1] at hj'
    have := Table.colIdx_of_get hnd a1
    rw [Table.colIdx_of_get hnd hj'] at this
    obtain rfl := Option.some.inj this
    exact ⟨by rw [e2]; exact a2, a3⟩
  -- the head of the relation list
  cases hall : colRels (w.tbl tid).ids ts' (w.tbl tid).isRel with
  | nil =>
    rw [hall] at hnum
    simp [Archetype.hasRelations, hnum] at hrelA
  | cons r0 rest =>
    have hr0 : r0 ∈ colRels (w.tbl tid).ids ts' (w.tbl tid).isRel := by rw [hall]; exact List.mem_cons_self
    obtain ⟨ic, c1, c2, c3⟩ := f3 r0 hr0
    have hcolA : (w.arch a).colIdx r0.comp = some ic := by
      rw [hAe, ← colIdx_fun_eq i1]; exact Table.colIdx_of_get hnd c1
    have hk : r0.target.id ≠ g.id := by rw [← c3]; exact hidne ic c2
    have hlenA : (w.arch a).numRel ≤ (r0 :: rest).length := by rw [hAe, hnum, hall]; exact Nat.le_refl _
    have hrelA' : (w.arch a).hasRelations = true := by rw [hAe]; exact hrelA
    -- a table listed under the head's target is an active, non-free table of `a`
    have hlisted : ∀ (ts : TableIDs),
        AL.find? ((w.arch a).relationTables.getD ic []) r0.target.id = some ts → ∀ (t : Nat),
        t ∈ ts.tables → t ∈ A.tables.tables ∧ ∃ (Tt : Table), w.tables[t]? = some Tt ∧
          Tt.arch = a ∧ Tt.isFree = false ∧ Tt.ids = (w.tbl tid).ids ∧
          Tt.isRel = (w.tbl tid).isRel ∧ Tt.zst = (w.tbl tid).zst := by
      intro ts hf t ht
      rw [hAe] at hf
      have hact := ((hX.1 A hA).listed (by rw [← i2]; exact c2) hk hf ht).1
      obtain ⟨Tt, hTt, hTta⟩ := hS.owned a A t hA (Or.inl hact)
      obtain ⟨A', hA', j1, j2, j3, _⟩ := hS.tblArch t Tt hTt
      rw [hTta, hA] at hA'
      obtain rfl := Option.some.inj hA'
      have hfree := (hS.member t Tt hTt).1
      rw [hTta, hAe] at hfree
      exact ⟨hact, Tt, hTt, hTta, hfree.2 hact, by rw [j1, i1], by rw [j2, i2], by rw [j3, i3]⟩
    have htotal : ∃ (r : Option Nat),
        getTable a (r0 :: rest) w = .ok r w := by
      apply getTable_rel_total hrelA' hlenA hcolA
        (by rw [← hall]; exact colRels_comps_nodup hnd _ _)
      intro ts hf t ht
      obtain ⟨_, Tt, hTt, _, hTtf, e1, e2, _⟩ := hlisted ts hf t ht
      rw [tbl_of_get hTt]
      apply Table.matchesExact_total
      · have := (hB.rels t Tt hTt hTtf).length_le (hS.isRel_len hTt)
        rw [e2] at this
        rw [← hall, f2]; exact this
      · intro r hr j hj
        rw [← hall] at hr
        exact (hcolOf Tt e1 e2 r hr j hj).1
    obtain ⟨res, hres⟩ := htotal
    cases res with
    | some nt =>
      -- an existing table
      obtain ⟨ts, hf, hm⟩ := getTable_rel_some hrelA' hlenA hcolA hres
      obtain ⟨hact, Tn, hTn, hTna, hTnf, e1, e2, e3⟩ := hlisted ts hf nt hm
      have hTne := tbl_of_get hTn
      have hyes := (Table.matchesExact_yes (getTable_found hres hrelA')).2
      have hntTgt : ∀ (i : Nat), (w.tbl tid).isRel.getD i false = true →
          (w.tbl nt).targets.getD i Ent.zero = ts'.getD i Ent.zero := by
        intro i hi
        have hil : i < (w.tbl tid).ids.length := by rw [← hrl]; exact lt_of_getD_true hi
        have hc : (w.tbl tid).ids[i]? = some (w.tbl tid).ids[i] := List.getElem?_eq_getElem hil
        have hmem := f4 i _ hc hi
        rw [hall] at hmem
        have hci : (w.tbl nt).colIdx (w.tbl tid).ids[i] = some i := by
          rw [hTne]; exact Table.colIdx_of_get (by rw [e1]; exact hnd) (by rw [e1]; exact hc)
        exact (hyes _ hmem i hci).2
      refine ⟨nt, w, getOrCreate_found hres, hB, hX, ?_, QKeep.refl w⟩
      refine
        { ntLt := lt_of_get hTn
          ntNe := ?_
          ntArch := by rw [hTne]; exact hTna
          ntFree := by rw [hTne]; exact hTnf
          ntActive := by rw [hAe]; exact hact
          ntIds := by rw [hTne]; exact e1
          ntIsRel := by rw [hTne]; exact e2
          ntZst := by rw [hTne]; exact e3
          ntTgt := hntTgt
          others := fun _ _ => rfl
          ntRows := fun _ => ⟨_, _, Table.eta_free (by rw [hTne]; exact hTnf)⟩
          ntKeep := fun _ => Or.inl rfl
          entities := rfl, pool := rfl, isTarget := rfl, kinds := rfl, obs := rfl, locks := rfl,
          maxComps := rfl, relationArchetypes := rfl, archLen := rfl
          otherArchs := fun _ _ => rfl
          actA := ?_
          archIsRel := rfl
          tablesLe := Nat.le_refl _
          lenB := Nat.le_succ _
          lenFresh := fun h => absurd h (by omega) }
      · intro hh
        have h1 := hntTgt i0 hi0
        rw [hh] at h1
        have h2 := hidne i0 hi0
        rw [← h1] at h2
        exact h2 hg0t
      · intro t
        constructor
        · exact Or.inl
        · rintro (h1 | rfl)
          · exact h1
          · rw [hAe]; exact hact
    | none =>
      -- a table is created (or recycled)
      have hcols : ∀ (r : RelID), r ∈ r0 :: rest → ((w.arch a).colIdx r.comp).isSome = true := by
        intro r hr
        rw [← hall] at hr
        obtain ⟨i, a1, _, _⟩ := f3 r hr
        rw [hAe, ← colIdx_fun_eq i1, Table.colIdx_of_get hnd a1]; rfl
      have hokt : ∀ (r : RelID), r ∈ r0 :: rest → r.target.isZero = true ∨
          (w.alive r.target = true ∧ ∀ (d : Ent), d ∈ D → r.target.id ≠ d.id) := by
        intro r hr
        rw [← hall] at hr
        obtain ⟨i, _, a2, a3⟩ := f3 r hr
        rw [← a3]; exact hgood i a2
      have hvalid : RelsValid w (r0 :: rest) := by
        intro r hr
        have hr' := hr
        rw [← hall] at hr'
        obtain ⟨i, a1, a2, _⟩ := f3 r hr'
        refine ⟨hS.isRelComp_of_col hT a1 a2, ?_⟩
        rcases hokt r hr with h1 | h1
        · exact Or.inl h1
        · exact Or.inr h1.1
      have hndall : ((r0 :: rest).map (·.comp)).Nodup := by rw [← hall]; exact f1
      obtain ⟨nt, w1, hct, ct⟩ := hS.createTable_total hB.cacheRels halt
        (fun hf => by rw [hrelA'] at hf; cases hf) hlenA hcols hndall hvalid
      obtain ⟨hTt, hTna, hTr, hTnf, hTg, hTi⟩ := ct.tbl
      have hu := createTable_untouched hct
      obtain ⟨hra, hcr⟩ := createTable_frame hct
      have hrels1 : RelListsOK w1 := hB.rels.created halt ct hS hndall
      have hal : ∀ (e : Ent), w1.alive e = w.alive e := fun e => by simp only [World.alive, ct.pool]
      have hids1 : (w1.tbl nt).ids = (w.tbl tid).ids := by rw [hTi, hAe, i1]
      obtain ⟨A1, hA1, j1, j2, j3, _⟩ := ct.sinvMid.tblArch nt _ hTt
      rw [hTna] at hA1
      have hc1 : A1.comps = A.comps := by
        have := arch_of_get hA1
        rw [← this, ct.archA.2.1, hAe]
      obtain ⟨hir, hiz⟩ := hS.flags_of_comps ct.sinvMid ct.kinds hA hA1 hc1
      have hisrel1 : (w1.tbl nt).isRel = (w.tbl tid).isRel := by rw [j2, hir, i2]
      have hzst1 : (w1.tbl nt).zst = (w.tbl tid).zst := by rw [j3, hiz, i3]
      have hntTgt : ∀ (i : Nat), (w.tbl tid).isRel.getD i false = true →
          (w1.tbl nt).targets.getD i Ent.zero = ts'.getD i Ent.zero := by
        intro i hi
        have hil : i < (w.tbl tid).ids.length := by rw [← hrl]; exact lt_of_getD_true hi
        have hc : (w.tbl tid).ids[i]? = some (w.tbl tid).ids[i] := List.getElem?_eq_getElem hil
        have hmem := f4 i _ hc hi
        rw [hall] at hmem
        have hci : (w1.tbl nt).colIdx (w.tbl tid).ids[i] = some i :=
          Table.colIdx_of_get (by rw [hids1]; exact hnd) (by rw [hids1]; exact hc)
        exact ((hrels1 nt _ hTt hTnf).col (ct.sinvMid.ids_nodup hTt)
          (by rw [hTr]; exact hmem) hci).2
      have htidAct : tid ∈ A.tables.tables := by
        have := (hS.member tid _ hT).1
        rw [hTa, hAe] at this
        exact this.1 hTf
      have hntne : nt ≠ tid := by
        rcases ct.kind with ⟨k1, _⟩ | ⟨_, _, k3, _⟩
        · omega
        · rw [hAe] at k3
          intro hh
          exact (hS.astruct a A hA).disjoint tid htidAct (hh ▸ k3)
      have hB1 : CleanBaseD D w1 := by
        refine
          { idx := ct.idx hB.idx
            sinv := ct.sinv (fun b _ => hB.sinv.settled b)
            tgts := ?_
            rels := hrels1
            cacheRels := hcr hB.cacheRels
            flags := ?_
            freeEmpty := hB.freeEmpty.created ct
            relArchs := hB.relArchs.created halt ct hra }
        · refine (hB.tgts.created ct (Or.inl rfl) ?_).mono ?_
          · intro r hr
            rcases hokt r hr with h1 | h1
            · exact Or.inl h1
            · exact Or.inr (Or.inl h1)
          · intro e he
            rcases he with h1 | ⟨h1, h2⟩ | h1
            · exact Or.inl h1
            · exact Or.inr (Or.inl ⟨by rw [hal]; exact h1, h2⟩)
            · exact Or.inr (Or.inr h1)
        · have := (hB.flags.upTo []).created ct hu.isTarget (by
            intro r hr hz
            left
            have hr' := hr
            rw [← hall] at hr'
            obtain ⟨i, _, a2, a3⟩ := f3 r hr'
            rw [← a3] at hz ⊢
            rw [hts i a2, zeroDead] at hz ⊢
            split
            · rename_i heq; rw [if_pos heq] at hz; cases hz
            · rename_i hne
              rw [if_neg hne] at hz
              exact hB.flags tid _ hT hTf i a2 hz)
          intro t0 T0 hT0 hf i hi hz
          rcases this t0 T0 hT0 hf i hi hz with h1 | ⟨r, hr, _⟩
          · exact h1
          · cases hr
      have htgfun : ∀ (t : Nat), (w1.tbl t).targets =
          if t = nt then ctTargets A (r0 :: rest) else (w.tbl t).targets := by
        intro t
        by_cases ht : t = nt
        · subst ht; rw [if_pos rfl, hTg, hAe]
        · rw [if_neg ht]
          simp only [tbl, List.getD_eq_getElem?_getD, ct.others t ht]
      have hX1 : RInvExcept w1 a g.id := by
        obtain ⟨_, _, _, h4, h5⟩ := createTable_ok hct
        obtain ⟨fa, _⟩ := cacheAddTable_frame h5
        constructor
        · intro A1' hA1'
          have hA1e : A1' = (createTableS w a (r0 :: rest)).1.arch a := by
            rw [← arch_of_get hA1']; simp only [arch, fa]
          have hexc := hS.createTableS_except hA (r0 :: rest) (hX.1 A hA) (by
            intro i hi
            have hi' : (w.tbl tid).isRel.getD i false = true := by rw [i2]; exact hi
            have := hntTgt i hi'
            rw [hTg, hAe] at this
            rw [this]; exact hidne i hi')
          rw [hA1e]
          rw [← h4] at hexc
          exact hexc.congr_tgt (fun t _ => htgfun t)
        · intro b B hb hB'
          have hBw : w.archetypes[b]? = some B := by rw [← ct.otherArchs b hb]; exact hB'
          refine (hX.2 b B hb hBw).congr_tgt ?_
          intro t ht
          have hne : t ≠ nt := by
            rintro rfl
            obtain ⟨T', hT', hTb⟩ := ct.sinvMid.owned b B t hB' (Or.inl ht)
            rw [hTt] at hT'
            rw [← Option.some.inj hT', hTna] at hTb
            exact hb hTb.symm
          show (w1.tbl t).targets = (w.tbl t).targets
          rw [htgfun, if_neg hne]
      refine ⟨nt, w1, getOrCreate_created hres hct, hB1, hX1, ?_,
        getOrCreate_qkeep (getOrCreate_created hres hct)⟩
      refine
        { ntLt := lt_of_get hTt
          ntNe := hntne
          ntArch := hTna
          ntFree := hTnf
          ntActive := ct.active
          ntIds := hids1
          ntIsRel := hisrel1
          ntZst := hzst1
          ntTgt := hntTgt
          others := ct.others
          ntRows := ?_
          ntKeep := ?_
          entities := ct.entities, pool := ct.pool, isTarget := hu.isTarget, kinds := ct.kinds,
          obs := hu.obs, locks := hu.locks, maxComps := hu.maxComps, relationArchetypes := hra,
          archLen := ct.archLen
          otherArchs := ct.otherArchs
          actA := ?_
          archIsRel := by rw [arch_of_get hA1, hir, hAe]
          tablesLe := ?_
          lenB := ?_
          lenFresh := ?_ }
      · intro hlt'
        rcases ct.kind with ⟨k1, _⟩ | ⟨_, _, _, _, k5⟩
        · omega
        · exact ⟨_, _, k5⟩
      · intro hlt'
        rcases ct.kind with ⟨k1, _⟩ | ⟨_, _, _, k4, _⟩
        · omega
        · exact Or.inr k4
      · intro t
        rw [ct.archA.2.2.2.2]; simp
      · rcases ct.kind with ⟨_, k2, _⟩ | ⟨_, k2, _⟩ <;> omega
      · rcases ct.kind with ⟨_, k2, _⟩ | ⟨_, k2, _⟩ <;> omega
      · intro hh
        rcases ct.kind with ⟨_, _, _, k4⟩ | ⟨_, k2, _⟩
        · exact k4
        · omega

end Ark
