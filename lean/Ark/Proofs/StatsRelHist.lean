/-
  Ark.Proofs.StatsRelHist — property C19 for worlds WITH relation tables, part 5: histories.

  The machine `step4` = the relation machine with `Exchange` (`Ark.RelRefine3.step3`: entity
  operations with relation components — `NewEntity`, `Add`, `Remove`, `SetRelations`, `Set`,
  `RemoveEntity` (with `cleanupArchetypes`: relation tables are FREED and RECYCLED), `Exchange`,
  `CopyEntity`, `Shrink` (frees empty relation tables), `Reset` (frees ALL relation tables; the
  statistics object `w.stats` survives it), filter definition / registration /
  unregistration, complete query iterations) plus `stats` = `World.Stats()`.

  * `exec_rstep`, `step3_rstep` — every step of the relation machine is an `RStep` (archetypes
    only appended, the existing ones keep component list and relation count, registered sizes
    unchanged, `w.stats` untouched, no observer registered) — while the NUMBER OF ACTIVE TABLES
    of a relation archetype goes up and down;
  * the invariants of the machine do not read the statistics object (`HInv2.setStats`);
  * `HInv4` — `HInv2`, and the stored object is `Compatible` with the world, and no observer was
    ever registered; `step4_inv`, `reach4_inv` (all histories with `ops.length < 2^16`, `Reset`
    included: the scope of `RelRefine3.reach3_inv`);
  * `reach4_opStats` — **incremental = fresh at every `Stats()` call of every history**;
    `reach4_agree` — and the figures agree with the contents (`AgreeRel`);
  * `reach4_stored` — the stored object IS the exact statistics of an earlier world of the
    history: the world at the last `Stats()` call (or the empty object, before the first).

  Kernel-only proofs, core Lean only.
-/
import Ark.Proofs.StatsRelOps
import Ark.Proofs.StatsRelAgree
import Ark.Proofs.RelExchangeHist

set_option autoImplicit false

namespace Ark

open World Ark.Props.C01World QueryRel QueryExact

/-! ## 1. the invariants do not read the statistics object -/

theorem TInv.setStats {w : World} {fl : List Nat} (h : TInv w fl) (st : WorldStats) :
    TInv { w with stats := st } fl where
  rel := h.rel.of_sameMeta rfl rfl rfl rfl rfl (fun _ _ => Table.SameMeta.refl _) (fun _ ha => ha)
  flags := h.flags
  freeEmpty := h.freeEmpty
  link := h.link.congr (h.link.idx.congr rfl rfl) rfl rfl rfl rfl
  kindsLe := h.kindsLe

theorem RelRefine.HInv.setStats {s : RelRefine.St} {fl : List Nat} (H : RelRefine.HInv s fl)
    (st : WorldStats) : RelRefine.HInv ⟨{ s.w with stats := st }, s.issued, s.ss⟩ fl where
  tinv := H.tinv.setStats st
  ginv := H.ginv
  unlocked := H.unlocked
  noObs := H.noObs
  nodup := H.nodup
  zstEq := H.zstEq
  relEq := H.relEq
  maxc := H.maxc
  ok := fun e en hm =>
    (H.ok e en hm).frame ⟨fun c => valOf_congr rfl rfl _ c, compsOf_congr rfl rfl _⟩ (fun _ => rfl)
  tgtsOK := H.tgtsOK

theorem RelRefine2.FInvR.setStats {w : World} (h : RelRefine2.FInvR w) (st : WorldStats) :
    RelRefine2.FInvR { w with stats := st } where
  cache := ⟨h.cache.uniq, h.cache.index, fun e hm => ⟨(h.cache.entries e hm).1,
    fun t => ((h.cache.entries e hm).2 t).trans
      (Selected_congr (w := w) (w' := { w with stats := st }) rfl rfl e.filter e.rels t).symm⟩⟩
  heap := ⟨h.heap.reg, h.heap.inj, h.heap.typed, h.heap.rels⟩
  cidx := h.cidx.of_frame ⟨rfl, rfl, rfl, fun _ => rfl⟩
  rows := h.rows
  lock := h.lock
  pool := ⟨h.pool.avail, h.pool.bound⟩

theorem RelRefine2.HInv2.setStats {s : RelRefine.St} {fl : List Nat} (H : RelRefine2.HInv2 s fl)
    (st : WorldStats) : RelRefine2.HInv2 ⟨{ s.w with stats := st }, s.issued, s.ss⟩ fl :=
  ⟨H.base.setStats st, H.finv.setStats st⟩

/-! ## 2. every step of the relation machine is an `RStep` -/

namespace RelStats

open RelRefine RelRefine2 RelRefine3

theorem noObs_of_hinv {s : St} {fl : List Nat} (H : HInv s fl) : NoObs s.w := H.noObs

/-- **every successful operation of the relation machine `Ark.RelRefine`** (`reg`, `new p`,
    `add p`, `rem p`, `setrel p`, `set`, `del`), on a world without observers -/
theorem exec_rstep (run : ProbeRunner) {w : World} (hno : NoObs w) (hS : SInvMid w) {op : Op}
    {r : Option Ent} {w' : World} (hex : exec run w op = .ok r w') : RStep w w' := by
  cases op with
  | reg size z ir =>
    cases hr : registerComponent { isRel := ir, zst := z, size := size } w with
    | panic k w1 => simp only [exec, hr] at hex; cases hex
    | ok n w1 =>
      simp only [exec, hr] at hex
      injection hex with _ h2
      subst h2
      exact RStep.of_sstep_obs (SStep.registerComponent hS hr) (registerComponent_obs hr)
  | new p ids vals rels =>
    cases hr : opNewEntity run p ids vals rels w with
    | panic k w1 => simp only [exec, hr] at hex; cases hex
    | ok n w1 =>
      simp only [exec, hr] at hex
      injection hex with _ h2
      subst h2
      exact (fr_opNewEntity run p ids vals rels w hno).2 _ _ hr
  | add p e ids vals rels =>
    cases hr : opAdd run p e ids vals rels w with
    | panic k w1 => simp only [exec, hr] at hex; cases hex
    | ok n w1 =>
      simp only [exec, hr] at hex
      injection hex with _ h2
      subst h2
      exact (fr_opAdd run p e ids vals rels w hno).2 _ _ hr
  | rem p e ids =>
    cases hr : opRemove run p e ids w with
    | panic k w1 => simp only [exec, hr] at hex; cases hex
    | ok n w1 =>
      simp only [exec, hr] at hex
      injection hex with _ h2
      subst h2
      exact (fr_opRemove run p e ids w hno).2 _ _ hr
  | setrel p e rels =>
    cases hr : opSetRelations run p e (rels.map (·.comp)) rels w with
    | panic k w1 => simp only [exec, hr] at hex; cases hex
    | ok n w1 =>
      simp only [exec, hr] at hex
      injection hex with _ h2
      subst h2
      exact (fr_opSetRelations run p e _ rels w hno).2 _ _ hr
  | set e vals =>
    cases hr : opSet run e (Refine.keys vals) vals w with
    | panic k w1 => simp only [exec, hr] at hex; cases hex
    | ok n w1 =>
      simp only [exec, hr] at hex
      injection hex with _ h2
      subst h2
      exact (fr_opSet run e _ vals w hno).2 _ _ hr
  | del e =>
    cases hr : opRemoveEntity run e w with
    | panic k w1 => simp only [exec, hr] at hex; cases hex
    | ok n w1 =>
      simp only [exec, hr] at hex
      injection hex with _ h2
      subst h2
      exact (fr_opRemoveEntity run e w hno).2 _ _ hr

/-- every step of `Ark.RelRefine` (guard failing, call rejected, call succeeding) -/
theorem step_rstep (run : ProbeRunner) {s : St} {fl : List Nat} (H : HInv s fl)
    (hfew : s.w.tables.length + s.w.relationArchetypes.length + 1 ≤ maxU32)
    (hent : 2 * s.w.entities.length < 2 ^ 32) (op : Op) : RStep s.w (step run s op).w := by
  obtain ⟨_, _, _, _, g4, g5⟩ := step_goal run H hfew hent op
  by_cases hg : guard s op = true
  case neg =>
    have : step run s op = s := by rw [step, if_neg hg]
    rw [this]; exact RStep.refl _
  have hw : (step run s op).w = (exec run s.w op).state := by rw [step_of_guard hg]
  rcases Classical.em (pre s.ss op) with hp | hnp
  · obtain ⟨r, w', hex⟩ := g5 hg hp
    have hw' : (step run s op).w = w' := by rw [hw, hex]; rfl
    rw [hw']; exact exec_rstep run H.noObs H.tinv.rel.sinv.toSInvMid hex
  · obtain ⟨k, hex⟩ := g4 hg hnp
    have hw' : (step run s op).w = s.w := by rw [hw, hex]; rfl
    rw [hw']; exact RStep.refl _

theorem SameButCF.rstep {w w' : World} (h : SameButCF w w') : RStep w w' := by
  unfold SameButCF at h
  exact RStep.of_eq (by rw [h]) (by rw [h]) (by rw [h]) (by rw [h])

theorem rstep_withLocks (w : World) (l : Lock) : RStep w (w.withLocks l) :=
  RStep.of_eq rfl rfl rfl rfl

/-- `Shrink` on any world: relation tables that are empty are freed -/
theorem rstep_shrinkPure (w : World) (bounded : Bool) : RStep w (shrinkPure w bounded).1 :=
  shrinkPure_induct (fun w' => RStep w w')
    (fun w' t h => h.trans (RStep.of_sstep_obs (SStep.shrinkStep w' t)
      (shrinkStep_sameFrame w' t).obs)) bounded w (RStep.refl w)

/-- **every step of the relation machine `Ark.RelRefine2`**, `Reset` included (it keeps the
    archetypes, frees all relation tables and does not touch the statistics object) -/
theorem step2_rstep (run : ProbeRunner) {s : St} {fl : List Nat} (H : HInv2 s fl)
    (hfew : s.w.tables.length + s.w.relationArchetypes.length + 1 ≤ maxU32)
    (hent : 2 * s.w.entities.length < 2 ^ 32) (op : Op2) :
    RStep s.w (step2 run s op).w := by
  have hno : NoObs s.w := H.base.noObs
  cases op with
  | base op => exact step_rstep run H.base hfew hent op
  | copy e =>
    by_cases hi : e ∈ s.issued
    case neg =>
      simp only [step2, decide_eq_true_eq, if_neg hi]; exact RStep.refl _
    simp only [step2, decide_eq_true_eq, if_pos hi]
    cases hr : opCopyEntity run e s.w with
    | ok e' w' => exact (fr_opCopyEntity run e s.w hno).2 _ _ hr
    | panic k w' =>
      cases ha : s.w.alive e with
      | false =>
        rw [opCopyEntity_dead run s.w H.base.unlocked e ha] at hr
        injection hr with _ h2
        subst h2
        exact RStep.refl _
      | true =>
        obtain ⟨en, _, hm⟩ := H.base.find_of_alive hi ha
        obtain ⟨_, _, h2, hnf, _, _⟩ := H.base.live_facts hm
        obtain ⟨w2, hop, _⟩ := opCopyEntity_rel_spec run H.base.tinv H.base.unlocked H.base.noObs
          h2 hnf ha (H.base.issued_in hi) (by omega)
        rw [hop] at hr; cases hr
  | shrink bounded =>
    simp only [step2, opShrink_eq bounded s.w H.base.unlocked]
    exact rstep_shrinkPure _ _
  | reset =>
    simp only [step2, opReset_eq s.w H.base.unlocked]
    exact ⟨SStep.reset H.base.tinv.rel.sinv, fun hn evt => by
      show ((resetW s.w).obs.evt evt).hasObservers = false
      rw [resetW_obs]; exact ObsMgr.reset_noObs hn evt⟩
  | fdef f fo =>
    by_cases hg : guardF s.w fo = true
    · simp only [step2, if_pos hg]
      exact SameButCF.rstep (defFilter_sameButCF f fo s.w).1
    · simp only [step2, if_neg hg]; exact RStep.refl _
  | freg f => exact SameButCF.rstep (H.finv.filterRegister H.base.tinv f).2.1
  | funreg f => exact SameButCF.rstep (H.finv.filterUnregister H.base.tinv f).2.1
  | query f extra =>
    -- the query changes the lock's bit pool only (or is rejected without effect)
    by_cases hg : guardQ s.w (RelRefine2.foAt s.w f) extra = true
    case neg =>
      simp only [step2, if_neg hg]; exact RStep.refl _
    simp only [step2, if_pos hg]
    obtain ⟨hrt, hfok⟩ := foAt_facts H.finv.heap f
    by_cases hx : ExtraAdmissible s.w (RelRefine2.foAt s.w f) extra
    case neg =>
      have ht : (RelRefine2.foAt s.w f).typed = true := by
        cases htt : (RelRefine2.foAt s.w f).typed with
        | true => rfl
        | false =>
          exfalso
          apply hx
          refine ⟨fun h => (by rw [htt] at h; cases h), fun _ r hr => ?_⟩
          simp only [guardQ, htt, Bool.false_or, List.all_eq_true, Bool.and_eq_true] at hg
          exact hg r hr
      have hbad : ¬ ExtraOK s.w (RelRefine2.foAt s.w f).filter.mask extra :=
        fun h => hx ⟨fun _ => h, fun h' => by rw [ht] at h'; cases h'⟩
      obtain ⟨k, _, hd⟩ := drain_rejected (RelRefine2.foAt s.w f) extra s.w ht hbad
      rw [hd]
      exact RStep.refl _
    obtain ⟨l1, l2, b, hL, g2⟩ := H.qgood.lockCycle
    obtain ⟨d1, d2⟩ := H.drain_both hrt hfok hx hL
    have hdr : ∃ (visits : List Visit),
        drain (RelRefine2.foAt s.w f) extra s.w = .ok visits (s.w.withLocks l2) := by
      cases hc : (RelRefine2.foAt s.w f).cache with
      | none =>
        obtain ⟨q, visits, Q⟩ := d1 hc
        exact ⟨visits, Q.drained⟩
      | some id =>
        cases hfind : AL.find? s.w.filters f with
        | none => simp only [RelRefine2.foAt, hfind] at hc; cases hc
        | some fo =>
          have hfo : RelRefine2.foAt s.w f = fo := by simp only [RelRefine2.foAt, hfind]; rfl
          obtain ⟨e, he, h1, h2, h3⟩ := H.finv.heap.reg f fo id hfind (by rw [← hfo]; exact hc)
          have hlook := lookup_of_mem H.finv.cache he
          rw [h1] at hlook
          obtain ⟨q, visits, Q⟩ := d2 id e hc hlook (by rw [hfo]; exact h2) (by rw [hfo]; exact h3)
          exact ⟨visits, Q.drained⟩
    obtain ⟨visits, hd⟩ := hdr
    rw [hd]
    exact rstep_withLocks _ _

/-- **every step of the relation machine with `Exchange`, `Ark.RelRefine3`** -/
theorem step3_rstep (run : ProbeRunner) {s : St} {fl : List Nat} (H : HInv2 s fl)
    (hfew : s.w.tables.length + s.w.relationArchetypes.length + 1 ≤ maxU32)
    (hent : 2 * s.w.entities.length < 2 ^ 32) (op : Op3) :
    RStep s.w (step3 run s op).w := by
  cases op with
  | base2 op => exact step2_rstep run H hfew hent op
  | xchg p e add vals rem rels =>
    obtain ⟨_, _, g3, g4⟩ := step3_xchg run H (by omega) (by omega) p e add vals rem rels
    by_cases hg : guardXchg s p e add rels = true
    case neg =>
      simp only [step3, if_neg hg]; exact RStep.refl _
    simp only [step3, if_pos hg]
    rcases Classical.em (preXchg s.ss e add rem rels) with hp | hnp
    · obtain ⟨w', hex⟩ := g4 hg hp
      rw [hex]
      exact (fr_opExchange run p e add vals rem rels s.w H.base.noObs).2 _ _ hex
    · obtain ⟨k, hex⟩ := g3 hg hnp
      rw [hex]
      exact RStep.refl _


/-! ## 3. the history machine with `Stats()` calls -/

/-- the operations: those of the relation machine with `Exchange`, plus `World.Stats()` -/
inductive Op4
  | op (o : Op3)
  /-- `World.Stats()`: updates the re-used object `w.stats` in place and returns it -/
  | stats
  deriving Repr

/-- is the operation `World.Reset` (no theorem needs to exclude it any more) -/
def Op4.isReset : Op4 → Bool
  | .op o => o.isReset
  | .stats => false

def Op4.isStats : Op4 → Bool
  | .op _ => false
  | .stats => true

/-- one step; `Stats()` leaves the ghost history and the specification alone -/
def step4 (run : ProbeRunner) (s : St) : Op4 → St
  | .op o => step3 run s o
  | .stats => { s with w := (opStats s.w).state }

def runOps4 (run : ProbeRunner) (s : St) (ops : List Op4) : St := ops.foldl (step4 run) s

/-- the state reached from `NewWorld(cap, rel)` by the history `ops` -/
def reach4 (run : ProbeRunner) (cap rel : Nat) (ops : List Op4) : St :=
  runOps4 run (St.init cap rel) ops

theorem reach4_snoc (run : ProbeRunner) (cap rel : Nat) (ops : List Op4) (op : Op4) :
    reach4 run cap rel (ops ++ [op]) = step4 run (reach4 run cap rel ops) op := by
  simp only [reach4, runOps4, List.foldl_append, List.foldl_cons, List.foldl_nil]

/-- **the inductive invariant**: that of the relation machine (`HInv2` ⊇ `RelRefine.HInv` ⊇
    `TInv`; `FInvR`), and: the re-used statistics object is compatible with the world, and no
    observer was ever registered -/
structure HInv4 (s : St) (fl : List Nat) : Prop where
  base : HInv2 s fl
  compat : Compatible s.w.stats s.w
  obs0 : s.w.obs.totalCount = 0

theorem hinv4_init (cap rel : Nat) : HInv4 (St.init cap rel) [] :=
  ⟨hinv2_init cap rel, compatible_empty _, rfl⟩

/-- `Stats()` on a state whose object is compatible -/
theorem step4_stats_eq (run : ProbeRunner) {s : St} (hc : Compatible s.w.stats s.w) :
    step4 run s .stats = ⟨{ s.w with stats := statsFresh s.w }, s.issued, s.ss⟩ := by
  show ({ s with w := (opStats s.w).state } : St) = _
  rw [opStats_eq s.w hc]; rfl

/-- **one step keeps the invariant** (every operation, `Reset` included) -/
theorem step4_inv (run : ProbeRunner) {s : St} {fl : List Nat} (H : HInv4 s fl)
    (hfew : s.w.tables.length + s.w.relationArchetypes.length + 1 ≤ maxU32)
    (hent : 2 * s.w.entities.length < 2 ^ 32) (op : Op4) :
    (∃ fl', HInv4 (step4 run s op) fl') ∧ Grows s (step4 run s op) := by
  cases op with
  | op o =>
    obtain ⟨⟨fl1, h1⟩, g⟩ := step3_inv run H.base hfew hent o
    have rs := step3_rstep run H.base hfew hent o
    exact ⟨⟨fl1, h1, H.compat.sstep rs.sstep, rs.sstep.obs0 H.obs0⟩, g⟩
  | stats =>
    rw [step4_stats_eq run H.compat]
    exact ⟨⟨fl, H.base.setStats _, compatible_fresh_self s.w, H.obs0⟩,
      ⟨by show s.w.tables.length ≤ _; omega, Nat.le_succ _, Nat.le_succ _⟩⟩

/-- the invariant holds after every history that stays within the size bounds -/
theorem run4_inv (run : ProbeRunner) (ops : List Op4) : ∀ (s : St) (fl : List Nat), HInv4 s fl →
    s.w.tables.length + ops.length * (s.w.relationArchetypes.length + ops.length) +
      s.w.relationArchetypes.length + ops.length + 1 ≤ maxU32 →
    2 * (s.w.entities.length + ops.length) < 2 ^ 32 →
    ∃ fl', HInv4 (runOps4 run s ops) fl' ∧
      (runOps4 run s ops).w.tables.length ≤
        s.w.tables.length + ops.length * (s.w.relationArchetypes.length + ops.length) ∧
      (runOps4 run s ops).w.relationArchetypes.length ≤ s.w.relationArchetypes.length + ops.length ∧
      (runOps4 run s ops).w.entities.length ≤ s.w.entities.length + ops.length := by
  induction ops with
  | nil =>
    intro s fl h _ _
    exact ⟨fl, h, by simp [runOps4], by simp [runOps4], by simp [runOps4]⟩
  | cons op ops ih =>
    intro s fl h hb1 hb2
    simp only [List.length_cons] at hb1 hb2 ⊢
    have e1 : (ops.length + 1) * (s.w.relationArchetypes.length + (ops.length + 1)) =
        ops.length * (s.w.relationArchetypes.length + 1 + ops.length) +
          (s.w.relationArchetypes.length + 1 + ops.length) := by
      rw [Nat.succ_mul]
      have : s.w.relationArchetypes.length + (ops.length + 1) =
          s.w.relationArchetypes.length + 1 + ops.length := by omega
      rw [this]
    rw [e1] at hb1 ⊢
    obtain ⟨⟨fl1, h1⟩, g⟩ := step4_inv run h (by omega) (by omega) op
    obtain ⟨g1, g2, g3⟩ := g
    have hm : ops.length * ((step4 run s op).w.relationArchetypes.length + ops.length) ≤
        ops.length * (s.w.relationArchetypes.length + 1 + ops.length) :=
      Nat.mul_le_mul_left _ (by omega)
    obtain ⟨fl2, h2, b1, b2, b3⟩ := ih _ fl1 h1 (by omega) (by omega)
    refine ⟨fl2, h2, ?_, ?_, ?_⟩
    · show (runOps4 run (step4 run s op) ops).w.tables.length ≤ _; omega
    · show (runOps4 run (step4 run s op) ops).w.relationArchetypes.length ≤ _; omega
    · show (runOps4 run (step4 run s op) ops).w.entities.length ≤ _; omega

/-- **the invariant holds at every reachable state** (the bound of `RelRefine.reach_hinv`) -/
theorem reach4_inv (run : ProbeRunner) (cap rel : Nat) (ops : List Op4)
    (hlen : ops.length < 2 ^ 16) :
    ∃ fl, HInv4 (reach4 run cap rel ops) fl := by
  have hsq : ops.length * ops.length ≤ 65535 * 65535 := Nat.mul_le_mul (by omega) (by omega)
  obtain ⟨fl, h, _⟩ := run4_inv run ops _ [] (hinv4_init cap rel)
    (by
      show 1 + ops.length * (0 + ops.length) + 0 + ops.length + 1 ≤ maxU32
      rw [Nat.zero_add]; simp only [maxU32]; omega)
    (by show 2 * (2 + ops.length) < 2 ^ 32; omega)
  exact ⟨fl, h⟩

/-- the size hypotheses of the step lemmas hold in every reachable state (one more operation
    fits) -/
theorem reach4_fits (run : ProbeRunner) (cap rel : Nat) (ops : List Op4)
    (hlen : ops.length + 1 < 2 ^ 16) :
    (reach4 run cap rel ops).w.tables.length + (reach4 run cap rel ops).w.relationArchetypes.length +
      1 ≤ maxU32 ∧ 2 * (reach4 run cap rel ops).w.entities.length < 2 ^ 32 := by
  have hsq : ops.length * ops.length ≤ 65535 * 65535 := Nat.mul_le_mul (by omega) (by omega)
  obtain ⟨fl, _, b1, b2, b3⟩ := run4_inv run ops _ [] (hinv4_init cap rel)
    (by
      show 1 + ops.length * (0 + ops.length) + 0 + ops.length + 1 ≤ maxU32
      rw [Nat.zero_add]; simp only [maxU32]; omega)
    (by show 2 * (2 + ops.length) < 2 ^ 32; omega)
  have b1' : (reach4 run cap rel ops).w.tables.length ≤ 1 + ops.length * (0 + ops.length) := b1
  have b2' : (reach4 run cap rel ops).w.relationArchetypes.length ≤ 0 + ops.length := b2
  have b3' : (reach4 run cap rel ops).w.entities.length ≤ 2 + ops.length := b3
  rw [Nat.zero_add] at b1' b2'
  simp only [maxU32]
  omega

/-! ## 4. the theorems over histories -/

/-- **incremental = fresh at every `Stats()` call of every history**: whatever entity
    operations with relations (creating, freeing and recycling relation tables), filter
    operations, queries and earlier `Stats()` calls came before, the call returns (and stores)
    the statistics a world asked for the first time would report -/
theorem reach4_opStats (run : ProbeRunner) (cap rel : Nat) (ops : List Op4)
    (hlen : ops.length < 2 ^ 16) :
    opStats (reach4 run cap rel ops).w =
      .ok (statsFresh (reach4 run cap rel ops).w)
        { (reach4 run cap rel ops).w with stats := statsFresh (reach4 run cap rel ops).w } := by
  obtain ⟨fl, H⟩ := reach4_inv run cap rel ops hlen
  exact opStats_eq _ H.compat

/-- **C19 at every reachable state of the relation machine**: the statistics `Stats()` returns
    are the fresh statistics of the world, and they agree with the contents -/
theorem reach4_agree (run : ProbeRunner) (cap rel : Nat) (ops : List Op4)
    (hlen : ops.length < 2 ^ 16) :
    ∃ (st : WorldStats),
      opStats (reach4 run cap rel ops).w =
        .ok st { (reach4 run cap rel ops).w with stats := st } ∧
      st = statsFresh (reach4 run cap rel ops).w ∧
      AgreeRel (reach4 run cap rel ops) st ∧ st.observers = 0 := by
  obtain ⟨fl, H⟩ := reach4_inv run cap rel ops hlen
  exact ⟨_, opStats_eq _ H.compat, rfl, agreeRel_fresh H.base.base, H.obs0⟩

/-- a `Stats()` step stores the fresh statistics of the world before it -/
theorem reach4_after_stats (run : ProbeRunner) (cap rel : Nat) (ops : List Op4)
    (hlen : ops.length < 2 ^ 16) :
    (reach4 run cap rel (ops ++ [.stats])).w.stats = statsFresh (reach4 run cap rel ops).w := by
  obtain ⟨fl, H⟩ := reach4_inv run cap rel ops hlen
  rw [reach4_snoc, step4_stats_eq run H.compat]

/-- any other step leaves the stored object alone -/
theorem reach4_after_op (run : ProbeRunner) (cap rel : Nat) (ops : List Op4) (o : Op3)
    (hlen : ops.length + 1 < 2 ^ 16) :
    (reach4 run cap rel (ops ++ [.op o])).w.stats = (reach4 run cap rel ops).w.stats := by
  obtain ⟨fl, H⟩ := reach4_inv run cap rel ops (by omega)
  obtain ⟨f1, f2⟩ := reach4_fits run cap rel ops hlen
  rw [reach4_snoc]
  exact (step3_rstep run H.base f1 f2 o).sstep.stats

/-- the history up to (excluding) its last `Stats()` call, if it has one -/
def lastStatsPrefix : List Op4 → Option (List Op4)
  | [] => none
  | op :: rest =>
    match lastStatsPrefix rest with
    | some pre => some (op :: pre)
    | none => if op.isStats then some [] else none

theorem lastStatsPrefix_snoc_stats : ∀ (ops : List Op4),
    lastStatsPrefix (ops ++ [.stats]) = some ops
  | [] => rfl
  | op :: rest => by
    simp only [List.cons_append, lastStatsPrefix, lastStatsPrefix_snoc_stats rest]

theorem lastStatsPrefix_snoc_op (o : Op3) : ∀ (ops : List Op4),
    lastStatsPrefix (ops ++ [.op o]) = lastStatsPrefix ops
  | [] => rfl
  | op :: rest => by
    simp only [List.cons_append, lastStatsPrefix, lastStatsPrefix_snoc_op o rest]

/-- **the stored object is the exact statistics of an earlier world of the history**: the world
    at the last `Stats()` call — or the empty object if there was no call yet.  (Between that call
    and now tables of relation archetypes may have been freed and recycled; the stored per-table
    lists are those of THEN.) -/
theorem reach4_stored (run : ProbeRunner) (cap rel : Nat) :
    ∀ (n : Nat) (ops : List Op4), ops.length = n → ops.length < 2 ^ 16 →
      (reach4 run cap rel ops).w.stats =
        match lastStatsPrefix ops with
        | none => {}
        | some pre => statsFresh (reach4 run cap rel pre).w := by
  intro n
  induction n with
  | zero =>
    intro ops hn _
    have : ops = [] := List.eq_nil_of_length_eq_zero hn
    subst this
    rfl
  | succ n ih =>
    intro ops hn hlen
    have hne : ops ≠ [] := by intro h; rw [h] at hn; simp at hn
    have hsplit := List.dropLast_concat_getLast hne
    have hpl : ops.dropLast.length = n := by rw [List.length_dropLast, hn]; rfl
    rw [← hsplit]
    cases hop : ops.getLast hne with
    | stats =>
      rw [lastStatsPrefix_snoc_stats]
      exact reach4_after_stats run cap rel _ (by omega)
    | op o =>
      rw [lastStatsPrefix_snoc_op]
      rw [reach4_after_op run cap rel _ o (by omega)]
      exact ih _ hpl (by omega)

end RelStats

end Ark
