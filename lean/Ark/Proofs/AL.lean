/-
  Ark.Proofs.AL — facts about association lists (`AL ν`, the model of Go maps): lookup after
  `mapVals`/`insert`/`erase`, the keys-unique invariant `AL.Uniq` and its preservation, and the
  relation between `find?` and list membership.  Kernel-only proofs.
-/
import Ark.Basic

namespace Ark
namespace AL
variable {ν : Type}

/-- Keys are pairwise distinct. -/
def Uniq (m : AL ν) : Prop := (m.map (·.1)).Nodup

theorem uniq_nil : Uniq ([] : AL ν) := List.nodup_nil

@[simp] theorem find?_cons (k' k : Nat) (v : ν) (rest : AL ν) :
    find? ((k', v) :: rest) k = if k' = k then some v else find? rest k := rfl

/-! ### `find?` against the operations -/

theorem find?_mapVals (m : AL ν) (f : ν → ν) (k : Nat) :
    find? (mapVals m f) k = (find? m k).map f := by
  induction m with
  | nil => rfl
  | cons p rest ih =>
    obtain ⟨k', v'⟩ := p
    have ih' : find? (List.map (fun x : Nat × ν => (x.1, f x.2)) rest) k
        = (find? rest k).map f := ih
    by_cases h : k' = k <;> simp [mapVals, h, ih']

/-- `insert` then `find?`. -/
theorem find?_insert (m : AL ν) (k k2 : Nat) (v : ν) :
    find? (insert m k v) k2 = if k2 = k then some v else find? m k2 := by
  by_cases h : k2 = k
  · subst h; simp [find?_insert_self]
  · simp [h, find?_insert_ne m k k2 v h]

/-- `erase` then `find?`. -/
theorem find?_erase (m : AL ν) (k k2 : Nat) :
    find? (erase m k) k2 = if k2 = k then none else find? m k2 := by
  by_cases h : k2 = k
  · subst h; simp [find?_erase_self]
  · simp [h, find?_erase_ne m k k2 h]

/-! ### keys -/

theorem keys_mapVals (m : AL ν) (f : ν → ν) :
    (mapVals m f).map (·.1) = m.map (·.1) := by
  simp [mapVals, List.map_map, Function.comp_def]

theorem mem_keys_insert (m : AL ν) (k k2 : Nat) (v : ν) :
    k2 ∈ (insert m k v).map (·.1) ↔ k2 = k ∨ k2 ∈ m.map (·.1) := by
  induction m with
  | nil => simp [insert]
  | cons p rest ih =>
    obtain ⟨k', v'⟩ := p
    by_cases h : k' = k
    · subst h; simp [insert]
    · simp only [insert, h, if_false, List.map_cons, List.mem_cons, ih]
      constructor
      · rintro (h1 | h1 | h1)
        · exact Or.inr (Or.inl h1)
        · exact Or.inl h1
        · exact Or.inr (Or.inr h1)
      · rintro (h1 | h1 | h1)
        · exact Or.inr (Or.inl h1)
        · exact Or.inl h1
        · exact Or.inr (Or.inr h1)

theorem mem_keys_erase (m : AL ν) (k k2 : Nat) :
    k2 ∈ (erase m k).map (·.1) ↔ k2 ≠ k ∧ k2 ∈ m.map (·.1) := by
  induction m with
  | nil => simp [erase]
  | cons p rest ih =>
    obtain ⟨k', v'⟩ := p
    by_cases h : k' = k
    · subst h
      simp only [erase, if_true, ih, List.map_cons, List.mem_cons]
      constructor
      · rintro ⟨h1, h2⟩; exact ⟨h1, Or.inr h2⟩
      · rintro ⟨h1, h2 | h2⟩
        · exact absurd h2 h1
        · exact ⟨h1, h2⟩
    · simp only [erase, h, if_false, List.map_cons, List.mem_cons, ih]
      constructor
      · rintro (h1 | ⟨h1, h2⟩)
        · subst h1; exact ⟨h, Or.inl rfl⟩
        · exact ⟨h1, Or.inr h2⟩
      · rintro ⟨h1, h2 | h2⟩
        · exact Or.inl h2
        · exact Or.inr ⟨h1, h2⟩

/-- A key is absent from the map iff it is not among the keys (no uniqueness needed). -/
theorem find?_eq_none_iff (m : AL ν) (k : Nat) :
    find? m k = none ↔ k ∉ m.map (·.1) := by
  induction m with
  | nil => simp
  | cons p rest ih =>
    obtain ⟨k', v'⟩ := p
    by_cases h : k' = k
    · subst h; simp
    · have h' : ¬ k = k' := fun e => h e.symm
      simp [h, h', ih]

theorem find?_isSome_iff (m : AL ν) (k : Nat) :
    (find? m k).isSome = true ↔ k ∈ m.map (·.1) := by
  cases hf : find? m k with
  | none => simp [(find?_eq_none_iff m k).1 hf]
  | some v =>
    have : ¬ (k ∉ m.map (·.1)) := fun hn => by
      rw [(find?_eq_none_iff m k).2 hn] at hf; cases hf
    simp only [Option.isSome_some, true_iff]
    exact Classical.not_not.1 this

theorem contains_iff (m : AL ν) (k : Nat) :
    contains m k = true ↔ k ∈ m.map (·.1) := find?_isSome_iff m k

/-- What `find?` returns is a member. -/
theorem mem_of_find? (m : AL ν) (k : Nat) (v : ν) (h : find? m k = some v) : (k, v) ∈ m := by
  induction m with
  | nil => simp at h
  | cons p rest ih =>
    obtain ⟨k', v'⟩ := p
    by_cases hk : k' = k
    · subst hk
      simp at h; subst h; exact List.mem_cons_self
    · simp [hk] at h
      exact List.mem_cons_of_mem _ (ih h)

/-- Under unique keys every member is what `find?` returns. -/
theorem find?_of_mem (m : AL ν) (hu : Uniq m) (k : Nat) (v : ν) (h : (k, v) ∈ m) :
    find? m k = some v := by
  induction m with
  | nil => simp at h
  | cons p rest ih =>
    obtain ⟨k', v'⟩ := p
    have hu' : k' ∉ rest.map (·.1) ∧ Uniq rest := by
      simpa [Uniq, List.nodup_cons] using hu
    rcases List.mem_cons.1 h with h1 | h1
    · injection h1 with h1 h2; subst h1; subst h2; simp
    · by_cases hk : k' = k
      · subst hk
        exact absurd (List.mem_map.2 ⟨(k', v), h1, rfl⟩) hu'.1
      · simp [hk, ih hu'.2 h1]

/-- Under unique keys, `find?` is exactly membership. -/
theorem find?_eq_some_iff (m : AL ν) (hu : Uniq m) (k : Nat) (v : ν) :
    find? m k = some v ↔ (k, v) ∈ m :=
  ⟨mem_of_find? m k v, find?_of_mem m hu k v⟩

/-- Erasing an absent key changes nothing. -/
theorem erase_of_find?_none (m : AL ν) (k : Nat) (h : find? m k = none) : erase m k = m := by
  induction m with
  | nil => rfl
  | cons p rest ih =>
    obtain ⟨k', v'⟩ := p
    by_cases hk : k' = k
    · subst hk; simp at h
    · simp [hk] at h
      simp [erase, hk, ih h]

theorem erase_of_not_mem (m : AL ν) (k : Nat) (h : k ∉ m.map (·.1)) : erase m k = m :=
  erase_of_find?_none m k ((find?_eq_none_iff m k).2 h)

/-- Inserting over an absent key appends. -/
theorem insert_of_find?_none (m : AL ν) (k : Nat) (v : ν) (h : find? m k = none) :
    insert m k v = m ++ [(k, v)] := by
  induction m with
  | nil => rfl
  | cons p rest ih =>
    obtain ⟨k', v'⟩ := p
    by_cases hk : k' = k
    · subst hk; simp at h
    · simp [hk] at h
      simp [insert, hk, ih h]

/-! ### preservation of `Uniq` -/

theorem Uniq.mapVals {m : AL ν} (h : Uniq m) (f : ν → ν) : Uniq (mapVals m f) := by
  unfold Uniq; rw [keys_mapVals]; exact h

theorem Uniq.insert {m : AL ν} (h : Uniq m) (k : Nat) (v : ν) : Uniq (insert m k v) := by
  induction m with
  | nil => simp [AL.insert, Uniq]
  | cons p rest ih =>
    obtain ⟨k', v'⟩ := p
    have hu' : k' ∉ rest.map (·.1) ∧ Uniq rest := by
      simpa [Uniq, List.nodup_cons] using h
    by_cases hk : k' = k
    · subst hk
      simpa [AL.insert, Uniq, List.nodup_cons] using h
    · have h1 : k' ∉ (AL.insert rest k v).map (·.1) := by
        rw [mem_keys_insert]; rintro (h1 | h1)
        · exact hk h1
        · exact hu'.1 h1
      have h2 : Uniq (AL.insert rest k v) := ih hu'.2
      simp only [AL.insert, hk, if_false, Uniq, List.map_cons, List.nodup_cons]
      exact ⟨h1, h2⟩

theorem Uniq.erase {m : AL ν} (h : Uniq m) (k : Nat) : Uniq (erase m k) := by
  induction m with
  | nil => simp [AL.erase, Uniq]
  | cons p rest ih =>
    obtain ⟨k', v'⟩ := p
    have hu' : k' ∉ rest.map (·.1) ∧ Uniq rest := by
      simpa [Uniq, List.nodup_cons] using h
    by_cases hk : k' = k
    · subst hk; simpa [AL.erase] using ih hu'.2
    · have h1 : k' ∉ (AL.erase rest k).map (·.1) := by
        rw [mem_keys_erase]; rintro ⟨_, h1⟩; exact hu'.1 h1
      simp only [AL.erase, hk, if_false, Uniq, List.map_cons, List.nodup_cons]
      exact ⟨h1, ih hu'.2⟩

/-- Two maps with unique keys and the same lookups have the same members. -/
theorem mem_iff_of_find?_eq {m m' : AL ν} (hu : Uniq m) (hu' : Uniq m')
    (h : ∀ k, find? m k = find? m' k) (p : Nat × ν) : p ∈ m ↔ p ∈ m' := by
  obtain ⟨k, v⟩ := p
  rw [← find?_eq_some_iff m hu, ← find?_eq_some_iff m' hu', h]

end AL
end Ark
