/-
  Ark.Proofs.TargetsAdd — C04 at world level, part 10: `Add` with relations (`addCore` / `opAdd`):
  an accepted call keeps the invariants, gives the entity the targets named, keeps its old
  targets, and changes no other entity.
  Kernel-only proofs, core Lean only.
-/
import Ark.Proofs.TargetsSetRel

set_option autoImplicit false

namespace Ark

open World Ark.Props.C01World

/-! ## 1. the tail "add `e` to the new table, `moveRow`, `registerTargets`" -/

/-- what the shared tail of `add` / `setRelations` guarantees (`w1` = the world after the table
    lookup, `w3` = the world after `registerTargets`) -/
structure MovedTail (w1 w3 : World) (fl : List Nat) (e : Ent) (newT : Nat) : Prop where
  rel : RelInv w3
  flags : FlagsOK w3
  freeEmpty : FreeEmpty w3
  link : PLink w3 fl
  idx2 : IdxInv w3
  entry : w3.entities[e.id]? = some (newT, (w1.tbl newT).len)
  tgtSelf : ∀ (c : Comp), targetOf w3 e.id c = (w1.tbl newT).targetAt c
  frame : ∀ (j : Nat), j ≠ e.id → SameEnt w1 w3 j ∧ ∀ (c : Comp), targetOf w3 j c = targetOf w1 j c
  alive : ∀ (x : Ent), w3.alive x = w1.alive x
  obs : w3.obs = w1.obs
  locks : w3.locks = w1.locks
  kinds : w3.kinds = w1.kinds
  maxComps : w3.maxComps = w1.maxComps
  tablesLen : w3.tables.length = w1.tables.length
  entitiesLen : w3.entities.length = w1.entities.length
  tmeta : ∀ (t : Nat), t < w1.tables.length → Table.SameMeta (w1.tbl t) (w3.tbl t)

theorem movedTail {w1 : World} {fl : List Nat} {e : Ent} {oldT row newT : Nat} {rels : List RelID}
    (keep : Mask) (rel1 : RelInv w1) (hF1 : FlagsOKUpTo w1 rels) (hE1 : FreeEmpty w1)
    (link1 : PLink w1 fl) (he1 : w1.entities[e.id]? = some (oldT, row)) (htm : oldT ≠ maxU32)
    (hne : oldT ≠ newT) (hnl : newT < w1.tables.length)
    (hnf : (w1.tbl newT).isFree = false) (hof : (w1.tbl oldT).isFree = false)
    (hb1 : (w1.tbl newT).len + 1 < 2 ^ 32)
    (hreg : ∀ (r : RelID), r ∈ rels → r.target.isZero = false → r.target.id < w1.isTarget.length) :
    MovedTail w1 (registerW (addMove w1 e oldT row newT keep) rels) fl e newT := by
  have hI1 := link1.idx
  have hel1 : e.id < w1.entities.length := (List.getElem?_eq_some_iff.1 he1).1
  have hlt1 : oldT < w1.tables.length := lt_of_get (hI1.indexed he1 htm).1
  obtain ⟨fp, fk, fa, fu⟩ := addMove_fields w1 e oldT row newT keep
  obtain ⟨fra, fc⟩ := addMove_more w1 e oldT row newT keep
  obtain ⟨tl, t1, t2, t3⟩ := addMove_tbl w1 e oldT row newT keep hne hnl hlt1 hel1
  have hI2 := hI1.addMove keep hne he1 htm hnl hb1
  have hL := addMove_lookup hI1 keep hne he1 htm hnl hb1
  have ms12 : MetaStep w1 (addMove w1 e oldT row newT keep) := by
    refine ⟨fa, fk, fra, fc, tl, fun t _ => ?_⟩
    by_cases e1 : t = oldT
    · subst e1; rw [t1]; exact Table.remove_sameMeta _ _
    · by_cases e2 : t = newT
      · subst e2; rw [t2]
        exact (Table.add_sameMeta _ _).trans (copyRow_sameMeta _ _ _ _ _)
      · rw [t3 t e1 e2]; exact Table.SameMeta.refl _
  have ms23 := registerW_metaStep (addMove w1 e oldT row newT keep) rels
  have hntm : newT ≠ maxU32 := by have := link1.fewTables; omega
  have hidxSame : IdxSame w1 (addMove w1 e oldT row newT keep) := by
    refine ⟨addMove_entities_len _ _ _ _ _ _, fun i => ?_⟩
    rw [hL i]
    by_cases e1 : i = e.id
    · rw [if_pos e1, e1]
      exact Or.inr ⟨oldT, row, newT, _, he1, htm, rfl, hntm⟩
    · rw [if_neg e1]
      split
      · rename_i hc
        refine Or.inr ⟨oldT, (w1.tbl oldT).len - 1, oldT, row, ?_, htm, rfl, htm⟩
        rw [hc.2]
        have hrow := (hI1.indexed he1 htm).2.1
        exact hI1.rowIdx oldT _ _ (get_of_lt hlt1) (by omega)
      · exact Or.inl rfl
  have hE3 : (registerW (addMove w1 e oldT row newT keep) rels).entities =
      (addMove w1 e oldT row newT keep).entities := rfl
  have hT3 : (registerW (addMove w1 e oldT row newT keep) rels).tables =
      (addMove w1 e oldT row newT keep).tables := rfl
  have hent3 : (registerW (addMove w1 e oldT row newT keep) rels).entities[e.id]? =
      some (newT, (w1.tbl newT).len) := by rw [hE3, hL, if_pos rfl]
  have hTn3 := get_of_lt (show newT < (registerW (addMove w1 e oldT row newT keep) rels).tables.length
    by rw [hT3, tl]; exact hnl)
  have hms := ms12.trans ms23
  refine
    { rel := rel1.of_metaStep hms (fun x hx => by
        show (addMove w1 e oldT row newT keep).pool.alive x = true
        rw [fp]; exact hx)
      flags := ?_
      freeEmpty := ?_
      link := (link1.transfer hI2 fp hidxSame (by rw [fu.isTarget])
          (by rw [tl]; exact link1.fewTables)).congr (hI2.congr rfl rfl) rfl rfl
          (flagFold_length rels _) rfl
      idx2 := hI2.congr rfl rfl
      entry := hent3
      tgtSelf := fun c => by
        rw [targetOf_of_entry hent3 hntm hTn3, Table.targetAt_sameMeta (hms.tmeta newT hnl)]
      frame := ?_
      alive := fun x => by
        show (addMove w1 e oldT row newT keep).pool.alive x = w1.pool.alive x
        rw [fp]
      obs := fu.obs
      locks := fu.locks
      kinds := fk
      maxComps := fu.maxComps
      tablesLen := by rw [hT3, tl]
      entitiesLen := by rw [hE3, addMove_entities_len]
      tmeta := hms.tmeta }
  · apply (hF1.of_metaStep ms12 (fun i hi => by rw [fu.isTarget]; exact hi)).register
    intro r hr hz
    rw [fu.isTarget]; exact hreg r hr hz
  · intro t0 T0 hT0 hf
    have hT0' : (addMove w1 e oldT row newT keep).tables[t0]? = some T0 := hT0
    have hlt0 : t0 < w1.tables.length := by rw [← tl]; exact lt_of_get hT0'
    have hm := (ms12.tmeta t0 hlt0).isFree
    rw [tbl_of_get hT0'] at hm
    by_cases e1 : t0 = oldT
    · subst e1
      rw [hm, hof] at hf; cases hf
    · by_cases e2 : t0 = newT
      · subst e2
        rw [hm, hnf] at hf; cases hf
      · have := t3 t0 e1 e2
        rw [tbl_of_get hT0'] at this
        rw [this]
        exact hE1 t0 _ (get_of_lt hlt0) (by rw [← this]; exact hf)
  · intro j hj
    have mf := move_frame hI1 keep hne he1 htm hnl hb1 hj
    refine ⟨⟨mf.1, mf.2⟩, fun c => ?_⟩
    have hLj := hL j
    rw [if_neg hj] at hLj
    split at hLj
    · rename_i hc
      have hrow := (hI1.indexed he1 htm).2.1
      have hold : w1.entities[j]? = some (oldT, (w1.tbl oldT).len - 1) := by
        rw [hc.2]
        exact hI1.rowIdx oldT _ _ (get_of_lt hlt1) (by omega)
      have hTo3 := get_of_lt (show oldT < (registerW (addMove w1 e oldT row newT keep) rels).tables.length
        by rw [hT3, tl]; exact hlt1)
      rw [targetOf_of_entry (by rw [hE3]; exact hLj) htm hTo3,
        targetOf_of_entry hold htm (get_of_lt hlt1)]
      exact Table.targetAt_sameMeta (hms.tmeta oldT hlt1) c
    · exact hms.targetOf (by rw [hE3]; exact hLj) c

/-! ## 2. `World.add` / `Add` in normal form -/

namespace World

theorem addCore_rel_eq (e : Ent) (add : List Comp) (rels : List RelID) (w : World)
    (hl : w.isLocked = false) (ha : w.alive e = true) (hemp : add.isEmpty = false)
    {oldT row : Nat} (hix : w.index e.id = (oldT, row)) {t a : Nat} {m : Mask} {w1 : World}
    (hfoc : findOrCreateTableAdd oldT (w.arch (w.tbl oldT).arch).mask add rels w = .ok (t, a, m) w1) :
    addCore e add rels w =
      .ok ((w.arch (w.tbl oldT).arch).mask,
          ((registerW (addMove w1 e oldT row t m) rels).arch a).mask)
        (registerW (addMove w1 e oldT row t m) rels) := by
  simp only [addCore, bind, M.bind, checkLocked_unlocked w hl, M.get, M.assert, ha, if_true, hemp,
    Bool.not_false, hix, hfoc, moveRow_eq, registerTargets_eq, pure, M.pure]
  rfl

/-- without observers, `Add(ids…, rels…)` through any path is the pre-validation, `World.add`
    and the writes -/
theorem opAdd_rel_eq (run : ProbeRunner) (p : Path) (e : Ent) (ids : List Comp)
    (vals : List (Comp × Val)) (rels : List RelID) (w : World) (ha : w.alive e = true)
    (hpre : preCheck (p.addCheck ids) ids rels w = .ok () w) {old new : Mask} {w2 : World}
    (hcore : addCore e ids rels w = .ok (old, new) w2)
    (hno : ∀ (evt : Nat), w2.obs.hasObservers evt = false) :
    opAdd run p e ids vals rels w = .ok () (writeValsW w2 e vals) := by
  have hno2 : ∀ (evt : Nat), (writeValsW w2 e vals).obs.hasObservers evt = false := hno
  cases hre : rels.isEmpty <;> cases p <;>
  simp [opAdd, hpre, bind, M.bind, M.get, M.assert, ha, hcore, writeVals_eq, fireAddIfHas_none,
    hno, hno2, hre, pure, M.pure]

end World

/-! ## 3. the specification of `Add` with relations -/

/-- What an accepted `Add(e, ids…, rels…)` guarantees (`w` before, `w'` after). -/
structure AddRelPost (w : World) (fl : List Nat) (e : Ent) (ids : List Comp)
    (vals : List (Comp × Val)) (rels : List RelID) (w' : World) : Prop where
  tinv : TInv w' fl
  aliveSame : ∀ (x : Ent), w'.alive x = w.alive x
  /-- an accepted call named only zero or alive targets -/
  valid : ∀ (r : RelID), r ∈ rels → r.target.isZero = true ∨ w.alive r.target = true
  /-- the entity's target for every added relation component is the target given -/
  targets : ∀ (r : RelID), r ∈ rels → targetOf w' e.id r.comp = some r.target
  /-- its old targets are kept -/
  oldTargets : ∀ (c : Comp) (x : Ent), targetOf w e.id c = some x → targetOf w' e.id c = some x
  /-- it has the old components plus the added ones -/
  comps : ∀ (cs : List Comp), compsOf w e.id = some cs →
    ∃ (cs' : List Comp), compsOf w' e.id = some cs' ∧ ∀ (c : Comp), c ∈ cs' ↔ c ∈ cs ∨ c ∈ ids
  /-- its old components that are not written keep their values -/
  oldVals : ∀ (c : Comp) (v : Val), valOf w e.id c = some v →
    (∀ (cv : Comp × Val), cv ∈ vals → cv.1 ≠ c) → valOf w' e.id c = some v
  /-- every other entity keeps components, values and targets -/
  frame : ∀ (j : Nat), j ≠ e.id → SameEnt w w' j ∧ ∀ (c : Comp), targetOf w' j c = targetOf w j c
  obs : w'.obs = w.obs
  locks : w'.locks = w.locks
  kinds : w'.kinds = w.kinds
  tablesLen : w'.tables.length ≤ w.tables.length + 1
  entitiesLen : w'.entities.length = w.entities.length

/-- the two halves of `opAdd_rel_valid` / `opAdd_rel_spec` in one proof: an accepted call named
    only zero or alive targets (whatever their IDs), and — if the IDs of the targets lie inside the
    pool slice — `AddRelPost` -/
theorem opAdd_rel_core (run : ProbeRunner) (p : Path) {w : World} {fl : List Nat} (h : TInv w fl)
    (hl : w.isLocked = false) (hno : ∀ (evt : Nat), w.obs.hasObservers evt = false) {e : Ent}
    (h2 : 2 ≤ e.id) (hnf : e.id ∉ fl) (ha : w.alive e = true) (hsl : e.id < w.pool.ents.length)
    {ids : List Comp}
    {vals : List (Comp × Val)} {rels : List RelID}
    (hreg : ∀ (c : Comp), c ∈ ids → c < w.kinds.length)
    (hnd : (rels.map (·.comp)).Nodup) (hin : ∀ (r : RelID), r ∈ rels → r.comp ∈ ids)
    (hrc : ∀ (r : RelID), r ∈ rels → w.isRelComp r.comp = true)
    (hfew : w.tables.length < maxU32) (hrows : w.entities.length + 1 < 2 ^ 32)
    {w' : World} (hok : opAdd run p e ids vals rels w = .ok () w') :
    (∀ (r : RelID), r ∈ rels → r.target.isZero = true ∨ w.alive r.target = true) ∧
    ((∀ (r : RelID), r ∈ rels → r.target.id < w.pool.ents.length) →
      AddRelPost w fl e ids vals rels w') := by
  obtain ⟨oldT, row, he, htm, _⟩ := h.link.live_entry h2 hnf ha hsl
  have hix := index_of_get he
  have hI := h.link.idx
  obtain ⟨hT, hrow, hid⟩ := hI.indexed he htm
  have hlt := lt_of_get hT
  have hS := h.rel.sinv.toSInvMid
  have hTf : (w.tbl oldT).isFree = false := by
    cases hf : (w.tbl oldT).isFree with
    | false => rfl
    | true => have := h.freeEmpty oldT _ hT hf; omega
  obtain ⟨A, hA, i1, i2, i3, _⟩ := hS.tblArch oldT _ hT
  have hAe := arch_of_get hA
  -- the pre-validation passed
  have hpre : preCheck (p.addCheck ids) ids rels w = .ok () w := by
    rcases preCheck_cases (p.addCheck ids) ids rels w with h1 | ⟨k, h1⟩
    · exact h1
    · cases p <;> simp [opAdd, bind, M.bind, M.get, M.assert, ha, h1] at hok
  -- the component list is not empty and the lookup succeeded
  have hemp : ids.isEmpty = false := by
    cases hi : ids.isEmpty with
    | false => rfl
    | true =>
      have : addCore e ids rels w = .panic .noComponents w := by
        simp [addCore, bind, M.bind, checkLocked_unlocked w hl, M.get, M.assert, ha, hi]
      cases p <;> simp [opAdd, hpre, bind, M.bind, M.get, M.assert, ha, this] at hok
  cases hf : findOrCreateTableAdd oldT (w.arch (w.tbl oldT).arch).mask ids rels w with
  | panic k s =>
    have : addCore e ids rels w = .panic k s := by
      simp [addCore, bind, M.bind, checkLocked_unlocked w hl, M.get, M.assert, ha, hemp, hix, hf]
    cases p <;> simp [opAdd, hpre, bind, M.bind, M.get, M.assert, ha, this] at hok
  | ok res w1 =>
    obtain ⟨newT, newA, mask⟩ := res
    have hstart : ∀ (c : Nat), (w.arch (w.tbl oldT).arch).mask.get c = true → c < w.kinds.length := by
      intro c hc; rw [hAe] at hc; exact hS.maskReg _ A hA c hc
    have hom : ∀ (r : RelID), r ∈ (w.tbl oldT).relIDs →
        (w.arch (w.tbl oldT).arch).mask.get r.comp = true := by
      intro r hr
      obtain ⟨i, hi, _⟩ := hS.relCols oldT _ hT r hr
      rw [hAe]
      exact (hS.mem_comps hA r.comp).1 (by rw [← i1]; exact List.mem_of_getElem? hi)
    obtain ⟨hmask, ar⟩ := h.rel.findOrCreateTableAdd h.flags h.freeEmpty hstart hreg hlt hTf hom
      hnd hin hf
    have foc := ar.foc
    have hu := ar.untouched
    have hnew := graphFindAdd_new (m' := mask) (w' := w) (by
      rcases graphFindAdd_cases (w.arch (w.tbl oldT).arch).mask ids w with hg | ⟨hg, _⟩
      · rw [hmask]; exact hg
      · simp only [World.findOrCreateTableAdd, bind, M.bind, hg] at hf; cases hf)
    -- the new table differs from the old one
    have hne' : oldT ≠ newT := by
      refine Ne.symm (foc.ne_old h.rel.sinv hlt ?_)
      cases hids : ids with
      | nil => rw [hids] at hemp; cases hemp
      | cons c rest =>
        intro heq
        have hc : c ∈ ids := by rw [hids]; exact List.mem_cons_self
        have h1 := hnew c hc
        have h256 : c < 256 := Nat.lt_of_lt_of_le (hreg c hc) (Nat.le_trans h.kindsLe.1 h.kindsLe.2)
        rw [← heq, hmask, Mask.get_ofList_foldl] at h1
        simp [h256, hc] at h1
    have hI1 : IdxInv w1 := foc.idx hI
    have link1 : PLink w1 fl :=
      h.link.transfer hI1 foc.pool (IdxSame.of_eq foc.entities) (by rw [hu.isTarget])
        (by have := ar.tablesLen; omega)
    have he1 : w1.entities[e.id]? = some (oldT, row) := by rw [foc.entities]; exact he
    have hrows1 := foc.rows oldT hlt
    have hof1 : (w1.tbl oldT).isFree = false := by
      have := foc.others oldT hlt hne'
      rw [tbl_eq_of_get this]; exact hTf
    have htb1 : w1.tbl oldT = w.tbl oldT := tbl_eq_of_get (foc.others oldT hlt hne')
    have hb1 : (w1.tbl newT).len + 1 < 2 ^ 32 := by
      have := hI1.rows_le newT
      rw [foc.entities] at this; omega
    have hal1 : ∀ (x : Ent), w1.alive x = w.alive x := fun x => by simp only [World.alive, foc.pool]
    -- the columns of the new table that the given relations name
    have hTt := get_of_lt foc.tblLt
    have hcolOf : ∀ (r : RelID), r ∈ (w.tbl oldT).relIDs ++ rels → w.isRelComp r.comp = true →
        ∃ (i : Nat), (w1.tbl newT).colIdx r.comp = some i ∧
        (w1.tbl newT).isRel.getD i false = true ∧ (w1.tbl newT).targets.getD i Ent.zero = r.target := by
      intro r hr hrcr
      have hc : r.comp ∈ (w1.tbl newT).ids := by
        rw [foc.tblIds, Mask.mem_toList, hmask, Mask.get_ofList_foldl]
        rcases List.mem_append.1 hr with k | k
        · have := hom r k
          exact ⟨hstart _ this, by rw [this]; rfl⟩
        · have h1 := hreg r.comp (hin r k)
          have h256 : r.comp < 256 := Nat.lt_of_lt_of_le h1 (Nat.le_trans h.kindsLe.1 h.kindsLe.2)
          exact ⟨h1, by simp [h256, hin r k]⟩
      obtain ⟨i, hi⟩ := colIdx_some_iff_mem.mpr hc
      exact ⟨i, hi, ar.tgt r hr hrcr i hi⟩
    have hvalid : ∀ (r : RelID), r ∈ rels → r.target.isZero = true ∨ w.alive r.target = true := by
      intro r hr
      obtain ⟨i, _, k2, k3⟩ := hcolOf r (List.mem_append_right _ hr) (hrc r hr)
      have := ar.rel.aux.targets newT _ hTt foc.tblFree i k2
      rw [k3, hal1] at this; exact this
    refine ⟨hvalid, fun htin => ?_⟩
    have mt := movedTail (rels := rels) mask ar.rel ar.flags ar.freeEmpty link1 he1 htm hne'
      foc.tblLt foc.tblFree hof1 hb1 (by
        intro r hr hz
        rcases hvalid r hr with k | k
        · rw [k] at hz; cases hz
        · have := h.link.lt_of_in (htin r hr)
          rw [hu.isTarget, h.link.tgtLen]; exact this)
    -- the normal form of the call
    have hcore := addCore_rel_eq e ids rels w hl ha hemp hix hf
    have hno3 : ∀ (evt : Nat), (registerW (addMove w1 e oldT row newT mask) rels).obs.hasObservers evt
        = false := by
      intro evt; rw [mt.obs, hu.obs]; exact hno evt
    rw [opAdd_rel_eq run p e ids vals rels w ha hpre hcore hno3] at hok
    injection hok with _ hw
    subst hw
    -- the writes
    have hntm : newT ≠ maxU32 := by have := foc.tblLt; have := ar.tablesLen; omega
    have ms4 := writeValsW_metaStep (registerW (addMove w1 e oldT row newT mask) rels) e vals
    have hI4 := mt.idx2.writeVals e vals mt.entry hntm
    have hwf := write_frame mt.idx2 e vals mt.entry hntm
    have hE4 : (writeValsW (registerW (addMove w1 e oldT row newT mask) rels) e vals).entities =
        (registerW (addMove w1 e oldT row newT mask) rels).entities := rfl
    have hal4 : ∀ (x : Ent), (writeValsW (registerW (addMove w1 e oldT row newT mask) rels) e
        vals).alive x = w.alive x := fun x => by
      show (registerW (addMove w1 e oldT row newT mask) rels).alive x = _
      rw [mt.alive, hal1]
    have hfree4 : FreeEmpty (writeValsW (registerW (addMove w1 e oldT row newT mask) rels) e vals) := by
      have hix3 := index_of_get mt.entry
      have hlt3 : newT < (registerW (addMove w1 e oldT row newT mask) rels).tables.length := by
        rw [mt.tablesLen]; exact foc.tblLt
      have hrow3 := (mt.idx2.indexed mt.entry hntm).2.1
      have hwr := writeVals_writeRel ((registerW (addMove w1 e oldT row newT mask) rels).tbl newT)
        (w1.tbl newT).len vals hrow3
      refine FreeEmpty.of_set (w := registerW (addMove w1 e oldT row newT mask) rels) mt.freeEmpty
        (t := newT) (T' := _) (by simp only [writeValsW, hix3]; rfl) ?_
      intro hf'
      rw [(writeFold_sameMeta _ _ _).isFree] at hf'
      rw [hwr.len]
      exact mt.freeEmpty newT _ (get_of_lt hlt3) hf'
    have f1 := ar.frame hI h.freeEmpty
    have htgt4 : ∀ (j : Nat) (c : Comp),
        targetOf (writeValsW (registerW (addMove w1 e oldT row newT mask) rels) e vals) j c =
          targetOf (registerW (addMove w1 e oldT row newT mask) rels) j c :=
      fun j c => ms4.targetOf (by rw [hE4]) c
    refine
      { tinv := ⟨mt.rel.of_metaStep ms4 (fun x hx => hx), mt.flags.of_metaStep ms4 (fun _ hi => hi),
          hfree4, mt.link.congr hI4 rfl rfl rfl ms4.len, by
            show (registerW (addMove w1 e oldT row newT mask) rels).kinds.length ≤
              (registerW (addMove w1 e oldT row newT mask) rels).maxComps ∧
              (registerW (addMove w1 e oldT row newT mask) rels).maxComps ≤ 256
            rw [mt.kinds, mt.maxComps, foc.kinds, hu.maxComps]; exact h.kindsLe⟩
        aliveSame := hal4
        valid := hvalid
        targets := ?_
        oldTargets := ?_
        comps := ?_
        oldVals := ?_
        frame := ?_
        obs := by
          show (registerW (addMove w1 e oldT row newT mask) rels).obs = w.obs
          rw [mt.obs, hu.obs]
        locks := by
          show (registerW (addMove w1 e oldT row newT mask) rels).locks = w.locks
          rw [mt.locks, hu.locks]
        kinds := by
          show (registerW (addMove w1 e oldT row newT mask) rels).kinds = w.kinds
          rw [mt.kinds, foc.kinds]
        tablesLen := by rw [ms4.len, mt.tablesLen]; exact ar.tablesLen
        entitiesLen := by rw [hE4, mt.entitiesLen, foc.entities] }
    · intro r hr
      obtain ⟨i, k1, k2, k3⟩ := hcolOf r (List.mem_append_right _ hr) (hrc r hr)
      rw [htgt4, mt.tgtSelf, Table.targetAt_of_col k1 k2, k3]
    · intro c x hx
      -- an old target is the target of a listed relation of the old table
      rw [targetOf_of_entry he htm hT] at hx
      simp only [Table.targetAt] at hx
      cases hci : (w.tbl oldT).colIdx c with
      | none => rw [hci] at hx; cases hx
      | some i =>
        rw [hci] at hx
        simp only [Option.bind_some] at hx
        split at hx
        · rename_i hir
          have hx' : (w.tbl oldT).targets.getD i Ent.zero = x := Option.some.inj hx
          have hex := h.rel.aux.rels oldT _ hT hTf
          have hmem := hex.complete i c (Table.colIdx_get hci) hir
          rw [hx'] at hmem
          have hrcc : w.isRelComp c = true := hS.isRelComp_of_col hT (Table.colIdx_get hci) hir
          obtain ⟨j, k1, k2, k3⟩ := hcolOf ⟨c, x⟩ (List.mem_append_left _ hmem) hrcc
          rw [htgt4, mt.tgtSelf, Table.targetAt_of_col k1 k2, k3]
        · cases hx
    · intro cs hcs
      have hcs' : cs = (w.tbl oldT).ids := by
        simp only [compsOf, he, htm, if_false, hT, Option.map_some] at hcs
        exact (Option.some.inj hcs).symm
      have hent4 : (writeValsW (registerW (addMove w1 e oldT row newT mask) rels) e vals).entities[e.id]? =
          some (newT, (w1.tbl newT).len) := by rw [hE4]; exact mt.entry
      have hT4 := get_of_lt (show newT < (writeValsW (registerW (addMove w1 e oldT row newT mask) rels)
        e vals).tables.length by rw [ms4.len, mt.tablesLen]; exact foc.tblLt)
      refine ⟨(w1.tbl newT).ids, ?_, ?_⟩
      · simp only [compsOf, hent4, hntm, if_false, hT4, Option.map_some]
        rw [(ms4.tmeta newT (by rw [mt.tablesLen]; exact foc.tblLt)).ids,
          (mt.tmeta newT foc.tblLt).ids]
      · intro c
        rw [foc.tblIds, Mask.mem_toList, hmask, Mask.get_ofList_foldl, hcs', i1,
          hS.mem_comps hA c, hAe]
        constructor
        · rintro ⟨_, k⟩
          cases hm : A.mask.get c with
          | true => exact Or.inl rfl
          | false =>
            rw [hm] at k
            simp at k
            exact Or.inr k.2
        · rintro (k | k)
          · exact ⟨hS.maskReg _ A hA c k, by rw [k]; rfl⟩
          · have h1 := hreg c k
            have h256 : c < 256 := Nat.lt_of_lt_of_le h1 (Nat.le_trans h.kindsLe.1 h.kindsLe.2)
            exact ⟨h1, by simp [h256, k]⟩
    · intro c v hv hnw
      -- the old component is kept by the move and not touched by the writes
      have hcio : ∃ (i : Nat), (w.tbl oldT).colIdx c = some i := by
        simp only [valOf, he, htm, if_false, hT, Option.bind_some, Table.getComp] at hv
        cases hci : (w.tbl oldT).colIdx c with
        | none => rw [hci] at hv; cases hv
        | some i => exact ⟨i, rfl⟩
      obtain ⟨i, hci⟩ := hcio
      have hcold : c ∈ (w.tbl oldT).ids := colIdx_some_iff_mem.1 ⟨i, hci⟩
      have hmaskc : mask.get c = true := by
        rw [hmask, Mask.get_ofList_foldl, hAe]
        have := (hS.mem_comps hA c).1 (by rw [← i1]; exact hcold)
        rw [this]; rfl
      have hcnew : (w1.tbl newT).has c = true := by
        rw [Table.has_iff_mem, foc.tblIds, Mask.mem_toList]
        exact ⟨hstart c (by rw [hAe]; exact (hS.mem_comps hA c).1 (by rw [← i1]; exact hcold)), hmaskc⟩
      have hzst : ∀ (c' : Comp) (i' j' : Nat), (w1.tbl oldT).colIdx c' = some i' →
          (w1.tbl newT).colIdx c' = some j' →
          (w1.tbl newT).zst.getD j' false = (w1.tbl oldT).zst.getD i' false := by
        intro c' i' j' k1 k2
        rw [foc.sinv.toSInvMid.tbl_zst hTt k2,
          foc.sinv.toSInvMid.tbl_zst (get_of_lt (Nat.lt_of_lt_of_le hlt foc.tablesLen)) k1]
      have hmv := move_keeps_values hI1 mask hne' he1 htm foc.tblLt hntm hb1 hzst hcnew
      rw [if_pos ⟨hmaskc, by rw [htb1, Table.has_iff_mem]; exact hcold⟩] at hmv
      have hv1 : valOf w1 e.id c = some v := by rw [(f1 e.id).1.1 c]; exact hv
      rw [hwf.2.1 c hnw]
      show valOf (addMove w1 e oldT row newT mask) e.id c = some v
      rw [hmv, hv1]
    · intro j hj
      obtain ⟨s1, g1⟩ := f1 j
      obtain ⟨s2, g2⟩ := mt.frame j hj
      refine ⟨(s1.trans s2).trans ⟨(hwf.1 j hj).1, (hwf.1 j hj).2⟩, fun c => ?_⟩
      rw [htgt4, g2, g1]

/-- **an accepted `Add(e, ids…, rels…)` named only zero or alive targets** (no condition on the
    IDs of the targets) -/
theorem opAdd_rel_valid (run : ProbeRunner) (p : Path) {w : World} {fl : List Nat} (h : TInv w fl)
    (hl : w.isLocked = false) (hno : ∀ (evt : Nat), w.obs.hasObservers evt = false) {e : Ent}
    (h2 : 2 ≤ e.id) (hnf : e.id ∉ fl) (ha : w.alive e = true) (hsl : e.id < w.pool.ents.length)
    {ids : List Comp}
    {vals : List (Comp × Val)} {rels : List RelID}
    (hreg : ∀ (c : Comp), c ∈ ids → c < w.kinds.length)
    (hnd : (rels.map (·.comp)).Nodup) (hin : ∀ (r : RelID), r ∈ rels → r.comp ∈ ids)
    (hrc : ∀ (r : RelID), r ∈ rels → w.isRelComp r.comp = true)
    (hfew : w.tables.length < maxU32) (hrows : w.entities.length + 1 < 2 ^ 32)
    {w' : World} (hok : opAdd run p e ids vals rels w = .ok () w') :
    ∀ (r : RelID), r ∈ rels → r.target.isZero = true ∨ w.alive r.target = true :=
  (opAdd_rel_core run p h hl hno h2 hnf ha hsl hreg hnd hin hrc hfew hrows hok).1

/-- **C04, assignment by `Add`**: an accepted `Add(e, ids…, rels…)` through any path for a live
    entity `e` (ID inside the pool slice) — `rels` names relation components among `ids`, none
    twice, with targets whose IDs lie inside the pool slice — no observers: all invariants are kept,
    `e` has the targets named and keeps its old targets, components and (unwritten) values, no
    other entity changes. -/
theorem opAdd_rel_spec (run : ProbeRunner) (p : Path) {w : World} {fl : List Nat} (h : TInv w fl)
    (hl : w.isLocked = false) (hno : ∀ (evt : Nat), w.obs.hasObservers evt = false) {e : Ent}
    (h2 : 2 ≤ e.id) (hnf : e.id ∉ fl) (ha : w.alive e = true) (hsl : e.id < w.pool.ents.length)
    {ids : List Comp}
    {vals : List (Comp × Val)} {rels : List RelID}
    (hreg : ∀ (c : Comp), c ∈ ids → c < w.kinds.length)
    (hnd : (rels.map (·.comp)).Nodup) (hin : ∀ (r : RelID), r ∈ rels → r.comp ∈ ids)
    (hrc : ∀ (r : RelID), r ∈ rels → w.isRelComp r.comp = true)
    (htin : ∀ (r : RelID), r ∈ rels → r.target.id < w.pool.ents.length)
    (hfew : w.tables.length < maxU32) (hrows : w.entities.length + 1 < 2 ^ 32)
    {w' : World} (hok : opAdd run p e ids vals rels w = .ok () w') :
    AddRelPost w fl e ids vals rels w' :=
  (opAdd_rel_core run p h hl hno h2 hnf ha hsl hreg hnd hin hrc hfew hrows hok).2 htin

/-- **rejection** (every path, since the repair of the `Unsafe` API): `Add` naming a dead target
    is refused with `deadTarget`, the world unchanged -/
theorem opAdd_deadTarget (run : ProbeRunner) (p : Path) (e : Ent)
    (ids : List Comp) (vals : List (Comp × Val)) (rels : List RelID) (w : World)
    (ha : w.alive e = true)
    (hv : ∀ (r : RelID), r ∈ rels → w.isRelComp r.comp = true ∧ (Mask.ofList ids).get r.comp = true)
    (hd : ∃ (r : RelID), r ∈ rels ∧ r.target.isZero = false ∧ w.alive r.target = false) :
    opAdd run p e ids vals rels w = .panic .deadTarget w := by
  have hpre := preCheck_deadTarget (p.addCheck ids) ids w rels hv hd
  cases p with
  | unsafe_ => simp [opAdd, bind, M.bind, M.get, M.assert, ha, hpre]
  | map1 => simp [opAdd, bind, M.bind, M.get, M.assert, ha, hpre]
  | typed => simp [opAdd, bind, M.bind, hpre]

/-- iterating: an accepted `Add` on an entity that sits in a table keeps `Good` -/
theorem Good.add (run : ProbeRunner) (p : Path) {w : World} (h : Good w) {e : Ent}
    (ha : w.alive e = true) (hidx : (w.index e.id).1 ≠ maxU32) (hlt : e.id < w.entities.length)
    {ids : List Comp} {vals : List (Comp × Val)} {rels : List RelID}
    (hreg : ∀ (c : Comp), c ∈ ids → c < w.kinds.length)
    (hnd : (rels.map (·.comp)).Nodup) (hin : ∀ (r : RelID), r ∈ rels → r.comp ∈ ids)
    (hrc : ∀ (r : RelID), r ∈ rels → w.isRelComp r.comp = true)
    (htin : ∀ (r : RelID), r ∈ rels → r.target.id < w.pool.ents.length)
    (hfew : w.tables.length < maxU32) (hrows : w.entities.length + 1 < 2 ^ 32)
    (hnp : panicOf (opAdd run p e ids vals rels w) = none) :
    Good (opAdd run p e ids vals rels w).state := by
  obtain ⟨fl, ht, hl, hno⟩ := h
  have hent : w.entities[e.id]? = some ((w.index e.id).1, (w.index e.id).2) := by
    simp only [World.index, List.getD_eq_getElem?_getD, List.getElem?_eq_getElem hlt,
      Option.getD_some]
  obtain ⟨h2, hnf⟩ := ht.link.indexed_live hent hidx
  obtain ⟨u, hr⟩ := ok_of_panicOf hnp
  have post := opAdd_rel_spec run p ht hl hno h2 hnf ha (by rw [← ht.link.lenEq]; exact hlt)
    hreg hnd hin hrc htin hfew hrows hr
  exact ⟨fl, post.tinv, by show (opAdd run p e ids vals rels w).state.locks.isLocked = false
                           rw [post.locks]; exact hl,
    fun evt => by rw [post.obs]; exact hno evt⟩

end Ark
