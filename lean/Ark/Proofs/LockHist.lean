/-
  Ark.Proofs.LockHist — property C07 over whole histories, part 1: the invariant of the history
  machine of `Ark.Refine` WITHOUT the assumption that the world is unlocked, and what the
  operations of that machine do on a locked world.

  * `Refine.HInv' s fl` — `Refine.HInv s fl` without its field `unlocked`.  `HInv.toHInv'`,
    `HInv'.toHInv` (an unlocked state satisfying `HInv'` satisfies `HInv`), `HInv'.withLocks`
    (no field of `HInv'` reads the lock).
  * `Op.structural` — every operation of `Refine.Op` but `set`.
  * `lockedClass`, `exec_structural_locked` — **on a locked world every structural operation of
    the machine panics and returns exactly the world it was called on**.  The class is `locked`,
    except: `reg` panics `registerLocked` (or `registryFull` when the registry is full: that
    check comes first), and `Add`/`Remove` through `Unsafe`/`Map` and `Unsafe.Exchange` on a dead
    handle panic `deadEntity` (they check liveness before they reach the lock check).
  * `exec_set_cases`, `exec_set_withLocks`, `step_set_withLocks` — `Set` does not read or write the
    lock: running it on the world with another lock state gives the same result with that lock
    state.
  * `HInv'.step_set` — `Set` on ANY state (locked or not) satisfying `HInv'` has its usual effect:
    everything `Refine.StepGoal` says (`StepGoal'`), and the lock is untouched.
  * `HInv'.step_unlocked` — on an unlocked state every operation has the effect `Refine.step_goal`
    describes.

  Kernel-only proofs, core Lean only.
-/
import Ark.Proofs.QueryExact
import Ark.Proofs.Refine
import Ark.Proofs.BatchExchangeSpec
import Ark.Proofs.Rejects

set_option autoImplicit false

namespace Ark

open World Ark.Props.C01World

namespace Refine

/-! ## 1. the invariant without `unlocked` -/

/-- the state with another lock -/
def St.withLocks (s : St) (l : Lock) : St := ⟨s.w.withLocks l, s.issued, s.ss⟩

@[simp] theorem St.withLocks_w (s : St) (l : Lock) : (s.withLocks l).w = s.w.withLocks l := rfl
@[simp] theorem St.withLocks_issued (s : St) (l : Lock) : (s.withLocks l).issued = s.issued := rfl
@[simp] theorem St.withLocks_ss (s : St) (l : Lock) : (s.withLocks l).ss = s.ss := rfl

theorem St.withLocks_self (s : St) : s.withLocks s.w.locks = s := rfl

theorem St.withLocks_withLocks (s : St) (l l' : Lock) : (s.withLocks l).withLocks l' = s.withLocks l' :=
  rfl

/-- **the inductive invariant of the history machine, without "the world is unlocked"**: the
    fields of `Refine.HInv` except `unlocked` -/
structure HInv' (s : St) (fl : List Nat) : Prop where
  cinv : CInv s.w fl
  ginv : Pool.GInv s.ps fl
  nodup : s.issued.Nodup
  /-- the specification's registry is the model's -/
  zstEq : s.ss.zst = s.w.kinds.map (·.zst)
  maxc : s.w.maxComps = 256
  /-- **refinement**: every entry of the specification is realised by the world -/
  ok : ∀ (e : Ent) (cs : Comps), (e, cs) ∈ s.ss.ents → EntOK s.w s.w.kinds.length e cs

theorem HInv.toHInv' {s : St} {fl : List Nat} (H : HInv s fl) : HInv' s fl :=
  ⟨H.cinv, H.ginv, H.nodup, H.zstEq, H.maxc, H.ok⟩

/-- an unlocked state satisfying `HInv'` satisfies `HInv`: the whole theory of `Ark.Refine`
    applies to it -/
theorem HInv'.toHInv {s : St} {fl : List Nat} (H : HInv' s fl) (hu : s.w.isLocked = false) :
    HInv s fl :=
  ⟨H.cinv, H.ginv, hu, H.nodup, H.zstEq, H.maxc, H.ok⟩

theorem hinv_iff {s : St} {fl : List Nat} : HInv s fl ↔ HInv' s fl ∧ s.w.isLocked = false :=
  ⟨fun H => ⟨H.toHInv', H.unlocked⟩, fun h => h.1.toHInv h.2⟩

/-- no field of `HInv'` reads the lock -/
theorem HInv'.withLocks {s : St} {fl : List Nat} (H : HInv' s fl) (l : Lock) :
    HInv' (s.withLocks l) fl where
  cinv := cinv_withLocks H.cinv l s.w.log
  ginv := H.ginv
  nodup := H.nodup
  zstEq := H.zstEq
  maxc := H.maxc
  ok := fun e cs hm => (H.ok e cs hm).frame ⟨fun _ => rfl, rfl⟩

theorem hinv'_init (cap rel : Nat) : HInv' (St.init cap rel) [] := (hinv_init cap rel).toHInv'

/-! ## 2. structural operations on a locked world -/

/-- the structure-changing operations of the machine: all but `Set` -/
def Op.structural : Op → Bool
  | .set _ _ => false
  | _ => true

/-- the class of the panic of a structural operation on a locked world: `locked`, except that
    * the registration of a new component type panics `registerLocked` (the registration is rolled
      back), or `registryFull` when the registry is full (that check comes first);
    * `Add`/`Remove` through `Unsafe`/`Map` and `Unsafe.Exchange` check that the entity is alive
      before they reach the lock check, so on a dead handle they panic `deadEntity`. -/
def lockedClass (w : World) : Op → PanicKind
  | .reg _ _ => if w.kinds.length < w.maxComps then .registerLocked else .registryFull
  | .add p e _ _ => if p != .typed && !w.alive e then .deadEntity else .locked
  | .rem p e _ => if p != .typed && !w.alive e then .deadEntity else .locked
  | .xchg p e _ _ _ => if p == .unsafe_ && !w.alive e then .deadEntity else .locked
  | _ => .locked

/-- **on a locked world every structural operation panics and returns exactly the world it was
    called on**, with the class `lockedClass w op`. -/
theorem exec_structural_locked (run : ProbeRunner) (w : World) (hl : w.isLocked = true) (op : Op)
    (hs : op.structural = true) : exec run w op = .panic (lockedClass w op) w := by
  cases op with
  | reg size z =>
    by_cases hlt : w.kinds.length < w.maxComps
    · simp only [exec, lockedClass, registerComponent_locked w hl _ hlt, if_pos hlt]
    · have hfull : w.maxComps ≤ w.kinds.length := by omega
      simp only [exec, lockedClass, registerComponent_full _ w hfull, if_neg hlt]
  | new p ids vals =>
    have hpre : preCheck p ids [] w = .ok () w := by cases p <;> rfl
    simp only [exec, lockedClass, opNewEntity, bind, M.bind, hpre, newEntityCore_locked w hl]
  | new0 => simp only [exec, lockedClass, opNewEntity0_locked run w hl]
  | add p e ids vals =>
    have hpre : ∀ (q : Path), preCheck q ids [] w = .ok () w := fun q => preCheck_nil_apply q ids w
    cases ha : w.alive e <;> cases p <;>
      simp [exec, lockedClass, opAdd, bind, M.bind, M.get, M.assert, ha, hpre, addCore_locked w hl]
  | rem p e ids =>
    cases ha : w.alive e <;> cases p <;>
      simp [exec, lockedClass, opRemove, bind, M.bind, M.get, M.assert, ha, removeCore_locked run w hl]
  | xchg p e add rem vals =>
    have hpre : preCheck p add [] w = .ok () w := by cases p <;> rfl
    cases ha : w.alive e <;> cases p <;>
      simp [exec, lockedClass, opExchange, bind, M.bind, M.get, M.assert, ha, hpre,
        exchangeCore_locked run w hl]
  | set e vals => cases hs
  | del e => simp only [exec, lockedClass, opRemoveEntity_locked run w hl]
  | copy e => simp only [exec, lockedClass, opCopyEntity_locked run w hl]
  | shrink b => simp only [exec, lockedClass, opShrink_locked w hl]
  | reset => simp only [exec, lockedClass, opReset_locked w hl]

/-! ## 3. `Set` does not read or write the lock -/

/-- apply `f` to the state a result carries -/
def mapState {α : Type} (f : World → World) : Res World α → Res World α
  | .ok a w => .ok a (f w)
  | .panic k w => .panic k (f w)

/-- `Set` in a world without `OnSetComponents` observers either panics without effect or writes
    the values -/
theorem exec_set_cases (run : ProbeRunner) (w : World)
    (hno : w.obs.hasObservers Ev.onSetComponents = false) (e : Ent) (vals : Comps) :
    (∃ k, exec run w (.set e vals) = .panic k w) ∨
    exec run w (.set e vals) = .ok none (writeValsW w e vals) := by
  cases ha : w.alive e with
  | false =>
    left
    exact ⟨.deadEntity, by simp only [exec, World.opSet_dead run w e ha (keys vals) vals]⟩
  | true =>
    cases hall : ((keys vals).all fun c => (w.tbl (w.index e.id).1).has c) with
    | false =>
      left
      exact ⟨.missing, by simp only [exec, World.opSet_missing run w e (keys vals) vals ha hall]⟩
    | true =>
      right
      simp only [exec, World.opSet_eq run w e (keys vals) vals ha hall hno]

/-- **`Set` commutes with a change of the lock state** -/
theorem exec_set_withLocks (run : ProbeRunner) (w : World)
    (hno : w.obs.hasObservers Ev.onSetComponents = false) (l : Lock) (e : Ent) (vals : Comps) :
    exec run (w.withLocks l) (.set e vals) = mapState (·.withLocks l) (exec run w (.set e vals)) := by
  cases ha : w.alive e with
  | false =>
    have ha' : (w.withLocks l).alive e = false := ha
    simp only [exec, World.opSet_dead run w e ha (keys vals) vals,
      World.opSet_dead run (w.withLocks l) e ha' (keys vals) vals, mapState]
  | true =>
    have ha' : (w.withLocks l).alive e = true := ha
    cases hall : ((keys vals).all fun c => (w.tbl (w.index e.id).1).has c) with
    | false =>
      have hall' : ((keys vals).all fun c =>
          ((w.withLocks l).tbl ((w.withLocks l).index e.id).1).has c) = false := hall
      simp only [exec, World.opSet_missing run w e (keys vals) vals ha hall,
        World.opSet_missing run (w.withLocks l) e (keys vals) vals ha' hall', mapState]
    | true =>
      have hall' : ((keys vals).all fun c =>
          ((w.withLocks l).tbl ((w.withLocks l).index e.id).1).has c) = true := hall
      have hno' : (w.withLocks l).obs.hasObservers Ev.onSetComponents = false := hno
      simp only [exec, World.opSet_eq run w e (keys vals) vals ha hall hno,
        World.opSet_eq run (w.withLocks l) e (keys vals) vals ha' hall' hno', mapState]
      rfl

/-- the machine step for `Set` commutes with a change of the lock state -/
theorem step_set_withLocks (run : ProbeRunner) (s : St)
    (hno : s.w.obs.hasObservers Ev.onSetComponents = false) (l : Lock) (e : Ent) (vals : Comps) :
    step run (s.withLocks l) (.set e vals) = (step run s (.set e vals)).withLocks l := by
  by_cases hg : guard s (.set e vals) = true
  · have hg' : guard (s.withLocks l) (.set e vals) = true := hg
    rw [step_of_guard hg, step_of_guard hg', St.withLocks_w, exec_set_withLocks run s.w hno]
    cases exec run s.w (.set e vals) <;> rfl
  · have hg' : ¬ guard (s.withLocks l) (.set e vals) = true := hg
    have h1 : step run s (.set e vals) = s := by rw [step, if_neg hg]
    have h2 : step run (s.withLocks l) (.set e vals) = s.withLocks l := by rw [step, if_neg hg']
    rw [h1, h2]

/-- the machine step for `Set` leaves the lock alone -/
theorem step_set_locks (run : ProbeRunner) (s : St)
    (hno : s.w.obs.hasObservers Ev.onSetComponents = false) (e : Ent) (vals : Comps) :
    (step run s (.set e vals)).w.locks = s.w.locks := by
  by_cases hg : guard s (.set e vals) = true
  · rw [step_of_guard hg]
    rcases exec_set_cases run s.w hno e vals with ⟨k, h⟩ | h <;> rw [h] <;> rfl
  · rw [step, if_neg hg]

/-- what a step of the machine guarantees, without reference to the lock: `Refine.StepGoal` with
    `HInv'` in place of `HInv` -/
def StepGoal' (run : ProbeRunner) (s : St) (op : Op) : Prop :=
  (∃ fl', HInv' (step run s op) fl') ∧
  (step run s op).w.tables.length ≤ s.w.tables.length + 1 ∧
  (step run s op).w.entities.length ≤ s.w.entities.length + 1 ∧
  (guard s op = true → ¬ pre s.ss op → ∃ k, exec run s.w op = .panic k s.w) ∧
  (guard s op = true → pre s.ss op → ∃ r w', exec run s.w op = .ok r w') ∧
  PoolStep s.w.pool (step run s op).w.pool

theorem StepGoal.toStepGoal' {run : ProbeRunner} {s : St} {op : Op} (h : StepGoal run s op) :
    StepGoal' run s op :=
  ⟨⟨h.1.choose, h.1.choose_spec.toHInv'⟩, h.2⟩

/-- **`Set` keeps working on a locked world**: on every state satisfying `HInv'` — locked or
    not — the step for `Set` has the effect `Refine.step_set` describes (the invariant is kept,
    a call whose precondition fails is rejected with the world unchanged, a call whose
    precondition holds succeeds and the specification — hence, by the refinement `HInv'.ok`, every
    later read — records the written values), and the lock is untouched. -/
theorem HInv'.step_set (run : ProbeRunner) {s : St} {fl : List Nat} (H : HInv' s fl) (e : Ent)
    (vals : Comps) :
    StepGoal' run s (.set e vals) ∧ (step run s (.set e vals)).w.locks = s.w.locks := by
  have hno := H.cinv.noObs Ev.onSetComponents
  have hlk := step_set_locks run s hno e vals
  refine ⟨?_, hlk⟩
  -- the twin state with the initial (unlocked) lock
  have H0 : HInv (s.withLocks {}) fl := (H.withLocks {}).toHInv rfl
  obtain ⟨⟨fl', G⟩, g1, g2, g3, g4, g5⟩ := Refine.step_set run H0 e vals
  rw [step_set_withLocks run s hno] at G g1 g2 g5
  have hback : ((step run s (.set e vals)).withLocks {}).withLocks s.w.locks =
      step run s (.set e vals) := by
    rw [St.withLocks_withLocks, ← hlk]; rfl
  refine ⟨⟨fl', ?_⟩, g1, g2, ?_, ?_, g5⟩
  · rw [← hback]; exact G.toHInv'.withLocks _
  · intro hg hnp
    obtain ⟨k, hk⟩ := g3 hg hnp
    rw [St.withLocks_w, exec_set_withLocks run s.w hno] at hk
    rcases exec_set_cases run s.w hno e vals with ⟨k', h⟩ | h
    · exact ⟨k', h⟩
    · rw [h] at hk; cases hk
  · intro hg hp
    obtain ⟨r, w', hk⟩ := g4 hg hp
    rw [St.withLocks_w, exec_set_withLocks run s.w hno] at hk
    rcases exec_set_cases run s.w hno e vals with ⟨k', h⟩ | h
    · rw [h] at hk; cases hk
    · exact ⟨_, _, h⟩

/-- on an unlocked state every operation has the effect `Refine.step_goal` describes -/
theorem HInv'.step_unlocked (run : ProbeRunner) {s : St} {fl : List Nat} (H : HInv' s fl)
    (hu : s.w.isLocked = false) (hfew : s.w.tables.length < maxU32)
    (hent : s.w.entities.length + 1 < 2 ^ 32) (op : Op) : StepGoal' run s op :=
  (step_goal run (H.toHInv hu) hfew hent op).toStepGoal'

end Refine

end Ark
